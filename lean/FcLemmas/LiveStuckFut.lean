/-
  FcLemmas/LiveStuckFut.lean — the future combinators (join, try_join, race, race_ok) under the
  wake-only executor when every child is EITHER a well-behaved future OR never completes.

  This is FcLemmas/LiveLoop.lean + FcLemmas/Live2.lean with the per-child clause weakened:
  `FutN K fr w c` — `K c = true`: child `c` is a well-behaved future that has not resolved (remaining
  script `Pending … Pending Ready`, latest answer none or `Pending`, not released) or has resolved
  (latest answer = the result `fr c` of its script's last step, a `Ready`; NO step left);
  `K c = false`: child `c` never completes (remaining script `Pending … Pending`, possibly empty;
  latest answer none or `Pending`; not released).
  Consequences for the progress bookkeeping of a poll (`PInvLN`): a polled child has consumed a step
  only if it had one (`ps`), and the task waker was only invoked after some child consumed a step
  (`wk`: an exhausted child fires nothing).
-/
import FcLemmas.LiveStuck
import FcLemmas.Live2Inst
set_option linter.unusedSimpArgs false
set_option linter.unusedVariables false

namespace Fc
namespace LiveStuck
open Mon Live

/-! ### scripts -/

/-- the answer of a script's last step -/
def finalRes (l : List Step) : Res :=
  match l.getLast? with
  | some st => st.res
  | none => .pend

theorem finalRes_single (s : Step) : finalRes [s] = s.res := by simp [finalRes]

theorem finalRes_cons (s : Step) (rest : List Step) (h : rest ≠ []) :
    finalRes (s :: rest) = finalRes rest := by
  cases rest with
  | nil => exact absurd rfl h
  | cons b l => simp [finalRes, List.getLast?_cons_cons]

/-- the last step of a well-behaved future resolves, to the value `Live.finalVal` names -/
theorem finalRes_future (l : List Step) (h : Exec.futureScript l = true) :
    ∃ ok, finalRes l = .ready ok (finalVal l) := by
  induction l with
  | nil => exact Bool.noConfusion h
  | cons s rest ih =>
    rcases fs_cons s rest h with ⟨h1, ok, v, h2⟩ | ⟨h1, _, h3⟩
    · subst h1
      exact ⟨ok, by rw [finalRes_single, finalVal_single s ok v h2, h2]⟩
    · obtain ⟨ok, hok⟩ := ih h3
      exact ⟨ok, by rw [finalRes_cons s rest h1, finalVal_cons s rest h1]; exact hok⟩

theorem ps_cons (s : Step) (rest : List Step) :
    Exec.pendScript (s :: rest) = true ↔ s.res = .pend ∧ Exec.pendScript rest = true := by
  simp [Exec.pendScript]

/-- a never-completing child answers `Pending` -/
theorem never_resOf (w : World) (i : Nat) (h : Exec.pendScript (w.scripts i) = true) :
    w.resOf i = .pend ∧ Exec.pendScript (w.scripts i).tail = true := by
  unfold World.resOf World.stepOf
  cases hs : w.scripts i with
  | nil => exact ⟨rfl, rfl⟩
  | cons s rest =>
    rw [hs] at h
    exact (ps_cons s rest).mp h

/-- a well-behaved script is not a never-completing one -/
theorem not_both (l : List Step) (h1 : Exec.futureScript l = true) (h2 : Exec.pendScript l = true) :
    False := by
  induction l with
  | nil => exact Bool.noConfusion h1
  | cons s rest ih =>
    have hp := (ps_cons s rest).mp h2
    rcases fs_cons s rest h1 with ⟨_, ok, v, h3⟩ | ⟨_, _, h3⟩
    · rw [hp.1] at h3; cases h3
    · exact ih h3 hp.2

theorem fut_resOf' (w : World) (i : Nat) (h : Exec.futureScript (w.scripts i) = true) :
    ((w.scripts i).tail = [] ∧ w.resOf i = finalRes (w.scripts i) ∧ ∃ ok v, w.resOf i = .ready ok v) ∨
    ((w.scripts i).tail ≠ [] ∧ w.resOf i = .pend ∧ Exec.futureScript (w.scripts i).tail = true ∧
      finalRes (w.scripts i).tail = finalRes (w.scripts i)) := by
  unfold World.resOf World.stepOf
  cases hs : w.scripts i with
  | nil => rw [hs] at h; exact Bool.noConfusion h
  | cons s rest =>
    rw [hs] at h
    rcases fs_cons s rest h with ⟨h1, ok, v, h2⟩ | ⟨h1, h2, h3⟩
    · left
      subst h1
      exact ⟨rfl, (finalRes_single s).symm, ok, v, h2⟩
    · right
      exact ⟨h1, h2, h3, (finalRes_cons s rest h1).symm⟩

/-- an exhausted child: `childBegin`, `childEnd Pending`, nothing in between -/
theorem pollChild_trace_nil (w : World) (c s : Nat) (h : w.scripts c = []) :
    (w.pollChild c s).trace = .childEnd c .pend :: .childBegin c s (w.wakerFor s) :: w.trace := by
  simp [World.pollChild, World.stepOf, World.resOf, h, World.fires, World.emit]

theorem wokeSince_pollChild_nil (w : World) (c s : Nat) (evs : List Ev) (h : w.scripts c = [])
    (hevs : ∀ e ∈ evs, isOwnEv e = true) :
    wokeSince ((w.pollChild c s).emits evs).trace = wokeSince w.trace := by
  rw [emits_own_skip wokeSince wokeSince_own _ _ hevs, pollChild_trace_nil w c s h]
  simp [wokeSince]

/-- every `Ready` any child answered so far, newest first -/
def resolvedR : List Ev → List Res
  | [] => []
  | .childEnd _ (.ready ok v) :: t => .ready ok v :: resolvedR t
  | _ :: t => resolvedR t

theorem resolvedR_own (e : Ev) (t : List Ev) (h : isOwnEv e = true) :
    resolvedR (e :: t) = resolvedR t := by
  cases e <;> simp_all [isOwnEv, resolvedR]

theorem resolvedR_fires (l t : List Ev) (hl : ∀ e ∈ l, isFireEv e = true) :
    resolvedR (l ++ t) = resolvedR t :=
  skip_seg resolvedR isFireEv (fun e t h => by cases e <;> simp_all [isFireEv, resolvedR]) l hl t

theorem resolvedR_pollChild_emits (w : World) (c s : Nat) (evs : List Ev)
    (hevs : ∀ e ∈ evs, isOwnEv e = true) :
    resolvedR ((w.pollChild c s).emits evs).trace =
      match w.resOf c with
      | .ready ok v => .ready ok v :: resolvedR w.trace
      | _ => resolvedR w.trace := by
  rw [emits_own_skip resolvedR resolvedR_own _ _ hevs]
  obtain ⟨l, hl, hp⟩ := World.pollChild_seg w c s
  rw [hl]
  have h : resolvedR (l ++ .childBegin c s (w.wakerFor s) :: w.trace) = resolvedR w.trace := by
    rw [resolvedR_fires _ _ hp]; simp [resolvedR]
  cases w.resOf c <;> simp [resolvedR, h]

theorem readies_resolvedR : ∀ (t : List Ev) (v : Nat), v ∈ readies t → ∃ ok, Res.ready ok v ∈ resolvedR t := by
  intro t
  induction t with
  | nil => intro v h; simp [readies] at h
  | cons e t ih =>
    intro v h
    cases e with
    | childEnd c r =>
      cases r with
      | ready ok v' =>
        simp only [readies, List.mem_cons] at h
        rcases h with h | h
        · subst h; exact ⟨ok, by simp [resolvedR]⟩
        · obtain ⟨ok', h'⟩ := ih v h; exact ⟨ok', by simp [resolvedR, h']⟩
      | _ => simpa [resolvedR] using ih v (by simpa [readies] using h)
    | _ => simpa [resolvedR] using ih v (by simpa [readies] using h)

theorem oks_resolvedR : ∀ (t : List Ev) (v : Nat), v ∈ oks t → Res.ready true v ∈ resolvedR t := by
  intro t
  induction t with
  | nil => intro v h; simp [oks] at h
  | cons e t ih =>
    intro v h
    cases e with
    | childEnd c r =>
      rcases r with _ | ⟨ok, v'⟩ | v' | _ | _ <;> try cases ok
      all_goals simp only [oks, resolvedR, List.mem_cons] at h ⊢
      all_goals first
        | exact ih v h
        | exact Or.inr (ih v h)
        | (rcases h with h | h
           · subst h; exact Or.inl rfl
           · exact Or.inr (ih v h))
    | _ => simpa [resolvedR] using ih v (by simpa [oks] using h)

theorem errs_resolvedR : ∀ (t : List Ev) (v : Nat), v ∈ errs t → Res.ready false v ∈ resolvedR t := by
  intro t
  induction t with
  | nil => intro v h; simp [errs] at h
  | cons e t ih =>
    intro v h
    cases e with
    | childEnd c r =>
      rcases r with _ | ⟨ok, v'⟩ | v' | _ | _ <;> try cases ok
      all_goals simp only [errs, resolvedR, List.mem_cons] at h ⊢
      all_goals first
        | exact ih v h
        | exact Or.inr (ih v h)
        | (rcases h with h | h
           · subst h; exact Or.inl rfl
           · exact Or.inr (ih v h))
    | _ => simpa [resolvedR] using ih v (by simpa [errs] using h)

/-! ### the World-aware invariant -/

def FutN (K : Nat → Bool) (fr : Nat → Res) (w : World) (c : Nat) : Prop :=
  (K c = true ∧ Exec.futureScript (w.scripts c) = true ∧
      (lastRes w.trace c = none ∨ lastRes w.trace c = some .pend) ∧ gone w.trace c = false ∧
      finalRes (w.scripts c) = fr c)
  ∨ (K c = true ∧ lastRes w.trace c = some (fr c) ∧ (∃ ok v, fr c = .ready ok v) ∧ w.scripts c = [])
  ∨ (K c = false ∧ Exec.pendScript (w.scripts c) = true ∧
      (lastRes w.trace c = none ∨ lastRes w.trace c = some .pend) ∧ gone w.trace c = false)

structure WInvN (K : Nat → Bool) (fr : Nat → Res) (n : Nat) (w : World) : Prop where
  fut : ∀ c, c < n → FutN K fr w c
  hw  : ∀ c, (w.handed c).head? = lastWk w.trace c
  lw  : ∀ c, lastRes w.trace c ≠ none → lastWk w.trace c ≠ none
  ep  : ∀ c, everPolled w.trace c = true → lastRes w.trace c ≠ none
  /-- every `Ready` some child answered is the result of a well-behaved child's last step -/
  rd  : ∀ r, r ∈ resolvedR w.trace → ∃ c, c < n ∧ K c = true ∧ fr c = r

structure PInvLN (K : Nat → Bool) (fr : Nat → Res) (n : Nat) (len0 : Nat → Nat) (t0 : List Ev)
    (w : World) : Prop where
  wi : WInvN K fr n w
  le : ∀ c, (w.scripts c).length ≤ len0 c
  ps : ∀ c, polledSince w.trace c = true → c < n ∧ (len0 c ≠ 0 → (w.scripts c).length < len0 c)
  wk : wokeSince w.trace = true → ∃ c, c < n ∧ (w.scripts c).length < len0 c
  ab : atPollBegin w.trace = t0
  sp : spent false w.trace = false
  pn : panicSince w.trace = false

variable {K : Nat → Bool} {fr : Nat → Res}

/-- an unresolved child: what it answers, and its clause afterwards -/
theorem futn_step (w : World) (i : Nat) (hf : FutN K fr w i)
    (hun : ∀ ok v, lastRes w.trace i ≠ some (.ready ok v)) :
    w.resOf i ≠ .panic ∧ gone w.trace i = false ∧
    ((w.resOf i = .pend ∧
        ((K i = true ∧ Exec.futureScript (w.scripts i).tail = true ∧
            finalRes (w.scripts i).tail = fr i) ∨
         (K i = false ∧ Exec.pendScript (w.scripts i).tail = true))) ∨
     (K i = true ∧ w.resOf i = fr i ∧ (∃ ok v, fr i = .ready ok v) ∧ (w.scripts i).tail = [])) := by
  rcases hf with ⟨hk, hfs, _, hg, hfr⟩ | ⟨_, hl, ⟨ok, v, hr⟩, _⟩ | ⟨hk, hps, _, hg⟩
  · rcases fut_resOf' w i hfs with ⟨h1, h2, ok, v, h3⟩ | ⟨h1, h2, h3, h4⟩
    · refine ⟨by rw [h3]; simp, hg, Or.inr ⟨hk, by rw [h2, hfr], ⟨ok, v, by rw [← hfr, ← h2, h3]⟩, h1⟩⟩
    · exact ⟨by rw [h2]; simp, hg, Or.inl ⟨h2, Or.inl ⟨hk, h3, by rw [h4, hfr]⟩⟩⟩
  · rw [hr] at hl; exact absurd hl (hun ok v)
  · obtain ⟨h1, h2⟩ := never_resOf w i hps
    exact ⟨by rw [h1]; simp, hg, Or.inl ⟨h1, Or.inr ⟨hk, h2⟩⟩⟩

/-- one child poll (with the ownership events of its handler) -/
theorem pinvn_pollChild {n : Nat} {len0 : Nat → Nat} {t0 : List Ev} (w : World) (i : Nat)
    (hi : i < n) (h : PInvLN K fr n len0 t0 w)
    (hun : ∀ ok v, lastRes w.trace i ≠ some (.ready ok v))
    (evs : List Ev) (hevs : ∀ e ∈ evs, isOwnEv e = true)
    (hdrop : ∀ c, Ev.childDropped c ∈ evs → c = i ∧ ∃ ok v, w.resOf i = .ready ok v) :
    w.resOf i ≠ .panic ∧ PInvLN K fr n len0 t0 ((w.pollChild i i).emits evs) := by
  obtain ⟨hnp, hgi, hstep⟩ := futn_step w i (h.wi.fut i hi) hun
  have hlen : (w.scripts i).tail.length ≤ (w.scripts i).length := by simp
  have hlt : w.scripts i ≠ [] → (w.scripts i).tail.length < (w.scripts i).length := by
    intro hne
    cases hs : w.scripts i with
    | nil => exact absurd hs hne
    | cons s rest => simp
  -- observations of the new world
  have hS : ∀ c, ((w.pollChild i i).emits evs).scripts c
      = if c = i then (w.scripts i).tail else w.scripts c := by
    intro c
    rw [emits_scripts, pollChild_scripts]
    by_cases hci : c = i
    · subst hci; simp
    · simp [upd_other _ _ _ _ hci, hci]
  have hLR : ∀ c, lastRes ((w.pollChild i i).emits evs).trace c
      = if i = c then some (w.resOf i) else lastRes w.trace c := by
    intro c; rw [C16.lastRes_emits_own _ _ hevs, C16.lastRes_pollChild]
  have hLW : ∀ c, lastWk ((w.pollChild i i).emits evs).trace c
      = if i = c then some (w.wakerFor i) else lastWk w.trace c := by
    intro c; rw [lastWk_emits_own _ _ hevs, lastWk_pollChild]
  have hEP : ∀ c, everPolled ((w.pollChild i i).emits evs).trace c
      = (decide (i = c) || everPolled w.trace c) := by
    intro c; rw [everPolled_emits_own _ _ hevs, everPolled_pollChild]
  have hPS : ∀ c, polledSince ((w.pollChild i i).emits evs).trace c
      = (decide (i = c) || polledSince w.trace c) := by
    intro c; rw [polledSince_emits_own _ _ hevs, polledSince_pollChild]
  have hG : ∀ c, Ev.childDropped c ∉ evs →
      gone ((w.pollChild i i).emits evs).trace c = gone w.trace c := by
    intro c hc; rw [gone_emits_not_mem _ _ _ hc, gone_pollChild]
  have hLenLe : ∀ c, (((w.pollChild i i).emits evs).scripts c).length ≤ (w.scripts c).length := by
    intro c
    rw [hS]
    by_cases hci : c = i
    · subst hci; simpa using hlen
    · simp only [hci, if_false]; exact Nat.le_refl _
  refine ⟨hnp, ⟨⟨?_, ?_, ?_, ?_, ?_⟩, ?_, ?_, ?_, ?_, ?_, ?_⟩⟩
  · -- FutN
    intro c hc
    by_cases hci : c = i
    · subst hci
      rcases hstep with ⟨hr, hcl⟩ | ⟨hk, hr, hrd, htl⟩
      · have hgn : gone ((w.pollChild c c).emits evs).trace c = false := by
          rw [hG c ?_]
          · exact hgi
          · intro hm
            obtain ⟨_, ok, v, hrr⟩ := hdrop c hm
            rw [hr] at hrr; cases hrr
        rcases hcl with ⟨hk, hfs, hfr⟩ | ⟨hk, hps⟩
        · left
          refine ⟨hk, by rw [hS]; simpa using hfs, Or.inr (by rw [hLR, hr]; simp), hgn,
            by rw [hS]; simpa using hfr⟩
        · right; right
          exact ⟨hk, by rw [hS]; simpa using hps, Or.inr (by rw [hLR, hr]; simp), hgn⟩
      · right; left
        exact ⟨hk, by rw [hLR, hr]; simp, hrd, by rw [hS]; simpa using htl⟩
    · have hic : ¬ i = c := fun hh => hci hh.symm
      have hg : gone ((w.pollChild i i).emits evs).trace c = gone w.trace c :=
        hG c (fun hm => hci (hdrop c hm).1)
      unfold FutN
      rw [hS, hLR, hg]
      simp only [hci, hic, if_false]
      exact h.wi.fut c hc
  · -- handed / lastWk
    intro c
    rw [hLW]
    have : ((w.pollChild i i).emits evs).handed = upd w.handed i (w.wakerFor i :: w.handed i) := by
      rw [← pollChild_handed]; rfl
    rw [this]
    by_cases hic : i = c
    · subst hic; simp
    · have hci : c ≠ i := fun hh => hic hh.symm
      simp only [hic, if_false, upd_other _ _ _ _ hci]
      exact h.wi.hw c
  · intro c hc
    rw [hLR] at hc
    rw [hLW]
    by_cases hic : i = c
    · simp [hic]
    · simp only [hic, if_false] at hc ⊢
      exact h.wi.lw c hc
  · intro c hc
    rw [hEP] at hc
    rw [hLR]
    by_cases hic : i = c
    · simp [hic]
    · simp only [hic, decide_false, Bool.false_or, if_false] at hc ⊢
      exact h.wi.ep c hc
  · -- resolved values
    intro v hv
    rw [resolvedR_pollChild_emits w i i evs hevs] at hv
    rcases hstep with ⟨hr, _⟩ | ⟨hk, hr, ⟨ok, v', hrd⟩, _⟩
    · rw [hr] at hv; exact h.wi.rd v hv
    · rw [hr, hrd] at hv
      simp only [List.mem_cons] at hv
      rcases hv with hv | hv
      · subst hv; exact ⟨i, hi, hk, hrd⟩
      · exact h.wi.rd v hv
  · -- no script grows
    intro c
    exact Nat.le_trans (hLenLe c) (h.le c)
  · -- a polled child that had a step has consumed one
    intro c hc
    rw [hPS] at hc
    by_cases hci : c = i
    · subst hci
      refine ⟨hi, fun h0 => ?_⟩
      rw [hS]; simp only [if_true]
      by_cases hne : w.scripts c = []
      · rw [hne]; simp; omega
      · have := hlt hne; have := h.le c; omega
    · have hic : ¬ i = c := fun hh => hci hh.symm
      simp only [hic, decide_false, Bool.false_or] at hc
      rw [hS]; simp only [hci, if_false]
      exact h.ps c hc
  · -- the task waker was only invoked after a step was consumed
    intro hwk
    by_cases hne : w.scripts i = []
    · rw [wokeSince_pollChild_nil w i i evs hne hevs] at hwk
      obtain ⟨c, hc, hl⟩ := h.wk hwk
      exact ⟨c, hc, Nat.lt_of_le_of_lt (hLenLe c) hl⟩
    · refine ⟨i, hi, ?_⟩
      rw [hS]; simp only [if_true]
      have := hlt hne; have := h.le i; omega
  · rw [atPollBegin_emits_own _ _ hevs, atPollBegin_pollChild]; exact h.ab
  · rw [spent_pollChild_emits _ _ _ _ hevs]; exact h.sp
  · rw [panicSince_emits_own _ _ hevs, panicSince_pollChild _ _ _ hnp]; exact h.pn

/-- `PInvLN` only looks at the scripts, the waker lists and the trace -/
theorem pinvn_congr {n : Nat} {len0 : Nat → Nat} {t0 : List Ev} {w w' : World}
    (hs : w'.scripts = w.scripts) (hh : w'.handed = w.handed) (ht : w'.trace = w.trace)
    (h : PInvLN K fr n len0 t0 w) : PInvLN K fr n len0 t0 w' := by
  refine ⟨⟨?_, ?_, ?_, ?_, ?_⟩, ?_, ?_, ?_, ?_, ?_, ?_⟩
  · intro c hc; unfold FutN; rw [hs, ht]; exact h.wi.fut c hc
  · intro c; rw [hh, ht]; exact h.wi.hw c
  · intro c; rw [ht]; exact h.wi.lw c
  · intro c; rw [ht]; exact h.wi.ep c
  · rw [ht]; exact h.wi.rd
  · intro c; rw [hs]; exact h.le c
  · intro c; rw [hs, ht]; exact h.ps c
  · rw [hs, ht]; exact h.wk
  · rw [ht]; exact h.ab
  · rw [ht]; exact h.sp
  · rw [ht]; exact h.pn

/-! ### through the poll skeleton -/

variable {P : Policy Fix}

/-- one loop iteration -/
theorem pinvn_visit (L : Lawful P)
    (hdrop : ∀ s i r c, Ev.childDropped c ∈ (P.handle s i r).evs → c = i ∧ ∃ ok v, r = .ready ok v)
    {n : Nat} {len0 : Nat → Nat} {t0 : List Ev} (e : Eng Fix) (i : Nat) (hi : i < n)
    (h : PInvLN K fr n len0 t0 e.w)
    (hun : P.eligible e.s i = true → ∀ ok v, lastRes e.w.trace i ≠ some (.ready ok v)) :
    PInvLN K fr n len0 t0 (Eng.visit P e i).1.w := by
  have hg' : PInvLN K fr n len0 t0 (Eng.gateW P e i) :=
    pinvn_congr (Sim.gateW_scripts' e i) (gateW_handed e i) (Sim.gateW_trace e i) h
  refine Eng.visit_ind P e i (fun r => PInvLN K fr n len0 t0 r.1.w) ?_ ?_ ?_ ?_
  · intro _ _; exact h
  · intro _ _; exact hg'
  · intro _ hg hp
    rw [L.child_id] at hp
    have hel : P.eligible e.s i = true := by
      unfold Eng.gateGo at hg; simp only [Bool.and_eq_true] at hg; exact hg.1
    have := (pinvn_pollChild (Eng.gateW P e i) i hi hg'
      (by rw [Sim.gateW_trace]; exact hun hel) [] (by simp) (by simp)).1
    rw [Sim.gateW_resOf'] at this
    exact absurd hp this
  · intro _ hg hp
    rw [L.child_id] at hp ⊢
    have hel : P.eligible e.s i = true := by
      unfold Eng.gateGo at hg; simp only [Bool.and_eq_true] at hg; exact hg.1
    have := (pinvn_pollChild (Eng.gateW P e i) i hi hg'
      (by rw [Sim.gateW_trace]; exact hun hel) (P.handle e.s i (e.w.resOf i)).evs
      (L.evs_handle _ _ _) (by
        intro c hc
        rw [Sim.gateW_resOf']
        exact hdrop _ _ _ c hc)).2
    exact pinvn_congr (by simp [kop_scripts]) (by simp [kop_handed]) (by simp) this

variable {n : Nat} {I : Fix → List Ev → Prop} {J : Fix → List Ev → List Nat → Prop}
  {Fin : Bool → List Nat → Prop} {m : Mode}

theorem pinvn_scan (FL : Live2.FutLike P n I J Fin) {len0 : Nat → Nat} {t0 : List Ev} :
    ∀ (l : List Nat) (e : Eng Fix), e.w.mode = m → J e.s e.w.trace l →
      PInvLN K fr n len0 t0 e.w → PInvLN K fr n len0 t0 (Eng.scan P l e).1.w := by
  intro l
  induction l with
  | nil => intro e _ _ h; exact h
  | cons i rest ih =>
    intro e hm hJ h
    have hi : i < n := FL.jlt _ _ _ _ hJ
    have hun : P.eligible e.s i = true → ∀ ok v, lastRes e.w.trace i ≠ some (.ready ok v) :=
      fun hel => FL.jun _ _ _ _ hJ hel
    have hv := pinvn_visit FL.conc.law FL.hdrop e i hi h hun
    have hT := Sim.visitT (FL.sim m) e i rest hm (Sim.scriptsOk_any _) hJ
    unfold Eng.scan
    cases hvis : (Eng.visit P e i).2 with
    | some o => exact hv
    | none => exact ih _ hT.1 (hT.2.2.1 hvis) hv

/-- what is known right after a top-level poll -/
structure PEndN (K : Nat → Bool) (fr : Nat → Res) (n : Nat) (len0 : Nat → Nat) (t0 : List Ev)
    (w : World) : Prop where
  wi : WInvN K fr n w
  le : ∀ c, (w.scripts c).length ≤ len0 c
  ps : ∀ c, polledSince w.trace c = true → c < n ∧ (len0 c ≠ 0 → (w.scripts c).length < len0 c)
  wk : wokeSince w.trace = true → ∃ c, c < n ∧ (w.scripts c).length < len0 c
  ab : atPollBegin w.trace = t0
  shape : ∃ o t, w.trace = .pollEnd o :: t ∧ spent false t = false ∧ panicSince t = false

theorem pendn_of_pinvn {len0 : Nat → Nat} {t0 : List Ev} {w : World}
    (h : PInvLN K fr n len0 t0 w) (o : Outcome) : PEndN K fr n len0 t0 (w.emit (.pollEnd o)) := by
  refine ⟨⟨?_, ?_, ?_, ?_, ?_⟩, h.le, ?_, ?_, ?_, ⟨o, w.trace, rfl, h.sp, h.pn⟩⟩
  · intro c hc
    have := h.wi.fut c hc
    unfold FutN at this ⊢
    simpa [lastRes, gone] using this
  · intro c; simpa [lastWk] using h.wi.hw c
  · intro c; simpa [lastRes, lastWk] using h.wi.lw c
  · intro c; simpa [lastRes, everPolled] using h.wi.ep c
  · simpa [resolvedR] using h.wi.rd
  · intro c; simpa [polledSince] using h.ps c
  · simpa [wokeSince, polledSince] using h.wk
  · simpa [atPollBegin] using h.ab

theorem pinvn_begin {w : World} (wid : Nat) (hw : WInvN K fr n w)
    (hsp : spent false w.trace = false) :
    PInvLN K fr n (fun c => (w.scripts c).length) w.trace ((w.emit (.pollBegin wid)).setWaker wid) := by
  refine ⟨⟨?_, ?_, ?_, ?_, ?_⟩, fun c => Nat.le_refl _, ?_, ?_, rfl, ?_, rfl⟩
  · intro c hc
    have := hw.fut c hc
    unfold FutN at this ⊢
    simpa [lastRes, gone] using this
  · intro c; simpa [lastWk] using hw.hw c
  · intro c; simpa [lastRes, lastWk] using hw.lw c
  · intro c; simpa [lastRes, everPolled] using hw.ep c
  · simpa [resolvedR] using hw.rd
  · intro c hc; simp [polledSince] at hc
  · intro hc; simp [wokeSince] at hc
  · simpa [spent, finalSeen, alive, panickedSeen] using hsp

theorem pendn_poll (FL : Live2.FutLike P n I J Fin)
    (e : Eng Fix) (wid : Nat) (hm : e.w.mode = m) (hI : I e.s e.w.trace)
    (hw : WInvN K fr n e.w) (hsp : spent false e.w.trace = false) :
    PEndN K fr n (fun c => (e.w.scripts c).length) e.w.trace (Eng.poll P e wid).w := by
  have hb := pinvn_begin wid hw hsp
  unfold Eng.poll
  split
  · rename_i o _
    have hb' : PInvLN K fr n (fun c => (e.w.scripts c).length) e.w.trace (e.w.emit (.pollBegin wid)) :=
      pinvn_congr (w := (e.w.emit (.pollBegin wid)).setWaker wid) rfl rfl rfl hb
    exact pendn_of_pinvn hb' o
  · rename_i hpre
    unfold Eng.body
    simp only
    split
    · exact pendn_of_pinvn hb _
    · have hJ := (FL.sim m).start _ _ wid hpre hI
      have hs := pinvn_scan (m := m) FL (P.order e.s)
        { w := (e.w.emit (.pollBegin wid)).setWaker wid, s := P.start e.s } hm hJ hb
      unfold Eng.close
      split
      · exact pendn_of_pinvn hs _
      · refine pendn_of_pinvn (pinvn_congr ?_ ?_ ?_ hs) _
        · simp [kop_scripts, emits_scripts]
        · simp [kop_handed]
        · simp [FL.hfin]

/-! ### the joint boundary invariant -/

structure LBN (P : Policy Fix) (I : Fix → List Ev → Prop) (m : Mode) (K : Nat → Bool)
    (fr : Nat → Res) (n : Nat) (e : Eng Fix) : Prop where
  mode : e.w.mode = m
  std : m = .std → C01.BInv P n e
  dir : m = .direct → C01D.BInv P n e
  b20 : C20.B20 P e
  fi : I e.s e.w.trace
  wi : WInvN K fr n e.w
  sp : spent false e.w.trace = false
  lo : lastOut e.w.trace = none ∨ lastOut e.w.trace = some .pending
  pf : lastOut e.w.trace = some .pending → ∀ c, c < n → everPolled e.w.trace c = true

/-- the run has produced its final `Ready`; the functional invariant and the children's clauses
    are still available -/
def FinFut (I : Fix → List Ev → Prop) (K : Nat → Bool) (fr : Nat → Res) (n : Nat)
    (Fin : Bool → List Nat → Prop) (e : Eng Fix) : Prop :=
  ∃ ok vals t, e.w.trace = .pollEnd (.ready ok vals) :: t ∧ Fin ok vals ∧ I e.s e.w.trace ∧
    WInvN K fr n e.w

theorem lbn_quiet (e : Eng Fix) (h : LBN P I m K fr n e) : quiet n e.w.trace = true := by
  cases m with
  | std => exact C01.quiet_of_binv e (h.std rfl)
  | direct => exact C01D.quiet_of_binv e (h.dir rfl)

/-! ### one top-level poll -/

theorem lbn_poll (FL : Live2.FutLike P n I J Fin) (e : Eng Fix) (wid : Nat)
    (h : LBN P I m K fr n e) :
    FinFut I K fr n Fin (Eng.poll P e wid) ∨
    (LBN P I m K fr n (Eng.poll P e wid) ∧ lastOut (Eng.poll P e wid).w.trace = some .pending ∧
      Exec.stepsLeft n (Eng.poll P e wid) ≤ Exec.stepsLeft n e ∧
      (Exec.stepsLeft n (Eng.poll P e wid) < Exec.stepsLeft n e ∨
        wokeSince (Eng.poll P e wid).w.trace = false) ∧
      (∀ c, c < n → lastRes e.w.trace c = some .pend → e.w.scripts c ≠ [] →
        owes e.w.trace c = true →
        Exec.stepsLeft n (Eng.poll P e wid) < Exec.stepsLeft n e)) := by
  have hP := pendn_poll (K := K) (fr := fr) FL e wid h.mode h.fi h.wi h.sp
  have hT := Sim.pollT (FL.sim m) e wid h.mode (Sim.scriptsOk_any _) h.fi
  have hstd : m = .std → C01.BInv P n (Eng.poll P e wid) :=
    fun hm => C01.binv_poll FL.conc e wid (h.std hm)
  have hdir : m = .direct → C01D.BInv P n (Eng.poll P e wid) :=
    fun hm => C01D.binv_poll FL.conc e wid (h.dir hm)
  have hb20 : C20.B20 P (Eng.poll P e wid) := by
    cases m with
    | std => exact C20S.poll20 (n := n) FL.conc e wid (h.std rfl) h.b20
    | direct => exact C20D.poll20 (n := n) FL.conc e wid (h.dir rfl) h.b20
  have hnowp : c01NoPanic (Eng.poll P e wid).w.trace = true := by
    cases m with
    | std => exact (hstd rfl).ks.nowp
    | direct => exact (hdir rfl).kd.nowp
  have hm20 := hb20.m20
  rw [FL.hn _ _ hT.2.2] at hm20
  have hI' := hT.2.2
  have hab := hP.ab
  obtain ⟨o, t, ht, hspt, hpnt⟩ := hP.shape
  have hI'' := hI'
  rw [ht] at hI' hnowp hm20 hab
  simp only [atPollBegin] at hab
  have hLe : ∀ c, c < n → ((Eng.poll P e wid).w.scripts c).length ≤ (e.w.scripts c).length :=
    fun c _ => hP.le c
  cases o with
  | pending =>
    right
    -- C20: every child has been polled; an owed waiting child was polled in this poll
    have hc20 : ∀ c, c < n → everPolled t c = true ∧
        (lastRes e.w.trace c = some .pend → owes e.w.trace c = true → polledSince t c = true) := by
      simp only [holds_C20, Bool.and_eq_true] at hm20
      have := hm20.2
      simp only [c20At, List.all_eq_true, List.mem_range] at this
      intro c hc
      have hcc := this c hc
      rw [hab] at hcc
      simp only [owned, hc, decide_true, if_true, Bool.not_true, Bool.false_or, Bool.and_eq_true,
        Bool.or_eq_true, Bool.not_eq_true', Bool.and_eq_false_imp, beq_iff_eq] at hcc
      refine ⟨hcc.1, fun h1 h2 => ?_⟩
      rcases hcc.2 with h3 | h3
      · have := h3 h1; rw [h2] at this; exact Bool.noConfusion this
      · exact h3
    have hps : ∀ c, polledSince (Eng.poll P e wid).w.trace c = polledSince t c := by
      intro c; rw [ht]; simp [polledSince]
    refine ⟨⟨hT.1, hstd, hdir, hb20, hT.2.2, hP.wi, ?_, Or.inr (by rw [ht]; rfl), ?_⟩,
      by rw [ht]; rfl, ?_, ?_, ?_⟩
    · rw [ht]; simpa [spent, finalSeen, alive, panickedSeen] using hspt
    · intro _
      rw [ht]
      exact fun c hc => by simpa [everPolled] using (hc20 c hc).1
    · exact total_le _ _ n hLe
    · cases hw : wokeSince (Eng.poll P e wid).w.trace with
      | false => right; rfl
      | true =>
        left
        obtain ⟨c, hc, hl⟩ := hP.wk hw
        exact total_lt _ _ n hLe c hc hl
    · intro c hc h1 hne h2
      have h3 := (hc20 c hc).2 h1 h2
      rw [← hps] at h3
      have h0 : (e.w.scripts c).length ≠ 0 := by
        have := length_pos_of_ne_nil' _ hne; omega
      exact total_lt _ _ n hLe c hc ((hP.ps c h3).2 h0)
  | ready ok vals =>
    left
    exact ⟨ok, vals, t, ht, FL.fin _ _ _ _ hI', hI'', hP.wi⟩
  | some k vals => exact absurd hI' (FL.nsome _ _ _ _)
  | none => exact absurd hI' (FL.nnone _ _)
  | panicked =>
    simp only [c01NoPanic, Bool.and_eq_true] at hnowp
    rw [hpnt] at hnowp; exact absurd hnowp.2 (by simp)
  | misuse =>
    have := FL.misuse _ _ hI'
    rw [hspt] at this; exact Bool.noConfusion this

/-! ### one wake-up between polls -/

theorem winvn_fire (w : World) (c a : Nat) (h : WInvN K fr n w) : WInvN K fr n (w.fire c a) := by
  obtain ⟨l, hl, hp⟩ := World.fire_seg w c a
  have hLR : ∀ j, lastRes (w.fire c a).trace j = lastRes w.trace j := C16.lastRes_fire w c a
  have hLW : ∀ j, lastWk (w.fire c a).trace j = lastWk w.trace j := by
    intro j; rw [hl]
    exact skip_seg (fun t => lastWk t j) isFireEv (fun e t h => lastWk_fireEv j e t h) l hp _
  refine ⟨?_, ?_, ?_, ?_, ?_⟩
  · intro j hj
    have := h.fut j hj
    unfold FutN at this ⊢
    rw [hLR, World.fire_scripts]
    have hg : gone (w.fire c a).trace j = gone w.trace j := by rw [hl]; exact gone_fires l _ j hp
    rw [hg]; exact this
  · intro j; rw [hLW, World.fire_handed]; exact h.hw j
  · intro j; rw [hLR, hLW]; exact h.lw j
  · intro j; rw [hLR, everPolled_fire]; exact h.ep j
  · rw [hl, resolvedR_fires l _ hp]; exact h.rd

theorem lbn_fire (FL : Live2.FutLike P n I J Fin) (e : Eng Fix) (c a : Nat)
    (h : LBN P I m K fr n e) : LBN P I m K fr n (e.fire c a) := by
  obtain ⟨l, hl, hp⟩ := World.fire_seg e.w c a
  have hlo : lastOut (e.fire c a).w.trace = lastOut e.w.trace := C01.lastOut_fire e.w c a
  refine ⟨by simpa using h.mode, fun hm => C01.binv_fire e c a (h.std hm),
    fun hm => C01D.binv_fire e c a (h.dir hm), C20.b20_fire e c a h.b20,
    (Sim.fireT (FL.sim m) e c a h.mode (Sim.scriptsOk_any _) h.fi).2.2,
    winvn_fire e.w c a h.wi, ?_, by rw [hlo]; exact h.lo, ?_⟩
  · simp only [Eng.fire_w, hl]
    rw [spent_fires false l _ hp]; exact h.sp
  · intro hp' j hj
    rw [hlo] at hp'
    simpa [everPolled_fire] using h.pf hp' j hj

/-- prodding a waiting child: its wake-up is owed afterwards, hence (C01) the task has been woken -/
theorem lbn_fire_woke (FL : Live2.FutLike P n I J Fin) (e : Eng Fix) (c : Nat)
    (h : LBN P I m K fr n e)
    (hlo : lastOut e.w.trace = some .pending) (hc : c < n) (hlr : lastRes e.w.trace c = some .pend) :
    owes (e.fire c 0).w.trace c = true ∧ lastRes (e.fire c 0).w.trace c = some .pend ∧
      wokeSince (e.fire c 0).w.trace = true := by
  have hLR : lastRes (e.fire c 0).w.trace c = some .pend := by
    simp only [Eng.fire_w]; rw [C16.lastRes_fire]; exact hlr
  obtain ⟨wk, hwk⟩ : ∃ wk, lastWk e.w.trace c = some wk := by
    cases hh : lastWk e.w.trace c with
    | none => exact absurd hh (h.wi.lw c (by rw [hlr]; simp))
    | some wk => exact ⟨wk, rfl⟩
  have hget : (e.w.handed c)[0]? = some wk := by
    rw [← List.head?_eq_getElem?, h.wi.hw c, hwk]
  have howes : owes (e.fire c 0).w.trace c = true := by
    simp only [Eng.fire_w]
    unfold World.fire
    rw [hget]
    simp only
    obtain ⟨l, hl, hp⟩ := World.fireWk_seg (e.w.emit (.fired c 0 (some wk))) wk
    rw [hl]
    refine owes_fires_mono c l _ hp ?_
    simp [owes, hwk]
  have h' := lbn_fire FL e c 0 h
  have hq := lbn_quiet _ h'
  have hlo' : lastOut (e.fire c 0).w.trace = some .pending := by
    rw [show lastOut (e.fire c 0).w.trace = lastOut e.w.trace from C01.lastOut_fire e.w c 0]; exact hlo
  have halive : alive (e.fire c 0).w.trace = true := by
    have := h'.sp
    simp only [spent, Bool.or_eq_false_iff, Bool.not_eq_false'] at this
    exact this.1.2
  have hgone : gone (e.fire c 0).w.trace c = false := by
    rcases h'.wi.fut c hc with hf | ⟨_, hf, ⟨ok, v, hr⟩, _⟩ | hf
    · exact hf.2.2.2.1
    · rw [hLR, hr] at hf; cases hf
    · exact hf.2.2.2
  refine ⟨howes, hLR, ?_⟩
  simp only [quiet, halive, hlo', beq_self_eq_true, Bool.and_self, Bool.not_true, Bool.false_or,
    List.all_eq_true, List.mem_range] at hq
  have := hq c hc
  simp only [Eng.fire_w] at hLR hgone howes this
  simpa [hLR, hgone, howes] using this

/-! ### nobody is waiting: every step has been consumed -/

theorem lbn_waiting (e : Eng Fix) (h : LBN P I m K fr n e)
    (hlo : lastOut e.w.trace = some .pending) :
    (∃ c, c < n ∧ lastRes e.w.trace c = some .pend ∧ e.w.scripts c ≠ []) ∨
      Exec.stepsLeft n e = 0 := by
  by_cases hw : ∃ c, c < n ∧ lastRes e.w.trace c = some .pend ∧ e.w.scripts c ≠ []
  · exact Or.inl hw
  · right
    rw [stepsLeft_eq]
    apply total_zero_of
    intro c hc
    have hep := h.wi.ep c (h.pf hlo c hc)
    have hpend : lastRes e.w.trace c = none ∨ lastRes e.w.trace c = some .pend →
        e.w.scripts c = [] := by
      intro hl
      rcases hl with hl | hl
      · exact absurd hl hep
      · by_cases hne : e.w.scripts c = []
        · exact hne
        · exact absurd ⟨c, hc, hl, hne⟩ hw
    have : e.w.scripts c = [] := by
      rcases h.wi.fut c hc with ⟨_, hfs, hl, _⟩ | ⟨_, _, _, hs⟩ | ⟨_, _, hl, _⟩
      · exact hpend hl
      · exact hs
      · exact hpend hl
    rw [this]; rfl

/-- the instance of the abstract run lemma -/
theorem progS_fut (FL : Live2.FutLike P n I J Fin) :
    ProgS P n (LBN P I m K fr n) (FinFut I K fr n Fin) where
  lo := fun e h => by
    rcases h.lo with h1 | h1
    · exact Or.inl h1
    · exact Or.inr (Or.inl h1)
  poll := fun e wid h => by
    rcases lbn_poll FL e wid h with hv | ⟨h', hlo', hle, hD, hEE⟩
    · exact Or.inl hv
    · exact Or.inr ⟨h', hle, Or.inr ⟨hlo', hD, hEE⟩⟩
  fire := fun e c a h => lbn_fire FL e c a h
  waiting := fun e h hlo => lbn_waiting e h hlo
  woke := fun e c h hlo hc hlr => by
    obtain ⟨h1, _, h3⟩ := lbn_fire_woke FL e c h hlo hc hlr
    exact ⟨h1, h3⟩

/-! ### what a quiescent state says about the children -/

/-- all steps consumed: every well-behaved child has resolved (to the result of its script's last
    step), every never-completing child is `Pending` -/
theorem quiet_children (e : Eng Fix) (h : Quiet n (LBN P I m K fr n) e) (c : Nat) (hc : c < n) :
    (K c = true → lastRes e.w.trace c = some (fr c) ∧ ∃ ok v, fr c = .ready ok v) ∧
    (K c = false → lastRes e.w.trace c = some .pend) := by
  obtain ⟨hl, hlo, _, hs⟩ := h
  have hnil := scripts_nil_of_stepsLeft hs c hc
  have hep := hl.wi.ep c (hl.pf hlo c hc)
  rcases hl.wi.fut c hc with ⟨_, hfs, _⟩ | ⟨hk, hr, hrd, _⟩ | ⟨hk, _, hlr, _⟩
  · rw [hnil] at hfs; exact Bool.noConfusion hfs
  · exact ⟨fun _ => ⟨hr, hrd⟩, fun hk' => (by rw [hk] at hk'; cases hk')⟩
  · refine ⟨fun hk' => (by rw [hk] at hk'; cases hk'), fun _ => ?_⟩
    rcases hlr with hlr | hlr
    · exact absurd hlr hep
    · exact hlr

/-! ### the initial state -/

theorem winvn_init (mode : Mode) (n : Nat) (scripts : Nat → List Step)
    (hs : ∀ c, c < n → Exec.futOrNever (scripts c) = true) :
    WInvN (fun c => Exec.futureScript (scripts c)) (fun c => finalRes (scripts c)) n
      (World.init mode n scripts) := by
  refine ⟨fun c hc => ?_, fun c => rfl, ?_, ?_, ?_⟩
  · cases hk : Exec.futureScript (scripts c) with
    | true => exact Or.inl ⟨hk, hk, Or.inl rfl, rfl, rfl⟩
    | false =>
      have := hs c hc
      simp only [Exec.futOrNever, hk, Bool.false_or] at this
      exact Or.inr (Or.inr ⟨hk, this, Or.inl rfl, rfl⟩)
  · intro c hc; exact absurd rfl hc
  · intro c hc; simp [World.init, everPolled] at hc
  · intro v hv; simp [World.init, resolvedR] at hv

end LiveStuck
end Fc
