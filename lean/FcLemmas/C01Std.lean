/-
  FcLemmas/C01Std.lean — no lost wake-ups, std mode (sub-wakers + readiness bits):
  kernel-level invariants and their preservation by every kernel step.
-/
import FcLemmas.Ghost

namespace Fc
namespace C01
open Mon

/-- number of set bits below `cap` -/
def nset (w : World) : Nat := ((List.range w.cap).filter (fun i => w.bits i)).length

theorem filter_upd_true (f : Nat → Bool) (i n : Nat) (hi : i < n) (hf : f i = false) :
    ((List.range n).filter (fun j => upd f i true j)).length
      = ((List.range n).filter (fun j => f j)).length + 1 := by
  induction n with
  | zero => omega
  | succ n ih =>
    rw [List.range_succ, List.filter_append, List.filter_append, List.length_append, List.length_append]
    by_cases hin : i = n
    · subst hin
      have h1 : (List.range i).filter (fun j => upd f i true j) = (List.range i).filter (fun j => f j) := by
        apply List.filter_congr
        intro j hj
        simp only [List.mem_range] at hj
        rw [upd_other _ _ _ _ (by omega)]
      rw [h1]
      simp [hf]
    · have hlt : i < n := by omega
      rw [ih hlt]
      have : upd f i true n = f n := upd_other _ _ _ _ (fun h => hin h.symm)
      simp only [List.filter_cons, List.filter_nil, this]
      split <;> simp <;> omega

theorem filter_upd_false (f : Nat → Bool) (i n : Nat) (hi : i < n) (hf : f i = true) :
    ((List.range n).filter (fun j => upd f i false j)).length + 1
      = ((List.range n).filter (fun j => f j)).length := by
  induction n with
  | zero => omega
  | succ n ih =>
    rw [List.range_succ, List.filter_append, List.filter_append, List.length_append, List.length_append]
    by_cases hin : i = n
    · subst hin
      have h1 : (List.range i).filter (fun j => upd f i false j) = (List.range i).filter (fun j => f j) := by
        apply List.filter_congr
        intro j hj
        simp only [List.mem_range] at hj
        rw [upd_other _ _ _ _ (by omega)]
      rw [h1]
      simp [hf]
    · have hlt : i < n := by omega
      have : upd f i false n = f n := upd_other _ _ _ _ (fun h => hin h.symm)
      simp only [List.filter_cons, List.filter_nil, this]
      have := ih hlt
      split <;> simp <;> omega

theorem filter_all_true (n : Nat) :
    ((List.range n).filter (fun j => decide (j < n))).length = n := by
  have : (List.range n).filter (fun j => decide (j < n)) = List.range n := by
    rw [List.filter_eq_self]
    intro j hj
    simpa using hj
  rw [this, List.length_range]

theorem setReady_count (w : World) (i : Nat) (hm : w.mode = .std) :
    (w.setReady i).count = if w.bits i then w.count else w.count + 1 := by
  unfold World.setReady; rw [hm]; simp only
  cases w.bits i <;> simp

theorem clearReady_count (w : World) (i : Nat) (hm : w.mode = .std) :
    (w.clearReady i).count = if w.bits i then w.count - 1 else w.count := by
  unfold World.clearReady; rw [hm]; simp only
  cases w.bits i <;> simp

/-- the part of the invariant that holds at every moment (std mode).
    `ip` = the child whose poll is in progress. -/
structure KS (w : World) (ip : Option Nat) : Prop where
  std  : w.mode = .std
  cnt  : w.count = nset w
  hi   : ∀ i, w.cap ≤ i → w.bits i = false
  hand : ∀ c wk, wk ∈ w.handed c → wk = .sub c ∧ c < w.cap
  lwk  : ∀ c wk, lastWk w.trace c = some wk → wk = .sub c
  par  : (∃ c, w.handed c ≠ []) → w.parent ≠ none
  i2   : ∀ c, owes w.trace c = true → (lastRes w.trace c = some .pend ∨ ip = some c) →
           w.bits c = true
  nowp : c01NoPanic w.trace = true

theorem count_zero_bits {w : World} {ip : Option Nat} (h : KS w ip) (h0 : w.count = 0) :
    ∀ i, w.bits i = false := by
  intro i
  by_cases hi : w.cap ≤ i
  · exact h.hi i hi
  · cases hb : w.bits i with
    | false => rfl
    | true =>
      have hmem : i ∈ (List.range w.cap).filter (fun i => w.bits i) := by
        simp only [List.mem_filter, List.mem_range]
        exact ⟨by omega, hb⟩
      have hlen : ((List.range w.cap).filter (fun i => w.bits i)).length = 0 := by
        have := h.cnt; unfold nset at this; omega
      rw [List.length_eq_zero_iff] at hlen
      rw [hlen] at hmem
      simp at hmem

/-- events that no part of `KS` looks at, except through `c01NoPanic` (handled separately) -/
def ksNeutral : Ev → Bool
  | .childBegin _ _ _ | .childEnd _ _ | .fired _ _ _ | .wakePanic | .pollEnd .panicked => false
  | _ => true

theorem ks_emit {w : World} {ip : Option Nat} (e : Ev) (hn : ksNeutral e = true) (h : KS w ip) :
    KS (w.emit e) ip := by
  refine ⟨h.std, ?_, h.hi, h.hand, ?_, h.par, ?_, ?_⟩
  · simpa [nset] using h.cnt
  · intro c wk hw
    have : lastWk (e :: w.trace) c = lastWk w.trace c := by cases e <;> simp_all [ksNeutral, lastWk]
    exact h.lwk c wk (by simpa [this] using hw)
  · intro c ho hl
    have h1 : owes (e :: w.trace) c = owes w.trace c := by cases e <;> simp_all [ksNeutral, owes]
    have h2 : lastRes (e :: w.trace) c = lastRes w.trace c := by
      cases e <;> simp_all [ksNeutral, lastRes]
    exact h.i2 c (by simpa [h1] using ho) (by simpa [h2] using hl)
  · have := h.nowp
    cases e <;> simp_all [ksNeutral, c01NoPanic]
    rename_i o
    cases o <;> simp_all [ksNeutral, c01NoPanic]

theorem ks_emits_own {w : World} {ip : Option Nat} (l : List Ev) (hl : ∀ e ∈ l, isOwnEv e = true)
    (h : KS w ip) : KS (w.emits l) ip := by
  induction l generalizing w with
  | nil => simpa using h
  | cons e l ih =>
    rw [World.emits_cons]
    refine ih (fun e' he' => hl e' (List.mem_cons_of_mem _ he')) (ks_emit e ?_ h)
    have := hl e (List.mem_cons_self ..)
    cases e <;> simp_all [isOwnEv, ksNeutral]

theorem ks_setWaker {w : World} {ip : Option Nat} (p : Nat) (h : KS w ip) : KS (w.setWaker p) ip :=
  ⟨h.std, h.cnt, h.hi, h.hand, h.lwk, fun _ => by simp, h.i2, h.nowp⟩

theorem ks_setReady {w : World} {ip : Option Nat} (i : Nat) (hi : i < w.cap) (h : KS w ip) :
    KS (w.setReady i) ip := by
  have hb := World.setReady_bits_std w i h.std
  refine ⟨by simpa using h.std, ?_, ?_, by simpa using h.hand, by simpa using h.lwk,
    by simpa using h.par, ?_, by simpa using h.nowp⟩
  · rw [setReady_count w i h.std]
    simp only [nset, World.setReady_cap, hb]
    cases hbi : w.bits i with
    | true =>
      simp only [if_true]
      have : upd w.bits i true = w.bits := by
        funext j; unfold upd; split
        · rename_i hj; rw [hj, hbi]
        · rfl
      rw [this]; exact h.cnt
    | false =>
      simp only [Bool.false_eq_true, if_false]
      rw [filter_upd_true w.bits i w.cap hi hbi]
      have := h.cnt; unfold nset at this; omega
  · intro j hj
    rw [hb, upd_other _ _ _ _ (by simp only [World.setReady_cap] at hj; omega)]
    exact h.hi j (by simpa using hj)
  · intro c ho hl
    rw [hb]
    by_cases hci : c = i
    · subst hci; simp
    · rw [upd_other _ _ _ _ hci]
      exact h.i2 c (by simpa using ho) (by simpa using hl)

/-- clearing bit `i` is harmless when child `i` is not waiting (or nothing was set) -/
theorem ks_clearReady {w : World} (i : Nat) (h : KS w none)
    (hsafe : w.bits i = true → lastRes w.trace i ≠ some .pend ∨ owes w.trace i = false) :
    KS (w.clearReady i) none := by
  have hb := World.clearReady_bits_std w i h.std
  refine ⟨by simpa using h.std, ?_, ?_, by simpa using h.hand, by simpa using h.lwk,
    by simpa using h.par, ?_, by simpa using h.nowp⟩
  · rw [clearReady_count w i h.std]
    simp only [nset, World.clearReady_cap, hb]
    cases hbi : w.bits i with
    | true =>
      simp only [if_true]
      have hic : i < w.cap := by
        by_cases hh : w.cap ≤ i
        · have := h.hi i hh; rw [this] at hbi; exact Bool.noConfusion hbi
        · omega
      have := filter_upd_false w.bits i w.cap hic hbi
      have hc := h.cnt; unfold nset at hc; omega
    | false =>
      simp only [Bool.false_eq_true, if_false]
      have : upd w.bits i false = w.bits := by
        funext j; unfold upd; split
        · rename_i hj; rw [hj, hbi]
        · rfl
      rw [this]; exact h.cnt
  · intro j hj
    rw [hb]
    by_cases hji : j = i
    · subst hji; simp
    · rw [upd_other _ _ _ _ hji]; exact h.hi j (by simpa using hj)
  · intro c ho hl
    rw [hb]
    simp only [World.clearReady_trace] at ho hl
    have hbc := h.i2 c ho hl
    by_cases hci : c = i
    · subst hci
      rcases hsafe hbc with h1 | h1
      · rcases hl with hl | hl
        · exact absurd hl h1
        · simp at hl
      · rw [h1] at ho; exact Bool.noConfusion ho
    · rw [upd_other _ _ _ _ hci]; exact hbc

theorem ks_setAllReady {w : World} {ip : Option Nat} (h : KS w ip) : KS w.setAllReady ip := by
  unfold World.setAllReady
  rw [h.std]; simp only
  refine ⟨rfl, ?_, ?_, h.hand, h.lwk, h.par, ?_, h.nowp⟩
  · simp only [nset]; rw [filter_all_true]
  · intro j hj; simpa using hj
  · intro c ho hl
    have := h.i2 c ho hl
    simp only [decide_eq_true_eq]
    by_cases hh : w.cap ≤ c
    · have h2 := h.hi c hh; rw [h2] at this; exact Bool.noConfusion this
    · omega

/-- the `fired` event itself (before the waker runs) -/
theorem ks_fired_none {w : World} {ip : Option Nat} (c a : Nat) (h : KS w ip) :
    KS (w.emit (.fired c a none)) ip := by
  refine ⟨h.std, by simpa [nset] using h.cnt, h.hi, h.hand, ?_, h.par, ?_, ?_⟩
  · intro c' wk hw; exact h.lwk c' wk (by simpa [lastWk] using hw)
  · intro c' ho hl
    exact h.i2 c' (by simpa [owes] using ho) (by simpa [lastRes] using hl)
  · simpa [c01NoPanic] using h.nowp

/-- invoking a handed-out waker -/
theorem ks_fire {w : World} {ip : Option Nat} (c a : Nat) (h : KS w ip) : KS (w.fire c a) ip := by
  unfold World.fire
  split
  · exact ks_fired_none c a h
  · rename_i wk hwk
    have hmem : wk ∈ w.handed c := List.mem_of_getElem? hwk
    obtain ⟨rfl, hc⟩ := h.hand c wk hmem
    have hpar : w.parent ≠ none := h.par ⟨c, by intro hh; rw [hh] at hmem; simp at hmem⟩
    -- the sub-waker of slot `c`
    cases hb : w.bits c with
    | true =>
      have : (w.emit (.fired c a (some (.sub c)))).fireWk (.sub c) = w.emit (.fired c a (some (.sub c))) := by
        simp [World.fireWk, h.std, hb]
      rw [this]
      refine ⟨h.std, by simpa [nset] using h.cnt, h.hi, h.hand, ?_, h.par, ?_, ?_⟩
      · intro c' wk hw; exact h.lwk c' wk (by simpa [lastWk] using hw)
      · intro c' ho hl
        simp only [World.emit_trace, owes, Bool.or_eq_true, beq_iff_eq, lastRes] at ho hl
        rcases ho with ho | ho
        · exact h.i2 c' ho hl
        · have := h.lwk c' _ ho
          simp only [Wk.sub.injEq] at this
          subst this; exact hb
      · simpa [c01NoPanic] using h.nowp
    | false =>
      cases hp : w.parent with
      | none => exact absurd hp hpar
      | some p =>
        have : (w.emit (.fired c a (some (.sub c)))).fireWk (.sub c)
            = ((w.emit (.fired c a (some (.sub c)))).setReady c).emit (.woke p) := by
          simp [World.fireWk, h.std, hb, hp]
        rw [this]
        refine ks_emit _ rfl ?_
        -- after `fired`, with bit `c` set
        have hb' := World.setReady_bits_std (w.emit (.fired c a (some (.sub c)))) c h.std
        refine ⟨by simpa using h.std, ?_, ?_, by simpa using h.hand, ?_, by simpa using h.par, ?_, ?_⟩
        · rw [setReady_count _ c (by simpa using h.std)]
          simp only [World.emit_bits, hb, Bool.false_eq_true, if_false, World.emit_count, nset,
            World.setReady_cap, World.emit_cap, hb']
          rw [filter_upd_true w.bits c w.cap hc hb]
          have := h.cnt; unfold nset at this; omega
        · intro j hj
          rw [hb']
          simp only [World.setReady_cap, World.emit_cap] at hj
          rw [upd_other _ _ _ _ (by omega)]
          exact h.hi j hj
        · intro c' wk hw
          exact h.lwk c' wk (by simpa [lastWk] using hw)
        · intro c' ho hl
          rw [hb']
          simp only [World.setReady_trace, World.emit_trace, owes, Bool.or_eq_true, beq_iff_eq,
            lastRes] at ho hl
          by_cases hcc : c' = c
          · subst hcc; simp
          · rw [upd_other _ _ _ _ hcc]
            rcases ho with ho | ho
            · exact h.i2 c' ho hl
            · have := h.lwk c' _ ho
              simp only [Wk.sub.injEq] at this
              exact absurd this.symm hcc
        · simpa [c01NoPanic] using h.nowp

theorem ks_fires {w : World} {ip : Option Nat} (l : List (Nat × Nat)) (h : KS w ip) :
    KS (w.fires l) ip := by
  induction l generalizing w with
  | nil => exact h
  | cons p l ih => rw [World.fires_cons]; exact ih (ks_fire p.1 p.2 h)

end C01
end Fc

namespace Fc
namespace C01
open Mon

/-- the wake-forwarding part: the stored parent waker is the current task waker, and a set
    bit of a waiting, already visited child means the task has been woken. -/
structure JS (w : World) (ip : Option Nat) (V : Nat → Prop) : Prop where
  pw : ∃ p, w.parent = some p ∧ cur w.trace = some p
  j  : ∀ c, V c → w.bits c = true → (lastRes w.trace c = some .pend ∨ ip = some c) →
         wokeSince w.trace = true

theorem js_mono {w : World} {ip : Option Nat} {V V' : Nat → Prop} (hv : ∀ c, V' c → V c)
    (h : JS w ip V) : JS w ip V' :=
  ⟨h.pw, fun c hc => h.j c (hv c hc)⟩

/-- events `JS` does not look at -/
def jsNeutral : Ev → Bool
  | .pollBegin _ | .woke _ | .childEnd _ _ => false
  | _ => true

theorem js_emit {w : World} {ip : Option Nat} {V : Nat → Prop} (e : Ev) (hn : jsNeutral e = true)
    (h : JS w ip V) : JS (w.emit e) ip V := by
  have h1 : cur (e :: w.trace) = cur w.trace := by cases e <;> simp_all [jsNeutral, cur]
  have h2 : wokeSince (e :: w.trace) = wokeSince w.trace := by
    cases e <;> simp_all [jsNeutral, wokeSince]
  have h3 : ∀ c, lastRes (e :: w.trace) c = lastRes w.trace c := by
    intro c; cases e <;> simp_all [jsNeutral, lastRes]
  refine ⟨by simpa [h1] using h.pw, ?_⟩
  intro c hv hb hl
  simp only [World.emit_trace, h2, h3] at hl ⊢
  exact h.j c hv (by simpa using hb) hl

theorem js_emits_own {w : World} {ip : Option Nat} {V : Nat → Prop} (l : List Ev)
    (hl : ∀ e ∈ l, isOwnEv e = true) (h : JS w ip V) : JS (w.emits l) ip V := by
  induction l generalizing w with
  | nil => simpa using h
  | cons e l ih =>
    rw [World.emits_cons]
    refine ih (fun e' he' => hl e' (List.mem_cons_of_mem _ he')) (js_emit e ?_ h)
    have := hl e (List.mem_cons_self ..)
    cases e <;> simp_all [isOwnEv, jsNeutral]

theorem js_clearReady {w : World} {ip : Option Nat} {V : Nat → Prop} (i : Nat) (hm : w.mode = .std)
    (h : JS w ip V) : JS (w.clearReady i) ip V := by
  refine ⟨by simpa using h.pw, ?_⟩
  intro c hv hb hl
  rw [World.clearReady_bits_std w i hm] at hb
  simp only [World.clearReady_trace] at hl ⊢
  by_cases hci : c = i
  · subst hci; simp at hb
  · rw [upd_other _ _ _ _ hci] at hb; exact h.j c hv hb hl

/-- setting bit `i` is fine when child `i` is not waiting, or the task has been woken -/
theorem js_setReady {w : World} {ip : Option Nat} {V : Nat → Prop} (i : Nat) (hm : w.mode = .std)
    (h : JS w ip V)
    (hi : (lastRes w.trace i ≠ some .pend ∧ ip ≠ some i) ∨ wokeSince w.trace = true) :
    JS (w.setReady i) ip V := by
  refine ⟨by simpa using h.pw, ?_⟩
  intro c hv hb hl
  rw [World.setReady_bits_std w i hm] at hb
  simp only [World.setReady_trace] at hl ⊢
  by_cases hci : c = i
  · subst hci
    rcases hi with hi | hi
    · rcases hl with hl | hl
      · exact absurd hl hi.1
      · exact absurd hl hi.2
    · exact hi
  · rw [upd_other _ _ _ _ hci] at hb; exact h.j c hv hb hl

theorem js_setAllReady {w : World} {V : Nat → Prop} (hm : w.mode = .std) (h : JS w none V)
    (hall : ∀ c, c < w.cap → lastRes w.trace c ≠ some .pend) : JS w.setAllReady none V := by
  refine ⟨by simpa using h.pw, ?_⟩
  intro c _ hb hl
  unfold World.setAllReady at hb
  rw [hm] at hb
  simp only [decide_eq_true_eq] at hb
  simp only [World.setAllReady_trace] at hl
  rcases hl with hl | hl
  · exact absurd hl (hall c hb)
  · simp at hl

theorem js_fire {w : World} {ip : Option Nat} {V : Nat → Prop} (c a : Nat) (hk : KS w ip)
    (h : JS w ip V) : JS (w.fire c a) ip V := by
  unfold World.fire
  split
  · exact js_emit _ rfl h
  · rename_i wk hwk
    have hmem : wk ∈ w.handed c := List.mem_of_getElem? hwk
    obtain ⟨rfl, _⟩ := hk.hand c wk hmem
    obtain ⟨p, hp, hc⟩ := h.pw
    cases hb : w.bits c with
    | true =>
      have : (w.emit (.fired c a (some (.sub c)))).fireWk (.sub c) = w.emit (.fired c a (some (.sub c))) := by
        simp [World.fireWk, hk.std, hb]
      rw [this]; exact js_emit _ rfl h
    | false =>
      have : (w.emit (.fired c a (some (.sub c)))).fireWk (.sub c)
          = ((w.emit (.fired c a (some (.sub c)))).setReady c).emit (.woke p) := by
        simp [World.fireWk, hk.std, hb, hp]
      rw [this]
      refine ⟨⟨p, by simpa using hp, by simpa [cur] using hc⟩, ?_⟩
      intro c' _ _ _
      simp [wokeSince, cur, hc]

theorem js_fires {w : World} {ip : Option Nat} {V : Nat → Prop} (l : List (Nat × Nat))
    (hk : KS w ip) (h : JS w ip V) : JS (w.fires l) ip V := by
  induction l generalizing w with
  | nil => exact h
  | cons p l ih => rw [World.fires_cons]; exact ih (ks_fire p.1 p.2 hk) (js_fire p.1 p.2 hk h)

/-- `KS` with the bit/owes link suspended for child `i` (between clearing its bit and the
    `childBegin` that follows at once) -/
structure KSw (w : World) (i : Nat) : Prop where
  std  : w.mode = .std
  cnt  : w.count = nset w
  hi   : ∀ j, w.cap ≤ j → w.bits j = false
  hand : ∀ c wk, wk ∈ w.handed c → wk = .sub c ∧ c < w.cap
  lwk  : ∀ c wk, lastWk w.trace c = some wk → wk = .sub c
  par  : (∃ c, w.handed c ≠ []) → w.parent ≠ none
  i2   : ∀ c, c ≠ i → owes w.trace c = true → lastRes w.trace c = some .pend → w.bits c = true
  nowp : c01NoPanic w.trace = true

/-- clearing bit `i` right before polling child `i` -/
theorem ksw_clearReady {w : World} (i : Nat) (h : KS w none) : KSw (w.clearReady i) i := by
  have hb := World.clearReady_bits_std w i h.std
  refine ⟨by simpa using h.std, ?_, ?_, by simpa using h.hand, by simpa using h.lwk,
    by simpa using h.par, ?_, by simpa using h.nowp⟩
  · rw [clearReady_count w i h.std]
    simp only [nset, World.clearReady_cap, hb]
    cases hbi : w.bits i with
    | true =>
      simp only [if_true]
      have hic : i < w.cap := by
        by_cases hh : w.cap ≤ i
        · have := h.hi i hh; rw [this] at hbi; exact Bool.noConfusion hbi
        · omega
      have := filter_upd_false w.bits i w.cap hic hbi
      have hc := h.cnt; unfold nset at hc; omega
    | false =>
      simp only [Bool.false_eq_true, if_false]
      have : upd w.bits i false = w.bits := by
        funext j; unfold upd; split
        · rename_i hj; rw [hj, hbi]
        · rfl
      rw [this]; exact h.cnt
  · intro j hj
    rw [hb]
    by_cases hji : j = i
    · subst hji; simp
    · rw [upd_other _ _ _ _ hji]; exact h.hi j (by simpa using hj)
  · intro c hci ho hl
    rw [hb, upd_other _ _ _ _ hci]
    exact h.i2 c (by simpa using ho) (Or.inl (by simpa using hl))

/-- the state right after `childBegin i` -/
theorem ks_childBegin {w : World} (i : Nat) (hi : i < w.cap) (h : KSw w i)
    (hpar : w.parent ≠ none) :
    KS { w with scripts := upd w.scripts i (w.scripts i).tail,
                handed := upd w.handed i (w.wakerFor i :: w.handed i),
                trace := .childBegin i i (w.wakerFor i) :: w.trace } (some i) := by
  have hwk : w.wakerFor i = .sub i := by simp [World.wakerFor, h.std]
  refine ⟨h.std, by simpa [nset] using h.cnt, h.hi, ?_, ?_, fun _ => hpar, ?_, ?_⟩
  · intro c wk hw
    simp only at hw
    by_cases hci : c = i
    · subst hci
      rw [upd_same] at hw
      simp only [List.mem_cons] at hw
      rcases hw with rfl | hw
      · exact ⟨hwk, hi⟩
      · exact h.hand c wk hw
    · rw [upd_other _ _ _ _ hci] at hw; exact h.hand c wk hw
  · intro c wk hw
    simp only [lastWk] at hw
    split at hw
    · rename_i hic; subst hic
      simp only [Option.some.injEq] at hw
      rw [← hw, hwk]
    · exact h.lwk c wk hw
  · intro c ho hl
    simp only [owes] at ho
    split at ho
    · exact Bool.noConfusion ho
    · rename_i hic
      simp only [lastRes] at hl
      rcases hl with hl | hl
      · exact h.i2 c (fun hh => hic hh.symm) ho hl
      · simp only [Option.some.injEq] at hl; exact absurd hl hic
  · simpa [c01NoPanic] using h.nowp

/-- polling child `i` (slot `i`, bit just cleared): `KS` -/
theorem ks_pollChild {w : World} (i : Nat) (hi : i < w.cap) (h : KSw w i)
    (hpar : w.parent ≠ none) : KS (w.pollChild i i) none := by
  unfold World.pollChild
  have h2 := ks_fires (w.stepOf i).fires (ks_childBegin i hi h hpar)
  refine ⟨by simpa using h2.std, by simpa [nset] using h2.cnt, by simpa using h2.hi,
    by simpa using h2.hand, ?_, by simpa using h2.par, ?_, ?_⟩
  · intro c wk hw; exact h2.lwk c wk (by simpa [lastWk] using hw)
  · intro c ho hl
    simp only [World.emit_trace, owes, lastRes] at ho hl
    simp only [World.emit_bits]
    by_cases hic : i = c
    · subst hic; exact h2.i2 i ho (Or.inr rfl)
    · simp only [hic, if_false] at hl
      rcases hl with hl | hl
      · exact h2.i2 c ho (Or.inl hl)
      · simp at hl
  · have := h2.nowp
    simp only [World.emit_trace, c01NoPanic]
    exact this

/-- polling child `i`: `JS` for the visited set extended by `i` -/
theorem js_pollChild {w : World} {V : Nat → Prop} (i : Nat) (hi : i < w.cap) (hk : KSw w i)
    (h : JS w none V) (hclr : w.bits i = false) :
    JS (w.pollChild i i) none (fun c => V c ∨ c = i) := by
  unfold World.pollChild
  obtain ⟨p, hp, hc⟩ := h.pw
  have hk1 := ks_childBegin i hi hk (by simp [hp])
  have h1 : JS { w with scripts := upd w.scripts i (w.scripts i).tail,
                        handed := upd w.handed i (w.wakerFor i :: w.handed i),
                        trace := .childBegin i i (w.wakerFor i) :: w.trace } (some i)
               (fun c => V c ∨ c = i) := by
    refine ⟨⟨p, hp, by simpa [cur] using hc⟩, ?_⟩
    intro c hv hb hl
    simp only [lastRes, wokeSince] at hl ⊢
    simp only at hb
    by_cases hci : c = i
    · subst hci; rw [hclr] at hb; exact Bool.noConfusion hb
    · rcases hv with hv | hv
      · rcases hl with hl | hl
        · exact h.j c hv hb (Or.inl hl)
        · simp only [Option.some.injEq] at hl; exact absurd hl.symm hci
      · exact absurd hv hci
  have h2 := js_fires (w.stepOf i).fires hk1 h1
  refine ⟨by simpa [cur] using h2.pw, ?_⟩
  intro c hv hb hl
  simp only [World.emit_trace, lastRes, wokeSince, World.emit_bits] at hb hl ⊢
  by_cases hic : i = c
  · subst hic; exact h2.j i (Or.inr rfl) hb (Or.inr rfl)
  · simp only [hic, if_false] at hl
    rcases hl with hl | hl
    · exact h2.j c hv hb (Or.inl hl)
    · simp at hl

end C01
end Fc
