/-
  FcLemmas/C01Seq.lean — no lost wake-ups for the sequential pass-through families
  (chain, wait_until over a future, wait_until over a stream).

  These families hand the caller's `Context` to their children (direct mode), poll one child at
  a time and return `Pending` as soon as the child they are at returns `Pending`.  The argument
  of `FcLemmas/C01Dir.lean` ("every waiting child was polled by the poll that returned Pending")
  is kept, but its justification changes: instead of "every child is scanned" (`Conc`) we use

      at every moment at most one child has `lastRes = pend`, and it is the head of the scan
      order of the current state                                                   (`RS`, `SP.np`)

  which follows from the laws collected in `Seq`: a `Pending` child leaves the poll at once and
  does not move the scan order; a handler that lets the loop go on leaves exactly the rest of the
  scan order.  `KD`, `JD` and all their preservation lemmas are reused from `C01Dir`.
-/
import FcLemmas.C01Dir
import FcLemmas.Lawful2
set_option linter.unusedSimpArgs false
set_option linter.unusedVariables false

namespace Fc

/-- laws of the strictly sequential families -/
structure Seq (P : Policy Fix) : Prop where
  law : Lawful P
  /-- the state test never holds a slot back -/
  elig : ∀ s i, P.eligible s i = true
  /-- a `Pending` child makes the poll return `Pending` at once … -/
  pend_exit : ∀ s i, (P.handle s i .pend).exit = some .pending
  /-- … and does not move the scan order -/
  pend_order : ∀ s i, P.order (P.handle s i .pend).s = P.order s
  /-- a handler that lets the loop go on leaves exactly the rest of the scan order -/
  cont : ∀ s i rest r, P.order s = i :: rest → (P.handle s i r).exit = none →
    P.order (P.handle s i r).s = rest
  start_order : ∀ s, P.order (P.start s) = P.order s
  no_panic_exit : ∀ s i r, (P.handle s i r).exit ≠ some .panicked
  pre_ok : ∀ s, P.pre s ≠ some .pending ∧ P.pre s ≠ some .panicked
  fin_ok : ∀ s, (P.finish s).exit ≠ some .panicked ∧ (P.finish s).exit ≠ none

namespace C01S
open Mon C01D
open C01 (R1 pollChild_inp_mb emits_own_inp_mb panicSince_own panicSince_pollChild mb_startsOp
  mb_notOp)

variable {P : Policy Fix} {n : Nat}

/-- between operations: a waiting child is the one the next poll starts with -/
def RS (P : Policy Fix) (e : Eng Fix) : Prop :=
  P.pre e.s = none → ∀ j, lastRes e.w.trace j = some .pend → (P.order e.s).head? = some j

theorem r1_of_seq (S : Seq P) (e : Eng Fix) : R1 P e := fun _ j _ => S.elig _ _

/-- inside a poll; `l` = slots still to be scanned -/
structure SP (P : Policy Fix) (n : Nat) (e : Eng Fix) (l : List Nat) : Prop where
  p   : PInv P n e (fun _ => False)
  ord : P.order e.s = l
  np  : ∀ c, lastRes e.w.trace c = some .pend → l.head? = some c

/-- leaving the loop with outcome `o` -/
structure SX (P : Policy Fix) (n : Nat) (o : Outcome) (e : Eng Fix) : Prop where
  x  : XInv P n o e
  rs : RS P e

/-- between operations -/
structure BS (P : Policy Fix) (n : Nat) (e : Eng Fix) : Prop where
  b  : BInv P n e
  rs : RS P e

theorem sp_visit (S : Seq P) (e : Eng Fix) (i : Nat) (rest : List Nat)
    (h : SP P n e (i :: rest)) (hl : P.pre e.s = none) :
    ((Eng.visit P e i).2 = none →
        SP P n (Eng.visit P e i).1 rest ∧ P.pre (Eng.visit P e i).1.s = none) ∧
    (∀ o, (Eng.visit P e i).2 = some o → SX P n o (Eng.visit P e i).1) := by
  have L := S.law
  have hi : i < e.s.n := L.order_lt _ _ (by rw [h.ord]; exact List.mem_cons_self ..)
  have hic : i < e.w.cap := by rw [h.p.cap]; exact hi
  have hgw := gateW_direct (P := P) e i h.p.kd.dir
  refine Eng.visit_ind P e i
    (fun r => (r.2 = none → SP P n r.1 rest ∧ P.pre r.1.s = none) ∧
      (∀ o, r.2 = some o → SX P n o r.1)) ?_ ?_ ?_ ?_
  · intro _ hany
    simp [World.anyReady, h.p.kd.dir] at hany
  · intro _ hg
    unfold Eng.gateGo at hg
    simp [World.isSet, h.p.kd.dir, S.elig] at hg
  · -- the child's poll panicked
    intro _ hg hp
    rw [L.child_id] at hp ⊢
    refine ⟨fun hn => by simp at hn, ?_⟩
    intro o ho
    simp only [Option.some.injEq] at ho
    subst ho
    rw [hgw]
    have hks := kd_pollChild i hic h.p.kd
    have him := pollChild_inp_mb n e.w i i h.p.inp h.p.mb
    have him2 := emits_own_inp_mb n _ _ (L.evs_panic e.s) him.2 him.1
    refine ⟨⟨kd_emits_own _ (L.evs_panic e.s) hks, him2.2, him2.1, by simp [h.p.cap, L.n_panic],
      fun hpre => absurd hpre (L.panic_dead _), fun hh => by simp at hh, fun _ => ?_⟩,
      fun hpre => absurd hpre (L.panic_dead _)⟩
    simp only [World.emits_trace]
    refine panicSince_own _ _ (fun e' he' => L.evs_panic e.s e' (List.mem_reverse.mp he')) ?_
    exact panicSince_pollChild _ _ _ hp
  · -- the child was polled and its result handled
    intro _ hg hp
    rw [L.child_id] at hp ⊢
    rw [hgw]
    have hks := kd_pollChild i hic h.p.kd
    have hjs := jd_pollChild (V := fun _ => False) i h.p.kd h.p.jd
    have him := pollChild_inp_mb n e.w i i h.p.inp h.p.mb
    generalize hr : e.w.resOf i = r at hp ⊢
    have hevs := L.evs_handle e.s i r
    have him2 := emits_own_inp_mb n _ _ hevs him.2 him.1
    have hks2 := kd_emits_own _ hevs hks
    have hjs2 := jd_emits_own _ hevs hjs
    have hlr : ∀ j, lastRes ((e.w.pollChild i i).emits (P.handle e.s i r).evs).trace j
        = if i = j then some r else lastRes e.w.trace j := by
      intro j
      rw [C16.lastRes_emits_own _ _ hevs, C16.lastRes_pollChild, hr]
    have hkop : (((e.w.pollChild i i).emits (P.handle e.s i r).evs).kop (P.handle e.s i r).kop)
        = (e.w.pollChild i i).emits (P.handle e.s i r).evs := kop_direct _ _ hks2.dir
    -- the only child that can be waiting now is `i`, and only if it just returned `Pending`
    have honly : ∀ j, lastRes ((e.w.pollChild i i).emits (P.handle e.s i r).evs).trace j
        = some .pend → i = j ∧ r = .pend := by
      intro j hj
      rw [hlr] at hj
      by_cases hij : i = j
      · simp only [hij, if_true, Option.some.injEq] at hj
        exact ⟨hij, hj⟩
      · simp only [hij, if_false] at hj
        have := h.np j hj
        simp only [List.head?_cons, Option.some.injEq] at this
        exact absurd this hij
    have hR1 : R1 P (Eng.applyH { e with w := e.w.pollChild i i } (P.handle e.s i r)) :=
      r1_of_seq S _
    constructor
    · intro hex
      have hne : r ≠ .pend := by
        intro hh; subst hh
        rw [S.pend_exit] at hex; simp at hex
      refine ⟨⟨⟨by simpa [hkop] using hks2,
          by simpa [hkop] using jd_mono (V' := fun _ => False) (fun c hc => hc.elim) hjs2,
          by simpa using him2.2, by simpa using him2.1, by simp [h.p.cap, L.n_handle], hR1⟩,
          ?_, ?_⟩, ?_⟩
      · simp only [Eng.applyH_s]
        exact S.cont _ _ _ _ h.ord hex
      · intro c hc
        simp only [Eng.applyH_w, World.kop_trace] at hc
        exact absurd (honly c hc).2 hne
      · simp only [Eng.applyH_s]
        by_cases hd : P.pre (P.handle e.s i r).s = none
        · exact hd
        · exact absurd hex (L.dead_exit _ _ _ hl hd)
    · intro o ho
      refine ⟨⟨by simpa [hkop] using hks2, by simpa using him2.2, by simpa using him2.1,
        by simp [h.p.cap, L.n_handle], hR1, fun hh => ?_, fun hh => ?_⟩, ?_⟩
      · -- returning `Pending`: every waiting child (only `i`) was polled by this poll
        simp only [Eng.applyH_w, hkop]
        refine ⟨hjs2.pw, hjs2.wk, hjs2.o, ?_⟩
        intro c _ hc
        rcases hc with hc | hc
        · obtain ⟨hic', _⟩ := honly c hc
          subst hic'
          exact hjs2.d i (Or.inr rfl) (Or.inl hc)
        · simp at hc
      · subst hh; exact absurd ho (S.no_panic_exit _ _ _)
      · intro hpre j hj
        simp only [Eng.applyH_w, World.kop_trace, Eng.applyH_s] at hj hpre ⊢
        obtain ⟨hij, hrp⟩ := honly j hj
        subst hij; subst hrp
        rw [S.pend_order, h.ord]; rfl

theorem sp_scan (S : Seq P) : ∀ (l : List Nat) (e : Eng Fix),
    SP P n e l → P.pre e.s = none →
    ((Eng.scan P l e).2 = none →
        SP P n (Eng.scan P l e).1 [] ∧ P.pre (Eng.scan P l e).1.s = none) ∧
    (∀ o, (Eng.scan P l e).2 = some o → SX P n o (Eng.scan P l e).1) := by
  intro l
  induction l with
  | nil =>
    intro e h hl
    exact ⟨fun _ => ⟨h, hl⟩, fun o ho => by simp [Eng.scan] at ho⟩
  | cons i rest ih =>
    intro e h hl
    have hv := sp_visit S e i rest h hl
    unfold Eng.scan
    cases hvis : (Eng.visit P e i).2 with
    | some o =>
      simp only
      exact ⟨fun hn => by simp at hn, fun o' ho' => by
        simp only [Option.some.injEq] at ho'; subst ho'; exact hv.2 o hvis⟩
    | none =>
      simp only
      have h1 := hv.1 hvis
      exact ih (Eng.visit P e i).1 h1.1 h1.2

theorem bs_of_sx (o : Outcome) (e : Eng Fix) (h : SX P n o e) :
    BS P n (e.emit (.pollEnd o)) :=
  ⟨binv_of_xinv o e h.x, fun hp j hj => h.rs hp j (by simpa [lastRes] using hj)⟩

theorem bs_close (S : Seq P) (r : Eng Fix × Option Outcome)
    (hx : ∀ o, r.2 = some o → SX P n o r.1)
    (hc : r.2 = none → SP P n r.1 [] ∧ P.pre r.1.s = none) :
    BS P n (Eng.close P r) := by
  have L := S.law
  unfold Eng.close
  split
  · rename_i o ho; exact bs_of_sx o _ (hx o ho)
  · rename_i hn
    obtain ⟨hp, hlive⟩ := hc hn
    obtain ⟨o, ho⟩ : ∃ o, (P.finish r.1.s).exit = some o := by
      cases hf : (P.finish r.1.s).exit with
      | none => exact absurd hf (S.fin_ok _).2
      | some o => exact ⟨o, rfl⟩
    rw [ho]
    simp only [Option.getD_some]
    refine bs_of_sx o _ ?_
    have hevs := L.evs_finish r.1.s
    have him := emits_own_inp_mb n _ _ hevs hp.p.inp hp.p.mb
    have hnone : ∀ c, lastRes r.1.w.trace c ≠ some .pend := by
      intro c hc
      have := hp.np c hc
      simp at this
    refine ⟨⟨?_, by simpa [L.finish_kop, World.kop] using him.2,
      by simpa [L.finish_kop, World.kop] using him.1, by simp [hp.p.cap, L.n_finish],
      r1_of_seq S _, ?_, ?_⟩, ?_⟩
    · simp only [Eng.applyH_w, L.finish_kop, World.kop]
      exact kd_emits_own _ hevs hp.p.kd
    · intro _
      simp only [Eng.applyH_w, L.finish_kop, World.kop]
      refine jd_emits_own _ hevs ⟨hp.p.jd.pw, hp.p.jd.wk, hp.p.jd.o, ?_⟩
      intro c _ hl
      rcases hl with hl | hl
      · exact absurd hl (hnone c)
      · simp at hl
    · intro hh
      subst hh
      exact absurd ho (S.fin_ok _).1
    · intro _ j hj
      simp only [Eng.applyH_w, World.kop_trace] at hj
      rw [C16.lastRes_emits_own _ _ hevs] at hj
      exact absurd hj (hnone j)

theorem bs_body (S : Seq P) (e : Eng Fix) (h : PInv P n e (fun _ => False))
    (hrs : RS P e) (hl : P.pre e.s = none) : BS P n (Eng.body P e) := by
  have L := S.law
  have hstart : SP P n { e with s := P.start e.s } (P.order e.s) := by
    refine ⟨⟨h.kd, h.jd, h.inp, h.mb, by simp [h.cap, L.n_start], r1_of_seq S _⟩,
      S.start_order _, ?_⟩
    intro c hc
    exact hrs hl c hc
  unfold Eng.body
  split
  · rename_i hc
    simp [World.anyReady, h.kd.dir] at hc
  · have hs := sp_scan (n := n) S (P.order e.s) { e with s := P.start e.s } hstart
      (L.start_live _ hl)
    exact bs_close S _ hs.2 hs.1

theorem bs_fire (e : Eng Fix) (c a : Nat) (h : BS P n e) : BS P n (e.fire c a) := by
  refine ⟨binv_fire e c a h.b, ?_⟩
  intro hp j hj
  simp only [Eng.fire_w, C16.lastRes_fire] at hj
  exact h.rs hp j hj

theorem bs_drop (L : Lawful P) (e : Eng Fix) (h : BS P n e) : BS P n (Eng.drop P e) :=
  ⟨binv_drop L e h.b, fun hp => absurd hp (L.drop_dead _)⟩

theorem bs_poll (S : Seq P) (e : Eng Fix) (wid : Nat) (h : BS P n e) :
    BS P n (Eng.poll P e wid) := by
  have hb := h.b
  have hq := quiet_of_binv e hb
  have hmb1 : c01Boundaries n (Ev.pollBegin wid :: e.w.trace) = true := mb_startsOp n _ _ hb.mb hq
  unfold Eng.poll
  split
  · rename_i o ho
    have hne := S.pre_ok e.s
    rw [ho] at hne
    refine ⟨⟨kd_pollEnd o (kd_emit _ rfl hb.kd) (fun hh => absurd (by rw [hh]) hne.2),
      by simpa using hb.cap, ?_, by simp [inPoll], ?_, ?_⟩, ?_⟩
    · intro hp j hj; exact hb.r1 hp j (by simpa [lastRes] using hj)
    · exact mb_notOp n _ _ hmb1 rfl
    · intro _ hlo
      simp only [Eng.emit_w, World.emit_trace, lastOut, Option.some.injEq] at hlo
      exact absurd (by rw [hlo]) hne.1
    · intro hp j hj; exact h.rs hp j (by simpa [lastRes] using hj)
  · rename_i hp
    refine bs_body S _ ?_ ?_ hp
    · refine ⟨⟨hb.kd.dir, hb.kd.hand, fun c hc => hb.kd.lp c (by simpa [lastRes] using hc),
          by simpa [c01NoPanic] using hb.kd.nowp⟩,
        ⟨⟨wid, by simp, by simp [cur]⟩, ?_, ?_, ?_⟩,
        by simp [inPoll], by simpa using hmb1, by simpa using hb.cap, ?_⟩
      · intro c hps; simp [polledSince] at hps
      · intro c hps; simp [polledSince] at hps
      · intro c hv; exact absurd hv (by simp)
      · intro hp' j hj; exact hb.r1 hp' j (by simpa [lastRes] using hj)
    · intro hp' j hj; exact h.rs hp' j (by simpa [lastRes] using hj)

theorem bs_step (S : Seq P) (e : Eng Fix) (op : Op) (h : BS P n e) :
    BS P n (FEng.step P e op) := by
  cases op <;> simp only [FEng.step]
  · exact bs_poll S _ _ h
  · exact bs_fire _ _ _ h
  · exact bs_drop S.law _ h
  all_goals exact h

theorem bs_run (S : Seq P) (ops : List Op) (e : Eng Fix) (h : BS P n e) :
    BS P n (ops.foldl (FEng.step P) e) := by
  induction ops generalizing e with
  | nil => exact h
  | cons op ops ih => exact ih _ (bs_step S e op h)

theorem bs_init (f : Fam) (k : Nat) (scripts : Nat → List Step) (m : Mode)
    (hm : f.modeOf m = .direct) : BS f.policy n (FEng.init f m k scripts) :=
  ⟨binv_init f k scripts m hm, fun _ j hj => by simp [FEng.init, World.init, lastRes] at hj⟩

theorem bs_holds (e : Eng Fix) (h : BS P n e) : holds_C01 n e.w.trace = true :=
  binv_holds e h.b

end C01S

/-! ### the three families satisfy `Seq` -/

open Fix

theorem seq_chain : Seq chain where
  law := lawful_chain
  elig := by intros; rfl
  pend_exit := by intros; rfl
  pend_order := by intros; rfl
  cont := by
    intro s i rest r ho hex
    have hlen : s.n - s.cnt ≠ 0 := by
      intro h0
      simp [chain, h0] at ho
    obtain ⟨k, hk⟩ : ∃ k, s.n - s.cnt = k + 1 := ⟨s.n - s.cnt - 1, by omega⟩
    simp only [chain, hk, List.range'_succ, List.cons.injEq] at ho
    rcases r with _ | ⟨ok, v⟩ | v | _ | _ <;> simp [chain] at hex ⊢
    have : s.n - (s.cnt + 1) = k := by omega
    rw [this]; exact ho.2
  start_order := by intros; rfl
  no_panic_exit := by
    intro s i r
    rcases r with _ | ⟨ok, v⟩ | v | _ | _ <;> simp [chain]
  pre_ok := by
    intro s
    simp only [chain, Fix.misuseIfDead]
    split <;> simp
  fin_ok := by intro s; simp [chain]

theorem wait_order_cont (n : Nat) (i : Nat) (rest : List Nat)
    (ho : ([0, 1] : List Nat).filter (· < n) = i :: rest) :
    i = 0 ∧ ([1] : List Nat).filter (· < n) = rest := by
  by_cases h0 : 0 < n
  · simp [List.filter, h0] at ho
    by_cases h1 : 1 < n
    · simp [h1] at ho
      refine ⟨ho.1.symm, ?_⟩
      simp [List.filter, h1, ho.2]
    · simp [h1] at ho
      refine ⟨ho.1.symm, ?_⟩
      simp [List.filter, h1, ho.2]
  · have : n = 0 := by omega
    subst this
    simp [List.filter] at ho

theorem seq_waitUntilF : Seq waitUntilF where
  law := lawful_waitUntilF
  elig := by intros; rfl
  pend_exit := by intros; rfl
  pend_order := by intros; rfl
  cont := by
    intro s i rest r ho hex
    rcases r with _ | ⟨ok, v⟩ | v | _ | _ <;> simp [waitUntilF] at hex
    -- only `ready` on slot 0 lets the loop go on
    by_cases hi0 : i = 0
    · subst hi0
      simp only [waitUntilF, if_true] at ho ⊢
      by_cases hc : s.cnt = 0
      · simp only [hc, if_true] at ho
        simp only [Nat.one_ne_zero, if_false]
        exact (wait_order_cont s.n 0 rest ho).2
      · simp only [hc, if_false] at ho
        by_cases h1 : 1 < s.n
        · simp [List.filter, h1] at ho
        · simp [List.filter, h1] at ho
    · simp [hi0, Fix.kill] at hex
  start_order := by intros; rfl
  no_panic_exit := by
    intro s i r
    rcases r with _ | ⟨ok, v⟩ | v | _ | _ <;> simp [waitUntilF] <;> (try split) <;> simp
  pre_ok := by
    intro s
    simp only [waitUntilF, Fix.misuseIfDead]
    split <;> simp
  fin_ok := by intro s; simp [waitUntilF]

theorem seq_waitUntilS : Seq waitUntilS where
  law := lawful_waitUntilS
  elig := by intros; rfl
  pend_exit := by intros; rfl
  pend_order := by intros; rfl
  cont := by
    intro s i rest r ho hex
    rcases r with _ | ⟨ok, v⟩ | v | _ | _ <;> simp [waitUntilS] at hex
    by_cases hi0 : i = 0
    · subst hi0
      simp only [waitUntilS, if_true] at ho ⊢
      by_cases hc : s.cnt = 0
      · simp only [hc, if_true] at ho
        simp only [Nat.one_ne_zero, if_false]
        exact (wait_order_cont s.n 0 rest ho).2
      · simp only [hc, if_false] at ho
        by_cases h1 : 1 < s.n
        · simp [List.filter, h1] at ho
        · simp [List.filter, h1] at ho
    · simp [hi0] at hex
  start_order := by intros; rfl
  no_panic_exit := by
    intro s i r
    rcases r with _ | ⟨ok, v⟩ | v | _ | _ <;> simp [waitUntilS] <;> (try split) <;> simp
  pre_ok := by
    intro s
    simp only [waitUntilS, Fix.misuseIfDead]
    split <;> simp
  fin_ok := by intro s; simp [waitUntilS]

/-- the strictly sequential families (all of them pass the caller's `Context` through) -/
def Fam.isSeq : Fam → Bool
  | .chain | .waitF | .waitS => true
  | _ => false

theorem seq_policy (f : Fam) (h : f.isSeq = true) : Seq f.policy := by
  cases f <;> simp only [Fam.policy] <;> first
    | exact seq_chain | exact seq_waitUntilF | exact seq_waitUntilS
    | (simp [Fam.isSeq] at h)

theorem seq_direct (f : Fam) (h : f.isSeq = true) (m : Mode) : f.modeOf m = .direct := by
  cases f <;> simp [Fam.isSeq] at h <;> simp [Fam.modeOf, Fam.passThrough]

end Fc
