/-
  FcLemmas/KTieTryJoinADPoll.lean — `[Fut; N]::try_join()` in the no_std / alloc-only flavour (FcGen/KSrcArr2D.lean), the
  counterpart of FcLemmas/KTieTryJoinAPoll.lean: the translated `TryJoin::poll` refines `Eng.poll tryJoinSlice` on a
  world in `direct` mode.  The loop body is taken from the generated definition by unification
  (`refine tjd_loop_bind …`; the two textual copies of the loop are first merged by `TieTryJoinV.tj_ite_ite`); the proofs
  use the role abbreviations only (`unroles`).  Simpler than the std flavour: `any_ready` is `true` (the pre-check never
  returns), `clear_ready` answers `true` and changes nothing (every `Pending` slot is polled), the child is handed the
  stored parent waker, and a wake-up leaves the readiness set alone.
-/
import FcLemmas.KTieTryJoinADMain

set_option linter.unusedSimpArgs false
set_option linter.unusedVariables false

namespace Fc
open Rs Src

namespace TieTryJoinAD
open TryJoinAD

local macro "unroles" : tactic =>
  `(tactic| try simp only [TryJoin.roleKids, TryJoin.roleCount, TryJoin.roleWakers, TryJoin.roleStates,
      TryJoin.roleDone, TryJoin.roleItems] at *)

theorem tjd_poll_core (N : Nat) (g : TryJoin) (b : Eng Fix) (w : Nat) (hW : WfT N g) (hS : FutStepsF b.w)
    (hH : HandedIn N b.w) (hd : g.roleDone = false) :
    ∃ g' env' ret,
      TryJoin.poll N g w ((absT g b).w.emit (.pollBegin w)) = some (g', env', ret) ∧
      Post N b (Eng.poll tryJoinSlice (absT g b) w) g' env' ret := by
  have hW0 := hW
  obtain ⟨hkn, hsl, hic, hpc, hrs⟩ := hW
  obtain ⟨r1, hs1, hs3⟩ := (TieDir.arr_tie N g.roleWakers.readiness
      ((absT g b).w.emit (.pollBegin w)) 0 w).2.2.2.2.2.2.2.2.1
  have hparent : r1.roleParent ≠ none := by
    have := congrArg World.parent hs3
    simp at this
    rw [this]; simp
  have ha : DirArr.ReadinessArray.any_ready N r1 = some true :=
    (TieDir.arr_tie N r1 ((absT g b).w.emit (.pollBegin w)) 0 w).2.2.2.2.2.2.2.1
  have hd' : (!g.roleDone) = true := by rw [hd]; rfl
  have hdm : (absT g b).s.dead = false := hd
  have hR0 : ∀ g0 : TryJoin, g0.roleKids = g.roleKids → g0.roleStates = g.roleStates → g0.roleItems = g.roleItems →
      g0.roleCount = g.roleCount → g0.roleDone = g.roleDone →
      g0.roleWakers.readiness = r1 →
      Rel N b.s.off b.w
        ({ absT g b with w := ((absT g b).w.emit (.pollBegin w)).setWaker w } : Eng Fix) g0
        ((absT g b).w.emit (.pollBegin w)) := by
    intro g0 e1 e2 e3 e4 e5 e7
    refine ⟨?_, hkn, by rw [e1]; exact hkn, ?_, ?_, ?_, rfl, ?_,
      by rw [e2]; exact hsl, by rw [e3]; exact hic, by rw [e7]; exact hparent, fun c i hm => hH c i hm, hS,
      ⟨rfl, rfl, rfl⟩⟩
    · rw [e7, hs3]; rfl
    · rw [e2]; rfl
    · rw [e3]; rfl
    · rw [e4]; rfl
    · rw [e5]; rfl
  have hI0 : Inv N g := ⟨hpc, hrs⟩
  -- the pre-check never returns: `any_ready` is `true` in this flavour
  have hE : ¬ ((g.roleCount != 0) = true ∧ (!true) = true) := by simp
  have hpoll : Eng.poll tryJoinSlice (absT g b) w = Eng.close tryJoinSlice (Eng.scan tryJoinSlice
      (List.range N) { absT g b with w := ((absT g b).w.emit (.pollBegin w)).setWaker w }) := by
    have hn : (absT g b).s.n = N := hkn
    rw [← hn]
    exact TieTryJoinV.tj_poll_scan (absT g b) w hdm (Or.inr rfl)
  unfold TryJoin.poll
  unroles
  simp only [hd', hs1, ↓reduceIte, Option.bind_eq_bind, Option.bind_some, Option.pure_def, ha, TieTryJoinV.tj_ite_ite, hE]
  simp only [hkn]
  refine tjd_loop_bind N b.s.off b.w _ ?hF _
    ({ absT g b with w := ((absT g b).w.emit (.pollBegin w)).setWaker w } : Eng Fix) _ _
    ?hR2 ?hI2 (fun i hi => List.mem_range.mp hi) _ _ ?hK
  case hR2 => apply hR0 <;> rfl
  case hI2 => exact ⟨hpc, hrs⟩
  case hK =>
    intro g' env' r hR' hcase
    rcases hcase with ⟨rfl, hx, hI', hd''⟩ | ⟨v, rfl, hx⟩
    · by_cases hz : g'.roleCount = 0
      · obtain ⟨h1, its, h3, h4⟩ := tjd_post_done b hR' hI' hz
        have hclose := TieTryJoinV.tj_close_done _ hx (by rw [hR'.cnt]; exact hz)
        unroles
        simp only [hz, beq_self_eq_true, ↓reduceIte, h1, h3, Option.bind_some]
        refine ⟨_, _, _, rfl, ?_⟩
        rw [hpoll, hclose]
        exact h4 _ rfl rfl hz.symm rfl rfl rfl
      · have hclose := TieTryJoinV.tj_close_pending _ hx (by rw [hR'.cnt]; exact hz)
        unroles
        simp only [hz, beq_iff_eq, ↓reduceIte]
        refine ⟨_, _, _, rfl, ?_⟩
        rw [hpoll, hclose]
        exact tjd_post_of_rel b hR' .pending (fun _ => hI') (fun _ => hd''.trans hd) (by intro vs h; cases h)
    · have hclose := TieTryJoinV.tj_close_some _ _ hx
      refine ⟨_, _, _, rfl, ?_⟩
      rw [hpoll, hclose]
      exact tjd_post_of_rel b hR' (.ready (.err v)) (by intro h; cases h) (by intro h; cases h) (by intro vs h; cases h)
  case hF =>
    intro e gg env i hR hI hi
    dsimp only
    have hRR := hR
    have hII := hI
    obtain ⟨hw, hen, hk, hst, hout, hcnt, hoff, hdead, hsl2, hic2, hpar, hhin, hsok, hfrm⟩ := hR
    obtain ⟨hpc2, hrs2⟩ := hI
    obtain ⟨p, hp⟩ := Option.ne_none_iff_exists'.mp hpar
    have hc1 : DirArr.ReadinessArray.clear_ready N gg.roleWakers.readiness i = some (gg.roleWakers.readiness, true) :=
      (TieDir.arr_tie N gg.roleWakers.readiness env i 0).2.1
    have hpw : DirArr.ReadinessArray.parent_waker_fn N gg.roleWakers.readiness = some (some p) := by
      rw [(TieDir.arr_tie N gg.roleWakers.readiness env i 0).2.2.2.2.2.2.2.2.2, tjd_abs_parent, hp]
    have hidx : Rs.PVec.idx gg.roleStates i = some (gg.roleStates.get i) := by
      simp [Rs.PVec.idx, hsl2, hi]
    have hisp := (TiePS.tie (gg.roleStates.get i)).2.1
    have hkid : Rs.Kids.get gg.roleKids i = some i := by simp [Rs.Kids.get, hk, hi]
    obtain ⟨env3, hp1, hp4, hp5, hp6, hp7⟩ := tjd_pollChild_tieM N gg.roleWakers.readiness env i p hp hhin
    have hsok3 := hsok.tj_tail i hp6
    have hfrm3 : SameRd env3 b.w := hp7.trans hfrm
    try simp only [tjd_wakeD] at hp1
    by_cases hsp : TiePS.abs (gg.roleStates.get i) = .pending
    rotate_left
    · -- the slot is not `Pending`
      have hv := TieTryJoinV.tj_visit_notPending e i (by rw [hst]; exact hsp)
      unroles
      simp only [hkid, hidx, hisp, hsp, decide_false, Option.bind_some, Bool.false_eq_true, ↓reduceIte]
      refine ⟨_, _, _, rfl, ?_, Or.inl ⟨rfl, ?_, hII, rfl⟩⟩
      · rw [hv]; exact hRR
      · rw [hv]
    · -- the slot is `Pending`: the child is polled (there is no flag to consult)
      have hsp' : e.s.st i = .pending := by rw [hst]; exact hsp
      have hgp : gg.roleStates.get i = PS.PollState.pending := TieTryJoinV.tj_abs_pending.mp hsp
      have hset' : e.w.isSet i = true := by rw [hw]; rfl
      have hclr : e.w.clearReady i = e.w := by rw [hw]; rfl
      have hres' : e.w.resOf i = env.resOf i := by rw [hw]; rfl
      have hge : 1 ≤ gg.roleCount := by
        rw [hpc2]; exact TieTryJoinV.tj_count_pos _ i _ hi hgp
      have hus : Rs.usub gg.roleCount 1 = some (gg.roleCount - 1) := by simp [Rs.usub, hge]
      unroles
      simp only [hkid, hidx, hisp, hsp, decide_true, hc1, Option.bind_some, ↓reduceIte, WakerArrayD.get, hpw,
        Option.bind_eq_bind, Option.map_some, Rs.expect, Rs.pollResFut, hp1]
      rcases hsok.tj_resOf i with hres | ⟨ok, v, hres⟩
      · -- Pending
        have hv := TieTryJoinV.tj_visit_pend e i hsp' hset' (by rw [hres', hres])
        simp only [hres, Option.bind_some]
        refine ⟨_, _, _, rfl, ?_, Or.inl ⟨rfl, ?_, ⟨hpc2, hrs2⟩, rfl⟩⟩
        · rw [hv]
          refine hRR.update _ _ _ ?_ rfl rfl hst hout hcnt rfl hdead rfl rfl hpar hp5 hsok3 hfrm3
          unroles
          rw [hp4, hclr, hw]
        · rw [hv]
      · cases ok
        · -- Ready(Err(v))
          have hv := TieTryJoinV.tj_visit_err e i v hsp' hset' (by rw [hres', hres])
          obtain ⟨q, hq1, hq2⟩ := (TiePS.tie (gg.roleStates.get i)).2.2.2.1
          have hset2 : Rs.PVec.set gg.roleStates i q
              = some ⟨gg.roleStates.len, fun j => if j = i then q else gg.roleStates.get j⟩ := by
            simp [Rs.PVec.set, hsl2, hi]
          unroles
          simp only [hres, Option.bind_some, hus, hidx, hq1, hset2]
          refine ⟨_, _, _, rfl, ?_, Or.inr ⟨v, rfl, ?_⟩⟩
          · rw [hv]
            refine hRR.update _ _ _ ?_ rfl rfl ?_ hout ?_ rfl rfl rfl rfl hpar hp5 hsok3 hfrm3
            · unroles
              rw [tjd_abs_emitM, hp4, hclr, hw]
            · unroles
              funext j
              by_cases hj : j = i <;> simp [upd, hj, hq2, hst]
            · unroles
              simp only [hcnt]
          · rw [hv]
        · -- Ready(Ok(v))
          have hv := TieTryJoinV.tj_visit_ok e i v hsp' hset' (by rw [hres', hres])
          obtain ⟨q, hq1, hq2⟩ := (TiePS.tie (gg.roleStates.get i)).2.2.2.2.2
          have hqr : q = PS.PollState.ready := TieTryJoinV.tj_abs_ready.mp hq2
          have hset2 : Rs.PVec.set gg.roleStates i q
              = some ⟨gg.roleStates.len, fun j => if j = i then q else gg.roleStates.get j⟩ := by
            simp [Rs.PVec.set, hsl2, hi]
          have hwr : Rs.OutVec.write gg.roleItems i v
              = some ⟨gg.roleItems.cap, fun j => if j = i then some v else gg.roleItems.get j⟩ := by
            simp [Rs.OutVec.write, hic2, hi]
          have hcs := TieTryJoinV.tj_count_set gg.roleStates.get i _ q hi hgp (by rw [hqr]; decide)
          unroles
          simp only [hres, Option.bind_some, hus, hidx, hq1, hset2, hwr]
          refine ⟨_, _, _, rfl, ?_, Or.inl ⟨rfl, ?_, ⟨?_, ?_⟩, rfl⟩⟩
          · rw [hv]
            refine hRR.update _ _ _ ?_ rfl rfl ?_ ?_ ?_ rfl hdead rfl rfl hpar hp5 hsok3 hfrm3
            · unroles
              rw [tjd_abs_emitM, hp4, hclr, hw]
            · unroles
              funext j
              by_cases hj : j = i <;> simp [upd, hj, hq2, hst]
            · unroles
              funext j
              by_cases hj : j = i <;> simp [upd, hj, hout]
            · unroles
              simp only [hcnt]
          · rw [hv]
          · unroles
            omega
          · unroles
            intro j hj
            by_cases hji : j = i
            · right
              simp [hji, hqr]
            · simp only [hji, ↓reduceIte]
              exact hrs2 j hj

end TieTryJoinAD
end Fc
