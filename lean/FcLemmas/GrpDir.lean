/-
  FcLemmas/GrpDir.lean — C01 and C20 for the groups, direct mode (alloc-only / no_std builds: the
  task waker is handed straight to the members and every pending member is polled on every poll).
-/
import FcLemmas.GrpCommon
import FcLemmas.GrpRun
import FcLemmas.C01Dir

set_option linter.unusedSimpArgs false
set_option linter.unusedVariables false

namespace Fc
namespace G
open Mon C01 Grp

/-- holds at every moment in direct mode -/
structure GD (w : World) : Prop where
  dir  : w.mode = .direct
  hand : ∀ c wk, wk ∈ w.handed c → ∃ p, wk = .par p
  nowp : c01NoPanic w.trace = true

/-- holds from `set_waker` on, for as long as the task waker is current -/
structure DJ (w : World) : Prop where
  pw : ∃ p, w.parent = some p ∧ cur w.trace = some p
  wk : ∀ c, polledSince w.trace c = true → lastWk w.trace c = (cur w.trace).map Wk.par
  o  : ∀ c, polledSince w.trace c = true → owes w.trace c = true → wokeSince w.trace = true

theorem gd_emit {w : World} (e : Ev)
    (hn : (match e with | .wakePanic | .pollEnd .panicked => false | _ => true) = true)
    (h : GD w) : GD (w.emit e) := by
  refine ⟨h.dir, h.hand, ?_⟩
  have := h.nowp
  cases e <;> simp_all [c01NoPanic]
  rename_i o
  cases o <;> simp_all [c01NoPanic]

theorem gd_emits_own {w : World} (l : List Ev) (hl : ∀ e ∈ l, isOwnEv e = true) (h : GD w) :
    GD (w.emits l) := by
  induction l generalizing w with
  | nil => simpa using h
  | cons e l ih =>
    rw [World.emits_cons]
    refine ih (fun e' he' => hl e' (List.mem_cons_of_mem _ he')) (gd_emit e ?_ h)
    have := hl e (List.mem_cons_self ..)
    cases e <;> simp_all [isOwnEv]

theorem dj_emit {w : World} (e : Ev) (hn : C01D.jdNeutral e = true) (h : DJ w) : DJ (w.emit e) := by
  have h1 : cur (e :: w.trace) = cur w.trace := by cases e <;> simp_all [C01D.jdNeutral, cur]
  have h2 : wokeSince (e :: w.trace) = wokeSince w.trace := by
    cases e <;> simp_all [C01D.jdNeutral, wokeSince]
  have h4 : ∀ c, polledSince (e :: w.trace) c = polledSince w.trace c := by
    intro c; cases e <;> simp_all [C01D.jdNeutral, polledSince]
  have h5 : ∀ c, lastWk (e :: w.trace) c = lastWk w.trace c := by
    intro c; cases e <;> simp_all [C01D.jdNeutral, lastWk]
  have h6 : ∀ c, owes (e :: w.trace) c = owes w.trace c := by
    intro c; cases e <;> simp_all [C01D.jdNeutral, owes]
  refine ⟨by simpa [h1] using h.pw, ?_, ?_⟩
  · intro c hp; simp only [World.emit_trace, h4, h5, h1] at hp ⊢; exact h.wk c hp
  · intro c hp ho; simp only [World.emit_trace, h4, h6, h2] at hp ho ⊢; exact h.o c hp ho

theorem dj_emits_own {w : World} (l : List Ev) (hl : ∀ e ∈ l, isOwnEv e = true) (h : DJ w) :
    DJ (w.emits l) := by
  induction l generalizing w with
  | nil => simpa using h
  | cons e l ih =>
    rw [World.emits_cons]
    refine ih (fun e' he' => hl e' (List.mem_cons_of_mem _ he')) (dj_emit e ?_ h)
    have := hl e (List.mem_cons_self ..)
    cases e <;> simp_all [isOwnEv, C01D.jdNeutral]

theorem gd_fire {w : World} (c a : Nat) (h : GD w) : GD (w.fire c a) := by
  unfold World.fire
  split
  · exact gd_emit _ rfl h
  · rename_i wk hwk
    obtain ⟨p, rfl⟩ := h.hand c wk (List.mem_of_getElem? hwk)
    rw [C01D.fireWk_par]
    exact gd_emit _ rfl (gd_emit _ rfl h)

theorem gd_fires {w : World} (l : List (Nat × Nat)) (h : GD w) : GD (w.fires l) := by
  induction l generalizing w with
  | nil => exact h
  | cons p l ih => rw [World.fires_cons]; exact ih (gd_fire p.1 p.2 h)

theorem dj_fire {w : World} (c a : Nat) (hk : GD w) (h : DJ w) : DJ (w.fire c a) := by
  obtain ⟨p, hp, hc⟩ := h.pw
  unfold World.fire
  split
  · refine ⟨⟨p, by simpa using hp, by simpa [cur] using hc⟩, ?_, ?_⟩
    · intro c' hps; simpa [lastWk, cur, polledSince] using h.wk c' (by simpa [polledSince] using hps)
    · intro c' hps ho
      simpa [wokeSince] using h.o c' (by simpa [polledSince] using hps) (by simpa [owes] using ho)
  · rename_i wk hwk
    obtain ⟨q, rfl⟩ := hk.hand c wk (List.mem_of_getElem? hwk)
    rw [C01D.fireWk_par]
    refine ⟨⟨p, by simpa using hp, by simpa [cur] using hc⟩, ?_, ?_⟩
    · intro c' hps
      simpa [lastWk, cur, polledSince] using h.wk c' (by simpa [polledSince] using hps)
    · intro c' hps ho
      simp only [World.emit_trace, polledSince, owes, Bool.or_eq_true, beq_iff_eq, wokeSince,
        cur] at hps ho ⊢
      rcases ho with ho | ho
      · exact Or.inl (h.o c' hps ho)
      · right
        have := h.wk c' hps
        rw [ho, hc] at this
        simp only [Option.map_some, Option.some.injEq, Wk.par.injEq] at this
        rw [hc, this]

theorem dj_fires {w : World} (l : List (Nat × Nat)) (hk : GD w) (h : DJ w) : DJ (w.fires l) := by
  induction l generalizing w with
  | nil => exact h
  | cons p l ih => rw [World.fires_cons]; exact ih (gd_fire p.1 p.2 hk) (dj_fire p.1 p.2 hk h)

theorem gd_childBegin {w : World} (c k : Nat) (h : GD w) :
    GD { w with scripts := upd w.scripts c (w.scripts c).tail,
                handed := upd w.handed c (w.wakerFor k :: w.handed c),
                trace := .childBegin c k (w.wakerFor k) :: w.trace } := by
  refine ⟨h.dir, ?_, by simpa [c01NoPanic] using h.nowp⟩
  intro c' wk hw
  simp only at hw
  by_cases hci : c' = c
  · subst hci
    rw [upd_same] at hw
    simp only [List.mem_cons] at hw
    rcases hw with rfl | hw
    · exact ⟨w.parent.getD 0, by simp [World.wakerFor, h.dir]⟩
    · exact h.hand c' wk hw
  · rw [upd_other _ _ _ _ hci] at hw; exact h.hand c' wk hw

theorem gd_pollChild {w : World} (c k : Nat) (h : GD w) : GD (w.pollChild c k) := by
  unfold World.pollChild
  have h2 := gd_fires (w.stepOf c).fires (gd_childBegin c k h)
  exact ⟨by simpa using h2.dir, by simpa using h2.hand, by simpa [c01NoPanic] using h2.nowp⟩

theorem dj_pollChild {w : World} (c k : Nat) (hk : GD w) (h : DJ w) : DJ (w.pollChild c k) := by
  unfold World.pollChild
  obtain ⟨p, hp, hc⟩ := h.pw
  have hwk : w.wakerFor k = .par p := by simp [World.wakerFor, hk.dir, hp]
  have h1 : DJ { w with scripts := upd w.scripts c (w.scripts c).tail,
                        handed := upd w.handed c (w.wakerFor k :: w.handed c),
                        trace := .childBegin c k (w.wakerFor k) :: w.trace } := by
    refine ⟨⟨p, hp, by simpa [cur] using hc⟩, ?_, ?_⟩
    · intro c' hps
      simp only [polledSince, Bool.or_eq_true, decide_eq_true_eq, lastWk, cur] at hps ⊢
      by_cases hic : c = c'
      · subst hic; simp [hwk, hc]
      · simp only [hic, if_false]
        rcases hps with hps | hps
        · exact absurd hps hic
        · exact h.wk c' hps
    · intro c' hps ho
      simp only [polledSince, Bool.or_eq_true, decide_eq_true_eq, owes, wokeSince] at hps ho ⊢
      by_cases hic : c = c'
      · subst hic; simp at ho
      · simp only [hic, if_false] at ho
        rcases hps with hps | hps
        · exact absurd hps hic
        · exact h.o c' hps ho
  have h2 := dj_fires (w.stepOf c).fires (gd_childBegin c k hk) h1
  refine ⟨by simpa [cur] using h2.pw, ?_, ?_⟩
  · intro c' hps
    simpa [lastWk, cur, polledSince] using h2.wk c' (by simpa [polledSince] using hps)
  · intro c' hps ho
    simpa [wokeSince] using h2.o c' (by simpa [polledSince] using hps) (by simpa [owes] using ho)

theorem gd_pollEnd {w : World} (o : Outcome) (h : GD w)
    (hp : o = .panicked → panicSince w.trace = true) : GD (w.emit (.pollEnd o)) := by
  by_cases ho : o = .panicked
  · subst ho
    exact ⟨h.dir, h.hand, by simp [c01NoPanic, h.nowp, hp rfl]⟩
  · refine gd_emit _ ?_ h
    cases o <;> simp_all

/-! ### the poll skeleton -/

/-- inside a poll, `V` = slots already scanned -/
structure DP (w : World) (mem : Nat → Option Nat) (V : Nat → Prop) : Prop where
  gd : GD w
  dj : DJ w
  d  : ∀ k c, V k → mem k = some c → polledSince w.trace c = true

structure DX (n : Nat) (o : Outcome) (e : Eng Grp) : Prop where
  gd : GD e.w
  pend : o = .pending → DJ e.w ∧ (∀ k c, e.s.member k = some c → polledSince e.w.trace c = true)
  pan : o = .panicked → panicSince e.w.trace = true

theorem dp_mono {w : World} {mem mem' : Nat → Option Nat} {V V' : Nat → Prop}
    (hv : ∀ k, V' k → V k) (hm : ∀ k c, mem' k = some c → mem k = some c) (h : DP w mem V) :
    DP w mem' V' :=
  ⟨h.gd, h.dj, fun k c hk hmk => h.d k c (hv k hk) (hm k c hmk)⟩

theorem dp_emits_own {w : World} {mem : Nat → Option Nat} {V : Nat → Prop} (l : List Ev)
    (hl : ∀ e ∈ l, isOwnEv e = true) (h : DP w mem V) : DP (w.emits l) mem V :=
  ⟨gd_emits_own l hl h.gd, dj_emits_own l hl h.dj, fun k c hk hm => by
    rw [polledSince_emits_own _ _ hl]; exact h.d k c hk hm⟩

theorem dp_polled {w : World} {mem : Nat → Option Nat} {V : Nat → Prop} (c k : Nat)
    (hm : mem k = some c) (h : DP w mem V) : DP (w.pollChild c k) mem (fun j => V j ∨ j = k) := by
  refine ⟨gd_pollChild c k h.gd, dj_pollChild c k h.gd h.dj, ?_⟩
  intro k' c' hv hm'
  rw [polledSince_pollChild]
  rcases hv with hv | hv
  · simp [h.d k' c' hv hm']
  · subst hv; rw [hm] at hm'; simp [Option.some.inj hm']

theorem polledSince_everPolled (t : List Ev) (c : Nat) (h : polledSince t c = true) :
    everPolled t c = true := by
  induction t with
  | nil => simp [polledSince] at h
  | cons e t ih =>
    cases e <;> simp_all [polledSince, everPolled]
    rcases h with h | h
    · exact Or.inl h
    · exact Or.inr (ih h)

theorem c20At_dir (n : Nat) {s : Grp} {t : List Ev} (hl : Link s t)
    (hd : ∀ k c, s.member k = some c → polledSince t c = true) : c20At false n t = true := by
  unfold c20At
  simp only [List.all_eq_true, List.mem_range]
  intro c _
  cases hown : owned false n t c with
  | false => simp
  | true =>
    simp only [owned, Bool.false_eq_true, if_false, Bool.and_eq_true, Bool.not_eq_true',
      Option.isSome_iff_exists] at hown
    obtain ⟨⟨k, hk⟩, hg⟩ := hown
    have hps := hd k c (hl.f4 c k hk hg)
    simp [hps, polledSince_everPolled t c hps]

variable {n : Nat}

theorem gateW_dir (e : Eng Grp) (k : Nat) (hm : e.w.mode = .direct) : Eng.gateW group e k = e.w := by
  rw [gateW_eq]; split
  · exact C01D.clearReady_direct _ _ hm
  · rfl

theorem dp_visit (e : Eng Grp) (k : Nat) (ord : List Nat) (V : Nat → Prop) (hc : CI n e ord)
    (h : DP e.w e.s.member V) :
    ((Eng.visit group e k).2 = none →
        DP (Eng.visit group e k).1.w (Eng.visit group e k).1.s.member (fun j => V j ∨ j = k)) ∧
    (∀ o, (Eng.visit group e k).2 = some o → DX n o (Eng.visit group e k).1) := by
  have hdir := h.gd.dir
  have hgw := gateW_dir e k hdir
  refine Eng.visit_ind group e k
    (fun r => (r.2 = none → DP r.1.w r.1.s.member (fun j => V j ∨ j = k)) ∧
      (∀ o, r.2 = some o → DX n o r.1)) ?_ ?_ ?_ ?_
  · intro hl _; rw [group_loopAny] at hl; exact Bool.noConfusion hl
  · intro _ hg
    refine ⟨fun _ => ?_, fun o ho => by simp at ho⟩
    rw [gateGo_eq] at hg
    rw [hgw]
    have hel : ¬ e.s.st k = .pending := by
      intro hel
      simp [hel, World.isSet_direct _ _ hdir] at hg
    have hv : e.s.member k = none := by
      cases hm : e.s.member k with
      | none => rfl
      | some c => exact absurd ((hc.slab.stm k).mpr (by rw [hm]; simp)) hel
    refine ⟨h.gd, h.dj, ?_⟩
    intro k' c hk hm
    rcases hk with hk | hk
    · exact h.d k' c hk hm
    · subst hk; rw [hv] at hm; simp at hm
  · intro _ hg hp
    have hel := elig_of_go hg
    obtain ⟨c, hmk⟩ := member_of_elig hc.slab k hel
    have hcc : group.child e.s k = c := by rw [group_child, hmk]; rfl
    rw [hcc] at hp ⊢
    refine ⟨fun hn => by simp at hn, ?_⟩
    intro o ho
    simp only [Option.some.injEq] at ho
    subst ho
    rw [group_panicEvs, group_onPanic, hgw]
    refine ⟨gd_pollChild c k h.gd, fun hh => by simp at hh, fun _ => ?_⟩
    simp only [World.emits_nil]
    exact panicSince_pollChild _ _ _ hp
  · intro _ hg hp
    have hel := elig_of_go hg
    obtain ⟨c, hmk⟩ := member_of_elig hc.slab k hel
    have hcc : group.child e.s k = c := by rw [group_child, hmk]; rfl
    rw [hcc] at hp ⊢
    rw [hgw]
    have hsp := dp_polled c k hmk h
    have hgd : (e.s.member k).getD 0 = c := by rw [hmk]; rfl
    have hsub : ∀ k' c', upd e.s.member k none k' = some c' → e.s.member k' = some c' := by
      intro k' c' hh
      by_cases hkk : k' = k
      · subst hkk; simp at hh
      · rwa [upd_other _ _ _ _ hkk] at hh
    have hevs : ∀ ev ∈ [Ev.childDropped c], isOwnEv ev = true := by simp [isOwnEv]
    generalize hr : e.w.resOf c = r at hp ⊢
    cases r with
    | panic => exact absurd rfl hp
    | pend =>
      rw [handle_pend]
      exact ⟨fun _ => by simpa [World.kop] using hsp, fun o ho => by simp at ho⟩
    | ready ok v =>
      rw [handle_ready, hgd]
      refine ⟨fun hn => by simp at hn, fun o ho => ?_⟩
      simp only [Option.some.injEq] at ho
      subst ho
      refine ⟨?_, fun hh => by simp at hh, fun hh => by simp at hh⟩
      simp only [Eng.applyH_w, World.kop]
      exact gd_emits_own _ hevs hsp.gd
    | item v =>
      rw [handle_item]
      refine ⟨fun hn => by simp at hn, fun o ho => ?_⟩
      simp only [Option.some.injEq] at ho
      subst ho
      refine ⟨?_, fun hh => by simp at hh, fun hh => by simp at hh⟩
      simp only [Eng.applyH_w, World.emits_nil]
      rw [C01D.kop_direct _ _ (by simpa using hdir)]
      exact hsp.gd
    | fin =>
      rw [handle_fin, hgd]
      refine ⟨fun _ => ?_, fun o ho => by simp at ho⟩
      simp only [Eng.applyH_w, Eng.applyH_s, World.kop, finSt_member]
      exact dp_emits_own _ hevs (dp_mono (fun _ hk => hk) hsub hsp)

theorem dp_scan (ord : List Nat) : ∀ (l : List Nat) (e : Eng Grp) (V : Nat → Prop),
    CI n e ord → e.s.dead = false → DP e.w e.s.member V →
    ((Eng.scan group l e).2 = none →
        DP (Eng.scan group l e).1.w (Eng.scan group l e).1.s.member (fun j => V j ∨ j ∈ l)) ∧
    (∀ o, (Eng.scan group l e).2 = some o → DX n o (Eng.scan group l e).1) := by
  intro l
  induction l with
  | nil =>
    intro e V _ _ h
    exact ⟨fun _ => dp_mono (fun k hk => by simpa using hk) (fun _ _ hm => hm) h,
      fun o ho => by simp [Eng.scan] at ho⟩
  | cons i rest ih =>
    intro e V hc hd h
    have hv1 := ci_visit e i ord hc hd
    have hv2 := dp_visit e i ord V hc h
    unfold Eng.scan
    cases hvis : (Eng.visit group e i).2 with
    | some o =>
      simp only
      exact ⟨fun hn => by simp at hn, fun o' ho' => by
        simp only [Option.some.injEq] at ho'; subst ho'; exact hv2.2 o hvis⟩
    | none =>
      simp only
      have := ih (Eng.visit group e i).1 (fun j => V j ∨ j = i) (hv1.1 hvis).1 (hv1.1 hvis).2
        (hv2.1 hvis)
      refine ⟨fun hs => dp_mono ?_ (fun _ _ hm => hm) (this.1 hs), this.2⟩
      intro j hj
      simp only [List.mem_cons] at hj
      rcases hj with hj | hj | hj
      · exact Or.inl (Or.inl hj)
      · exact Or.inl (Or.inr hj)
      · exact Or.inr hj

/-- the invariant between operations -/
structure DB (n : Nat) (e : Eng Grp) : Prop where
  cb : CB n e
  gd : GD e.w
  mb : c01Boundaries n e.w.trace = true
  dj : alive e.w.trace = true → lastOut e.w.trace = some .pending →
         DJ e.w ∧ (∀ k c, e.s.member k = some c → lastRes e.w.trace c = some .pend →
                      polledSince e.w.trace c = true)

theorem db_of_exit (o : Outcome) {e : Eng Grp} (hcx : CX n e) (hdx : DX n o e) :
    DB n (e.emit (.pollEnd o)) := by
  refine ⟨cb_of_cx o hcx (fun ho => c20At_dir n hcx.link (hdx.pend ho).2), gd_pollEnd o hdx.gd hdx.pan,
    ?_, ?_⟩
  · simp only [Eng.emit_w, World.emit_trace]
    rw [mb_mid n _ _ hcx.inp]; exact hcx.mb
  · intro _ hlo
    simp only [Eng.emit_w, World.emit_trace, lastOut, Option.some.injEq] at hlo
    refine ⟨dj_emit _ rfl (hdx.pend hlo).1, fun k c hm _ => ?_⟩
    simpa [polledSince] using (hdx.pend hlo).2 k c hm

theorem db_body (e : Eng Grp) (hc : CI n { e with s := group.start e.s } (group.order e.s))
    (hd : e.s.dead = false) (h : DP e.w e.s.member (fun _ => False)) :
    DB n (Eng.body group e) := by
  have hdir := h.gd.dir
  unfold Eng.body
  split
  · rename_i hcnd
    simp [World.anyReady, hdir] at hcnd
  · have hs1 := ci_scan (group.order e.s) (group.order e.s) _ hc hd
    have hs2 := dp_scan (group.order e.s) (group.order e.s) { e with s := group.start e.s }
      (fun _ => False) hc hd h
    unfold Eng.close
    split
    · rename_i o ho; exact db_of_exit o (hs1.2 o ho) (hs2.2 o ho)
    · rename_i hn
      obtain ⟨hci, _⟩ := hs1.1 hn
      have hsp := hs2.1 hn
      rw [finish_eq]
      simp only [Option.getD_some]
      refine db_of_exit _ (by rw [← finish_eq]; exact cx_finish hci) ⟨?_, fun _ => ⟨?_, ?_⟩, ?_⟩
      · simpa [World.kop] using hsp.gd
      · simpa [World.kop] using hsp.dj
      · simp only [Eng.applyH_w, Eng.applyH_s, World.kop, flush_member, World.emits_nil]
        intro k c hm
        exact hsp.d k c (Or.inr (hci.cov k (by rw [hm]; simp))) hm
      · intro hh; split at hh <;> simp at hh

theorem quiet_of_db (e : Eng Grp) (h : DB n e) : quiet n e.w.trace = true := by
  unfold quiet
  cases ha : alive e.w.trace with
  | false => simp
  | true =>
    by_cases hlo : lastOut e.w.trace = some .pending
    · have hjs := h.dj ha hlo
      simp only [hlo, beq_self_eq_true, Bool.and_self, Bool.not_true, Bool.false_or,
        List.all_eq_true, List.mem_range]
      intro c _
      cases hw : wokeSince e.w.trace with
      | true => simp
      | false =>
        simp only [Bool.or_false, Bool.not_eq_true', Bool.and_eq_false_imp, Bool.and_eq_true,
          beq_iff_eq, Bool.not_eq_true', and_imp]
        intro hp hg
        cases ho : owes e.w.trace c with
        | false => rfl
        | true =>
          obtain ⟨k, hm⟩ := h.cb.link.f3 c (by rw [hp]; simp) hg
          have hps := hjs.2 k c hm hp
          have := hjs.1.o c hps ho
          rw [hw] at this
          exact Bool.noConfusion this
    · have : (lastOut e.w.trace == some Outcome.pending) = false := by simpa using hlo
      simp [this]

theorem db_holds (e : Eng Grp) (h : DB n e) :
    holds_C01 n e.w.trace = true ∧ holds_C20 false n e.w.trace = true := by
  refine ⟨?_, h.cb.m20⟩
  unfold holds_C01
  simp [h.mb, quiet_of_db e h, h.gd.nowp]

theorem db_poll (e : Eng Grp) (wid : Nat) (h : DB n e) : DB n (Eng.poll group e wid) := by
  have hq := quiet_of_db e h
  have hmb1 : c01Boundaries n (Ev.pollBegin wid :: e.w.trace) = true := mb_startsOp n _ _ h.mb hq
  unfold Eng.poll
  split
  · rename_i o ho
    have hne : o ≠ .pending ∧ o ≠ .panicked := by
      rw [pre_eq] at ho
      split at ho
      · simp only [Option.some.injEq] at ho; subst ho; simp
      · split at ho
        · simp only [Option.some.injEq] at ho; subst ho; simp
        · simp at ho
    refine ⟨cb_pre e wid o hne.1 h.cb, gd_pollEnd o (gd_emit _ rfl h.gd) (fun hh => absurd hh hne.2),
      mb_notOp n _ _ hmb1 rfl, ?_⟩
    intro _ hlo
    simp only [Eng.emit_w, World.emit_trace, lastOut, Option.some.injEq] at hlo
    exact absurd hlo hne.1
  · rename_i hp
    have hd := pre_none_live hp
    refine db_body _ (ci_begin e wid h.cb hmb1) hd ?_
    refine ⟨⟨h.gd.dir, h.gd.hand, by simpa [c01NoPanic] using h.gd.nowp⟩,
      ⟨⟨wid, by simp, by simp [cur]⟩, ?_, ?_⟩, ?_⟩
    · intro c hps; simp [polledSince] at hps
    · intro c hps; simp [polledSince] at hps
    · intro k c hv; exact absurd hv (by simp)

/-! ### operations between polls -/

theorem db_emit (e : Eng Grp) (ev : Ev) (hn : opNeutral ev = true) (hd : ev ≠ .dropBegin)
    (h : DB n e) : DB n { e with w := e.w.emit ev } := by
  have hq := quiet_of_db e h
  refine ⟨cb_emit e ev hn h.cb, gd_emit ev (by cases ev <;> simp_all [opNeutral]) h.gd,
    mb_startsOp n _ _ h.mb hq, ?_⟩
  intro ha hlo
  simp only [World.emit_trace, alive_opNeutral ev _ hn hd, lastOut_opNeutral ev _ hn] at ha hlo
  obtain ⟨h1, h2⟩ := h.dj ha hlo
  refine ⟨dj_emit ev (by cases ev <;> simp_all [opNeutral, C01D.jdNeutral]) h1, ?_⟩
  intro k c hm hl
  have e1 : lastRes (ev :: e.w.trace) c = lastRes e.w.trace c := by
    cases ev <;> simp_all [opNeutral, lastRes]
  have e2 : polledSince (ev :: e.w.trace) c = polledSince e.w.trace c := by
    cases ev <;> simp_all [opNeutral, polledSince]
  simp only [World.emit_trace, e1, e2] at hl ⊢
  exact h2 k c hm hl

theorem polledSince_fire (w : World) (c a x : Nat) :
    polledSince (w.fire c a).trace x = polledSince w.trace x := by
  obtain ⟨l, hl, hp⟩ := World.fire_seg w c a
  rw [hl]; exact polledSince_fires l _ x hp

theorem db_fire (e : Eng Grp) (c a : Nat) (h : DB n e) : DB n (e.fire c a) := by
  have hm := mb_fire n e.w c a h.mb (quiet_of_db e h) h.cb.out
  refine ⟨cb_fire e c a h.cb, gd_fire c a h.gd, hm.1, ?_⟩
  intro ha hlo
  simp only [Eng.fire_w, alive_fire, lastOut_fire] at ha hlo
  obtain ⟨h1, h2⟩ := h.dj ha hlo
  refine ⟨dj_fire c a h.gd h1, fun k x hmk hl => ?_⟩
  simp only [Eng.fire_w, Eng.fire_s, C16.lastRes_fire, polledSince_fire] at hl ⊢
  exact h2 k x hmk hl

theorem db_drop (e : Eng Grp) (h : DB n e) : DB n (Eng.drop group e) := by
  have hcb := cb_drop e h.cb
  unfold Eng.drop at hcb ⊢
  have hevs := dropEvs_own e.s
  have hq := quiet_of_db e h
  have h1 : c01Boundaries n (Ev.dropBegin :: e.w.trace) = true := mb_startsOp n _ _ h.mb hq
  have h2 := mb_own_dead n (group.dropEvs e.s).reverse (Ev.dropBegin :: e.w.trace)
    (fun e' he' => hevs e' (List.mem_reverse.mp he')) rfl h1
  refine ⟨hcb, ?_, ?_, ?_⟩
  · exact gd_emit _ rfl (gd_emits_own _ hevs (gd_emit _ rfl h.gd))
  · simp only [World.emit_trace, World.emits_trace]
    exact mb_notOp n _ _ h2.1 rfl
  · intro ha
    simp only [World.emit_trace, World.emits_trace, alive] at ha
    rw [h2.2] at ha; exact Bool.noConfusion ha

theorem db_reserve (e : Eng Grp) (a : Nat) (h : DB n e) : DB n (GEng.reserve e a) := by
  have hcb := cb_reserve e a h.cb
  unfold GEng.reserve at hcb ⊢
  split
  · exact h
  · rename_i hc
    simp only [hc, if_false] at hcb
    have ht := GEng.resize_trace e.w (e.s.capacity + a)
    refine ⟨hcb, ⟨by rw [GEng.resize_mode]; exact h.gd.dir, by simpa using h.gd.hand,
      by rw [ht]; exact h.gd.nowp⟩, by rw [ht]; exact h.mb, ?_⟩
    intro ha hlo
    rw [ht] at ha hlo
    obtain ⟨h1, h2⟩ := h.dj ha hlo
    refine ⟨⟨by simpa [ht] using h1.pw, by rw [ht]; exact h1.wk, by rw [ht]; exact h1.o⟩, ?_⟩
    rw [ht]; exact h2

theorem db_grow (e : Eng Grp) (h : DB n e) : DB n (GEng.grow e) := by
  unfold GEng.grow; split
  · exact db_reserve e _ h
  · exact h

theorem db_insertAt (e : Eng Grp) (c : Nat) (b : Bool) (h : DB n e) (hd : e.s.dead = false)
    (hl : e.s.len < e.s.capacity) (hf : keyOf e.w.trace c = none) : DB n (GEng.insertAt e c b) := by
  have hcb := cb_insertAt e c b h.cb hd hl hf
  have hlr : lastRes e.w.trace c = none := by
    cases hh : lastRes e.w.trace c with
    | none => rfl
    | some r => exact absurd hf (h.cb.link.fr c (by rw [hh]; simp))
  have hq := quiet_of_db e h
  refine ⟨hcb, ?_, ?_, ?_⟩
  · rw [insertAt_w]
    exact gd_emit _ rfl ⟨by simpa using h.gd.dir, by simpa using h.gd.hand, by simpa using h.gd.nowp⟩
  · rw [insertAt_w]
    simp only [World.emit_trace, World.setReady_trace]
    exact mb_startsOp n _ _ h.mb hq
  · intro ha hlo
    rw [insertAt_w] at ha hlo
    simp only [World.emit_trace, World.setReady_trace, alive, lastOut] at ha hlo
    obtain ⟨h1, h2⟩ := h.dj ha hlo
    rw [insertAt_s, insertAt_w, insSt_member]
    refine ⟨dj_emit _ rfl ⟨by simpa using h1.pw, by simpa using h1.wk, by simpa using h1.o⟩, ?_⟩
    intro k x hm hlx
    simp only [World.emit_trace, World.setReady_trace, lastRes, polledSince] at hlx ⊢
    by_cases hkk : k = e.s.next
    · subst hkk; rw [upd_same] at hm
      have := Option.some.inj hm; subst this
      rw [hlr] at hlx; simp at hlx
    · rw [upd_other _ _ _ _ hkk] at hm; exact h2 k x hm hlx

theorem db_remove (e : Eng Grp) (j : Nat) (h : DB n e) (hd : e.s.dead = false) :
    DB n (GEng.remove e j) := by
  rcases remove_cases e j h.cb.slab (h.cb.qe hd) with h1 | ⟨k, h1⟩ | ⟨k, c, hm, h1⟩
  · rw [h1]; exact h
  · rw [h1]; exact db_emit e _ rfl (by simp) h
  · rw [h1]
    have hq := quiet_of_db e h
    refine ⟨cb_removed e k c hm h.cb, gd_emit _ rfl (gd_emit _ rfl h.gd), ?_, ?_⟩
    · simp only [World.emit_trace]
      exact mb_startsOp n _ _ (mb_startsOp n _ _ h.mb hq) (quiet_childDropped n c _ hq)
    · intro ha hlo
      simp only [World.emit_trace, alive, lastOut] at ha hlo
      obtain ⟨h2, h3⟩ := h.dj ha hlo
      refine ⟨dj_emit _ rfl (dj_emit _ rfl h2), ?_⟩
      intro k' x hmk hlx
      simp only [remSt_member] at hmk
      simp only [World.emit_trace, lastRes, polledSince] at hlx ⊢
      have hkk : k' ≠ k := by intro hh; subst hh; simp at hmk
      rw [upd_other _ _ _ _ hkk] at hmk
      exact h3 k' x hmk hlx

theorem db_steps : Steps (DB n) where
  poll := db_poll
  fire := db_fire
  drop := db_drop
  ins := by
    intro e c b h hd hf
    have hg := cb_grow e h.cb
    exact db_insertAt _ c b (db_grow e h) (by rw [hg.2.2]; exact hd) hg.2.1 (by rw [grow_trace]; exact hf)
  rem := db_remove
  res := db_reserve
  qry := by intro e q a h; exact db_emit e _ rfl (by simp) h

theorem db_init (n : Nat) (a b : Bool) (scripts : Nat → List Step)
    (hk : ScriptsOk (fun _ r => r.fits a = true) (World.init .direct 0 scripts)) :
    DB n (GEng.init a b .direct scripts) := by
  refine ⟨⟨slab_init a b, link_init a b, rfl, hk, rfl, rfl, fun _ => rfl⟩, ⟨rfl, ?_, rfl⟩, rfl, ?_⟩
  · intro c wk hw; simp [GEng.init, World.init] at hw
  · intro _ hlo; simp [GEng.init, World.init, lastOut] at hlo

end G
end Fc
