/-
  FcLemmas/LiveGMixRun.lean — the round-by-round form of the run argument of
  FcLemmas/LiveGAnyRun.lean, for the executor with membership changes (Fc/ExecGMix.lean).

  `LiveGAny.ends_aux` is an induction on the round budget for a FIXED pair of invariants.  When the
  consumer inserts in the middle of a drain the invariants change (more ids are constrained, the
  progress measure jumps), so the argument is needed one round at a time:

    * `Ph InvW Inv D M W e N` — "the run from `e` needs at most `N` further rounds": `e` has drained,
      or it satisfies `Inv` and one of the three phases of `LiveG.CondG … N`;
    * `round_step` — one ordinary round (`ExecGAny.roundB`) of an `Inv` state in phase `N`: it is
      defined, `N = N' + 1`, and the next state is in `Ph … N'`;
    * `poll_cond` — an unconditional poll of an `InvW` state whose measure satisfies `3 * M ≤ N`:
      the next state is in `Ph … N`;
    * `ph_ends` — from `Ph … N` the plain run (`runForB`) ends within `N` rounds.
-/
import FcLemmas.LiveGAnyRun
import Fc.ExecGMix
set_option linter.unusedSimpArgs false
set_option linter.unusedVariables false

namespace Fc
namespace LiveGMix
open Mon Live LiveG LiveGAny

/-- the run needs at most `N` further rounds -/
def Ph (InvW Inv D : Eng Grp → Prop) (M : Eng Grp → Nat) (W : Eng Grp → Prop) (e : Eng Grp) (N : Nat) :
    Prop :=
  (Inv e ∧ CondG M W e N) ∨ (InvW e ∧ D e ∧ lastOut e.w.trace = some .none)

variable {InvW Inv D : Eng Grp → Prop} {M : Eng Grp → Nat} {W : Eng Grp → Prop}
variable {pick : Nat → Eng Grp → Nat} {pre post : Nat → Eng Grp → List (Nat × Nat)}

theorem ph_mono {e : Eng Grp} {N N' : Nat} (h : Ph InvW Inv D M W e N) (hN : N ≤ N') :
    Ph InvW Inv D M W e N' := by
  rcases h with ⟨h, hc⟩ | h
  · refine Or.inl ⟨h, ?_⟩
    rcases hc with ⟨a, b⟩ | ⟨a, b⟩ | ⟨a, b, c, d⟩
    · exact Or.inl ⟨a, by omega⟩
    · exact Or.inr (Or.inl ⟨a, by omega⟩)
    · exact Or.inr (Or.inr ⟨a, b, c, by omega⟩)
  · exact Or.inr h

/-- in every phase the measure is bounded by the budget -/
theorem cond_bound {e : Eng Grp} {N : Nat} (hc : CondG M W e N) : 3 * M e ≤ N + 1 := by
  rcases hc with ⟨_, b⟩ | ⟨_, b⟩ | ⟨_, _, _, d⟩ <;> omega

/-- an unconditional poll of an `InvW` state -/
theorem poll_cond (G : ProgA InvW Inv D M W) {N : Nat} (e : Eng Grp) (wid : Nat) (h : InvW e)
    (hE : (W e ∧ 3 * M e ≤ N + 2) ∨ 3 * M e ≤ N) :
    Ph InvW Inv D M W (Eng.poll group e wid) N := by
  rcases G.poll e wid h with ⟨hv, hw, hd⟩ | ⟨h', hle, hcase⟩
  · exact Or.inr ⟨hw, hd, hv⟩
  · refine Or.inl ⟨h', ?_⟩
    rcases hcase with ⟨hnp, hlt⟩ | ⟨hlo', hD, hEE⟩
    · left
      refine ⟨shouldPoll_not_pending (G.lo _ h') hnp, ?_⟩
      rcases hE with ⟨_, hb⟩ | hb <;> omega
    · have hsp' := shouldPoll_pending hlo'
      cases hw : wokeSince (Eng.poll group e wid).w.trace with
      | true =>
        left
        refine ⟨by rw [hsp', hw], ?_⟩
        rcases hE with ⟨hW, hb⟩ | hb
        · have := hEE hW; omega
        · rcases hD with hD | hD
          · omega
          · rw [hw] at hD; exact Bool.noConfusion hD
      | false =>
        right; left
        refine ⟨by rw [hsp', hw], ?_⟩
        rcases hE with ⟨hW, hb⟩ | hb
        · have := hEE hW; omega
        · omega

/-- one ordinary round of a run that has not ended -/
theorem round_step (G : ProgA InvW Inv D M W) (r : Nat) (e : Eng Grp) (N : Nat) (h : Inv e)
    (hc : CondG M W e N) :
    ∃ e' N', ExecGAny.roundB pick pre post r e = some e' ∧ N = N' + 1 ∧
      Ph InvW Inv D M W e' N' := by
  rcases hc with ⟨hsp, h1⟩ | ⟨hsp, h1⟩ | ⟨hsp, hwit, h1, h2⟩
  · have hr := round_poll (pick := pick) (pre := pre) (post := post) G r e h hsp
    obtain ⟨N', hN'⟩ : ∃ N', N = N' + 1 := ⟨N - 1, by omega⟩
    exact ⟨_, N', hr, hN', poll_cond G e _ (G.weak e h) (Or.inr (by omega))⟩
  · obtain ⟨hlo, _⟩ := shouldPoll_false_pending3 (G.lo e h) hsp
    obtain ⟨c, hch, hc, hwt⟩ := choose_some G pick r e h hlo
    have hr := round_fire (pre := pre) (post := post) G r e h hsp c hch
    have h1' : Inv (ExecGAny.fires e (pre r e)) := fires_inv G _ e h
    have hlo1 : lastOut (ExecGAny.fires e (pre r e)).w.trace = some .pending := by
      rw [fires_lastOut]; exact hlo
    have hc1 : c ∈ ExecGAny.members (ExecGAny.fires e (pre r e)) := by
      rw [fires_members]; exact hc
    have hwt1 : ExecGAny.isWaiting (ExecGAny.fires e (pre r e)) c = true := by
      rw [fires_isWaiting]; exact hwt
    obtain ⟨hW, hw, hM1⟩ := G.woke _ c h1' hlo1 hc1 hwt1
    have h2' : Inv ((ExecGAny.fires e (pre r e)).fire c 0) := G.fire _ c 0 h1'
    have h' := fires_inv G (post r e) _ h2'
    have hW' := fires_W G (post r e) _ hW
    have hw' := fires_wokeSince_mono (post r e) _ hw
    have hlo' : lastOut (ExecGAny.fires ((ExecGAny.fires e (pre r e)).fire c 0) (post r e)).w.trace
        = some .pending := by
      rw [fires_lastOut,
        show lastOut ((ExecGAny.fires e (pre r e)).fire c 0).w.trace
          = lastOut (ExecGAny.fires e (pre r e)).w.trace from C01.lastOut_fire _ c 0]
      exact hlo1
    have hsl : M (ExecGAny.fires ((ExecGAny.fires e (pre r e)).fire c 0) (post r e)) = M e := by
      rw [fires_M G, G.mfire, fires_M G]
    rw [fires_M G] at hM1
    obtain ⟨N', hN'⟩ : ∃ N', N = N' + 1 := ⟨N - 1, by omega⟩
    refine ⟨_, N', hr, hN', Or.inl ⟨h', ?_⟩⟩
    right; right
    refine ⟨by rw [shouldPoll_pending hlo', hw'], hW', ?_, ?_⟩
    · rw [hsl]; exact hM1
    · rw [hsl]; omega
  · have hr := round_poll (pick := pick) (pre := pre) (post := post) G r e h hsp
    obtain ⟨N', hN'⟩ : ∃ N', N = N' + 1 := ⟨N - 1, by omega⟩
    exact ⟨_, N', hr, hN', poll_cond G e _ (G.weak e h) (Or.inl ⟨hwit, by omega⟩)⟩

/-- with the empty plan the executor is `ExecGAny.runForB` -/
theorem runMix_nil : ∀ (k r : Nat) (e : Eng Grp),
    ExecGMix.runMix pick pre post k r [] e = (ExecGAny.runForB pick pre post k r e, []) := by
  intro k
  induction k with
  | zero => intro r e; rfl
  | succ k ih =>
    intro r e
    simp only [ExecGMix.runMix, ExecGAny.runForB]
    cases ExecGAny.roundB pick pre post r e with
    | none => rfl
    | some e' => exact ih (r + 1) e'

/-- from `Ph … N` the plain run ends within `N` rounds -/
theorem ph_ends (G : ProgA InvW Inv D M W) (r : Nat) (e : Eng Grp) (N : Nat)
    (h : Ph InvW Inv D M W e N) :
    ∃ k, k ≤ N ∧ lastOut (ExecGAny.runForB pick pre post k r e).w.trace = some .none := by
  rcases h with ⟨h, hc⟩ | ⟨_, _, hn⟩
  · exact ends_aux G N r e h hc
  · exact ⟨0, Nat.zero_le _, hn⟩

end LiveGMix
end Fc
