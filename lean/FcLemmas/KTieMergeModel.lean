/-
  FcLemmas/KTieFamModel.lean — the model side of the merge tie: what one `Eng.visit merge` does in each of the
  cases the translated loop body distinguishes, and `Idx.IndexIter.collect` = the rotated order.
-/
import Fc.Families
import FcLemmas.World
import FcProps.KTieIdx

set_option linter.unusedSimpArgs false
set_option linter.unusedVariables false

namespace Fc
open Rs Src

namespace TieMergeV

theorem visit_noReady (e : Eng Fix) (i : Nat) (h : e.w.anyReady = false) :
    Eng.visit merge e i = (e, some .pending) := by
  simp [Eng.visit, merge, h]

theorem visit_skip (e : Eng Fix) (i : Nat) (h : e.w.anyReady = true)
    (h2 : e.w.isSet i = false ∨ e.s.st i = .none) :
    Eng.visit merge e i = ({ e with w := e.w.clearReady i }, none) := by
  rcases h2 with h2 | h2 <;> simp [Eng.visit, merge, h, h2, Eng.gateGo, Eng.gateW]

theorem visit_pend (e : Eng Fix) (i : Nat) (h : e.w.anyReady = true)
    (h2 : e.w.isSet i = true) (h3 : e.s.st i ≠ .none) (h4 : e.w.resOf i = .pend) :
    Eng.visit merge e i = ({ e with w := (e.w.clearReady i).pollChild i i }, none) := by
  simp [Eng.visit, merge, h, h2, h3, h4, Eng.gateGo, Eng.gateW, Eng.applyH, Fix.keep, World.kop]

theorem visit_item (e : Eng Fix) (i v : Nat) (h : e.w.anyReady = true)
    (h2 : e.w.isSet i = true) (h3 : e.s.st i ≠ .none) (h4 : e.w.resOf i = .item v) :
    Eng.visit merge e i = ({ e with w := ((e.w.clearReady i).pollChild i i).setReady i }, some (.some 0 [v])) := by
  simp [Eng.visit, merge, h, h2, h3, h4, Eng.gateGo, Eng.gateW, Eng.applyH, Fix.keep, World.kop]

theorem visit_fin_last (e : Eng Fix) (i : Nat) (h : e.w.anyReady = true)
    (h2 : e.w.isSet i = true) (h3 : e.s.st i ≠ .none) (h4 : e.w.resOf i = .fin) (h5 : e.s.cnt + 1 = e.s.n) :
    Eng.visit merge e i =
      ({ w := (e.w.clearReady i).pollChild i i,
         s := { e.s with st := upd e.s.st i .none, cnt := e.s.cnt + 1, dead := true } }, some .none) := by
  simp [Eng.visit, merge, h, h2, h3, h4, h5, Eng.gateGo, Eng.gateW, Eng.applyH, Fix.keep, World.kop]

theorem visit_fin_more (e : Eng Fix) (i : Nat) (h : e.w.anyReady = true)
    (h2 : e.w.isSet i = true) (h3 : e.s.st i ≠ .none) (h4 : e.w.resOf i = .fin) (h5 : e.s.cnt + 1 ≠ e.s.n) :
    Eng.visit merge e i =
      ({ w := (e.w.clearReady i).pollChild i i,
         s := { e.s with st := upd e.s.st i .none, cnt := e.s.cnt + 1 } }, none) := by
  simp [Eng.visit, merge, h, h2, h3, h4, h5, Eng.gateGo, Eng.gateW, Eng.applyH, Fix.keep, World.kop]

end TieMergeV

namespace TieIdx
open Idx

/-- the translator's `collect` is the `drain` of FcProps/KTieIdx.lean -/
theorem collect_eq_drain (fuel : Nat) : ∀ it : IndexIter, IndexIter.collect fuel it = drain fuel it := by
  induction fuel with
  | zero => intro it; rfl
  | succ fuel ih =>
    intro it
    simp only [IndexIter.collect, drain]
    cases h : IndexIter.next it with
    | none => rfl
    | some p =>
      obtain ⟨it', o⟩ := p
      cases o with
      | none => rfl
      | some v => simp only [ih]

/-- `Indexer::iter` followed by `collect` with any fuel that covers the children: the rotated order, the bumped offset -/
theorem iter_collect (ix : Indexer) (fuel : Nat) (hn : 0 < ix.roleMax) (hf : ix.roleMax ≤ fuel) :
    ∃ ix' it, Indexer.iter ix = some (ix', it) ∧ ix'.roleMax = ix.roleMax ∧
      ix'.roleOffset = (ix.roleOffset + 1) % ix.roleMax ∧
      IndexIter.collect fuel it
        = some ((List.range ix.roleMax).map (fun k => (k + ix.roleOffset) % ix.roleMax)) := by
  have hne : ix.roleMax ≠ 0 := by omega
  have hd := drain_eq ix.roleOffset ix.roleMax 0 (Nat.zero_le _) hn fuel (by omega)
  unfold Indexer.iter
  simp only [Indexer.roleMax, Indexer.roleOffset] at *
  simp only [uadd, urem, hne, if_false, Option.bind_eq_bind, Option.bind_some, Option.pure_def]
  refine ⟨_, _, rfl, rfl, rfl, ?_⟩
  rw [collect_eq_drain]
  simpa [List.range_eq_range'] using hd

end TieIdx
end Fc
