/-
  FcLemmas/KTieRaceOkTPoll.lean — `(A, B, …).race_ok()` (tuple): the translated `RaceOk::poll` refines
  `Eng.poll (raceOk true false)`.  The index list of the loop is the model's rotated order (`TieLoop.iter_collect`); the loop
  body is taken from the generated definition by unification (`refine forCtl_scan …`); one iteration is one `Eng.visit`
  (`rt_visit_skip/pend/ok/err`); the folded dispatch guard `if i < N` is discharged by the index predicate of the loop
  rule; the proofs use the role abbreviations only (`unroles`).
-/
import FcLemmas.KTieRaceOkTMain

set_option linter.unusedSimpArgs false
set_option linter.unusedVariables false

namespace Fc
open Rs Src

namespace TieRaceOkT
open RaceOkT TieDirect TieLoop
open TieRaceOkA (rk_filter_full rk_abs_ready rk_count_set)

local macro "unroles" : tactic =>
  `(tactic| try simp only [RaceOk.roleKids, RaceOk.roleItems, RaceOk.roleStates, RaceOk.roleCount, RaceOk.roleDone,
      RaceOk.roleIndexer] at *)

theorem rt_poll_core (N : Nat) (g : RaceOk) (b : Eng Fix) (w : Nat) (hW : WfK N g) (hS : FutStepsF b.w)
    (hd : g.roleDone = false) :
    ∃ g' env' ret,
      RaceOk.poll N g w (((absK g b).w.emit (.pollBegin w)).setWaker w) = some (g', env', ret) ∧
      Post N b (Eng.poll P (absK g b) w) g' env' ret := by
  have hlive : (absK g b).s.dead = false := hd
  rw [rt_poll_live _ _ hlive]
  have hW0 := hW
  obtain ⟨hkn, hsl, hic, hmx, hpos, hpc, hrs⟩ := hW
  obtain ⟨ix', it, hiter, hoff, hmax, hcol⟩ := iter_collect g.roleIndexer (by rw [hmx]; exact hpos)
  rw [hmx] at hoff hmax hcol
  have hl' : (absK g b).s.rot = (List.range N).map (fun k => (k + g.roleIndexer.roleOffset) % N) := by
    simp only [Fix.rot, absK, hkn]
  generalize hl : (absK g b).s.rot = l at hl'
  generalize he0 : ({ w := ((absK g b).w.emit (.pollBegin w)).setWaker w, s := (absK g b).s.bump } : Eng Fix) = e0
  suffices hs : ∃ y : RaceOk × World × Ret,
      RaceOk.poll N g w (((absK g b).w.emit (.pollBegin w)).setWaker w) = some y ∧
      Post N b (Eng.close P (Eng.scan P l e0)) y.1 y.2.1 y.2.2 by
    obtain ⟨⟨g', env', ret⟩, h1, h2⟩ := hs
    exact ⟨g', env', ret, h1, h2⟩
  unfold RaceOk.poll
  unroles
  simp only [hd, hiter, hcol, Bool.not_false, if_true, Option.pure_def, Option.bind_eq_bind, Option.bind_some]
  rw [← hl']
  refine bind_spec _ _ (LoopPost P outcomeOfRaceOk (Inv N ix'.roleOffset w) (Fin N ix'.roleOffset) l e0) _ ?_ ?_
  · refine forCtl_scan P outcomeOfRaceOk _ _ (fun i => i < N) _ ?_ l ?_ _ e0 ?_
    · -- one iteration = one `visit`
      clear hkn hsl hic hpc hrs hW0 hlive he0 e0 hS hd hiter hcol hoff hmax hmx hl hl'
      rintro ⟨self, env'⟩ e i hi ⟨hw, hn, hst, hout, hcnt, hdd, hof, hwf, hio, hdn, hm, hp, hf⟩
      obtain ⟨env, es⟩ := e
      simp only at hw hn hst hout hcnt hdd hof hwf hio hdn hm hp hf
      subst hw
      have hwf0 := hwf
      obtain ⟨hkn, hsl, hic, hmx, _, hpc, hrs⟩ := hwf
      have hkid : Rs.Kids.get self.roleKids i = some i := by simp [Rs.Kids.get, hkn, hi]
      have hidx : Rs.PVec.idx self.roleStates i = some (self.roleStates.get i) := by
        simp [Rs.PVec.idx, hsl, hi]
      have hisr := (TiePS.tie (self.roleStates.get i)).2.2.1
      dsimp only
      by_cases hr : TiePS.abs (self.roleStates.get i) = .ready
      · -- the slot already stores its error
        have hv := rt_visit_skip ⟨env, es⟩ i (by rw [hst]; exact hr)
        refine ⟨(self, env), .next, ?_, Or.inl ⟨rfl, ?_, ?_⟩⟩
        · unroles
          simp only [hkid, hidx, hisr, hr, decide_true, Option.bind_some, ↓reduceIte]
        · rw [hv]
        · rw [hv]
          exact ⟨rfl, hn, hst, hout, hcnt, hdd, hof, hwf0, hio, hdn, hm, hp, hf⟩
      · have hne : (⟨env, es⟩ : Eng Fix).s.st i ≠ .ready := by rw [hst]; exact hr
        have hpc' := pollChild_tie env i w hm hp
        have hm' : (env.pollChild i i).mode = .direct := by rw [pollChild_mode]; exact hm
        have hp' : (env.pollChild i i).parent = some w := by rw [pollChild_parent]; exact hp
        have hf' : FutSteps (env.pollChild i i) := futSteps_pollChild _ hf _ _
        rcases futSteps_resOf env hf i with hres | ⟨ok, v, hres⟩
        · -- Pending
          have hv := rt_visit_pend ⟨env, es⟩ i hm hne hres
          refine ⟨(self, env.pollChild i i), .next, ?_, Or.inl ⟨rfl, ?_, ?_⟩⟩
          · unroles
            simp only [hkid, hidx, hisr, hr, hi, Rs.expect, decide_true, decide_false, Option.bind_some,
              Bool.false_eq_true, ↓reduceIte, Rs.pollResFut, hpc', hres]
          · rw [hv]
          · rw [hv]
            exact ⟨rfl, hn, hst, hout, hcnt, hdd, hof, hwf0, hio, hdn, hm', hp', hf'⟩
        · cases ok
          · -- Ready(Err(v)): stored by position
            have hv := rt_visit_err ⟨env, es⟩ i v hm hne hres
            obtain ⟨q, hq1, hq2⟩ := (TiePS.tie (self.roleStates.get i)).2.2.2.2.2
            have hqr : q = PS.PollState.ready := rk_abs_ready.mp hq2
            subst hqr
            have hset2 : Rs.PVec.set self.roleStates i PS.PollState.ready
                = some ⟨self.roleStates.len, fun j => if j = i then PS.PollState.ready else self.roleStates.get j⟩ := by
              simp [Rs.PVec.set, hsl, hi]
            have hwr : Rs.OutVec.write self.roleItems i v
                = some ⟨self.roleItems.cap, fun j => if j = i then some v else self.roleItems.get j⟩ := by
              simp [Rs.OutVec.write, hic, hi]
            have hnr : self.roleStates.get i ≠ PS.PollState.ready := fun h => hr (by rw [h]; rfl)
            have hcs := rk_count_set self.roleStates.get i N hi hnr
            refine ⟨?s', .next, ?h1, Or.inl ⟨rfl, ?h2, ?h3⟩⟩
            case h1 =>
              unroles
              simp only [hkid, hidx, hisr, hr, hi, Rs.expect, decide_true, decide_false, Option.bind_some,
                Bool.false_eq_true, ↓reduceIte, Rs.pollResFut, hpc', hres, hwr, Rs.uadd, hq1, hset2]
              rfl
            case h2 => rw [hv]
            case h3 =>
              rw [hv]
              refine ⟨rfl, hn, ?_, ?_, ?_, hdd, hof, ⟨?_, ?_, ?_, ?_, ?_, ?_, ?_⟩, ?_, ?_, hm', hp', hf'⟩
              · unroles
                funext j
                by_cases hj : j = i <;> simp [upd, hj, hst, TiePS.abs]
              · unroles
                funext j
                by_cases hj : j = i <;> simp [upd, hj, hout]
              · unroles
                simp only [hcnt]
              · unroles; exact hkn
              · unroles; exact hsl
              · unroles; exact hic
              · unroles; exact hmx
              · exact Nat.lt_of_le_of_lt (Nat.zero_le _) hi
              · unroles
                rw [hcs, hpc]
              · unroles
                intro j hj
                by_cases hji : j = i
                · right
                  simp [hji]
                · simp only [hji, ↓reduceIte]
                  exact hrs j hj
              · unroles; exact hio
              · unroles; exact hdn
          · -- Ready(Ok(v)): the winner
            have hv := rt_visit_ok ⟨env, es⟩ i v hm hne hres
            refine ⟨?t', .ret (.ready (.ok v)), ?k1, Or.inr ⟨_, rfl, ?k2, ?k3⟩⟩
            case k1 =>
              unroles
              simp only [hkid, hidx, hisr, hr, hi, Rs.expect, decide_true, decide_false, Option.bind_some,
                Bool.false_eq_true, ↓reduceIte, Rs.pollResFut, hpc', hres, Rs.uadd]
              rfl
            case k2 => rw [hv]; rfl
            case k3 =>
              rw [hv]
              refine ⟨⟨v, rfl⟩, rfl, hn, ?_, ?_, ?_, rfl, hof, ?_, ?_, ?_, ?_, ?_, ?_, hf'⟩
              · unroles; exact hst
              · unroles; exact hout
              · unroles; simp only [hcnt]
              · unroles; exact hkn
              · unroles; exact hsl
              · unroles; exact hic
              · unroles; exact hmx
              · unroles; exact hio
              · rfl
    · -- the indices the loop sees are positions of children
      intro i hi
      rw [hl'] at hi
      simp only [List.mem_map, List.mem_range] at hi
      obtain ⟨k, -, rfl⟩ := hi
      exact Nat.mod_lt _ hpos
    · -- the state in front of the loop
      subst he0
      refine ⟨rfl, hkn, rfl, rfl, rfl, hd, ?_, ⟨hkn, hsl, hic, hmax, hpos, hpc, hrs⟩, rfl, rfl, rfl, rfl, hS⟩
      simp only [Fix.bump, absK, hkn, hoff]
  · -- after the loop
    rintro ⟨⟨self, env⟩, r⟩ hpost
    unfold LoopPost at hpost
    generalize Eng.scan P l e0 = sc at hpost ⊢
    obtain ⟨se, so⟩ := sc
    rcases hpost with ⟨hr, hso, hw, hn, hst, hout, hcnt, hdd, hof, hwf, hio, hdn, hm, hp, hf⟩ |
      ⟨v, hr, hso, ⟨ok, hok⟩, hw, hn, hst, hout, hcnt, hdd, hof, hkn', hsl', hic', hmx', hio, hdn, hf⟩
    · -- the scan ran through
      simp only at hr hso hw hn hst hout hcnt hdd hof hwf hio hdn hm hp hf
      subst hr hso
      by_cases hz : self.roleCount = N
      · -- every child has failed: the aggregate
        obtain ⟨h1, h2⟩ := rt_post_done b se self env hw hn hout hcnt (hof.trans hio.symm) hwf hf hz
        have hclose := rt_close_done se (by rw [hcnt, hn]; exact hz)
        unroles
        simp only [hz, beq_self_eq_true, ↓reduceIte, h1, Option.bind_some]
        refine ⟨_, rfl, ?_⟩
        rw [hclose]
        exact h2 _ rfl hz.symm rfl rfl rfl rfl
      · -- `Pending`
        have hclose := rt_close_pending se (by rw [hcnt, hn]; exact hz)
        have hz' : ¬ N = self.roleCount := fun h => hz h.symm      -- whichever way round the source compares
        unroles
        simp only [hz, hz', beq_iff_eq, ↓reduceIte]
        refine ⟨_, rfl, ?_⟩
        rw [hclose]
        exact rt_post_of_rel b se self env .pending hw hn hwf.kn hst hout (fun _ => hcnt)
          (by rintro ⟨v, h⟩; cases h) (hof.trans hio.symm) (hdd.trans hdn.symm) (fun _ => hwf) hf
          (by intro es h; cases h) (by simp [hdd])
    · -- an iteration returned `Ok`
      simp only at hr hso hw hn hst hout hcnt hdd hof hkn' hsl' hic' hmx' hio hdn hf
      subst hr hso hok
      rw [rt_close_some]
      refine ⟨_, rfl, ?_⟩
      exact rt_post_of_rel b se self env (.ready (.ok ok)) hw hn hkn' hst hout (fun h => absurd rfl (h ok))
        (fun _ => hcnt) (hof.trans hio.symm) (hdd.trans hdn.symm) (by intro h; cases h) hf
        (by intro es h; cases h) (by simp [hdd])

end TieRaceOkT
end Fc
