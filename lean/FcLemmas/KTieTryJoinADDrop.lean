/-
  FcLemmas/KTieTryJoinADDrop.lean — `[Fut; N]::try_join()` in the no_std / alloc-only flavour (FcGen/KSrcArr2D.lean), the
  counterpart of FcLemmas/KTieTryJoinADrop.lean: the translated `PinnedDrop` destructor `TryJoin::drop` logs what
  `Eng.drop tryJoinSlice` logs: the values of the `Ready` slots are released in order, then the children of the
  `Pending` slots are dropped in order.  One proof for a live try_join (`WfT`) and for one that failed (`WfFailed`).
  The generic loop lemmas (`tj_forBreak_emit`, `tj_forBreak_bind`, `tj_nodup_filter_range`) are those of the Vec file.
  (The destructor does not touch the waker table: the proof is that of the std flavour.)
-/
import FcLemmas.KTieTryJoinADMain
import FcLemmas.KTieTryJoinDrop

set_option linter.unusedSimpArgs false
set_option linter.unusedVariables false

namespace Fc
open Rs Src

namespace TieTryJoinAD
open TryJoinAD

local macro "unroles" : tactic =>
  `(tactic| try simp only [TryJoin.roleKids, TryJoin.roleCount, TryJoin.roleWakers, TryJoin.roleStates,
      TryJoin.roleDone, TryJoin.roleItems] at *)

/-- the invariant of the first loop: states and children are untouched, the slots still to be released hold their
    original values -/
def DropInv (S : Rs.PVec PS.PollState) (K : Rs.Kids) (n : Nat) (O : Nat → Option Nat) (g : TryJoin) (l : List Nat) : Prop :=
  g.roleStates = S ∧ g.roleKids = K ∧ g.roleItems.cap = n ∧ l.Nodup ∧
    ∀ j ∈ l, j < n ∧ ∃ v, g.roleItems.get j = some v ∧ O j = some v

theorem tjd_drop_core (N : Nat) (g : TryJoin) (b : Eng Fix) (hsl : g.roleStates.len = g.roleKids.len)
    (hic : g.roleItems.cap = g.roleKids.len)
    (hrs : ∀ i, i < g.roleKids.len → g.roleStates.get i = PS.PollState.ready → ∃ v, g.roleItems.get i = some v) :
    ∃ a, TryJoin.drop N g ((absT g b).w.emit .dropBegin) = some a ∧
      ((Eng.drop tryJoinSlice (absT g b)).w.trace = .dropEnd :: a.2.1.trace ∧
        a.2.1.scripts = b.w.scripts ∧ a.2.1.handed = b.w.handed) := by
  have hmodel : (Eng.drop tryJoinSlice (absT g b)).w.trace = .dropEnd ::
      ((((absT g b).w.emit .dropBegin).emits
        (((List.range g.roleKids.len).filter (fun i => g.roleStates.get i = PS.PollState.ready)).map
          (fun i => Ev.valDropped ((g.roleItems.get i).getD 0)))).emits
        (((List.range g.roleKids.len).filter (fun i => g.roleStates.get i = PS.PollState.pending)).map
          (fun i => Ev.childDropped i))).trace := by
    have e1 : (List.range g.roleKids.len).filter (fun i => TiePS.abs (g.roleStates.get i) = .ready)
        = (List.range g.roleKids.len).filter (fun i => g.roleStates.get i = PS.PollState.ready) :=
      List.filter_congr (fun i _ => by simp [TieTryJoinV.tj_abs_ready])
    have e2 : (List.range g.roleKids.len).filter (fun i => TiePS.abs (g.roleStates.get i) = .pending)
        = (List.range g.roleKids.len).filter (fun i => g.roleStates.get i = PS.PollState.pending) :=
      List.filter_congr (fun i _ => by simp [TieTryJoinV.tj_abs_pending])
    simp only [Eng.drop, tryJoinSlice, Fix.dropStates, absT, e1, e2, World.emits, World.emit, List.reverse_append,
      List.append_assoc]
  rw [hmodel]
  unfold TryJoin.drop
  unroles
  simp only [Option.bind_eq_bind, Option.pure_def, Rs.PVec.indexesOf, hsl]
  refine TieTryJoinV.tj_forBreak_bind _ (fun i => Ev.valDropped ((g.roleItems.get i).getD 0))
    (DropInv g.roleStates g.roleKids g.roleKids.len g.roleItems.get) ?hF1 _ g _ ?hP1 _ _ ?hK1
  case hP1 =>
    refine ⟨rfl, rfl, hic, TieTryJoinV.tj_nodup_filter_range _ _, ?_⟩
    intro j hj
    rw [List.mem_filter] at hj
    have hjn := List.mem_range.mp hj.1
    obtain ⟨v, hv⟩ := hrs j hjn (by simpa using hj.2)
    exact ⟨hjn, v, hv, hv⟩
  case hF1 =>
    intro s env x rest hP
    obtain ⟨p1, p2, p3, p4, p5⟩ := hP
    obtain ⟨hx, v, hv1, hv2⟩ := p5 x (List.mem_cons_self ..)
    have hd : Rs.OutVec.drop s.roleItems x
        = some (⟨s.roleItems.cap, fun j => if j = x then none else s.roleItems.get j⟩, v) := by
      simp [Rs.OutVec.drop, p3, hx, hv1]
    dsimp only
    unroles
    simp only [hd, Option.bind_some, hv2, Option.getD_some]
    refine ⟨_, rfl, p1, p2, p3, (List.nodup_cons.mp p4).2, ?_⟩
    intro j hj
    obtain ⟨hjn, u, hu1, hu2⟩ := p5 j (List.mem_cons_of_mem _ hj)
    have hne : j ≠ x := by
      intro h; subst h; exact (List.nodup_cons.mp p4).1 hj
    exact ⟨hjn, u, by simp [hne, hu1], hu2⟩
  case hK1 =>
    intro g1 hP
    obtain ⟨p1, p2, p3, p4, p5⟩ := hP
    unroles
    try dsimp only
    rw [p1, hsl]
    refine TieTryJoinV.tj_forBreak_bind _ (fun i => Ev.childDropped i)
      (fun s l => s.roleKids = g.roleKids ∧ ∀ j ∈ l, j < g.roleKids.len) ?hF2 _ g1 _ ?hP2 _ _ ?hK2
    case hP2 =>
      refine ⟨p2, ?_⟩
      intro j hj
      rw [List.mem_filter] at hj
      exact List.mem_range.mp hj.1
    case hF2 =>
      intro s env x rest hP
      obtain ⟨q1, q2⟩ := hP
      have hx := q2 x (List.mem_cons_self ..)
      have hk : Rs.Kids.get s.roleKids x = some x := by simp [Rs.Kids.get, q1, hx]
      dsimp only
      unroles
      simp only [hk, Option.bind_some]
      exact ⟨_, rfl, q1, fun j hj => q2 j (List.mem_cons_of_mem _ hj)⟩
    case hK2 =>
      intro g2 _
      exact ⟨_, rfl, rfl, rfl, rfl⟩

end TieTryJoinAD
end Fc
