/-
  FcLemmas/KTieTryJoinAux.lean — list facts used by the try_join tie: counting the `Pending` slots, `mapM` over initialised
  output slots, and the two `for` loops of the destructor.
-/
import FcProps.KTieTryJoin
import FcLemmas.World
import FcLemmas.KTieListFacts

set_option linter.unusedSimpArgs false
set_option linter.unusedVariables false

namespace Fc
open Rs Src

namespace TieTryJoinV

/-- a `Pending` slot that leaves the `Pending` state lowers the number of `Pending` slots by one -/
theorem tj_count_set (st : Nat → PS.PollState) (i n : Nat) (q : PS.PollState) (hi : i < n)
    (hp : st i = PS.PollState.pending) (hq : q ≠ PS.PollState.pending) :
    ((List.range n).filter (fun j => (if j = i then q else st j) = PS.PollState.pending)).length + 1
      = ((List.range n).filter (fun j => st j = PS.PollState.pending)).length := by
  apply tj_filter_dec _ _ i n hi
  · simp [hp]
  · simp [hq]
  · intro j hj; simp [hj]

theorem tj_count_pos (st : Nat → PS.PollState) (i n : Nat) (hi : i < n) (hp : st i = PS.PollState.pending) :
    1 ≤ ((List.range n).filter (fun j => st j = PS.PollState.pending)).length :=
  List.length_pos_of_mem (List.mem_filter.mpr ⟨List.mem_range.mpr hi, by simp [hp]⟩)

end TieTryJoinV
end Fc
