/-
  FcLemmas/C16gEng.lean — selective polling for groups, part 3: the invariant over `Eng Grp`
  and its preservation by poll / fire / drop / insert / remove / reserve / extend / queries.
-/
import FcLemmas.C16g

set_option linter.unusedSimpArgs false
set_option linter.unusedVariables false

namespace Fc
namespace C16g
open Mon C16

/-! ### the group state -/

/-- what the proof needs to know about the group's own state -/
structure SInv (s : Grp) : Prop where
  /-- a child sits in at most one slot -/
  inj : ∀ k1 k2 c, s.member k1 = some c → s.member k2 = some c → k1 = k2
  /-- a key whose state is `Pending` is occupied -/
  stm : ∀ k, s.st k = .pending → ∃ c, s.member k = some c
  /-- members live below the capacity (so `resize` arms only empty slots) -/
  memCap : ∀ k c, s.member k = some c → k < s.capacity
  entCap : s.entries ≤ s.capacity
  lenCap : s.len ≤ s.capacity
  slab : SlabP s.vac s.entries s.next s.len
  keysLt : ∀ k ∈ s.keys, k < s.entries
  stLt : ∀ k, s.st k = .pending → k < s.entries

theorem upd_none_some {m : Nat → Option Nat} {k j c : Nat} (h : upd m k none j = some c) :
    j ≠ k ∧ m j = some c := by
  by_cases hjk : j = k
  · subst hjk; simp at h
  · rw [upd_other _ _ _ _ hjk] at h; exact ⟨hjk, h⟩

theorem upd_pending {m : Nat → PS} {k j : Nat} (h : upd m k PS.none j = .pending) :
    j ≠ k ∧ m j = .pending := by
  by_cases hjk : j = k
  · subst hjk; simp at h
  · rw [upd_other _ _ _ _ hjk] at h; exact ⟨hjk, h⟩

/-- changes to `keys` (shrinking), `queue`, counters, `dead`, `ret`, and a larger capacity -/
theorem sinv_frame (s s' : Grp) (h : SInv s) (hm : s'.member = s.member) (hst : s'.st = s.st)
    (hv : s'.vac = s.vac) (he : s'.entries = s.entries) (hn : s'.next = s.next)
    (hl : s'.len = s.len) (hc : s.capacity ≤ s'.capacity) (hk : ∀ x ∈ s'.keys, x ∈ s.keys) :
    SInv s' := by
  constructor
  · rw [hm]; exact h.inj
  · rw [hm, hst]; exact h.stm
  · intro k c hkc; rw [hm] at hkc; exact Nat.lt_of_lt_of_le (h.memCap k c hkc) hc
  · rw [he]; exact Nat.le_trans h.entCap hc
  · rw [hl]; exact Nat.le_trans h.lenCap hc
  · rw [hv, he, hn, hl]; exact h.slab
  · intro k hk'; rw [he]; exact h.keysLt k (hk k hk')
  · rw [hst, he]; exact h.stLt

/-- `slabRemove k` together with `st[k] := None` -/
theorem sinv_remove (s s' : Grp) (k : Nat) (h : SInv s) (hk : k < s.entries)
    (hm : s'.member = upd s.member k none) (hst : s'.st = upd s.st k .none)
    (hv : s'.vac = upd s.vac k s.next) (he : s'.entries = s.entries) (hn : s'.next = k)
    (hl : s'.len = s.len - 1) (hc : s'.capacity = s.capacity)
    (hks : ∀ x ∈ s'.keys, x ∈ s.keys) : SInv s' := by
  constructor
  · intro k1 k2 c h1 h2
    rw [hm] at h1 h2
    exact h.inj k1 k2 c (upd_none_some h1).2 (upd_none_some h2).2
  · intro j hj
    rw [hst] at hj
    obtain ⟨hjk, hj'⟩ := upd_pending hj
    obtain ⟨c, hc'⟩ := h.stm j hj'
    exact ⟨c, by rw [hm, upd_other _ _ _ _ hjk]; exact hc'⟩
  · intro j c hj
    rw [hm] at hj; rw [hc]
    exact h.memCap j c (upd_none_some hj).2
  · rw [he, hc]; exact h.entCap
  · rw [hl, hc]; exact Nat.le_trans (Nat.sub_le _ _) h.lenCap
  · rw [hv, he, hn, hl]; exact slabP_remove k h.slab hk
  · intro j hj; rw [he]; exact h.keysLt j (hks j hj)
  · intro j hj
    rw [hst] at hj; rw [he]
    exact h.stLt j (upd_pending hj).2

/-! ### fields of the state after `insertAt` -/

theorem ins_member (e : Eng Grp) (c : Nat) (keep : Bool) :
    (GEng.insertAt e c keep).s.member = upd e.s.member e.s.next (some c) := by
  by_cases hq : e.s.next = e.s.entries <;> simp [GEng.insertAt, Grp.slabInsert, hq]

theorem ins_st (e : Eng Grp) (c : Nat) (keep : Bool) :
    (GEng.insertAt e c keep).s.st = upd e.s.st e.s.next .pending := rfl

theorem ins_keys (e : Eng Grp) (c : Nat) (keep : Bool) :
    (GEng.insertAt e c keep).s.keys = Grp.insertSorted e.s.next e.s.keys := rfl

theorem ins_vac (e : Eng Grp) (c : Nat) (keep : Bool) :
    (GEng.insertAt e c keep).s.vac = e.s.vac := by
  by_cases hq : e.s.next = e.s.entries <;> simp [GEng.insertAt, Grp.slabInsert, hq]

theorem ins_capacity (e : Eng Grp) (c : Nat) (keep : Bool) :
    (GEng.insertAt e c keep).s.capacity = e.s.capacity := by
  by_cases hq : e.s.next = e.s.entries <;> simp [GEng.insertAt, Grp.slabInsert, hq]

theorem ins_len (e : Eng Grp) (c : Nat) (keep : Bool) :
    (GEng.insertAt e c keep).s.len = e.s.len + 1 := by
  by_cases hq : e.s.next = e.s.entries <;> simp [GEng.insertAt, Grp.slabInsert, hq]

theorem ins_eq (e : Eng Grp) (c : Nat) (keep : Bool) (hq : e.s.next = e.s.entries) :
    (GEng.insertAt e c keep).s.entries = e.s.entries + 1 ∧
    (GEng.insertAt e c keep).s.next = e.s.next + 1 := by
  simp [GEng.insertAt, Grp.slabInsert, hq]

theorem ins_ne (e : Eng Grp) (c : Nat) (keep : Bool) (hq : e.s.next ≠ e.s.entries) :
    (GEng.insertAt e c keep).s.entries = e.s.entries ∧
    (GEng.insertAt e c keep).s.next = e.s.vac e.s.next := by
  simp [GEng.insertAt, Grp.slabInsert, hq]

theorem ins_w (e : Eng Grp) (c : Nat) (keep : Bool) :
    (GEng.insertAt e c keep).w = (e.w.setReady e.s.next).emit (.inserted c e.s.next) := rfl

theorem sinv_insertAt (e : Eng Grp) (c : Nat) (keep : Bool) (h : SInv e.s)
    (hl : e.s.len < e.s.capacity) (hf : ∀ k, e.s.member k ≠ some c) :
    SInv (GEng.insertAt e c keep).s := by
  have hnc : e.s.next < e.s.capacity := slabP_next_lt h.slab hl h.entCap
  have hent : e.s.entries ≤ (GEng.insertAt e c keep).s.entries := by
    by_cases hq : e.s.next = e.s.entries
    · rw [(ins_eq e c keep hq).1]; omega
    · rw [(ins_ne e c keep hq).1]; omega
  have hnext : e.s.next < (GEng.insertAt e c keep).s.entries := by
    by_cases hq : e.s.next = e.s.entries
    · rw [(ins_eq e c keep hq).1]; omega
    · rw [(ins_ne e c keep hq).1]; exact slabP_next_lt_of_ne h.slab hq
  constructor
  · intro k1 k2 x h1 h2
    rw [ins_member] at h1 h2
    by_cases h1n : k1 = e.s.next
    · by_cases h2n : k2 = e.s.next
      · rw [h1n, h2n]
      · rw [upd_other _ _ _ _ h2n] at h2
        rw [h1n, upd_same] at h1
        cases h1
        exact absurd h2 (hf k2)
    · by_cases h2n : k2 = e.s.next
      · rw [upd_other _ _ _ _ h1n] at h1
        rw [h2n, upd_same] at h2
        cases h2
        exact absurd h1 (hf k1)
      · rw [upd_other _ _ _ _ h1n] at h1
        rw [upd_other _ _ _ _ h2n] at h2
        exact h.inj k1 k2 x h1 h2
  · intro k hk
    rw [ins_st] at hk
    rw [ins_member]
    by_cases hkn : k = e.s.next
    · exact ⟨c, by rw [hkn, upd_same]⟩
    · rw [upd_other _ _ _ _ hkn] at hk ⊢
      exact h.stm k hk
  · intro k x hk
    rw [ins_member] at hk
    rw [ins_capacity]
    by_cases hkn : k = e.s.next
    · rw [hkn]; exact hnc
    · rw [upd_other _ _ _ _ hkn] at hk; exact h.memCap k x hk
  · rw [ins_capacity]
    by_cases hq : e.s.next = e.s.entries
    · rw [(ins_eq e c keep hq).1]; omega
    · rw [(ins_ne e c keep hq).1]; exact h.entCap
  · rw [ins_capacity, ins_len]; omega
  · rw [ins_vac, ins_len]
    by_cases hq : e.s.next = e.s.entries
    · rw [(ins_eq e c keep hq).1, (ins_eq e c keep hq).2]; exact slabP_insert_eq h.slab hq
    · rw [(ins_ne e c keep hq).1, (ins_ne e c keep hq).2]; exact slabP_insert_ne h.slab hq
  · intro k hk
    rw [ins_keys] at hk
    rcases mem_insertSorted _ _ _ hk with h1 | h1
    · rw [h1]; exact hnext
    · exact Nat.lt_of_lt_of_le (h.keysLt k h1) hent
  · intro k hk
    rw [ins_st] at hk
    by_cases hkn : k = e.s.next
    · rw [hkn]; exact hnext
    · rw [upd_other _ _ _ _ hkn] at hk
      exact Nat.lt_of_lt_of_le (h.stLt k hk) hent

/-! ### the engine invariant -/

structure GInv (e : Eng Grp) : Prop where
  k : InvM e.s.member e.w none
  std : e.w.mode = .std
  capEq : e.w.cap = e.s.capacity
  s : SInv e.s

/-- child `c` is not (yet) in the group and has never been polled -/
def Unused (e : Eng Grp) (c : Nat) : Prop :=
  (∀ k, e.s.member k ≠ some c) ∧ lastRes e.w.trace c = none

/-- the invariant together with "the children in `F` are still unused" -/
def GU (F : Nat → Prop) (e : Eng Grp) : Prop := GInv e ∧ ∀ c, F c → Unused e c

variable {F : Nat → Prop}

theorem gu_of (e e' : Eng Grp) (h : GU F e) (hg : GInv e')
    (hm : ∀ k x, e'.s.member k = some x → e.s.member k = some x)
    (ht : ∀ x, (∀ k, e.s.member k ≠ some x) → lastRes e'.w.trace x = lastRes e.w.trace x) :
    GU F e' := by
  refine ⟨hg, fun c hc => ?_⟩
  have hu := h.2 c hc
  exact ⟨fun k hk => hu.1 k (hm k c hk), by rw [ht c hu.1]; exact hu.2⟩

theorem gu_emit (e : Eng Grp) (ev : Ev) (hn : neutral ev = true) (h : GU F e) :
    GU F (e.emit ev) := by
  refine gu_of e _ h ⟨invm_emit _ _ _ hn h.1.k, by simpa using h.1.std, by simpa using h.1.capEq,
    h.1.s⟩ (fun _ _ hx => hx) ?_
  intro x _
  simp only [Eng.emit_w, World.emit_trace]
  exact lastRes_neutral ev _ _ hn

/-- applying a handler result after some kernel activity `e.w ↦ w1` -/
theorem gu_apply (e : Eng Grp) (w1 : World) (hr : HRes Grp) (h : GU F e)
    (hInv : InvM hr.s.member ((w1.emits hr.evs).kop hr.kop) none)
    (hstd : w1.mode = .std) (hcap : w1.cap = hr.s.capacity) (hs : SInv hr.s)
    (hev : ∀ ev ∈ hr.evs, neutral ev = true)
    (hm : ∀ k x, hr.s.member k = some x → e.s.member k = some x)
    (hlr : ∀ x, (∀ k, e.s.member k ≠ some x) → lastRes w1.trace x = lastRes e.w.trace x) :
    GU F (Eng.applyH { e with w := w1 } hr) := by
  refine gu_of e _ h ⟨hInv, by simpa using hstd, by simpa using hcap, hs⟩ hm ?_
  intro x hx
  simp only [Eng.applyH_w, World.kop_trace]
  rw [lastRes_emits_neutral _ _ hev, hlr x hx]

/-! ### one loop iteration -/

theorem gateGo_group (e : Eng Grp) (i : Nat) (hm : e.w.mode = .std)
    (h : Eng.gateGo group e i = true) : e.s.st i = .pending ∧ e.w.bits i = true := by
  unfold Eng.gateGo at h
  simpa [group, World.isSet, hm] using h

theorem gateW_group (e : Eng Grp) (i : Nat) :
    Eng.gateW group e i = if e.s.st i = .pending then e.w.clearReady i else e.w := by
  unfold Eng.gateW
  simp [group]

theorem child_group (s : Grp) (i c : Nat) (h : s.member i = some c) : group.child s i = c := by
  simp [group, h]

theorem handle_pend (s : Grp) (k : Nat) :
    group.handle s k .pend = { s := s, evs := [], kop := .nop, exit := none } := rfl
theorem handle_panic (s : Grp) (k : Nat) :
    group.handle s k .panic = { s := s, evs := [], kop := .nop, exit := none } := rfl
theorem handle_ready (s : Grp) (k : Nat) (ok : Bool) (v : Nat) :
    group.handle s k (.ready ok v) =
      { s := { (s.slabRemove k) with st := upd s.st k .none, keys := s.keys.filter (· ≠ k) },
        evs := [.childDropped ((s.member k).getD 0)], kop := .nop,
        exit := some (.some (s.outKey k) [v]) } := rfl
theorem handle_item (s : Grp) (k : Nat) (v : Nat) :
    group.handle s k (.item v) =
      { s := s.flushQueue, evs := [], kop := .arm k, exit := some (.some (s.outKey k) [v]) } := rfl
theorem handle_fin (s : Grp) (k : Nat) :
    group.handle s k .fin =
      { s := { (s.slabRemove k) with st := upd s.st k .none, doneCnt := s.doneCnt + 1,
                                     queue := s.queue ++ [k] },
        evs := [.childDropped ((s.member k).getD 0)], kop := .nop, exit := none } := rfl

theorem sinv_flush (s : Grp) (h : SInv s) : SInv s.flushQueue :=
  sinv_frame s _ h rfl rfl rfl rfl rfl rfl (Nat.le_refl _)
    (fun x hx => (List.mem_filter.mp hx).1)

/-- the kernel side of polling the member `c` of slot `i` -/
theorem polled (e : Eng Grp) (i c : Nat) (h : GInv e) (hb : e.w.bits i = true)
    (hc : e.s.member i = some c) :
    InvM e.s.member ((e.w.clearReady i).pollChild c i) none ∧
    (∀ x, lastRes ((e.w.clearReady i).pollChild c i).trace x
            = if c = x then some (e.w.resOf c) else lastRes e.w.trace x) := by
  constructor
  · refine invm_pollChild _ c i (by simpa using h.std) (invm_clearReady _ _ _ h.std h.k) ?_ ?_ ?_
    · intro j hj; exact h.s.inj j i c hj hc
    · rw [World.clearReady_bits_std _ _ h.std]; simp
    · simp only [World.clearReady_trace]
      rcases h.k.bit i c hb hc with hx | hx
      · exact Or.inl hx.2
      · exact Or.inr hx
  · intro x
    rw [lastRes_pollChild]
    simp [World.resOf, World.stepOf]

/-- polling member `c` of slot `i` and handling its result `r` -/
theorem gu_handled (e : Eng Grp) (i c : Nat) (h : GU F e) (hst : e.s.st i = .pending)
    (hb : e.w.bits i = true) (hc : e.s.member i = some c) :
    GU F (Eng.applyH { e with w := (e.w.clearReady i).pollChild c i }
            (group.handle e.s i (e.w.resOf c))) := by
  obtain ⟨hw1, hlr⟩ := polled e i c h.1 hb hc
  have hstd : ((e.w.clearReady i).pollChild c i).mode = .std := by simpa using h.1.std
  have hcap : ((e.w.clearReady i).pollChild c i).cap = e.s.capacity := by simpa using h.1.capEq
  have hlr' : ∀ x, (∀ k, e.s.member k ≠ some x) →
      lastRes ((e.w.clearReady i).pollChild c i).trace x = lastRes e.w.trace x := by
    intro x hx
    rw [hlr]
    have : c ≠ x := fun hcx => hx i (by rw [← hcx]; exact hc)
    simp [this]
  generalize e.w.resOf c = r at hlr
  cases r with
  | pend =>
    rw [handle_pend]
    refine gu_apply e _ _ h ?_ hstd hcap h.1.s (by simp) (fun _ _ hx => hx) hlr'
    simpa [World.kop] using hw1
  | panic =>
    rw [handle_panic]
    refine gu_apply e _ _ h ?_ hstd hcap h.1.s (by simp) (fun _ _ hx => hx) hlr'
    simpa [World.kop] using hw1
  | ready ok v =>
    rw [handle_ready]
    refine gu_apply e _ _ h ?_ hstd hcap ?_ (by simp [neutral]) ?_ hlr'
    · simp only [World.kop]
      refine invm_mem _ _ (invm_emits _ _ _ (by simp [neutral]) hw1) ?_
      intro k x hx
      exact Or.inl (upd_none_some hx).2
    · exact sinv_remove e.s _ i h.1.s (h.1.s.stLt i hst) rfl rfl rfl rfl rfl rfl rfl
        (fun x hx => (List.mem_filter.mp hx).1)
    · intro k x hx; exact (upd_none_some hx).2
  | fin =>
    rw [handle_fin]
    refine gu_apply e _ _ h ?_ hstd hcap ?_ (by simp [neutral]) ?_ hlr'
    · simp only [World.kop]
      refine invm_mem _ _ (invm_emits _ _ _ (by simp [neutral]) hw1) ?_
      intro k x hx
      exact Or.inl (upd_none_some hx).2
    · exact sinv_remove e.s _ i h.1.s (h.1.s.stLt i hst) rfl rfl rfl rfl rfl rfl rfl
        (fun x hx => hx)
    · intro k x hx; exact (upd_none_some hx).2
  | item v =>
    rw [handle_item]
    refine gu_apply e _ _ h ?_ hstd hcap (sinv_flush _ h.1.s) (by simp) (fun _ _ hx => hx) hlr'
    simp only [World.kop, World.emits_nil]
    refine invm_setReady _ _ i hstd hw1 ?_
    intro x hx
    have hxc : x = c := by
      have : e.s.member i = some x := hx
      rw [hc] at this; cases this; rfl
    subst hxc
    left
    refine ⟨by simp, ?_⟩
    rw [hlr]; simp

theorem gu_visit (e : Eng Grp) (i : Nat) (h : GU F e) : GU F (Eng.visit group e i).1 := by
  refine Eng.visit_ind group e i (fun r => GU F r.1) ?_ ?_ ?_ ?_
  · intro hl; exact absurd hl (by simp [group])
  · intro _ _
    refine gu_of e _ h ⟨?_, ?_, ?_, h.1.s⟩ (fun _ _ hx => hx) ?_
    · simp only [gateW_group]
      split
      · exact invm_clearReady _ _ _ h.1.std h.1.k
      · exact h.1.k
    · simp only [gateW_group]; split <;> simp [h.1.std]
    · simp only [gateW_group]; split <;> simp [h.1.capEq]
    · intro x _; simp only [gateW_group]; split <;> simp
  · intro _ hg _
    obtain ⟨hst, hb⟩ := gateGo_group e i h.1.std hg
    obtain ⟨c, hc⟩ := h.1.s.stm i hst
    rw [child_group _ _ _ hc, gateW_group, if_pos hst]
    obtain ⟨hw1, hlr⟩ := polled e i c h.1 hb hc
    refine gu_of e _ h ⟨?_, ?_, ?_, ?_⟩ (fun _ _ hx => hx) ?_
    · exact invm_emits _ _ _ (by simp [group]) hw1
    · simpa using h.1.std
    · simpa [group] using h.1.capEq
    · exact sinv_frame e.s _ h.1.s rfl rfl rfl rfl rfl rfl (Nat.le_refl _) (fun _ hx => hx)
    · intro x hx
      rw [lastRes_emits_neutral _ _ (by simp [group]), hlr]
      have : c ≠ x := fun hcx => hx i (by rw [← hcx]; exact hc)
      simp [this]
  · intro _ hg _
    obtain ⟨hst, hb⟩ := gateGo_group e i h.1.std hg
    obtain ⟨c, hc⟩ := h.1.s.stm i hst
    rw [child_group _ _ _ hc, gateW_group, if_pos hst]
    exact gu_handled e i c h hst hb hc

theorem gu_scan (l : List Nat) (e : Eng Grp) (h : GU F e) : GU F (Eng.scan group l e).1 := by
  have := Eng.scan_ind group (GU F) (GU F)
    (fun e i hq => ⟨fun _ => gu_visit e i hq, fun _ _ => gu_visit e i hq⟩) l e h
  cases hs : (Eng.scan group l e).2 with
  | none => exact this.1 hs
  | some o => exact this.2 o hs

theorem gu_state (e : Eng Grp) (s' : Grp) (h : GU F e) (hs : SInv s')
    (hm : s'.member = e.s.member) (hc : s'.capacity = e.s.capacity) :
    GU F { e with s := s' } := by
  refine gu_of e _ h ⟨?_, h.1.std, ?_, hs⟩ ?_ (fun _ _ => rfl)
  · show InvM s'.member e.w none
    rw [hm]; exact h.1.k
  · show e.w.cap = s'.capacity
    rw [hc]; exact h.1.capEq
  · intro k x hx
    have : s'.member k = some x := hx
    rw [hm] at this; exact this

theorem finish_eq (s : Grp) :
    group.finish s =
      { s := s.flushQueue, evs := [], kop := .nop, exit := (group.finish s).exit } := rfl

theorem gu_close (r : Eng Grp × Option Outcome) (h : GU F r.1) : GU F (Eng.close group r) := by
  unfold Eng.close
  split
  · exact gu_emit _ _ rfl h
  · refine gu_emit _ _ rfl ?_
    rw [finish_eq]
    exact gu_apply r.1 r.1.w _
      h (by simpa [World.kop, Grp.flushQueue] using h.1.k) h.1.std h.1.capEq (sinv_flush _ h.1.s) (by simp)
      (fun _ _ hx => hx) (fun _ _ => rfl)

theorem gu_body (e : Eng Grp) (h : GU F e) : GU F (Eng.body group e) := by
  have hstart : GU F { e with s := group.start e.s } :=
    gu_state e _ h (sinv_frame e.s _ h.1.s rfl rfl rfl rfl rfl rfl (Nat.le_refl _) (fun _ hx => hx))
      rfl rfl
  unfold Eng.body
  split
  · exact gu_emit _ _ rfl hstart
  · exact gu_close _ (gu_scan _ _ hstart)

theorem gu_poll (e : Eng Grp) (w : Nat) (h : GU F e) : GU F (Eng.poll group e w) := by
  unfold Eng.poll
  split
  · exact gu_emit _ _ rfl (gu_emit _ _ rfl h)
  · refine gu_body _ ?_
    refine gu_of e _ h ⟨invm_setWaker _ _ _ (invm_emit _ _ _ rfl h.1.k), by simpa using h.1.std,
      by simpa using h.1.capEq, h.1.s⟩ (fun _ _ hx => hx) ?_
    intro x _; simp [lastRes]

/-! ### the other operations -/

theorem gu_fire (e : Eng Grp) (c a : Nat) (h : GU F e) : GU F (e.fire c a) := by
  refine gu_of e _ h ⟨invm_fire _ _ _ _ h.1.std h.1.k, by simpa using h.1.std,
    by simpa using h.1.capEq, h.1.s⟩ (fun _ _ hx => hx) ?_
  intro x _
  simp only [Eng.fire_w, lastRes_fire]

theorem dropEvs_neutral (s : Grp) : ∀ ev ∈ group.dropEvs s, neutral ev = true := by
  intro ev hev
  simp only [group, List.mem_map] at hev
  obtain ⟨k, _, rfl⟩ := hev
  rfl

theorem gu_drop (e : Eng Grp) (h : GU F e) : GU F (Eng.drop group e) := by
  unfold Eng.drop
  refine gu_of e _ h ⟨?_, by simpa using h.1.std, by simpa [group] using h.1.capEq, ?_⟩
    (fun _ _ hx => hx) ?_
  · refine invm_emit _ _ _ rfl ?_
    refine invm_emits _ _ _ (dropEvs_neutral _) ?_
    exact invm_emit _ _ _ rfl h.1.k
  · exact sinv_frame e.s _ h.1.s rfl rfl rfl rfl rfl rfl (Nat.le_refl _) (fun _ hx => hx)
  · intro x _
    simp only [World.emit_trace, lastRes]
    rw [lastRes_emits_neutral _ _ (dropEvs_neutral _)]
    simp [lastRes]

theorem gu_reserve (e : Eng Grp) (n : Nat) (h : GU F e) : GU F (GEng.reserve e n) := by
  unfold GEng.reserve
  split
  · exact h
  · refine gu_of e _ h ⟨?_, ?_, ?_, ?_⟩ (fun _ _ hx => hx) ?_
    · refine invm_resize _ _ h.1.std h.1.k ?_
      intro j hj
      cases hmj : e.s.member j with
      | none => rfl
      | some x =>
        have := h.1.s.memCap j x hmj
        rw [h.1.capEq] at hj; omega
    · simp only [GEng.resize_mode]; exact h.1.std
    · simp only
      rw [resize_cap _ _ (by rw [h.1.capEq]; omega)]
    · exact sinv_frame e.s _ h.1.s rfl rfl rfl rfl rfl rfl (by simp) (fun _ hx => hx)
    · intro x _; simp only [GEng.resize_trace]

theorem reserve_member (e : Eng Grp) (n : Nat) : (GEng.reserve e n).s.member = e.s.member := by
  unfold GEng.reserve; split <;> rfl
theorem reserve_len (e : Eng Grp) (n : Nat) : (GEng.reserve e n).s.len = e.s.len := by
  unfold GEng.reserve; split <;> rfl

theorem gu_grow (e : Eng Grp) (h : GU F e) :
    GU F (GEng.grow e) ∧ (GEng.grow e).s.len < (GEng.grow e).s.capacity := by
  unfold GEng.grow
  split
  · rename_i hle
    refine ⟨gu_reserve _ _ h, ?_⟩
    have hlc := h.1.s.lenCap
    unfold GEng.reserve
    split
    · omega
    · simp only; omega
  · rename_i hle
    exact ⟨h, by omega⟩

/-- inserting an unused child: it stops being unused, everything else is kept -/
theorem gu_insertAt (e : Eng Grp) (c : Nat) (keep : Bool) (h : GU F e)
    (hl : e.s.len < e.s.capacity) (hu : Unused e c) :
    GU (fun x => F x ∧ x ≠ c) (GEng.insertAt e c keep) := by
  have hg : GInv (GEng.insertAt e c keep) := by
    refine ⟨?_, ?_, ?_, sinv_insertAt e c keep h.1.s hl hu.1⟩
    · rw [ins_w, ins_member]
      refine invm_emit _ _ _ rfl ?_
      refine invm_setReady _ _ _ h.1.std ?_ ?_
      · refine invm_mem _ _ h.1.k ?_
        intro k x hx
        by_cases hkn : k = e.s.next
        · rw [hkn, upd_same] at hx
          cases hx
          exact Or.inr ⟨by simp, by rw [hu.2]; simp⟩
        · rw [upd_other _ _ _ _ hkn] at hx; exact Or.inl hx
      · intro x hx
        rw [upd_same] at hx
        cases hx
        exact Or.inl ⟨by simp, by rw [hu.2]; simp⟩
    · rw [ins_w]; simpa using h.1.std
    · rw [ins_w, ins_capacity]; simpa using h.1.capEq
  refine ⟨hg, ?_⟩
  intro x hx
  have hux := h.2 x hx.1
  constructor
  · intro k hk
    rw [ins_member] at hk
    by_cases hkn : k = e.s.next
    · rw [hkn, upd_same] at hk
      cases hk
      exact hx.2 rfl
    · rw [upd_other _ _ _ _ hkn] at hk; exact hux.1 k hk
  · rw [ins_w]
    simpa [lastRes] using hux.2

theorem gu_mono {F' : Nat → Prop} (e : Eng Grp) (h : GU F e) (hF : ∀ x, F' x → F x) : GU F' e :=
  ⟨h.1, fun c hc => h.2 c (hF c hc)⟩

theorem gu_insert (e : Eng Grp) (c : Nat) (h : GU F e) (hu : Unused e c) :
    GU (fun x => F x ∧ x ≠ c) (GEng.insert e c) := by
  unfold GEng.insert
  have hgr := gu_grow (F := fun x => F x ∨ x = c) e
    ⟨h.1, fun x hx => by
      rcases hx with hx | hx
      · exact h.2 x hx
      · rw [hx]; exact hu⟩
  have := gu_insertAt (GEng.grow e) c true hgr.1 hgr.2 (hgr.1.2 c (Or.inr rfl))
  exact gu_mono _ this (fun x hx => ⟨Or.inl hx.1, hx.2⟩)

theorem gu_remove (e : Eng Grp) (j : Nat) (h : GU F e) : GU F (GEng.remove e j) := by
  unfold GEng.remove
  split
  · exact h
  · rename_i k _
    split
    · rename_i hk
      have hk' : k ∈ e.s.keys := by simpa using hk
      refine gu_of e _ h ⟨?_, by simpa using h.1.std, h.1.capEq, ?_⟩ ?_ ?_
      · refine invm_mem _ _ (invm_emit _ _ _ rfl (invm_emit _ _ _ rfl h.1.k)) ?_
        intro k' x hx
        exact Or.inl (upd_none_some hx).2
      · exact sinv_remove e.s _ k h.1.s (h.1.s.keysLt k hk') rfl rfl rfl rfl rfl rfl rfl
          (fun x hx => (List.mem_filter.mp hx).1)
      · intro k' x hx; exact (upd_none_some hx).2
      · intro x _; simp [lastRes]
    · exact gu_emit e _ rfl h

theorem gu_extend_fold (cs : List Nat) (e : Eng Grp) (h : GU F e) (hnd : cs.Nodup)
    (hu : ∀ c ∈ cs, F c) :
    GU (fun x => F x ∧ x ∉ cs) (cs.foldl (fun e c => GEng.insertAt (GEng.grow e) c false) e) := by
  induction cs generalizing e F with
  | nil => exact gu_mono _ h (fun x hx => hx.1)
  | cons c cs ih =>
    simp only [List.foldl_cons]
    have hgr := gu_grow e h
    have h1 := gu_insertAt (GEng.grow e) c false hgr.1 hgr.2 (hgr.1.2 c (hu c (List.mem_cons_self ..)))
    have hnd' := List.nodup_cons.mp hnd
    have h2 := ih (F := fun x => F x ∧ x ≠ c) _ h1 hnd'.2
      (fun x hx => ⟨hu x (List.mem_cons_of_mem _ hx), fun hxc => hnd'.1 (hxc ▸ hx)⟩)
    refine gu_mono _ h2 ?_
    intro x hx
    simp only [List.mem_cons, not_or] at hx
    exact ⟨⟨hx.1, hx.2.1⟩, hx.2.2⟩

theorem gu_extend (cs : List Nat) (e : Eng Grp) (h : GU F e) (hnd : cs.Nodup)
    (hu : ∀ c ∈ cs, F c) : GU (fun x => F x ∧ x ∉ cs) (GEng.extend e cs) := by
  unfold GEng.extend
  exact gu_extend_fold cs _ (gu_reserve e _ h) hnd hu

theorem gu_query (e : Eng Grp) (q a : Nat) (h : GU F e) : GU F (GEng.query e q a) :=
  gu_emit e _ rfl h

/-- one operation: the children it inserts must be unused (and distinct); all other unused
    children stay unused -/
theorem gu_step (e : Eng Grp) (op : Op) (h : GU F e) (hnd : (insertedIds op).Nodup)
    (hu : ∀ c ∈ insertedIds op, F c) :
    GU (fun x => F x ∧ x ∉ insertedIds op) (GEng.step e op) := by
  have hmono : ∀ e', GU F e' → GU (fun x => F x ∧ x ∉ insertedIds op) e' :=
    fun e' h' => gu_mono e' h' (fun x hx => hx.1)
  cases op with
  | poll w => exact hmono _ (gu_poll e w h)
  | fire c a => exact hmono _ (gu_fire e c a h)
  | drop => exact hmono _ (gu_drop e h)
  | insert c =>
    simp only [GEng.step]
    split
    · exact hmono _ h
    · refine gu_mono _ (gu_insert e c h (h.2 c (hu c (by simp [insertedIds])))) ?_
      intro x hx
      exact ⟨hx.1, by simpa [insertedIds] using hx.2⟩
  | remove j =>
    simp only [GEng.step]
    split
    · exact hmono _ h
    · exact hmono _ (gu_remove e j h)
  | reserve n =>
    simp only [GEng.step]
    split
    · exact hmono _ h
    · exact hmono _ (gu_reserve e n h)
  | extend cs =>
    simp only [GEng.step]
    split
    · exact hmono _ h
    · exact gu_extend cs e h hnd hu
  | qLen => simp only [GEng.step]; split <;> exact hmono _ (by first | exact h | exact gu_query _ _ _ h)
  | qIsEmpty => simp only [GEng.step]; split <;> exact hmono _ (by first | exact h | exact gu_query _ _ _ h)
  | qContains j =>
    simp only [GEng.step]
    split
    · exact hmono _ h
    · split
      · exact hmono _ h
      · exact hmono _ (gu_query _ _ _ h)
  | qCapacity => simp only [GEng.step]; split <;> exact hmono _ (by first | exact h | exact gu_query _ _ _ h)

theorem gu_run (ops : List Op) (e : Eng Grp) (h : GU F e)
    (hnd : (ops.flatMap insertedIds).Nodup) (hu : ∀ c ∈ ops.flatMap insertedIds, F c) :
    GInv (ops.foldl GEng.step e) := by
  induction ops generalizing e F with
  | nil => exact h.1
  | cons op ops ih =>
    simp only [List.foldl_cons]
    simp only [List.flatMap_cons] at hnd hu
    have hnd' := List.nodup_append.mp hnd
    refine ih (F := fun x => F x ∧ x ∉ insertedIds op) _
      (gu_step e op h hnd'.1 (fun c hc => hu c (List.mem_append_left _ hc))) hnd'.2.1 ?_
    intro c hc
    exact ⟨hu c (List.mem_append_right _ hc), fun hc' => hnd'.2.2 c hc' c hc rfl⟩

theorem gu_init (stream keyed : Bool) (scripts : Nat → List Step) :
    GU (fun _ => True) (GEng.init stream keyed .std scripts) := by
  refine ⟨⟨⟨rfl, ?_⟩, rfl, rfl, ?_⟩, ?_⟩
  · intro k c hk _
    simp [GEng.init, World.init] at hk
  · constructor
    · intro k1 k2 c h1; simp [GEng.init, Grp.init] at h1
    · intro k hk; simp [GEng.init, Grp.init] at hk
    · intro k c hk; simp [GEng.init, Grp.init] at hk
    · exact Nat.le_refl _
    · exact Nat.le_refl _
    · left; exact ⟨[], rfl, Nat.le_refl _⟩
    · intro k hk; simp [GEng.init, Grp.init] at hk
    · intro k hk; simp [GEng.init, Grp.init] at hk
  · intro c _
    exact ⟨fun k => by simp [GEng.init, Grp.init], rfl⟩

end C16g
end Fc
