/-
  FcLemmas/C08.lean — merge: the slot table mirrors which inputs have ended; every item an input
  produces is handed out by the very poll that took it; the outcome of every poll is the one C08
  demands.
-/
import FcLemmas.Seg
set_option linter.unusedSimpArgs false
set_option linter.unusedVariables false

namespace Fc
namespace C08
open Mon Fix

/-! ### how the stream observations see the segments the engine appends -/

theorem pollSeg_nil (c slot : Nat) (wk : Wk) (l : List Ev) (r : Res) (t : List Ev) :
    pollSeg c slot wk l r [] t = .childEnd c r :: (l ++ .childBegin c slot wk :: t) := by
  simp [pollSeg]

theorem holds_fires (n : Nat) (l t : List Ev) (hl : ∀ e ∈ l, isFireEv e = true) :
    holds_C08 n (l ++ t) = holds_C08 n t :=
  skip_seg (holds_C08 n) isFireEv (fun e t h => by cases e <;> simp_all [isFireEv, holds_C08]) l hl t

theorem items_fires (l t : List Ev) (hl : ∀ e ∈ l, isFireEv e = true) : items (l ++ t) = items t :=
  skip_seg items isFireEv (fun e t h => by cases e <;> simp_all [isFireEv, items]) l hl t

theorem yielded_fires (l t : List Ev) (hl : ∀ e ∈ l, isFireEv e = true) :
    yielded (l ++ t) = yielded t :=
  skip_seg yielded isFireEv (fun e t h => by cases e <;> simp_all [isFireEv, yielded]) l hl t

theorem ended_fires (l t : List Ev) (c : Nat) (hl : ∀ e ∈ l, isFireEv e = true) :
    ended (l ++ t) c = ended t c := by
  simp [ended, lastRes_fires l t c hl]

theorem itemsSince_fires (l t : List Ev) (hl : ∀ e ∈ l, isFireEv e = true) :
    items (sincePoll (l ++ t)) = items (sincePoll t) := by
  rw [sincePoll_fires l t hl, items_fires _ _ hl]

/-- the items of one child poll -/
def resItems : Res → List Nat
  | .item v => [v]
  | _ => []

theorem items_seg (c slot : Nat) (wk : Wk) (l : List Ev) (r : Res) (t : List Ev)
    (hl : ∀ e ∈ l, isFireEv e = true) :
    items (pollSeg c slot wk l r [] t) = resItems r ++ items t := by
  rw [pollSeg_nil]
  have : items (l ++ .childBegin c slot wk :: t) = items t := by
    rw [items_fires _ _ hl]; simp [items]
  cases r <;> simp [items, resItems, this]

theorem itemsSince_seg (c slot : Nat) (wk : Wk) (l : List Ev) (r : Res) (t : List Ev)
    (hl : ∀ e ∈ l, isFireEv e = true) :
    items (sincePoll (pollSeg c slot wk l r [] t)) = resItems r ++ items (sincePoll t) := by
  rw [pollSeg_nil]
  have : items (sincePoll (l ++ .childBegin c slot wk :: t)) = items (sincePoll t) := by
    rw [itemsSince_fires _ _ hl]; simp [items, sincePoll]
  cases r <;> simp [items, resItems, sincePoll, this]

theorem yielded_seg (c slot : Nat) (wk : Wk) (l : List Ev) (r : Res) (t : List Ev)
    (hl : ∀ e ∈ l, isFireEv e = true) :
    yielded (pollSeg c slot wk l r [] t) = yielded t := by
  rw [pollSeg_nil]
  simp only [yielded]
  rw [yielded_fires _ _ hl]
  simp [yielded]

theorem holds_seg (n c slot : Nat) (wk : Wk) (l : List Ev) (r : Res) (t : List Ev)
    (hl : ∀ e ∈ l, isFireEv e = true) :
    holds_C08 n (pollSeg c slot wk l r [] t) = (holds_C08 n t && items (sincePoll t) == []) := by
  rw [pollSeg_nil]
  simp only [holds_C08]
  rw [holds_fires _ _ _ hl]
  simp [holds_C08]

theorem ended_seg (c slot : Nat) (wk : Wk) (l : List Ev) (r : Res) (t : List Ev) (j : Nat)
    (hl : ∀ e ∈ l, isFireEv e = true) :
    ended (pollSeg c slot wk l r [] t) j = if c = j then decide (r = .fin) else ended t j := by
  unfold ended
  rw [lastRes_pollSeg c slot wk l r [] t j hl (by simp)]
  by_cases hcj : c = j
  · simp only [hcj, if_true]
    cases r <;> simp
  · simp only [hcj, if_false]

theorem anyFin_seg (c slot : Nat) (wk : Wk) (l : List Ev) (t : List Ev) :
    anyFin (sincePoll (pollSeg c slot wk l .fin [] t)) = true := by
  rw [pollSeg_nil]
  simp [sincePoll, anyFin]

/-! ### the invariant -/

structure Inv (n : Nat) (s : Fix) (t : List Ev) : Prop where
  mon : holds_C08 n t = true
  hn : s.n = n
  /-- the yielded sequence is the sequence of produced items -/
  yi : yielded t = items t
  /-- a slot is switched off exactly when its input has ended -/
  live : s.dead = false → ∀ i, i < n → (s.st i = .none ↔ ended t i = true)
  cnt : s.dead = false → s.cnt = cntP (fun i => s.st i = .none) n
  lt : s.dead = false → 0 < n → s.cnt < n
  dead : s.dead = true → spent false t = true

/-- inside a poll: the merge is live, has inputs, and has not taken an item in this poll -/
def J (n : Nat) (s : Fix) (t : List Ev) (l : List Nat) : Prop :=
  Inv n s t ∧ s.dead = false ∧ 0 < n ∧ items (sincePoll t) = [] ∧ ∀ j ∈ l, j < n

theorem inv_fireEv {n s t} (e : Ev) (he : isFireEv e = true) (h : Inv n s t) :
    Inv n s (e :: t) := by
  have hl : ∀ e' ∈ [e], isFireEv e' = true := by simpa using he
  have e1 := holds_fires n [e] t hl
  have e2 := yielded_fires [e] t hl
  have e3 := items_fires [e] t hl
  have e4 := spent_fires false [e] t hl
  simp only [List.singleton_append] at e1 e2 e3 e4
  refine ⟨by rw [e1]; exact h.mon, h.hn, by rw [e2, e3]; exact h.yi, ?_, h.cnt, h.lt,
    fun hd => by rw [e4]; exact h.dead hd⟩
  intro hd i hi
  have e5 := ended_fires [e] t i hl
  simp only [List.singleton_append] at e5
  rw [e5]
  exact h.live hd i hi

/-- some input has not ended: from the counter -/
theorem not_all {n s t} (h : Inv n s t) (hd : s.dead = false) (hn : 0 < n) :
    allEnded n t = false := by
  have hlt := h.lt hd hn
  rw [h.cnt hd] at hlt
  obtain ⟨i, hi, hp⟩ := cntP_lt _ _ hlt
  cases hall : allEnded n t
  · rfl
  · simp only [allEnded, List.all_eq_true, List.mem_range] at hall
    have he := (h.live hd i hi).mpr (hall i hi)
    simp [he] at hp

/-- `Pending` is the right answer while the merge is live and no item was taken in this poll -/
theorem pend_ok {n s t} (h : Inv n s t) (hd : s.dead = false) (hn : 0 < n)
    (hs : items (sincePoll t) = []) : Inv n s (.pollEnd .pending :: t) := by
  refine ⟨?_, h.hn, ?_, ?_, h.cnt, h.lt, fun hd' => absurd hd' (by simp [hd])⟩
  · simp [holds_C08, c08At, yielded, h.mon, hs, not_all h hd hn, h.yi]
  · simpa [yielded, items] using h.yi
  · intro hd' j hj
    have : ended (.pollEnd .pending :: t) j = ended t j := by simp [ended, lastRes]
    rw [this]; exact h.live hd' j hj

/-- an input that neither yields nor ends leaves everything as it is -/
theorem keep_ok {n s t} (h : Inv n s t) (hd : s.dead = false) (i slot : Nat)
    (wk : Wk) (l : List Ev) (r : Res) (hl : ∀ e ∈ l, isFireEv e = true)
    (hs : items (sincePoll t) = []) (hi : i < n)
    (hr : ∀ v, r ≠ .item v) (hf : r ≠ .fin) (hp : s.st i ≠ .none) :
    Inv n s (pollSeg i slot wk l r [] t) ∧ items (sincePoll (pollSeg i slot wk l r [] t)) = [] := by
  have hri : resItems r = [] := by cases r <;> simp_all [resItems]
  refine ⟨⟨?_, h.hn, ?_, ?_, h.cnt, h.lt, fun hd' => absurd hd' (by simp [hd])⟩, ?_⟩
  · rw [holds_seg n i slot wk l r t hl]; simp [h.mon, hs]
  · rw [yielded_seg _ _ _ _ _ _ hl, items_seg _ _ _ _ _ _ hl, hri]; simpa using h.yi
  · intro _ j hj
    rw [ended_seg i slot wk l r t j hl]
    by_cases hij : i = j
    · subst hij
      simp [hf, hp]
    · simp only [hij, if_false]
      exact h.live hd j hj
  · rw [itemsSince_seg _ _ _ _ _ _ hl, hri]; simpa using hs

theorem cnt_none_upd (st : Nat → PS) (n i : Nat) (hi : i < n) (hp : st i ≠ .none) :
    cntP (fun j => decide (upd st i .none j = .none)) n
      = cntP (fun j => decide (st j = .none)) n + 1 := by
  have h := cntP_upd (fun j => decide (st j = .none)) n i true hi
  simp only [hp, decide_false, Bool.false_eq_true, if_false, if_true, Nat.add_zero] at h
  rw [← h]
  apply cntP_congr
  intro j _
  unfold upd
  split <;> simp_all

/-- input `i` ends and others are still running: the scan goes on -/
theorem fin_ok {n s t} (h : Inv n s t) (hd : s.dead = false) (i slot : Nat) (hi : i < n)
    (wk : Wk) (l : List Ev) (hl : ∀ e ∈ l, isFireEv e = true)
    (hs : items (sincePoll t) = []) (hp : s.st i ≠ .none) (s' : Fix) (hn' : s'.n = s.n)
    (hst : s'.st = upd s.st i .none) (hdead : s'.dead = false) (hcnt : s'.cnt = s.cnt + 1)
    (hlt : s.cnt + 1 < n) :
    Inv n s' (pollSeg i slot wk l .fin [] t) ∧
      items (sincePoll (pollSeg i slot wk l .fin [] t)) = [] := by
  refine ⟨⟨?_, by rw [hn', h.hn], ?_, ?_, ?_, ?_, fun hd' => absurd hd' (by simp [hdead])⟩, ?_⟩
  · rw [holds_seg n i slot wk l _ t hl]; simp [h.mon, hs]
  · rw [yielded_seg _ _ _ _ _ _ hl, items_seg _ _ _ _ _ _ hl]; simpa [resItems] using h.yi
  · intro _ j hj
    rw [ended_seg i slot wk l _ t j hl, hst]
    by_cases hij : i = j
    · subst hij
      simp
    · have hji : j ≠ i := fun h => hij h.symm
      simp only [hij, if_false, upd_other _ _ _ _ hji]
      exact h.live hd j hj
  · intro _
    rw [hcnt, hst, h.cnt hd]
    exact (cnt_none_upd s.st n i hi hp).symm
  · intro _ _
    rw [hcnt]; exact hlt
  · rw [itemsSince_seg _ _ _ _ _ _ hl]; simpa [resItems] using hs

/-- input `i` is the last one to end: the merge returns `None` -/
theorem last_ok {n s t} (h : Inv n s t) (hd : s.dead = false) (i slot : Nat) (hi : i < n)
    (wk : Wk) (l : List Ev) (hl : ∀ e ∈ l, isFireEv e = true)
    (hs : items (sincePoll t) = []) (hp : s.st i ≠ .none) (hc : s.cnt + 1 = n) (s' : Fix)
    (hn' : s'.n = s.n) (hdead : s'.dead = true) :
    Inv n s' (.pollEnd .none :: pollSeg i slot wk l .fin [] t) := by
  have hcnt : cntP (fun j => decide (upd s.st i .none j = .none)) n = n := by
    rw [cnt_none_upd s.st n i hi hp, ← h.cnt hd]; exact hc
  have hall := cntP_full _ _ hcnt
  have hend : allEnded n (pollSeg i slot wk l .fin [] t) = true := by
    simp only [allEnded, List.all_eq_true, List.mem_range]
    intro j hj
    rw [ended_seg i slot wk l _ t j hl]
    by_cases hij : i = j
    · simp [hij]
    · have hji : j ≠ i := fun h => hij h.symm
      simp only [hij, if_false]
      have hr := hall j hj
      simp only [upd_other _ _ _ _ hji, decide_eq_true_eq] at hr
      exact (h.live hd j hj).mp hr
  have hyi : yielded (pollSeg i slot wk l .fin [] t) = items (pollSeg i slot wk l .fin [] t) := by
    rw [yielded_seg _ _ _ _ _ _ hl, items_seg _ _ _ _ _ _ hl]; simpa [resItems] using h.yi
  have hsi : items (sincePoll (pollSeg i slot wk l .fin [] t)) = [] := by
    rw [itemsSince_seg _ _ _ _ _ _ hl]; simpa [resItems] using hs
  refine ⟨?_, by rw [hn', h.hn], ?_, fun hd' => absurd hd' (by simp [hdead]),
    fun hd' => absurd hd' (by simp [hdead]), fun hd' => absurd hd' (by simp [hdead]),
    fun _ => by simp [spent, finalSeen]⟩
  · simp only [holds_C08, c08At, yielded, Bool.and_eq_true, beq_iff_eq, Bool.or_eq_true]
    refine ⟨⟨?_, ⟨hsi, hend⟩, Or.inr (anyFin_seg i slot wk l t)⟩, hyi⟩
    rw [holds_seg n i slot wk l _ t hl]; simp [h.mon, hs]
  · simpa [yielded, items] using hyi

/-- input `i` has an item: the merge yields it at once -/
theorem item_ok {n s t} (h : Inv n s t) (hd : s.dead = false) (i slot : Nat) (hi : i < n)
    (wk : Wk) (l : List Ev) (v : Nat) (hl : ∀ e ∈ l, isFireEv e = true)
    (hs : items (sincePoll t) = []) (hp : s.st i ≠ .none) :
    Inv n s (.pollEnd (.some 0 [v]) :: pollSeg i slot wk l (.item v) [] t) := by
  have hyi : v :: yielded (pollSeg i slot wk l (.item v) [] t)
      = items (pollSeg i slot wk l (.item v) [] t) := by
    rw [yielded_seg _ _ _ _ _ _ hl, items_seg _ _ _ _ _ _ hl]; simp [resItems, h.yi]
  have hsi : items (sincePoll (pollSeg i slot wk l (.item v) [] t)) = [v] := by
    rw [itemsSince_seg _ _ _ _ _ _ hl]; simp [resItems, hs]
  refine ⟨?_, h.hn, ?_, ?_, h.cnt, h.lt, fun hd' => absurd hd' (by simp [hd])⟩
  · simp only [holds_C08, c08At, yielded, Bool.and_eq_true, beq_iff_eq]
    refine ⟨⟨?_, hsi, by simp⟩, by simpa using hyi⟩
    rw [holds_seg n i slot wk l _ t hl]; simp [h.mon, hs]
  · simpa [yielded, items] using hyi
  · intro _ j hj
    have : ended (.pollEnd (.some 0 [v]) :: pollSeg i slot wk l (.item v) [] t) j
        = ended (pollSeg i slot wk l (.item v) [] t) j := by simp [ended, lastRes]
    rw [this, ended_seg i slot wk l _ t j hl]
    by_cases hij : i = j
    · subst hij
      simp [hp]
    · simp only [hij, if_false]
      exact h.live hd j hj

/-- trace events that are not `pollEnd` and do not touch the observations -/
theorem inv_pb {n s t} (w : Nat) (h : Inv n s t) : Inv n s (.pollBegin w :: t) := by
  refine ⟨by simpa [holds_C08] using h.mon, h.hn, by simpa [yielded, items] using h.yi, ?_, h.cnt,
    h.lt, fun hd => ?_⟩
  · intro hd j hj
    have : ended (.pollBegin w :: t) j = ended t j := by simp [ended, lastRes]
    rw [this]; exact h.live hd j hj
  · have := h.dead hd
    simpa [spent, finalSeen, alive, panickedSeen] using this

theorem inv_misuse {n s t} (w : Nat) (h : Inv n s t) (hd : s.dead = true) :
    Inv n s (.pollEnd .misuse :: .pollBegin w :: t) := by
  have hb := inv_pb w h
  have hsp := hb.dead hd
  refine ⟨?_, h.hn, ?_, fun hd' => absurd hd' (by simp [hd]), fun hd' => absurd hd' (by simp [hd]),
    fun hd' => absurd hd' (by simp [hd]), fun _ => ?_⟩
  · simp only [holds_C08, c08At, yielded, Bool.and_eq_true, beq_iff_eq]
    exact ⟨⟨by simpa [holds_C08] using h.mon, hsp⟩, by simpa [items] using h.yi⟩
  · simpa [yielded, items] using h.yi
  · simpa [spent, finalSeen, alive, panickedSeen] using hsp

/-- zero inputs: `None` on every poll -/
theorem inv_zero {s t} (w : Nat) (h : Inv 0 s t) :
    Inv 0 s (.pollEnd .none :: .pollBegin w :: t) := by
  refine ⟨?_, h.hn, ?_, fun _ i hi => absurd hi (by omega), h.cnt, h.lt,
    fun _ => by simp [spent, finalSeen]⟩
  · simp only [holds_C08, c08At, yielded, sincePoll, items, allEnded, List.range_zero, List.all_nil,
      Bool.and_eq_true, beq_iff_eq]
    exact ⟨⟨h.mon, by simp⟩, h.yi⟩
  · simpa [yielded, items] using h.yi

theorem inv_panic {n s t} (h : Inv n s t) (i slot : Nat) (wk : Wk) (l : List Ev)
    (hl : ∀ e ∈ l, isFireEv e = true) (hs : items (sincePoll t) = []) (s' : Fix)
    (hn' : s'.n = s.n) (hdead : s'.dead = true) :
    Inv n s' (.pollEnd .panicked :: pollSeg i slot wk l .panic [] t) := by
  have hyi : yielded (pollSeg i slot wk l .panic [] t) = items (pollSeg i slot wk l .panic [] t) := by
    rw [yielded_seg _ _ _ _ _ _ hl, items_seg _ _ _ _ _ _ hl]; simpa [resItems] using h.yi
  have hsi : items (sincePoll (pollSeg i slot wk l .panic [] t)) = [] := by
    rw [itemsSince_seg _ _ _ _ _ _ hl]; simpa [resItems] using hs
  refine ⟨?_, by rw [hn', h.hn], ?_, fun hd' => absurd hd' (by simp [hdead]),
    fun hd' => absurd hd' (by simp [hdead]), fun hd' => absurd hd' (by simp [hdead]),
    fun _ => by simp [spent, panickedSeen]⟩
  · simp only [holds_C08, c08At, yielded, Bool.and_eq_true, beq_iff_eq]
    refine ⟨⟨?_, hsi⟩, hyi⟩
    rw [holds_seg n i slot wk l _ t hl]; simp [h.mon, hs]
  · simpa [yielded, items] using hyi

theorem inv_drop {n s t} (h : Inv n s t) (evs : List Ev)
    (he : ∀ e ∈ evs, isOwnEv e = true) (s' : Fix) (hn' : s'.n = s.n) (hdead : s'.dead = true) :
    Inv n s' (.dropEnd :: (evs.reverse ++ .dropBegin :: t)) := by
  have her : ∀ e ∈ evs.reverse, isOwnEv e = true := fun e h => he e (List.mem_reverse.mp h)
  refine ⟨?_, by rw [hn', h.hn], ?_, fun hd' => absurd hd' (by simp [hdead]),
    fun hd' => absurd hd' (by simp [hdead]), fun hd' => absurd hd' (by simp [hdead]),
    fun _ => ?_⟩
  · simp only [holds_C08]
    rw [skip_seg (holds_C08 n) isOwnEv
      (fun e t h => by cases e <;> simp_all [isOwnEv, holds_C08]) evs.reverse her]
    simpa [holds_C08] using h.mon
  · simp only [yielded, items]
    rw [skip_seg yielded isOwnEv (fun e t h => by cases e <;> simp_all [isOwnEv, yielded])
        evs.reverse her,
      skip_seg items isOwnEv (fun e t h => by cases e <;> simp_all [isOwnEv, items])
        evs.reverse her]
    simpa [yielded, items] using h.yi
  · have : alive (.dropEnd :: (evs.reverse ++ .dropBegin :: t)) = false := by
      simp only [alive]
      rw [skip_seg alive isOwnEv (fun e t h => alive_own e t h) evs.reverse her]
      rfl
    simp [spent, this]

theorem rot_lt (s : Fix) (hn : 0 < s.n) : ∀ j ∈ s.rot, j < s.n := by
  intro j hj
  simp only [Fix.rot, List.mem_map, List.mem_range] at hj
  obtain ⟨k, _, rfl⟩ := hj
  exact Nat.mod_lt _ hn

/-! ### the `Sim` instance -/

theorem sim_merge (n : Nat) (m : Mode) : Sim merge m Sim.anyRes (Inv n) (J n) where
  fireEv := fun s t e he h => inv_fireEv e he h
  pre := by
    intro s t w o hpre h
    simp only [merge, Fix.misuseIfDead] at hpre
    split at hpre
    · rename_i hn0
      cases hpre
      have hn : n = 0 := by rw [← h.hn]; exact hn0
      subst hn
      exact inv_zero w h
    · split at hpre
      · cases hpre; exact inv_misuse w h ‹_›
      · cases hpre
  start := by
    intro s t w hpre h
    simp only [merge, Fix.misuseIfDead] at hpre
    have hn0 : s.n ≠ 0 := by
      intro h0; simp [h0] at hpre
    have hd : s.dead = false := by
      cases hdd : s.dead <;> simp_all
    have hpos : 0 < s.n := by omega
    refine ⟨?_, hd, by rw [← h.hn]; exact hpos, by simp [sincePoll, items], ?_⟩
    · have hb := inv_pb w h
      exact ⟨hb.mon, hb.hn, hb.yi, hb.live, hb.cnt, hb.lt, hb.dead⟩
    · intro j hj
      rw [← h.hn]
      exact rot_lt s hpos j hj
  earlyPend := by
    intro s t l _ _ hJ
    obtain ⟨h, hd, h0, hs, _⟩ := hJ
    exact pend_ok h hd h0 hs
  skip := by
    intro s t i rest _ hJ
    exact ⟨hJ.1, hJ.2.1, hJ.2.2.1, hJ.2.2.2.1, fun j hj => hJ.2.2.2.2 j (List.mem_cons_of_mem _ hj)⟩
  goOn := by
    intro s t i rest wk l r hJ hel hr _ hl hex
    obtain ⟨h, hd, h0, hs, hlt⟩ := hJ
    have hi : i < n := hlt i (List.mem_cons_self ..)
    have hp : s.st i ≠ .none := by simpa [merge] using hel
    have hrest : ∀ j ∈ rest, j < n := fun j hj => hlt j (List.mem_cons_of_mem _ hj)
    cases r with
    | ready ok v =>
      obtain ⟨h1, h2⟩ := keep_ok h hd i i wk l (.ready ok v) hl hs hi (by simp) (by simp) hp
      exact ⟨h1, hd, h0, h2, hrest⟩
    | pend =>
      obtain ⟨h1, h2⟩ := keep_ok h hd i i wk l .pend hl hs hi (by simp) (by simp) hp
      exact ⟨h1, hd, h0, h2, hrest⟩
    | item v => simp [merge] at hex
    | fin =>
      have hne : ¬ s.cnt + 1 = s.n := by
        intro hc; simp [merge, hc] at hex
      have hlt' := h.lt hd h0
      obtain ⟨h1, h2⟩ := fin_ok h hd i i hi wk l hl hs hp
        { s with st := upd s.st i .none, cnt := s.cnt + 1 } rfl rfl hd rfl
        (by rw [h.hn] at hne; omega)
      refine ⟨?_, ?_, h0, ?_, hrest⟩
      · simpa [merge, hne] using h1
      · simpa [merge, hne] using hd
      · simpa [merge, hne] using h2
    | panic => exact absurd rfl hr
  goExit := by
    intro s t i rest wk l r o hJ hel hr _ hl hex
    obtain ⟨h, hd, h0, hs, hlt⟩ := hJ
    have hi : i < n := hlt i (List.mem_cons_self ..)
    have hp : s.st i ≠ .none := by simpa [merge] using hel
    cases r with
    | ready ok v => simp [merge, Fix.keep] at hex
    | pend => simp [merge, Fix.keep] at hex
    | item v =>
      simp only [merge, Option.some.injEq] at hex
      subst hex
      exact item_ok h hd i i hi wk l v hl hs hp
    | fin =>
      by_cases hc : s.cnt + 1 = s.n
      · simp only [merge, hc, if_true, Option.some.injEq] at hex
        subst hex
        have := last_ok h hd i i hi wk l hl hs hp (by rw [← h.hn]; exact hc)
          { s with st := upd s.st i .none, cnt := s.cnt + 1, dead := true } rfl rfl
        simpa [merge, hc] using this
      · simp [merge, hc] at hex
    | panic => exact absurd rfl hr
  panic := by
    intro s t i rest wk l hJ hel hl
    exact inv_panic hJ.1 i i wk l hl hJ.2.2.2.1 _ rfl rfl
  finish := by
    intro s t hJ
    obtain ⟨h, hd, h0, hs, _⟩ := hJ
    simpa [merge] using pend_ok h hd h0 hs
  drop := by
    intro s t h
    refine inv_drop h _ ?_ _ rfl rfl
    intro e he
    simp only [merge, List.mem_map] at he
    obtain ⟨_, _, rfl⟩ := he
    rfl

/-! ### consequences of the monitor alone -/

/-- the monitor is prefix-closed: it held at every earlier point of the history -/
theorem holds_suffix (n : Nat) (pre t : List Ev) (h : holds_C08 n (pre ++ t) = true) :
    holds_C08 n t = true := by
  induction pre with
  | nil => exact h
  | cons e pre ih =>
    apply ih
    rw [List.cons_append] at h
    cases e <;> simp_all [holds_C08]

/-- inputs answer only inside polls -/
def childEndsInPolls : List Ev → Bool
  | [] => true
  | .childEnd _ _ :: t => inPoll t && childEndsInPolls t
  | _ :: t => childEndsInPolls t

theorem exactly_once_wf (n : Nat) (t : List Ev) (h : holds_C08 n t = true)
    (hw : childEndsInPolls t = true) (hp : inPoll t = false) : yielded t = items t := by
  induction t with
  | nil => rfl
  | cons e t ih =>
    cases e with
    | pollEnd o =>
      simp only [holds_C08, Bool.and_eq_true, beq_iff_eq] at h
      simpa [items] using h.2
    | pollBegin w => simp [inPoll] at hp
    | childEnd c r =>
      simp only [childEndsInPolls, Bool.and_eq_true] at hw
      simp only [inPoll] at hp
      rw [hp] at hw
      exact absurd hw.1 (by simp)
    | _ =>
      simp only [holds_C08, Bool.and_eq_true] at h
      simp only [childEndsInPolls] at hw
      simp only [inPoll] at hp
      simp only [yielded, items]
      first | exact ih h hw hp | exact ih h.1 hw hp

/-- the initial state -/
theorem inv_init (n : Nat) : Inv n (Fix.init n 0) [] := by
  refine ⟨rfl, rfl, rfl, fun _ i hi => ?_, fun _ => ?_, fun _ h0 => h0, fun hd => by cases hd⟩
  · simp [Fix.init, ended, lastRes]
  · simp only [Fix.init]
    have : cntP (fun i => decide (PS.pending = PS.none)) n = 0 := by
      rw [cntP_congr _ (fun _ => false) n (fun i _ => by simp)]
      exact cntP_none n
    exact this.symm

end C08
end Fc
