/-
  FcLemmas/KTieZipVDEnv.lean — no_std flavour of the Vec zip tie, environment side: the translated child poll with the
  flag-less readiness set (`DirVec.ReadinessVec`), the no-op wake function `fun _ r => some (r, [], ())` (no sub-wakers
  exist in this flavour) and the caller's own waker `Wk.par p` is `World.pollChild` of the model in `direct` mode, read
  through `TieDir.absV`.  The readiness set is returned unchanged.
-/
import FcProps.KTieDir
import Fc.RustEnv
import FcLemmas.World

set_option linter.unusedSimpArgs false
set_option linter.unusedVariables false

namespace Fc
open Rs Src

namespace TieZipVD

/-- the wake function the translated no_std code passes to its children's polls -/
abbrev wakeD : Nat → DirVec.ReadinessVec → Option (DirVec.ReadinessVec × List Nat × Unit) :=
  fun _ r => some (r, [], ())

/-- every sub-waker that was handed to a child belongs to one of the `n` slots (none is ever handed out in this
    flavour; the hypothesis of the statement is carried along, it is never used) -/
def HandedInD (n : Nat) (w : World) : Prop := ∀ c i, Wk.sub i ∈ w.handed c → i < n

@[simp] theorem absV_scripts (r : DirVec.ReadinessVec) (b : World) : (TieDir.absV r b).scripts = b.scripts := rfl
@[simp] theorem absV_handed (r : DirVec.ReadinessVec) (b : World) : (TieDir.absV r b).handed = b.handed := rfl
@[simp] theorem absV_trace (r : DirVec.ReadinessVec) (b : World) : (TieDir.absV r b).trace = b.trace := rfl
@[simp] theorem absV_mode (r : DirVec.ReadinessVec) (b : World) : (TieDir.absV r b).mode = .direct := rfl
@[simp] theorem absV_parent (r : DirVec.ReadinessVec) (b : World) : (TieDir.absV r b).parent = r.roleParent := rfl
theorem absV_emit (r : DirVec.ReadinessVec) (b : World) (e : Ev) :
    TieDir.absV r (b.emit e) = (TieDir.absV r b).emit e := rfl
@[simp] theorem absV_stepOf (r : DirVec.ReadinessVec) (b : World) (c : Nat) :
    (TieDir.absV r b).stepOf c = b.stepOf c := rfl
@[simp] theorem absV_resOf (r : DirVec.ReadinessVec) (b : World) (c : Nat) :
    (TieDir.absV r b).resOf c = b.resOf c := rfl
@[simp] theorem absV_anyReady (r : DirVec.ReadinessVec) (b : World) : (TieDir.absV r b).anyReady = true := rfl
@[simp] theorem absV_isSet (r : DirVec.ReadinessVec) (b : World) (i : Nat) : (TieDir.absV r b).isSet i = true := rfl
@[simp] theorem absV_clearReady (r : DirVec.ReadinessVec) (b : World) (i : Nat) :
    (TieDir.absV r b).clearReady i = TieDir.absV r b := rfl
@[simp] theorem absV_setAllReady (r : DirVec.ReadinessVec) (b : World) :
    (TieDir.absV r b).setAllReady = TieDir.absV r b := rfl

/-- the translated code never touches the (unused) flag fields of the environment -/
def SameBits (a b : World) : Prop := b.cap = a.cap ∧ b.bits = a.bits ∧ b.count = a.count

theorem SameBits.refl (a : World) : SameBits a a := ⟨rfl, rfl, rfl⟩
theorem SameBits.trans {a b c : World} (h1 : SameBits a b) (h2 : SameBits b c) : SameBits a c :=
  ⟨h2.1.trans h1.1, h2.2.1.trans h1.2.1, h2.2.2.trans h1.2.2⟩

theorem fireWk_tieD (r : DirVec.ReadinessVec) (env : World) (wk : Wk) :
    ∃ env', Rs.fireWk wakeD r env wk = some (r, env') ∧
      TieDir.absV r env' = (TieDir.absV r env).fireWk wk ∧ SameBits env env' := by
  cases wk with
  | par p => exact ⟨_, rfl, rfl, rfl, rfl, rfl⟩
  | sub i => exact ⟨env, rfl, rfl, rfl, rfl, rfl⟩

theorem fire_tieD (r : DirVec.ReadinessVec) (env : World) (c age : Nat) :
    ∃ env', Rs.fire wakeD r env c age = some (r, env') ∧
      TieDir.absV r env' = (TieDir.absV r env).fire c age ∧ SameBits env env' := by
  unfold Rs.fire World.fire
  simp only [absV_handed]
  cases hg : (env.handed c)[age]? with
  | none => exact ⟨_, rfl, rfl, rfl, rfl, rfl⟩
  | some wk => exact fireWk_tieD r _ wk

theorem fires_tieD (r : DirVec.ReadinessVec) (l : List (Nat × Nat)) : ∀ (env : World),
    ∃ env', Rs.fires wakeD r env l = some (r, env') ∧
      TieDir.absV r env' = (TieDir.absV r env).fires l ∧ SameBits env env' := by
  induction l with
  | nil => intro env; exact ⟨env, rfl, rfl, SameBits.refl _⟩
  | cons p l ih =>
    intro env
    obtain ⟨env1, e1, a1, f1⟩ := fire_tieD r env p.1 p.2
    obtain ⟨env2, e2, a2, f2⟩ := ih env1
    refine ⟨env2, ?_, ?_, f1.trans f2⟩
    · simp only [Rs.fires, e1, e2]
    · rw [a2, a1, World.fires_cons]

/-- one poll of child `c` (sitting in slot `c`) with the caller's own waker -/
theorem pollChild_tieD (n : Nat) (r : DirVec.ReadinessVec) (env : World) (c p : Nat) (hp : r.roleParent = some p)
    (hh : HandedInD n env) :
    ∃ env', Rs.pollChild wakeD r env c (.par p) = some (r, env', env.resOf c) ∧
      TieDir.absV r env' = (TieDir.absV r env).pollChild c c ∧ HandedInD n env' ∧
      env'.scripts = upd env.scripts c (env.scripts c).tail ∧ SameBits env env' := by
  have hw : (TieDir.absV r env).wakerFor c = .par p := by
    simp [World.wakerFor, hp]
  have hh0 : HandedInD n
      { env with
        scripts := upd env.scripts c (env.scripts c).tail,
        handed := upd env.handed c (Wk.par p :: env.handed c),
        trace := .childBegin c c (.par p) :: env.trace } := by
    intro c' j hm
    by_cases hc : c' = c
    · subst hc
      simp at hm
      exact hh _ _ hm
    · simp [upd, hc] at hm
      exact hh _ _ hm
  obtain ⟨env', e1, a1, f1⟩ := fires_tieD r (env.stepOf c).fires
    { env with
        scripts := upd env.scripts c (env.scripts c).tail,
        handed := upd env.handed c (Wk.par p :: env.handed c),
        trace := .childBegin c c (.par p) :: env.trace }
  refine ⟨env'.emit (.childEnd c (env.resOf c)), ?_, ?_, ?_, ?_, f1⟩
  · simp only [Rs.pollChild, Rs.slotOf, e1]
  · rw [absV_emit, a1]
    unfold World.pollChild
    rw [hw]
    rfl
  · have := congrArg World.handed a1
    simp at this
    intro c' j; simp only [World.emit_handed]; rw [this]; exact hh0 c' j
  · have := congrArg World.scripts a1
    simp at this
    simp only [World.emit_scripts]; rw [this]

end TieZipVD
end Fc
