/-
  FcLemmas/Engine.lean — induction principles for the poll skeleton.
-/
import FcLemmas.Lawful

namespace Fc
namespace Eng
variable {σ : Type}

@[simp] theorem emit_w (e : Eng σ) (ev : Ev) : (e.emit ev).w = e.w.emit ev := rfl
@[simp] theorem emit_s (e : Eng σ) (ev : Ev) : (e.emit ev).s = e.s := rfl
@[simp] theorem applyH_w (e : Eng σ) (h : HRes σ) : (e.applyH h).w = (e.w.emits h.evs).kop h.kop := rfl
@[simp] theorem applyH_s (e : Eng σ) (h : HRes σ) : (e.applyH h).s = h.s := rfl
@[simp] theorem fire_w (e : Eng σ) (c a : Nat) : (e.fire c a).w = e.w.fire c a := rfl
@[simp] theorem fire_s (e : Eng σ) (c a : Nat) : (e.fire c a).s = e.s := rfl

/-- case analysis of one loop iteration -/
theorem visit_ind (P : Policy σ) (e : Eng σ) (i : Nat) (Q : Eng σ × Option Outcome → Prop)
    (hany : P.loopAny = true → e.w.anyReady = false → Q (e, some .pending))
    (hskip : (P.loopAny = true → e.w.anyReady = true) → gateGo P e i = false →
      Q ({ e with w := gateW P e i }, none))
    (hpanic : (P.loopAny = true → e.w.anyReady = true) → gateGo P e i = true →
      e.w.resOf (P.child e.s i) = .panic →
      Q ({ w := ((gateW P e i).pollChild (P.child e.s i) i).emits (P.panicEvs e.s), s := P.onPanic e.s },
         some .panicked))
    (hgo : (P.loopAny = true → e.w.anyReady = true) → gateGo P e i = true →
      e.w.resOf (P.child e.s i) ≠ .panic →
      Q (applyH { e with w := (gateW P e i).pollChild (P.child e.s i) i }
            (P.handle e.s i (e.w.resOf (P.child e.s i))),
         (P.handle e.s i (e.w.resOf (P.child e.s i))).exit)) :
    Q (visit P e i) := by
  unfold visit
  split
  · rename_i h
    simp only [Bool.and_eq_true, Bool.not_eq_true'] at h
    exact hany h.1 h.2
  · rename_i h
    have hA : P.loopAny = true → e.w.anyReady = true := by
      intro hl
      cases ha : e.w.anyReady
      · simp [hl, ha] at h
      · rfl
    split
    · rename_i hg
      simp only [Bool.not_eq_true'] at hg
      exact hskip hA hg
    · rename_i hg
      simp only [Bool.not_eq_true', Bool.not_eq_false] at hg
      split
      · rename_i hp; exact hpanic hA hg hp
      · rename_i hp; exact hgo hA hg hp

/-- loop invariant principle: `Qc` holds while the loop continues, `Qx` when it is left -/
theorem scan_ind (P : Policy σ) (Qc Qx : Eng σ → Prop)
    (hv : ∀ e i, Qc e →
      ((visit P e i).2 = none → Qc (visit P e i).1) ∧
      (∀ o, (visit P e i).2 = some o → Qx (visit P e i).1)) :
    ∀ (l : List Nat) (e : Eng σ), Qc e →
      ((scan P l e).2 = none → Qc (scan P l e).1) ∧
      (∀ o, (scan P l e).2 = some o → Qx (scan P l e).1) := by
  intro l
  induction l with
  | nil => intro e h; exact ⟨fun _ => h, fun o ho => by simp [scan] at ho⟩
  | cons i rest ih =>
    intro e h
    unfold scan
    cases hvis : (visit P e i).2 with
    | some o =>
      simp only
      refine ⟨fun hn => by simp at hn, fun o' _ => (hv e i h).2 o hvis⟩
    | none =>
      simp only
      exact ih _ ((hv e i h).1 hvis)

end Eng
end Fc
