/-
  FcLemmas/LiveNAny.lean — liveness of a one-level NEST under the wake-only executor with an
  ARBITRARY environment schedule (Fc/ExecNAny.lean): the induction on the round budget, stated once
  for an abstract run invariant, an abstract measure and an abstract goal (cf. FcLemmas/LiveAny.lean
  for the flat families).

  `ProgN nc Inv m Goal` collects what the induction needs; nothing in it mentions
  `ExecN.firstWaiting` except `waiting` (some child is waiting after a `Pending` poll — used only to
  show that the fallback of `ExecNAny.choose` finds somebody): the facts about the prodded child
  (`prod`) are stated for ANY id with `LiveN.Waiting nc s id`, and `fire` / `mfire` for EVERY
  `(id, age)` — plain children, nested children's own wakers, leaves, leaves of released inner
  instances, ids that name nothing.  The observations the run lemma needs across further wake-ups
  (`lastOut`, `lastRes`, scripts unchanged at both levels; owed wake-ups and "woken" monotone) are
  facts about `Nest.fire` alone (`fire_shape`): no side condition on the busy lists is needed.
-/
import FcLemmas.LiveNSRun
import FcLemmas.LiveAny
import Fc.ExecNAny
set_option linter.unusedSimpArgs false
set_option linter.unusedVariables false

namespace Fc
namespace LiveNAny
open Mon Live Live3 Nest LiveN

/-! ### what one wake-up `Nest.fire nc s id a` changes -/

/-- the outer instance sees a list of wake-ups (one, for `id < 100`; the inner instance's forwarded
    ones, for a leaf id); every inner instance is unchanged or sees one wake-up -/
theorem fire_shape (nc : NCase) (s : St) (id a : Nat) :
    ∃ fs, (fire nc s id a).out.w = s.out.w.fires fs ∧
      ∀ c, (fire nc s id a).inn c = s.inn c ∨
        (fire nc s id a).inn c = (s.inn c).fire (id % 100) a := by
  by_cases hid : id < 100
  · rw [fire_lt nc s id a hid]
    exact ⟨[(id, a)], rfl, fun c => Or.inl rfl⟩
  · obtain ⟨fs, hfs⟩ := fire_ge nc s id a hid
    rw [hfs]
    refine ⟨fs, rfl, fun c => ?_⟩
    rw [leafSt_inn]
    split
    · rename_i h; rw [h]; exact Or.inr rfl
    · exact Or.inl rfl

theorem fire_lastOut (nc : NCase) (s : St) (id a : Nat) :
    lastOut (fire nc s id a).out.w.trace = lastOut s.out.w.trace := by
  obtain ⟨fs, h, _⟩ := fire_shape nc s id a
  rw [h, lastOut_wfires]

theorem fire_lastRes (nc : NCase) (s : St) (id a j : Nat) :
    lastRes (fire nc s id a).out.w.trace j = lastRes s.out.w.trace j := by
  obtain ⟨fs, h, _⟩ := fire_shape nc s id a
  rw [h, C16.lastRes_fires]

theorem fire_scripts (nc : NCase) (s : St) (id a : Nat) :
    (fire nc s id a).out.w.scripts = s.out.w.scripts := by
  obtain ⟨fs, h, _⟩ := fire_shape nc s id a
  rw [h, World.fires_scripts]

theorem fire_owes_mono (nc : NCase) (s : St) (id a j : Nat) (ho : owes s.out.w.trace j = true) :
    owes (fire nc s id a).out.w.trace j = true := by
  obtain ⟨fs, h, _⟩ := fire_shape nc s id a
  obtain ⟨l, hl, hp⟩ := World.fires_seg s.out.w fs
  rw [h, hl]
  exact Live.owes_fires_mono j l _ hp ho

theorem fire_wokeSince_mono (nc : NCase) (s : St) (id a : Nat)
    (hw : wokeSince s.out.w.trace = true) : wokeSince (fire nc s id a).out.w.trace = true := by
  obtain ⟨fs, h, _⟩ := fire_shape nc s id a
  obtain ⟨l, hl, hp⟩ := World.fires_seg s.out.w fs
  rw [h, hl]
  exact LiveAny.wokeSince_fireSeg_mono l _ hp hw

theorem fire_inn_lastRes (nc : NCase) (s : St) (id a c g : Nat) :
    lastRes ((fire nc s id a).inn c).w.trace g = lastRes (s.inn c).w.trace g := by
  obtain ⟨_, _, h⟩ := fire_shape nc s id a
  rcases h c with h | h <;> rw [h]
  simp only [Eng.fire_w, C16.lastRes_fire]

theorem fire_inn_scripts (nc : NCase) (s : St) (id a c : Nat) :
    ((fire nc s id a).inn c).w.scripts = (s.inn c).w.scripts := by
  obtain ⟨_, _, h⟩ := fire_shape nc s id a
  rcases h c with h | h <;> rw [h]
  simp only [Eng.fire_w, World.fire_scripts]

theorem fire_inn_owes_mono (nc : NCase) (s : St) (id a c g : Nat)
    (ho : owes (s.inn c).w.trace g = true) : owes ((fire nc s id a).inn c).w.trace g = true := by
  obtain ⟨_, _, h⟩ := fire_shape nc s id a
  rcases h c with h | h <;> rw [h]
  · exact ho
  · obtain ⟨l, hl, hp⟩ := World.fire_seg (s.inn c).w (id % 100) a
    simp only [Eng.fire_w, hl]
    exact Live.owes_fires_mono g l _ hp ho

/-- a waiting child stays waiting across any wake-up -/
theorem fire_waiting (nc : NCase) (s : St) (id a : Nat) {x : Nat} (hw : Waiting nc s x) :
    Waiting nc (fire nc s id a) x := by
  rcases hw with ⟨h1, h2, h3, h4, h5⟩ | ⟨c, fam, k, g, h1, h2, h3, h4, h5, h6, h7, h8, h9⟩
  · exact Or.inl ⟨h1, h2, h3, by rw [fire_lastRes]; exact h4, by rw [fire_scripts]; exact h5⟩
  · exact Or.inr ⟨c, fam, k, g, h1, h2, h3, h4, h5, h6, by rw [fire_lastRes]; exact h7,
      by rw [fire_inn_lastRes]; exact h8, by rw [fire_inn_scripts]; exact h9⟩

/-- an owed wake-up stays owed across any wake-up -/
theorem fire_owed (nc : NCase) (s : St) (id a : Nat) (ho : Owed nc s) : Owed nc (fire nc s id a) := by
  rcases ho with ⟨c, h1, h2, h3, h4⟩ | ⟨c, fam, k, g, h1, h2, h3, h4, h5, h6, h7⟩
  · exact Or.inl ⟨c, h1, h2, by rw [fire_lastRes]; exact h3, fire_owes_mono nc s id a c h4⟩
  · exact Or.inr ⟨c, fam, k, g, h1, h2, h3, by rw [fire_lastRes]; exact h4,
      by rw [fire_inn_lastRes]; exact h5, fire_inn_owes_mono nc s id a c g h6,
      by rw [fire_inn_scripts]; exact h7⟩

/-! ### a list of wake-ups -/

theorem fires_lastOut (nc : NCase) : ∀ (l : List (Nat × Nat)) (s : St),
    lastOut (ExecNAny.fires nc s l).out.w.trace = lastOut s.out.w.trace := by
  intro l
  induction l with
  | nil => intro s; rfl
  | cons p l ih => intro s; simp only [ExecNAny.fires]; rw [ih, fire_lastOut]

theorem fires_waiting (nc : NCase) {x : Nat} : ∀ (l : List (Nat × Nat)) (s : St),
    Waiting nc s x → Waiting nc (ExecNAny.fires nc s l) x := by
  intro l
  induction l with
  | nil => intro s h; exact h
  | cons p l ih => intro s h; exact ih _ (fire_waiting nc s p.1 p.2 h)

theorem fires_owed (nc : NCase) : ∀ (l : List (Nat × Nat)) (s : St),
    Owed nc s → Owed nc (ExecNAny.fires nc s l) := by
  intro l
  induction l with
  | nil => intro s h; exact h
  | cons p l ih => intro s h; exact ih _ (fire_owed nc s p.1 p.2 h)

theorem fires_wokeSince_mono (nc : NCase) : ∀ (l : List (Nat × Nat)) (s : St),
    wokeSince s.out.w.trace = true → wokeSince (ExecNAny.fires nc s l).out.w.trace = true := by
  intro l
  induction l with
  | nil => intro s h; exact h
  | cons p l ih => intro s h; exact ih _ (fire_wokeSince_mono nc s p.1 p.2 h)

/-! ### the abstract run invariant -/

/-- what the induction needs from a run invariant `Inv` of the nest, with measure `m` -/
structure ProgN (nc : NCase) (Inv : St → Prop) (m : St → Nat) (Goal : Option Outcome → Prop) :
    Prop where
  lo : ∀ s, Inv s → lastOut s.out.w.trace = none ∨ lastOut s.out.w.trace = some .pending ∨
    ∃ k vs, lastOut s.out.w.trace = some (.some k vs)
  poll : ∀ s wid, Inv s →
    Goal (lastOut (Nest.poll nc s wid).out.w.trace) ∨
    (Inv (Nest.poll nc s wid) ∧ m (Nest.poll nc s wid) ≤ m s ∧
      ((lastOut (Nest.poll nc s wid).out.w.trace ≠ some .pending ∧ m (Nest.poll nc s wid) < m s) ∨
       (lastOut (Nest.poll nc s wid).out.w.trace = some .pending ∧
        (m (Nest.poll nc s wid) < m s ∨ wokeSince (Nest.poll nc s wid).out.w.trace = false) ∧
        (Owed nc s → m (Nest.poll nc s wid) < m s))))
  fire : ∀ s id a, Inv s → Inv (Nest.fire nc s id a)
  mfire : ∀ s id a, m (Nest.fire nc s id a) = m s
  waiting : ∀ s, Inv s → lastOut s.out.w.trace = some .pending →
    ∃ id, ExecN.firstWaiting nc s = some id ∧ Waiting nc s id
  mpos : ∀ s id, Waiting nc s id → 1 ≤ m s
  prod : ∀ s id, Inv s → lastOut s.out.w.trace = some .pending → Waiting nc s id →
    wokeSince (Nest.fire nc s id 0).out.w.trace = true ∧ Owed nc (Nest.fire nc s id 0)

variable {nc : NCase} {Inv : St → Prop} {m : St → Nat} {Goal : Option Outcome → Prop}

theorem fires_inv (G : ProgN nc Inv m Goal) : ∀ (l : List (Nat × Nat)) (s : St),
    Inv s → Inv (ExecNAny.fires nc s l) := by
  intro l
  induction l with
  | nil => intro s h; exact h
  | cons p l ih => intro s h; exact ih _ (G.fire s p.1 p.2 h)

theorem fires_m (G : ProgN nc Inv m Goal) : ∀ (l : List (Nat × Nat)) (s : St),
    m (ExecNAny.fires nc s l) = m s := by
  intro l
  induction l with
  | nil => intro s; rfl
  | cons p l ih => intro s; simp only [ExecNAny.fires]; rw [ih, G.mfire]

/-! ### the choice of the child to prod -/

/-- an id that passes `ExecNAny.isWaiting` is one of the ids `ExecN.firstWaiting` chooses from -/
theorem mem_of_isWaiting {s : St} {id : Nat} (h : ExecNAny.isWaiting nc s id = true) :
    id ∈ (List.range nc.n).flatMap (ExecN.waitingIn nc s) := by
  unfold ExecNAny.isWaiting at h
  split at h
  · simp only [Bool.and_eq_true, decide_eq_true_eq] at h
    obtain ⟨hc, hw⟩ := h
    have hin : nc.inner id = none := by
      simp only [ExecN.waitingPlain, Bool.and_eq_true, Option.isNone_iff_eq_none] at hw
      exact hw.1.1
    exact List.mem_flatMap.mpr ⟨id, List.mem_range.mpr hc, by simp [ExecN.waitingIn, hin, hw]⟩
  · rename_i hid
    simp only [Bool.and_eq_true, decide_eq_true_eq] at h
    obtain ⟨hc, hm⟩ := h
    cases hin : nc.inner (id / 100 - 1) with
    | none => rw [hin] at hm; exact Bool.noConfusion hm
    | some fk =>
      obtain ⟨fam, k⟩ := fk
      rw [hin] at hm
      simp only [Bool.and_eq_true, decide_eq_true_eq] at hm
      refine List.mem_flatMap.mpr ⟨id / 100 - 1, List.mem_range.mpr hc, ?_⟩
      simp only [ExecN.waitingIn, hin, List.mem_map, List.mem_filter, List.mem_range]
      refine ⟨id % 100, ⟨hm.1, hm.2⟩, ?_⟩
      unfold leafId; omega

/-- … and conversely, when global ids decode (`ExecN.wellFormed`) -/
theorem isWaiting_of_mem (hwf : ExecN.wellFormed nc = true) {s : St} {id : Nat}
    (h : id ∈ (List.range nc.n).flatMap (ExecN.waitingIn nc s)) :
    ExecNAny.isWaiting nc s id = true := by
  obtain ⟨c, hc, hid⟩ := List.mem_flatMap.mp h
  have hc := List.mem_range.mp hc
  have hn := wf_n hwf
  unfold ExecN.waitingIn at hid
  cases hin : nc.inner c with
  | none =>
    simp only [hin] at hid
    by_cases hw : ExecN.waitingPlain nc s c = true
    · simp only [hw, if_true, List.mem_singleton] at hid
      subst hid
      unfold ExecNAny.isWaiting
      rw [if_pos (by omega)]
      simp [hc, hw]
    · simp [hw] at hid
  | some fk =>
    obtain ⟨fam, k⟩ := fk
    simp only [hin, List.mem_map, List.mem_filter, List.mem_range] at hid
    obtain ⟨g, ⟨hg, hw⟩, rfl⟩ := hid
    have hk := wf_k hwf hc hin
    obtain ⟨d1, d2, d3⟩ := leafId_decode c g (by omega)
    unfold ExecNAny.isWaiting
    rw [if_neg d1, d2, d3, hin]
    simp [hc, hg, hw]

/-- whatever the schedule says, the id that is prodded names a waiting child -/
theorem choose_spec (hwf : ExecN.wellFormed nc = true) {pick : Nat → St → Nat} {r : Nat} {s : St}
    {id : Nat} (h : ExecNAny.choose nc pick r s = some id) : Waiting nc s id := by
  unfold ExecNAny.choose at h
  split at h
  · rename_i hp
    cases h
    exact waiting_of_mem hwf (mem_of_isWaiting hp)
  · unfold ExecN.firstWaiting at h
    exact waiting_of_mem hwf (List.mem_of_mem_head? h)

/-- after a `Pending` poll some child is waiting, and the schedule prods a waiting child -/
theorem choose_some (G : ProgN nc Inv m Goal) (hwf : ExecN.wellFormed nc = true)
    (pick : Nat → St → Nat) (r : Nat) (s : St) (h : Inv s)
    (hlo : lastOut s.out.w.trace = some .pending) :
    ∃ id, ExecNAny.choose nc pick r s = some id ∧ Waiting nc s id := by
  obtain ⟨id0, hfw, _⟩ := G.waiting s h hlo
  have : ∃ id, ExecNAny.choose nc pick r s = some id := by
    unfold ExecNAny.choose
    split
    · exact ⟨_, rfl⟩
    · exact ⟨id0, hfw⟩
  obtain ⟨id, hid⟩ := this
  exact ⟨id, hid, choose_spec hwf hid⟩

/-! ### executor rounds -/

variable {pick : Nat → St → Nat} {pre post : Nat → St → List (Nat × Nat)}

/-- the three phases of a run that has not finished (cf. `LiveN.CondN`, `LiveN.CondS`) -/
def CondG (nc : NCase) (m : St → Nat) (s : St) (N : Nat) : Prop :=
  (Exec.shouldPoll s.out.w.trace = true ∧ 3 * m s + 1 ≤ N) ∨
  (Exec.shouldPoll s.out.w.trace = false ∧ 3 * m s ≤ N) ∨
  (Exec.shouldPoll s.out.w.trace = true ∧ Owed nc s ∧ 1 ≤ m s ∧ 3 * m s ≤ N + 1)

theorem round_poll (G : ProgN nc Inv m Goal) (r : Nat) (s : St) (h : Inv s)
    (hsp : Exec.shouldPoll s.out.w.trace = true) :
    ExecNAny.roundB nc pick pre post r s
      = some (poll nc s (Exec.pollCount s.out.w.trace + 1)) := by
  unfold ExecNAny.roundB; rw [finalOut_lo3 (G.lo s h), hsp]; simp

theorem round_fire (G : ProgN nc Inv m Goal) (r : Nat) (s : St) (h : Inv s)
    (hsp : Exec.shouldPoll s.out.w.trace = false) (id : Nat)
    (hch : ExecNAny.choose nc pick r s = some id) :
    ExecNAny.roundB nc pick pre post r s
      = some (ExecNAny.fires nc (fire nc (ExecNAny.fires nc s (pre r s)) id 0) (post r s)) := by
  unfold ExecNAny.roundB; rw [finalOut_lo3 (G.lo s h), hsp, hch]; simp

theorem poll_round (G : ProgN nc Inv m Goal) {N : Nat}
    (ih : ∀ r s, Inv s → CondG nc m s N →
      ∃ k, k ≤ N ∧ Goal (lastOut (ExecNAny.runForB nc pick pre post k r s).out.w.trace))
    (r : Nat) (s : St) (h : Inv s) (hsp : Exec.shouldPoll s.out.w.trace = true)
    (hE : (Owed nc s ∧ 3 * m s ≤ N + 2) ∨ 3 * m s ≤ N) :
    ∃ k, k ≤ N + 1 ∧ Goal (lastOut (ExecNAny.runForB nc pick pre post k r s).out.w.trace) := by
  have hr := round_poll (pick := pick) (pre := pre) (post := post) G r s h hsp
  rcases G.poll s (Exec.pollCount s.out.w.trace + 1) h with hv | ⟨h', hle, hcase⟩
  · exact ⟨1, by omega, by simp only [ExecNAny.runForB, hr]; exact hv⟩
  · have hcond : CondG nc m (poll nc s (Exec.pollCount s.out.w.trace + 1)) N := by
      rcases hcase with ⟨hnp, hlt⟩ | ⟨hlo', hD, hEE⟩
      · left
        refine ⟨shouldPoll_not_pending (G.lo _ h') hnp, ?_⟩
        rcases hE with ⟨_, hb⟩ | hb <;> omega
      · have hsp' := shouldPoll_pending hlo'
        cases hw : wokeSince (poll nc s (Exec.pollCount s.out.w.trace + 1)).out.w.trace with
        | true =>
          left
          refine ⟨by rw [hsp', hw], ?_⟩
          rcases hE with ⟨ho, hb⟩ | hb
          · have := hEE ho; omega
          · rcases hD with hD | hD
            · omega
            · rw [hw] at hD; exact Bool.noConfusion hD
        | false =>
          right; left
          refine ⟨by rw [hsp', hw], ?_⟩
          rcases hE with ⟨ho, hb⟩ | hb
          · have := hEE ho; omega
          · omega
    obtain ⟨k, hk, hv⟩ := ih (r + 1) _ h' hcond
    exact ⟨k + 1, by omega, by simp only [ExecNAny.runForB, hr]; exact hv⟩

/-- the induction on the number of rounds allowed; `r` = current round number -/
theorem ends_aux (G : ProgN nc Inv m Goal) (hwf : ExecN.wellFormed nc = true) :
    ∀ (N r : Nat) (s : St), Inv s → CondG nc m s N →
    ∃ k, k ≤ N ∧ Goal (lastOut (ExecNAny.runForB nc pick pre post k r s).out.w.trace) := by
  intro N
  induction N with
  | zero =>
    intro r s h hc
    rcases hc with ⟨_, h1⟩ | ⟨hsp, h1⟩ | ⟨_, _, h1, h2⟩
    · omega
    · obtain ⟨hlo, _⟩ := shouldPoll_false_pending3 (G.lo s h) hsp
      obtain ⟨id, _, hw⟩ := G.waiting s h hlo
      have := G.mpos s id hw
      omega
    · omega
  | succ N ih =>
    intro r s h hc
    rcases hc with ⟨hsp, h1⟩ | ⟨hsp, h1⟩ | ⟨hsp, hwit, h1, h2⟩
    · exact poll_round G ih r s h hsp (Or.inr (by omega))
    · obtain ⟨hlo, _⟩ := shouldPoll_false_pending3 (G.lo s h) hsp
      obtain ⟨id, hch, hw⟩ := choose_some G hwf pick r s h hlo
      have hr := round_fire (pre := pre) (post := post) G r s h hsp id hch
      have hpos := G.mpos s id hw
      -- the wake-ups before the prod
      have h1' : Inv (ExecNAny.fires nc s (pre r s)) := fires_inv G _ s h
      have hlo1 : lastOut (ExecNAny.fires nc s (pre r s)).out.w.trace = some .pending := by
        rw [fires_lastOut]; exact hlo
      have hw1 : Waiting nc (ExecNAny.fires nc s (pre r s)) id := fires_waiting nc _ s hw
      -- the prod
      obtain ⟨hwk, howed⟩ := G.prod _ id h1' hlo1 hw1
      have h2' : Inv (fire nc (ExecNAny.fires nc s (pre r s)) id 0) := G.fire _ id 0 h1'
      -- the wake-ups after the prod
      have h' := fires_inv G (post r s) _ h2'
      have howed' := fires_owed nc (post r s) _ howed
      have hwk' := fires_wokeSince_mono nc (post r s) _ hwk
      have hlo' : lastOut (ExecNAny.fires nc (fire nc (ExecNAny.fires nc s (pre r s)) id 0)
          (post r s)).out.w.trace = some .pending := by
        rw [fires_lastOut, fire_lastOut]; exact hlo1
      have hm : m (ExecNAny.fires nc (fire nc (ExecNAny.fires nc s (pre r s)) id 0) (post r s))
          = m s := by
        rw [fires_m G, G.mfire, fires_m G]
      have hcond : CondG nc m
          (ExecNAny.fires nc (fire nc (ExecNAny.fires nc s (pre r s)) id 0) (post r s)) N := by
        right; right
        refine ⟨by rw [shouldPoll_pending hlo', hwk'], howed', ?_, ?_⟩
        · rw [hm]; exact hpos
        · rw [hm]; omega
      obtain ⟨k, hk, hv⟩ := ih (r + 1) _ h' hcond
      exact ⟨k + 1, by omega, by simp only [ExecNAny.runForB, hr]; exact hv⟩
    · exact poll_round G ih r s h hsp (Or.inl ⟨hwit, by omega⟩)

/-- every run from a state satisfying the invariant — whatever the schedule and the extra wake-ups —
    reaches the goal within `3 * m + 1` rounds -/
theorem endsB_of_prog (G : ProgN nc Inv m Goal) (hwf : ExecN.wellFormed nc = true)
    (pick : Nat → St → Nat) (pre post : Nat → St → List (Nat × Nat)) (r : Nat) (s : St)
    (h : Inv s) (hsp : Exec.shouldPoll s.out.w.trace = true) :
    ∃ k, k ≤ 3 * m s + 1 ∧
      Goal (lastOut (ExecNAny.runForB nc pick pre post k r s).out.w.trace) :=
  ends_aux G hwf _ r s h (Or.inl ⟨hsp, Nat.le_refl _⟩)

/-! ### the plain executor is the busy one without extra wake-ups -/

theorem round_eq_roundB (nc : NCase) (pick : Nat → St → Nat) (r : Nat) (s : St) :
    ExecNAny.round nc pick r s = ExecNAny.roundB nc pick (fun _ _ => []) (fun _ _ => []) r s := by
  unfold ExecNAny.round ExecNAny.roundB
  rfl

theorem runFor_eq_runForB (nc : NCase) (pick : Nat → St → Nat) : ∀ (k r : Nat) (s : St),
    ExecNAny.runFor nc pick k r s
      = ExecNAny.runForB nc pick (fun _ _ => []) (fun _ _ => []) k r s := by
  intro k
  induction k with
  | zero => intro r s; rfl
  | succ k ih =>
    intro r s
    simp only [ExecNAny.runFor, ExecNAny.runForB, round_eq_roundB]
    cases ExecNAny.roundB nc pick (fun _ _ => []) (fun _ _ => []) r s with
    | none => rfl
    | some s' => exact ih (r + 1) s'

/-! ### with the schedule "first waiting child" it is the executor of Fc/ExecN.lean -/

/-- the schedule of Fc/ExecN.lean: the first waiting child; if none is waiting, an id that names
    nothing (slot `nc.n` does not exist) -/
def firstPick (nc : NCase) : Nat → St → Nat :=
  fun _ s => (ExecN.firstWaiting nc s).getD (100 * (nc.n + 1))

theorem isWaiting_nobody (nc : NCase) (s : St) :
    ExecNAny.isWaiting nc s (100 * (nc.n + 1)) = false := by
  unfold ExecNAny.isWaiting
  rw [if_neg (by omega)]
  have : 100 * (nc.n + 1) / 100 - 1 = nc.n := by omega
  rw [this]
  simp

theorem choose_firstPick (nc : NCase) (r : Nat) (s : St) :
    ExecNAny.choose nc (firstPick nc) r s = ExecN.firstWaiting nc s := by
  unfold ExecNAny.choose
  split
  · rename_i hp
    cases hfw : ExecN.firstWaiting nc s with
    | none =>
      simp only [firstPick, hfw, Option.getD_none] at hp
      rw [isWaiting_nobody] at hp
      exact Bool.noConfusion hp
    | some id => simp [firstPick, hfw]
  · rfl

theorem round_firstPick (nc : NCase) (r : Nat) (s : St) :
    ExecNAny.round nc (firstPick nc) r s = ExecN.round nc s := by
  unfold ExecNAny.round ExecN.round
  rw [choose_firstPick]
  rfl

theorem runFor_firstPick (nc : NCase) : ∀ (k r : Nat) (s : St),
    ExecNAny.runFor nc (firstPick nc) k r s = ExecN.runFor nc k s := by
  intro k
  induction k with
  | zero => intro r s; rfl
  | succ k ih =>
    intro r s
    simp only [ExecNAny.runFor, ExecN.runFor, round_firstPick]
    cases ExecN.round nc s with
    | none => rfl
    | some s' => exact ih (r + 1) s'

end LiveNAny
end Fc
