/-
  FcLemmas/LiveGStuckMain.lean — FutureGroup / StreamGroup with never-completing members under the
  wake-only executor, every schedule, busy environment: the weakened run invariant transported along
  the script restriction of FcLemmas/LiveGRestr.lean (only the scripts of the inserted ids are
  constrained), the hand-over from the building phase, and the result: within `3 * stepsLeft + 1`
  rounds the run is drained or at rest, and in both cases every well-behaved member has been released
  and everything it ever answers has been yielded (`group_delivers_busy`).
-/
import FcLemmas.LiveGStuckInit
set_option linter.unusedSimpArgs false
set_option linter.unusedVariables false

namespace Fc
namespace LiveGStuck
open Mon Live Live3 G Grp C01 LiveG LiveGAny

/-! ### every inserted id has a key -/

theorem extend_fold_keyOf_other : ∀ (cs : List Nat) (e : Eng Grp) (x : Nat), x ∉ cs →
    keyOf (cs.foldl (fun e c => GEng.insertAt (GEng.grow e) c false) e).w.trace x
      = keyOf e.w.trace x := by
  intro cs
  induction cs with
  | nil => intro e x _; rfl
  | cons c cs ih =>
    intro e x hx
    simp only [List.mem_cons, not_or] at hx
    simp only [List.foldl_cons]
    rw [ih _ x hx.2, keyOf_insertAt _ _ _ _ hx.1]

theorem keyOf_insertAt_self (e : Eng Grp) (c : Nat) (b : Bool) :
    keyOf (GEng.insertAt (GEng.grow e) c b).w.trace c ≠ none := by
  rw [insertAt_w]
  simp [keyOf]

theorem extend_fold_keyOf_new : ∀ (cs : List Nat) (e : Eng Grp), cs.Nodup → ∀ c ∈ cs,
    keyOf (cs.foldl (fun e c => GEng.insertAt (GEng.grow e) c false) e).w.trace c ≠ none := by
  intro cs
  induction cs with
  | nil => intro e _ c hc; cases hc
  | cons d cs ih =>
    intro e hnd c hc
    have hnd' := List.nodup_cons.mp hnd
    simp only [List.foldl_cons]
    rcases List.mem_cons.mp hc with rfl | hc
    · rw [extend_fold_keyOf_other cs _ c hnd'.1]
      exact keyOf_insertAt_self e c false
    · exact ih _ hnd'.2 c hc

variable {stream keyed : Bool} {m : Mode} {n : Nat} {sc : Nat → List Step}

theorem step_keyOf_new (e : Eng Grp) (op : Op) (hd : e.s.dead = false)
    (hnd : (insertedIds op).Nodup) :
    ∀ c ∈ insertedIds op, keyOf (GEng.step e op).w.trace c ≠ none := by
  intro c hc
  cases op with
  | insert d =>
    simp only [insertedIds, List.mem_singleton] at hc
    subst hc
    simp only [GEng.step, hd, Bool.false_eq_true, if_false, GEng.insert]
    exact keyOf_insertAt_self e c true
  | extend cs =>
    simp only [GEng.step, hd, Bool.false_eq_true, if_false, GEng.extend]
    exact extend_fold_keyOf_new cs _ (by simpa [insertedIds] using hnd) c
      (by simpa [insertedIds] using hc)
  | _ => simp [insertedIds] at hc

/-- the building phase: the invariant, and exactly the inserted ids have a key -/
theorem b0s_run' : ∀ (ops : List Op) (e : Eng Grp), B0S stream keyed m n sc e →
    (∀ op ∈ ops, op.isInsertLike = true) → (ops.flatMap insertedIds).Nodup →
    (∀ c ∈ ops.flatMap insertedIds, c < n ∧ okScript stream (sc c) = true ∧
      keyOf e.w.trace c = none) →
    B0S stream keyed m n sc (ops.foldl GEng.step e) ∧
    (∀ x, x ∉ ops.flatMap insertedIds → keyOf (ops.foldl GEng.step e).w.trace x = keyOf e.w.trace x) ∧
    (∀ c ∈ ops.flatMap insertedIds, keyOf (ops.foldl GEng.step e).w.trace c ≠ none) := by
  intro ops
  induction ops with
  | nil => intro e h _ _ _; exact ⟨h, fun _ _ => rfl, fun c hc => by cases hc⟩
  | cons op ops ih =>
    intro e h hop hnd hf
    simp only [List.foldl_cons]
    simp only [List.flatMap_cons] at hnd hf ⊢
    rw [List.nodup_append] at hnd
    obtain ⟨hn1, hn2, hdis⟩ := hnd
    have hs := b0s_step e op h (hop op (List.mem_cons_self ..)) hn1
      (fun c hc => hf c (List.mem_append_left _ hc))
    obtain ⟨g1, g2, g3⟩ := ih _ hs.1 (fun op' hop' => hop op' (List.mem_cons_of_mem _ hop')) hn2
      (fun c hc => by
        obtain ⟨q1, q2, q3⟩ := hf c (List.mem_append_right _ hc)
        refine ⟨q1, q2, ?_⟩
        rw [hs.2 c (fun hh => hdis c hh c hc rfl)]
        exact q3)
    refine ⟨g1, ?_, ?_⟩
    · intro x hx
      simp only [List.mem_append, not_or] at hx
      rw [g2 x hx.2, hs.2 x hx.1]
    · intro c hc
      rcases List.mem_append.mp hc with hc | hc
      · have hcn : c ∉ ops.flatMap insertedIds := fun hh => hdis c hc c hh rfl
        rw [g2 c hcn]
        exact step_keyOf_new e op h.dead hn1 c hc
      · exact g3 c hc

/-! ### the invariants along the script restriction -/

structure LRWS (stream keyed : Bool) (m : Mode) (n : Nat) (ids : List Nat) (sc0 : Nat → List Step)
    (e : Eng Grp) : Prop where
  w : LGWS stream keyed m n sc0 (rE ids e)
  mem : ∀ k c, e.s.member k = some c → c ∈ ids
  kin : ∀ c, keyOf e.w.trace c ≠ none ↔ c ∈ ids

structure LRAS (stream keyed : Bool) (m : Mode) (n : Nat) (ids : List Nat) (sc0 : Nat → List Step)
    (e : Eng Grp) : Prop where
  r : LRWS stream keyed m n ids sc0 e
  a : LGAS stream keyed m n sc0 (rE ids e)

variable {ids : List Nat} {sc0 : Nat → List Step}

theorem lrws_memIn (e : Eng Grp) (h : LRWS stream keyed m n ids sc0 e) : MemIn ids e.s := by
  intro j hj
  obtain ⟨c, hc⟩ := member_of_elig (lgws_cb _ h.w).slab j hj
  exact ⟨c, h.mem j c hc, hc⟩

theorem lrws_members (e : Eng Grp) (h : LRWS stream keyed m n ids sc0 e) (c : Nat)
    (hc : c ∈ ExecGAny.members e) : c ∈ ids := by
  obtain ⟨k, hk⟩ := members_mem e c hc
  exact h.mem k c hk

theorem lrws_poll (e : Eng Grp) (wid : Nat) (h : LRWS stream keyed m n ids sc0 e)
    (hw : LGWS stream keyed m n sc0 (rE ids (Eng.poll group e wid))) :
    LRWS stream keyed m n ids sc0 (Eng.poll group e wid) := by
  obtain ⟨hM, _⟩ := poll_frame (ids := ids) e wid (lrws_memIn e h)
  refine ⟨hw, ?_, fun c => by rw [keyOf_poll]; exact h.kin c⟩
  intro k c hk
  have hst : (Eng.poll group e wid).s.st k = .pending :=
    ((lgws_cb _ hw).slab.stm k).mpr (by simp [hk])
  obtain ⟨c', hc', hk'⟩ := hM k hst
  rw [hk] at hk'
  cases hk'
  exact hc'

theorem lrws_fire (e : Eng Grp) (c a : Nat) (h : LRWS stream keyed m n ids sc0 e) :
    LRWS stream keyed m n ids sc0 (e.fire c a) :=
  ⟨by rw [← rE_fire]; exact lgws_fire _ c a h.w, h.mem,
    fun j => by simpa [keyOf_fire] using h.kin j⟩

/-- the instance of the abstract argument for arbitrary scripts of the foreign ids -/
theorem prog_lras : ProgGS (LRWS stream keyed m n ids sc0) (LRAS stream keyed m n ids sc0)
    (fun e => ∀ k, e.s.member k = none) (fun e => mu n (rE ids e)) (fun e => OwedS (rE ids e)) where
  weak := fun e h => h.r
  lo := fun e h => h.a.lo
  poll := by
    intro e wid h
    have hp := lgws_poll (rE ids e) wid h.w
    rw [rE_poll e wid (lrws_memIn e h)] at hp
    rcases hp with ⟨h1, h2, h4⟩ | ⟨h1, h2, h3⟩
    · exact Or.inl ⟨h1, lrws_poll e wid h h2, h4⟩
    · exact Or.inr ⟨⟨lrws_poll e wid h h1.w, h1⟩, h2, h3⟩
  fire := fun e c a h =>
    ⟨lrws_fire e c a h.r, by rw [← rE_fire]; exact lgas_fire _ c a h.a⟩
  mfire := fun e c a => by rw [← rE_fire]; exact mu_fire _ c a
  wfire := fun e c a h => by rw [← rE_fire]; exact owedS_fire _ c a h
  waiting := by
    intro e h hlo
    rcases waitingS (rE ids e) h.a hlo with ⟨c, hc, hw⟩ | hz
    · rw [members_rE] at hc
      exact Or.inl ⟨c, hc, by rw [← isWaiting_rE e c (lrws_members e h.r c hc)]; exact hw⟩
    · exact Or.inr hz
  woke := by
    intro e c h hlo hc hw
    have := (prog_lgas (stream := stream) (keyed := keyed) (m := m) (n := n) (sc0 := sc0)).woke
      (rE ids e) c h.a hlo
      (by rw [members_rE]; exact hc) (by rw [isWaiting_rE e c (lrws_members e h.r c hc)]; exact hw)
    rw [rE_fire] at this
    exact this

/-! ### what the end of a run says -/

theorem sum_map_zero (f : Nat → Nat) : ∀ (l : List Nat), (∀ c ∈ l, f c = 0) → (l.map f).sum = 0 := by
  intro l
  induction l with
  | nil => intro _; rfl
  | cons x xs ih =>
    intro h
    simp only [List.map_cons, List.sum_cons]
    rw [h x (List.mem_cons_self ..), ih (fun c hc => h c (List.mem_cons_of_mem _ hc))]

/-- the facts about delivery in a state in which no member has a scripted step left -/
theorem final_facts (scripts : Nat → List Step) (e : Eng Grp)
    (h : LRWS stream keyed m n ids (restrS ids scripts) e)
    (hz : ∀ k c, e.s.member k = some c → (rE ids e).w.scripts c = []) :
    ExecG.stepsLeft e = 0 ∧
    (∀ c ∈ ids, wbScript stream (scripts c) = true →
      gone e.w.trace c = true ∧ c ∉ ExecGAny.members e ∧
      (Exec.scriptVals (scripts c)).reverse.Sublist (yielded e.w.trace)) ∧
    (∀ c ∈ ids, wbScript stream (scripts c) = false →
      c ∈ ExecGAny.members e ∧ gone e.w.trace c = false) ∧
    (∀ c ∈ ExecGAny.members e, c ∈ ids ∧ wbScript stream (scripts c) = false) := by
  have hsc : ∀ c, c ∈ ids → restrS ids scripts c = scripts c := fun c hc => by simp [restrS, hc]
  refine ⟨?_, ?_, ?_, ?_⟩
  · rw [← stepsLeft_rE e h.mem]
    unfold ExecG.stepsLeft
    apply sum_map_zero
    intro c hc
    obtain ⟨k, hk⟩ := members_mem (rE ids e) c hc
    rw [hz k c hk]; rfl
  · intro c hc hwb
    obtain ⟨h1, h2, _, h4⟩ := delivered_of (rE ids e) h.w hz c ((h.kin c).mpr hc)
      (by rw [hsc c hc]; exact hwb)
    rw [hsc c hc] at h4
    refine ⟨h1, ?_, h4⟩
    intro hm
    obtain ⟨k, hk⟩ := members_mem e c hm
    exact h2 k hk
  · intro c hc hwb
    obtain ⟨k, hk, hg⟩ := stuck_member (rE ids e) h.w c ((h.kin c).mpr hc)
      (by rw [hsc c hc]; exact hwb)
    exact ⟨mem_membersS (rE ids e) h.w k c hk, hg⟩
  · intro c hc
    obtain ⟨k, hk⟩ := members_mem e c hc
    have hci := h.mem k c hk
    have := member_never (rE ids e) h.w hz k c hk
    rw [hsc c hci] at this
    exact ⟨hci, this⟩

/-! ### the result -/

/-- the state built by `pre` from the empty group satisfies the run invariant, is about to be polled,
    and the measure is the number of scripted steps of the members -/
theorem start_lras (stream keyed : Bool) (m : Mode) (scripts : Nat → List Step) (pre : List Op) (n : Nat)
    (hpre : ∀ op ∈ pre, op.isInsertLike = true)
    (hfresh : (pre.flatMap insertedIds).Nodup)
    (hs : ∀ c ∈ pre.flatMap insertedIds, okScript stream (scripts c) = true)
    (hn : ∀ c ∈ pre.flatMap insertedIds, c < n) :
    LRAS stream keyed m n (pre.flatMap insertedIds) (restrS (pre.flatMap insertedIds) scripts)
      (pre.foldl GEng.step (GEng.init stream keyed m scripts)) ∧
    lastOut (pre.foldl GEng.step (GEng.init stream keyed m scripts)).w.trace = none ∧
    mu n (rE (pre.flatMap insertedIds) (pre.foldl GEng.step (GEng.init stream keyed m scripts)))
      = ExecG.stepsLeft (pre.foldl GEng.step (GEng.init stream keyed m scripts)) := by
  let ids := pre.flatMap insertedIds
  let sc' := restrS ids scripts
  have hsc' : ∀ c, c ∈ ids → sc' c = scripts c := fun c hc => by simp [sc', restrS, hc]
  have hk' : ∀ c st, st ∈ sc' c → st.res.fits stream = true := by
    intro c st hst
    by_cases hc : c ∈ ids
    · rw [hsc' c hc] at hst
      exact ok_fits _ (hs c hc) st hst
    · simp [sc', restrS, hc] at hst
  obtain ⟨hb0, hko, hkn⟩ := b0s_run' pre _ (b0s_init stream keyed m n sc' hk') hpre hfresh
    (fun c hc => ⟨hn c hc, by rw [hsc' c hc]; exact hs c hc, rfl⟩)
  have heq : rE ids (pre.foldl GEng.step (GEng.init stream keyed m scripts))
      = pre.foldl GEng.step (GEng.init stream keyed m sc') := by
    rw [← rE_run pre _ hpre, rE_init]
  rw [← heq] at hb0 hko hkn
  have hlga := lgas_of_b0s _ hb0
  have hkin : ∀ c, keyOf (pre.foldl GEng.step (GEng.init stream keyed m scripts)).w.trace c ≠ none ↔
      c ∈ ids := by
    intro c
    constructor
    · intro hc
      by_cases hci : c ∈ ids
      · exact hci
      · have := hko c hci
        rw [show keyOf (rE ids (pre.foldl GEng.step (GEng.init stream keyed m scripts))).w.trace c
          = keyOf (pre.foldl GEng.step (GEng.init stream keyed m scripts)).w.trace c from rfl] at this
        rw [this] at hc
        exact absurd rfl hc
    · intro hc; exact hkn c hc
  have hmem : ∀ k c, (pre.foldl GEng.step (GEng.init stream keyed m scripts)).s.member k = some c →
      c ∈ ids := by
    intro k c hk
    have := (lgws_cb _ hlga.w).link.f1 k c hk
    exact (hkin c).mp (by
      rw [show keyOf (pre.foldl GEng.step (GEng.init stream keyed m scripts)).w.trace c = some k
        from this]; simp)
  refine ⟨⟨⟨hlga.w, hmem, hkin⟩, hlga⟩, (noev_obs _ hb0.noev).1, ?_⟩
  rw [← hb0.sl, stepsLeft_rE _ hmem]

/-- FutureGroup / StreamGroup, members well-behaved or never-completing, every schedule, every busy
    environment: within `3 * stepsLeft + 1` rounds the run is drained (then every member was
    well-behaved) or at rest (then some member never completes); in both cases no member has a step
    left, every well-behaved member was released, is no longer a member and everything its script
    holds was yielded in order; exactly the never-completing members are still members, each with
    latest answer `Pending` -/
theorem group_delivers_busy (stream keyed : Bool) (m : Mode) (scripts : Nat → List Step) (pre : List Op)
    (hpre : ∀ op ∈ pre, op.isInsertLike = true)
    (hfresh : (pre.flatMap insertedIds).Nodup)
    (hs : ∀ c ∈ pre.flatMap insertedIds, okScript stream (scripts c) = true)
    (pick : Nat → Eng Grp → Nat) (pre' post' : Nat → Eng Grp → List (Nat × Nat)) (r : Nat) :
    ∃ k, k ≤ 3 * ExecG.stepsLeft (pre.foldl GEng.step (GEng.init stream keyed m scripts)) + 1 ∧
      ∃ e, e = ExecGAny.runForB pick pre' post' k r
          (pre.foldl GEng.step (GEng.init stream keyed m scripts)) ∧
      (((∀ c ∈ pre.flatMap insertedIds, wbScript stream (scripts c) = true) ∧
          lastOut e.w.trace = some .none) ∨
        ((∃ c ∈ pre.flatMap insertedIds, wbScript stream (scripts c) = false) ∧
          ExecG.atRest e = true)) ∧
      ExecG.stepsLeft e = 0 ∧
      (∀ c ∈ pre.flatMap insertedIds, wbScript stream (scripts c) = true →
        gone e.w.trace c = true ∧ c ∉ ExecGAny.members e ∧
        (Exec.scriptVals (scripts c)).reverse.Sublist (yielded e.w.trace)) ∧
      (∀ c ∈ pre.flatMap insertedIds, wbScript stream (scripts c) = false →
        c ∈ ExecGAny.members e ∧ gone e.w.trace c = false ∧ lastRes e.w.trace c = some .pend) ∧
      (∀ c ∈ ExecGAny.members e,
        c ∈ pre.flatMap insertedIds ∧ wbScript stream (scripts c) = false) := by
  obtain ⟨hlra, hlo, hM⟩ := start_lras stream keyed m scripts pre ((pre.flatMap insertedIds).sum + 1)
    hpre hfresh hs (fun c hc => by have := le_sum_of_mem _ c hc; omega)
  have hsp : Exec.shouldPoll (pre.foldl GEng.step (GEng.init stream keyed m scripts)).w.trace = true := by
    unfold Exec.shouldPoll; rw [hlo]
  obtain ⟨k, hk, hv⟩ := endsB_of_progS prog_lras pick pre' post' r _ hlra hsp
  refine ⟨k, by simp only [hM] at hk; exact hk, _, rfl, ?_⟩
  generalize ExecGAny.runForB pick pre' post' k r
    (pre.foldl GEng.step (GEng.init stream keyed m scripts)) = e at hv
  rcases hv with ⟨hnone, hw, hD⟩ | ⟨ha, hpend, hwoke, hz⟩
  · -- drained
    have hzero : ∀ k c, e.s.member k = some c → (rE (pre.flatMap insertedIds) e).w.scripts c = [] := by
      intro k c hkc; rw [hD k] at hkc; cases hkc
    obtain ⟨f1, f2, f3, f4⟩ := final_facts scripts e hw hzero
    have hall : ∀ c ∈ pre.flatMap insertedIds, wbScript stream (scripts c) = true := by
      intro c hc
      cases hwb : wbScript stream (scripts c) with
      | true => rfl
      | false =>
        obtain ⟨hm, _⟩ := f3 c hc hwb
        obtain ⟨k', hk'⟩ := members_mem e c hm
        rw [hD k'] at hk'; cases hk'
    refine ⟨Or.inl ⟨hall, hnone⟩, f1, f2, ?_, f4⟩
    intro c hc hwb
    rw [hall c hc] at hwb; exact Bool.noConfusion hwb
  · -- at rest
    have hzero : ∀ k c, e.s.member k = some c → (rE (pre.flatMap insertedIds) e).w.scripts c = [] :=
      fun k c hkc => scripts_nil_of_mu (rE (pre.flatMap insertedIds) e) ha.r.w hz k c hkc
    obtain ⟨f1, f2, f3, f4⟩ := final_facts scripts e ha.r hzero
    have hrest : ExecG.atRest e = true := by
      have h1 : lastOut e.w.trace = some .pending := hpend
      have h2 : wokeSince e.w.trace = false := hwoke
      simp [ExecG.atRest, h1, h2, f1]
    obtain ⟨k0, c0, hk0⟩ := ha.a.ne hpend
    have hc0 : c0 ∈ ExecGAny.members e := mem_membersS (rE (pre.flatMap insertedIds) e) ha.r.w k0 c0 hk0
    refine ⟨Or.inr ⟨⟨c0, (f4 c0 hc0).1, (f4 c0 hc0).2⟩, hrest⟩, f1, f2, ?_, f4⟩
    intro c hc hwb
    obtain ⟨hm, hg⟩ := f3 c hc hwb
    obtain ⟨k', hk'⟩ := members_mem e c hm
    exact ⟨hm, hg, ha.a.pa hpend k' c hk'⟩

/-! ### the values a well-behaved script delivers -/

theorem ok_iff (stream : Bool) (l : List Step) :
    okScript stream l = (if stream then Exec.strOrNever l else Exec.futOrNever l) := by
  cases stream <;> rfl

theorem scriptVals_cons (s : Step) (rest : List Step) :
    Exec.scriptVals (s :: rest) = Exec.resVals s.res ++ Exec.scriptVals rest := by
  simp [Exec.scriptVals]

/-- a well-behaved future script delivers the value it resolves to -/
theorem scriptVals_future : ∀ (l : List Step), Exec.futureScript l = true →
    Exec.scriptVals l = [Live.finalVal l] := by
  intro l
  induction l with
  | nil => intro h; cases h
  | cons s rest ih =>
    intro h
    rw [scriptVals_cons]
    rcases fs_cons s rest h with ⟨h1, ok, v, h2⟩ | ⟨h1, h2, h3⟩
    · subst h1
      rw [finalVal_single s ok v h2, h2]; rfl
    · rw [finalVal_cons s rest h1, h2, ih h3]; rfl

/-- a well-behaved stream script delivers its items -/
theorem scriptVals_stream : ∀ (l : List Step), streamScript l = true →
    Exec.scriptVals l = Exec.scriptItems l := by
  intro l
  induction l with
  | nil => intro h; cases h
  | cons s rest ih =>
    intro h
    rw [scriptVals_cons]
    rcases ss_cons s rest h with ⟨h1, h2⟩ | ⟨h1, h2, h3⟩
    · subst h1
      simp [Exec.scriptItems, Exec.scriptVals, Exec.resVals, h2]
    · rw [ih h3]
      rcases h2 with h2 | ⟨v, h2⟩ <;> simp [Exec.scriptItems, Exec.resVals, h2]

end LiveGStuck
end Fc
