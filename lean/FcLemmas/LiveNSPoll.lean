/-
  FcLemmas/LiveNSPoll.lean — one top-level poll of a nest of stream combinators: `sbn_poll`
  (cf. FcLemmas/LiveNPoll.lean for futures).  The virtual outer instance gives a nested stream that
  has not ended the script `[step, None]` (`[step]` if `step` is the end).
-/
import FcLemmas.LiveNSInv
import FcLemmas.LiveNPoll
set_option linter.unusedSimpArgs false
set_option linter.unusedVariables false

namespace Fc
namespace LiveN
open Mon Live Live3 Nest

/-- virtual scripts at a top-level poll -/
def f0S (nc : NCase) (s : St) : Nat → List Step := fun c =>
  if (nc.inner c).isSome then
    (if lastRes s.out.w.trace c ≠ some .fin ∧ (stepE nc s c).res ≠ .fin then
      [stepE nc s c, ⟨.fin, []⟩] else [stepE nc s c])
  else s.out.w.scripts c

/-- the virtual outer instance -/
def vo0S (nc : NCase) (s : St) : Eng Fix := setScripts s.out (f0S nc s)

variable {nc : NCase} {F : SNest nc} {s : St}

theorem f0S_plain {c : Nat} (h : nc.inner c = none) : f0S nc s c = s.out.w.scripts c := by
  simp [f0S, h]

/-- every input of the virtual outer instance is a well-behaved stream -/
theorem str_f0S (h : SBN nc F s) (f : Nat → List Step)
    (hfp : ∀ c, nc.inner c = none → f c = s.out.w.scripts c)
    (hInv : F.InvO (setScripts s.out f)) :
    ∀ c, c < nc.n → Str (s.out.w.ss (f0S nc s)) c := by
  intro c hc
  have hold : Str (s.out.w.ss f) c := (F.so.wi (setScripts s.out f) hInv).str c hc
  cases hin : nc.inner c with
  | none =>
    have : f0S nc s c = f c := by rw [f0S_plain hin, hfp c hin]
    unfold Str at hold ⊢
    simp only [World.ss_scripts, World.ss_trace] at hold ⊢
    rw [this]; exact hold
  | some fk =>
    obtain ⟨fam, k⟩ := fk
    have hs : (nc.inner c).isSome = true := by simp [hin]
    unfold Str at hold ⊢
    simp only [World.ss_scripts, World.ss_trace] at hold ⊢
    rcases hold with ⟨_, hact, hg⟩ | hr
    · left
      have hun : lastRes s.out.w.trace c ≠ some .fin := act_ne_fin hact
      rcases sspec_cases h hc hin hun with hres | ⟨hres, _, _⟩ | ⟨⟨v, hres⟩, _, _⟩
      · have hf : f0S nc s c = [stepE nc s c] := by simp [f0S, hs, hres]
        rw [hf]
        exact ⟨by simp [streamScript, hres], hact, hg⟩
      · have hf : f0S nc s c = [stepE nc s c, ⟨.fin, []⟩] := by simp [f0S, hs, hres, hun]
        rw [hf]
        exact ⟨by simp [streamScript, hres], hact, hg⟩
      · have hf : f0S nc s c = [stepE nc s c, ⟨.fin, []⟩] := by simp [f0S, hs, hres, hun]
        rw [hf]
        exact ⟨by simp [streamScript, hres], hact, hg⟩
    · right; exact hr

/-- what the analysis of the outer poll on the virtual instance yields -/
structure PollVS (nc : NCase) (F : SNest nc) (s : St) (wid : Nat) (f' : Nat → List Step) : Prop where
  plain : ∀ c, nc.inner c = none → f' c = (out1 nc s wid).w.scripts c
  pe : PEndS nc.n (fun c => (f0S nc s c).length) s.out.w.trace ((out1 nc s wid).w.ss f')
  ended : ∀ c, lastRes s.out.w.trace c = some .fin →
    polledSince (out1 nc s wid).w.trace c = false ∧ lastRes (out1 nc s wid).w.trace c = some .fin
  res : lastOut (out1 nc s wid).w.trace = some .none ∨
    (F.InvO (setScripts (out1 nc s wid) f') ∧
      (∀ k vs, lastOut (out1 nc s wid).w.trace = some (.some k vs) → ItemSeen (out1 nc s wid).w) ∧
      (lastOut (out1 nc s wid).w.trace = some .pending → ∀ c, c < nc.n →
        lastRes s.out.w.trace c = some .pend → owes s.out.w.trace c = true →
        polledSince (out1 nc s wid).w.trace c = true))

theorem pollVS (h : SBN nc F s) (wid : Nat) : ∃ f', PollVS nc F s wid f' := by
  obtain ⟨f, hfp, hInv⟩ := h.vo
  have hInv0 : F.InvO (vo0S nc s) := F.so.rescript s.out f (f0S nc s) hInv (str_f0S h f hfp hInv)
  have hag : ∀ c, ((out0 nc s).w.ss (f0S nc s)).stepOf c = (out0 nc s).w.stepOf c := by
    intro c
    unfold World.stepOf
    simp only [World.ss_scripts]
    cases hs : (nc.inner c).isSome with
    | false =>
      have hin : nc.inner c = none := by simpa using hs
      rw [f0S_plain hin, out0_scripts_plain hin]
    | true =>
      rw [out0_scripts_nested hs]
      by_cases hcnd : lastRes s.out.w.trace c ≠ some .fin ∧ (stepE nc s c).res ≠ .fin
      · simp [f0S, hs, hcnd]
      · simp [f0S, hs, hcnd]
  obtain ⟨f', hpoll, hplain⟩ := poll_ss F.so.law F.so.nd (fun c => nc.inner c = none) (out0 nc s)
    (f0S nc s) wid hag (fun c hc => by rw [f0S_plain hc, out0_scripts_plain hc])
  have hpoll' : Eng.poll nc.outer.policy (vo0S nc s) wid = setScripts (out1 nc s wid) f' := hpoll
  have hP := F.so.pe (vo0S nc s) wid hInv0
  rw [hpoll'] at hP
  have hen := F.so.ended (vo0S nc s) wid hInv0
  rw [hpoll'] at hen
  refine ⟨f', hplain, hP, hen, ?_⟩
  rcases F.so.poll (vo0S nc s) wid hInv0 with hv | h'
  · left; rw [hpoll'] at hv; exact hv
  · right
    have hit := F.so.item (vo0S nc s) wid hInv0
    have hc20 := F.so.c20 (vo0S nc s) wid hInv0
    rw [hpoll'] at h' hit hc20
    exact ⟨h', hit, hc20⟩

/-! ### the nested streams across the poll -/

theorem nested_afterS (h : SBN nc F s) {wid : Nat} {f' : Nat → List Step}
    (hV : PollVS nc F s wid f') (hInv1 : F.InvO (setScripts (out1 nc s wid) f'))
    {c : Nat} {fam : Fam} {k : Nat} (hc : c < nc.n) (hin : nc.inner c = some (fam, k))
    (hua : lastRes (out1 nc s wid).w.trace c ≠ some .fin) :
    lastRes s.out.w.trace c ≠ some .fin ∧ (poll nc s wid).gone c = false ∧
    ((polledSince (out1 nc s wid).w.trace c = false ∧ (poll nc s wid).inn c = s.inn c) ∨
     (polledSince (out1 nc s wid).w.trace c = true ∧ (poll nc s wid).inn c = specE nc s c ∧
        lastRes (out1 nc s wid).w.trace c = some (stepE nc s c).res)) := by
  have hs : (nc.inner c).isSome = true := by simp [hin]
  have hub : lastRes s.out.w.trace c ≠ some .fin := fun hf => hua (hV.ended c hf).2
  have hgb := (h.inn c fam k hc hin hub).2
  have hga : gone (out1 nc s wid).w.trace c = false := by
    have hf : Str ((out1 nc s wid).w.ss f') c := (F.so.wi (setScripts (out1 nc s wid) f') hInv1).str c hc
    rcases hf with ⟨_, _, hg⟩ | hr
    · exact hg
    · exact absurd hr hua
  have hdn : droppedNow (out1 nc s wid).w.trace c = false := by
    cases hd : droppedNow (out1 nc s wid).w.trace c with
    | false => rfl
    | true => have := droppedNow_gone _ _ hd; rw [hga] at this; exact Bool.noConfusion this
  have hgone : (poll nc s wid).gone c = false := by
    rw [poll_gone, hgb, hdn]; simp
  refine ⟨hub, hgone, ?_⟩
  have hinn : (poll nc s wid).inn c =
      if polledSince (out1 nc s wid).w.trace c = true then specE nc s c else s.inn c := by
    rw [poll_inn]
    simp only [nested_contains nc c hc hs, Bool.true_and, polledNow_eq, hdn, Bool.and_false,
      Bool.false_eq_true, if_false]
  have hnp := poll_np F.so.law F.so.nd (out0 nc s) wid c (stepE nc s c) (out0_scripts_nested hs)
    (h.ninv.lk c hc hs).hw
  rcases hnp with np | np
  · left
    have hps : polledSince (out1 nc s wid).w.trace c = false := np.ps
    exact ⟨hps, by rw [hinn, hps]; simp⟩
  · right
    have hps : polledSince (out1 nc s wid).w.trace c = true := np.ps
    exact ⟨hps, by rw [hinn, hps]; simp, np.lr⟩

/-- a nested stream polled in this poll had not ended -/
theorem notEnded_of_polled {wid : Nat} {f' : Nat → List Step} (hV : PollVS nc F s wid f') {c : Nat}
    (hps : polledSince (out1 nc s wid).w.trace c = true) : lastRes s.out.w.trace c ≠ some .fin := by
  intro hf
  have := (hV.ended c hf).1
  rw [hps] at this; exact Bool.noConfusion this

/-! ### the progress measure across the poll -/

theorem mInS_poll_plain {wid c : Nat} (hin : nc.inner c = none) :
    mInS nc (poll nc s wid) c = ((out1 nc s wid).w.scripts c).length := by
  rw [mInS_plain hin, poll_out]
  simp [setScripts, hin]

theorem mInS_poll_le (h : SBN nc F s) {wid : Nat} {f' : Nat → List Step} (hV : PollVS nc F s wid f')
    (hInv1 : F.InvO (setScripts (out1 nc s wid) f'))
    (c : Nat) (hc : c < nc.n) : mInS nc (poll nc s wid) c ≤ mInS nc s c := by
  cases hin : nc.inner c with
  | none =>
    rw [mInS_poll_plain hin, mInS_plain hin, ← out0_scripts_plain (s := s) hin]
    exact poll_scripts_le F.so.law (out0 nc s) wid c
  | some fk =>
    obtain ⟨fam, k⟩ := fk
    by_cases hua : lastRes (out1 nc s wid).w.trace c = some .fin
    · rw [mInS_ended hin (by rw [poll_out_trace]; exact hua)]; exact Nat.zero_le _
    · obtain ⟨hub, _, hcase⟩ := nested_afterS h hV hInv1 hc hin hua
      rw [mInS_nested hin (by rw [poll_out_trace]; exact hua), mInS_nested hin hub]
      rcases hcase with ⟨_, hi⟩ | ⟨_, hi, _⟩
      · rw [hi]; exact Nat.le_refl _
      · rw [hi]; exact sspec_le F hin

theorem mInS_poll_lt_nested (h : SBN nc F s) {wid : Nat} {f' : Nat → List Step}
    (hV : PollVS nc F s wid f') (hInv1 : F.InvO (setScripts (out1 nc s wid) f'))
    {c : Nat} {fam : Fam} {k : Nat} (hc : c < nc.n) (hin : nc.inner c = some (fam, k))
    (hub : lastRes s.out.w.trace c ≠ some .fin)
    (hps : polledSince (out1 nc s wid).w.trace c = true)
    (hlt : Exec.stepsLeft k (specE nc s c) < Exec.stepsLeft k (s.inn c)) :
    mInS nc (poll nc s wid) c < mInS nc s c := by
  rw [mInS_nested hin hub]
  by_cases hua : lastRes (out1 nc s wid).w.trace c = some .fin
  · rw [mInS_ended hin (by rw [poll_out_trace]; exact hua)]; omega
  · obtain ⟨_, _, hcase⟩ := nested_afterS h hV hInv1 hc hin hua
    rw [mInS_nested hin (by rw [poll_out_trace]; exact hua)]
    rcases hcase with ⟨hn, _⟩ | ⟨_, hi, _⟩
    · rw [hps] at hn; exact Bool.noConfusion hn
    · rw [hi]; exact hlt

theorem mInS_poll_lt_polled (h : SBN nc F s) {wid : Nat} {f' : Nat → List Step}
    (hV : PollVS nc F s wid f') (hInv1 : F.InvO (setScripts (out1 nc s wid) f'))
    {c : Nat} (hps : polledSince (out1 nc s wid).w.trace c = true)
    (hx : ∀ fam k, nc.inner c = some (fam, k) →
      Exec.stepsLeft k (specE nc s c) < Exec.stepsLeft k (s.inn c)) :
    c < nc.n ∧ mInS nc (poll nc s wid) c < mInS nc s c := by
  have hpsv : polledSince ((out1 nc s wid).w.ss f').trace c = true := hps
  obtain ⟨hc, hlen⟩ := hV.pe.ps c hpsv
  refine ⟨hc, ?_⟩
  cases hin : nc.inner c with
  | none =>
    rw [mInS_poll_plain hin, mInS_plain hin]
    simp only [World.ss_scripts, f0S_plain hin, hV.plain c hin] at hlen
    exact hlen
  | some fk =>
    obtain ⟨fam, k⟩ := fk
    exact mInS_poll_lt_nested h hV hInv1 hc hin (notEnded_of_polled hV hps) hps (hx fam k hin)

/-- an owed leaf makes its nested child owe on the outer trace (both levels of C01) -/
theorem outer_owes_of_leafS (h : SBN nc F s) {c : Nat} {fam : Fam} {k : Nat} {g : Nat}
    (hc : c < nc.n) (hin : nc.inner c = some (fam, k))
    (hp : lastRes s.out.w.trace c = some .pend) (hpl : lastRes (s.inn c).w.trace g = some .pend)
    (hol : owes (s.inn c).w.trace g = true) : owes s.out.w.trace c = true := by
  have hs : (nc.inner c).isSome = true := by simp [hin]
  obtain ⟨f, _, hInv⟩ := h.vo
  have ha : alive s.out.w.trace = true := alive_of_sp (F.so.sp (setScripts s.out f) hInv)
  have hg : gone s.out.w.trace c = false := by
    have hf : Str (s.out.w.ss f) c := (F.so.wi (setScripts s.out f) hInv).str c hc
    rcases hf with ⟨_, _, hg⟩ | hr
    · exact hg
    · simp only [World.ss_trace] at hr; rw [hp] at hr; cases hr
  have lk := h.ninv.lk c hc hs
  have hai : alive (s.inn c).w.trace = true := by
    cases hh : alive (s.inn c).w.trace with
    | true => rfl
    | false => have := lk.l4 ha hh; rw [hg] at this; exact Bool.noConfusion this
  exact lk.l3 ((h.ninv.fi c hs).quiet_pt g hai (lk.l2 hp) hpl hol)

/-! ### one top-level poll -/

theorem sbn_poll (h : SBN nc F s) (wid : Nat) :
    lastOut (poll nc s wid).out.w.trace = some .none ∨
    (SBN nc F (poll nc s wid) ∧ muS nc (poll nc s wid) ≤ muS nc s ∧
      ((lastOut (poll nc s wid).out.w.trace ≠ some .pending ∧ muS nc (poll nc s wid) < muS nc s) ∨
       (lastOut (poll nc s wid).out.w.trace = some .pending ∧
        (muS nc (poll nc s wid) < muS nc s ∨ wokeSince (poll nc s wid).out.w.trace = false) ∧
        (Owed nc s → muS nc (poll nc s wid) < muS nc s)))) := by
  obtain ⟨f', hV⟩ := pollVS h wid
  rcases hV.res with hdone | ⟨hInv1, hitem, hc20⟩
  · left; exact hdone
  · right
    have hle := mInS_poll_le h hV hInv1
    -- the answer a polled nested stream gave, and what it means for its inner instance
    have hnested : ∀ c fam k, c < nc.n → nc.inner c = some (fam, k) →
        polledSince (out1 nc s wid).w.trace c = true →
        lastRes (out1 nc s wid).w.trace c = some (stepE nc s c).res := by
      intro c fam k hc hin hps
      have hs : (nc.inner c).isSome = true := by simp [hin]
      rcases poll_np F.so.law F.so.nd (out0 nc s) wid c (stepE nc s c) (out0_scripts_nested hs)
        (h.ninv.lk c hc hs).hw with np | np
      · have : polledSince (out1 nc s wid).w.trace c = false := np.ps
        rw [hps] at this; exact Bool.noConfusion this
      · exact np.lr
    refine ⟨⟨ninv_poll h.ninv F.so.nd wid, ⟨f', ?_, ?_⟩, ?_⟩, total_le _ _ _ hle, ?_⟩
    · intro c hin
      rw [hV.plain c hin, poll_out]
      simp [setScripts, hin]
    · rw [poll_out]; exact hInv1
    · intro c fam k hc hin hua
      rw [poll_out_trace] at hua
      obtain ⟨hub, hgone, hcase⟩ := nested_afterS h hV hInv1 hc hin hua
      refine ⟨?_, hgone⟩
      rcases hcase with ⟨_, hi⟩ | ⟨_, hi, hlr⟩
      · rw [hi]; exact (h.inn c fam k hc hin hub).1
      · rw [hi]
        rcases sspec_cases h hc hin hub with hr | ⟨_, hl, _⟩ | ⟨_, hl, _⟩
        · rw [hr] at hlr; exact absurd hlr hua
        · exact hl
        · exact hl
    · obtain ⟨o, ho⟩ : ∃ o, lastOut (out1 nc s wid).w.trace = some o :=
        lastOut_poll_some nc.outer.policy (out0 nc s) wid
      rcases F.so.lo (setScripts (out1 nc s wid) f') hInv1 with h1 | h1 | ⟨k0, vs0, h1⟩
      · simp only [setScripts_trace] at h1
        rw [ho] at h1; cases h1
      · -- `Pending`
        simp only [setScripts_trace] at h1
        right
        refine ⟨by rw [poll_out_trace]; exact h1, ?_, ?_⟩
        · cases hw : wokeSince (poll nc s wid).out.w.trace with
          | false => right; rfl
          | true =>
            left
            rw [poll_out_trace] at hw
            obtain ⟨c, hps, st, hst, hfires⟩ :=
              poll_woke_fires F.so.law (out0 nc s) wid (wokeSince_wokeAny _ hw)
            have hps' : polledSince (out1 nc s wid).w.trace c = true := hps
            obtain ⟨hc, hlt⟩ := mInS_poll_lt_polled h hV hInv1 hps' (by
              intro fam k hin
              have hs : (nc.inner c).isSome = true := by simp [hin]
              rw [out0_scripts_nested hs] at hst
              simp only [List.mem_singleton] at hst
              subst hst
              refine sspec_woke h (c := c) ?_ hin (notEnded_of_polled hV hps') ?_
              · have hpsv : polledSince ((out1 nc s wid).w.ss f').trace c = true := hps'
                exact (hV.pe.ps c hpsv).1
              · simp only [stepE] at hfires
                cases hwk : wokes (sincePB (specE nc s c).w.trace) with
                | nil => rw [hwk] at hfires; simp at hfires
                | cons k0 rest =>
                  exact ⟨k0, (mem_wokes k0 _).mp (by rw [hwk]; exact List.mem_cons_self ..)⟩)
            exact total_lt _ _ _ hle c hc hlt
        · intro ho'
          rcases ho' with ⟨c, hc, hin, hp, hoc⟩ | ⟨c, fam, k, g, hc, hin, hg, hp, hpl, hol, hne⟩
          · have hps := hc20 h1 c hc hp hoc
            obtain ⟨_, hlt⟩ := mInS_poll_lt_polled h hV hInv1 hps (by
              intro fam k hin'; rw [hin] at hin'; cases hin')
            exact total_lt _ _ _ hle c hc hlt
          · have hoc := outer_owes_of_leafS h hc hin hp hpl hol
            have hps := hc20 h1 c hc hp hoc
            have hub : lastRes s.out.w.trace c ≠ some .fin := by rw [hp]; simp
            have hpos : 0 < Exec.stepsLeft k (s.inn c) := by
              have h3 := le_total (fun g => ((s.inn c).w.scripts g).length) k g hg
              have h4 := length_pos_of_ne_nil' _ hne
              rw [stepsLeft_eq]; omega
            refine total_lt _ _ _ hle c hc ?_
            rcases sspec_cases h hc hin hub with hr | ⟨_, _, hEE⟩ | ⟨_, _, hlt⟩
            · -- the nested stream ends in this poll
              have hlr := hnested c fam k hc hin hps
              rw [hr] at hlr
              rw [mInS_nested hin hub, mInS_ended hin (by rw [poll_out_trace]; exact hlr)]
              exact hpos
            · exact mInS_poll_lt_nested h hV hInv1 hc hin hub hps (hEE g hg hpl hol)
            · exact mInS_poll_lt_nested h hV hInv1 hc hin hub hps hlt
      · -- an item: the child that produced it consumed a step
        simp only [setScripts_trace] at h1
        left
        refine ⟨by rw [poll_out_trace, h1]; simp, ?_⟩
        obtain ⟨c, v, hps, hlr⟩ := hitem k0 vs0 h1
        obtain ⟨hc, hlt⟩ := mInS_poll_lt_polled h hV hInv1 hps (by
          intro fam k hin
          have hpsv : polledSince ((out1 nc s wid).w.ss f').trace c = true := hps
          have hc := (hV.pe.ps c hpsv).1
          have hlr' := hnested c fam k hc hin hps
          rw [hlr] at hlr'
          simp only [Option.some.injEq] at hlr'
          rcases sspec_cases h hc hin (notEnded_of_polled hV hps) with hr | ⟨hr, _, _⟩ | ⟨_, _, hlt⟩
          · rw [hr] at hlr'; cases hlr'
          · rw [hr] at hlr'; cases hlr'
          · exact hlt)
        exact total_lt _ _ _ hle c hc hlt

end LiveN
end Fc
