/-
  FcLemmas/LiveGInst.lean — the run invariant `LG` of a group driven by the wake-only executor, and
  the instance of the abstract argument (`LiveG.ProgG`):

  * C01g's boundary invariant (`G.SB` std / `G.DB` direct) gives `quiet` — after the environment
    prods a waiting member the task has been woken — and, through its C20 part, that the prodded
    member is polled by the next poll;
  * the C11 / C12 invariant (`G11.Inv`) gives "a poll that returns `Pending` leaves a member";
  * `WG` / the readiness invariant give "when a poll returns `Pending` every member is waiting and
    has a scripted step left".
-/
import FcLemmas.LiveGLoop
import FcLemmas.C11
set_option linter.unusedSimpArgs false
set_option linter.unusedVariables false

namespace Fc
namespace LiveG
open Mon Live Live3 G Grp C01

/-- the progress measure: scripted steps left, over all ids that were ever inserted -/
def mu (n : Nat) (e : Eng Grp) : Nat :=
  total (fun c => if (keyOf e.w.trace c).isSome then (e.w.scripts c).length else 0) n

/-- some waiting member is owed a wake-up -/
def Owed (e : Eng Grp) : Prop :=
  ∃ k c, e.s.member k = some c ∧ lastRes e.w.trace c = some .pend ∧ owes e.w.trace c = true

structure LG (stream keyed : Bool) (m : Mode) (n : Nat) (e : Eng Grp) : Prop where
  mode : e.w.mode = m
  std : m = .std → SB n e
  dir : m = .direct → DB n e
  g11 : ∃ U, G11.InvE stream keyed n U e
  dead : e.s.dead = false
  al : alive e.w.trace = true
  bnd : ∀ c, keyOf e.w.trace c ≠ none → c < n
  wg : WG stream e.s.member e.w
  ib : ∀ k c, e.s.member k = some c → Needy (lastRes e.w.trace c) → e.w.isSet k = true
  pa : lastOut e.w.trace = some .pending →
    ∀ k c, e.s.member k = some c → lastRes e.w.trace c = some .pend
  ne : lastOut e.w.trace = some .pending → ∃ k c, e.s.member k = some c
  lo : lastOut e.w.trace = none ∨ lastOut e.w.trace = some .pending ∨
    ∃ k vs, lastOut e.w.trace = some (.some k vs)

variable {stream keyed : Bool} {m : Mode} {n : Nat}

theorem lg_cb (e : Eng Grp) (h : LG stream keyed m n e) : CB n e := by
  cases m with
  | std => exact (h.std rfl).cb
  | direct => exact (h.dir rfl).cb

theorem lg_quiet (e : Eng Grp) (h : LG stream keyed m n e) : quiet n e.w.trace = true := by
  cases m with
  | std => exact quiet_of_sb e (h.std rfl)
  | direct => exact quiet_of_db e (h.dir rfl)

theorem lg_mb (e : Eng Grp) (h : LG stream keyed m n e) : c01Boundaries n e.w.trace = true := by
  cases m with
  | std => exact (h.std rfl).mb
  | direct => exact (h.dir rfl).mb

/-- when `any_ready` is false no slot passes the readiness test -/
theorem lg_noneSet (e : Eng Grp) (h : LG stream keyed m n e) :
    e.w.anyReady = false → ∀ k, e.w.isSet k = false := by
  intro ha k
  cases m with
  | std =>
    have hbc := (h.std rfl).gk.bc
    rw [World.isSet_std _ _ hbc.std]
    exact bc_count_zero hbc (anyReady_false_count hbc.std ha) k
  | direct =>
    simp [World.anyReady, h.mode] at ha

theorem lg_kind (e : Eng Grp) (h : LG stream keyed m n e) : ScriptsOk (G11.kindG stream) e.w := by
  obtain ⟨U, hU⟩ := h.g11
  have hs : e.s.stream = stream := (hU.live h.dead).1.hs
  have := (lg_cb e h).ok
  unfold KOk at this
  rw [hs] at this
  exact this

theorem lenOf_pollEnd (o : Outcome) (t : List Ev) : lenOf (.pollEnd o :: t) = lenOf t := rfl

/-- a poll that returned `Pending` leaves a member (C11 / C12) -/
theorem member_of_pending {U : List Nat} (e : Eng Grp) (t : List Ev)
    (hU : G11.InvE stream keyed n U e) (hd : e.s.dead = false)
    (ht : e.w.trace = .pollEnd .pending :: t) : ∃ k c, e.s.member k = some c := by
  have hmon := hU.tr.mon
  have hcore := (hU.live hd).1
  have hlen := hcore.len
  rw [ht] at hmon hlen
  rw [lenOf_pollEnd] at hlen
  simp only [holds_G, grpAt, Bool.and_eq_true, bne_iff_ne, ne_eq] at hmon
  have hl : lenOf t ≠ 0 := hmon.1.1.2.1
  have hcnt := hcore.slab.cnt
  obtain ⟨i, _, hi⟩ := cntP_pos (fun k => (e.s.member k).isSome) e.s.entries (by omega)
  simp only [Option.isSome_iff_exists] at hi
  obtain ⟨c, hc⟩ := hi
  exact ⟨i, c, hc⟩

/-! ### one top-level poll -/

theorem lg_poll (e : Eng Grp) (wid : Nat) (h : LG stream keyed m n e) :
    lastOut (Eng.poll group e wid).w.trace = some .none ∨
    (LG stream keyed m n (Eng.poll group e wid) ∧ mu n (Eng.poll group e wid) ≤ mu n e ∧
      ((lastOut (Eng.poll group e wid).w.trace ≠ some .pending ∧
          mu n (Eng.poll group e wid) < mu n e) ∨
       (lastOut (Eng.poll group e wid).w.trace = some .pending ∧
          (mu n (Eng.poll group e wid) < mu n e ∨ wokeSince (Eng.poll group e wid).w.trace = false) ∧
          (Owed e → mu n (Eng.poll group e wid) < mu n e)))) := by
  have hcb := lg_cb e h
  have hmb1 : c01Boundaries n (Ev.pollBegin wid :: e.w.trace) = true :=
    mb_startsOp n _ _ (lg_mb e h) (lg_quiet e h)
  have hci := ci_begin e wid hcb hmb1
  rcases pj_poll (stream := stream) e wid hci h.wg h.ib h.dead h.al (lg_noneSet e h) with hnone | hpe
  · exact Or.inl hnone
  · right
    have hstd : m = .std → SB n (Eng.poll group e wid) := fun hm => sb_poll e wid (h.std hm)
    have hdir : m = .direct → DB n (Eng.poll group e wid) := fun hm => db_poll e wid (h.dir hm)
    obtain ⟨U, hU⟩ := h.g11
    have hU' : G11.InvE stream keyed n U (Eng.poll group e wid) :=
      (G11.pollG (G11.sim_group stream keyed n U m)
        (fun s t w hpre hI => G11.early_ok s t w hpre hI) e wid h.mode (lg_kind e h) hU).2.2
    have hkey : ∀ c, keyOf (Eng.poll group e wid).w.trace c = keyOf e.w.trace c :=
      fun c => keyOf_poll e wid c
    obtain ⟨o, t, ht, ho⟩ := hpe.shape
    have hlo : lastOut (Eng.poll group e wid).w.trace = some o := by rw [ht]; rfl
    have hlg : LG stream keyed m n (Eng.poll group e wid) := by
      refine ⟨?_, hstd, hdir, ⟨U, hU'⟩, hpe.dead, hpe.al, fun c hc => h.bnd c (by rwa [hkey] at hc),
        hpe.wg, hpe.a, hpe.pa, ?_, ?_⟩
      · cases m with
        | std => exact (hstd rfl).gk.bc.std
        | direct => exact (hdir rfl).gd.dir
      · intro hp
        rw [hlo] at hp
        simp only [Option.some.injEq] at hp
        subst hp
        exact member_of_pending _ t hU' hpe.dead ht
      · rw [hlo]
        rcases ho with ho | ⟨key, vs, ho⟩
        · exact Or.inr (Or.inl (by rw [ho]))
        · exact Or.inr (Or.inr ⟨key, vs, by rw [ho]⟩)
    -- the measure
    have hLe : ∀ c, c < n →
        (if (keyOf (Eng.poll group e wid).w.trace c).isSome then
          ((Eng.poll group e wid).w.scripts c).length else 0)
        ≤ (if (keyOf e.w.trace c).isSome then (e.w.scripts c).length else 0) := by
      intro c _
      rw [hkey]
      split
      · exact hpe.le c
      · exact Nat.le_refl _
    have hle : mu n (Eng.poll group e wid) ≤ mu n e := total_le _ _ n hLe
    have hlt : ∀ c, polledSince (Eng.poll group e wid).w.trace c = true →
        mu n (Eng.poll group e wid) < mu n e := by
      intro c hc
      obtain ⟨hk, hl⟩ := hpe.ps c hc
      have hcn : c < n := h.bnd c (by rwa [hkey] at hk)
      refine total_lt _ _ n hLe c hcn ?_
      rw [hkey] at hk ⊢
      have : (keyOf e.w.trace c).isSome = true := by
        cases hh : keyOf e.w.trace c with
        | none => exact absurd hh hk
        | some x => rfl
      simp only [this, if_true]
      exact hl
    refine ⟨hlg, hle, ?_⟩
    rcases ho with ho | ⟨key, vs, ho⟩
    · -- `Pending`
      subst ho
      right
      refine ⟨hlo, ?_, ?_⟩
      · cases hw : wokeSince (Eng.poll group e wid).w.trace with
        | false => exact Or.inr rfl
        | true =>
          obtain ⟨c, hc⟩ := hpe.wk hw
          exact Or.inl (hlt c hc)
      · -- C20: the owed waiting member was polled in this poll
        rintro ⟨k, c, hkc, hlr, how⟩
        refine hlt c ?_
        have hcn : c < n := h.bnd c (by rw [hcb.link.f1 k c hkc]; simp)
        have hab : atPollBegin t = e.w.trace := by
          have := hpe.ab; rw [ht] at this; simpa [atPollBegin] using this
        have hps : polledSince (Eng.poll group e wid).w.trace c = polledSince t c := by
          rw [ht]; simp [polledSince]
        rw [hps]
        cases hg : gone t c with
        | true =>
          rcases hpe.gp c (by rw [ht]; simpa [gone] using hg) with h1 | h1
          · rw [(h.wg.mem k c hkc).2.2] at h1; exact Bool.noConfusion h1
          · rw [← hps]; exact h1
        | false =>
          have hm20 := (lg_cb _ hlg).m20
          rw [ht] at hm20
          simp only [holds_C20, Bool.and_eq_true] at hm20
          have h20 := hm20.2
          simp only [c20At, List.all_eq_true, List.mem_range] at h20
          have hcc := h20 c hcn
          have hkt : keyOf t c = some k := by
            have := hkey c; rw [ht] at this
            simp only [keyOf] at this
            rw [this]; exact hcb.link.f1 k c hkc
          rw [hab] at hcc
          simp only [owned, Bool.false_eq_true, if_false, hkt, Option.isSome_some, hg, Bool.not_false,
            Bool.and_self, Bool.not_true, Bool.false_or, hlr, how, beq_self_eq_true,
            Bool.and_eq_true] at hcc
          exact hcc.2
    · -- an item / an output
      subst ho
      left
      refine ⟨by rw [hlo]; simp, ?_⟩
      obtain ⟨c, hc⟩ := hpe.sm key vs hlo
      exact hlt c hc

/-! ### one wake-up between polls -/

theorem lg_fire (e : Eng Grp) (c a : Nat) (h : LG stream keyed m n e) :
    LG stream keyed m n (e.fire c a) := by
  have hlo : lastOut (e.fire c a).w.trace = lastOut e.w.trace := C01.lastOut_fire e.w c a
  obtain ⟨U, hU⟩ := h.g11
  refine ⟨by simpa using h.mode, fun hm => sb_fire e c a (h.std hm), fun hm => db_fire e c a (h.dir hm),
    ⟨U, (Sim.fireT (G11.sim_group stream keyed n U m) e c a h.mode (lg_kind e h) hU).2.2⟩,
    h.dead, ?_, ?_, wg_fire e.w c a h.wg, ?_, ?_, ?_, by rw [hlo]; exact h.lo⟩
  · simp only [Eng.fire_w, C01.alive_fire]; exact h.al
  · intro j hj
    simp only [Eng.fire_w, keyOf_fire] at hj
    exact h.bnd j hj
  · intro k j hk hn
    simp only [Eng.fire_w, Eng.fire_s, C16.lastRes_fire] at hk hn ⊢
    exact World.isSet_fire_mono _ _ _ _ (h.ib k j hk hn)
  · intro hp k j hk
    rw [hlo] at hp
    simp only [Eng.fire_w, Eng.fire_s, C16.lastRes_fire] at hk ⊢
    exact h.pa hp k j hk
  · intro hp
    rw [hlo] at hp
    exact h.ne hp

theorem mu_fire (e : Eng Grp) (c a : Nat) : mu n (e.fire c a) = mu n e := by
  unfold mu
  simp only [Eng.fire_w, keyOf_fire, World.fire_scripts]

/-- prodding a waiting member: its wake-up is owed afterwards, hence (C01 `quiet`) the task has been
    woken -/
theorem fire_woke (e : Eng Grp) (k c : Nat) (h : LG stream keyed m n e)
    (hlo : lastOut e.w.trace = some .pending) (hkc : e.s.member k = some c)
    (hlr : lastRes e.w.trace c = some .pend) :
    Owed (e.fire c 0) ∧ wokeSince (e.fire c 0).w.trace = true := by
  have hwi := h.wg
  have hcn : c < n := h.bnd c (by rw [(lg_cb e h).link.f1 k c hkc]; simp)
  have hLR : lastRes (e.w.fire c 0).trace c = some .pend := by
    rw [C16.lastRes_fire]; exact hlr
  obtain ⟨wk, hwk⟩ : ∃ wk, lastWk e.w.trace c = some wk := by
    cases hh : lastWk e.w.trace c with
    | none => exact absurd hh (hwi.lw c (by rw [hlr]; simp))
    | some wk => exact ⟨wk, rfl⟩
  have hget : (e.w.handed c)[0]? = some wk := by
    rw [← List.head?_eq_getElem?, hwi.hw c, hwk]
  have howes : owes (e.w.fire c 0).trace c = true := by
    unfold World.fire
    rw [hget]
    simp only
    obtain ⟨l, hl, hp⟩ := World.fireWk_seg (e.w.emit (.fired c 0 (some wk))) wk
    rw [hl]
    refine owes_fires_mono c l _ hp ?_
    simp [owes, hwk]
  obtain ⟨l, hl, hp⟩ := World.fire_seg e.w c 0
  have hlo' : lastOut (e.w.fire c 0).trace = some .pending := by
    rw [C01.lastOut_fire]; exact hlo
  have halive : alive (e.w.fire c 0).trace = true := by
    rw [C01.alive_fire]; exact h.al
  have hgone : gone (e.w.fire c 0).trace c = false := by
    rw [hl, gone_fires l _ c hp]
    exact (hwi.mem k c hkc).2.2
  have hq := lg_quiet _ (lg_fire e c 0 h)
  refine ⟨⟨k, c, hkc, hLR, howes⟩, ?_⟩
  simp only [Eng.fire_w, quiet, halive, hlo', beq_self_eq_true, Bool.and_self, Bool.not_true,
    Bool.false_or, List.all_eq_true, List.mem_range] at hq
  have := hq c hcn
  simpa [hLR, hgone, howes] using this

/-- after a `Pending` poll some member is waiting and can be prodded -/
theorem firstWaiting_some (e : Eng Grp) (h : LG stream keyed m n e)
    (hlo : lastOut e.w.trace = some .pending) :
    ∃ k c, ExecG.firstWaiting e = some c ∧ e.s.member k = some c ∧
      lastRes e.w.trace c = some .pend ∧ e.w.scripts c ≠ [] := by
  obtain ⟨k, c, hkc⟩ := h.ne hlo
  have hlr := h.pa hlo k c hkc
  have hne := wb_ne_nil _ (h.wg.mem k c hkc).1
  have hmem : c ∈ e.s.keys.filterMap e.s.member := by
    rw [List.mem_filterMap]
    exact ⟨k, (lg_cb e h).slab.kmem k (by rw [hkc]; simp), hkc⟩
  have hsome : (ExecG.firstWaiting e).isSome = true := by
    unfold ExecG.firstWaiting
    rw [List.find?_isSome]
    exact ⟨c, hmem, by simp [hlr, hne]⟩
  cases hfw : ExecG.firstWaiting e with
  | none => rw [hfw] at hsome; exact Bool.noConfusion hsome
  | some c0 =>
    unfold ExecG.firstWaiting at hfw
    have hp := List.find?_some hfw
    have hm := List.mem_of_find?_eq_some hfw
    rw [List.mem_filterMap] at hm
    obtain ⟨k0, _, hk0⟩ := hm
    simp only [Bool.and_eq_true, beq_iff_eq, Bool.not_eq_true', List.isEmpty_eq_false_iff] at hp
    exact ⟨k0, c0, rfl, hk0, hp.1, hp.2⟩

theorem length_pos_of_ne_nil'' {α : Type} (l : List α) (h : l ≠ []) : 0 < l.length := by
  cases l with
  | nil => exact absurd rfl h
  | cons a l => simp

/-- the instance of the abstract argument -/
theorem prog_lg : ProgG (LG stream keyed m n) (mu n) Owed where
  lo := fun e h => h.lo
  poll := fun e wid h => lg_poll e wid h
  fire := by
    intro e h hlo _
    obtain ⟨k, c, hfw, hkc, hlr, hne⟩ := firstWaiting_some e h hlo
    obtain ⟨hO, hW⟩ := fire_woke e k c h hlo hkc hlr
    refine ⟨c, hfw, lg_fire e c 0 h, mu_fire e c 0, ?_, hO, hW⟩
    have hkey : keyOf e.w.trace c = some k := (lg_cb e h).link.f1 k c hkc
    have hcn : c < n := h.bnd c (by rw [hkey]; simp)
    have h3 := le_total (fun c => if (keyOf e.w.trace c).isSome then (e.w.scripts c).length else 0)
      n c hcn
    have h4 := length_pos_of_ne_nil'' _ hne
    simp only [hkey, Option.isSome_some, if_true] at h3
    unfold mu
    omega

/-- every run from a state satisfying the invariant ends within `3 * mu + 1` rounds -/
theorem ends_of_lg (e : Eng Grp) (h : LG stream keyed m n e)
    (hsp : Exec.shouldPoll e.w.trace = true) :
    ∃ k, k ≤ 3 * mu n e + 1 ∧ lastOut (ExecG.runFor k e).w.trace = some .none :=
  ends_of_prog prog_lg e h hsp

end LiveG
end Fc
