/-
  FcLemmas/KTieTryJoinADEnv.lean — the no_std / alloc-only counterpart of FcLemmas/KTieTryJoinAEnv.lean (used by the
  `[Fut; N]::try_join()` tie of the `direct` flavour, FcProps/KTieTryJoinAD.lean): the environment of a translated poll
  function (Fc/RustEnv.lean) whose children are handed the caller's own waker and whose wake function does nothing (no
  sub-wakers exist in this flavour) refines the hand-written kernel in `direct` mode: `Rs.fire` = `World.fire`,
  `Rs.fires` = `World.fires`, `Rs.pollChild` with the parent waker = `World.pollChild`.
  The combined world of a readiness set `r` and an environment `env` is `TieDir.absA r env`; the readiness set is never
  changed by a wake-up.
-/
import FcProps.KTieDir
import Fc.RustEnv
import FcLemmas.World
import FcLemmas.KTieMergeEnv

set_option linter.unusedSimpArgs false
set_option linter.unusedVariables false

namespace Fc
open Rs Src

namespace TieTryJoinAD
open DirArr TieDir

@[simp] theorem tjd_abs_scripts (r : ReadinessArray) (b : World) : (absA r b).scripts = b.scripts := rfl
@[simp] theorem tjd_abs_handed (r : ReadinessArray) (b : World) : (absA r b).handed = b.handed := rfl
@[simp] theorem tjd_abs_trace (r : ReadinessArray) (b : World) : (absA r b).trace = b.trace := rfl
@[simp] theorem tjd_abs_mode (r : ReadinessArray) (b : World) : (absA r b).mode = .direct := rfl
@[simp] theorem tjd_abs_parent (r : ReadinessArray) (b : World) : (absA r b).parent = r.roleParent := rfl
theorem tjd_abs_emitM (r : ReadinessArray) (b : World) (e : Ev) : absA r (b.emit e) = (absA r b).emit e := rfl
theorem tjd_abs_emitsM (r : ReadinessArray) (b : World) (l : List Ev) : absA r (b.emits l) = (absA r b).emits l := rfl
@[simp] theorem tjd_abs_stepOf (r : ReadinessArray) (b : World) (c : Nat) : (absA r b).stepOf c = b.stepOf c := rfl
@[simp] theorem tjd_abs_resOf (r : ReadinessArray) (b : World) (c : Nat) : (absA r b).resOf c = b.resOf c := rfl
@[simp] theorem tjd_abs_isSet (r : ReadinessArray) (b : World) (i : Nat) : (absA r b).isSet i = true := rfl
@[simp] theorem tjd_abs_anyReady (r : ReadinessArray) (b : World) : (absA r b).anyReady = true := rfl
@[simp] theorem tjd_abs_clearReady (r : ReadinessArray) (b : World) (i : Nat) :
    (absA r b).clearReady i = absA r b := rfl
theorem tjd_abs_wakerFor (r : ReadinessArray) (b : World) (i p : Nat) (hp : r.roleParent = some p) :
    (absA r b).wakerFor i = .par p := by
  simp [World.wakerFor, hp]

/-- the fields of a `World` this flavour never touches (the flag table of the std flavour): the reading `absA` takes them
    from the environment -/
def SameRd (a b : World) : Prop := a.cap = b.cap ∧ a.bits = b.bits ∧ a.count = b.count

theorem SameRd.refl (a : World) : SameRd a a := ⟨rfl, rfl, rfl⟩
theorem SameRd.trans {a b c : World} (h1 : SameRd a b) (h2 : SameRd b c) : SameRd a c :=
  ⟨h1.1.trans h2.1, h1.2.1.trans h2.2.1, h1.2.2.trans h2.2.2⟩
theorem SameRd.emit {a b : World} (h : SameRd a b) (e : Ev) : SameRd (a.emit e) b := h

/-- the wake function the translated code of this flavour passes to its children's polls: no sub-wakers exist -/
abbrev tjd_wakeD : Nat → ReadinessArray → Option (ReadinessArray × List Nat × Unit) :=
  fun _ r => some (r, [], ())

theorem tjd_fireWk_tieM (r : ReadinessArray) (env : World) (wk : Wk) :
    ∃ env', Rs.fireWk tjd_wakeD r env wk = some (r, env') ∧ absA r env' = (absA r env).fireWk wk ∧
      SameRd env' env := by
  cases wk with
  | par p => exact ⟨_, rfl, rfl, SameRd.refl _⟩
  | sub i => exact ⟨env, rfl, rfl, SameRd.refl _⟩

theorem tjd_fire_tieM (r : ReadinessArray) (env : World) (c age : Nat) :
    ∃ env', Rs.fire tjd_wakeD r env c age = some (r, env') ∧ absA r env' = (absA r env).fire c age ∧
      SameRd env' env := by
  unfold Rs.fire World.fire
  simp only [tjd_abs_handed]
  cases hg : (env.handed c)[age]? with
  | none => exact ⟨_, rfl, rfl, SameRd.refl _⟩
  | some wk => exact tjd_fireWk_tieM r (env.emit (.fired c age (some wk))) wk

theorem tjd_fires_tieM (r : ReadinessArray) (l : List (Nat × Nat)) : ∀ (env : World),
    ∃ env', Rs.fires tjd_wakeD r env l = some (r, env') ∧ absA r env' = (absA r env).fires l ∧
      SameRd env' env := by
  induction l with
  | nil => intro env; exact ⟨env, rfl, rfl, SameRd.refl _⟩
  | cons p l ih =>
    intro env
    obtain ⟨env1, e1, a1, s1⟩ := tjd_fire_tieM r env p.1 p.2
    obtain ⟨env2, e2, a2, s2⟩ := ih env1
    refine ⟨env2, ?_, ?_, s2.trans s1⟩
    · simp only [Rs.fires, e1, e2]
    · rw [a2, a1, World.fires_cons]

/-- one poll of child `c` (sitting in the slot of its position) with the caller's own waker -/
theorem tjd_pollChild_tieM (N : Nat) (r : ReadinessArray) (env : World) (c p : Nat)
    (hp : r.roleParent = some p) (hh : HandedIn N env) :
    ∃ env', Rs.pollChild tjd_wakeD r env c (.par p) = some (r, env', env.resOf c) ∧
      absA r env' = (absA r env).pollChild c c ∧ HandedIn N env' ∧
      env'.scripts = upd env.scripts c (env.scripts c).tail ∧ SameRd env' env := by
  have hh0 : HandedIn N
      { env with
        scripts := upd env.scripts c (env.scripts c).tail,
        handed := upd env.handed c (Wk.par p :: env.handed c),
        trace := .childBegin c c (.par p) :: env.trace } := by
    intro c' j hm
    by_cases hc : c' = c
    · subst hc
      simp at hm
      exact hh _ _ hm
    · simp [upd, hc] at hm
      exact hh _ _ hm
  obtain ⟨env', e1, a1, s1⟩ := tjd_fires_tieM r (env.stepOf c).fires
      { env with
        scripts := upd env.scripts c (env.scripts c).tail,
        handed := upd env.handed c (Wk.par p :: env.handed c),
        trace := .childBegin c c (.par p) :: env.trace }
  refine ⟨env'.emit (.childEnd c (env.resOf c)), ?_, ?_, ?_, ?_, s1⟩
  · simp only [Rs.pollChild, Rs.slotOf, e1]
  · rw [tjd_abs_emitM, a1]
    unfold World.pollChild
    rw [tjd_abs_wakerFor r env c p hp]
    rfl
  · have := congrArg World.handed a1
    simp at this
    intro c' j; simp only [World.emit_handed]; rw [this]; exact hh0 c' j
  · have := congrArg World.scripts a1
    simp at this
    simp only [World.emit_scripts]; rw [this]

end TieTryJoinAD
end Fc
