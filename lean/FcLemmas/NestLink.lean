/-
  FcLemmas/NestLink.lean — the link between the two levels of a nest (`LinkC`), the boundary
  invariant of the nest (`NInv` = flat invariants of all instances + link), its preservation by
  `Nest.poll / fire / drop`, and how `quietAt` / `noWakePanic` are read off.
-/
import FcLemmas.NestPoll
import FcLemmas.Seg
set_option linter.unusedSimpArgs false
set_option linter.unusedVariables false

namespace Fc
open Mon

/-! ### pure trace facts -/

namespace Nest

theorem polledNow_eq (t : List Ev) (c : Nat) : polledNow t c = polledSince t c := by
  induction t with
  | nil => rfl
  | cons e t ih => cases e <;> simp_all [polledNow, polledSince]

theorem droppedNow_gone (t : List Ev) (c : Nat) (h : droppedNow t c = true) : gone t c = true := by
  induction t with
  | nil => simp [droppedNow] at h
  | cons e t ih => cases e <;> simp_all [droppedNow, gone] <;> grind

theorem mem_wokes (k : Nat) (seg : List Ev) : k ∈ wokes seg ↔ Ev.woke k ∈ seg := by
  unfold wokes
  simp only [List.mem_filterMap, List.mem_reverse]
  constructor
  · rintro ⟨e, he, h⟩
    cases e <;> simp at h
    subst h; exact he
  · intro h; exact ⟨_, h, rfl⟩

theorem wokeSince_mem (t : List Ev) (h : wokeSince t = true) :
    ∃ w, cur t = some w ∧ Ev.woke w ∈ sincePB t := by
  induction t with
  | nil => simp [wokeSince] at h
  | cons e t ih =>
    by_cases hw : ∃ k, e = .woke k
    · obtain ⟨k, rfl⟩ := hw
      simp only [wokeSince, cur, sincePB, Bool.or_eq_true, beq_iff_eq] at h ⊢
      rcases h with h | h
      · obtain ⟨w, h1, h2⟩ := ih h; exact ⟨w, h1, List.mem_cons_of_mem _ h2⟩
      · exact ⟨k, h, List.mem_cons_self ..⟩
    · by_cases hb : ∃ k, e = .pollBegin k
      · obtain ⟨k, rfl⟩ := hb
        simp [wokeSince] at h
      · have h' : wokeSince t = true := by
          cases e <;> simp_all [wokeSince]
        obtain ⟨w, h1, h2⟩ := ih h'
        refine ⟨w, ?_, ?_⟩
        · cases e <;> simp_all [cur]
        · cases e <;> simp_all [sincePB]

theorem wokeSince_fireSeg (l t : List Ev) (hl : ∀ e ∈ l, isFireEv e = true)
    (h : wokeSince (l ++ t) = true) : wokeSince t = true ∨ ∃ k, cur t = some k ∧ Ev.woke k ∈ l := by
  induction l with
  | nil => exact Or.inl h
  | cons e l ih =>
    have hl' : ∀ e' ∈ l, isFireEv e' = true := fun e' he' => hl e' (List.mem_cons_of_mem _ he')
    have hcur : cur (l ++ t) = cur t := skip_seg cur isFireEv cur_fireEv l hl' t
    have he := hl e (List.mem_cons_self ..)
    cases e <;> simp [isFireEv] at he <;>
      simp only [List.cons_append, wokeSince, Bool.or_eq_true, beq_iff_eq] at h
    · rcases ih hl' h with h1 | ⟨k, h1, h2⟩
      · exact Or.inl h1
      · exact Or.inr ⟨k, h1, List.mem_cons_of_mem _ h2⟩
    · rename_i k
      rcases h with h | h
      · rcases ih hl' h with h1 | ⟨k', h1, h2⟩
        · exact Or.inl h1
        · exact Or.inr ⟨k', h1, List.mem_cons_of_mem _ h2⟩
      · exact Or.inr ⟨k, by rw [← hcur]; exact h, List.mem_cons_self ..⟩
    · rcases ih hl' h with h1 | ⟨k, h1, h2⟩
      · exact Or.inl h1
      · exact Or.inr ⟨k, h1, List.mem_cons_of_mem _ h2⟩

theorem take_seg {α : Type} (l t : List α) : (l ++ t).take ((l ++ t).length - t.length) = l := by
  simp

/-- events of a drop -/
def dropEv : Ev → Bool
  | .dropBegin | .dropEnd | .childDropped _ | .valDropped _ => true
  | _ => false

theorem cur_dropSeg (l t : List Ev) (hl : ∀ e ∈ l, dropEv e = true) : cur (l ++ t) = cur t :=
  skip_seg cur dropEv (fun e t h => by cases e <;> simp_all [dropEv, cur]) l hl t
theorem lastOut_dropSeg (l t : List Ev) (hl : ∀ e ∈ l, dropEv e = true) :
    lastOut (l ++ t) = lastOut t :=
  skip_seg lastOut dropEv (fun e t h => by cases e <;> simp_all [dropEv, lastOut]) l hl t
theorem wokeSince_dropSeg (l t : List Ev) (hl : ∀ e ∈ l, dropEv e = true) :
    wokeSince (l ++ t) = wokeSince t :=
  skip_seg wokeSince dropEv (fun e t h => by cases e <;> simp_all [dropEv, wokeSince]) l hl t
theorem lastRes_dropSeg (l t : List Ev) (c : Nat) (hl : ∀ e ∈ l, dropEv e = true) :
    lastRes (l ++ t) c = lastRes t c :=
  skip_seg (fun t => lastRes t c) dropEv (fun e t h => by cases e <;> simp_all [dropEv, lastRes]) l hl t
theorem lastWk_dropSeg (l t : List Ev) (c : Nat) (hl : ∀ e ∈ l, dropEv e = true) :
    lastWk (l ++ t) c = lastWk t c :=
  skip_seg (fun t => lastWk t c) dropEv (fun e t h => by cases e <;> simp_all [dropEv, lastWk]) l hl t
theorem owes_dropSeg (l t : List Ev) (c : Nat) (hl : ∀ e ∈ l, dropEv e = true) :
    owes (l ++ t) c = owes t c :=
  skip_seg (fun t => owes t c) dropEv (fun e t h => by cases e <;> simp_all [dropEv, owes]) l hl t

theorem drop_seg {P : Policy Fix} (L : Lawful P) (e : Eng Fix) :
    ∃ l, (Eng.drop P e).w.trace = l ++ e.w.trace ∧ (∀ ev ∈ l, dropEv ev = true) ∧
      alive (Eng.drop P e).w.trace = false := by
  refine ⟨.dropEnd :: ((P.dropEvs e.s).reverse ++ [.dropBegin]), by simp [Eng.drop], ?_, ?_⟩
  · intro ev hev
    simp only [List.mem_cons, List.mem_append, List.mem_reverse, List.mem_singleton,
      List.not_mem_nil, or_false] at hev
    rcases hev with rfl | hev | rfl
    · rfl
    · have := L.evs_drop e.s ev hev
      cases ev <;> simp_all [isOwnEv, dropEv]
    · rfl
  · simp only [Eng.drop, World.emit_trace, World.emits_trace, alive]
    rw [skip_seg alive isOwnEv alive_own _ (fun e' he' => L.evs_drop e.s e' (List.mem_reverse.mp he'))]
    rfl

theorem drop_handed (P : Policy Fix) (e : Eng Fix) : (Eng.drop P e).w.handed = e.w.handed := rfl

/-! ### the link between the levels, for one nested child `c`

  `hd` = wakers the outer instance handed to `c` (newest first), `to` = outer trace, `ti` = trace of
  the inner instance, `p` = number of (committed) polls of the inner instance. -/

structure LinkC (hd : List Wk) (to ti : List Ev) (p c : Nat) : Prop where
  /-- L1: the inner instance's task waker is the number of its latest poll -/
  cur : cur ti = if p = 0 then none else some p
  /-- L2: every outer poll of `c` hands one waker and commits one inner poll -/
  hl  : hd.length = p
  hw  : hd.head? = lastWk to c
  l2  : lastRes to c = some .pend → lastOut ti = some .pending
  /-- L3: a wake-up of the inner task waker is an invocation of the waker `c` holds -/
  l3  : wokeSince ti = true → owes to c = true
  /-- L4: while the outer instance lives, the inner instance is dropped only when `c` is released -/
  l4  : alive to = true → alive ti = false → gone to c = true

/-- wake-ups of the outer instance's wakers (between polls) -/
theorem link_fires {w : World} {ti : List Ev} {p c : Nat} (h : LinkC (w.handed c) w.trace ti p c)
    (fs : List (Nat × Nat)) : LinkC ((w.fires fs).handed c) (w.fires fs).trace ti p c := by
  obtain ⟨l, hl, hp⟩ := World.fires_seg w fs
  refine ⟨h.cur, by simpa using h.hl, ?_, ?_, ?_, ?_⟩
  · rw [World.fires_handed, lastWk_fires]; exact h.hw
  · rw [C16.lastRes_fires]; exact h.l2
  · intro hw; exact owes_fires_mono w fs c (h.l3 hw)
  · rw [hl, alive_fires l _ hp, gone_fires l _ c hp]; exact h.l4

/-- a wake-up of a leaf of the inner instance: its forwarded wake-ups `woke k` become invocations
    `(c, p - k)` of the wakers the outer instance handed to `c` -/
theorem link_fire_inner {w : World} {ti : List Ev} {p c : Nat}
    (h : LinkC (w.handed c) w.trace ti p c) (l : List Ev) (hl : ∀ e ∈ l, isFireEv e = true) :
    LinkC ((w.fires ((wokes l).map (fun k => (c, p - k)))).handed c)
      (w.fires ((wokes l).map (fun k => (c, p - k)))).trace (l ++ ti) p c := by
  have h1 := link_fires h ((wokes l).map (fun k => (c, p - k)))
  refine ⟨?_, h1.hl, h1.hw, ?_, ?_, ?_⟩
  · rw [skip_seg cur isFireEv cur_fireEv l hl]; exact h.cur
  · rw [skip_seg lastOut isFireEv lastOut_fireEv l hl]; exact h1.l2
  · intro hw
    rcases wokeSince_fireSeg l ti hl hw with hw | ⟨k, hk, hmem⟩
    · exact h1.l3 hw
    · -- the current task waker of the inner instance was woken: `k = p`, age 0
      have hc := h.cur
      rw [hk] at hc
      have hp0 : p ≠ 0 := by intro h0; simp [h0] at hc
      simp only [hp0, if_false, Option.some.injEq] at hc
      subst hc
      have hne : w.handed c ≠ [] := by
        intro hh; have := h.hl; rw [hh] at this; simp at this; exact hp0 this.symm
      obtain ⟨wk, rest, hwk⟩ := List.exists_cons_of_ne_nil hne
      refine owes_fires_hit w c wk _ ?_ (by rw [hwk]; rfl) (by rw [← h.hw, hwk]; rfl)
      simp only [List.mem_map]
      exact ⟨k, (mem_wokes k l).mpr hmem, by simp⟩
  · rw [skip_seg alive isFireEv alive_fireEv l hl]; exact h1.l4

/-- the inner instance is dropped (because `c` was released, or with the whole nest) -/
theorem link_inner_dropSeg {hd : List Wk} {to ti : List Ev} {p c : Nat} (h : LinkC hd to ti p c)
    (hg : alive to = true → gone to c = true) (ld : List Ev) (hld : ∀ e ∈ ld, dropEv e = true) :
    LinkC hd to (ld ++ ti) p c :=
  ⟨by rw [cur_dropSeg ld _ hld]; exact h.cur, h.hl, h.hw,
   by rw [lastOut_dropSeg ld _ hld]; exact h.l2,
   by rw [wokeSince_dropSeg ld _ hld]; exact h.l3,
   fun ha _ => hg ha⟩

/-- the outer instance is dropped -/
theorem link_outer_dropSeg {hd : List Wk} {to ti : List Ev} {p c : Nat} (h : LinkC hd to ti p c)
    (lo : List Ev) (hlo : ∀ e ∈ lo, dropEv e = true) (hdead : alive (lo ++ to) = false) :
    LinkC hd (lo ++ to) ti p c :=
  ⟨h.cur, h.hl, by rw [lastWk_dropSeg lo _ c hlo]; exact h.hw,
   by rw [lastRes_dropSeg lo _ c hlo]; exact h.l2,
   by rw [owes_dropSeg lo _ c hlo]; exact h.l3,
   fun ha => by rw [hdead] at ha; exact Bool.noConfusion ha⟩

theorem resOfOutcome_pend (c x : Nat) (o : Outcome) (h : resOfOutcome c x o = .pend) :
    o = .pending := by
  cases o <;> simp [resOfOutcome] at h ⊢

/-- one poll of the outer instance: `w0` before, `w1` after; `tsp` = trace of the inner instance's
    speculative poll, committed iff `c` was polled -/
theorem link_poll {w0 w1 : World} {ti tsp : List Ev} {p c wid x : Nat} {st : Step}
    (h : LinkC (w0.handed c) w0.trace ti p c)
    (li : List Ev) (hsp : tsp = li ++ .pollBegin (p + 1) :: ti) (hli : ∀ e ∈ li, segEv e = true)
    (hhead : ∃ o t', tsp = .pollEnd o :: t')
    (hres : st.res = resOfOutcome c x (lastOutcome tsp))
    (hfires : st.fires = (wokes (sincePB tsp)).map (fun k => (c, p + 1 - k)))
    (lo : List Ev) (hw1 : w1.trace = lo ++ .pollBegin wid :: w0.trace)
    (hlo : ∀ e ∈ lo, segEv e = true)
    (hnp : NP1 c st w0 w1 ∨ NP2 c st w0 w1) :
    LinkC (w1.handed c) w1.trace (if polledSince w1.trace c then tsp else ti)
      (if polledSince w1.trace c then p + 1 else p) c := by
  have halive : alive w1.trace = alive w0.trace := by
    rw [hw1, alive_seg lo _ hlo]; rfl
  have hgone : gone w0.trace c = true → gone w1.trace c = true := by
    intro hg
    rw [hw1]
    exact gone_mono lo _ c (by simpa [gone] using hg)
  rcases hnp with np | np
  · -- `c` was not polled
    simp only [np.ps, Bool.false_eq_true, if_false]
    refine ⟨h.cur, by rw [np.hd]; exact h.hl, np.hw, ?_, ?_, ?_⟩
    · intro hl; rw [np.lr] at hl; exact h.l2 hl
    · intro hw; exact np.ow (h.l3 hw)
    · intro ha hd; rw [halive] at ha; exact hgone (h.l4 ha hd)
  · -- `c` was polled: the speculative inner poll is committed
    simp only [np.ps, if_true]
    have hcur : cur tsp = some (p + 1) := by
      rw [hsp, cur_seg li _ hli]; rfl
    refine ⟨by simp [hcur], by rw [np.hd, h.hl], np.hw, ?_, ?_, ?_⟩
    · intro hl
      rw [np.lr, hres] at hl
      simp only [Option.some.injEq] at hl
      have := resOfOutcome_pend _ _ _ hl
      obtain ⟨o, t', ht⟩ := hhead
      rw [ht] at this ⊢
      simp only [lastOutcome] at this
      simp [lastOut, this]
    · intro hw
      obtain ⟨k, hk, hmem⟩ := wokeSince_mem tsp hw
      rw [hcur] at hk
      simp only [Option.some.injEq] at hk
      subst hk
      refine np.ow ?_
      rw [hfires]
      simp only [List.mem_map]
      exact ⟨p + 1, (mem_wokes _ _).mpr hmem, by simp⟩
    · intro ha hd
      rw [halive] at ha
      rw [hsp, alive_seg li _ hli] at hd
      exact hgone (h.l4 ha (by simpa [alive] using hd))

end Nest
end Fc
