/-
  FcLemmas/C11Inv.lean — the invariant behind C11 / C12: the concrete group state (`Grp`) is the
  abstract view the monitor reads off the trace (`memberAt`, `lenOf`, `keyOf`), the slab is
  well-formed, and the trace itself satisfies the monitor.
-/
import FcLemmas.C11Obs
set_option linter.unusedSimpArgs false
set_option linter.unusedVariables false

namespace Fc
namespace G11
open Mon Grp

/-! ### events the abstraction ignores -/

/-- events `memberAt`, `lenOf`, `keyOf` do not look at -/
def neutralEv : Ev → Bool
  | .inserted _ _ | .removed _ _ | .childEnd _ _ => false
  | _ => true

theorem memberAt_neutral (e : Ev) (t : List Ev) (k : Nat) (h : neutralEv e = true) :
    memberAt (e :: t) k = memberAt t k := by cases e <;> simp_all [neutralEv, memberAt]
theorem lenOf_neutral (e : Ev) (t : List Ev) (h : neutralEv e = true) :
    lenOf (e :: t) = lenOf t := by cases e <;> simp_all [neutralEv, lenOf]
theorem keyOf_neutral (e : Ev) (t : List Ev) (c : Nat) (h : neutralEv e = true) :
    keyOf (e :: t) c = keyOf t c := by cases e <;> simp_all [neutralEv, keyOf]

/-- events no clause of the monitor looks at -/
def quietEv : Ev → Bool
  | .pollBegin _ | .fired _ _ _ | .woke _ | .wakePanic | .childDropped _ | .valDropped _
  | .dropBegin | .dropEnd => true
  | _ => false

theorem quiet_neutral (e : Ev) (h : quietEv e = true) : neutralEv e = true := by
  cases e <;> simp_all [quietEv, neutralEv]
theorem fire_quiet (e : Ev) (h : isFireEv e = true) : quietEv e = true := by
  cases e <;> simp_all [quietEv, isFireEv]
theorem own_quiet (e : Ev) (h : isOwnEv e = true) : quietEv e = true := by
  cases e <;> simp_all [quietEv, isOwnEv]

theorem gone_cons_mono (e : Ev) (t : List Ev) (c : Nat) (h : gone t c = true) :
    gone (e :: t) c = true := by cases e <;> simp_all [gone]

/-! ### the state / trace abstraction -/

structure Core (stream keyed : Bool) (U : List Nat) (s : Grp) (t : List Ev) : Prop where
  hs : s.stream = stream
  hk : s.keyed = keyed
  /-- the slab holds exactly the members the trace says are in the group -/
  abs : ∀ k, memberAt t k = s.member k
  len : lenOf t = s.len
  slab : Slab s.member s.vac s.entries s.next s.len
  /-- only occupied keys are marked pending -/
  st : ∀ k, s.st k = .pending → s.member k ≠ none
  cap : s.len ≤ s.capacity
  /-- a member sits under the key its insert returned -/
  key : ∀ k c, s.member k = some c → keyOf t c = some k
  /-- ids outside `U` were never inserted -/
  fresh : ∀ c, c ∉ U → keyOf t c = none
  /-- the key set: occupied keys plus the keys queued for removal in this poll -/
  keys : ∀ k, k ∈ s.keys ↔ (s.member k ≠ none ∨ k ∈ s.queue)
  qv : ∀ k, k ∈ s.queue → s.member k = none

theorem Core.trace_eq {stream keyed U s t} (h : Core stream keyed U s t) (t' : List Ev)
    (ha : ∀ k, memberAt t' k = memberAt t k) (hl : lenOf t' = lenOf t)
    (hk : ∀ c, keyOf t' c = keyOf t c) : Core stream keyed U s t' :=
  ⟨h.hs, h.hk, fun k => by rw [ha]; exact h.abs k, by rw [hl]; exact h.len, h.slab, h.st, h.cap,
    fun k c hm => by rw [hk]; exact h.key k c hm, fun c hc => by rw [hk]; exact h.fresh c hc,
    h.keys, h.qv⟩

theorem Core.neutral {stream keyed U s t} (h : Core stream keyed U s t) (e : Ev)
    (he : neutralEv e = true) : Core stream keyed U s (e :: t) :=
  h.trace_eq _ (fun k => memberAt_neutral e t k he) (lenOf_neutral e t he)
    (fun c => keyOf_neutral e t c he)

theorem Core.mono {stream keyed U U' s t} (h : Core stream keyed U s t)
    (hu : ∀ c, c ∈ U → c ∈ U') : Core stream keyed U' s t :=
  ⟨h.hs, h.hk, h.abs, h.len, h.slab, h.st, h.cap, h.key,
    fun c hc => h.fresh c (fun hm => hc (hu c hm)), h.keys, h.qv⟩

/-- the member in an eligible slot -/
theorem Core.member_of_pending {stream keyed U s t} (h : Core stream keyed U s t) (i : Nat)
    (hp : s.st i = .pending) : s.member i = some ((s.member i).getD 0) := by
  have := h.st i hp
  cases hm : s.member i with
  | none => exact absurd hm this
  | some c => rfl

/-- a member occupies one key only -/
theorem Core.member_inj {stream keyed U s t} (h : Core stream keyed U s t) (k j c : Nat)
    (hk : s.member k = some c) (hj : s.member j = some c) : j = k := by
  have h1 := h.key k c hk
  have h2 := h.key j c hj
  rw [h1] at h2
  exact (Option.some.inj h2).symm

/-- `flushQueue`: the keys queued for removal leave the key set -/
theorem Core.flush {stream keyed U s t} (h : Core stream keyed U s t) :
    Core stream keyed U s.flushQueue t := by
  refine ⟨h.hs, h.hk, h.abs, h.len, h.slab, h.st, h.cap, h.key, h.fresh, ?_, ?_⟩
  · intro k
    simp only [flushQueue, List.mem_filter, Bool.not_eq_true', List.contains_eq_mem,
      decide_eq_false_iff_not, List.not_mem_nil, or_false]
    constructor
    · rintro ⟨h1, h2⟩
      rcases (h.keys k).mp h1 with h3 | h3
      · exact h3
      · exact absurd h3 h2
    · intro h1
      refine ⟨(h.keys k).mpr (Or.inl h1), fun h2 => h1 (h.qv k h2)⟩
  · intro k hk
    simp [flushQueue] at hk

/-- a larger capacity -/
theorem Core.capGrow {stream keyed U s t} (h : Core stream keyed U s t) (n : Nat)
    (hn : s.capacity ≤ n) : Core stream keyed U { s with capacity := n } t :=
  ⟨h.hs, h.hk, h.abs, h.len, h.slab, h.st, Nat.le_trans h.cap hn, h.key, h.fresh, h.keys, h.qv⟩

/-- the member under `k` leaves the group (it finished, or was removed) -/
theorem Core.removeAt {stream keyed U s t} (h : Core stream keyed U s t) (k c : Nat)
    (hm : s.member k = some c) (s' : Grp) (t' : List Ev)
    (e1 : s'.stream = s.stream) (e2 : s'.keyed = s.keyed) (e3 : s'.member = upd s.member k none)
    (e4 : s'.vac = upd s.vac k s.next) (e5 : s'.entries = s.entries) (e6 : s'.next = k)
    (e7 : s'.len = s.len - 1) (e8 : s'.st = upd s.st k .none) (e9 : s'.capacity = s.capacity)
    (hkeys : ∀ j, j ∈ s'.keys ↔ (s'.member j ≠ none ∨ j ∈ s'.queue))
    (hq : ∀ j, j ∈ s'.queue → s'.member j = none)
    (ta : ∀ j, memberAt t' j = if j = k then none else memberAt t j)
    (tl : lenOf t' = lenOf t - 1) (tk : ∀ c', keyOf t' c' = keyOf t c') :
    Core stream keyed U s' t' ∧ 1 ≤ s.len := by
  obtain ⟨hsl, hpos⟩ := h.slab.remove k c hm
  refine ⟨⟨by rw [e1, h.hs], by rw [e2, h.hk], ?_, by rw [tl, e7, h.len], ?_, ?_, ?_, ?_,
    fun c' hc' => by rw [tk]; exact h.fresh c' hc', hkeys, hq⟩, hpos⟩
  · intro j
    rw [ta, e3]
    by_cases hjk : j = k
    · subst hjk; simp
    · simp only [hjk, if_false, upd_other _ _ _ _ hjk]; exact h.abs j
  · rw [e3, e4, e5, e6, e7]; exact hsl
  · intro j hj
    rw [e8] at hj
    rw [e3]
    by_cases hjk : j = k
    · subst hjk; simp at hj
    · rw [upd_other _ _ _ _ hjk] at hj
      rw [upd_other _ _ _ _ hjk]
      exact h.st j hj
  · rw [e7, e9]; have := h.cap; omega
  · intro j c' hj
    rw [e3] at hj
    rw [tk]
    by_cases hjk : j = k
    · subst hjk; simp at hj
    · rw [upd_other _ _ _ _ hjk] at hj
      exact h.key j c' hj

/-- what `childEnd c r` with a finishing `r` does to `memberAt`, in terms of the key -/
theorem Core.abs_fin {stream keyed U s t} (h : Core stream keyed U s t) (k c : Nat)
    (hm : s.member k = some c) (j : Nat) :
    (if (true && memberAt t j == some c) = true then none else memberAt t j)
      = if j = k then none else memberAt t j := by
  by_cases hjk : j = k
  · subst hjk
    simp [h.abs, hm]
  · simp only [hjk, if_false, Bool.true_and, beq_iff_eq]
    split
    · rename_i heq
      rw [h.abs] at heq
      exact absurd (h.member_inj k j c hm heq) hjk
    · rfl

/-- `insert` into the next vacant key -/
theorem Core.insertAt {stream keyed U s t} (h : Core stream keyed U s t) (hq : s.queue = [])
    (c : Nat) (hc : c ∉ U) (hcap : s.len < s.capacity) (r : List Nat) :
    Core stream keyed (c :: U)
      { (s.slabInsert c) with st := upd s.st s.next .pending,
                              keys := insertSorted s.next s.keys, ret := r }
      (.inserted c s.next :: t) := by
  have hfr := h.fresh c hc
  have hvac := h.slab.next_vacant
  have habs : ∀ k, memberAt (.inserted c s.next :: t) k = upd s.member s.next (some c) k := by
    intro k
    simp only [memberAt]
    by_cases hk : k = s.next
    · subst hk; simp
    · have : ¬ s.next = k := fun hh => hk hh.symm
      simp only [this, if_false, upd_other _ _ _ _ hk]
      exact h.abs k
  have hst : ∀ k, upd s.st s.next PS.pending k = .pending → upd s.member s.next (some c) k ≠ none := by
    intro k hk
    by_cases hkn : k = s.next
    · subst hkn; simp
    · rw [upd_other _ _ _ _ hkn] at hk ⊢
      exact h.st k hk
  have hkey : ∀ k c', upd s.member s.next (some c) k = some c' →
      keyOf (.inserted c s.next :: t) c' = some k := by
    intro k c' hk
    simp only [keyOf]
    by_cases hkn : k = s.next
    · subst hkn
      simp only [upd_same, Option.some.injEq] at hk
      subst hk; simp
    · rw [upd_other _ _ _ _ hkn] at hk
      have h1 := h.key k c' hk
      have : ¬ c = c' := by
        intro hcc; subst hcc; rw [hfr] at h1; cases h1
      simp only [this, if_false]; exact h1
  have hfresh : ∀ c', c' ∉ c :: U → keyOf (.inserted c s.next :: t) c' = none := by
    intro c' hc'
    simp only [List.mem_cons, not_or] at hc'
    simp only [keyOf]
    have : ¬ c = c' := fun hh => hc'.1 hh.symm
    simp only [this, if_false]
    exact h.fresh c' hc'.2
  have hkeys : ∀ k, k ∈ insertSorted s.next s.keys ↔
      (upd s.member s.next (some c) k ≠ none ∨ k ∈ s.queue) := by
    intro k
    rw [mem_insertSorted, h.keys k, hq]
    by_cases hkn : k = s.next
    · subst hkn; simp
    · simp only [hkn, false_or, upd_other _ _ _ _ hkn]
  have hqv : ∀ k, k ∈ s.queue → upd s.member s.next (some c) k = none := by
    intro k hk; rw [hq] at hk; cases hk
  have hlen : lenOf (.inserted c s.next :: t) = s.len + 1 := by simp [lenOf, h.len]
  by_cases hn : s.next = s.entries
  · have hsl := h.slab.push c hn
    simp only [slabInsert, hn, if_true]
    rw [hn] at habs hst hkey hkeys hqv hsl hlen
    exact ⟨h.hs, h.hk, habs, hlen, hsl, hst, Nat.succ_le_of_lt hcap, hkey,
      by rw [← hn]; exact hfresh, hkeys, hqv⟩
  · have hsl := h.slab.reuse c hn
    simp only [slabInsert, hn, if_false]
    exact ⟨h.hs, h.hk, habs, hlen, hsl, hst, Nat.succ_le_of_lt hcap, hkey, hfresh, hkeys, hqv⟩

/-! ### the trace-only part -/

structure Tr (stream keyed : Bool) (nch : Nat) (t : List Ev) : Prop where
  mon : holds_G stream keyed nch t = true
  /-- every member that resolved / ended was dropped -/
  fg : ∀ c, finished t c = true → gone t c = true

theorem Tr.quiet {stream keyed nch t} (h : Tr stream keyed nch t) (e : Ev) (he : quietEv e = true) :
    Tr stream keyed nch (e :: t) := by
  refine ⟨?_, ?_⟩
  · have : holds_G stream keyed nch (e :: t) = holds_G stream keyed nch t := by
      cases e <;> simp_all [quietEv, holds_G]
    rw [this]; exact h.mon
  · intro c hc
    have : finished (e :: t) c = finished t c := by
      unfold finished
      have : lastRes (e :: t) c = lastRes t c := by cases e <;> simp_all [quietEv, lastRes]
      rw [this]
    rw [this] at hc
    exact gone_cons_mono e t c (h.fg c hc)

theorem Tr.quietSeg {stream keyed nch t} (h : Tr stream keyed nch t) (l : List Ev)
    (hl : ∀ e ∈ l, quietEv e = true) : Tr stream keyed nch (l ++ t) := by
  induction l with
  | nil => exact h
  | cons e l ih =>
    exact (ih (fun e' he' => hl e' (List.mem_cons_of_mem _ he'))).quiet e
      (hl e (List.mem_cons_self ..))

/-- an event with its own monitor clause that is not a child answer -/
theorem Tr.step {stream keyed nch t} (h : Tr stream keyed nch t) (e : Ev)
    (hm : holds_G stream keyed nch (e :: t) = true)
    (hf : ∀ c, lastRes (e :: t) c = lastRes t c) : Tr stream keyed nch (e :: t) := by
  refine ⟨hm, ?_⟩
  intro c hc
  have : finished (e :: t) c = finished t c := by unfold finished; rw [hf]
  rw [this] at hc
  exact gone_cons_mono e t c (h.fg c hc)

theorem Tr.pollEnd {stream keyed nch t} (h : Tr stream keyed nch t) (o : Outcome)
    (hg : grpAt stream keyed t o = true) (hy : yielded (.pollEnd o :: t) = producedVals t) :
    Tr stream keyed nch (.pollEnd o :: t) := by
  refine h.step _ ?_ (fun c => by simp [lastRes])
  simp only [holds_G, h.mon, hg, hy, Bool.true_and, beq_self_eq_true, List.all_eq_true,
    List.mem_range, Bool.or_eq_true, Bool.not_eq_true']
  intro c _
  cases hf : finished t c
  · exact Or.inl rfl
  · exact Or.inr (h.fg c hf)

/-- one child poll -/
theorem Tr.seg {stream keyed nch t} (h : Tr stream keyed nch t) (c slot : Nat) (wk : Wk)
    (l : List Ev) (r : Res) (evs : List Ev) (hm : memberAt t slot = some c)
    (hnd : delivered (sincePoll t) = false) (hl : ∀ e ∈ l, isFireEv e = true)
    (hev : ∀ e ∈ evs, isOwnEv e = true) (hfin : Res.finishes r = true → gone evs.reverse c = true) :
    Tr stream keyed nch (pollSeg c slot wk l r evs t) := by
  refine ⟨?_, ?_⟩
  · rw [holds_pollSeg stream keyed nch c slot wk l r evs t hl hev, h.mon, hm, hnd]; simp
  · intro j hj
    rw [finished_pollSeg c slot wk l r evs t j hl hev] at hj
    rw [gone_pollSeg c slot wk l r evs t j hl]
    by_cases hcj : c = j
    · subst hcj
      simp only [if_true] at hj
      rw [hfin hj]; rfl
    · simp only [hcj, if_false] at hj
      rw [h.fg j hj]; simp

/-! ### boundary and loop invariants -/

structure Inv (stream keyed : Bool) (nch : Nat) (U : List Nat) (s : Grp) (t : List Ev) : Prop where
  tr : Tr stream keyed nch t
  yp : yielded t = producedVals t
  np : inPoll t = false
  dead : s.dead = true → (!alive t || panickedSeen t) = true
  live : s.dead = false → Core stream keyed U s t ∧ s.queue = []

structure JInv (stream keyed : Bool) (nch : Nat) (U : List Nat) (s : Grp) (t : List Ev) : Prop where
  tr : Tr stream keyed nch t
  yp : yielded t = producedVals t
  nd : delivered (sincePoll t) = false
  hd : s.dead = false
  core : Core stream keyed U s t
  cnt : s.len + s.doneCnt = s.total
  tot : s.total ≠ 0
  fut : stream = false → s.doneCnt = 0 ∧ s.queue = []

theorem Inv.mono {stream keyed nch U U' s t} (h : Inv stream keyed nch U s t)
    (hu : ∀ c, c ∈ U → c ∈ U') : Inv stream keyed nch U' s t :=
  ⟨h.tr, h.yp, h.np, h.dead, fun hd => ⟨(h.live hd).1.mono hu, (h.live hd).2⟩⟩

/-- a wake-up between polls -/
theorem Inv.fireEv {stream keyed nch U s t} (h : Inv stream keyed nch U s t) (e : Ev)
    (he : isFireEv e = true) : Inv stream keyed nch U s (e :: t) := by
  have hq := fire_quiet e he
  refine ⟨h.tr.quiet e hq, ?_, ?_, ?_, fun hd => ⟨(h.live hd).1.neutral e (quiet_neutral e hq), (h.live hd).2⟩⟩
  · have h1 : yielded (e :: t) = yielded t := by cases e <;> simp_all [isFireEv, yielded]
    have h2 : producedVals (e :: t) = producedVals t := by
      cases e <;> simp_all [isFireEv, producedVals]
    rw [h1, h2]; exact h.yp
  · rw [inPoll_fireEv e t he]; exact h.np
  · intro hd
    have h2 : panickedSeen (e :: t) = panickedSeen t := by
      cases e <;> simp_all [isFireEv, panickedSeen]
    rw [alive_fireEv e t he, h2]; exact h.dead hd

/-- polling a dropped / unwound group -/
theorem Inv.misuse {stream keyed nch U s t} (h : Inv stream keyed nch U s t) (w : Nat)
    (hd : s.dead = true) : Inv stream keyed nch U s (.pollEnd .misuse :: .pollBegin w :: t) := by
  have hdd := h.dead hd
  refine ⟨(h.tr.quiet (.pollBegin w) rfl).pollEnd _ ?_ ?_, ?_, rfl, ?_, fun hd' => by simp [hd] at hd'⟩
  · simpa [grpAt, alive, panickedSeen] using hdd
  · simpa [yielded, producedVals] using h.yp
  · simpa [yielded, producedVals] using h.yp
  · intro _; simpa [alive, panickedSeen] using hdd

/-- polling an empty group -/
theorem Inv.empty {stream keyed nch U s t} (h : Inv stream keyed nch U s t) (w : Nat)
    (hd : s.dead = false) (hl : s.len = 0) :
    Inv stream keyed nch U s (.pollEnd .none :: .pollBegin w :: t) := by
  obtain ⟨hc, hq⟩ := h.live hd
  refine ⟨(h.tr.quiet (.pollBegin w) rfl).pollEnd _ ?_ ?_, ?_, rfl,
    fun hd' => by simp [hd] at hd',
    fun _ => ⟨(hc.neutral (.pollBegin w) rfl).neutral (.pollEnd .none) rfl, hq⟩⟩
  · simp [grpAt, lenOf, sincePoll, delivered, hc.len, hl]
  · simpa [yielded, producedVals] using h.yp
  · simpa [yielded, producedVals] using h.yp

/-- the scan starts -/
theorem Inv.start {stream keyed nch U s t} (h : Inv stream keyed nch U s t) (w : Nat)
    (hd : s.dead = false) (hl : s.len ≠ 0) :
    JInv stream keyed nch U { s with doneCnt := 0, total := s.len } (.pollBegin w :: t) := by
  obtain ⟨hc, hq⟩ := h.live hd
  have hc' := hc.neutral (.pollBegin w) rfl
  exact ⟨h.tr.quiet (.pollBegin w) rfl, by simpa [yielded, producedVals] using h.yp,
    by simp [sincePoll, delivered], hd,
    ⟨hc'.hs, hc'.hk, hc'.abs, hc'.len, hc'.slab, hc'.st, hc'.cap, hc'.key, hc'.fresh, hc'.keys, hc'.qv⟩,
    rfl, hl, fun _ => ⟨rfl, hq⟩⟩

/-- leaving the loop with `Pending` / `None` -/
theorem JInv.leave {stream keyed nch U s t} (h : JInv stream keyed nch U s t) (s' : Grp)
    (o : Outcome) (hc : Core stream keyed U s' t) (hq : s'.queue = []) (hd : s'.dead = false)
    (ho : (o = .pending ∧ s.len ≠ 0) ∨ (o = .none ∧ s.len = 0)) :
    Inv stream keyed nch U s' (.pollEnd o :: t) := by
  have hlen := h.core.len
  rcases ho with ⟨rfl, hl⟩ | ⟨rfl, hl⟩
  · refine ⟨h.tr.pollEnd _ ?_ ?_, ?_, rfl, fun hd' => by simp [hd] at hd',
      fun _ => ⟨hc.neutral _ rfl, hq⟩⟩
    · simp [grpAt, hlen, hl, h.nd]
    · simpa [yielded] using h.yp
    · simpa [yielded, producedVals] using h.yp
  · refine ⟨h.tr.pollEnd _ ?_ ?_, ?_, rfl, fun hd' => by simp [hd] at hd',
      fun _ => ⟨hc.neutral _ rfl, hq⟩⟩
    · simp [grpAt, hlen, hl, h.nd]
    · simpa [yielded] using h.yp
    · simpa [yielded, producedVals] using h.yp

/-- a member that neither delivers nor ends -/
theorem JInv.keep {stream keyed nch U s t} (h : JInv stream keyed nch U s t) (i : Nat) (wk : Wk)
    (l : List Ev) (r : Res) (hp : s.st i = .pending) (hl : ∀ e ∈ l, isFireEv e = true)
    (hf : Res.finishes r = false) (hdv : delivers r = none) :
    JInv stream keyed nch U s (pollSeg ((s.member i).getD 0) i wk l r [] t) := by
  have hev : ∀ e ∈ ([] : List Ev), isOwnEv e = true := by simp
  have hm := h.core.member_of_pending i hp
  have hmt : memberAt t i = some ((s.member i).getD 0) := by rw [h.core.abs]; exact hm
  refine ⟨h.tr.seg _ i wk l r [] hmt h.nd hl hev (by simp [hf]), ?_, ?_, h.hd, ?_, h.cnt, h.tot, h.fut⟩
  · rw [yielded_pollSeg _ _ _ _ _ _ _ hl hev, producedVals_pollSeg _ _ _ _ _ _ _ hl hev, hdv]
    exact h.yp
  · rw [delivered_pollSeg _ _ _ _ _ _ _ hl hev, hdv, h.nd]; rfl
  · refine h.core.trace_eq _ (fun k => ?_) ?_ (fun c => keyOf_pollSeg _ _ _ _ _ _ _ c hl hev)
    · rw [memberAt_pollSeg _ _ _ _ _ _ _ k hl hev, hf]; simp
    · rw [lenOf_pollSeg _ _ _ _ _ _ _ hl hev, hf]; simp

/-- a member stream ends: it is dropped, its key queued for removal -/
theorem JInv.fin {stream keyed nch U s t} (h : JInv stream keyed nch U s t) (i : Nat) (wk : Wk)
    (l : List Ev) (hp : s.st i = .pending) (hl : ∀ e ∈ l, isFireEv e = true) (hstr : stream = true) :
    JInv stream keyed nch U
      { (s.slabRemove i) with st := upd s.st i .none, doneCnt := s.doneCnt + 1,
                              queue := s.queue ++ [i] }
      (pollSeg ((s.member i).getD 0) i wk l .fin [.childDropped ((s.member i).getD 0)] t) := by
  have hev : ∀ e ∈ [Ev.childDropped ((s.member i).getD 0)], isOwnEv e = true := by simp [isOwnEv]
  have hm := h.core.member_of_pending i hp
  have hmt : memberAt t i = some ((s.member i).getD 0) := by rw [h.core.abs]; exact hm
  obtain ⟨hcore, hpos⟩ := h.core.removeAt i _ hm
    { (s.slabRemove i) with st := upd s.st i .none, doneCnt := s.doneCnt + 1, queue := s.queue ++ [i] }
    (pollSeg ((s.member i).getD 0) i wk l .fin [.childDropped ((s.member i).getD 0)] t)
    rfl rfl rfl rfl rfl rfl rfl rfl rfl
    (by
      intro j
      simp only [slabRemove, List.mem_append, List.mem_singleton]
      rw [h.core.keys j]
      by_cases hji : j = i
      · subst hji; simp; exact Or.inl (h.core.st _ hp)
      · simp only [hji, or_false, upd_other _ _ _ _ hji])
    (by
      intro j hj
      simp only [slabRemove, List.mem_append, List.mem_singleton] at hj ⊢
      by_cases hji : j = i
      · subst hji; simp
      · rw [upd_other _ _ _ _ hji]
        rcases hj with hj | hj
        · exact h.core.qv j hj
        · exact absurd hj hji)
    (by
      intro j
      rw [memberAt_pollSeg _ _ _ _ _ _ _ j hl hev]
      exact h.core.abs_fin i _ hm j)
    (by rw [lenOf_pollSeg _ _ _ _ _ _ _ hl hev]; rfl)
    (fun c' => keyOf_pollSeg _ _ _ _ _ _ _ c' hl hev)
  refine ⟨h.tr.seg _ i wk l .fin _ hmt h.nd hl hev (by simp [gone]), ?_, ?_, h.hd, hcore, ?_, h.tot,
    fun hs => by rw [hstr] at hs; cases hs⟩
  · rw [yielded_pollSeg _ _ _ _ _ _ _ hl hev, producedVals_pollSeg _ _ _ _ _ _ _ hl hev]
    exact h.yp
  · rw [delivered_pollSeg _ _ _ _ _ _ _ hl hev, h.nd]; rfl
  · have := h.cnt
    simp only [slabRemove]
    omega

/-- the verdict on a `Some` outcome right after the delivering child poll -/
theorem grpAt_some {stream keyed U s t} (hc : Core stream keyed U s t) (i : Nat) (wk : Wk)
    (l : List Ev) (r : Res) (evs : List Ev) (v : Nat) (hm : s.member i = some ((s.member i).getD 0))
    (hl : ∀ e ∈ l, isFireEv e = true) (hev : ∀ e ∈ evs, isOwnEv e = true)
    (hr : (∃ ok, r = .ready ok v ∧ stream = false) ∨ (r = .item v ∧ stream = true)) :
    grpAt stream keyed (pollSeg ((s.member i).getD 0) i wk l r evs t) (.some (s.outKey i) [v]) = true := by
  have hkey := hc.key i _ hm
  simp only [grpAt, head_pollSeg _ _ _ _ _ _ _ hl hev, keyOf_pollSeg _ _ _ _ _ _ _ _ hl hev, hkey,
    outKey, hc.hk]
  rcases hr with ⟨ok, rfl, hs⟩ | ⟨rfl, hs⟩
  · subst hs; cases keyed <;> simp [hkey]
  · subst hs; cases keyed <;> simp [hkey]

/-- a member future resolves: it is dropped, its key freed, its output returned -/
theorem JInv.ready {stream keyed nch U s t} (h : JInv stream keyed nch U s t) (i : Nat) (wk : Wk)
    (l : List Ev) (ok : Bool) (v : Nat) (hp : s.st i = .pending) (hl : ∀ e ∈ l, isFireEv e = true)
    (hstr : stream = false) :
    Inv stream keyed nch U
      { (s.slabRemove i) with st := upd s.st i .none, keys := s.keys.filter (· ≠ i) }
      (.pollEnd (.some (s.outKey i) [v]) ::
        pollSeg ((s.member i).getD 0) i wk l (.ready ok v) [.childDropped ((s.member i).getD 0)] t) := by
  have hev : ∀ e ∈ [Ev.childDropped ((s.member i).getD 0)], isOwnEv e = true := by simp [isOwnEv]
  have hm := h.core.member_of_pending i hp
  have hmt : memberAt t i = some ((s.member i).getD 0) := by rw [h.core.abs]; exact hm
  have hq : s.queue = [] := (h.fut hstr).2
  obtain ⟨hcore, hpos⟩ := h.core.removeAt i _ hm
    { (s.slabRemove i) with st := upd s.st i .none, keys := s.keys.filter (· ≠ i) }
    (pollSeg ((s.member i).getD 0) i wk l (.ready ok v) [.childDropped ((s.member i).getD 0)] t)
    rfl rfl rfl rfl rfl rfl rfl rfl rfl
    (by
      intro j
      simp only [slabRemove, List.mem_filter, decide_eq_true_eq, hq, List.not_mem_nil, or_false]
      rw [h.core.keys j, hq]
      by_cases hji : j = i
      · subst hji; simp
      · simp only [hji, upd_other _ _ _ _ hji, List.not_mem_nil, or_false, ne_eq, not_false_eq_true,
          and_true])
    (by
      intro j hj
      simp only [slabRemove, hq] at hj
      cases hj)
    (by
      intro j
      rw [memberAt_pollSeg _ _ _ _ _ _ _ j hl hev]
      exact h.core.abs_fin i _ hm j)
    (by rw [lenOf_pollSeg _ _ _ _ _ _ _ hl hev]; rfl)
    (fun c' => keyOf_pollSeg _ _ _ _ _ _ _ c' hl hev)
  have htr := h.tr.seg _ i wk l (.ready ok v) _ hmt h.nd hl hev (by simp [gone])
  have hy : yielded (.pollEnd (.some (s.outKey i) [v]) ::
      pollSeg ((s.member i).getD 0) i wk l (.ready ok v) [.childDropped ((s.member i).getD 0)] t)
      = producedVals (pollSeg ((s.member i).getD 0) i wk l (.ready ok v)
          [.childDropped ((s.member i).getD 0)] t) := by
    simp only [yielded, List.reverse_cons, List.reverse_nil, List.nil_append, List.singleton_append]
    rw [yielded_pollSeg _ _ _ _ _ _ _ hl hev, producedVals_pollSeg _ _ _ _ _ _ _ hl hev, h.yp]
    rfl
  refine ⟨htr.pollEnd _ (grpAt_some h.core i wk l _ _ v hm hl hev (Or.inl ⟨ok, rfl, hstr⟩)) hy, ?_, rfl,
    fun hd' => by simp [slabRemove, h.hd] at hd',
    fun _ => ⟨hcore.neutral _ rfl, by simp [slabRemove, hq]⟩⟩
  rw [hy]; simp [producedVals]

/-- a member stream yields an item: it is returned, tagged with the member's key -/
theorem JInv.item {stream keyed nch U s t} (h : JInv stream keyed nch U s t) (i : Nat) (wk : Wk)
    (l : List Ev) (v : Nat) (hp : s.st i = .pending) (hl : ∀ e ∈ l, isFireEv e = true)
    (hstr : stream = true) :
    Inv stream keyed nch U s.flushQueue
      (.pollEnd (.some (s.outKey i) [v]) :: pollSeg ((s.member i).getD 0) i wk l (.item v) [] t) := by
  have hev : ∀ e ∈ ([] : List Ev), isOwnEv e = true := by simp
  have hm := h.core.member_of_pending i hp
  have hmt : memberAt t i = some ((s.member i).getD 0) := by rw [h.core.abs]; exact hm
  have hcore : Core stream keyed U s.flushQueue (pollSeg ((s.member i).getD 0) i wk l (.item v) [] t) := by
    refine h.core.flush.trace_eq _ (fun k => ?_) ?_ (fun c => keyOf_pollSeg _ _ _ _ _ _ _ c hl hev)
    · rw [memberAt_pollSeg _ _ _ _ _ _ _ k hl hev]; simp [Res.finishes]
    · rw [lenOf_pollSeg _ _ _ _ _ _ _ hl hev]; simp [Res.finishes]
  have htr := h.tr.seg _ i wk l (.item v) [] hmt h.nd hl hev (by simp [Res.finishes])
  have hy : yielded (.pollEnd (.some (s.outKey i) [v]) ::
      pollSeg ((s.member i).getD 0) i wk l (.item v) [] t)
      = producedVals (pollSeg ((s.member i).getD 0) i wk l (.item v) [] t) := by
    simp only [yielded, List.reverse_cons, List.reverse_nil, List.nil_append, List.singleton_append]
    rw [yielded_pollSeg _ _ _ _ _ _ _ hl hev, producedVals_pollSeg _ _ _ _ _ _ _ hl hev, h.yp]
    rfl
  refine ⟨htr.pollEnd _ (grpAt_some h.core i wk l _ _ v hm hl hev (Or.inr ⟨rfl, hstr⟩)) hy, ?_, rfl,
    fun hd' => by simp [flushQueue, h.hd] at hd',
    fun _ => ⟨hcore.neutral _ rfl, by simp [flushQueue]⟩⟩
  rw [hy]; simp [producedVals]

/-- a member's poll unwinds through the group -/
theorem JInv.panic {stream keyed nch U s t} (h : JInv stream keyed nch U s t) (i : Nat) (wk : Wk)
    (l : List Ev) (hp : s.st i = .pending) (hl : ∀ e ∈ l, isFireEv e = true) (s' : Grp)
    (hd : s'.dead = true) :
    Inv stream keyed nch U s'
      (.pollEnd .panicked :: pollSeg ((s.member i).getD 0) i wk l .panic [] t) := by
  have hev : ∀ e ∈ ([] : List Ev), isOwnEv e = true := by simp
  have hm := h.core.member_of_pending i hp
  have hmt : memberAt t i = some ((s.member i).getD 0) := by rw [h.core.abs]; exact hm
  have htr := h.tr.seg _ i wk l .panic [] hmt h.nd hl hev (by simp [Res.finishes])
  have hy : yielded (.pollEnd .panicked :: pollSeg ((s.member i).getD 0) i wk l .panic [] t)
      = producedVals (pollSeg ((s.member i).getD 0) i wk l .panic [] t) := by
    simp only [yielded]
    rw [yielded_pollSeg _ _ _ _ _ _ _ hl hev, producedVals_pollSeg _ _ _ _ _ _ _ hl hev, h.yp]
    rfl
  refine ⟨htr.pollEnd _ rfl hy, ?_, rfl, fun _ => by simp [panickedSeen],
    fun hd' => by simp [hd] at hd'⟩
  rw [hy]; simp [producedVals]

/-- dropping the group -/
theorem Inv.drop {stream keyed nch U s t} (h : Inv stream keyed nch U s t) (evs : List Ev)
    (hev : ∀ e ∈ evs, isOwnEv e = true) (s' : Grp) (hd : s'.dead = true) :
    Inv stream keyed nch U s' (.dropEnd :: (evs.reverse ++ .dropBegin :: t)) := by
  have hr : ∀ e ∈ evs.reverse, isOwnEv e = true := fun e he => hev e (List.mem_reverse.mp he)
  refine ⟨((h.tr.quiet .dropBegin rfl).quietSeg evs.reverse
      (fun e he => own_quiet e (hr e he))).quiet .dropEnd rfl, ?_, ?_, ?_, fun hd' => by simp [hd] at hd'⟩
  · simp only [yielded, producedVals]
    rw [skip_seg yielded isOwnEv (fun e t h => by cases e <;> simp_all [isOwnEv, yielded]) _ hr,
      skip_seg producedVals isOwnEv (fun e t h => by cases e <;> simp_all [isOwnEv, producedVals]) _ hr]
    simpa [yielded, producedVals] using h.yp
  · simp only [inPoll]
    rw [skip_seg inPoll isOwnEv (fun e t h => inPoll_own e t h) _ hr]
    simpa [inPoll] using h.np
  · intro _
    simp only [alive]
    rw [skip_seg alive isOwnEv (fun e t h => alive_own e t h) _ hr]
    simp [alive]

end G11
end Fc
