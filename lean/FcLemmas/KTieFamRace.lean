/-
  Kernel tie, `Vec<Fut>::race()` — the model side (`Eng.visit race`, `Eng.poll race` unfolded for the direct
  strategy) and the invariant of the translated loop.
-/
import FcLemmas.KTieFamEnv
import FcLemmas.KTieFamLoop
import FcGen.KSrcFam
import Fc.Families

set_option linter.unusedSimpArgs false
set_option linter.unusedVariables false

namespace Fc
open Rs Src

namespace TieRaceV
open RaceV TieDirect TieLoop

/-! ### the model's `visit` for race, direct strategy -/

theorem visit_race_pend (e : Eng Fix) (i : Nat) (hm : e.w.mode = .direct) (hr : e.w.resOf i = .pend) :
    Eng.visit race e i = ({ e with w := e.w.pollChild i i }, none) := by
  simp [Eng.visit, race, Eng.gateGo, Eng.gateW, World.isSet, World.clearReady, hm, hr, Eng.applyH, Fix.keep,
    emits_nil, World.kop]

theorem visit_race_ready (e : Eng Fix) (i : Nat) (ok : Bool) (v : Nat) (hm : e.w.mode = .direct)
    (hr : e.w.resOf i = .ready ok v) :
    Eng.visit race e i = ({ w := e.w.pollChild i i, s := e.s.kill }, some (.ready true [v])) := by
  simp [Eng.visit, race, Eng.gateGo, Eng.gateW, World.isSet, World.clearReady, hm, hr, Eng.applyH,
    emits_nil, World.kop]

/-- `Eng.poll race` on a live combinator: bump the offset, scan the rotated order, close -/
theorem poll_race_live (e : Eng Fix) (w : Nat) (hd : e.s.dead = false) :
    Eng.poll race e w =
      Eng.close race (Eng.scan race e.s.rot { w := (e.w.emit (.pollBegin w)).setWaker w, s := e.s.bump }) := by
  simp [Eng.poll, Eng.body, race, Fix.misuseIfDead, hd]

theorem close_race_some (r : Eng Fix) (o : Outcome) :
    Eng.close race (r, some o) = r.emit (.pollEnd o) := rfl

theorem close_race_none (r : Eng Fix) :
    Eng.close race (r, none) = r.emit (.pollEnd .pending) := by
  simp [Eng.close, race, Eng.applyH, emits_nil, World.kop, Eng.emit]

/-! ### the loop invariant: the carried `(self, env)` is the model state -/

/-- between iterations: same world; the combinator's children, offset, maximum are fixed, `done` is still false -/
def Inv (n off cx : Nat) (s : Race × World) (e : Eng Fix) : Prop :=
  e.w = s.2 ∧ e.s.n = n ∧ e.s.off = off ∧ e.s.dead = false ∧
  s.1.roleKids.len = n ∧ s.1.roleIndexer.roleOffset = off ∧ s.1.roleIndexer.roleMax = n ∧ s.1.roleDone = false ∧
  s.2.mode = .direct ∧ s.2.parent = some cx ∧ FutSteps s.2

/-- after the iteration that returned: as `Inv`, but `done` / `dead` are set -/
def Fin (n off : Nat) (_v : Rs.Poll Nat) (s : Race × World) (e : Eng Fix) : Prop :=
  e.w = s.2 ∧ e.s.n = n ∧ e.s.off = off ∧ e.s.dead = true ∧
  s.1.roleKids.len = n ∧ s.1.roleIndexer.roleOffset = off ∧ s.1.roleIndexer.roleMax = n ∧ s.1.roleDone = true

end TieRaceV

end Fc
