/-
  FcLemmas/C10.lean — chain: `index` (`cnt`) is the first input that has not ended; everything
  before it has ended, nothing after it was ever polled; every item taken is yielded by the poll
  that took it, so the yielded sequence is the produced sequence, and the sources of the items
  never decrease.
-/
import FcLemmas.Seg
set_option linter.unusedSimpArgs false
set_option linter.unusedVariables false

namespace Fc
namespace C10
open Mon Fix

/-! ### events the C10 observations do not look at -/

/-- everything except the four poll-structure events -/
def neut : Ev → Bool
  | .pollBegin _ | .pollEnd _ | .childBegin _ _ _ | .childEnd _ _ => false
  | _ => true

theorem neut_of_fire (e : Ev) (h : isFireEv e = true) : neut e = true := by
  cases e <;> simp_all [isFireEv, neut]

theorem neut_of_own (e : Ev) (h : isOwnEv e = true) : neut e = true := by
  cases e <;> simp_all [isOwnEv, neut]

theorem holds_neut (n : Nat) (e : Ev) (t : List Ev) (h : neut e = true) :
    holds_C10 n (e :: t) = holds_C10 n t := by
  cases e <;> simp_all [neut, holds_C10]

theorem items_neut (e : Ev) (t : List Ev) (h : neut e = true) : items (e :: t) = items t := by
  cases e <;> simp_all [neut, items]

theorem srcs_neut (e : Ev) (t : List Ev) (h : neut e = true) : srcs (e :: t) = srcs t := by
  cases e <;> simp_all [neut, srcs]

theorem yielded_neut (e : Ev) (t : List Ev) (h : neut e = true) : yielded (e :: t) = yielded t := by
  cases e <;> simp_all [neut, yielded]

theorem lastRes_neut (c : Nat) (e : Ev) (t : List Ev) (h : neut e = true) :
    lastRes (e :: t) c = lastRes t c := by
  cases e <;> simp_all [neut, lastRes]

theorem ended_neut (c : Nat) (e : Ev) (t : List Ev) (h : neut e = true) :
    ended (e :: t) c = ended t c := by
  simp [ended, lastRes_neut c e t h]

theorem spent_neut (e : Ev) (t : List Ev) (h : neut e = true) (hs : spent false t = true) :
    spent false (e :: t) = true := by
  cases e <;> simp_all [neut, spent, finalSeen, alive, panickedSeen]

theorem holds_fires (n : Nat) (l t : List Ev) (hl : ∀ e ∈ l, isFireEv e = true) :
    holds_C10 n (l ++ t) = holds_C10 n t :=
  skip_seg (holds_C10 n) isFireEv (fun e t h => holds_neut n e t (neut_of_fire e h)) l hl t

theorem items_fires (l t : List Ev) (hl : ∀ e ∈ l, isFireEv e = true) : items (l ++ t) = items t :=
  skip_seg items isFireEv (fun e t h => items_neut e t (neut_of_fire e h)) l hl t

theorem srcs_fires (l t : List Ev) (hl : ∀ e ∈ l, isFireEv e = true) : srcs (l ++ t) = srcs t :=
  skip_seg srcs isFireEv (fun e t h => srcs_neut e t (neut_of_fire e h)) l hl t

theorem yielded_fires (l t : List Ev) (hl : ∀ e ∈ l, isFireEv e = true) :
    yielded (l ++ t) = yielded t :=
  skip_seg yielded isFireEv (fun e t h => yielded_neut e t (neut_of_fire e h)) l hl t

/-! ### one child poll (chain's handlers emit no ownership events) -/

/-- the item a child result carries -/
def itemOf : Res → List Nat
  | .item v => [v]
  | _ => []

/-- … and where it came from -/
def srcOf (c : Nat) : Res → List Nat
  | .item _ => [c]
  | _ => []

theorem seg_nil (c slot : Nat) (wk : Wk) (l : List Ev) (r : Res) (t : List Ev) :
    pollSeg c slot wk l r [] t = .childEnd c r :: (l ++ .childBegin c slot wk :: t) := by
  simp [pollSeg]

theorem items_childEnd (c : Nat) (r : Res) (t : List Ev) :
    items (.childEnd c r :: t) = itemOf r ++ items t := by
  cases r <;> simp [items, itemOf]

theorem srcs_childEnd (c : Nat) (r : Res) (t : List Ev) :
    srcs (.childEnd c r :: t) = srcOf c r ++ srcs t := by
  cases r <;> simp [srcs, srcOf]

theorem items_seg (c slot : Nat) (wk : Wk) (l : List Ev) (r : Res) (t : List Ev)
    (hl : ∀ e ∈ l, isFireEv e = true) :
    items (pollSeg c slot wk l r [] t) = itemOf r ++ items t := by
  rw [seg_nil, items_childEnd, items_fires _ _ hl]
  simp [items]

theorem srcs_seg (c slot : Nat) (wk : Wk) (l : List Ev) (r : Res) (t : List Ev)
    (hl : ∀ e ∈ l, isFireEv e = true) :
    srcs (pollSeg c slot wk l r [] t) = srcOf c r ++ srcs t := by
  rw [seg_nil, srcs_childEnd, srcs_fires _ _ hl]
  simp [srcs]

theorem yielded_seg (c slot : Nat) (wk : Wk) (l : List Ev) (r : Res) (t : List Ev)
    (hl : ∀ e ∈ l, isFireEv e = true) :
    yielded (pollSeg c slot wk l r [] t) = yielded t := by
  rw [seg_nil]
  simp only [yielded]
  rw [yielded_fires _ _ hl]
  simp [yielded]

theorem since_seg (c slot : Nat) (wk : Wk) (l : List Ev) (r : Res) (t : List Ev)
    (hl : ∀ e ∈ l, isFireEv e = true) :
    items (sincePoll (pollSeg c slot wk l r [] t)) = itemOf r ++ items (sincePoll t) := by
  rw [seg_nil]
  simp only [sincePoll]
  rw [sincePoll_fires _ _ hl, items_childEnd, items_fires _ _ hl]
  simp [sincePoll, items]

/-- the monitor's verdict on a child poll -/
theorem holds_seg (n c slot : Nat) (wk : Wk) (l : List Ev) (r : Res) (t : List Ev)
    (hl : ∀ e ∈ l, isFireEv e = true) :
    holds_C10 n (pollSeg c slot wk l r [] t) =
      (holds_C10 n t && items (sincePoll t) == [] && (List.range c).all (fun j => ended t j)) := by
  rw [seg_nil]
  simp only [holds_C10]
  rw [holds_fires _ _ _ hl]
  simp only [holds_C10]

theorem ended_seg (c slot : Nat) (wk : Wk) (l : List Ev) (r : Res) (t : List Ev) (j : Nat)
    (hl : ∀ e ∈ l, isFireEv e = true) :
    ended (pollSeg c slot wk l r [] t) j = if c = j then decide (r = .fin) else ended t j := by
  unfold ended
  rw [lastRes_pollSeg c slot wk l r [] t j hl (by simp)]
  by_cases hcj : c = j
  · simp only [hcj, if_true]
    cases r <;> simp
  · simp only [hcj, if_false]

theorem spent_seg (c slot : Nat) (wk : Wk) (l : List Ev) (r : Res) (t : List Ev)
    (hl : ∀ e ∈ l, isFireEv e = true) :
    spent false (pollSeg c slot wk l r [] t) = spent false t :=
  spent_pollSeg false c slot wk l r [] t hl (by simp)

/-! ### the invariant -/

structure Inv (n : Nat) (s : Fix) (t : List Ev) : Prop where
  mon : holds_C10 n t = true
  hn : s.n = n
  /-- nothing produced is lost, duplicated or reordered -/
  yi : yielded t = items t
  /-- every input before `index` has ended -/
  before : s.dead = false → ∀ j, j < s.cnt → ended t j = true
  /-- input `index` has not ended; the later ones were never polled -/
  after : s.dead = false → ∀ j, s.cnt ≤ j → ended t j = false
  dead : s.dead = true → spent false t = true
  /-- items only ever came from inputs up to `index` … -/
  src : ∀ c ∈ srcs t, c ≤ s.cnt
  /-- … in non-decreasing order of input (newest first: non-increasing) -/
  sorted : (srcs t).Pairwise (· ≥ ·)

/-- inside a poll: nothing taken yet, and the slots still to scan start at `index` -/
def J (n : Nat) (s : Fix) (t : List Ev) (l : List Nat) : Prop :=
  Inv n s t ∧ s.dead = false ∧ items (sincePoll t) = [] ∧ l = List.range' s.cnt (n - s.cnt)

theorem range_head {i a k : Nat} {rest : List Nat} (h : i :: rest = List.range' a k) :
    i = a ∧ 0 < k ∧ rest = List.range' (a + 1) (k - 1) := by
  cases k with
  | zero => simp at h
  | succ k =>
    simp only [List.range'_succ, List.cons.injEq] at h
    exact ⟨h.1, by omega, by simpa using h.2⟩

theorem inv_neut {n s t} (e : Ev) (he : neut e = true) (h : Inv n s t) : Inv n s (e :: t) := by
  refine ⟨by rw [holds_neut n e t he]; exact h.mon, h.hn, ?_, ?_, ?_, ?_, ?_, ?_⟩
  · rw [yielded_neut e t he, items_neut e t he]; exact h.yi
  · intro hd j hj; rw [ended_neut j e t he]; exact h.before hd j hj
  · intro hd j hj; rw [ended_neut j e t he]; exact h.after hd j hj
  · intro hd; exact spent_neut e t he (h.dead hd)
  · rw [srcs_neut e t he]; exact h.src
  · rw [srcs_neut e t he]; exact h.sorted

theorem inv_neuts {n s t} (l : List Ev) (hl : ∀ e ∈ l, neut e = true) (h : Inv n s t) :
    Inv n s (l ++ t) := by
  induction l with
  | nil => exact h
  | cons e l ih =>
    rw [List.cons_append]
    exact inv_neut e (hl e (List.mem_cons_self ..))
      (ih (fun e' he' => hl e' (List.mem_cons_of_mem _ he')))

/-- the combinator is used up -/
theorem inv_kill {n s t} (h : Inv n s t) (hs : spent false t = true) : Inv n s.kill t :=
  ⟨h.mon, h.hn, h.yi, fun hd => by simp [Fix.kill] at hd, fun hd => by simp [Fix.kill] at hd,
    fun _ => hs, h.src, h.sorted⟩

theorem inv_pb {n s t} (w : Nat) (h : Inv n s t) : Inv n s (.pollBegin w :: t) := by
  refine ⟨by simpa [holds_C10] using h.mon, h.hn, by simpa [yielded, items] using h.yi, ?_, ?_, ?_,
    by simpa [srcs] using h.src, by simpa [srcs] using h.sorted⟩
  · intro hd j hj
    have : ended (.pollBegin w :: t) j = ended t j := by simp [ended, lastRes]
    rw [this]; exact h.before hd j hj
  · intro hd j hj
    have : ended (.pollBegin w :: t) j = ended t j := by simp [ended, lastRes]
    rw [this]; exact h.after hd j hj
  · intro hd
    have := h.dead hd
    simpa [spent, finalSeen, alive, panickedSeen] using this

theorem inv_misuse {n s t} (w : Nat) (h : Inv n s t) (hd : s.dead = true) :
    Inv n s (.pollEnd .misuse :: .pollBegin w :: t) := by
  have hb := inv_pb w h
  have hsp := hb.dead hd
  refine ⟨?_, h.hn, ?_, fun hd' => absurd hd' (by simp [hd]), fun hd' => absurd hd' (by simp [hd]),
    fun _ => ?_, by simpa [srcs] using h.src, by simpa [srcs] using h.sorted⟩
  · simp only [holds_C10, c10At, Bool.and_eq_true, beq_iff_eq]
    exact ⟨⟨by simpa [holds_C10] using h.mon, hsp⟩, by simpa [yielded, items] using h.yi⟩
  · simpa [yielded, items] using h.yi
  · simpa [spent, finalSeen, alive, panickedSeen] using hsp

/-- input `index` exists and has not ended: not all inputs have ended -/
theorem not_allEnded (n : Nat) (t : List Ev) (j : Nat) (hj : j < n) (he : ended t j = false) :
    allEnded n t = false := by
  cases hall : allEnded n t
  · rfl
  · simp only [allEnded, List.all_eq_true, List.mem_range] at hall
    rw [hall j hj] at he; cases he

theorem before_all {n s t} (h : Inv n s t) (hd : s.dead = false) :
    (List.range s.cnt).all (fun j => ended t j) = true := by
  simp only [List.all_eq_true, List.mem_range]
  exact fun j hj => h.before hd j hj

/-- input `index` ends: go on with the next one -/
theorem step_fin {n s t} (h : Inv n s t) (hd : s.dead = false) (h0 : items (sincePoll t) = [])
    (slot : Nat) (wk : Wk) (l : List Ev) (hl : ∀ e ∈ l, isFireEv e = true) :
    Inv n { s with cnt := s.cnt + 1 } (pollSeg s.cnt slot wk l .fin [] t) ∧
      items (sincePoll (pollSeg s.cnt slot wk l .fin [] t)) = [] := by
  refine ⟨⟨?_, h.hn, ?_, ?_, ?_, fun hd' => absurd hd' (by simp [hd]), ?_, ?_⟩, ?_⟩
  · rw [holds_seg n _ _ _ _ _ _ hl, h.mon, h0, before_all h hd]; rfl
  · rw [yielded_seg _ _ _ _ _ _ hl, items_seg _ _ _ _ _ _ hl]; simpa [itemOf] using h.yi
  · intro _ j hj
    rw [ended_seg _ _ _ _ _ _ j hl]
    by_cases hc : s.cnt = j
    · simp [hc]
    · simp only [hc, if_false]
      exact h.before hd j (by simp at hj; omega)
  · intro _ j hj
    rw [ended_seg _ _ _ _ _ _ j hl]
    have hc : ¬ s.cnt = j := by simp at hj; omega
    simp only [hc, if_false]
    exact h.after hd j (by simp at hj; omega)
  · rw [srcs_seg _ _ _ _ _ _ hl]
    intro c hc
    have := h.src c (by simpa [srcOf] using hc)
    simp; omega
  · rw [srcs_seg _ _ _ _ _ _ hl]; simpa [srcOf] using h.sorted
  · rw [since_seg _ _ _ _ _ _ hl, h0]; rfl

/-- input `index` yields an item: the chain yields it -/
theorem step_item {n s t} (h : Inv n s t) (hd : s.dead = false) (h0 : items (sincePoll t) = [])
    (slot : Nat) (wk : Wk) (l : List Ev) (v : Nat) (hl : ∀ e ∈ l, isFireEv e = true) :
    Inv n s (.pollEnd (.some 0 [v]) :: pollSeg s.cnt slot wk l (.item v) [] t) := by
  have hy : yielded (.pollEnd (.some 0 [v]) :: pollSeg s.cnt slot wk l (.item v) [] t)
      = items (pollSeg s.cnt slot wk l (.item v) [] t) := by
    simp only [yielded]
    rw [yielded_seg _ _ _ _ _ _ hl, items_seg _ _ _ _ _ _ hl, h.yi]
    simp [itemOf]
  have hs : srcs (.pollEnd (.some 0 [v]) :: pollSeg s.cnt slot wk l (.item v) [] t)
      = s.cnt :: srcs t := by
    simp only [srcs]
    rw [srcs_seg _ _ _ _ _ _ hl]
    simp [srcOf]
  have he : ∀ j, ended (.pollEnd (.some 0 [v]) :: pollSeg s.cnt slot wk l (.item v) [] t) j
      = if s.cnt = j then false else ended t j := by
    intro j
    have : ended (.pollEnd (.some 0 [v]) :: pollSeg s.cnt slot wk l (.item v) [] t) j
        = ended (pollSeg s.cnt slot wk l (.item v) [] t) j := by simp [ended, lastRes]
    rw [this, ended_seg _ _ _ _ _ _ j hl]
    simp
  refine ⟨?_, h.hn, ?_, ?_, ?_, fun hd' => absurd hd' (by simp [hd]), ?_, ?_⟩
  · simp only [holds_C10, c10At, Bool.and_eq_true, beq_iff_eq]
    refine ⟨⟨?_, ?_, ?_⟩, hy⟩
    · rw [holds_seg n _ _ _ _ _ _ hl, h.mon, h0, before_all h hd]; rfl
    · rw [since_seg _ _ _ _ _ _ hl, h0]; rfl
    · rfl
  · rw [hy]; simp [items]
  · intro _ j hj
    rw [he j]
    have hc : ¬ s.cnt = j := by omega
    simp only [hc, if_false]
    exact h.before hd j hj
  · intro _ j hj
    rw [he j]
    by_cases hc : s.cnt = j
    · simp [hc]
    · simp only [hc, if_false]
      exact h.after hd j hj
  · rw [hs]
    intro c hc
    simp only [List.mem_cons] at hc
    rcases hc with rfl | hc
    · exact Nat.le_refl _
    · exact h.src c hc
  · rw [hs]
    exact List.pairwise_cons.mpr ⟨fun c hc => h.src c hc, h.sorted⟩

/-- input `index` is not ready (or answered something a stream cannot): `Pending` -/
theorem step_pend {n s t} (h : Inv n s t) (hd : s.dead = false) (h0 : items (sincePoll t) = [])
    (hlt : s.cnt < n) (slot : Nat) (wk : Wk) (l : List Ev) (r : Res) (hl : ∀ e ∈ l, isFireEv e = true)
    (hr1 : r ≠ .fin) (hr2 : itemOf r = []) :
    Inv n s (.pollEnd .pending :: pollSeg s.cnt slot wk l r [] t) := by
  have hs : srcOf s.cnt r = [] := by cases r <;> simp_all [srcOf, itemOf]
  have he : ∀ j, ended (.pollEnd .pending :: pollSeg s.cnt slot wk l r [] t) j
      = if s.cnt = j then false else ended t j := by
    intro j
    have : ended (.pollEnd .pending :: pollSeg s.cnt slot wk l r [] t) j
        = ended (pollSeg s.cnt slot wk l r [] t) j := by simp [ended, lastRes]
    rw [this, ended_seg _ _ _ _ _ _ j hl]
    simp [hr1]
  have hy : yielded (.pollEnd .pending :: pollSeg s.cnt slot wk l r [] t)
      = items (pollSeg s.cnt slot wk l r [] t) := by
    simp only [yielded]
    rw [yielded_seg _ _ _ _ _ _ hl, items_seg _ _ _ _ _ _ hl, h.yi, hr2]
    rfl
  refine ⟨?_, h.hn, ?_, ?_, ?_, fun hd' => absurd hd' (by simp [hd]), ?_, ?_⟩
  · simp only [holds_C10, c10At, Bool.and_eq_true, beq_iff_eq, Bool.not_eq_true']
    refine ⟨⟨?_, ?_, ?_⟩, hy⟩
    · rw [holds_seg n _ _ _ _ _ _ hl, h.mon, h0, before_all h hd]; rfl
    · rw [since_seg _ _ _ _ _ _ hl, h0, hr2]; rfl
    · apply not_allEnded n _ s.cnt hlt
      rw [ended_seg _ _ _ _ _ _ _ hl]
      simp [hr1]
  · rw [hy]; simp [items]
  · intro _ j hj
    rw [he j]
    have hc : ¬ s.cnt = j := by omega
    simp only [hc, if_false]
    exact h.before hd j hj
  · intro _ j hj
    rw [he j]
    by_cases hc : s.cnt = j
    · simp [hc]
    · simp only [hc, if_false]
      exact h.after hd j hj
  · simp only [srcs]
    rw [srcs_seg _ _ _ _ _ _ hl, hs]
    exact h.src
  · simp only [srcs]
    rw [srcs_seg _ _ _ _ _ _ hl, hs]
    exact h.sorted

/-- a child's panic unwinds through the chain -/
theorem step_panic {n s t} (h : Inv n s t) (hd : s.dead = false) (h0 : items (sincePoll t) = [])
    (slot : Nat) (wk : Wk) (l : List Ev) (hl : ∀ e ∈ l, isFireEv e = true) :
    Inv n s.kill (.pollEnd .panicked :: pollSeg s.cnt slot wk l .panic [] t) := by
  refine ⟨?_, h.hn, ?_, fun hd' => by simp [Fix.kill] at hd', fun hd' => by simp [Fix.kill] at hd',
    fun _ => by simp [spent, panickedSeen], ?_, ?_⟩
  · simp only [holds_C10, c10At, Bool.and_eq_true, beq_iff_eq]
    refine ⟨⟨?_, ?_⟩, ?_⟩
    · rw [holds_seg n _ _ _ _ _ _ hl, h.mon, h0, before_all h hd]; rfl
    · rw [since_seg _ _ _ _ _ _ hl, h0]; rfl
    · simp only [yielded]
      rw [yielded_seg _ _ _ _ _ _ hl, items_seg _ _ _ _ _ _ hl, h.yi]; rfl
  · simp only [yielded, items]
    rw [yielded_seg _ _ _ _ _ _ hl, items_seg _ _ _ _ _ _ hl, h.yi]; rfl
  · simp only [srcs]
    rw [srcs_seg _ _ _ _ _ _ hl]
    exact h.src
  · simp only [srcs]
    rw [srcs_seg _ _ _ _ _ _ hl]
    exact h.sorted

/-- the scan fell through: `index = n`, every input has ended -/
theorem step_none {n s t} (h : Inv n s t) (hd : s.dead = false) (h0 : items (sincePoll t) = [])
    (hge : n ≤ s.cnt) : Inv n s.kill (.pollEnd .none :: t) := by
  refine ⟨?_, h.hn, by simpa [yielded, items] using h.yi, fun hd' => by simp [Fix.kill] at hd',
    fun hd' => by simp [Fix.kill] at hd', fun _ => by simp [spent, finalSeen],
    by simpa [srcs, Fix.kill] using h.src, by simpa [srcs] using h.sorted⟩
  simp only [holds_C10, c10At, Bool.and_eq_true, beq_iff_eq]
  refine ⟨⟨h.mon, h0, ?_⟩, by simpa [yielded] using h.yi⟩
  simp only [allEnded, List.all_eq_true, List.mem_range]
  exact fun j hj => h.before hd j (by omega)

theorem inv_drop {n s t} (h : Inv n s t) (evs : List Ev) (he : ∀ e ∈ evs, isOwnEv e = true) :
    Inv n s.kill (.dropEnd :: (evs.reverse ++ .dropBegin :: t)) := by
  have h1 : Inv n s (.dropEnd :: (evs.reverse ++ .dropBegin :: t)) := by
    refine inv_neut _ rfl (inv_neuts _ ?_ (inv_neut _ rfl h))
    exact fun e hm => neut_of_own e (he e (List.mem_reverse.mp hm))
  refine inv_kill h1 ?_
  have : alive (.dropEnd :: (evs.reverse ++ .dropBegin :: t)) = false := by
    simp only [alive]
    rw [skip_seg alive isOwnEv (fun e t h => alive_own e t h) evs.reverse
      (fun e h => he e (List.mem_reverse.mp h))]
    rfl
  simp [spent, this]

/-! ### the `Sim` instance -/

theorem sim_chain (n : Nat) : Sim chain .direct Sim.anyRes (Inv n) (J n) where
  fireEv := fun s t e he h => inv_neut e (neut_of_fire e he) h
  pre := by
    intro s t w o hpre h
    simp only [chain, Fix.misuseIfDead] at hpre
    split at hpre
    · cases hpre; exact inv_misuse w h ‹_›
    · cases hpre
  start := by
    intro s t w hpre h
    have hd : s.dead = false := by
      simp only [chain, Fix.misuseIfDead] at hpre
      cases hdd : s.dead <;> simp_all
    exact ⟨inv_pb w h, hd, rfl, by simp [chain, h.hn]⟩
  earlyPend := by
    intro s t l _ hor _
    rcases hor with h1 | h1 <;> simp [chain] at h1
  skip := by
    intro s t i rest hm _
    have := hm rfl
    simp [chain] at this
  goOn := by
    intro s t i rest wk l r hJ _ hr _ hl hex
    obtain ⟨h, hd, h0, hlist⟩ := hJ
    obtain ⟨hi, hk, hrest⟩ := range_head hlist
    subst hi
    cases r with
    | fin =>
      obtain ⟨h1, h2⟩ := step_fin h hd h0 s.cnt wk l hl
      refine ⟨h1, hd, h2, ?_⟩
      rw [hrest]
      show List.range' (s.cnt + 1) (n - s.cnt - 1) = List.range' (s.cnt + 1) (n - (s.cnt + 1))
      rw [Nat.sub_add_eq]
    | pend => simp [chain] at hex
    | ready ok v => simp [chain] at hex
    | item v => simp [chain] at hex
    | panic => exact absurd rfl hr
  goExit := by
    intro s t i rest wk l r o hJ _ hr _ hl hex
    obtain ⟨h, hd, h0, hlist⟩ := hJ
    obtain ⟨hi, hk, hrest⟩ := range_head hlist
    subst hi
    have hlt : s.cnt < n := by omega
    cases r with
    | fin => simp [chain] at hex
    | pend =>
      simp only [chain, Option.some.injEq] at hex
      subst hex
      exact step_pend h hd h0 hlt s.cnt wk l _ hl (by simp) rfl
    | ready ok v =>
      simp only [chain, Option.some.injEq] at hex
      subst hex
      exact step_pend h hd h0 hlt s.cnt wk l _ hl (by simp) rfl
    | item v =>
      simp only [chain, Option.some.injEq] at hex
      subst hex
      exact step_item h hd h0 s.cnt wk l v hl
    | panic => exact absurd rfl hr
  panic := by
    intro s t i rest wk l hJ _ hl
    obtain ⟨h, hd, h0, hlist⟩ := hJ
    obtain ⟨hi, hk, hrest⟩ := range_head hlist
    subst hi
    exact step_panic h hd h0 s.cnt wk l hl
  finish := by
    intro s t hJ
    obtain ⟨h, hd, h0, hlist⟩ := hJ
    have hge : n ≤ s.cnt := by
      cases hk : n - s.cnt with
      | zero => omega
      | succ k => rw [hk] at hlist; simp [List.range'_succ] at hlist
    exact step_none h hd h0 hge
  drop := by
    intro s t h
    refine inv_drop h _ ?_
    intro e he
    simp only [chain, List.mem_map] at he
    obtain ⟨_, _, rfl⟩ := he
    rfl

/-- the initial state -/
theorem inv_init (n : Nat) : Inv n (Fix.init n 0) [] :=
  ⟨rfl, rfl, rfl, fun _ j hj => (by simp [Fix.init] at hj), fun _ j _ => rfl, fun hd => (by cases hd),
    fun c hc => (by simp [srcs] at hc), by simp [srcs]⟩

/-- the invariant holds at the end of every history of a chain -/
theorem inv_final (c : Case) (hf : c.fam = .chain) : Inv c.n c.finalFix.s c.trace := by
  unfold Case.trace
  simp only [hf, Fam.isGroup, Bool.false_eq_true, if_false, Case.finalFix, Fam.policy]
  exact Sim.runFix (sim_chain c.n) c.ops _ rfl (Sim.scriptsOk_any _)
    (by simpa [FEng.init, Fam.initCnt, World.init] using inv_init c.n)

/-! ### the monitor is suffix-closed (a verdict on a trace includes the verdicts on its past) -/

theorem holds_tail (n : Nat) (e : Ev) (t : List Ev) (h : holds_C10 n (e :: t) = true) :
    holds_C10 n t = true := by
  cases e <;> simp_all [holds_C10]

theorem holds_suffix (n : Nat) (pre t : List Ev) (h : holds_C10 n (pre ++ t) = true) :
    holds_C10 n t = true := by
  induction pre with
  | nil => exact h
  | cons e pre ih => exact ih (holds_tail n e _ h)

end C10
end Fc
