/-
  Helpers of FcProps/KTieGrpD.lean (groups, alloc-only flavour, set view).

  The flag-less readiness set of no_std.rs stores neither flags nor a length, so `World.cap` (like `bits`, `count`) of
  the abstraction `absF g b` / `absS g b` is ghost: it comes from `b`.  The model's `GEng.reserve` does move `cap`
  (`World.resize` in `direct` mode), therefore the ghost `b` of the state AFTER an operation that may grow is `b` with the
  model's new `cap`: `reCap b n`.
-/
import Fc.Groups

set_option linter.unusedSimpArgs false
set_option linter.unusedVariables false

namespace Fc
namespace TieGrpFD

/-- the ghost part with the model's (not stored) readiness length set to `n` -/
def reCap (b : Eng Grp) (n : Nat) : Eng Grp := { b with w := { b.w with cap := n } }

@[simp] theorem reCap_self (b : Eng Grp) : reCap b b.w.cap = b := rfl
@[simp] theorem reCap_s (b : Eng Grp) (n : Nat) : (reCap b n).s = b.s := rfl
@[simp] theorem reCap_cap (b : Eng Grp) (n : Nat) : (reCap b n).w.cap = n := rfl
@[simp] theorem reCap_reCap (b : Eng Grp) (n m : Nat) : reCap (reCap b n) m = reCap b m := rfl

/-- `World.resize` in `direct` mode moves nothing but `cap` -/
theorem sv_resize_direct (w : World) (n : Nat) (h : w.mode = .direct) :
    w.resize n = { w with cap := if w.cap < n then n else w.cap } := by
  unfold World.resize
  by_cases hc : w.cap < n
  · simp [hc, h]
  · simp only [hc, if_false]

/-- `World.setReady` in `direct` mode does nothing -/
theorem sv_setReady_direct (w : World) (i : Nat) (h : w.mode = .direct) : w.setReady i = w := by
  unfold World.setReady; simp [h]

end TieGrpFD
end Fc
