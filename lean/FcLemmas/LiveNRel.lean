/-
  FcLemmas/LiveNRel.lean — `Eng.poll` only looks at the FIRST step of every child's script, as long
  as no slot is scanned twice: replacing the scripts `e.w.scripts` by `f` with the same first steps
  gives the same poll (same trace, same waker lists, same readiness, same combinator state), and
  scripts that were equal before are equal afterwards (`poll_ss`).

  Used by the liveness proof for nests: the outer instance of a nest is polled with one-step
  scripts `[step]` for its nested children (Fc/Nest.lean); the flat liveness lemmas want every
  unresolved child to own a whole well-behaved script.  `poll_ss` lets us run them on a "virtual"
  outer instance whose nested children own `[step, Ready]`.
-/
import FcLemmas.NestInv
import FcLemmas.LiveObs
set_option linter.unusedSimpArgs false
set_option linter.unusedVariables false

namespace Fc
open Mon

/-- the world with other scripts -/
def World.ss (w : World) (f : Nat → List Step) : World := { w with scripts := f }

namespace World

@[simp] theorem ss_trace (w : World) (f : Nat → List Step) : (w.ss f).trace = w.trace := rfl
@[simp] theorem ss_handed (w : World) (f : Nat → List Step) : (w.ss f).handed = w.handed := rfl
@[simp] theorem ss_mode (w : World) (f : Nat → List Step) : (w.ss f).mode = w.mode := rfl
@[simp] theorem ss_bits (w : World) (f : Nat → List Step) : (w.ss f).bits = w.bits := rfl
@[simp] theorem ss_parent (w : World) (f : Nat → List Step) : (w.ss f).parent = w.parent := rfl
@[simp] theorem ss_scripts (w : World) (f : Nat → List Step) : (w.ss f).scripts = f := rfl
@[simp] theorem ss_ss (w : World) (f g : Nat → List Step) : (w.ss f).ss g = w.ss g := rfl
theorem ss_self (w : World) : w.ss w.scripts = w := rfl

theorem ss_emit (w : World) (f : Nat → List Step) (e : Ev) : (w.ss f).emit e = (w.emit e).ss f := rfl
theorem ss_emits (w : World) (f : Nat → List Step) (l : List Ev) :
    (w.ss f).emits l = (w.emits l).ss f := rfl
theorem ss_setWaker (w : World) (f : Nat → List Step) (p : Nat) :
    (w.ss f).setWaker p = (w.setWaker p).ss f := rfl
theorem ss_anyReady (w : World) (f : Nat → List Step) : (w.ss f).anyReady = w.anyReady := rfl
theorem ss_isSet (w : World) (f : Nat → List Step) (i : Nat) : (w.ss f).isSet i = w.isSet i := rfl
theorem ss_wakerFor (w : World) (f : Nat → List Step) (i : Nat) :
    (w.ss f).wakerFor i = w.wakerFor i := rfl

theorem ss_clearReady (w : World) (f : Nat → List Step) (i : Nat) :
    (w.ss f).clearReady i = (w.clearReady i).ss f := by
  unfold World.clearReady
  simp only [ss_mode]
  cases hm : w.mode
  · by_cases hb : w.bits i = true
    · simp [World.ss, hb]
    · simp [World.ss, hb]
  · rfl

theorem ss_setReady (w : World) (f : Nat → List Step) (i : Nat) :
    (w.ss f).setReady i = (w.setReady i).ss f := by
  unfold World.setReady
  simp only [ss_mode]
  cases hm : w.mode
  · by_cases hb : w.bits i = true
    · simp [World.ss, hb]
    · simp [World.ss, hb]
  · rfl

theorem ss_setAllReady (w : World) (f : Nat → List Step) :
    (w.ss f).setAllReady = w.setAllReady.ss f := by
  unfold World.setAllReady
  simp only [ss_mode]
  cases w.mode <;> rfl

theorem ss_kop (w : World) (f : Nat → List Step) (k : KOp) : (w.ss f).kop k = (w.kop k).ss f := by
  cases k with
  | nop => rfl
  | arm i => exact ss_setReady w f i
  | armAll => exact ss_setAllReady w f

theorem ss_fireWk (w : World) (f : Nat → List Step) (wk : Wk) :
    (w.ss f).fireWk wk = (w.fireWk wk).ss f := by
  cases wk with
  | par p => rfl
  | sub i =>
    unfold World.fireWk
    simp only [ss_mode, ss_bits, ss_parent]
    cases hm : w.mode with
    | direct => rfl
    | std =>
      simp only
      by_cases hb : w.bits i = true
      · simp only [hb, if_true]
      · cases hp : w.parent with
        | none => simp [hb, ss_setReady, ss_emit]
        | some p => simp [hb, ss_setReady, ss_emit]

theorem ss_fire (w : World) (f : Nat → List Step) (c a : Nat) :
    (w.ss f).fire c a = (w.fire c a).ss f := by
  unfold World.fire
  simp only [ss_handed]
  cases (w.handed c)[a]? with
  | none => rfl
  | some wk => simp only []; rw [ss_emit, ss_fireWk]

theorem ss_fires (w : World) (f : Nat → List Step) (l : List (Nat × Nat)) :
    (w.ss f).fires l = (w.fires l).ss f := by
  induction l generalizing w with
  | nil => rfl
  | cons p l ih => rw [World.fires_cons, World.fires_cons, ss_fire, ih]

/-- a child poll only consumes the first step -/
theorem ss_pollChild (w : World) (f : Nat → List Step) (c slot : Nat)
    (h : (w.ss f).stepOf c = w.stepOf c) :
    (w.ss f).pollChild c slot = (w.pollChild c slot).ss (upd f c (f c).tail) := by
  unfold World.pollChild
  have hr : (w.ss f).resOf c = w.resOf c := by unfold World.resOf; rw [h]
  rw [h, hr, ss_wakerFor]
  have : ({ w.ss f with scripts := upd (w.ss f).scripts c ((w.ss f).scripts c).tail,
                        handed := upd (w.ss f).handed c (w.wakerFor slot :: (w.ss f).handed c),
                        trace := Ev.childBegin c slot (w.wakerFor slot) :: (w.ss f).trace } : World)
      = ({ w with scripts := upd w.scripts c (w.scripts c).tail,
                  handed := upd w.handed c (w.wakerFor slot :: w.handed c),
                  trace := Ev.childBegin c slot (w.wakerFor slot) :: w.trace } : World).ss
          (upd f c (f c).tail) := rfl
  rw [this, ss_fires, ss_emit]

end World

namespace Nest

theorem setScripts_w (e : Eng Fix) (f : Nat → List Step) : (setScripts e f).w = e.w.ss f := rfl
@[simp] theorem setScripts_s (e : Eng Fix) (f : Nat → List Step) : (setScripts e f).s = e.s := rfl
@[simp] theorem setScripts_trace (e : Eng Fix) (f : Nat → List Step) :
    (setScripts e f).w.trace = e.w.trace := rfl
@[simp] theorem setScripts_handed (e : Eng Fix) (f : Nat → List Step) :
    (setScripts e f).w.handed = e.w.handed := rfl
@[simp] theorem setScripts_scripts (e : Eng Fix) (f : Nat → List Step) :
    (setScripts e f).w.scripts = f := rfl
@[simp] theorem setScripts_mode (e : Eng Fix) (f : Nat → List Step) :
    (setScripts e f).w.mode = e.w.mode := rfl
@[simp] theorem setScripts_setScripts (e : Eng Fix) (f g : Nat → List Step) :
    setScripts (setScripts e f) g = setScripts e g := rfl
theorem setScripts_self (e : Eng Fix) : setScripts e e.w.scripts = e := rfl
theorem setScripts_mk (w : World) (s : Fix) (f : Nat → List Step) :
    setScripts ⟨w, s⟩ f = ⟨w.ss f, s⟩ := rfl

theorem setScripts_fire (e : Eng Fix) (f : Nat → List Step) (c a : Nat) :
    (setScripts e f).fire c a = setScripts (e.fire c a) f := by
  show (⟨(e.w.ss f).fire c a, e.s⟩ : Eng Fix) = ⟨(e.w.fire c a).ss f, e.s⟩
  rw [World.ss_fire]

variable {P : Policy Fix}

theorem gateW_ss (e : Eng Fix) (f : Nat → List Step) (i : Nat) :
    Eng.gateW P (setScripts e f) i = (Eng.gateW P e i).ss f := by
  unfold Eng.gateW
  simp only [setScripts_s, setScripts_w]
  by_cases h : (P.clearFirst || P.eligible e.s i) = true
  · simp only [h, if_true]; exact World.ss_clearReady _ _ _
  · simp only [h, Bool.false_eq_true, if_false]

theorem gateGo_ss (e : Eng Fix) (f : Nat → List Step) (i : Nat) :
    Eng.gateGo P (setScripts e f) i = Eng.gateGo P e i := rfl

theorem anyReady_ss (e : Eng Fix) (f : Nat → List Step) :
    (setScripts e f).w.anyReady = e.w.anyReady := rfl

/-- one loop iteration on the engine with other scripts -/
theorem visit_ss (L : Lawful P) (e : Eng Fix) (f : Nat → List Step) (i : Nat)
    (hag : (e.w.ss f).stepOf i = e.w.stepOf i) :
    ∃ f', Eng.visit P (setScripts e f) i = (setScripts (Eng.visit P e i).1 f', (Eng.visit P e i).2) ∧
      (∀ c, c ≠ i → f' c = f c ∧ (Eng.visit P e i).1.w.scripts c = e.w.scripts c) ∧
      (f i = e.w.scripts i → f' i = (Eng.visit P e i).1.w.scripts i) := by
  have hres : (setScripts e f).w.resOf i = e.w.resOf i := by
    show (e.w.ss f).resOf i = e.w.resOf i
    unfold World.resOf; rw [hag]
  have hgs : (Eng.gateW P e i).scripts = e.w.scripts := Sim.gateW_scripts' e i
  have hag' : ((Eng.gateW P e i).ss f).stepOf i = (Eng.gateW P e i).stepOf i := by
    have h1 : ((Eng.gateW P e i).ss f).stepOf i = (e.w.ss f).stepOf i := rfl
    have h2 : (Eng.gateW P e i).stepOf i = e.w.stepOf i := by
      unfold World.stepOf; rw [hgs]
    rw [h1, h2, hag]
  have hA0 : ∀ (hA : P.loopAny = true → e.w.anyReady = true),
      (P.loopAny && !e.w.anyReady) = false := by
    intro hA
    cases hl : P.loopAny with
    | false => rfl
    | true => simp [hA hl]
  refine Eng.visit_ind P e i (fun r => ∃ f', Eng.visit P (setScripts e f) i = (setScripts r.1 f', r.2) ∧
      (∀ c, c ≠ i → f' c = f c ∧ r.1.w.scripts c = e.w.scripts c) ∧
      (f i = e.w.scripts i → f' i = r.1.w.scripts i)) ?_ ?_ ?_ ?_
  · intro hl ha
    refine ⟨f, ?_, fun c _ => ⟨rfl, rfl⟩, fun h => h⟩
    unfold Eng.visit
    simp [anyReady_ss, hl, ha]
  · intro hA hg
    refine ⟨f, ?_, fun c _ => ⟨rfl, ?_⟩, fun h => ?_⟩
    · unfold Eng.visit
      simp only [anyReady_ss, hA0 hA, gateGo_ss, hg, gateW_ss, setScripts_s]
      rfl
    · simp only [hgs]
    · simp only [hgs]; exact h
  · intro hA hg hp
    rw [L.child_id] at hp ⊢
    refine ⟨upd f i (f i).tail, ?_, fun c hc => ⟨upd_other _ _ _ _ hc, ?_⟩, fun h => ?_⟩
    · unfold Eng.visit
      simp only [anyReady_ss, hA0 hA, gateGo_ss, hg, gateW_ss, setScripts_s, hres, hp, L.child_id]
      simp only [Bool.false_eq_true, if_false, Bool.not_true, if_true]
      rw [World.ss_pollChild _ _ _ _ hag', World.ss_emits]; rfl
    · simp only [World.emits, Live.pollChild_scripts, upd_other _ _ _ _ hc, hgs]
    · simp only [World.emits, Live.pollChild_scripts, upd_same, hgs, h]
  · intro hA hg hp
    rw [L.child_id] at hp ⊢
    refine ⟨upd f i (f i).tail, ?_, fun c hc => ⟨upd_other _ _ _ _ hc, ?_⟩, fun h => ?_⟩
    · unfold Eng.visit
      simp only [anyReady_ss, hA0 hA, gateGo_ss, hg, gateW_ss, setScripts_s, hres, hp, L.child_id]
      simp only [Bool.false_eq_true, if_false, Bool.not_true, if_true]
      rw [World.ss_pollChild _ _ _ _ hag']
      simp only [Eng.applyH, World.ss_emits, World.ss_kop]
      rfl
    · simp only [Eng.applyH_w, kop_scripts, emits_scripts, Live.pollChild_scripts,
        upd_other _ _ _ _ hc, hgs]
    · simp only [Eng.applyH_w, kop_scripts, emits_scripts, Live.pollChild_scripts,
        upd_same, hgs, h]

/-- the relation carried through the loop: first steps agree on the slots still to be scanned, and
    the scripts in `A` are equal -/
def Agree (A : Nat → Prop) (e : Eng Fix) (f : Nat → List Step) (l : List Nat) : Prop :=
  (∀ c, c ∈ l → (e.w.ss f).stepOf c = e.w.stepOf c) ∧ (∀ c, A c → f c = e.w.scripts c)

theorem scan_ss (L : Lawful P) (A : Nat → Prop) : ∀ (l : List Nat) (e : Eng Fix) (f : Nat → List Step),
    l.Nodup → Agree A e f l →
    ∃ f', Eng.scan P l (setScripts e f) = (setScripts (Eng.scan P l e).1 f', (Eng.scan P l e).2) ∧
      (∀ c, A c → f' c = (Eng.scan P l e).1.w.scripts c) := by
  intro l
  induction l with
  | nil => intro e f _ h; exact ⟨f, rfl, h.2⟩
  | cons i rest ih =>
    intro e f hnd h
    have hnd' := List.nodup_cons.mp hnd
    obtain ⟨f1, hv, hoth, hsame⟩ := visit_ss L e f i (h.1 i (List.mem_cons_self ..))
    unfold Eng.scan
    rw [hv]
    simp only
    cases hvis : (Eng.visit P e i).2 with
    | some o =>
      simp only
      refine ⟨f1, rfl, fun c hc => ?_⟩
      by_cases hci : c = i
      · subst hci; exact hsame (h.2 c hc)
      · rw [(hoth c hci).1, (hoth c hci).2]; exact h.2 c hc
    | none =>
      simp only
      have hag1 : Agree A (Eng.visit P e i).1 f1 rest := by
        refine ⟨fun c hc => ?_, fun c hc => ?_⟩
        · have hci : c ≠ i := fun hh => hnd'.1 (hh ▸ hc)
          have := h.1 c (List.mem_cons_of_mem _ hc)
          unfold World.stepOf at this ⊢
          simp only [World.ss_scripts] at this ⊢
          rw [(hoth c hci).1, (hoth c hci).2]; exact this
        · by_cases hci : c = i
          · subst hci; exact hsame (h.2 c hc)
          · rw [(hoth c hci).1, (hoth c hci).2]; exact h.2 c hc
      exact ih _ f1 hnd'.2 hag1

/-- **one poll with other scripts**: same first steps ⇒ the same poll -/
theorem poll_ss (L : Lawful P) (hnd : ∀ s, (P.order s).Nodup) (A : Nat → Prop) (e : Eng Fix)
    (f : Nat → List Step) (wid : Nat)
    (hag : ∀ c, (e.w.ss f).stepOf c = e.w.stepOf c) (hA : ∀ c, A c → f c = e.w.scripts c) :
    ∃ f', Eng.poll P (setScripts e f) wid = setScripts (Eng.poll P e wid) f' ∧
      (∀ c, A c → f' c = (Eng.poll P e wid).w.scripts c) := by
  unfold Eng.poll
  simp only [setScripts_s]
  cases hpre : P.pre e.s with
  | some o => exact ⟨f, rfl, hA⟩
  | none =>
    simp only
    unfold Eng.body
    simp only [setScripts_s, setScripts_w, World.ss_emit, World.ss_setWaker, World.ss_anyReady]
    by_cases hc : (P.preAny (P.start e.s) && !((e.w.emit (.pollBegin wid)).setWaker wid).anyReady) = true
    · simp only [hc, if_true]; exact ⟨f, rfl, hA⟩
    · simp only [hc, Bool.false_eq_true, if_false]
      obtain ⟨f1, hs, hA1⟩ := scan_ss L A (P.order e.s)
        { w := (e.w.emit (.pollBegin wid)).setWaker wid, s := P.start e.s } f (hnd _)
        ⟨fun c _ => hag c, hA⟩
      rw [setScripts_mk] at hs
      rw [hs]
      unfold Eng.close
      simp only
      cases hsc : (Eng.scan P (P.order e.s)
          { w := (e.w.emit (.pollBegin wid)).setWaker wid, s := P.start e.s }).2 with
      | some o => exact ⟨f1, rfl, hA1⟩
      | none =>
        refine ⟨f1, ?_, fun c hc => ?_⟩
        · simp only [Eng.applyH, Eng.emit, setScripts_w, setScripts_s, World.ss_emits, World.ss_kop,
            World.ss_emit]
          rfl
        · simp only [Eng.emit_w, Eng.applyH_w, World.emit_scripts, kop_scripts, emits_scripts]
          exact hA1 c hc

end Nest
end Fc
