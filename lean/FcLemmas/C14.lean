/-
  FcLemmas/C14.lean — the invariant `Inv c s t` relating the acceptor state `s = run c t` to the
  observations of the trace `t`, its preservation by every accepted event, and the step of the
  C14 monitor.
-/
import FcLemmas.C14D
import FcLemmas.C14Step

set_option linter.unusedSimpArgs false
set_option linter.unusedVariables false

namespace Fc
namespace CoC14
open Co

structure Inv (c : Cfg) (s : St) (t : List CoEv) : Prop where
  taken : s.taken = takenItems t
  noErr : running s.ctrl = true → errsW t = []
  err   : ∀ e, s.ctrl = .failing e → e ∈ errsW t
  top   : s.inTop = true → s.ctrl ≠ .done ∧ s.dropped = false
  live  : ∀ k ∈ created t, k ∈ s.live ∨ droppedW t k = true
  drain : s.ctrl = .flushing → drained c t = true
  d     : DInv c s.ctrl s.taken s.members s.dropped t

theorem inv_init (c : Cfg) : Inv c (init c) [] := by
  refine ⟨rfl, fun _ => rfl, ?_, ?_, ?_, ?_, ?_⟩
  · intro e he
    simp only [init] at he
    split at he <;> simp at he
  · intro h; simp [init] at h
  · intro k hk; simp [created] at hk
  · intro h
    simp only [init] at h
    split at h
    · rename_i hz
      simp only [drained, takenItems, Cfg.breakAt, Bool.or_eq_true]
      right
      simp only [Cfg.takeZero, List.any_eq_true] at hz ⊢
      obtain ⟨n, hn, hz⟩ := hz
      exact ⟨n, hn, by simp at hz; simp [hz]⟩
    · simp at h
  · simp only [init]
    apply DInv_init
    intro j
    split <;> simp

/-- `Inv` only looks at five fields of the state and the members -/
theorem inv_of_proj {c : Cfg} {s s' : St} {t : List CoEv} (h : Inv c s t)
    (h1 : s'.ctrl = s.ctrl) (h2 : s'.inTop = s.inTop) (h3 : s'.taken = s.taken)
    (h4 : s'.live = s.live) (h5 : s'.dropped = s.dropped)
    (hd : DInv c s.ctrl s.taken s'.members s.dropped t) : Inv c s' t := by
  refine ⟨?_, ?_, ?_, ?_, ?_, ?_, ?_⟩
  · rw [h3]; exact h.taken
  · rw [h1]; exact h.noErr
  · rw [h1]; exact h.err
  · rw [h1, h2, h5]; exact h.top
  · rw [h4]; exact h.live
  · rw [h1]; exact h.drain
  · rw [h1, h3, h5]; exact hd

/-! ### push / resume / takeItem / complete -/

theorem pushCtrl_cases (c : Cfg) (n : Nat) :
    (c.breakAt n = true ∧ (if c.breakAt n then Ctrl.flushing else Ctrl.loop) = .flushing) ∨
      (c.breakAt n = false ∧ (if c.breakAt n then Ctrl.flushing else Ctrl.loop) = .loop) := by
  cases c.breakAt n <;> simp

theorem inv_push {c : Cfg} {s : St} {t : List CoEv} {j : Nat} (h : Inv c s t)
    (hj : s.ctrl = .sending j) (htop : s.inTop = true) : Inv c (push c s j) t := by
  have hrun : running s.ctrl = true := by rw [hj]; rfl
  have hd := h.d
  rw [hj] at hd
  simp only [push]
  rcases pushCtrl_cases c s.taken with ⟨hb, hc⟩ | ⟨hb, hc⟩ <;> rw [hc]
  · refine ⟨h.taken, fun _ => h.noErr hrun, by simp, fun ht => ⟨by simp, (h.top ht).2⟩, h.live, ?_,
      DInv_push (by simp) rfl hd⟩
    intro _
    simp only [drained, Bool.or_eq_true]
    right
    rw [← h.taken]; exact hb
  · exact ⟨h.taken, fun _ => h.noErr hrun, by simp, fun ht => ⟨by simp, (h.top ht).2⟩, h.live, by simp,
      DInv_push (by simp) rfl hd⟩

theorem inv_resume {c : Cfg} {s : St} {t : List CoEv} (h : Inv c s t) (htop : s.inTop = true) :
    Inv c (resume c s) t := by
  unfold resume
  split
  · rename_i j hj
    split
    · exact inv_push h hj htop
    · exact h
  · exact h

theorem resume_inTop (c : Cfg) (s : St) : (resume c s).inTop = s.inTop := by
  unfold resume
  split
  · split <;> rfl
  · rfl

theorem inv_takeItem {c : Cfg} {s : St} {t : List CoEv} (v : Nat) (h : Inv c s t)
    (hl : s.ctrl = .loop) (htop : s.inTop = true) :
    Inv c (takeItem c s) (.src (.item v) :: t) := by
  have hrun : running s.ctrl = true := by rw [hl]; rfl
  have hd := h.d
  rw [hl] at hd
  -- the state in which `send` waits with the new item
  have h1 : Inv c { s with taken := s.taken + 1, ctrl := .sending s.taken } (.src (.item v) :: t) := by
    refine ⟨?_, fun _ => h.noErr hrun, by simp, fun ht => ⟨by simp, (h.top ht).2⟩, h.live, by simp,
      DInv_quiet rfl (DInv_take hd)⟩
    rw [takenItems_item, ← h.taken]
  simp only [takeItem]
  split
  · exact inv_push (s := { s with taken := s.taken + 1, ctrl := .sending s.taken }) h1 rfl htop
  · exact h1

/-- member `m` resolves its last stage -/
theorem inv_complete {c : Cfg} {s : St} {t : List CoEv} {m : Member} {k : Nat} (ok : Bool) (v : Nat)
    (h : Inv c s t) (htop : s.inTop = true) (hrun : running s.ctrl = true)
    (hm : m ∈ s.members) (hk : m.cur = some k) (hlast : ¬ m.stage + 1 < c.stages)
    (hok : ok = false → m.stage + 1 = c.stages ∧ (c.term = .tryForEach ∨ c.term = .collectRes)) :
    Inv c (complete c s m ok v) (.work k (.ready ok v) :: t) := by
  have hmok := h.d.ok m hm
  obtain ⟨hc1, hf1, hst⟩ := hmok.busy k hk
  have hd' : DInv c s.ctrl s.taken s.members s.dropped (.work k (.ready ok v) :: t) :=
    DInv_work k _ h.d
  have hall : ∀ st, st < c.stages → stageDone (.work k (.ready ok v) :: t) st m.j = true := by
    intro st hst'
    by_cases e : st = m.stage
    · subst e; exact stageDone_ready k ok v t _ _ hc1 hf1
    · exact stageDone_work k _ t st m.j (hmok.below st (by omega))
  have hrem := DInv_remove hm hall hd'
  cases ok with
  | true =>
    -- the trace observations of the non-`d` fields do not change
    have hbase : Inv c s (.work k (.ready true v) :: t) :=
      ⟨h.taken, h.noErr, h.err, h.top, h.live, fun e => drained_other (by simp) c t (h.drain e), hd'⟩
    unfold complete
    cases c.term <;> simp only [if_true]
    · exact inv_resume (inv_of_proj hbase rfl rfl rfl rfl rfl hrem) htop
    · exact inv_resume (inv_of_proj hbase rfl rfl rfl rfl rfl hrem) htop
    · exact inv_of_proj hbase rfl rfl rfl rfl rfl hrem
    · exact inv_of_proj hbase rfl rfl rfl rfl rfl hrem
  | false =>
    obtain ⟨_, hterm⟩ := hok rfl
    have hfail : ∀ ms, (∀ x ∈ ms, x ∈ s.members) → ∀ s' : St, s'.ctrl = .failing v →
        s'.inTop = s.inTop → s'.taken = s.taken → s'.live = s.live → s'.dropped = s.dropped →
        s'.members = ms → Inv c s' (.work k (.ready false v) :: t) := by
      intro ms hsub s' e1 e2 e3 e4 e5 e6
      refine ⟨?_, ?_, ?_, ?_, ?_, ?_, ?_⟩
      · rw [e3]; exact h.taken
      · rw [e1]; intro hr; simp [running] at hr
      · rw [e1]; intro e he; injection he with he; subst he; rw [errsW_err]; simp
      · rw [e1, e2, e5]; intro ht; exact ⟨by simp, (h.top ht).2⟩
      · rw [e4]; exact h.live
      · rw [e1]; intro e; simp at e
      · rw [e1, e3, e5, e6]
        exact DInv_sub hsub (by intro hr; simp [running] at hr)
          (DInv_ctrl (by simp) (by intro hr; simp [running] at hr) hd')
    have hsub : ∀ x ∈ s.members.filter (· != m), x ∈ s.members :=
      fun x hx => (List.mem_filter.mp hx).1
    unfold complete
    rcases hterm with hterm | hterm <;> rw [hterm] <;> simp only [Bool.false_eq_true, if_false]
    · exact hfail _ hsub _ rfl rfl rfl rfl rfl rfl
    · exact hfail _ hsub _ rfl rfl rfl rfl rfl rfl

/-! ### preservation by every accepted event -/

theorem inv_step {c : Cfg} {s s' : St} {t : List CoEv} (ev : CoEv) (h : Inv c s t)
    (hs : step c s ev = some s') : Inv c s' (ev :: t) := by
  cases ev with
  | topBegin =>
    obtain ⟨h1, h2, h3, rfl⟩ := step_topBegin hs
    exact ⟨h.taken, h.noErr, h.err, fun _ => ⟨h3, h2⟩, h.live, h.drain, DInv_quiet rfl h.d⟩
  | topEnd o =>
    obtain ⟨h1, h2, h3, h4, h5, h6⟩ := step_topEnd hs
    have hdq : DInv c s.ctrl s.taken s.members s.dropped (.topEnd o :: t) := by
      apply DInv_quiet _ h.d
      cases o <;> rfl
    have hdr : ∀ {x}, drained c t = x → drained c (.topEnd o :: t) = x := by
      intro x hx; rw [← hx]; rfl
    rcases h6 with ⟨h6, _, h7⟩ | ⟨h6, _, _, h7⟩
    · refine ⟨by rw [h3]; exact h.taken, by rw [h6]; intro hr; simp [running] at hr,
        by rw [h6]; intro e he; simp at he, by rw [h2]; intro ht; simp at ht,
        by rw [h4]; exact h.live, by rw [h6]; intro e; simp at e, ?_⟩
      rw [h6, h3, h5]
      have hd1 : DInv c .done s.taken s.members s.dropped (.topEnd o :: t) :=
        DInv_ctrl (by simp) (by intro hr; simp [running] at hr) hdq
      rcases h7 with h7 | h7 <;> rw [h7]
      · exact hd1
      · exact DInv_sub (by simp) (by intro hr; simp [running] at hr) hd1
    · refine ⟨by rw [h3]; exact h.taken, by rw [h6]; exact h.noErr, by rw [h6]; exact h.err,
        by rw [h2]; intro ht; simp at ht, by rw [h4]; exact h.live,
        by rw [h6]; exact fun e => hdr (h.drain e), ?_⟩
      rw [h6, h3, h5, h7]
      exact hdq
  | src r =>
    obtain ⟨h1, h2, h3⟩ := step_src hs
    have hrun : running s.ctrl = true := by rw [h2]; rfl
    rcases h3 with ⟨rfl, rfl⟩ | ⟨rfl, rfl⟩ | ⟨v, rfl, rfl⟩
    · exact ⟨h.taken, h.noErr, h.err, h.top, h.live,
        fun e => drained_other (by simp) c t (h.drain e), DInv_quiet rfl h.d⟩
    · refine ⟨h.taken, fun _ => h.noErr hrun, by simp, fun ht => ⟨by simp, (h.top ht).2⟩, h.live,
        fun _ => by simp [drained, srcEnded], ?_⟩
      have hd := h.d
      rw [h2] at hd
      exact DInv_quiet rfl (DInv_ctrl (by simp) (by intro _ hd'; exact ⟨rfl, hd', by simp⟩) hd)
    · exact inv_takeItem v h h2 h1
  | call stage j idx k =>
    obtain ⟨h1, h2, m, hm, rfl, rfl, hcur, hst, rfl⟩ := step_call hs
    refine ⟨h.taken, h.noErr, h.err, h.top, ?_,
      fun e => drained_other (by simp) c t (h.drain e), DInv_call idx k hm hcur hst h.d⟩
    intro k' hk'
    simp only [created, List.mem_cons] at hk'
    rcases hk' with rfl | hk'
    · left; simp
    · rcases h.live k' hk' with hl | hl
      · left; simp [hl]
      · right; exact hl
  | work k r =>
    obtain ⟨h1, h2, m, hm, hk, h3⟩ := step_work hs
    rcases h3 with ⟨rfl, rfl⟩ | ⟨ok, v, rfl, hok, h3⟩
    · exact ⟨h.taken, h.noErr, h.err, h.top, h.live,
        fun e => drained_other (by simp) c t (h.drain e), DInv_quiet rfl h.d⟩
    · rcases h3 with ⟨hlt, rfl⟩ | ⟨hlt, rfl⟩
      · -- stage advance; `ok = true` here
        have hokt : ok = true := by
          cases ok with
          | true => rfl
          | false => have := (hok rfl).1; omega
        subst hokt
        obtain ⟨hc1, hf1, _⟩ := (h.d.ok m hm).busy k hk
        refine ⟨h.taken, h.noErr, h.err, h.top, h.live,
          fun e => drained_other (by simp) c t (h.drain e), ?_⟩
        exact DInv_advance hm (stageDone_ready k true v t _ _ hc1 hf1) (DInv_work k _ h.d)
      · exact inv_complete ok v h h1 h2 hm hk hlt hok
  | workDrop k =>
    obtain ⟨h1, h2, rfl⟩ := step_workDrop hs
    refine ⟨h.taken, h.noErr, h.err, h.top, ?_,
      fun e => drained_other (by simp) c t (h.drain e), ?_⟩
    · intro k' hk'
      by_cases e : k' = k
      · subst e; right; exact droppedW_drop _ t
      · rcases h.live k' hk' with hl | hl
        · left; simp [hl, e]
        · right; exact droppedW_mono _ t k' hl
    · refine DInv_sub (fun x hx => (List.mem_filter.mp hx).1) ?_ (DInv_quiet rfl h.d)
      intro hr hd x hx
      exact List.mem_filter.mpr ⟨hx, by simpa using h2 hr hd x hx⟩
  | valDrop v =>
    simp only [step] at hs
    injection hs with hs; subst hs
    exact ⟨h.taken, h.noErr, h.err, h.top, h.live, h.drain, DInv_quiet rfl h.d⟩
  | srcDrop =>
    simp only [step] at hs
    injection hs with hs; subst hs
    exact ⟨h.taken, h.noErr, h.err, h.top, h.live, h.drain, DInv_quiet rfl h.d⟩
  | dropBegin =>
    obtain ⟨h1, h2, rfl⟩ := step_dropBegin hs
    refine ⟨h.taken, h.noErr, h.err, ?_, h.live, h.drain, ?_⟩
    · intro ht; rw [h1] at ht; simp at ht
    · exact DInv_quiet rfl (DInv_ctrl (fun _ e => e) (by intro _ e; simp at e) h.d)
  | dropEnd =>
    obtain ⟨h1, h2, rfl⟩ := step_dropEnd hs
    exact ⟨h.taken, h.noErr, h.err, h.top, h.live, h.drain, DInv_quiet rfl h.d⟩

/-! ### the monitor -/

theorem allProcessed_of {c : Cfg} {s : St} {t : List CoEv} (h : Inv c s t)
    (htop : s.inTop = true) (hf : s.ctrl = .flushing) (hm : s.members = []) :
    allProcessed c t = true := by
  unfold allProcessed
  rw [List.all_eq_true]
  intro j hj
  rw [List.all_eq_true]
  intro st hst
  rw [List.mem_range] at hj hst
  have hd := h.d
  rw [hf, hm] at hd
  exact hd.done rfl (h.top htop).2 j (by rw [h.taken]; exact hj) (by simp) (by simp) st hst

theorem running_of_top {c : Cfg} {s : St} {t : List CoEv} (h : Inv c s t) (htop : s.inTop = true)
    (hnf : ∀ e, s.ctrl ≠ .failing e) : running s.ctrl = true := by
  have := (h.top htop).1
  cases hc : s.ctrl <;> simp_all [running]

theorem mon_step {c : Cfg} {s s' : St} {t : List CoEv} (ev : CoEv) (h : Inv c s t)
    (hs : step c s ev = some s') (hm : holds_C14 c t = true) : holds_C14 c (ev :: t) = true := by
  cases ev with
  | topBegin => exact hm
  | topEnd o =>
    cases o with
    | pending =>
      obtain ⟨h1, h2⟩ := step_topEnd_pending hs
      simp only [holds_C14, Bool.and_eq_true, beq_iff_eq]
      exact ⟨hm, h.noErr (running_of_top h h1 h2)⟩
    | unit => exact hm
    | ok =>
      obtain ⟨h1, h2, h3⟩ := step_topEnd_ok hs
      simp only [holds_C14, Bool.and_eq_true, beq_iff_eq]
      exact ⟨⟨⟨hm, h.noErr (by rw [h2]; rfl)⟩, allProcessed_of h h1 h2 h3⟩, h.drain h2⟩
    | err e =>
      have h1 := step_topEnd_err hs
      simp only [holds_C14, Bool.and_eq_true, List.contains_iff_mem]
      exact ⟨hm, h.err e h1⟩
    | vec items => exact hm
    | resOk items =>
      obtain ⟨h1, h2, h3⟩ := step_topEnd_resOk hs
      simp only [holds_C14, Bool.and_eq_true, beq_iff_eq]
      exact ⟨⟨⟨hm, h.noErr (by rw [h2]; rfl)⟩, allProcessed_of h h1 h2 h3⟩, h.drain h2⟩
    | resErr e =>
      have h1 := step_topEnd_resErr hs
      simp only [holds_C14, Bool.and_eq_true, List.contains_iff_mem]
      exact ⟨hm, h.err e h1⟩
  | src r =>
    obtain ⟨h1, h2, _⟩ := step_src hs
    simp only [holds_C14, Bool.and_eq_true, beq_iff_eq]
    exact ⟨hm, h.noErr (by rw [h2]; rfl)⟩
  | call stage j idx k =>
    obtain ⟨h1, h2, _⟩ := step_call hs
    simp only [holds_C14, Bool.and_eq_true, beq_iff_eq]
    exact ⟨hm, h.noErr h2⟩
  | work k r =>
    obtain ⟨h1, h2, _⟩ := step_work hs
    simp only [holds_C14, Bool.and_eq_true, beq_iff_eq]
    exact ⟨hm, h.noErr h2⟩
  | workDrop k => exact hm
  | valDrop v => exact hm
  | srcDrop => exact hm
  | dropBegin => exact hm
  | dropEnd =>
    obtain ⟨h1, h2, rfl⟩ := step_dropEnd hs
    simp only [holds_C14, Bool.and_eq_true]
    refine ⟨hm, ?_⟩
    unfold allDropped
    rw [List.all_eq_true]
    intro k hk
    rcases h.live k hk with hl | hl
    · rw [h2] at hl; simp at hl
    · exact hl

theorem run_inv (c : Cfg) : ∀ (t : List CoEv) (s : St), run c t = some s →
    Inv c s t ∧ holds_C14 c t = true
  | [], s, h => by
    simp only [run] at h
    injection h with h; subst h
    exact ⟨inv_init c, rfl⟩
  | ev :: t, s', h => by
    simp only [run] at h
    split at h
    · rename_i s hs
      obtain ⟨hi, hm⟩ := run_inv c t s hs
      exact ⟨inv_step ev hi h, mon_step ev hi h hm⟩
    · simp at h

end CoC14
end Fc
