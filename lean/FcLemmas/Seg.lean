/-
  FcLemmas/Seg.lean — how the ghost observations of Fc/MonFun.lean see the trace segments the
  engine appends (wake-up events, ownership events, one child poll), and counting lemmas.
-/
import FcLemmas.Sim
import Fc.MonFun

namespace Fc
open Mon

/-! ### wake-up segments are invisible to every functional observation -/

theorem lastRes_fires (l t : List Ev) (c : Nat) (hl : ∀ e ∈ l, isFireEv e = true) :
    lastRes (l ++ t) c = lastRes t c :=
  skip_seg (fun t => lastRes t c) isFireEv (fun e t h => lastRes_fireEv c e t h) l hl t

theorem errs_fires (l t : List Ev) (hl : ∀ e ∈ l, isFireEv e = true) : errs (l ++ t) = errs t :=
  skip_seg errs isFireEv (fun e t h => by cases e <;> simp_all [isFireEv, errs]) l hl t

theorem readies_fires (l t : List Ev) (hl : ∀ e ∈ l, isFireEv e = true) :
    readies (l ++ t) = readies t :=
  skip_seg readies isFireEv (fun e t h => by cases e <;> simp_all [isFireEv, readies]) l hl t

theorem oks_fires (l t : List Ev) (hl : ∀ e ∈ l, isFireEv e = true) : oks (l ++ t) = oks t :=
  skip_seg oks isFireEv (fun e t h => by cases e <;> simp_all [isFireEv, oks]) l hl t

theorem polledSince_fires (l t : List Ev) (c : Nat) (hl : ∀ e ∈ l, isFireEv e = true) :
    polledSince (l ++ t) c = polledSince t c :=
  skip_seg (fun t => polledSince t c) isFireEv (fun e t h => polledSince_fireEv c e t h) l hl t

theorem everPolled_fires (l t : List Ev) (c : Nat) (hl : ∀ e ∈ l, isFireEv e = true) :
    everPolled (l ++ t) c = everPolled t c :=
  skip_seg (fun t => everPolled t c) isFireEv (fun e t h => everPolled_fireEv c e t h) l hl t

theorem inPoll_fires (l t : List Ev) (hl : ∀ e ∈ l, isFireEv e = true) :
    inPoll (l ++ t) = inPoll t :=
  skip_seg inPoll isFireEv (fun e t h => inPoll_fireEv e t h) l hl t

theorem alive_fires (l t : List Ev) (hl : ∀ e ∈ l, isFireEv e = true) : alive (l ++ t) = alive t :=
  skip_seg alive isFireEv (fun e t h => alive_fireEv e t h) l hl t

theorem finalSeen_fires (g : Bool) (l t : List Ev) (hl : ∀ e ∈ l, isFireEv e = true) :
    finalSeen g (l ++ t) = finalSeen g t :=
  skip_seg (finalSeen g) isFireEv (fun e t h => by cases e <;> simp_all [isFireEv, finalSeen]) l hl t

theorem panickedSeen_fires (l t : List Ev) (hl : ∀ e ∈ l, isFireEv e = true) :
    panickedSeen (l ++ t) = panickedSeen t :=
  skip_seg panickedSeen isFireEv (fun e t h => by cases e <;> simp_all [isFireEv, panickedSeen]) l hl t

theorem spent_fires (g : Bool) (l t : List Ev) (hl : ∀ e ∈ l, isFireEv e = true) :
    spent g (l ++ t) = spent g t := by
  simp [spent, finalSeen_fires g l t hl, alive_fires l t hl, panickedSeen_fires l t hl]

theorem gone_fires (l t : List Ev) (c : Nat) (hl : ∀ e ∈ l, isFireEv e = true) :
    gone (l ++ t) c = gone t c :=
  skip_seg (fun t => gone t c) isFireEv (fun e t h => gone_fireEv c e t h) l hl t

theorem sincePoll_fires (l t : List Ev) (hl : ∀ e ∈ l, isFireEv e = true) :
    sincePoll (l ++ t) = l ++ sincePoll t := by
  induction l with
  | nil => rfl
  | cons e l ih =>
    have he := hl e (List.mem_cons_self ..)
    have := ih (fun e' he' => hl e' (List.mem_cons_of_mem _ he'))
    cases e <;> simp_all [isFireEv, sincePoll]

theorem resolvedVal_fires (l t : List Ev) (c : Nat) (hl : ∀ e ∈ l, isFireEv e = true) :
    resolvedVal (l ++ t) c = resolvedVal t c := by
  simp [resolvedVal, lastRes_fires l t c hl]

theorem okVal_fires (l t : List Ev) (c : Nat) (hl : ∀ e ∈ l, isFireEv e = true) :
    okVal (l ++ t) c = okVal t c := by
  simp [okVal, lastRes_fires l t c hl]

theorem errVal_fires (l t : List Ev) (c : Nat) (hl : ∀ e ∈ l, isFireEv e = true) :
    errVal (l ++ t) c = errVal t c := by
  simp [errVal, lastRes_fires l t c hl]


/-! ### one child poll -/

theorem lastRes_pollSeg (c slot : Nat) (wk : Wk) (l : List Ev) (r : Res) (evs t : List Ev) (j : Nat)
    (hl : ∀ e ∈ l, isFireEv e = true) (he : ∀ e ∈ evs, isOwnEv e = true) :
    lastRes (pollSeg c slot wk l r evs t) j = if c = j then some r else lastRes t j := by
  unfold pollSeg
  rw [skip_seg (fun t => lastRes t j) isOwnEv (fun e t h => lastRes_own j e t h) evs.reverse
    (fun e h => he e (List.mem_reverse.mp h))]
  simp only [lastRes]
  split
  · rfl
  · rw [lastRes_fires _ _ _ hl]
    simp only [lastRes, *]

theorem spent_pollSeg (g : Bool) (c slot : Nat) (wk : Wk) (l : List Ev) (r : Res) (evs t : List Ev)
    (hl : ∀ e ∈ l, isFireEv e = true) (he : ∀ e ∈ evs, isOwnEv e = true) :
    spent g (pollSeg c slot wk l r evs t) = spent g t := by
  unfold pollSeg
  rw [skip_seg (spent g) isOwnEv
    (fun e t h => by cases e <;> simp_all [isOwnEv, spent, finalSeen, alive, panickedSeen]) evs.reverse
    (fun e h => he e (List.mem_reverse.mp h))]
  have : spent g (.childEnd c r :: (l ++ .childBegin c slot wk :: t))
      = spent g (l ++ .childBegin c slot wk :: t) := by
    simp [spent, finalSeen, alive, panickedSeen]
  rw [this, spent_fires _ _ _ hl]
  simp [spent, finalSeen, alive, panickedSeen]

theorem resolvedVal_pollSeg (c slot : Nat) (wk : Wk) (l : List Ev) (r : Res) (evs t : List Ev) (j : Nat)
    (hl : ∀ e ∈ l, isFireEv e = true) (he : ∀ e ∈ evs, isOwnEv e = true) :
    resolvedVal (pollSeg c slot wk l r evs t) j =
      if c = j then (match r with | .ready _ v => some v | _ => none) else resolvedVal t j := by
  unfold resolvedVal
  rw [lastRes_pollSeg c slot wk l r evs t j hl he]
  by_cases hcj : c = j
  · simp only [hcj, if_true]
    cases r <;> rfl
  · simp only [hcj, if_false]

/-! ### counting slots -/

/-- number of `i < n` with `p i` -/
def cntP (p : Nat → Bool) : Nat → Nat
  | 0 => 0
  | k + 1 => cntP p k + (if p k then 1 else 0)

theorem cntP_le (p : Nat → Bool) (n : Nat) : cntP p n ≤ n := by
  induction n with
  | zero => simp [cntP]
  | succ k ih => simp only [cntP]; split <;> omega

theorem cntP_congr (p q : Nat → Bool) (n : Nat) (h : ∀ i, i < n → p i = q i) :
    cntP p n = cntP q n := by
  induction n with
  | zero => rfl
  | succ k ih =>
    simp only [cntP]
    rw [ih (fun i hi => h i (by omega)), h k (by omega)]

theorem cntP_zero (p : Nat → Bool) (n : Nat) (h : cntP p n = 0) : ∀ i, i < n → p i = false := by
  induction n with
  | zero => intro i hi; omega
  | succ k ih =>
    simp only [cntP] at h
    intro i hi
    by_cases hik : i = k
    · subst hik
      cases hp : p i
      · rfl
      · simp [hp] at h
    · exact ih (by omega) i (by omega)

theorem cntP_pos (p : Nat → Bool) (n : Nat) (h : cntP p n ≠ 0) : ∃ i, i < n ∧ p i = true := by
  induction n with
  | zero => simp [cntP] at h
  | succ k ih =>
    simp only [cntP] at h
    cases hp : p k
    · simp only [hp, Bool.false_eq_true, if_false, Nat.add_zero] at h
      obtain ⟨i, hi, hpi⟩ := ih h
      exact ⟨i, by omega, hpi⟩
    · exact ⟨k, by omega, hp⟩

theorem cntP_full (p : Nat → Bool) (n : Nat) (h : cntP p n = n) : ∀ i, i < n → p i = true := by
  induction n with
  | zero => intro i hi; omega
  | succ k ih =>
    simp only [cntP] at h
    have hle := cntP_le p k
    intro i hi
    cases hp : p k
    · simp [hp] at h; omega
    · simp only [hp, if_true] at h
      by_cases hik : i = k
      · subst hik; exact hp
      · exact ih (by omega) i (by omega)

theorem cntP_lt (p : Nat → Bool) (n : Nat) (h : cntP p n < n) : ∃ i, i < n ∧ p i = false := by
  induction n with
  | zero => omega
  | succ k ih =>
    simp only [cntP] at h
    cases hp : p k
    · exact ⟨k, by omega, hp⟩
    · simp only [hp, if_true] at h
      obtain ⟨i, hi, hpi⟩ := ih (by omega)
      exact ⟨i, by omega, hpi⟩

theorem cntP_all (p : Nat → Bool) (n : Nat) (h : ∀ i, i < n → p i = true) : cntP p n = n := by
  induction n with
  | zero => rfl
  | succ k ih =>
    simp only [cntP]
    rw [ih (fun i hi => h i (by omega)), h k (by omega)]
    simp

theorem cntP_none (n : Nat) : cntP (fun _ => false) n = 0 := by
  induction n with
  | zero => rfl
  | succ k ih => simp [cntP, ih]

/-- changing one slot -/
theorem cntP_upd (p : Nat → Bool) (n i : Nat) (b : Bool) (hi : i < n) :
    cntP (fun j => if j = i then b else p j) n + (if p i then 1 else 0)
      = cntP p n + (if b then 1 else 0) := by
  induction n with
  | zero => omega
  | succ k ih =>
    simp only [cntP]
    by_cases hik : i = k
    · subst hik
      have : cntP (fun j => if j = i then b else p j) i = cntP p i :=
        cntP_congr _ _ _ (fun j hj => by simp [Nat.ne_of_lt hj])
      rw [this]
      simp only [if_true]
      omega
    · have hk : ¬ k = i := fun h => hik h.symm
      have := ih (by omega)
      simp only [hk, if_false]
      omega

end Fc
