/-
  FcLemmas/LiveAnyChain.lean — chain evaluates its inputs sequentially, so along a run of the
  executor at most ONE input can be waiting (the one `index` = `s.cnt` points at): the inputs before
  it have ended (`C10.Inv.before`), the inputs after it were never polled (`IU`, a small `Sim`
  instance of its own).  Hence every schedule either picks that input or ends in the fallback, which
  picks it: `ExecAny.choose = Exec.firstWaiting`, and the run of chain under ANY schedule is the run
  of Fc/Exec.lean (`chain_runFor_eq`).
-/
import FcLemmas.LiveAnyInst
set_option linter.unusedSimpArgs false
set_option linter.unusedVariables false

namespace Fc
namespace LiveAny
open Mon Live Live3

/-- the inputs after `index` were never polled -/
def IU (s : Fix) (t : List Ev) : Prop := ∀ j, s.cnt < j → lastRes t j = none

/-- inside a poll: the slots still to be scanned start at `index` -/
def JU (s : Fix) (t : List Ev) (l : List Nat) : Prop := IU s t ∧ ∃ k, l = List.range' s.cnt k

theorem lastRes_pollSeg_other {c slot : Nat} {wk : Wk} {l : List Ev} {r : Res} {t : List Ev} {j : Nat}
    (hl : ∀ e ∈ l, isFireEv e = true) (hcj : c ≠ j) :
    lastRes (pollSeg c slot wk l r [] t) j = lastRes t j := by
  rw [Fc.lastRes_pollSeg c slot wk l r [] t j hl (by simp)]
  simp [hcj]

theorem sim_chainU : Sim chain .direct Sim.anyRes IU JU where
  fireEv := fun s t e he h j hj => by rw [lastRes_fireEv j e t he]; exact h j hj
  pre := by
    intro s t w o _ h j hj
    simpa [lastRes] using h j hj
  start := by
    intro s t w _ h
    refine ⟨fun j hj => ?_, s.n - s.cnt, rfl⟩
    have := h j hj
    simpa [lastRes] using this
  earlyPend := by
    intro s t l _ hor _
    rcases hor with h1 | h1 <;> simp [chain] at h1
  skip := by
    intro s t i rest hm _
    have := hm rfl
    simp [chain] at this
  goOn := by
    intro s t i rest wk l r hJ _ hr _ hl hex
    obtain ⟨h, k, hlist⟩ := hJ
    obtain ⟨hi, hk, hrest⟩ := C10.range_head hlist
    subst hi
    cases r with
    | fin =>
      refine ⟨fun j hj => ?_, k - 1, hrest⟩
      have hj' : s.cnt + 1 < j := hj
      show lastRes (pollSeg s.cnt s.cnt wk l .fin [] t) j = none
      rw [lastRes_pollSeg_other hl (by omega)]
      exact h j (by omega)
    | pend => simp [chain] at hex
    | ready ok v => simp [chain] at hex
    | item v => simp [chain] at hex
    | panic => exact absurd rfl hr
  goExit := by
    intro s t i rest wk l r o hJ _ hr _ hl hex
    obtain ⟨h, k, hlist⟩ := hJ
    obtain ⟨hi, hk, hrest⟩ := C10.range_head hlist
    subst hi
    have key : ∀ r', (chain.handle s s.cnt r').s = s → (chain.handle s s.cnt r').evs = [] →
        IU (chain.handle s s.cnt r').s
          (.pollEnd o :: pollSeg (chain.child s s.cnt) s.cnt wk l r' (chain.handle s s.cnt r').evs t) := by
      intro r' hs he j hj
      rw [hs] at hj
      rw [he]
      show lastRes (.pollEnd o :: pollSeg s.cnt s.cnt wk l r' [] t) j = none
      simp only [lastRes]
      rw [lastRes_pollSeg_other hl (by omega)]
      exact h j hj
    cases r with
    | fin => simp [chain] at hex
    | pend => exact key _ rfl rfl
    | ready ok v => exact key _ rfl rfl
    | item v => exact key _ rfl rfl
    | panic => exact absurd rfl hr
  panic := by
    intro s t i rest wk l hJ _ hl
    obtain ⟨h, k, hlist⟩ := hJ
    obtain ⟨hi, hk, hrest⟩ := C10.range_head hlist
    subst hi
    intro j hj
    have hj' : s.cnt < j := hj
    show lastRes (.pollEnd .panicked :: pollSeg s.cnt s.cnt wk l .panic [] t) j = none
    simp only [lastRes]
    rw [lastRes_pollSeg_other hl (by omega)]
    exact h j hj'
  finish := by
    intro s t hJ j hj
    have hj' : s.cnt < j := hj
    show lastRes (.pollEnd _ :: ([].reverse ++ t)) j = none
    simpa [lastRes] using hJ.1 j hj'
  drop := by
    intro s t h j hj
    have hj' : s.cnt < j := hj
    show lastRes (.dropEnd :: ((chain.dropEvs s).reverse ++ .dropBegin :: t)) j = none
    simp only [lastRes]
    rw [skip_seg (fun t => lastRes t j) (fun e => match e with | .childDropped _ => true | _ => false)
      (fun e t he => by cases e <;> simp_all [lastRes]) (chain.dropEvs s).reverse
      (by intro e he; simp [chain] at he; obtain ⟨a, _, rfl⟩ := he; rfl)]
    simpa [lastRes] using h j hj'

/-! ### at most one waiting input -/

variable {n : Nat}

theorem chain_waiting_unique (e : Eng Fix) (h : LBC n e) (hu : IU e.s e.w.trace) (c : Nat)
    (hw : ExecAny.isWaiting e c = true) : c = e.s.cnt := by
  obtain ⟨hlr, _⟩ := (isWaiting_iff e c).mp hw
  have hd : e.s.dead = false := by
    cases hdd : e.s.dead with
    | false => rfl
    | true => have := h.fi.dead hdd; rw [h.sp] at this; exact Bool.noConfusion this
  rcases Nat.lt_trichotomy c e.s.cnt with hlt | heq | hgt
  · have := h.fi.before hd c hlt
    simp only [ended, beq_iff_eq] at this
    rw [hlr] at this; cases this
  · exact heq
  · have := hu c hgt
    rw [hlr] at this; cases this

/-- every schedule prods the child the first-waiting schedule prods -/
theorem chain_choose_eq (pick : Nat → Eng Fix → Nat) (r : Nat) (e : Eng Fix) (h : LBC n e)
    (hu : IU e.s e.w.trace) : ExecAny.choose n pick r e = Exec.firstWaiting n e := by
  unfold ExecAny.choose
  split
  · rename_i hp
    obtain ⟨c0, h0⟩ := firstWaiting_isSome hp.1 hp.2
    obtain ⟨_, hw0⟩ := firstWaiting_spec h0
    rw [h0, chain_waiting_unique e h hu _ hp.2, chain_waiting_unique e h hu _ hw0]
  · rfl

theorem chain_round_eq (pick : Nat → Eng Fix → Nat) (r : Nat) (e : Eng Fix) (h : LBC n e)
    (hu : IU e.s e.w.trace) : ExecAny.round chain n pick r e = Exec.round chain n e := by
  unfold ExecAny.round Exec.round
  rw [chain_choose_eq pick r e h hu]
  rfl

theorem runFor_final (P : Policy Fix) (pick : Nat → Eng Fix → Nat) (k r : Nat) (e : Eng Fix)
    (hf : Exec.finalOut (lastOut e.w.trace) = true) :
    ExecAny.runFor P n pick k r e = e ∧ Exec.runFor P n k e = e := by
  cases k with
  | zero => exact ⟨rfl, rfl⟩
  | succ k => simp [ExecAny.runFor, Exec.runFor, ExecAny.round, Exec.round, hf]

/-- the run of chain does not depend on the schedule -/
theorem chain_runFor_eq (pick : Nat → Eng Fix → Nat) : ∀ (k r : Nat) (e : Eng Fix), LBC n e →
    IU e.s e.w.trace → ExecAny.runFor chain n pick k r e = Exec.runFor chain n k e := by
  intro k
  induction k with
  | zero => intro r e _ _; rfl
  | succ k ih =>
    intro r e h hu
    simp only [ExecAny.runFor, Exec.runFor, chain_round_eq pick r e h hu]
    cases hr : Exec.round chain n e with
    | none => rfl
    | some e' =>
      simp only
      unfold Exec.round at hr
      split at hr
      · cases hr
      · split at hr
        · cases hr
          have hu' := (Sim.pollT sim_chainU e (Exec.pollCount e.w.trace + 1) h.mode
            (Sim.scriptsOk_any _) hu).2.2
          rcases lbc_poll e (Exec.pollCount e.w.trace + 1) h with hv | ⟨h', _, _⟩
          · obtain ⟨h1, h2⟩ := runFor_final (n := n) chain pick k (r + 1) _
              (show Exec.finalOut (lastOut (Eng.poll chain e (Exec.pollCount e.w.trace + 1)).w.trace) = true by
                rw [hv]; rfl)
            rw [h1, h2]
          · exact ih (r + 1) _ h' hu'
        · cases hfw : Exec.firstWaiting n e with
          | none => rw [hfw] at hr; cases hr
          | some c =>
            rw [hfw] at hr
            cases hr
            exact ih (r + 1) _ (lbc_fire e c 0 h)
              (Sim.fireT sim_chainU e c 0 h.mode (Sim.scriptsOk_any _) hu).2.2

theorem iu_init (m : Mode) (n : Nat) (scripts : Nat → List Step) :
    IU (FEng.init .chain m n scripts).s (FEng.init .chain m n scripts).w.trace := by
  intro j _
  simp [FEng.init, World.init, lastRes]

theorem chain_any_eq (pick : Nat → Eng Fix → Nat) (m : Mode) (n : Nat) (scripts : Nat → List Step)
    (hs : ∀ c, c < n → streamScript (scripts c) = true) (k r : Nat) :
    ExecAny.runFor chain n pick k r (FEng.init .chain m n scripts)
      = Exec.runFor chain n k (FEng.init .chain m n scripts) :=
  chain_runFor_eq pick k r _ (lbc_init m n scripts hs) (iu_init m n scripts)

end LiveAny
end Fc
