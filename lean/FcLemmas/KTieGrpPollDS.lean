/-
  FcLemmas/KTieGrpPollDS.lean — alloc-only (no `std`) flavour: `StreamGroup::poll_next_inner` of FcGen/KSrcGrpD.lean
  (namespace GrpSD) refines `Eng.poll group`.  Port of FcLemmas/KTieGrpPollS.lean: the readiness set has no flags
  (`clear_ready` answers `true`, `any_ready` is `true`, `set_ready` does nothing), every member that is still pending is
  polled with the stored parent waker; the environment side is FcLemmas/KTieMergeVDEnv.lean (`pollChild_tieD`), the
  model side (visit / scan / close facts about `group`, list facts, loop rules) FcLemmas/KTieGrpPollBase.lean.

  `RelS` is the loop invariant of the std proof without the flag table and `HandedOk`, plus
    * `SlotNamed` (every member is named by its key: the environment logs a `.par` child in the slot of its name),
    * the frame fact `SameRd w0 env`: the translated environment leaves `cap` / `bits` / `count` alone — `TieDir.absV`
      reads these three from the environment and `core` compares them.
-/
import FcProps.KTieGrpDir
import FcLemmas.KTieMergeVDEnv
import FcLemmas.KTieGrpPollS
set_option linter.unusedSimpArgs false
set_option linter.unusedVariables false
namespace Fc
open Rs Src
namespace TieGrpSD
open GrpSD
open TieMergeVD (dw SameRd pollChild_tieD absV_eq)

local macro "unroles" : tactic =>
  `(tactic| try simp only [StreamGroup.roleSlab, StreamGroup.roleWakers, StreamGroup.roleStates,
      StreamGroup.roleKeys, StreamGroup.roleCapacity, StreamGroup.roleQueue] at *)

/-- `WakerVecD::get` hands out the stored parent waker -/
theorem get_par (wv : WakerVecD) (i p : Nat) (hp : wv.readiness.roleParent = some p) :
    WakerVecD.get wv i = some (Wk.par p) := by
  have h : DirVec.ReadinessVec.parent_waker_fn wv.readiness = some wv.readiness.roleParent :=
    (TieDir.vec_tie wv.readiness (World.init .direct 0 (fun _ => [])) 0 0 0).2.2.2.2.2.2.2.2.2.1
  simp only [WakerVecD.get, h, hp, Option.bind_eq_bind, Option.bind_some, Option.map_some]

theorem clear_ready_D (r : DirVec.ReadinessVec) (i : Nat) : DirVec.ReadinessVec.clear_ready r i = some (r, true) :=
  (TieDir.vec_tie r (World.init .direct 0 (fun _ => [])) i 0 0).2.1

theorem set_ready_D (r : DirVec.ReadinessVec) (i : Nat) : DirVec.ReadinessVec.set_ready r i = some (r, false) :=
  (TieDir.vec_tie r (World.init .direct 0 (fun _ => [])) i 0 0).2.2.2.1

theorem any_ready_D (r : DirVec.ReadinessVec) : DirVec.ReadinessVec.any_ready r = some true :=
  (TieDir.vec_tie r (World.init .direct 0 (fun _ => [])) 0 0 0).2.2.2.2.2.2.2.1

abbrev LoopS := StreamGroup × World × Rs.Poll (Option (Nat × Nat)) × Nat

def Occ (g : StreamGroup) (k : Nat) : Prop :=
  k < g.roleCapacity ∧ k < g.roleSlab.entries ∧ ∃ c, g.roleSlab.member k = some c

/-- the loop invariant: `K` the key set (unchanged during the scan), `s0` what the crate does not store, `w0` the
    environment of the caller (its unused flag fields stay) -/
def RelS (s0 : Grp) (w0 : World) (K : List Nat) (l : List Nat) (x : LoopS) (e : Eng Grp) : Prop :=
  x.2.2.1 = .pending ∧ WfG x.1 ∧ x.1.roleWakers.readiness.roleParent ≠ none ∧
  SlotNamed x.1 ∧ SameRd w0 x.2.1 ∧ StreamSteps x.2.1 ∧
  x.1.roleKeys.elems = K ∧ l.Nodup ∧ (∀ k ∈ l, k ∈ K ∧ k ∉ x.1.roleQueue) ∧
  (∀ k ∈ K, k ∉ x.1.roleQueue → Occ x.1 k) ∧
  x.1.roleSlab.len = (K.filter (fun y => !x.1.roleQueue.contains y)).length ∧
  x.2.2.2 + l.length ≤ s0.total ∧
  e = absS x.1 ⟨x.2.1, { s0 with doneCnt := x.2.2.2 }⟩

/-- after the iteration that found an item of member `k` -/
def FinS (s0 : Grp) (w0 : World) (K : List Nat) (x : LoopS) (e : Eng Grp) (o : Outcome) : Prop :=
  ∃ k v, x.2.2.1 = .ready (some (k, v)) ∧ o = .some (s0.outKey k) [v] ∧ WfG x.1 ∧
    SlotNamed x.1 ∧ SameRd w0 x.2.1 ∧ StreamSteps x.2.1 ∧
    x.1.roleKeys.elems = K ∧
    (∀ k ∈ K, k ∉ x.1.roleQueue → Occ x.1 k) ∧
    x.1.roleSlab.len = (K.filter (fun y => !x.1.roleQueue.contains y)).length ∧
    x.2.2.2 < s0.total ∧
    e = { w := TieDir.absV x.1.roleWakers.readiness x.2.1,
          s := (absS x.1 ⟨x.2.1, { s0 with doneCnt := x.2.2.2 }⟩).s.flushQueue }

theorem poll_tie_main (g : StreamGroup) (b : Eng Grp) (w : Nat)
    (hw : WfG g) (hk : GoodKeys g) (hn : SlotNamed g) (hf : StreamSteps b.w)
    (hst : b.s.stream = true) (hd : b.s.dead = false) :
    ∃ g' env' ret,
      StreamGroup.poll_next_inner g w ((absS g b).w.emit (.pollBegin w)) = some (g', env', ret) ∧
      WfG g' ∧ GoodKeys g' ∧
      core (absS g' b) = core (Eng.poll group (absS g b) w) ∧
      env'.scripts = (Eng.poll group (absS g b) w).w.scripts ∧
      env'.handed = (Eng.poll group (absS g b) w).w.handed ∧
      (Eng.poll group (absS g b) w).w.trace = .pollEnd (outcomeOf b.s.keyed ret) :: env'.trace ∧
      SlotNamed g' ∧ StreamSteps env' := by
  have hd' : (absS g b).s.dead = false := hd
  have hf0 : StreamSteps ((absS g b).w.emit (.pollBegin w)) := hf
  by_cases hne : g.roleSlab.len = 0
  · have hl : (absS g b).s.len = 0 := hne
    rw [poll_model_empty _ _ hd' hl]
    refine ⟨g, (absS g b).w.emit (.pollBegin w), .ready none, ?_, hw, hk, rfl, rfl, rfl, rfl, hn, hf0⟩
    unfold StreamGroup.poll_next_inner
    simp only [StreamGroup.roleSlab] at hne
    simp [Slab.isEmpty, hne]
  · have hl : (absS g b).s.len ≠ 0 := hne
    obtain ⟨hsl, hsh⟩ := hw
    obtain ⟨r1, hs1, hs3⟩ := (TieDir.vec_tie g.roleWakers.readiness
      ((absS g b).w.emit (.pollBegin w)) 0 w 0).2.2.2.2.2.2.2.2.1
    have hW : ((absS g b).w.emit (.pollBegin w)).setWaker w
        = TieDir.absV r1 ((absS g b).w.emit (.pollBegin w)) := by rw [hs3]; rfl
    have hr1 : r1.roleParent = some w := by
      have := congrArg World.parent hW
      exact this.symm
    have ha : (TieDir.absV r1 ((absS g b).w.emit (.pollBegin w))).anyReady = true := rfl
    have hany := any_ready_D r1
    simp only [StreamGroup.roleSlab, StreamGroup.roleWakers] at hne hs1
    rw [poll_model_loop _ _ hd' hl (hW ▸ ha), hW]
    generalize hM : Eng.scan group _ _ = M
    unfold StreamGroup.poll_next_inner
    simp [Slab.isEmpty, hne, hs1, hany]
    generalize hfb : Rs.forBreak g.roleKeys.elems _ _ = fb
    obtain ⟨s0, hs0⟩ : ∃ s0 : Grp, s0 = { b.s with doneCnt := 0, total := g.roleSlab.len } := ⟨_, rfl⟩
    have htot : s0.total = g.roleSlab.len := by rw [hs0]
    have H : ∃ s', fb = some s' ∧
        ((M.2 = none ∧ RelS s0 b.w g.roleKeys.elems [] s' M.1) ∨
         (∃ o, M.2 = some o ∧ FinS s0 b.w g.roleKeys.elems s' M.1 o)) := by
      rw [← hM]
      refine forBreak_scan group (RelS s0 b.w g.roleKeys.elems) (FinS s0 b.w g.roleKeys.elems) _ ?_ _ _ _ _ ?_ hfb
      rotate_left
      · have hq := hk.q
        refine ⟨rfl, ⟨hsl, hsh⟩, ?_, hn, ⟨rfl, rfl, rfl⟩, hf0, rfl, hk.nodup, ?_, ?_, ?_, ?_, ?_⟩
        · show r1.roleParent ≠ none
          rw [hr1]; simp
        · intro k hkk; refine ⟨hkk, ?_⟩
          show k ∉ g.roleQueue
          rw [hq]; simp
        · intro k hkk _; exact hk.occ k hkk
        · show g.roleSlab.len = (List.filter (fun y => !g.roleQueue.contains y) g.roleKeys.elems).length
          rw [hq, filter_true_eq]; exact hk.cnt
        · show 0 + g.roleKeys.elems.length ≤ s0.total
          rw [htot, hk.cnt]; omega
        · subst hs0; rfl
      have hKn := hk.nodup
      generalize g.roleKeys.elems = K at hKn
      clear hfb hM hany ha hW hs3 hs1 hsh hsl hl hne hd' hd hst hf hf0 hk htot hn hr1
      rintro k rest ⟨g2, env2, ret2, dc⟩ e ⟨hret, hw2, hp2, hn2, hfr2, hf2, hK, hnd, hin, hocc, hlen, hdc, he⟩
      simp only at hret hw2 hp2 hn2 hfr2 hf2 hK hnd hin hocc hlen hdc he
      subst hret he
      obtain ⟨hsl2, hsh2⟩ := hw2
      obtain ⟨hkK, hkq⟩ := hin k (by simp)
      obtain ⟨hkc, hke, c, hkm⟩ := hocc k hkK hkq
      have hck : c = k := hn2 k c hkm
      subst hck
      have hkl : c < g2.roleStates.len := by rw [hsl2]; exact hkc
      have hps := (TiePS.tie (g2.roleStates.get c)).2.1
      rw [List.nodup_cons] at hnd
      have hin' : ∀ k' ∈ rest, k' ∈ K ∧ k' ∉ g2.roleQueue := fun k' h => hin k' (List.mem_cons_of_mem _ h)
      have hdc' : dc + rest.length ≤ s0.total := by simp at hdc; omega
      by_cases hpend : TiePS.abs (g2.roleStates.get c) = .pending
      · obtain ⟨p, hp⟩ := Option.ne_none_iff_exists'.mp hp2
        have hc1 := clear_ready_D g2.roleWakers.readiness c
        have hset : (absS g2 ⟨env2, { s0 with doneCnt := dc }⟩).w.isSet c = true := rfl
        have hget := get_par g2.roleWakers c p hp
        obtain ⟨env'', hpc, habs'', hsc'', hfr'', -⟩ := pollChild_tieD g2.roleWakers.readiness p env2 c
        have hf'' : StreamSteps env'' := by
          intro c' st hm; rw [hsc''] at hm; exact hf2 c' st (mem_upd_tail hm)
        have hfr3 : SameRd b.w env'' := hfr2.trans hfr''
        have hmem : ((absS g2 ⟨env2, { s0 with doneCnt := dc }⟩).s.member c).getD 0 = c := by
          show (g2.roleSlab.member c).getD 0 = c
          rw [hkm]; rfl
        have hW2 : ((absS g2 ⟨env2, { s0 with doneCnt := dc }⟩).w.clearReady c).pollChild c c
            = TieDir.absV g2.roleWakers.readiness env'' := by
          have h0 : (absS g2 ⟨env2, { s0 with doneCnt := dc }⟩).w.clearReady c = dw (some p) env2 := by
            show (TieDir.absV g2.roleWakers.readiness env2).clearReady c = _
            rw [absV_eq, hp]; rfl
          rw [h0, ← habs'', absV_eq, hp]
        rcases TieGrpS.StreamSteps_res env2 hf2 c with hres | hres | ⟨v, hres⟩
        · rw [visit_go _ c hpend hset (by rw [hmem]; show env2.resOf c ≠ _; rw [hres]; simp)]
          rw [hmem]
          have hres' : (absS g2 ⟨env2, { s0 with doneCnt := dc }⟩).w.resOf c = .pend := hres
          rw [hres', hW2]
          unroles
          simp [PVec.idx, hkl, hps, hpend, hc1, hget, expect, Slab.get, hke, hkm, pollStream, hpc, hres]
          refine ⟨by simp [group], rfl, ⟨hsl2, hsh2⟩, hp2, hn2, hfr3, hf'', hK, hnd.2, hin', hocc, hlen, hdc', ?_⟩
          simp [Eng.applyH, group, World.kop]
          rfl
        · rw [visit_go _ c hpend hset (by rw [hmem]; show env2.resOf c ≠ _; rw [hres]; simp)]
          rw [hmem]
          have hres' : (absS g2 ⟨env2, { s0 with doneCnt := dc }⟩).w.resOf c = .fin := hres
          rw [hres', hW2]
          have hsnoc := length_filter_snoc K g2.roleQueue c hKn hkK hkq
          unroles
          simp [PVec.idx, PVec.set, Slab.remove, uadd, hkl, hps, hpend, hc1, hget, expect, Slab.get, hke, hkm,
            pollStream, hpc, hres]
          refine ⟨by simp [group], rfl, ⟨hsl2, ?_⟩, hp2, ?_, hfr3, hf'', hK, hnd.2, ?_, ?_, ?_, ?_, ?_⟩
          · intro j hj
            show (if j = c then PS.PollState.none_ else g2.roleStates.get j) = _
            split
            · rfl
            · exact hsh2 j hj
          · intro k' c' hm
            have hm' : (if k' = c then none else g2.roleSlab.member k') = some c' := hm
            split at hm'
            · cases hm'
            · exact hn2 k' c' hm'
          · intro k' hk'
            obtain ⟨h1, h2⟩ := hin' k' hk'
            refine ⟨h1, ?_⟩
            show k' ∉ g2.roleQueue ++ [c]
            have : k' ≠ c := fun h => hnd.1 (h ▸ hk')
            simp [h2, this]
          · intro k' hk' hq'
            have hq'' : k' ∉ g2.roleQueue ++ [c] := hq'
            simp at hq''
            obtain ⟨a1, a2, c', a3⟩ := hocc k' hk' hq''.1
            refine ⟨a1, a2, c', ?_⟩
            show (if k' = c then none else g2.roleSlab.member k') = _
            rw [if_neg hq''.2]; exact a3
          · show g2.roleSlab.len - 1 = (List.filter (fun y => !(g2.roleQueue ++ [c]).contains y) K).length
            unroles
            omega
          · show dc + 1 + rest.length ≤ s0.total
            simp at hdc; omega
          · simp [Eng.applyH, group, World.kop, Grp.slabRemove, World.emits, World.emit, absS, TieDir.absV, hkm]
            refine ⟨?_, ?_, ?_⟩ <;> (funext j; by_cases hj : j = c <;> simp [upd, hj, TiePS.abs])
        · rw [visit_go _ c hpend hset (by rw [hmem]; show env2.resOf c ≠ _; rw [hres]; simp)]
          rw [hmem]
          have hres' : (absS g2 ⟨env2, { s0 with doneCnt := dc }⟩).w.resOf c = .item v := hres
          rw [hres', hW2]
          have hr1 := set_ready_D g2.roleWakers.readiness c
          unroles
          simp [PVec.idx, PVec.set, hkl, hps, hpend, hc1, hget, expect, Slab.get, hke, hkm, pollStream, hpc, hres, hr1]
          refine ⟨_, rfl, c, v, rfl, rfl, ⟨hsl2, ?_⟩, hn2, hfr3, hf'', hK, hocc, hlen, ?_, ?_⟩
          · intro j hj
            show (if j = c then PS.PollState.pending else g2.roleStates.get j) = _
            have hj' : g2.roleCapacity ≤ j := hj
            have : j ≠ c := by unroles; omega
            rw [if_neg this]; exact hsh2 j hj
          · show dc < s0.total
            simp at hdc; omega
          · simp [Eng.applyH, group, World.kop, World.emits, absS, Grp.flushQueue]
            refine ⟨rfl, ?_⟩
            funext j
            by_cases hj : j = c
            · subst hj; simp [hpend]; simp [TiePS.abs]
            · simp [hj]
      · rw [visit_skip _ c hpend]
        unroles
        simp [PVec.idx, hkl, hps, hpend]
        exact ⟨rfl, ⟨hsl2, hsh2⟩, hp2, hn2, hfr2, hf2, hK, hnd.2, hin', hocc, hlen, hdc', rfl⟩
    obtain ⟨⟨g3, env3, ret3, dc3⟩, rfl, hS⟩ := H
    clear hfb hM
    obtain ⟨M1, M2⟩ := M
    have hkeyed : s0.keyed = b.s.keyed := by rw [hs0]
    have hstream : s0.stream = true := by rw [hs0]; exact hst
    have hK3 : g3.roleKeys.elems = g.roleKeys.elems := by
      rcases hS with ⟨-, -, -, -, -, -, -, hK, -⟩ | ⟨o, -, k, v, -, -, -, -, -, -, hK, -⟩
      · exact hK
      · exact hK
    have key : ∀ g4 : StreamGroup,
        g4.roleKeys.elems = g.roleKeys.elems.filter (fun y => !g3.roleQueue.contains y) → g4.roleQueue = [] →
        g4.roleSlab = g3.roleSlab → g4.roleWakers = g3.roleWakers → g4.roleStates = g3.roleStates →
        g4.roleCapacity = g3.roleCapacity →
        WfG g4 ∧ GoodKeys g4 ∧ core (absS g4 b) = core (Eng.close group (M1, M2)) ∧
          env3.scripts = (Eng.close group (M1, M2)).w.scripts ∧
          env3.handed = (Eng.close group (M1, M2)).w.handed ∧
          (Eng.close group (M1, M2)).w.trace =
            .pollEnd (outcomeOf b.s.keyed (if dc3 = g.roleSlab.len then .ready none else ret3)) :: env3.trace ∧
          SlotNamed g4 ∧ StreamSteps env3 := by
      intro g4 h1 h2 h3 h4 h5 h6
      have common : WfG g3 ∧ (∀ k ∈ g.roleKeys.elems, k ∉ g3.roleQueue → Occ g3 k) ∧
          g3.roleSlab.len = (g.roleKeys.elems.filter (fun y => !g3.roleQueue.contains y)).length ∧
          SlotNamed g3 ∧ SameRd b.w env3 ∧ StreamSteps env3 := by
        rcases hS with ⟨-, -, hw3, -, hn3, hfr3, hf3, -, -, -, hocc, hlen, -, -⟩ |
          ⟨o, -, k, v, -, -, hw3, hn3, hfr3, hf3, -, hocc, hlen, -, -⟩
        · exact ⟨hw3, hocc, hlen, hn3, hfr3, hf3⟩
        · exact ⟨hw3, hocc, hlen, hn3, hfr3, hf3⟩
      obtain ⟨⟨a3, a4⟩, hocc, hlen, hn3, ⟨hcap, hbits, hcount⟩, hf3⟩ := common
      have hcnt4 : g4.roleSlab.len = g4.roleKeys.elems.length := by rw [h3, h1]; exact hlen
      have hn4 : SlotNamed g4 := by
        intro k' c' hm; rw [h3] at hm; exact hn3 k' c' hm
      refine ⟨⟨by rw [h5, h6]; exact a3, by rw [h5, h6]; exact a4⟩,
        ⟨by rw [h1]; exact hk.nodup.filter _, ?_, ?_, hcnt4, h2⟩, ?_⟩
      · intro k hk4
        rw [h1] at hk4
        obtain ⟨m1, m2⟩ := List.mem_filter.mp hk4
        have := hocc k m1 (by simpa using m2)
        unfold Occ at this
        rw [h3, h6]; exact this
      · rw [hcnt4]; exact List.length_eq_zero_iff
      · refine (and_assoc.mp (and_assoc.mp (and_assoc.mp ⟨?_, hn4, hf3⟩)))
        rcases hS with ⟨hM2, hret, -, -, -, -, -, hK, -, -, -, -, -, hM1⟩ |
          ⟨o, hM2, k, v, hret, ho, -, -, -, -, hK, -, -, hdc, hM1⟩
        · simp only at hM2 hret hK hM1
          subst hM2 hret hM1
          by_cases hdone : dc3 = g.roleSlab.len
          · simp [Eng.close, group, Eng.applyH, Eng.emit, World.kop, Grp.flushQueue, core, absS, h1, h2, h3, h4, h5, h6,
              hK, TieDir.absV, hstream, htot, outcomeOf, hdone, hcap, hbits, hcount]
          · simp [Eng.close, group, Eng.applyH, Eng.emit, World.kop, Grp.flushQueue, core, absS, h1, h2, h3, h4, h5, h6,
              hK, TieDir.absV, hstream, htot, outcomeOf, hdone, hcap, hbits, hcount]
        · simp only at hM2 hret ho hK hdc hM1
          subst hM2 hret hM1 ho
          have hdone : dc3 ≠ g.roleSlab.len := by rw [← htot]; omega
          simp [Eng.close, group, Eng.applyH, Eng.emit, World.kop, Grp.flushQueue, core, absS, h1, h2, h3, h4, h5, h6,
              hK, TieDir.absV, hstream, htot, outcomeOf, hdone, Grp.outKey, hkeyed, hcap, hbits, hcount]
    clear hS
    by_cases hq : g3.roleQueue = []
    · have hq' := hq
      simp only [StreamGroup.roleQueue] at hq'
      refine ⟨g3, env3, if dc3 = g.roleSlab.len then .ready none else ret3, ?_,
        key g3 (by rw [hq, filter_true_eq]; exact hK3) hq rfl rfl rfl rfl⟩
      simp [hq']
      split <;> rfl
    · have hq' := hq
      simp only [StreamGroup.roleQueue] at hq'
      simp [hq']
      generalize hfb2 : Rs.forBreak _ _ _ = fb2
      have H2 : ∃ s', fb2 = some s' ∧ ∃ pre, g3.roleQueue = pre ++ [] ∧
          s'.1.roleKeys.elems = g.roleKeys.elems.filter (fun y => !pre.contains y) ∧
          s'.1.roleSlab = g3.roleSlab ∧ s'.1.roleWakers = g3.roleWakers ∧ s'.1.roleStates = g3.roleStates ∧
          s'.1.roleCapacity = g3.roleCapacity ∧ s'.2 = (env3, ret3, dc3) := by
        refine forBreak_inv (fun rest (x : LoopS) => ∃ pre, g3.roleQueue = pre ++ rest ∧
          x.1.roleKeys.elems = g.roleKeys.elems.filter (fun y => !pre.contains y) ∧
          x.1.roleSlab = g3.roleSlab ∧ x.1.roleWakers = g3.roleWakers ∧ x.1.roleStates = g3.roleStates ∧
          x.1.roleCapacity = g3.roleCapacity ∧ x.2 = (env3, ret3, dc3)) _ ?_ _ _ _
          ⟨[], rfl, by rw [filter_true_eq]; exact hK3, rfl, rfl, rfl, rfl, rfl⟩ hfb2
        rintro k rest ⟨g5, x5⟩ ⟨pre, e1, e2, e3, e4, e5, e6, e7⟩
        simp only at e1 e2 e3 e4 e5 e6 e7
        subst e7
        refine ⟨_, rfl, pre ++ [k], by rw [e1]; simp, ?_, e3, e4, e5, e6, rfl⟩
        show List.filter (· ≠ k) g5.roleKeys.elems = _
        rw [e2, filter_filter_ne]
      obtain ⟨⟨g5, x5⟩, rfl, pre, e1, e2, e3, e4, e5, e6, e7⟩ := H2
      simp only at e1 e2 e3 e4 e5 e6 e7
      subst e7
      simp only [List.append_nil] at e1
      subst e1
      refine ⟨?g4, env3, if dc3 = g.roleSlab.len then .ready none else ret3, ?eq, ?rest⟩
      case eq => exact TieGrpS.ite_some_triple (dc3 = g.roleSlab.len) _ _ _ _
      exact key _ e2 rfl e3 e4 e5 e6
end TieGrpSD
end Fc
