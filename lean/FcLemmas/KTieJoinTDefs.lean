/-
  FcLemmas/KTieJoinTDefs.lean — tuple join (`(A, B, …).join()`): the relation between a translated `Join` + environment
  and a model state that the scan of `poll` maintains (`RelT`; it includes `completed < N`: inside the loop the join has
  not completed), and the model side of one iteration — `Eng.visit joinTuple` in its five cases (nothing is ready: the
  poll answers `Pending` from inside the loop; the slot is skipped, its flag cleared; the child is pending; the child
  resolves and others are outstanding; the LAST child resolves: the poll returns the outputs from inside the loop) — and of
  the code around the loop (`poll_loopT`, `close_*T`).
  The list facts, `FutStepsF.*`, the primitives of the completion path and the `forBreak` rules are imported from the Vec
  proof (FcLemmas/KTieJoinDefs.lean), the `forCtl` loop rule from FcLemmas/KTieLoopCore.lean.  Namespace `TieJoinT`.
-/
import FcProps.KTieJoinTup
import FcLemmas.KTieJoinDefs
import FcLemmas.KTieLoopCore
import FcLemmas.KTieJoinTEnv

set_option linter.unusedSimpArgs false
set_option linter.unusedVariables false

namespace Fc
open Rs Src

namespace TieJoinT
open JoinT

/-- the translated combinator `g` with the environment `env` is read as the model state `e` (inside a poll: a parent
    waker is stored, the join has not completed) -/
structure RelT (n o : Nat) (e : Eng Fix) (g : Join) (env : World) : Prop where
  ew : e.w = TieArr.abs g.roleWakers.readiness env
  en : e.s.n = n
  kids : g.roleKids.len = n
  st : e.s.st = fun i => TiePS.abs (g.roleStates.get i)
  out : e.s.out = g.roleItems.get
  cnt : e.s.cnt = g.roleCount
  off : e.s.off = o
  dead : e.s.dead = false
  lt : g.roleCount < n
  rd : TieArr.Wf n g.roleWakers.readiness
  sl : g.roleStates.len = n
  ic : g.roleItems.cap = n
  pc : g.roleCount = ((List.range n).filter (fun i => g.roleStates.get i = PS.PollState.ready)).length
  rs : ∀ i, i < n → (g.roleStates.get i = PS.PollState.pending ∨
        (g.roleStates.get i = PS.PollState.ready ∧ ∃ v, g.roleItems.get i = some v))
  par : g.roleWakers.readiness.roleParent ≠ none
  hin : HandedIn n env
  sok : FutStepsF env

/-- the two sides after the poll that COMPLETED the join (`ret = Ready`): the readiness set of `g` with `env` is the
    model's world, the readings agree as far as `doneAgree` says, and the facts about the environment still hold -/
structure DoneT (n : Nat) (b : Eng Fix) (e : Eng Fix) (g : Join) (env : World) : Prop where
  ew : e.w = TieArr.abs g.roleWakers.readiness env
  agree : TieJoinV.doneAgree (absJ n g b) e
  kids : g.roleKids.len = n
  cnt : g.roleCount = n
  hin : HandedIn n env
  sok : FutStepsF env

/-! ## the model side of one iteration -/

theorem visit_idleT (e : Eng Fix) (i : Nat) (ha : e.w.anyReady = false) :
    Eng.visit joinTuple e i = (e, some .pending) := by
  simp [Eng.visit, joinTuple, ha]

theorem visit_skipT (e : Eng Fix) (i : Nat) (ha : e.w.anyReady = true)
    (h : e.w.isSet i = false ∨ e.s.st i = .ready) :
    Eng.visit joinTuple e i = ({ e with w := e.w.clearReady i }, none) := by
  rcases h with h | h <;> simp [Eng.visit, joinTuple, ha, h, Eng.gateGo, Eng.gateW]

theorem visit_pendT (e : Eng Fix) (i : Nat) (ha : e.w.anyReady = true) (h : e.s.st i ≠ .ready)
    (h2 : e.w.isSet i = true) (h4 : e.w.resOf i = .pend) :
    Eng.visit joinTuple e i = ({ e with w := (e.w.clearReady i).pollChild i i }, none) := by
  simp [Eng.visit, joinTuple, ha, h, h2, h4, Eng.gateGo, Eng.gateW, Eng.applyH, Fix.keep, World.kop]

theorem visit_readyT (e : Eng Fix) (i : Nat) (ok : Bool) (v : Nat) (ha : e.w.anyReady = true)
    (h : e.s.st i ≠ .ready) (h2 : e.w.isSet i = true) (h4 : e.w.resOf i = .ready ok v) (hc : e.s.cnt + 1 ≠ e.s.n) :
    Eng.visit joinTuple e i =
      ({ w := ((e.w.clearReady i).pollChild i i).emit (.childDropped i),
         s := { e.s with st := upd e.s.st i .ready, out := upd e.s.out i (some v), cnt := e.s.cnt + 1 } }, none) := by
  simp [Eng.visit, joinTuple, ha, h, h2, h4, hc, Eng.gateGo, Eng.gateW, Eng.applyH, Fix.keep, World.kop, World.emits,
    World.emit]

theorem visit_lastT (e : Eng Fix) (i : Nat) (ok : Bool) (v : Nat) (ha : e.w.anyReady = true)
    (h : e.s.st i ≠ .ready) (h2 : e.w.isSet i = true) (h4 : e.w.resOf i = .ready ok v) (hc : e.s.cnt + 1 = e.s.n) :
    Eng.visit joinTuple e i =
      ({ w := ((e.w.clearReady i).pollChild i i).emit (.childDropped i),
         s := { e.s with st := fun _ => .none, out := upd e.s.out i (some v), cnt := e.s.cnt + 1, dead := true } },
       some (.ready true ((List.range e.s.n).map (fun j => (upd e.s.out i (some v) j).getD 0)))) := by
  simp [Eng.visit, joinTuple, ha, h, h2, h4, hc, Eng.gateGo, Eng.gateW, Eng.applyH, Fix.keep, World.kop, World.emits,
    World.emit, Fix.outs]

/-! ## the model side of the code around the loop -/

theorem poll_loopT (e : Eng Fix) (w : Nat) (hn : e.s.n ≠ 0) (hd : e.s.dead = false) :
    Eng.poll joinTuple e w
      = Eng.close joinTuple (Eng.scan joinTuple (List.range e.s.n)
          { w := (e.w.emit (.pollBegin w)).setWaker w, s := e.s }) := by
  simp [Eng.poll, Eng.body, joinTuple, Fix.misuseIfDead, hd, hn]

theorem close_retT (X : Eng Fix × Option Outcome) (o : Outcome) (h : X.2 = some o) :
    Eng.close joinTuple X = X.1.emit (.pollEnd o) := by
  simp [Eng.close, h]

theorem close_pendT (X : Eng Fix × Option Outcome) (h : X.2 = none) :
    Eng.close joinTuple X = X.1.emit (.pollEnd .pending) := by
  cases X with
  | mk e r =>
    cases h
    simp [Eng.close, joinTuple, Eng.applyH, World.kop, World.emits]

end TieJoinT
end Fc
