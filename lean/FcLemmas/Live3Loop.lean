/-
  FcLemmas/Live3Loop.lean — the stream liveness invariants across the poll skeleton.

  * `pinvs_visit`: `PInvS` (children are well-behaved streams, progress bookkeeping) across one loop
    iteration, for every lawful policy whose handlers emit no events;
  * `IB`: the NEW World-aware ingredient the stream combinators need.  A stream consumer polls again
    after an item without any wake-up, so "every input that is not waiting will be polled" has to
    come from the readiness bits: an eligible input whose latest answer is an item (or that was
    never polled) has its bit set (`IB.a`: merge re-arms the slot that yielded, zip re-arms all slots
    when a row is complete), and every eligible input the scan has passed has answered `Pending`
    (`IB.v`).  Consequence (`PendAll`): when a poll returns `Pending`, every eligible input is
    waiting — so the environment can prod one.
  * `StreamLike`: what the argument needs to know about the policy (merge and zip satisfy it).
-/
import FcLemmas.Live3Obs
import FcLemmas.C08
import FcLemmas.C09
set_option linter.unusedSimpArgs false
set_option linter.unusedVariables false

namespace Fc
namespace Live3
open Mon Live

variable {P : Policy Fix}

/-! ### `PInvS` across one loop iteration -/

theorem pinvs_visit (L : Lawful P) (hevs : ∀ s i r, (P.handle s i r).evs = [])
    {n : Nat} {len0 : Nat → Nat} {t0 : List Ev} (e : Eng Fix) (i : Nat) (hi : i < n)
    (h : PInvS n len0 t0 e.w)
    (hun : P.eligible e.s i = true → lastRes e.w.trace i ≠ some .fin) :
    PInvS n len0 t0 (Eng.visit P e i).1.w ∧
    (∀ c, polledSince e.w.trace c = true → polledSince (Eng.visit P e i).1.w.trace c = true) ∧
    (Eng.gateGo P e i = true → (P.loopAny = true → e.w.anyReady = true) →
      (e.w.resOf i = .pend ∨ (∃ v, e.w.resOf i = .item v) ∨ e.w.resOf i = .fin) ∧
      polledSince (Eng.visit P e i).1.w.trace i = true ∧
      (∀ c, lastRes (Eng.visit P e i).1.w.trace c
          = if i = c then some (e.w.resOf i) else lastRes e.w.trace c) ∧
      (Eng.visit P e i).2 = (P.handle e.s i (e.w.resOf i)).exit ∧
      (Eng.visit P e i).1.s = (P.handle e.s i (e.w.resOf i)).s) ∧
    (∀ o, (Eng.visit P e i).2 = some o →
      o = .pending ∨ polledSince (Eng.visit P e i).1.w.trace i = true) := by
  have hg' : PInvS n len0 t0 (Eng.gateW P e i) :=
    pinvs_congr (Sim.gateW_scripts' e i) (gateW_handed e i) (Sim.gateW_trace e i) h
  have hpoll : Eng.gateGo P e i = true →
      (e.w.resOf i = .pend ∨ (∃ v, e.w.resOf i = .item v) ∨ e.w.resOf i = .fin) ∧
      PInvS n len0 t0 ((Eng.gateW P e i).pollChild i i) := by
    intro hg
    have hel : P.eligible e.s i = true := by
      unfold Eng.gateGo at hg; simp only [Bool.and_eq_true] at hg; exact hg.1
    have := pinvs_pollChild (Eng.gateW P e i) i hi hg' (by rw [Sim.gateW_trace]; exact hun hel)
    rw [Sim.gateW_resOf'] at this
    exact this
  refine Eng.visit_ind P e i (fun r => PInvS n len0 t0 r.1.w ∧
    (∀ c, polledSince e.w.trace c = true → polledSince r.1.w.trace c = true) ∧
    (Eng.gateGo P e i = true → (P.loopAny = true → e.w.anyReady = true) →
      (e.w.resOf i = .pend ∨ (∃ v, e.w.resOf i = .item v) ∨ e.w.resOf i = .fin) ∧
      polledSince r.1.w.trace i = true ∧
      (∀ c, lastRes r.1.w.trace c = if i = c then some (e.w.resOf i) else lastRes e.w.trace c) ∧
      r.2 = (P.handle e.s i (e.w.resOf i)).exit ∧
      r.1.s = (P.handle e.s i (e.w.resOf i)).s) ∧
    (∀ o, r.2 = some o → o = .pending ∨ polledSince r.1.w.trace i = true)) ?_ ?_ ?_ ?_
  · intro hl ha
    refine ⟨h, fun c hc => hc, fun _ hA => ?_, fun o ho => Or.inl (by simpa using ho.symm)⟩
    rw [hA hl] at ha; exact Bool.noConfusion ha
  · intro _ hg
    refine ⟨hg', fun c hc => by simpa using hc, fun hg2 _ => ?_, fun o ho => by simp at ho⟩
    rw [hg] at hg2; exact Bool.noConfusion hg2
  · intro _ hg hp
    rw [L.child_id] at hp
    rcases (hpoll hg).1 with h1 | ⟨v, h1⟩ | h1 <;> rw [h1] at hp <;> cases hp
  · intro _ hg hp
    rw [L.child_id] at hp ⊢
    obtain ⟨hkind, hpc⟩ := hpoll hg
    have htr : (Eng.applyH { e with w := (Eng.gateW P e i).pollChild i i }
        (P.handle e.s i (e.w.resOf i))).w.trace = ((Eng.gateW P e i).pollChild i i).trace := by
      simp [hevs]
    have hpi : polledSince (Eng.applyH { e with w := (Eng.gateW P e i).pollChild i i }
        (P.handle e.s i (e.w.resOf i))).w.trace i = true := by
      rw [htr, polledSince_pollChild]; simp
    refine ⟨pinvs_congr (by simp [kop_scripts, emits_scripts]) (by simp [kop_handed]) htr hpc,
      ?_, fun _ _ => ⟨hkind, hpi, ?_, rfl, rfl⟩, fun _ _ => Or.inr hpi⟩
    · intro c hc
      rw [htr, polledSince_pollChild, Sim.gateW_trace, hc]; simp
    · intro c
      rw [htr, C16.lastRes_pollChild, Sim.gateW_trace, Sim.gateW_resOf']

/-! ### the readiness-bit invariant -/

/-- latest answers after which a stream is polled again without having been woken -/
def Needy (r : Option Res) : Prop := r = none ∨ ∃ v, r = some (.item v)

theorem act_cases {r : Option Res} (h : Act r) : Needy r ∨ r = some .pend := by
  rcases h with h | h | h
  · exact Or.inl (Or.inl h)
  · exact Or.inr h
  · exact Or.inl (Or.inr h)

/-- inside a poll; `V` = slots already scanned -/
structure IB (P : Policy Fix) (n : Nat) (e : Eng Fix) (V : Nat → Prop) : Prop where
  cap : e.w.cap = n
  a : ∀ c, c < n → P.eligible e.s c = true → Needy (lastRes e.w.trace c) → e.w.isSet c = true
  v : ∀ c, c < n → V c → P.eligible e.s c = true → lastRes e.w.trace c = some .pend

/-- every eligible input is waiting -/
def PendAll (P : Policy Fix) (n : Nat) (e : Eng Fix) : Prop :=
  ∀ c, c < n → P.eligible e.s c = true → lastRes e.w.trace c = some .pend

theorem ib_mono {n : Nat} {e : Eng Fix} {V V' : Nat → Prop} (hv : ∀ c, V' c → V c)
    (h : IB P n e V) : IB P n e V' :=
  ⟨h.cap, h.a, fun c hc hvc => h.v c hc (hv c hvc)⟩

theorem isSet_kop_mono (w : World) (k : KOp) (j : Nat) (hj : j < w.cap) (h : w.isSet j = true) :
    (w.kop k).isSet j = true := by
  cases k with
  | nop => exact h
  | arm i => exact World.isSet_setReady_mono w i j h
  | armAll => exact World.isSet_setAllReady_mono w j hj

theorem isSet_arm_self (w : World) (i : Nat) : (w.setReady i).isSet i = true := by
  cases hm : w.mode with
  | direct => exact World.isSet_direct _ _ (by simp [hm])
  | std =>
    rw [World.isSet_std _ _ (by simp [hm]), World.setReady_bits_std w i hm]; simp

theorem isSet_gateW_other (e : Eng Fix) (i j : Nat) (hji : j ≠ i) :
    (Eng.gateW P e i).isSet j = e.w.isSet j := by
  unfold Eng.gateW
  split
  · exact World.isSet_clearReady_other _ _ _ hji
  · rfl

/-- what the argument needs to know about the policy -/
structure StreamLike (P : Policy Fix) (I : Nat → Fix → List Ev → Prop)
    (J : Nat → Fix → List Ev → List Nat → Prop) : Prop where
  conc : Conc P
  hevs : ∀ s i r, (P.handle s i r).evs = []
  hfin : ∀ s, (P.finish s).evs = []
  fin_s : ∀ s, (P.finish s).s = s
  fin_pend : ∀ s, (P.finish s).exit = some .pending
  pre_out : ∀ s o, P.pre s = some o → o = .none ∨ o = .misuse
  preAny_f : ∀ s, P.preAny s = false
  sim : ∀ n m, Sim P m Sim.anyRes (I n) (J n)
  jn : ∀ n s t l, J n s t l → s.n = n
  jlt : ∀ n s t i rest, J n s t (i :: rest) → i < n
  /-- an eligible slot is an input that has not ended -/
  jun : ∀ n s t l, J n s t l → ∀ c, c < n → P.eligible s c = true → lastRes t c ≠ some .fin
  /-- a slot becomes eligible again only when all slots are re-armed (and the poll returns) -/
  el_other : ∀ s i r c, c ≠ i → P.eligible (P.handle s i r).s c = true →
    P.eligible s c = true ∨ ((P.handle s i r).kop = .armAll ∧ (P.handle s i r).exit ≠ none)
  /-- a slot that yielded and stays eligible is re-armed (and the poll returns) -/
  el_item : ∀ s i v, P.eligible (P.handle s i (.item v)).s i = true →
    ((P.handle s i (.item v)).kop = .arm i ∨ (P.handle s i (.item v)).kop = .armAll) ∧
      (P.handle s i (.item v)).exit ≠ none
  /-- an input that ended is switched off, or the poll returns -/
  el_fin : ∀ s i, (P.handle s i .fin).exit = none → P.eligible (P.handle s i .fin).s i = false
  /-- between polls of a live combinator some slot is eligible -/
  waiting : ∀ n s t, 0 < n → I n s t → spent false t = false → ∃ c, c < n ∧ P.eligible s c = true
  /-- … and eligible slots have not ended -/
  iun : ∀ n s t, I n s t → spent false t = false → ∀ c, c < n → P.eligible s c = true →
    lastRes t c ≠ some .fin
  no_ready : ∀ n s t ok vals, I n s (.pollEnd (.ready ok vals) :: t) → False
  misuse_spent : ∀ n s t, I n s (.pollEnd .misuse :: t) → spent false t = true

variable {I : Nat → Fix → List Ev → Prop} {J : Nat → Fix → List Ev → List Nat → Prop}

/-- one loop iteration -/
theorem ib_visit (SL : StreamLike P I J) {n : Nat} (e : Eng Fix) (i : Nat) (V : Nat → Prop)
    (hi : i < n) (h : IB P n e V)
    (hact : ∀ c, c < n → P.eligible e.s c = true → Act (lastRes e.w.trace c))
    (hkind : Eng.gateGo P e i = true →
      (e.w.resOf i = .pend ∨ (∃ v, e.w.resOf i = .item v) ∨ e.w.resOf i = .fin))
    (hnr : e.w.anyReady = false → ∀ c, e.w.isSet c = false) :
    ((Eng.visit P e i).2 = none → IB P n (Eng.visit P e i).1 (fun c => V c ∨ c = i)) ∧
    ((Eng.visit P e i).2 = some .pending → PendAll P n (Eng.visit P e i).1) ∧
    (∀ o, (Eng.visit P e i).2 = some o → IB P n (Eng.visit P e i).1 (fun _ => False)) := by
  have L := SL.conc.law
  refine Eng.visit_ind P e i (fun r =>
    (r.2 = none → IB P n r.1 (fun c => V c ∨ c = i)) ∧
    (r.2 = some .pending → PendAll P n r.1) ∧
    (∀ o, r.2 = some o → IB P n r.1 (fun _ => False))) ?_ ?_ ?_ ?_
  · -- `!any_ready`: no bit is set, so no eligible input is needy
    intro _ ha
    refine ⟨fun hn => by simp at hn, fun _ => ?_, fun _ _ => ib_mono (fun c hc => hc.elim) h⟩
    intro c hc hel
    rcases act_cases (hact c hc hel) with hnd | hp
    · have := h.a c hc hel hnd
      rw [hnr ha c] at this; exact Bool.noConfusion this
    · exact hp
  · -- slot skipped
    intro _ hg
    refine ⟨fun _ => ?_, fun hn => by simp at hn, fun o ho => by simp at ho⟩
    -- if `i` is eligible its bit was clear, so it is not needy
    have hnn : P.eligible e.s i = true → ¬ Needy (lastRes e.w.trace i) := by
      intro hel hnd
      have := h.a i hi hel hnd
      unfold Eng.gateGo at hg
      rw [hel, this] at hg
      exact Bool.noConfusion hg
    refine ⟨by simpa using h.cap, ?_, ?_⟩
    · intro c hc hel hnd
      simp only [Sim.gateW_trace] at hnd
      by_cases hci : c = i
      · subst hci; exact absurd hnd (hnn hel)
      · rw [isSet_gateW_other e i c hci]; exact h.a c hc hel hnd
    · intro c hc hv hel
      simp only [Sim.gateW_trace]
      rcases hv with hv | hv
      · exact h.v c hc hv hel
      · subst hv
        rcases act_cases (hact c hc hel) with hnd | hp
        · exact absurd hnd (hnn hel)
        · exact hp
  · -- a well-behaved stream does not panic
    intro _ hg hp
    rw [L.child_id] at hp
    rcases hkind hg with h1 | ⟨v, h1⟩ | h1 <;> rw [h1] at hp <;> cases hp
  · -- the child was polled and its result handled
    intro _ hg hp
    rw [L.child_id] at hp ⊢
    generalize hr : e.w.resOf i = r at hp ⊢
    have hk := hkind hg
    rw [hr] at hk
    have htr : (Eng.applyH { e with w := (Eng.gateW P e i).pollChild i i }
        (P.handle e.s i r)).w.trace = ((Eng.gateW P e i).pollChild i i).trace := by
      simp [SL.hevs]
    have hlr : ∀ c, lastRes (Eng.applyH { e with w := (Eng.gateW P e i).pollChild i i }
        (P.handle e.s i r)).w.trace c = if i = c then some r else lastRes e.w.trace c := by
      intro c
      rw [htr, C16.lastRes_pollChild, Sim.gateW_trace, Sim.gateW_resOf', hr]
    have hcap : (Eng.applyH { e with w := (Eng.gateW P e i).pollChild i i }
        (P.handle e.s i r)).w.cap = n := by
      simp [h.cap]
    -- the bits after the re-arm
    have hset_other : ∀ c, c < n → c ≠ i → e.w.isSet c = true →
        (Eng.applyH { e with w := (Eng.gateW P e i).pollChild i i }
          (P.handle e.s i r)).w.isSet c = true := by
      intro c hc hci hs
      simp only [Eng.applyH_w]
      refine isSet_kop_mono _ _ c (by simp [h.cap, hc]) ?_
      rw [World.isSet_emits]
      exact World.isSet_pollChild_mono _ _ _ _ (by rw [isSet_gateW_other e i c hci]; exact hs)
    have hset_all : (P.handle e.s i r).kop = .armAll → ∀ c, c < n →
        (Eng.applyH { e with w := (Eng.gateW P e i).pollChild i i }
          (P.handle e.s i r)).w.isSet c = true := by
      intro hk c hc
      simp only [Eng.applyH_w, hk, World.kop]
      exact World.isSet_setAllReady_mono _ c (by simp [h.cap, hc])
    have hA : ∀ c, c < n → P.eligible (P.handle e.s i r).s c = true →
        Needy (lastRes (Eng.applyH { e with w := (Eng.gateW P e i).pollChild i i }
          (P.handle e.s i r)).w.trace c) →
        (Eng.applyH { e with w := (Eng.gateW P e i).pollChild i i }
          (P.handle e.s i r)).w.isSet c = true := by
      intro c hc hel hnd
      rw [hlr] at hnd
      by_cases hci : c = i
      · subst hci
        simp only [if_true] at hnd
        rcases hnd with hnd | ⟨v, hnd⟩
        · cases hnd
        · simp only [Option.some.injEq] at hnd
          subst hnd
          rcases (SL.el_item e.s c v hel).1 with hk | hk
          · simp only [Eng.applyH_w, hk, World.kop]
            exact isSet_arm_self _ c
          · exact hset_all hk c hc
      · have hic : ¬ i = c := fun hh => hci hh.symm
        simp only [hic, if_false] at hnd
        rcases SL.el_other e.s i r c hci hel with hel' | ⟨hk, _⟩
        · exact hset_other c hc hci (h.a c hc hel' hnd)
        · exact hset_all hk c hc
    refine ⟨fun hex => ⟨hcap, hA, ?_⟩, fun hex => absurd hex (SL.conc.no_pend_exit _ _ _).1,
      fun _ _ => ⟨hcap, hA, fun c _ hv => hv.elim⟩⟩
    -- the loop goes on: every eligible slot scanned so far is waiting
    intro c hc hv hel
    simp only [Eng.applyH_s] at hel
    rw [hlr]
    by_cases hci : c = i
    · subst hci
      simp only [if_true]
      rcases hk with hk | ⟨v, hk⟩ | hk
      · rw [hk]
      · subst hk; exact absurd hex (SL.el_item e.s c v hel).2
      · subst hk
        rw [SL.el_fin e.s c hex] at hel; exact Bool.noConfusion hel
    · have hic : ¬ i = c := fun hh => hci hh.symm
      simp only [hic, if_false]
      rcases hv with hv | hv
      · rcases SL.el_other e.s i r c hci hel with hel' | ⟨_, hx⟩
        · exact h.v c hc hv hel'
        · exact absurd hex hx
      · exact absurd hv hci

/-! ### the loop -/

/-- when `any_ready` is false no slot passes the readiness test (std: from the C01 invariant) -/
def NoneSet (e : Eng Fix) : Prop := e.w.anyReady = false → ∀ c, e.w.isSet c = false

theorem noneSet_direct (e : Eng Fix) (hm : e.w.mode = .direct) : NoneSet e := by
  intro ha; simp [World.anyReady, hm] at ha

theorem scan_n' (L : Lawful P) (l : List Nat) (e : Eng Fix) : (Eng.scan P l e).1.s.n = e.s.n :=
  C01.scan_n L l e

theorem pinvs_scan (SL : StreamLike P I J) {m : Mode} {n : Nat} {len0 : Nat → Nat} {t0 : List Ev} :
    ∀ (l : List Nat) (e : Eng Fix) (V : Nat → Prop), e.w.mode = m → J n e.s e.w.trace l →
      PInvS n len0 t0 e.w → IB P n e V → (m = .std → C01.PInv P n e V) → P.pre e.s = none →
      PInvS n len0 t0 (Eng.scan P l e).1.w ∧
      ((Eng.scan P l e).2 = none → IB P n (Eng.scan P l e).1 (fun c => V c ∨ c ∈ l)) ∧
      ((Eng.scan P l e).2 = some .pending → PendAll P n (Eng.scan P l e).1) ∧
      (∀ o, (Eng.scan P l e).2 = some o → IB P n (Eng.scan P l e).1 (fun _ => False)) ∧
      (∀ o, (Eng.scan P l e).2 = some o →
        o = .pending ∨ ∃ c, polledSince (Eng.scan P l e).1.w.trace c = true) := by
  intro l
  induction l with
  | nil =>
    intro e V _ _ hp hib _ _
    exact ⟨hp, fun _ => ib_mono (fun c hc => by simpa using hc) hib, fun h => by simp [Eng.scan] at h,
      fun o ho => by simp [Eng.scan] at ho, fun o ho => by simp [Eng.scan] at ho⟩
  | cons i rest ih =>
    intro e V hm hJ hp hib hK hl
    have L := SL.conc.law
    have hi : i < n := SL.jlt n _ _ i rest hJ
    have hun := SL.jun n _ _ _ hJ
    have hact : ∀ c, c < n → P.eligible e.s c = true → Act (lastRes e.w.trace c) := by
      intro c hc hel
      rcases hp.wi.str c hc with hs | hs
      · exact hs.2.1
      · exact absurd hs (hun c hc hel)
    have hv := pinvs_visit L SL.hevs e i hi hp (hun i hi)
    have hnr : NoneSet e := by
      cases m with
      | std =>
        intro ha
        exact C20S.hnr_std (hK rfl) ha
      | direct => exact noneSet_direct e hm
    have hkind : Eng.gateGo P e i = true →
        (e.w.resOf i = .pend ∨ (∃ v, e.w.resOf i = .item v) ∨ e.w.resOf i = .fin) := by
      intro hg
      have hel : P.eligible e.s i = true := by
        unfold Eng.gateGo at hg; simp only [Bool.and_eq_true] at hg; exact hg.1
      have hs : streamScript (e.w.scripts i) = true := by
        rcases hp.wi.str i hi with hs | hs
        · exact hs.1
        · exact absurd hs (hun i hi hel)
      rcases str_resOf e.w i hs with ⟨_, hr⟩ | ⟨_, hr | hr, _⟩
      · exact Or.inr (Or.inr hr)
      · exact Or.inl hr
      · exact Or.inr (Or.inl hr)
    have hb := ib_visit SL e i V hi hib hact hkind hnr
    have hT := Sim.visitT (SL.sim n m) e i rest hm (Sim.scriptsOk_any _) hJ
    unfold Eng.scan
    cases hvis : (Eng.visit P e i).2 with
    | some o =>
      simp only
      refine ⟨hv.1, fun hn => by simp at hn, fun ho => ?_, fun o' _ => hb.2.2 o hvis, ?_⟩
      · simp only [Option.some.injEq] at ho
        subst ho
        exact hb.2.1 hvis
      · intro o' ho'
        simp only [Option.some.injEq] at ho'
        subst ho'
        rcases hv.2.2.2 o hvis with h1 | h1
        · exact Or.inl h1
        · exact Or.inr ⟨i, h1⟩
    | none =>
      simp only
      have hK' : m = .std → C01.PInv P n (Eng.visit P e i).1 (fun c => V c ∨ c = i) ∧
          P.pre (Eng.visit P e i).1.s = none := by
        intro hs
        have hin : i < e.s.n := by rw [SL.jn n _ _ _ hJ]; exact hi
        exact (C01.pinv_visit SL.conc e i V hin (hK hs) hl).1 hvis
      have hl' : P.pre (Eng.visit P e i).1.s = none := by
        -- a handler that finishes the combinator returns from the poll
        refine Eng.visit_ind P e i (fun r => r.2 = none → P.pre r.1.s = none) ?_ ?_ ?_ ?_ hvis
        · intro _ _ hn; simp at hn
        · intro _ _ _; exact hl
        · intro _ _ _ hn; simp at hn
        · intro _ _ _ hex
          simp only [Eng.applyH_s]
          by_cases hd : P.pre (P.handle e.s i (e.w.resOf (P.child e.s i))).s = none
          · exact hd
          · exact absurd hex (L.dead_exit _ _ _ hl hd)
      have := ih (Eng.visit P e i).1 (fun c => V c ∨ c = i) hT.1 (hT.2.2.1 hvis) hv.1
        (hb.1 hvis) (fun hs => (hK' hs).1) hl'
      refine ⟨this.1, fun hs => ib_mono ?_ (this.2.1 hs), this.2.2.1, this.2.2.2.1, this.2.2.2.2⟩
      intro c hc
      simp only [List.mem_cons] at hc
      rcases hc with hc | hc | hc
      · exact Or.inl (Or.inl hc)
      · exact Or.inl (Or.inr hc)
      · exact Or.inr hc

/-! ### one top-level poll -/

/-- the readiness-bit invariant between operations -/
structure BIB (P : Policy Fix) (n : Nat) (e : Eng Fix) : Prop where
  cap : e.w.cap = n
  a : ∀ c, c < n → P.eligible e.s c = true → Needy (lastRes e.w.trace c) → e.w.isSet c = true
  pa : lastOut e.w.trace = some .pending → PendAll P n e

theorem bib_emit_pollEnd {n : Nat} (e : Eng Fix) (o : Outcome) (h : IB P n e (fun _ => False))
    (hp : o = .pending → PendAll P n e) : BIB P n (e.emit (.pollEnd o)) := by
  refine ⟨by simpa using h.cap, ?_, ?_⟩
  · intro c hc hel hnd
    exact h.a c hc hel (by simpa [lastRes] using hnd)
  · intro hlo c hc hel
    simp only [Eng.emit_w, World.emit_trace, lastOut, Option.some.injEq] at hlo
    simpa [lastRes] using hp hlo c hc hel

theorem pends_poll (SL : StreamLike P I J) {m : Mode} {n : Nat} (e : Eng Fix) (wid : Nat)
    (hm : e.w.mode = m) (hI : I n e.s e.w.trace) (hw : WInvS n e.w)
    (hsp : spent false e.w.trace = false) (hb : BIB P n e) (hstd : m = .std → C01.BInv P n e) :
    PEndS n (fun c => (e.w.scripts c).length) e.w.trace (Eng.poll P e wid).w ∧
      BIB P n (Eng.poll P e wid) := by
  have L := SL.conc.law
  have hbeg := pinvs_begin wid hw hsp
  unfold Eng.poll
  split
  · rename_i o ho
    have hb' : PInvS n (fun c => (e.w.scripts c).length) e.w.trace (e.w.emit (.pollBegin wid)) :=
      pinvs_congr (w := (e.w.emit (.pollBegin wid)).setWaker wid) rfl rfl rfl hbeg
    refine ⟨pends_of_pinvs hb' o (fun k vs hk => by
      rcases SL.pre_out _ _ ho with h1 | h1 <;> rw [h1] at hk <;> cases hk), ?_⟩
    have hne := SL.conc.pre_ok e.s
    rw [ho] at hne
    refine bib_emit_pollEnd (e.emit (.pollBegin wid)) o ⟨by simpa using hb.cap, ?_, fun c _ hv => hv.elim⟩
      (fun hh => absurd (by rw [hh]) hne.1)
    intro c hc hel hnd
    exact hb.a c hc hel (by simpa [lastRes] using hnd)
  · rename_i hpre
    unfold Eng.body
    simp only
    split
    · rename_i hc
      rw [SL.preAny_f] at hc; simp at hc
    · have hJ := (SL.sim n m).start _ _ wid hpre hI
      have hib : IB P n { w := (e.w.emit (.pollBegin wid)).setWaker wid, s := P.start e.s }
          (fun _ => False) := by
        refine ⟨by simpa using hb.cap, ?_, fun c _ hv => hv.elim⟩
        intro c hc hel hnd
        simp only [L.start_elig] at hel
        have := hb.a c hc hel (by simpa [lastRes] using hnd)
        simpa [World.isSet_setWaker, World.isSet_emit] using this
      have hK : m = .std → C01.PInv P n
          { w := (e.w.emit (.pollBegin wid)).setWaker wid, s := P.start e.s } (fun _ => False) := by
        intro hs
        have h1 := hstd hs
        have hq := C01.quiet_of_binv e h1
        have hmb1 : c01Boundaries n (Ev.pollBegin wid :: e.w.trace) = true :=
          C01.mb_startsOp n _ _ h1.mb hq
        refine ⟨C01.ks_setWaker wid (C01.ks_emit _ rfl h1.ks), ⟨⟨wid, by simp, by simp [cur]⟩, ?_⟩,
          by simp [inPoll], by simpa using hmb1, by simp [h1.cap, L.n_start], ?_⟩
        · intro c hv; exact absurd hv (by simp)
        · intro _ j hj
          simp only [L.start_elig]
          exact h1.r1 hpre j (by simpa [lastRes] using hj)
      have hs := pinvs_scan SL (P.order e.s)
        { w := (e.w.emit (.pollBegin wid)).setWaker wid, s := P.start e.s } (fun _ => False)
        hm hJ hbeg hib hK (L.start_live _ hpre)
      unfold Eng.close
      split
      · rename_i o ho
        refine ⟨pends_of_pinvs hs.1 _ (fun k vs hk => ?_), bib_emit_pollEnd _ o (hs.2.2.2.1 o ho)
          (fun hh => hs.2.2.1 (by rw [ho, hh]))⟩
        rcases hs.2.2.2.2 o ho with h1 | h1
        · rw [h1] at hk; cases hk
        · exact h1
      · rename_i hn
        have hib' := hs.2.1 hn
        refine ⟨pends_of_pinvs (pinvs_congr ?_ ?_ ?_ hs.1) _ (fun k vs hk => by
          rw [SL.fin_pend] at hk; cases hk), ?_⟩
        · simp [kop_scripts, emits_scripts]
        · simp [kop_handed]
        · simp [SL.hfin]
        · -- the scan was complete: every eligible slot has been passed
          have hall : ∀ c, c < n → c ∈ P.order e.s := by
            intro c hc
            have hn' : e.s.n = n := by
              have := SL.jn n _ _ _ hJ
              simpa [L.n_start] using this
            exact SL.conc.order_all _ _ hpre (by rw [hn']; exact hc)
          have hib2 : IB P n ((Eng.scan P (P.order e.s)
              { w := (e.w.emit (.pollBegin wid)).setWaker wid, s := P.start e.s }).1.applyH
              (P.finish (Eng.scan P (P.order e.s)
                { w := (e.w.emit (.pollBegin wid)).setWaker wid, s := P.start e.s }).1.s))
              (fun c => c ∈ P.order e.s) := by
            refine ⟨by simpa using hib'.cap, ?_, ?_⟩
            · intro c hc hel hnd
              simp only [Eng.applyH_s, SL.fin_s] at hel
              simp only [Eng.applyH_w, World.kop_trace, World.emits_trace, SL.hfin, List.reverse_nil,
                List.nil_append] at hnd
              simp only [Eng.applyH_w, L.finish_kop, World.kop, World.isSet_emits]
              exact hib'.a c hc hel hnd
            · intro c hc hv hel
              simp only [Eng.applyH_s, SL.fin_s] at hel
              simp only [Eng.applyH_w, World.kop_trace, World.emits_trace, SL.hfin, List.reverse_nil,
                List.nil_append]
              exact hib'.v c hc (Or.inr hv) hel
          refine bib_emit_pollEnd _ _ (ib_mono (fun c hc => hc.elim) hib2) (fun _ => ?_)
          intro c hc hel
          exact hib2.v c hc (hall c hc) hel

/-- a wake-up between polls -/
theorem bib_fire {n : Nat} (e : Eng Fix) (c a : Nat) (h : BIB P n e) : BIB P n (e.fire c a) := by
  refine ⟨by simpa using h.cap, ?_, ?_⟩
  · intro j hj hel hnd
    simp only [Eng.fire_w, C16.lastRes_fire] at hnd
    exact World.isSet_fire_mono _ _ _ _ (h.a j hj hel hnd)
  · intro hlo j hj hel
    simp only [Eng.fire_w, C01.lastOut_fire] at hlo
    simp only [Eng.fire_w, C16.lastRes_fire]
    exact h.pa hlo j hj hel

end Live3
end Fc
