/-
  FcLemmas/Frame.lean — how kernel steps move the readiness test `isSet` and the ghost
  observations used by C20 (everPolled, polledSince, atPollBegin).
-/
import FcLemmas.Ghost

namespace Fc
open Mon

namespace World

theorem isSet_emit (w : World) (e : Ev) (j : Nat) : (w.emit e).isSet j = w.isSet j := rfl
theorem isSet_emits (w : World) (l : List Ev) (j : Nat) : (w.emits l).isSet j = w.isSet j := rfl
theorem isSet_setWaker (w : World) (p j : Nat) : (w.setWaker p).isSet j = w.isSet j := rfl

theorem isSet_direct (w : World) (j : Nat) (hm : w.mode = .direct) : w.isSet j = true := by
  simp [isSet, hm]

theorem isSet_std (w : World) (j : Nat) (hm : w.mode = .std) : w.isSet j = w.bits j := by
  simp [isSet, hm]

theorem isSet_setReady_mono (w : World) (i j : Nat) (h : w.isSet j = true) :
    (w.setReady i).isSet j = true := by
  cases hm : w.mode with
  | direct => exact isSet_direct _ _ (by simp [hm])
  | std =>
    rw [isSet_std _ _ (by simp [hm]), setReady_bits_std w i hm]
    rw [isSet_std _ _ hm] at h
    by_cases hji : j = i
    · subst hji; simp
    · rw [upd_other _ _ _ _ hji]; exact h

theorem isSet_setAllReady_mono (w : World) (j : Nat) (hj : j < w.cap) :
    (w.setAllReady).isSet j = true := by
  cases hm : w.mode with
  | direct => exact isSet_direct _ _ (by simp [hm])
  | std =>
    rw [isSet_std _ _ (by simp [hm])]
    unfold setAllReady
    rw [hm]; simp [hj]

theorem isSet_clearReady_other (w : World) (i j : Nat) (hji : j ≠ i) :
    (w.clearReady i).isSet j = w.isSet j := by
  cases hm : w.mode with
  | direct => rw [isSet_direct _ _ (by simp [hm]), isSet_direct _ _ hm]
  | std =>
    rw [isSet_std _ _ (by simp [hm]), isSet_std _ _ hm, clearReady_bits_std w i hm,
      upd_other _ _ _ _ hji]

theorem isSet_fireWk_mono (w : World) (wk : Wk) (j : Nat) (h : w.isSet j = true) :
    (w.fireWk wk).isSet j = true := by
  cases wk with
  | par p => exact h
  | sub s =>
    cases hm : w.mode with
    | direct =>
      have : w.fireWk (.sub s) = w := by simp [fireWk, hm]
      rw [this]; exact h
    | std =>
      cases hb : w.bits s with
      | true =>
        have : w.fireWk (.sub s) = w := by simp [fireWk, hm, hb]
        rw [this]; exact h
      | false =>
        cases hp : w.parent with
        | some p =>
          have : w.fireWk (.sub s) = (w.setReady s).emit (.woke p) := by simp [fireWk, hm, hb, hp]
          rw [this]; exact isSet_setReady_mono w s j h
        | none =>
          have : w.fireWk (.sub s) = (w.setReady s).emit .wakePanic := by simp [fireWk, hm, hb, hp]
          rw [this]; exact isSet_setReady_mono w s j h

theorem isSet_fire_mono (w : World) (c a j : Nat) (h : w.isSet j = true) :
    (w.fire c a).isSet j = true := by
  unfold fire
  split
  · exact h
  · exact isSet_fireWk_mono _ _ j h

theorem isSet_fires_mono (w : World) (l : List (Nat × Nat)) (j : Nat) (h : w.isSet j = true) :
    (w.fires l).isSet j = true := by
  induction l generalizing w with
  | nil => exact h
  | cons p l ih => rw [fires_cons]; exact ih _ (isSet_fire_mono w p.1 p.2 j h)

theorem isSet_pollChild_mono (w : World) (c s j : Nat) (h : w.isSet j = true) :
    (w.pollChild c s).isSet j = true := by
  unfold pollChild
  exact isSet_fires_mono _ _ j h

end World

/-! ghost observations across `pollChild` -/

theorem everPolled_fireEv' (c : Nat) : ∀ e t, isFireEv e = true → everPolled (e :: t) c = everPolled t c :=
  fun e t h => everPolled_fireEv c e t h

theorem everPolled_pollChild (w : World) (c s c' : Nat) :
    everPolled (w.pollChild c s).trace c' = (decide (c = c') || everPolled w.trace c') := by
  obtain ⟨l, hl, hp⟩ := World.pollChild_seg w c s
  rw [hl]
  simp only [everPolled]
  rw [skip_seg (fun t => everPolled t c') isFireEv (fun e t h => everPolled_fireEv c' e t h) l hp]
  simp [everPolled]

theorem polledSince_pollChild (w : World) (c s c' : Nat) :
    polledSince (w.pollChild c s).trace c' = (decide (c = c') || polledSince w.trace c') := by
  obtain ⟨l, hl, hp⟩ := World.pollChild_seg w c s
  rw [hl]
  simp only [polledSince]
  rw [skip_seg (fun t => polledSince t c') isFireEv (fun e t h => polledSince_fireEv c' e t h) l hp]
  simp [polledSince]

theorem atPollBegin_fireEv (e : Ev) (t : List Ev) (h : isFireEv e = true) :
    atPollBegin (e :: t) = atPollBegin t := by
  cases e <;> simp_all [isFireEv, atPollBegin]

theorem atPollBegin_own (e : Ev) (t : List Ev) (h : isOwnEv e = true) :
    atPollBegin (e :: t) = atPollBegin t := by
  cases e <;> simp_all [isOwnEv, atPollBegin]

theorem atPollBegin_pollChild (w : World) (c s : Nat) :
    atPollBegin (w.pollChild c s).trace = atPollBegin w.trace := by
  obtain ⟨l, hl, hp⟩ := World.pollChild_seg w c s
  rw [hl]
  simp only [atPollBegin]
  rw [skip_seg atPollBegin isFireEv atPollBegin_fireEv l hp]
  simp [atPollBegin]

/-! the C20 monitor ignores everything except `pollEnd pending` -/

theorem c20_skip (f : Bool) (n : Nat) (e : Ev) (t : List Ev) (h : e ≠ .pollEnd .pending) :
    holds_C20 f n (e :: t) = holds_C20 f n t := by
  cases e <;> simp_all [holds_C20]

theorem c20_seg (f : Bool) (n : Nat) (l t : List Ev) (hl : ∀ e ∈ l, e ≠ .pollEnd .pending) :
    holds_C20 f n (l ++ t) = holds_C20 f n t := by
  induction l with
  | nil => rfl
  | cons e l ih =>
    rw [List.cons_append, c20_skip f n e _ (hl e (List.mem_cons_self ..))]
    exact ih (fun e' he' => hl e' (List.mem_cons_of_mem _ he'))

theorem fireEv_ne_pe (e : Ev) (h : isFireEv e = true) : e ≠ .pollEnd .pending := by
  cases e <;> simp_all [isFireEv]

theorem ownEv_ne_pe (e : Ev) (h : isOwnEv e = true) : e ≠ .pollEnd .pending := by
  cases e <;> simp_all [isOwnEv]

theorem c20_pollChild (f : Bool) (n : Nat) (w : World) (c s : Nat) :
    holds_C20 f n (w.pollChild c s).trace = holds_C20 f n w.trace := by
  obtain ⟨l, hl, hp⟩ := World.pollChild_seg w c s
  rw [hl, c20_skip f n _ _ (by simp), c20_seg f n l _ (fun e he => fireEv_ne_pe e (hp e he)),
    c20_skip f n _ _ (by simp)]

theorem c20_fire (f : Bool) (n : Nat) (w : World) (c a : Nat) :
    holds_C20 f n (w.fire c a).trace = holds_C20 f n w.trace := by
  obtain ⟨l, hl, hp⟩ := World.fire_seg w c a
  rw [hl, c20_seg f n l _ (fun e he => fireEv_ne_pe e (hp e he))]

theorem c20_emits_own (f : Bool) (n : Nat) (w : World) (l : List Ev) (hl : ∀ e ∈ l, isOwnEv e = true) :
    holds_C20 f n (w.emits l).trace = holds_C20 f n w.trace := by
  simp only [World.emits_trace]
  exact c20_seg f n _ _ (fun e he => ownEv_ne_pe e (hl e (List.mem_reverse.mp he)))

theorem everPolled_fire (w : World) (c a j : Nat) :
    everPolled (w.fire c a).trace j = everPolled w.trace j := by
  obtain ⟨l, hl, hp⟩ := World.fire_seg w c a
  rw [hl]; exact skip_seg (fun t => everPolled t j) isFireEv (fun e t h => everPolled_fireEv j e t h) l hp _

theorem everPolled_emits_own (w : World) (l : List Ev) (hl : ∀ e ∈ l, isOwnEv e = true) (j : Nat) :
    everPolled (w.emits l).trace j = everPolled w.trace j :=
  emits_own_skip (fun t => everPolled t j) (fun e t h => everPolled_own j e t h) w l hl

theorem polledSince_emits_own (w : World) (l : List Ev) (hl : ∀ e ∈ l, isOwnEv e = true) (j : Nat) :
    polledSince (w.emits l).trace j = polledSince w.trace j :=
  emits_own_skip (fun t => polledSince t j) (fun e t h => polledSince_own j e t h) w l hl

theorem atPollBegin_emits_own (w : World) (l : List Ev) (hl : ∀ e ∈ l, isOwnEv e = true) :
    atPollBegin (w.emits l).trace = atPollBegin w.trace :=
  emits_own_skip atPollBegin atPollBegin_own w l hl

end Fc
