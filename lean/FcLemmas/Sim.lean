/-
  FcLemmas/Sim.lean — World-free step invariants.

  Most functional properties only relate a family's own bookkeeping (`σ`) to what its children
  answered (the trace); which child is polled when — the readiness bits — does not matter for
  them.  `Sim P m I J` lists, per policy, the local preservation facts for a boundary invariant
  `I : σ → trace → Prop` and a loop invariant `J : σ → trace → remaining slots → Prop`; the
  generic theorems below lift them over `visit`, `scan`, `poll`, `fire`, `drop` and whole runs,
  for every World (bits, wakers, scripts) whatsoever.
-/
import FcLemmas.Ghost
import FcLemmas.Frame

namespace Fc

/-- the trace after one child poll: `childBegin`, wake-ups during the poll, `childEnd`, then the
    ownership events of the handler (newest first) -/
def pollSeg (c slot : Nat) (wk : Wk) (l : List Ev) (r : Res) (evs : List Ev) (t : List Ev) : List Ev :=
  evs.reverse ++ (.childEnd c r :: (l ++ .childBegin c slot wk :: t))

/-- every step the scripts can still answer satisfies `K child` (an exhausted script answers
    `Pending`): the kind of result a child can produce at all — a future never yields items, a
    stream never resolves -/
structure ScriptsOk (K : Nat → Res → Prop) (w : World) : Prop where
  pend : ∀ c, K c .pend
  mem : ∀ c st, st ∈ w.scripts c → K c st.res

theorem ScriptsOk.resOf {K : Nat → Res → Prop} {w : World} (h : ScriptsOk K w) (c : Nat) :
    K c (w.resOf c) := by
  unfold World.resOf World.stepOf
  split
  · exact h.pend c
  · rename_i s l hs
    exact h.mem c s (by rw [hs]; exact List.mem_cons_self ..)

theorem ScriptsOk.of_scripts {K : Nat → Res → Prop} {w w' : World} (h : ScriptsOk K w)
    (hs : w'.scripts = w.scripts) : ScriptsOk K w' :=
  ⟨h.pend, fun c st hm => h.mem c st (by rw [← hs]; exact hm)⟩

theorem emits_scripts (w : World) (l : List Ev) : (w.emits l).scripts = w.scripts := rfl

theorem kop_scripts (w : World) (k : KOp) : (w.kop k).scripts = w.scripts := by
  cases k with
  | nop => rfl
  | arm i => simp [World.kop]
  | armAll => simp only [World.kop, World.setAllReady]; cases w.mode <;> rfl

theorem ScriptsOk.pollChild {K : Nat → Res → Prop} {w : World} (h : ScriptsOk K w) (c slot : Nat) :
    ScriptsOk K (w.pollChild c slot) := by
  refine ⟨h.pend, fun c' st hm => ?_⟩
  simp only [World.pollChild, World.emit_scripts, World.fires_scripts] at hm
  by_cases hc : c' = c
  · subst hc
    simp only [upd_same] at hm
    exact h.mem _ st (List.mem_of_mem_tail hm)
  · simp only [upd_other _ _ _ _ hc] at hm
    exact h.mem _ st hm

structure Sim {σ : Type} (P : Policy σ) (m : Mode) (K : Nat → Res → Prop) (I : σ → List Ev → Prop)
    (J : σ → List Ev → List Nat → Prop) : Prop where
  /-- a wake-up between polls -/
  fireEv : ∀ s t e, isFireEv e = true → I s t → I s (e :: t)
  /-- a poll answered before `set_waker` (finished combinator, empty group, arity 0) -/
  pre : ∀ s t w o, P.pre s = some o → I s t → I s (.pollEnd o :: .pollBegin w :: t)
  start : ∀ s t w, P.pre s = none → I s t → J (P.start s) (.pollBegin w :: t) (P.order s)
  /-- `!any_ready → Pending` (std mode only) -/
  earlyPend : ∀ s t l, m = .std → (P.loopAny = true ∨ P.preAny s = true) → J s t l →
    I s (.pollEnd .pending :: t)
  skip : ∀ s t i rest, (m = .direct → P.eligible s i = false) → J s t (i :: rest) → J s t rest
  goOn : ∀ s t i rest wk l r, J s t (i :: rest) → P.eligible s i = true → r ≠ .panic →
    K (P.child s i) r → (∀ e ∈ l, isFireEv e = true) → (P.handle s i r).exit = none →
    J (P.handle s i r).s (pollSeg (P.child s i) i wk l r (P.handle s i r).evs t) rest
  goExit : ∀ s t i rest wk l r o, J s t (i :: rest) → P.eligible s i = true → r ≠ .panic →
    K (P.child s i) r → (∀ e ∈ l, isFireEv e = true) → (P.handle s i r).exit = some o →
    I (P.handle s i r).s (.pollEnd o :: pollSeg (P.child s i) i wk l r (P.handle s i r).evs t)
  panic : ∀ s t i rest wk l, J s t (i :: rest) → P.eligible s i = true →
    (∀ e ∈ l, isFireEv e = true) →
    I (P.onPanic s) (.pollEnd .panicked :: pollSeg (P.child s i) i wk l .panic (P.panicEvs s) t)
  finish : ∀ s t, J s t [] →
    I (P.finish s).s (.pollEnd ((P.finish s).exit.getD .pending) :: ((P.finish s).evs.reverse ++ t))
  drop : ∀ s t, I s t → I (P.afterDrop s) (.dropEnd :: ((P.dropEvs s).reverse ++ .dropBegin :: t))

namespace Sim
variable {σ : Type} {P : Policy σ} {m : Mode} {K : Nat → Res → Prop} {I : σ → List Ev → Prop}
  {J : σ → List Ev → List Nat → Prop}

theorem gateW_scripts' (e : Eng σ) (i : Nat) : (Eng.gateW P e i).scripts = e.w.scripts := by
  unfold Eng.gateW; split <;> simp

theorem gateW_trace (e : Eng σ) (i : Nat) : (Eng.gateW P e i).trace = e.w.trace := by
  unfold Eng.gateW; split <;> simp

theorem gateW_mode' (e : Eng σ) (i : Nat) : (Eng.gateW P e i).mode = e.w.mode := by
  unfold Eng.gateW; split <;> simp

theorem gateW_resOf' (e : Eng σ) (i c : Nat) : (Eng.gateW P e i).resOf c = e.w.resOf c := by
  unfold Eng.gateW; split <;> simp [World.resOf, World.stepOf]

theorem fireSeg (S : Sim P m K I J) (s : σ) (l t : List Ev) (hl : ∀ e ∈ l, isFireEv e = true)
    (h : I s t) : I s (l ++ t) := by
  induction l with
  | nil => exact h
  | cons e l ih =>
    rw [List.cons_append]
    exact S.fireEv _ _ _ (hl e (List.mem_cons_self ..))
      (ih (fun e' he' => hl e' (List.mem_cons_of_mem _ he')))

/-- one loop iteration -/
theorem visitT (S : Sim P m K I J) (e : Eng σ) (i : Nat) (rest : List Nat) (hm : e.w.mode = m)
    (hk : ScriptsOk K e.w) (h : J e.s e.w.trace (i :: rest)) :
    ((Eng.visit P e i).1.w.mode = m) ∧ ScriptsOk K (Eng.visit P e i).1.w ∧
    ((Eng.visit P e i).2 = none → J (Eng.visit P e i).1.s (Eng.visit P e i).1.w.trace rest) ∧
    (∀ o, (Eng.visit P e i).2 = some o →
      I (Eng.visit P e i).1.s (.pollEnd o :: (Eng.visit P e i).1.w.trace)) := by
  have hkg : ScriptsOk K (Eng.gateW P e i) := hk.of_scripts (gateW_scripts' e i)
  refine Eng.visit_ind P e i
    (fun r => (r.1.w.mode = m) ∧ ScriptsOk K r.1.w ∧ (r.2 = none → J r.1.s r.1.w.trace rest) ∧
      (∀ o, r.2 = some o → I r.1.s (.pollEnd o :: r.1.w.trace))) ?_ ?_ ?_ ?_
  · intro hl ha
    refine ⟨hm, hk, fun hn => by simp at hn, fun o ho => ?_⟩
    simp only [Option.some.injEq] at ho
    subst ho
    have hstd : m = .std := by
      cases hmm : e.w.mode with
      | std => rw [← hm, hmm]
      | direct => simp [World.anyReady, hmm] at ha
    exact S.earlyPend _ _ _ hstd (Or.inl hl) h
  · intro _ hg
    refine ⟨by simp [gateW_mode', hm], hkg, fun _ => ?_, fun o ho => by simp at ho⟩
    simp only [gateW_trace]
    refine S.skip _ _ _ _ ?_ h
    intro hd
    unfold Eng.gateGo at hg
    rw [World.isSet_direct _ _ (by rw [hm, hd])] at hg
    simpa using hg
  · intro _ hg hp
    have hel : P.eligible e.s i = true := by
      unfold Eng.gateGo at hg
      simp only [Bool.and_eq_true] at hg
      exact hg.1
    refine ⟨by simp [gateW_mode', hm],
      (hkg.pollChild (P.child e.s i) i).of_scripts (by simp [emits_scripts]), fun hn => by simp at hn, fun o ho => ?_⟩
    simp only [Option.some.injEq] at ho
    subst ho
    obtain ⟨l, hl, hf⟩ := World.pollChild_seg (Eng.gateW P e i) (P.child e.s i) i
    simp only [World.emits_trace, hl, gateW_trace, gateW_resOf', hp]
    exact S.panic _ _ _ rest _ l h hel hf
  · intro _ hg hp
    have hel : P.eligible e.s i = true := by
      unfold Eng.gateGo at hg
      simp only [Bool.and_eq_true] at hg
      exact hg.1
    obtain ⟨l, hl, hf⟩ := World.pollChild_seg (Eng.gateW P e i) (P.child e.s i) i
    have hkr : K (P.child e.s i) (e.w.resOf (P.child e.s i)) := hk.resOf _
    refine ⟨by simp [gateW_mode', hm],
      (hkg.pollChild (P.child e.s i) i).of_scripts (by simp [kop_scripts, emits_scripts]), fun hn => ?_, fun o ho => ?_⟩
    · simp only [Eng.applyH_s, Eng.applyH_w, World.kop_trace, World.emits_trace, hl, gateW_trace,
        gateW_resOf']
      exact S.goOn _ _ _ rest _ l _ h hel hp hkr hf hn
    · simp only [Eng.applyH_s, Eng.applyH_w, World.kop_trace, World.emits_trace, hl, gateW_trace,
        gateW_resOf']
      exact S.goExit _ _ _ rest _ l _ o h hel hp hkr hf ho

/-- the loop -/
theorem scanT (S : Sim P m K I J) (l : List Nat) (e : Eng σ) (hm : e.w.mode = m)
    (hk : ScriptsOk K e.w) (h : J e.s e.w.trace l) :
    ((Eng.scan P l e).1.w.mode = m) ∧ ScriptsOk K (Eng.scan P l e).1.w ∧
    ((Eng.scan P l e).2 = none → J (Eng.scan P l e).1.s (Eng.scan P l e).1.w.trace []) ∧
    (∀ o, (Eng.scan P l e).2 = some o →
      I (Eng.scan P l e).1.s (.pollEnd o :: (Eng.scan P l e).1.w.trace)) := by
  induction l generalizing e with
  | nil => exact ⟨hm, hk, fun _ => h, fun o ho => by simp [Eng.scan] at ho⟩
  | cons i rest ih =>
    have hv := visitT S e i rest hm hk h
    unfold Eng.scan
    cases hvis : (Eng.visit P e i).2 with
    | some o =>
      simp only
      exact ⟨hv.1, hv.2.1, fun hn => by simp at hn, fun o' ho' => by
        simp only [Option.some.injEq] at ho'; subst ho'; exact hv.2.2.2 o hvis⟩
    | none =>
      simp only
      exact ih _ hv.1 hv.2.1 (hv.2.2.1 hvis)

theorem pollT (S : Sim P m K I J) (e : Eng σ) (w : Nat) (hm : e.w.mode = m)
    (hk : ScriptsOk K e.w) (h : I e.s e.w.trace) :
    (Eng.poll P e w).w.mode = m ∧ ScriptsOk K (Eng.poll P e w).w ∧
      I (Eng.poll P e w).s (Eng.poll P e w).w.trace := by
  unfold Eng.poll
  split
  · rename_i o ho
    exact ⟨hm, hk.of_scripts rfl, S.pre _ _ w o ho h⟩
  · rename_i hpre
    unfold Eng.body
    simp only
    split
    · rename_i hc
      simp only [Bool.and_eq_true, Bool.not_eq_true'] at hc
      refine ⟨hm, hk.of_scripts rfl, ?_⟩
      have hstd : m = .std := by
        cases hmm : e.w.mode with
        | std => rw [← hm, hmm]
        | direct => simp [World.anyReady, World.setWaker, World.emit, hmm] at hc
      exact S.earlyPend _ _ _ hstd (Or.inr hc.1) (S.start _ _ w hpre h)
    · have hs := scanT S (P.order e.s)
        { w := (e.w.emit (.pollBegin w)).setWaker w, s := P.start e.s } hm (hk.of_scripts rfl)
        (S.start _ _ w hpre h)
      unfold Eng.close
      split
      · rename_i o ho
        exact ⟨hs.1, hs.2.1.of_scripts rfl, hs.2.2.2 o ho⟩
      · rename_i ho
        refine ⟨by simpa using hs.1, hs.2.1.of_scripts (by simp [kop_scripts, emits_scripts]), ?_⟩
        simp only [Eng.emit_s, Eng.emit_w, Eng.applyH_s, Eng.applyH_w, World.emit_trace,
          World.kop_trace, World.emits_trace]
        exact S.finish _ _ (hs.2.2.1 ho)

theorem fireT (S : Sim P m K I J) (e : Eng σ) (c a : Nat) (hm : e.w.mode = m)
    (hk : ScriptsOk K e.w) (h : I e.s e.w.trace) :
    (e.fire c a).w.mode = m ∧ ScriptsOk K (e.fire c a).w ∧
      I (e.fire c a).s (e.fire c a).w.trace := by
  obtain ⟨l, hl, hf⟩ := World.fire_seg e.w c a
  refine ⟨by simpa using hm, hk.of_scripts (by simp), ?_⟩
  simp only [Eng.fire_s, Eng.fire_w, hl]
  exact fireSeg S _ _ _ hf h

theorem dropT (S : Sim P m K I J) (e : Eng σ) (hm : e.w.mode = m) (hk : ScriptsOk K e.w)
    (h : I e.s e.w.trace) :
    (Eng.drop P e).w.mode = m ∧ ScriptsOk K (Eng.drop P e).w ∧
      I (Eng.drop P e).s (Eng.drop P e).w.trace := by
  refine ⟨hm, hk.of_scripts rfl, ?_⟩
  simp only [Eng.drop, World.emit_trace, World.emits_trace]
  exact S.drop _ _ h

/-- every reachable state of a combinator over a fixed set of children -/
theorem runFix {P : Policy Fix} {I : Fix → List Ev → Prop} {J : Fix → List Ev → List Nat → Prop}
    (S : Sim P m K I J) (ops : List Op) (e : Eng Fix) (hm : e.w.mode = m) (hk : ScriptsOk K e.w)
    (h : I e.s e.w.trace) :
    I (ops.foldl (FEng.step P) e).s (ops.foldl (FEng.step P) e).w.trace := by
  induction ops generalizing e with
  | nil => exact h
  | cons op ops ih =>
    simp only [List.foldl_cons]
    cases op with
    | poll w => exact ih _ (pollT S e w hm hk h).1 (pollT S e w hm hk h).2.1 (pollT S e w hm hk h).2.2
    | fire c a => exact ih _ (fireT S e c a hm hk h).1 (fireT S e c a hm hk h).2.1 (fireT S e c a hm hk h).2.2
    | drop => exact ih _ (dropT S e hm hk h).1 (dropT S e hm hk h).2.1 (dropT S e hm hk h).2.2
    | _ => exact ih _ hm hk h

/-- children answer according to their kind -/
def kindRes (f : Fam) : Nat → Res → Prop := fun ch r => r.fits (f.childIsStream ch) = true

theorem scriptsOk_kind (c : Case) (h : c.kindOk) (w : World) (hw : w.scripts = c.scripts) :
    ScriptsOk (kindRes c.fam) w :=
  ⟨fun _ => rfl, fun ch st hm => h ch st (by rw [← hw]; exact hm)⟩

/-- no restriction on what children answer -/
def anyRes : Nat → Res → Prop := fun _ _ => True

theorem scriptsOk_any (w : World) : ScriptsOk anyRes w := ⟨fun _ => trivial, fun _ _ _ => trivial⟩

end Sim
end Fc
