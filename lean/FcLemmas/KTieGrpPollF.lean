/-
  FcLemmas/KTieGrpPollF.lean — `FutureGroup::poll_next_inner` (translated, FcGen/KSrcGrp.lean) refines
  `Eng.poll group` (steps (c)–(e) of the plan; (a), (b), (d) are in FcLemmas/KTieGrpPollBase.lean).

  `RelF` is the loop invariant (the carried group / environment read as the model state, `ret` still `Pending`,
  the remaining keys are keys of the group, a parent waker is stored, the handed-out sub-wakers are in range),
  `FinF` the state after the iteration that `break`s (the key of the finished member is still in the key set;
  the code removes it after the loop, the model at once).
-/
import FcLemmas.KTieGrpPollDefs
set_option linter.unusedSimpArgs false
set_option linter.unusedVariables false
namespace Fc
open Rs Src
namespace TieGrpF
open GrpF

local macro "unroles" : tactic =>
  `(tactic| try simp only [absF, FutureGroup.roleSlab, FutureGroup.roleWakers, FutureGroup.roleStates,
      FutureGroup.roleKeys, FutureGroup.roleCapacity] at *)

theorem FutSteps_res (env : World) (h : FutSteps env) (c : Nat) :
    env.resOf c = .pend ∨ ∃ ok v, env.resOf c = .ready ok v := by
  rcases resOf_mem env c with h1 | ⟨st, hm, h1⟩
  · exact Or.inl h1
  · rw [h1]; exact h c st hm

/-- the carried variables of the loop read as the model state; `s0`: what the crate does not store -/
def RelF (s0 : Grp) (l : List Nat) (x : FutureGroup × World × Rs.Poll (Option (Nat × Nat))) (e : Eng Grp) : Prop :=
  x.2.2 = .pending ∧ WfG x.1 ∧ GoodKeys x.1 ∧ (∀ k ∈ l, k ∈ x.1.roleKeys.elems) ∧
  x.1.roleWakers.readiness.roleParent ≠ none ∧ HandedOk x.1.roleCapacity x.2.1 ∧ FutSteps x.2.1 ∧
  e = absF x.1 ⟨x.2.1, s0⟩

/-- after the iteration that found a finished member `k` (its key is still in the key set) -/
def FinF (s0 : Grp) (x : FutureGroup × World × Rs.Poll (Option (Nat × Nat))) (e : Eng Grp) (o : Outcome) : Prop :=
  ∃ k v, x.2.2 = .ready (some (k, v)) ∧ o = .some (s0.outKey k) [v] ∧ WfG x.1 ∧
    HandedOk x.1.roleCapacity x.2.1 ∧
    (x.1.roleKeys.elems.filter (· ≠ k)).Nodup ∧
    (∀ k' ∈ x.1.roleKeys.elems.filter (· ≠ k),
        k' < x.1.roleCapacity ∧ k' < x.1.roleSlab.entries ∧ ∃ c, x.1.roleSlab.member k' = some c) ∧
    x.1.roleSlab.len = (x.1.roleKeys.elems.filter (· ≠ k)).length ∧
    e = { w := TieVec.abs x.1.roleWakers.readiness x.2.1,
          s := { (absF x.1 ⟨x.2.1, s0⟩).s with keys := x.1.roleKeys.elems.filter (· ≠ k) } }



theorem poll_tie_main (g : FutureGroup) (b : Eng Grp) (w : Nat)
    (hw : WfG g) (hk : GoodKeys g) (hf : FutSteps b.w) (hh : HandedOk g.roleCapacity b.w)
    (hst : b.s.stream = false) (hd : b.s.dead = false) (hq : b.s.queue = []) :
    ∃ g' env' ret,
      FutureGroup.poll_next_inner g w ((absF g b).w.emit (.pollBegin w)) = some (g', env', ret) ∧
      WfG g' ∧ GoodKeys g' ∧
      core (absF g' b) = core (Eng.poll group (absF g b) w) ∧
      env'.scripts = (Eng.poll group (absF g b) w).w.scripts ∧
      env'.handed = (Eng.poll group (absF g b) w).w.handed ∧
      (Eng.poll group (absF g b) w).w.trace = .pollEnd (outcomeOf b.s.keyed ret) :: env'.trace ∧
      HandedOk g'.roleCapacity env' := by
  have hd' : (absF g b).s.dead = false := hd
  by_cases hne : g.roleSlab.len = 0
  · have hl : (absF g b).s.len = 0 := hne
    rw [poll_model_empty _ _ hd' hl]
    refine ⟨g, (absF g b).w.emit (.pollBegin w), .ready none, ?_, hw, hk, rfl, rfl, rfl, rfl, hh⟩
    unfold FutureGroup.poll_next_inner
    simp only [FutureGroup.roleSlab] at hne
    simp [Slab.isEmpty, hne]
  · have hl : (absF g b).s.len ≠ 0 := hne
    have hw0 := hw
    obtain ⟨hrd, hnw, hsl, hsh⟩ := hw
    obtain ⟨r1, hs1, hs2, hs3⟩ := TieVec.set_waker_tie g.roleCapacity g.roleWakers.readiness
      ((absF g b).w.emit (.pollBegin w)) w hrd
    have hW : ((absF g b).w.emit (.pollBegin w)).setWaker w
        = TieVec.abs r1 ((absF g b).w.emit (.pollBegin w)) := by rw [hs3]; rfl
    have hany := TieVec.any_ready_tie r1 ((absF g b).w.emit (.pollBegin w))
    simp only [FutureGroup.roleSlab, FutureGroup.roleWakers] at hne hs1
    cases ha : (TieVec.abs r1 ((absF g b).w.emit (.pollBegin w))).anyReady
    · rw [poll_model_idle _ _ hd' hl (hW ▸ ha), hW]
      unfold FutureGroup.poll_next_inner
      simp [Slab.isEmpty, hne, hs1, hany, ha]
      exact ⟨_, _, _, ⟨rfl, rfl, rfl⟩, ⟨hs2, hnw, hsl, hsh⟩, ⟨hk.nodup, hk.occ, hk.emp, hk.cnt⟩, rfl, rfl, rfl, ⟨rfl, rfl⟩, hh⟩
    · rw [poll_model_loop _ _ hd' hl (hW ▸ ha), hW]
      generalize hM : Eng.scan group _ _ = M
      unfold FutureGroup.poll_next_inner
      simp [Slab.isEmpty, hne, hs1, hany, ha]
      generalize hfb : Rs.forBreak _ _ _ = fb
      obtain ⟨s0, hs0⟩ : ∃ s0 : Grp, s0 = { b.s with doneCnt := 0, total := g.roleSlab.len } := ⟨_, rfl⟩
      have H : ∃ s', fb = some s' ∧
          ((M.2 = none ∧ RelF s0 [] s' M.1) ∨ (∃ o, M.2 = some o ∧ FinF s0 s' M.1 o)) := by
        rw [← hM]
        refine forBreak_scan group (RelF s0) (FinF s0) _ ?_ _ _ _ _ ?_ hfb
        rotate_left
        · refine ⟨rfl, ⟨hs2, hnw, hsl, hsh⟩, ⟨hk.nodup, hk.occ, hk.emp, hk.cnt⟩, fun k hk => hk, ?_, hh, hf, ?_⟩
          · have := TieVec.abs_inj_parent hW.symm
            simp at this
            simp [this]
          · subst hs0; rfl
        clear hfb hM hany ha hW hs3 hs2 hs1 hsh hsl hnw hrd hw0 hl hne hd' hq hd hst hh hf hk
        rintro k rest ⟨g2, env2, ret2⟩ e ⟨hret, hw2, hk2, hin, hp2, hh2, hf2, he⟩
        simp only at hret hw2 hk2 hin hp2 hh2 hf2 he
        subst hret he
        obtain ⟨hrd2, hnw2, hsl2, hsh2⟩ := hw2
        obtain ⟨hkc, hke, c, hkm⟩ := hk2.occ k (hin k (by simp))
        have hkl : k < g2.roleStates.len := by rw [hsl2]; exact hkc
        have hps := (TiePS.tie (g2.roleStates.get k)).2.1
        have hin' : ∀ k' ∈ rest, k' ∈ g2.roleKeys.elems := fun k' h => hin k' (List.mem_cons_of_mem _ h)
        by_cases hpend : TiePS.abs (g2.roleStates.get k) = .pending
        · obtain ⟨r', hc1, hc2, hc3⟩ := TieVec.clear_ready_tie g2.roleCapacity g2.roleWakers.readiness env2 k hrd2 hkc
          have hp' : r'.roleParent ≠ none := by rw [TieVec.abs_inj_parent hc3]; simpa using hp2
          cases hset : (TieVec.abs g2.roleWakers.readiness env2).isSet k
          · rw [hset] at hc1
            rw [visit_clear _ k hpend hset]
            simp only [FutureGroup.roleStates, FutureGroup.roleWakers] at hkl hps hpend hc1
            simp [PVec.idx, hkl, hps, hpend, hc1]
            refine ⟨rfl, ⟨hc2, hnw2, hsl2, hsh2⟩, ⟨hk2.nodup, hk2.occ, hk2.emp, hk2.cnt⟩, hin', hp', hh2, hf2, ?_⟩
            simp only [absF]
            rw [hc3]
          · rw [hset] at hc1
            obtain ⟨r'', env'', hpc, hwf'', hp'', hh'', hsc'', habs''⟩ :=
              TieVec.pollChild_tie g2.roleCapacity r' env2 c k hc2 hp' hh2 hkc
            have hf'' : FutSteps env'' := by
              intro c' st hm; rw [hsc''] at hm; exact hf2 c' st (mem_upd_tail hm)
            have hmem : ((absF g2 ⟨env2, s0⟩).s.member k).getD 0 = c := by
              show (g2.roleSlab.member k).getD 0 = c
              rw [hkm]; rfl
            have hkn : k < g2.roleWakers.nwakers := by rw [hnw2]; exact hkc
            rcases FutSteps_res env2 hf2 c with hres | ⟨ok, v, hres⟩
            · rw [visit_go _ k hpend hset (by rw [hmem]; show env2.resOf c ≠ _; rw [hres]; simp)]
              rw [hmem]
              have hres' : (absF g2 ⟨env2, s0⟩).w.resOf c = .pend := hres
              rw [hres']
              simp only [FutureGroup.roleStates, FutureGroup.roleWakers, FutureGroup.roleSlab] at hkl hps hpend hc1 hkn hke hkm
              simp [PVec.idx, hkl, hps, hpend, hc1, WakerVec.get, expect, hkn, Slab.get, hke, hkm, pollFut, hpc, hres]
              refine ⟨by simp [group], rfl, ⟨hwf'', hnw2, hsl2, hsh2⟩, ⟨hk2.nodup, hk2.occ, hk2.emp, hk2.cnt⟩, hin', hp'',
                hh'', hf'', ?_⟩
              have hW2 : ((absF g2 ⟨env2, s0⟩).w.clearReady k).pollChild c k = TieVec.abs r'' env'' := by
                rw [habs'', hc3]; rfl
              rw [hW2]
              simp [Eng.applyH, group, World.kop]
              rfl
            · rw [visit_go _ k hpend hset (by rw [hmem]; show env2.resOf c ≠ _; rw [hres]; simp)]
              rw [hmem]
              have hres' : (absF g2 ⟨env2, s0⟩).w.resOf c = .ready ok v := hres
              rw [hres']
              have hW2 : ((absF g2 ⟨env2, s0⟩).w.clearReady k).pollChild c k = TieVec.abs r'' env'' := by
                rw [habs'', hc3]; rfl
              rw [hW2]
              simp only [FutureGroup.roleStates, FutureGroup.roleWakers, FutureGroup.roleSlab] at hkl hps hpend hc1 hkn hke hkm
              simp [PVec.idx, PVec.set, Slab.remove, hkl, hps, hpend, hc1, WakerVec.get, expect, hkn, Slab.get, hke, hkm, pollFut, hpc, hres]
              have hkin : k ∈ g2.roleKeys.elems := hin k (by simp)
              have hlen := length_filter_ne _ k hk2.nodup hkin
              refine ⟨_, rfl, k, v, rfl, rfl, ⟨hwf'', hnw2, hsl2, ?_⟩, hh'', hk2.nodup.filter _, ?_, ?_, ?_⟩
              · intro j hj
                show (if j = k then PS.PollState.none_ else g2.roleStates.get j) = _
                split
                · rfl
                · exact hsh2 j hj
              · intro k' hk'
                obtain ⟨h1, h2⟩ := List.mem_filter.mp hk'
                have hne : k' ≠ k := by simpa using h2
                obtain ⟨a1, a2, c', a3⟩ := hk2.occ k' h1
                refine ⟨a1, a2, c', ?_⟩
                show (if k' = k then none else g2.roleSlab.member k') = _
                rw [if_neg hne]; exact a3
              · have := hk2.cnt
                show g2.roleSlab.len - 1 = (List.filter (· ≠ k) g2.roleKeys.elems).length
                omega
              · simp [Eng.applyH, group, World.kop, Grp.slabRemove, World.emits, World.emit, absF, TieVec.abs,
                  World.withStd, hkm]
                refine ⟨?_, ?_, ?_⟩ <;> (funext j; by_cases hj : j = k <;> simp [upd, hj, TiePS.abs])
        · rw [visit_skip _ k hpend]
          simp only [FutureGroup.roleStates] at hkl hps hpend
          simp [PVec.idx, hkl, hps, hpend]
          exact ⟨rfl, ⟨hrd2, hnw2, hsl2, hsh2⟩, hk2, hin', hp2, hh2, hf2, rfl⟩
      obtain ⟨⟨g3, env3, ret3⟩, rfl, hS⟩ := H
      clear hfb hM
      obtain ⟨M1, M2⟩ := M
      have hkeyed : s0.keyed = b.s.keyed := by rw [hs0]
      have hstream : s0.stream = false := by rw [hs0]; exact hst
      have hqueue : s0.queue = [] := by rw [hs0]; exact hq
      rcases hS with ⟨hM2, hret, hw3, hk3, -, -, hh3, -, hM1⟩ | ⟨o, hM2, k, v, hret, ho, hw3, hh3, hnd, hocc, hcnt, hM1⟩
      · simp only at hM2 hret hw3 hk3 hM1 hh3
        subst hM2 hret hM1
        refine ⟨g3, env3, .pending, by simp, hw3, hk3, ?_, ?_, ?_, ?_, hh3⟩
        · simp [Eng.close, group, Eng.applyH, Eng.emit, World.kop, Grp.flushQueue, core, absF, hqueue, hq, hstream,
            TieVec.abs, World.withStd]
          exact (List.filter_eq_self.mpr (fun _ _ => rfl)).symm
        · simp [Eng.close, group, Eng.applyH, Eng.emit, World.kop, Grp.flushQueue, core, absF, hqueue, hq, hstream]
        · simp [Eng.close, group, Eng.applyH, Eng.emit, World.kop, Grp.flushQueue, core, absF, hqueue, hq, hstream]
        · simp [Eng.close, group, Eng.applyH, Eng.emit, World.kop, Grp.flushQueue, core, absF, hqueue, hq, hstream, outcomeOf]
      · simp only at hM2 hret ho hw3 hnd hocc hcnt hM1 hh3
        subst hM2 hret hM1 ho
        refine ⟨_, env3, .ready (some (k, v)), by simp; rfl, ?_, ?_, ?_, ?_, ?_, ?_, ?_⟩
        · obtain ⟨a1, a2, a3, a4⟩ := hw3
          exact ⟨a1, a2, a3, a4⟩
        · refine ⟨hnd, hocc, ?_, hcnt⟩
          show g3.roleSlab.len = 0 ↔ List.filter (· ≠ k) g3.roleKeys.elems = []
          rw [hcnt]; exact List.length_eq_zero_iff
        · simp [Eng.close, group, Eng.applyH, Eng.emit, World.kop, Grp.flushQueue, core, absF, hqueue, hq, hstream,
            TieVec.abs, World.withStd, BTree.remove]
        · simp [Eng.close, Eng.emit]
        · simp [Eng.close, Eng.emit]
        · simp [Eng.close, Eng.emit, outcomeOf, Grp.outKey, hkeyed]
        · exact hh3
end TieGrpF
end Fc
