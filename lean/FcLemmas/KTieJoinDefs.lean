/-
  FcLemmas/KTieJoinDefs.lean — Vec join: the relation between a translated `Join` + environment and a model state that
  the scan of `poll` maintains (`RelJ`), what one iteration has to do (`StepSpecJ`: it is one `Eng.visit joinSlice` that
  never leaves the loop), the loop (`Rs.forBreak` over the slots = `Eng.scan joinSlice`), the model side of one
  iteration, and the list facts behind the `pending` counter and `OutputVec::take`.
-/
import FcProps.KTieJoin
import FcLemmas.KTieMergeEnv

set_option linter.unusedSimpArgs false
set_option linter.unusedVariables false

namespace Fc
open Rs Src

/-! ## list facts -/

/-- changing a predicate from true to false at one element of a duplicate-free list removes one element of the filter -/
theorem filter_flip_lengthJ (p p' : Nat → Bool) (i : Nat) : ∀ (l : List Nat), l.Nodup → i ∈ l →
    p i = true → p' i = false → (∀ j, j ≠ i → p' j = p j) →
    (l.filter p').length + 1 = (l.filter p).length := by
  intro l
  induction l with
  | nil => intro _ h; cases h
  | cons x xs ih =>
    intro hn hm hp hp' hne
    rw [List.nodup_cons] at hn
    by_cases hx : x = i
    · subst hx
      have : xs.filter p' = xs.filter p := by
        apply List.filter_congr
        intro a ha
        exact hne a (fun h => hn.1 (h ▸ ha))
      simp [List.filter_cons, hp, hp', this]
    · have hm' : i ∈ xs := by
        rcases List.mem_cons.mp hm with h | h
        · exact absurd h.symm hx
        · exact h
      have := ih hn.2 hm' hp hp' hne
      rw [List.filter_cons, List.filter_cons, hne x hx]
      cases p x <;> simp <;> omega

/-- `OutputVec::take` on slots that are all initialised -/
theorem mapM_getDJ (f : Nat → Option Nat) : ∀ (l : List Nat), (∀ i ∈ l, ∃ v, f i = some v) →
    l.mapM f = some (l.map (fun i => (f i).getD 0)) := by
  intro l
  induction l with
  | nil => intro _; rfl
  | cons x xs ih =>
    intro h
    obtain ⟨v, hv⟩ := h x (List.mem_cons_self ..)
    have := ih (fun i hi => h i (List.mem_cons_of_mem _ hi))
    simp [List.mapM_cons, hv, this]

theorem FutStepsF.resOfJ {w : World} (h : FutStepsF w) (c : Nat) :
    w.resOf c = .pend ∨ ∃ ok v, w.resOf c = .ready ok v := by
  unfold World.resOf World.stepOf
  cases hs : w.scripts c with
  | nil => exact Or.inl rfl
  | cons s l => exact h c s (by rw [hs]; exact List.mem_cons_self ..)

theorem FutStepsF.tailJ {w w' : World} (h : FutStepsF w) (c : Nat)
    (hs : w'.scripts = upd w.scripts c (w.scripts c).tail) : FutStepsF w' := by
  intro c' st hm
  rw [hs] at hm
  by_cases hc : c' = c
  · subst hc
    simp at hm
    exact h c' st (List.mem_of_mem_tail hm)
  · simp [upd, hc] at hm
    exact h c' st hm

theorem TiePS.abs_pendingJ (p : PS.PollState) : TiePS.abs p = .pending ↔ p = PS.PollState.pending := by
  cases p <;> simp [TiePS.abs]

theorem TiePS.abs_readyJ (p : PS.PollState) : TiePS.abs p = .ready ↔ p = PS.PollState.ready := by
  cases p <;> simp [TiePS.abs]

/-! ## the primitives of the completion path -/

theorem assertAll_readyJ (a : Rs.PVec PS.PollState) (h : ∀ i, i < a.len → a.get i = PS.PollState.ready) :
    Rs.PVec.assertAll a (fun s => PS.PollState.is_ready s) = some () := by
  unfold Rs.PVec.assertAll
  rw [if_pos]
  rw [List.all_eq_true]
  intro i hi
  rw [h i (List.mem_range.mp hi)]
  rfl

theorem mapAll_noneJ (a : Rs.PVec PS.PollState) :
    Rs.PVec.mapAll a (fun s => (PS.PollState.set_none s).map (·.1))
      = some ⟨a.len, fun i => if i < a.len then PS.PollState.none_ else a.get i⟩ := by
  unfold Rs.PVec.mapAll
  rw [if_pos]
  · rfl
  · rw [List.all_eq_true]
    intro i _
    rfl

theorem take_allJ (o : Rs.OutVec) (h : ∀ i, i < o.cap → ∃ v, o.get i = some v) :
    o.take = some (⟨o.cap, fun _ => none⟩, (List.range o.cap).map (fun i => (o.get i).getD 0)) := by
  unfold Rs.OutVec.take
  rw [mapM_getDJ o.get _ (fun i hi => h i (List.mem_range.mp hi))]
  rfl

theorem filter_len_zeroJ (p : Nat → Bool) (l : List Nat) (h : (l.filter p).length = 0) :
    ∀ i ∈ l, p i = false := by
  intro i hi
  have h0 : l.filter p = [] := List.length_eq_zero_iff.mp h
  rw [List.filter_eq_nil_iff] at h0
  simpa using h0 i hi

/-! ## loops -/

/-- a `forBreak` loop that never stops early and never panics keeps an invariant indexed by the remaining elements -/
theorem forBreak_invJ {σ : Type} (Inv : List Nat → σ → Prop) (body : σ → Nat → Option (σ × Bool))
    (step : ∀ k rest s, Inv (k :: rest) s → ∃ s', body s k = some (s', false) ∧ Inv rest s') :
    ∀ (l : List Nat) (s : σ), Inv l s → ∃ s', Rs.forBreak l s body = some s' ∧ Inv [] s' := by
  intro l
  induction l with
  | nil => intro s hI; exact ⟨s, rfl, hI⟩
  | cons k rest ih =>
    intro s hI
    obtain ⟨s', hb, hI'⟩ := step k rest s hI
    obtain ⟨s'', h1, h2⟩ := ih s' hI'
    exact ⟨s'', by simp only [Rs.forBreak, hb, h1], h2⟩

/-- the loop followed by the code after it -/
theorem forBreak_bindJ {σ τ : Type} (Inv : List Nat → σ → Prop) (body : σ → Nat → Option (σ × Bool))
    (step : ∀ k rest s, Inv (k :: rest) s → ∃ s', body s k = some (s', false) ∧ Inv rest s')
    (l : List Nat) (s : σ) (hI : Inv l s) (K : σ → Option τ) (Ψ : τ → Prop)
    (hK : ∀ s', Inv [] s' → ∃ a, K s' = some a ∧ Ψ a) :
    ∃ a, (Rs.forBreak l s body).bind K = some a ∧ Ψ a := by
  obtain ⟨s', h1, h2⟩ := forBreak_invJ Inv body step l s hI
  rw [h1, Option.bind_some]
  exact hK s' h2

namespace TieJoinV
open JoinV

/-- the translated combinator `g` with the environment `env` is read as the model state `e` (inside a poll: a parent
    waker is stored, the join has not completed) -/
structure RelJ (n o : Nat) (e : Eng Fix) (g : Join) (env : World) : Prop where
  ew : e.w = TieVec.abs g.roleWakers.readiness env
  en : e.s.n = n
  kids : g.roleKids.len = n
  st : e.s.st = fun i => TiePS.abs (g.roleStates.get i)
  out : e.s.out = g.roleItems.get
  cnt : e.s.cnt = g.roleCount
  off : e.s.off = o
  dead : e.s.dead = false
  done : g.roleDone = false
  rd : TieVec.Wf n g.roleWakers.readiness
  nw : g.roleWakers.nwakers = n
  sl : g.roleStates.len = n
  ic : g.roleItems.cap = n
  pc : g.roleCount = ((List.range n).filter (fun i => g.roleStates.get i = PS.PollState.pending)).length
  rs : ∀ i, i < n → (g.roleStates.get i = PS.PollState.pending ∨
        (g.roleStates.get i = PS.PollState.ready ∧ ∃ v, g.roleItems.get i = some v))
  par : g.roleWakers.readiness.roleParent ≠ none
  hin : HandedIn n env
  sok : FutStepsF env

abbrev BodyJ := Join × World → Nat → Option ((Join × World) × Bool)

/-- one iteration of the loop body is one `Eng.visit joinSlice`; the loop is never left early -/
def StepSpecJ (n o : Nat) (F : BodyJ) : Prop :=
  ∀ (e : Eng Fix) (g : Join) (env : World) (i : Nat), RelJ n o e g env → i < n →
    ∃ g' env', F (g, env) i = some ((g', env'), false) ∧ RelJ n o (Eng.visit joinSlice e i).1 g' env' ∧
      (Eng.visit joinSlice e i).2 = none

/-- the loop over a list of slots is `Eng.scan joinSlice` -/
theorem loop_tieJ (n o : Nat) (F : BodyJ) (hF : StepSpecJ n o F) (l : List Nat) :
    ∀ (e : Eng Fix) (g : Join) (env : World), RelJ n o e g env → (∀ i ∈ l, i < n) →
    ∃ g' env', Rs.forBreak l (g, env) F = some (g', env') ∧ RelJ n o (Eng.scan joinSlice l e).1 g' env' ∧
      (Eng.scan joinSlice l e).2 = none := by
  induction l with
  | nil =>
    intro e g env hR _
    exact ⟨g, env, rfl, hR, rfl⟩
  | cons i l ih =>
    intro e g env hR hl
    obtain ⟨g1, env1, h1, hR1, hv⟩ := hF e g env i hR (hl i (List.mem_cons_self ..))
    obtain ⟨g2, env2, h2, hR2, hv2⟩ := ih (Eng.visit joinSlice e i).1 g1 env1 hR1
      (fun j hj => hl j (List.mem_cons_of_mem _ hj))
    refine ⟨g2, env2, ?_, ?_, ?_⟩
    · simp only [Rs.forBreak, h1, h2]
    · simp only [Eng.scan, hv]; exact hR2
    · simp only [Eng.scan, hv]; exact hv2

/-- the loop followed by the code after it (`K`): it is enough to run `K` on what `Eng.scan joinSlice` describes -/
theorem loop_bindJ {τ : Type} (n o : Nat) (F : BodyJ) (hF : StepSpecJ n o F) (l : List Nat) (e : Eng Fix) (g : Join)
    (env : World) (hR : RelJ n o e g env) (hl : ∀ i ∈ l, i < n)
    (K : Join × World → Option τ) (Ψ : τ → Prop)
    (hK : ∀ g' env', RelJ n o (Eng.scan joinSlice l e).1 g' env' → (Eng.scan joinSlice l e).2 = none →
      ∃ a, K (g', env') = some a ∧ Ψ a) :
    ∃ a, (Rs.forBreak l (g, env) F).bind K = some a ∧ Ψ a := by
  obtain ⟨g', env', h1, hR', hv⟩ := loop_tieJ n o F hF l e g env hR hl
  rw [h1, Option.bind_some]
  exact hK g' env' hR' hv

/-! ## the model side of one iteration -/

theorem visit_skipJ (e : Eng Fix) (i : Nat) (h : e.s.st i ≠ .pending) :
    Eng.visit joinSlice e i = (e, none) := by
  simp [Eng.visit, joinSlice, h, Eng.gateGo, Eng.gateW]

theorem visit_clearJ (e : Eng Fix) (i : Nat) (h : e.s.st i = .pending) (h2 : e.w.isSet i = false) :
    Eng.visit joinSlice e i = ({ e with w := e.w.clearReady i }, none) := by
  simp [Eng.visit, joinSlice, h, h2, Eng.gateGo, Eng.gateW]

theorem visit_pendJ (e : Eng Fix) (i : Nat) (h : e.s.st i = .pending) (h2 : e.w.isSet i = true)
    (h4 : e.w.resOf i = .pend) :
    Eng.visit joinSlice e i = ({ e with w := (e.w.clearReady i).pollChild i i }, none) := by
  simp [Eng.visit, joinSlice, h, h2, h4, Eng.gateGo, Eng.gateW, Eng.applyH, Fix.keep, World.kop]

theorem visit_readyJ (e : Eng Fix) (i : Nat) (ok : Bool) (v : Nat) (h : e.s.st i = .pending)
    (h2 : e.w.isSet i = true) (h4 : e.w.resOf i = .ready ok v) :
    Eng.visit joinSlice e i =
      ({ w := ((e.w.clearReady i).pollChild i i).emit (.childDropped i),
         s := { e.s with st := upd e.s.st i .ready, out := upd e.s.out i (some v), cnt := e.s.cnt - 1 } }, none) := by
  simp [Eng.visit, joinSlice, h, h2, h4, Eng.gateGo, Eng.gateW, Eng.applyH, Fix.keep, World.kop, World.emits,
    World.emit]

end TieJoinV
end Fc
