/-
  FcLemmas/LiveGMixMain.lean — liveness of FutureGroup / StreamGroup whose membership changes WHILE
  the group is drained (Fc/ExecGMix.lean): the induction over the consumer's plan.

  Between two entries of the plan the run is a run of `ExecGAny.roundB` and the invariants
  `LRW ids ins` / `LRA ids ins` of FcLemmas/LiveGAnyRestr.lean apply unchanged (`prog_lra`,
  `LiveGMix.round_step`).  At an entry `(d, ops)` with the fresh ids `new`:

    * `lgw_reids` — the restriction `rE ids` is exchanged for `rE (ids ++ new)`: the ids `new` were
      never inserted, so they are not members, and `LGW` depends on the scripts of the members only
      (`lgw_setS'`); their scripts are still the initial, well-behaved ones (`LRW.scr`).  If the
      group has drained in the meantime, the old generation is dropped from the restriction first
      (`ids := []`, measure 0) exactly as in `LiveGAny.refill_lrw`;
    * `lrw_ops` — the operations (`insert` / `extend` / `reserve` / `remove`) are performed in the
      restricted state (`lgw_runM`): `LRW (ids ++ new) (ins ++ new)` holds afterwards and the measure
      has grown by the scripted steps of `new` (a removed member's remaining steps stay in the
      measure: an upper bound is all that is needed);
    * `perform_ph` — the consumer's unconditional poll (`poll_cond`): if the run needed at most `N`
      further rounds before the entry, it needs at most `N + 1 + 3 * steps new` after it — an entry
      costs its own round, `3` rounds per new scripted step, and at most `2` rounds of the credit
      the interrupted phase had (`cond_bound`).
-/
import FcLemmas.LiveGMixBuild
import FcLemmas.LiveGMixRun
set_option linter.unusedSimpArgs false
set_option linter.unusedVariables false

namespace Fc
namespace LiveGMix
open Mon Live Live3 G Grp C01 LiveG LiveGAny

variable {stream keyed : Bool} {m : Mode} {n : Nat}

/-! ### exchanging the restriction -/

theorem lgw_reids (ids ids' : List Nat) (e : Eng Grp) (h : LGW stream keyed m n (rE ids e))
    (hmem : ∀ k c, e.s.member k = some c → c ∈ ids ∧ c ∈ ids')
    (hfit : ∀ c, c ∈ ids' → ∀ st, st ∈ e.w.scripts c → st.res.fits stream = true) :
    LGW stream keyed m n (rE ids' e) := by
  rw [← rE_swap ids ids' e]
  refine lgw_setS' (rE ids e) _ h ?_ ?_
  · intro k c hk
    obtain ⟨h1, h2⟩ := hmem k c hk
    simp [rE, rW, restrS, h1, h2]
  · intro c st hst
    by_cases hc : c ∈ ids'
    · simp only [restrS, hc, if_true] at hst
      exact hfit c hc st hst
    · simp [restrS, hc] at hst

/-- the measure only looks at the scripts of the ids that were inserted -/
theorem mu_reids (ids ids' : List Nat) (e : Eng Grp)
    (h : ∀ c, keyOf e.w.trace c ≠ none → (c ∈ ids ↔ c ∈ ids')) :
    mu n (rE ids' e) = mu n (rE ids e) := by
  unfold mu
  apply total_congr
  intro c _
  simp only [rE_w, rW_trace]
  by_cases hk : keyOf e.w.trace c = none
  · simp [hk]
  · have := h c hk
    by_cases hc : c ∈ ids
    · simp [rW, restrS, hc, this.mp hc]
    · have hc' : c ∉ ids' := fun hh => hc (this.mpr hh)
      simp [rW, restrS, hc, hc']

theorem mu_nil (e : Eng Grp) : mu n (rE [] e) = 0 := by
  unfold mu
  rw [total_congr _ (fun _ => 0) n, total_zero]
  intro c _
  simp [rE, rW, restrS]

/-- a drained group: the old generation may be dropped from the restriction -/
theorem lrw_drop {ids ins : List Nat} {sc : Nat → List Step} (e : Eng Grp)
    (h : LRW stream keyed m n ids ins sc e) (hnm : ∀ k, e.s.member k = none) :
    LRW stream keyed m n [] ins sc e :=
  ⟨lgw_reids ids [] e h.w (fun k c hk => by rw [hnm k] at hk; cases hk) (fun c hc => by cases hc),
    (fun k c hk => by rw [hnm k] at hk; cases hk), h.kin, (fun c hc => by cases hc), h.scr⟩

/-! ### the operations of one entry -/

theorem lrw_ops {ids ins : List Nat} {sc : Nat → List Step} (e : Eng Grp)
    (h : LRW stream keyed m n ids ins sc e) (ops : List Op)
    (hops : ∀ op ∈ ops, op.isMembership = true)
    (hnd : (ops.flatMap insertedIds).Nodup)
    (hnew : ∀ c ∈ ops.flatMap insertedIds, c ∉ ins ∧ c < n ∧ wbScript stream (sc c) = true) :
    LRW stream keyed m n (ids ++ ops.flatMap insertedIds) (ins ++ ops.flatMap insertedIds) sc
      (ops.foldl GEng.step e) ∧
    mu n (rE (ids ++ ops.flatMap insertedIds) (ops.foldl GEng.step e))
      = mu n (rE ids e) + lenSum sc (ops.flatMap insertedIds) := by
  let new := ops.flatMap insertedIds
  let ids' := ids ++ new
  have hscn : ∀ c, c ∈ new → e.w.scripts c = sc c := fun c hc => h.scr c (hnew c hc).1
  have hkey : ∀ c, c ∈ new → keyOf e.w.trace c = none := by
    intro c hc
    cases hk : keyOf e.w.trace c with
    | none => rfl
    | some k => exact absurd (h.kin c (by rw [hk]; simp)) (hnew c hc).1
  -- the restriction is widened to the new ids
  have hw' : LGW stream keyed m n (rE ids' e) := by
    refine lgw_reids ids ids' e h.w
      (fun k c hk => ⟨h.mem k c hk, List.mem_append_left _ (h.mem k c hk)⟩) ?_
    intro c hc st hst
    rcases List.mem_append.mp hc with hc | hc
    · have := (lgw_kind _ h.w).mem c st (by simpa [rE, rW, restrS, hc] using hst)
      exact this
    · rw [hscn c hc] at hst
      exact wb_fits _ (hnew c hc).2.2 st hst
  have hmu' : mu n (rE ids' e) = mu n (rE ids e) := by
    refine mu_reids ids ids' e ?_
    intro c hc
    have hci : c ∈ ins := h.kin c hc
    have hcn : c ∉ new := fun hh => (hnew c hh).1 hci
    simp [ids', hcn]
  -- the operations
  have hscr' : ∀ c, c ∈ new → (rE ids' e).w.scripts c = sc c := by
    intro c hc
    rw [rE_w, rW_scripts_mem e.w c (List.mem_append_right _ hc), hscn c hc]
  obtain ⟨hb, hmu, hsame, hkf, hmf⟩ := lgw_runM ops (rE ids' e) hw' hops hnd
    (fun c hc => ⟨(hnew c hc).2.1, by rw [hscr' c hc]; exact (hnew c hc).2.2, hkey c hc⟩)
  have hsame' : (ops.foldl GEng.step e).w.scripts = e.w.scripts :=
    (lgw_runM_scripts ops e hops)
  rw [rE_runM ids' ops e hops] at hb hmu hkf hmf
  refine ⟨⟨hb, ?_, ?_, ?_, ?_⟩, ?_⟩
  · intro k c hk
    rcases hmf k c hk with h1 | h1
    · exact List.mem_append_left _ (h.mem k c h1)
    · exact List.mem_append_right _ h1
  · intro c hc
    by_cases hc2 : c ∈ new
    · exact List.mem_append_right _ hc2
    · have := hkf c hc2
      rw [show keyOf (rE ids' (ops.foldl GEng.step e)).w.trace c
          = keyOf (ops.foldl GEng.step e).w.trace c from rfl,
        show keyOf (rE ids' e).w.trace c = keyOf e.w.trace c from rfl] at this
      rw [this] at hc
      exact List.mem_append_left _ (h.kin c hc)
  · intro c hc
    rcases List.mem_append.mp hc with hc | hc
    · exact List.mem_append_left _ (h.sub c hc)
    · exact List.mem_append_right _ hc
  · intro c hc
    rw [hsame']
    exact h.scr c (fun hh => hc (List.mem_append_left _ hh))
  · rw [hmu, hmu']
    congr 1
    exact lenSum_congr _ _ _ hscr'

/-! ### one entry of the plan -/

/-- the concrete instance of `Ph` -/
abbrev PhC (stream keyed : Bool) (m : Mode) (n : Nat) (ids ins : List Nat) (sc : Nat → List Step)
    (e : Eng Grp) (N : Nat) : Prop :=
  Ph (LRW stream keyed m n ids ins sc) (LRA stream keyed m n ids ins sc)
    (fun e => ∀ k, e.s.member k = none) (fun e => mu n (rE ids e)) (fun e => Owed (rE ids e)) e N

/-- the consumer performs the operations of an entry and polls -/
theorem perform_ph {ids ins : List Nat} {sc : Nat → List Step} (e : Eng Grp) (N : Nat)
    (h : PhC stream keyed m n ids ins sc e N) (ops : List Op)
    (hops : ∀ op ∈ ops, op.isMembership = true)
    (hnd : (ops.flatMap insertedIds).Nodup)
    (hnew : ∀ c ∈ ops.flatMap insertedIds, c ∉ ins ∧ c < n ∧ wbScript stream (sc c) = true) :
    ∃ ids', PhC stream keyed m n ids' (ins ++ ops.flatMap insertedIds) sc (ExecGMix.perform e ops)
      (N + 1 + 3 * lenSum sc (ops.flatMap insertedIds)) := by
  rcases h with ⟨h, hc⟩ | ⟨h, hd, _⟩
  · obtain ⟨hl, hmu⟩ := lrw_ops e h.r ops hops hnd hnew
    refine ⟨ids ++ ops.flatMap insertedIds, ?_⟩
    have hb := cond_bound hc
    exact poll_cond prog_lra _ _ hl (Or.inr (by
      show 3 * mu n (rE (ids ++ ops.flatMap insertedIds) (ops.foldl GEng.step e)) ≤ _
      rw [hmu]
      have : 3 * mu n (rE ids e) ≤ N + 1 := hb
      omega))
  · have h0 := lrw_drop e h hd
    obtain ⟨hl, hmu⟩ := lrw_ops e h0 ops hops hnd hnew
    refine ⟨[] ++ ops.flatMap insertedIds, ?_⟩
    exact poll_cond prog_lra _ _ hl (Or.inr (by
      show 3 * mu n (rE ([] ++ ops.flatMap insertedIds) (ops.foldl GEng.step e)) ≤ _
      rw [hmu, mu_nil]
      omega))

/-! ### the induction over the plan -/

/-- the ids a plan inserts, in order -/
def planIds (pl : ExecGMix.Plan) : List Nat := (ExecGMix.Plan.ops pl).flatMap insertedIds

theorem planOps_cons (d : Nat) (ops : List Op) (pl : ExecGMix.Plan) :
    ExecGMix.Plan.ops ((d, ops) :: pl) = ops ++ ExecGMix.Plan.ops pl := by
  simp [ExecGMix.Plan.ops]

theorem planIds_cons (d : Nat) (ops : List Op) (pl : ExecGMix.Plan) :
    planIds ((d, ops) :: pl) = ops.flatMap insertedIds ++ planIds pl := by
  simp [planIds, planOps_cons, List.flatMap_append]

variable {pick : Nat → Eng Grp → Nat} {pre post : Nat → Eng Grp → List (Nat × Nat)}

theorem mix_aux (sc : Nat → List Step) : ∀ (pl : ExecGMix.Plan) (ids ins : List Nat) (e : Eng Grp)
    (N r : Nat),
    (∀ op ∈ ExecGMix.Plan.ops pl, op.isMembership = true) → (planIds pl).Nodup →
    (∀ c ∈ planIds pl, c ∉ ins ∧ c < n ∧ wbScript stream (sc c) = true) →
    PhC stream keyed m n ids ins sc e N →
    ∃ k, k ≤ N + 3 * lenSum sc (planIds pl) + 2 * pl.length ∧
      (ExecGMix.runMix pick pre post k r pl e).2 = [] ∧
      lastOut (ExecGMix.runMix pick pre post k r pl e).1.w.trace = some .none ∧
      ∀ j, (ExecGMix.runMix pick pre post k r pl e).1.s.member j = none := by
  intro pl
  induction pl with
  | nil =>
    intro ids ins e N r _ _ _ h
    obtain ⟨k, hk, hv⟩ := ph_ends (pick := pick) (pre := pre) (post := post) prog_lra r e N h
    have hri : RunInv (LRW stream keyed m n ids ins sc) (LRA stream keyed m n ids ins sc)
        (fun e => ∀ k, e.s.member k = none) e := by
      rcases h with ⟨h, _⟩ | h
      · exact Or.inl h
      · exact Or.inr h
    have hd := (run_drained (pick := pick) (pre := pre) (post := post) prog_lra k r e hri hv).2
    refine ⟨k, by simp [planIds, ExecGMix.Plan.ops, lenSum_nil]; omega, ?_, ?_, ?_⟩
    · rw [runMix_nil]
    · rw [runMix_nil]; exact hv
    · rw [runMix_nil]; exact hd
  | cons en pl ih =>
    obtain ⟨d, ops⟩ := en
    intro ids ins e N r hops hnd hnew h
    rw [planOps_cons] at hops
    rw [planIds_cons] at hnd hnew
    rw [List.nodup_append] at hnd
    obtain ⟨hnd1, hnd2, hdis⟩ := hnd
    -- performing the entry, then the rest of the plan
    have hperf : ∀ (e : Eng Grp) (N r : Nat), PhC stream keyed m n ids ins sc e N →
        ∃ k, k ≤ N + 1 + 3 * lenSum sc (ops.flatMap insertedIds ++ planIds pl) + 2 * pl.length ∧
          (ExecGMix.runMix pick pre post k r pl (ExecGMix.perform e ops)).2 = [] ∧
          lastOut (ExecGMix.runMix pick pre post k r pl (ExecGMix.perform e ops)).1.w.trace
            = some .none ∧
          ∀ j, (ExecGMix.runMix pick pre post k r pl (ExecGMix.perform e ops)).1.s.member j
            = none := by
      intro e N r h
      obtain ⟨ids', h'⟩ := perform_ph e N h ops (fun op hop => hops op (List.mem_append_left _ hop))
        hnd1 (fun c hc => hnew c (List.mem_append_left _ hc))
      obtain ⟨k, hk, hv⟩ := ih ids' (ins ++ ops.flatMap insertedIds) (ExecGMix.perform e ops) _ r
        (fun op hop => hops op (List.mem_append_right _ hop)) hnd2
        (fun c hc => by
          obtain ⟨g1, g2, g3⟩ := hnew c (List.mem_append_right _ hc)
          refine ⟨fun hh => ?_, g2, g3⟩
          rcases List.mem_append.mp hh with hh | hh
          · exact g1 hh
          · exact hdis c hh c hc rfl) h'
      refine ⟨k, ?_, hv⟩
      rw [lenSum_append]
      omega
    -- the delay
    rw [planIds_cons]
    simp only [List.length_cons]
    revert h
    induction d generalizing e N r with
    | zero =>
      intro h
      obtain ⟨k, hk, hv⟩ := hperf e N (r + 1) h
      refine ⟨k + 1, ?_, ?_⟩
      · omega
      · simpa only [ExecGMix.runMix] using hv
    | succ d ihd =>
      intro h
      rcases h with ⟨hI, hc⟩ | ⟨hW, hD, hn⟩
      · obtain ⟨e', N', hr, hN, hph⟩ := round_step (pick := pick) (pre := pre) (post := post)
          prog_lra r e N hI hc
        obtain ⟨k, hk, hv⟩ := ihd e' N' (r + 1) hph
        refine ⟨k + 1, ?_, ?_⟩
        · omega
        · simpa only [ExecGMix.runMix, hr] using hv
      · have hr : ExecGAny.roundB pick pre post r e = none := round_final r e hn
        obtain ⟨k, hk, hv⟩ := hperf e N (r + 1) (Or.inr ⟨hW, hD, hn⟩)
        refine ⟨k + 1, ?_, ?_⟩
        · omega
        · simpa only [ExecGMix.runMix, hr] using hv

/-! ### the theorem -/

/-- a group built by `pre`, drained under any schedule and busy environment while the consumer
    performs the plan `pl` of `insert` / `extend` / `reserve` / `remove` operations; the inserted
    ids are fresh -/
theorem group_mix_ends (stream keyed : Bool) (m : Mode) (scripts : Nat → List Step) (pre : List Op)
    (pl : ExecGMix.Plan)
    (hpre : ∀ op ∈ pre, op.isInsertLike = true)
    (hpl : ∀ op ∈ ExecGMix.Plan.ops pl, op.isMembership = true)
    (hfresh : ((pre ++ ExecGMix.Plan.ops pl).flatMap insertedIds).Nodup)
    (hs : ∀ c ∈ (pre ++ ExecGMix.Plan.ops pl).flatMap insertedIds,
      wbScript stream (scripts c) = true)
    (pick : Nat → Eng Grp → Nat) (bef aft : Nat → Eng Grp → List (Nat × Nat)) (r : Nat) :
    ∃ k, k ≤ 3 * (ExecG.stepsLeft (pre.foldl GEng.step (GEng.init stream keyed m scripts))
          + lenSum scripts (planIds pl)) + 1 + 2 * pl.length ∧
      (ExecGMix.runMix pick bef aft k r pl
        (pre.foldl GEng.step (GEng.init stream keyed m scripts))).2 = [] ∧
      lastOut (ExecGMix.runMix pick bef aft k r pl
        (pre.foldl GEng.step (GEng.init stream keyed m scripts))).1.w.trace = some .none ∧
      ∀ j, (ExecGMix.runMix pick bef aft k r pl
        (pre.foldl GEng.step (GEng.init stream keyed m scripts))).1.s.member j = none := by
  rw [List.flatMap_append] at hfresh hs
  rw [List.nodup_append] at hfresh
  obtain ⟨hnd₁, hnd₂, hdis⟩ := hfresh
  have hle : ∀ c ∈ pre.flatMap insertedIds ++ planIds pl,
      c < (pre.flatMap insertedIds ++ planIds pl).sum + 1 := by
    intro c hc
    have := le_sum_of_mem _ c hc
    omega
  obtain ⟨hlra, hlo, hM⟩ := start_lra stream keyed m scripts pre
    ((pre.flatMap insertedIds ++ planIds pl).sum + 1) hpre hnd₁
    (fun c hc => hs c (List.mem_append_left _ hc)) (fun c hc => hle c (List.mem_append_left _ hc))
  have hsp : Exec.shouldPoll (pre.foldl GEng.step (GEng.init stream keyed m scripts)).w.trace
      = true := by
    unfold Exec.shouldPoll; rw [hlo]
  obtain ⟨k, hk, hv⟩ := mix_aux (pick := pick) (pre := bef) (post := aft) scripts pl _ _ _
    (3 * ExecG.stepsLeft (pre.foldl GEng.step (GEng.init stream keyed m scripts)) + 1) r hpl hnd₂
    (fun c hc => ⟨fun hh => hdis c hh c hc rfl, hle c (List.mem_append_right _ hc),
      hs c (List.mem_append_right _ hc)⟩)
    (Or.inl ⟨hlra, Or.inl ⟨hsp, by
      show 3 * mu _ (rE _ _) + 1 ≤ _
      rw [hM]; exact Nat.le_refl _⟩⟩)
  exact ⟨k, by omega, hv⟩

end LiveGMix
end Fc
