/-
  FcLemmas/KTieMergeTLoop.lean — tuple merge (port of FcLemmas/KTieMergeALoop.lean to the struct of FcGen/KSrcTup3.lean):
  the relation between a translated `Merge` + environment and a model state that the loop of `poll_next` maintains (`Rel`),
  what one iteration of a loop body has to do (`StepSpec`: it is one `Eng.visit merge`), and the loop (`Rs.forCtl` over
  the scan order = `Eng.scan merge`).  The readiness set of a tuple is `ReadinessArray<N>`: the environment lemmas are
  those of FcLemmas/KTieMergeAEnv.lean (`TieMergeA.ma_*`, about `StdArr.ReadinessArray` only — that file does not depend
  on the generated source of the array merge), imported, not copied.
-/
import FcProps.KTieMergeTup
import FcLemmas.KTieMergeAEnv
import FcLemmas.KTieMergeModel

set_option linter.unusedSimpArgs false
set_option linter.unusedVariables false

namespace Fc
open Rs Src

namespace TieMergeT
open MergeT

/-- the translated combinator `g` with the environment `env` is read as the model state `e` -/
structure Rel (n : Nat) (e : Eng Fix) (g : Merge) (env : World) : Prop where
  ew : e.w = TieArr.abs g.roleWakers.readiness env
  en : e.s.n = n
  kids : g.roleKids.len = n
  st : e.s.st = fun i => TiePS.abs (g.roleStates.get i)
  cnt : e.s.cnt = g.roleCount
  off : e.s.off = g.roleIndexer.roleOffset
  rd : TieArr.Wf n g.roleWakers.readiness
  sl : g.roleStates.len = n
  mx : g.roleIndexer.roleMax = n
  par : g.roleWakers.readiness.roleParent ≠ none
  hin : HandedIn n env
  sok : StreamStepsF env

abbrev Body := Merge × World → Nat → Option ((Merge × World) × Rs.Ctl (Rs.Poll (Option Nat)))

/-- one iteration of the loop body is one `Eng.visit merge` -/
def StepSpec (n : Nat) (F : Body) : Prop :=
  ∀ (e : Eng Fix) (g : Merge) (env : World) (i : Nat), Rel n e g env → g.roleCount < n → i < n →
    ∃ g' env' c, F (g, env) i = some ((g', env'), c) ∧ Rel n (Eng.visit merge e i).1 g' env' ∧
      ((c = .next ∧ (Eng.visit merge e i).2 = none ∧ g'.roleCount < n) ∨
       (∃ v, c = .ret v ∧ (Eng.visit merge e i).2 = some (outcomeOfStream v) ∧
          (v ≠ .ready none → g'.roleCount < n)))

/-- the loop over a list of slots is `Eng.scan merge` -/
theorem loop_tie (n : Nat) (F : Body) (hF : StepSpec n F) (l : List Nat) :
    ∀ (e : Eng Fix) (g : Merge) (env : World), Rel n e g env → g.roleCount < n → (∀ i ∈ l, i < n) →
    ∃ g' env' r, Rs.forCtl l (g, env) F = some ((g', env'), r) ∧ Rel n (Eng.scan merge l e).1 g' env' ∧
      ((r = none ∧ (Eng.scan merge l e).2 = none ∧ g'.roleCount < n) ∨
       (∃ v, r = some v ∧ (Eng.scan merge l e).2 = some (outcomeOfStream v) ∧
          (v ≠ .ready none → g'.roleCount < n))) := by
  induction l with
  | nil =>
    intro e g env hR hc _
    exact ⟨g, env, none, rfl, hR, Or.inl ⟨rfl, rfl, hc⟩⟩
  | cons i l ih =>
    intro e g env hR hc hl
    obtain ⟨g1, env1, c, h1, hR1, hcase⟩ := hF e g env i hR hc (hl i (List.mem_cons_self ..))
    rcases hcase with ⟨rfl, hv, hc1⟩ | ⟨v, rfl, hv, hc1⟩
    · obtain ⟨g2, env2, r, h2, hR2, hcase2⟩ := ih (Eng.visit merge e i).1 g1 env1 hR1 hc1
        (fun j hj => hl j (List.mem_cons_of_mem _ hj))
      refine ⟨g2, env2, r, ?_, ?_, ?_⟩
      · simp only [Rs.forCtl, h1, h2]
      · simp only [Eng.scan, hv]; exact hR2
      · simp only [Eng.scan, hv]; exact hcase2
    · refine ⟨g1, env1, some v, ?_, ?_, Or.inr ⟨v, rfl, ?_, hc1⟩⟩
      · simp only [Rs.forCtl, h1]
      · simp only [Eng.scan, hv]; exact hR1
      · simp only [Eng.scan, hv]

end TieMergeT
end Fc

namespace Fc
open Rs Src
namespace TieMergeT
open MergeT

/-- the loop followed by the code after it (`K`): it is enough to run `K` on what `Eng.scan merge` describes -/
theorem loop_bind (n : Nat) (F : Body) (hF : StepSpec n F) (l : List Nat) (e : Eng Fix) (g : Merge) (env : World)
    (hR : Rel n e g env) (hc : g.roleCount < n) (hl : ∀ i ∈ l, i < n)
    (K : (Merge × World) × Option (Rs.Poll (Option Nat)) → Option (Merge × World × Rs.Poll (Option Nat)))
    (Ψ : Merge → World → Rs.Poll (Option Nat) → Prop)
    (hK : ∀ g' env' r, Rel n (Eng.scan merge l e).1 g' env' →
      ((r = none ∧ (Eng.scan merge l e).2 = none ∧ g'.roleCount < n) ∨
       (∃ v, r = some v ∧ (Eng.scan merge l e).2 = some (outcomeOfStream v) ∧
          (v ≠ .ready none → g'.roleCount < n))) →
      ∃ a b c, K ((g', env'), r) = some (a, b, c) ∧ Ψ a b c) :
    ∃ a b c, (Rs.forCtl l (g, env) F).bind K = some (a, b, c) ∧ Ψ a b c := by
  obtain ⟨g', env', r, h1, hR', hcase⟩ := loop_tie n F hF l e g env hR hc hl
  rw [h1, Option.bind_some]
  exact hK g' env' r hR' hcase

end TieMergeT
end Fc
