/-
  FcLemmas/KTieGrpPollDFEnv.lean — no_std / alloc-only flavour of the groups, the environment side.

  The translated source polls a member `c` of key `k` with the stored parent waker `Wk.par q`; `Rs.pollChild` logs
  `childBegin c (Rs.slotOf (.par q) c) (.par q)` = `childBegin c c (.par q)` while the model's `World.pollChild c k` logs
  `childBegin c k (.par q)`.  So the model's world is the environment WITH ANOTHER TRACE (`retr env tr`), the two traces
  equal up to the slot annotation of `childBegin` events (`TrEq`).  `fireWk` / `fire` / `fires` / `pollChild` of the
  environment compute those of the model through this reading; the flag fields are left alone (`SameRd`).
-/
import FcProps.KTieGrpDir
import FcLemmas.KTieMergeVDEnv

set_option linter.unusedSimpArgs false
set_option linter.unusedVariables false

namespace Fc
open Rs Src

namespace TieGrpFD
open TieMergeVD

/-- the environment with another trace -/
def retr (env : World) (tr : List Ev) : World := { env with trace := tr }

/-- equal up to the slot annotation of `childBegin` events -/
def TrEq (a b : List Ev) : Prop := a.map eraseSlot = b.map eraseSlot

theorem TrEq.refl (a : List Ev) : TrEq a a := rfl
theorem TrEq.cons {a b : List Ev} (e : Ev) (h : TrEq a b) : TrEq (e :: a) (e :: b) := by
  unfold TrEq at *; simp only [List.map_cons, h]
theorem TrEq.cons2 {a b : List Ev} (e1 e2 : Ev) (he : eraseSlot e1 = eraseSlot e2) (h : TrEq a b) :
    TrEq (e1 :: a) (e2 :: b) := by
  unfold TrEq at *; simp only [List.map_cons, h, he]

@[simp] theorem retr_scripts (env : World) (tr : List Ev) : (retr env tr).scripts = env.scripts := rfl
@[simp] theorem retr_handed (env : World) (tr : List Ev) : (retr env tr).handed = env.handed := rfl
@[simp] theorem retr_trace (env : World) (tr : List Ev) : (retr env tr).trace = tr := rfl
@[simp] theorem retr_cap (env : World) (tr : List Ev) : (retr env tr).cap = env.cap := rfl
@[simp] theorem retr_bits (env : World) (tr : List Ev) : (retr env tr).bits = env.bits := rfl
@[simp] theorem retr_count (env : World) (tr : List Ev) : (retr env tr).count = env.count := rfl
@[simp] theorem retr_stepOf (env : World) (tr : List Ev) (c : Nat) : (retr env tr).stepOf c = env.stepOf c := rfl
@[simp] theorem retr_resOf (env : World) (tr : List Ev) (c : Nat) : (retr env tr).resOf c = env.resOf c := rfl
theorem retr_self (env : World) : retr env env.trace = env := rfl
theorem retr_emit (env : World) (tr : List Ev) (e : Ev) : (retr env tr).emit e = retr (env.emit e) (e :: tr) := rfl

theorem fireWk_tieS {R : Type} (r : R) (p : Option Nat) (env : World) (tr : List Ev) (wk : Wk) :
    ∃ env' tr', Rs.fireWk wakeD r env wk = some (r, env') ∧
      dw p (retr env' tr') = (dw p (retr env tr)).fireWk wk ∧ (TrEq tr env.trace → TrEq tr' env'.trace) ∧
      SameRd env env' := by
  cases wk with
  | par q => exact ⟨env.emit (.woke q), .woke q :: tr, rfl, rfl, fun h => h.cons _, rfl, rfl, rfl⟩
  | sub i => exact ⟨env, tr, rfl, rfl, fun h => h, rfl, rfl, rfl⟩

theorem fire_tieS {R : Type} (r : R) (p : Option Nat) (env : World) (tr : List Ev) (c age : Nat) :
    ∃ env' tr', Rs.fire wakeD r env c age = some (r, env') ∧
      dw p (retr env' tr') = (dw p (retr env tr)).fire c age ∧ (TrEq tr env.trace → TrEq tr' env'.trace) ∧
      SameRd env env' := by
  unfold Rs.fire World.fire
  simp only [dw_handed, retr_handed]
  cases hg : (env.handed c)[age]? with
  | none => exact ⟨_, .fired c age none :: tr, rfl, rfl, fun h => h.cons _, rfl, rfl, rfl⟩
  | some wk =>
    obtain ⟨env', tr', h1, h2, h3, h4⟩ :=
      fireWk_tieS r p (env.emit (.fired c age (some wk))) (.fired c age (some wk) :: tr) wk
    exact ⟨env', tr', h1, h2, fun h => h3 (h.cons _), h4⟩

theorem fires_tieS {R : Type} (r : R) (p : Option Nat) (l : List (Nat × Nat)) : ∀ (env : World) (tr : List Ev),
    ∃ env' tr', Rs.fires wakeD r env l = some (r, env') ∧
      dw p (retr env' tr') = (dw p (retr env tr)).fires l ∧ (TrEq tr env.trace → TrEq tr' env'.trace) ∧
      SameRd env env' := by
  induction l with
  | nil => intro env tr; exact ⟨env, tr, rfl, rfl, fun h => h, SameRd.refl _⟩
  | cons x l ih =>
    intro env tr
    obtain ⟨env1, tr1, e1, a1, t1, s1⟩ := fire_tieS r p env tr x.1 x.2
    obtain ⟨env2, tr2, e2, a2, t2, s2⟩ := ih env1 tr1
    refine ⟨env2, tr2, ?_, ?_, fun h => t2 (t1 h), s1.trans s2⟩
    · simp only [Rs.fires, e1, e2]
    · rw [a2, a1, World.fires_cons]

/-- one poll of member `c` of key `k` with the caller's own waker, the stored parent waker -/
theorem pollChild_tieS {R : Type} (r : R) (q : Nat) (env : World) (tr : List Ev) (c k : Nat) :
    ∃ env' tr', Rs.pollChild wakeD r env c (.par q) = some (r, env', env.resOf c) ∧
      dw (some q) (retr env' tr') = (dw (some q) (retr env tr)).pollChild c k ∧
      (TrEq tr env.trace → TrEq tr' env'.trace) ∧
      env'.scripts = upd env.scripts c (env.scripts c).tail ∧ SameRd env env' := by
  obtain ⟨env', tr', e1, a1, t1, s1⟩ := fires_tieS r (some q) (env.stepOf c).fires
    { env with
      scripts := upd env.scripts c (env.scripts c).tail,
      handed := upd env.handed c (Wk.par q :: env.handed c),
      trace := .childBegin c c (.par q) :: env.trace }
    (.childBegin c k (.par q) :: tr)
  refine ⟨env'.emit (.childEnd c (env.resOf c)), .childEnd c (env.resOf c) :: tr', ?_, ?_, ?_, ?_, s1⟩
  · simp only [Rs.pollChild, Rs.slotOf, e1]
  · rw [← retr_emit, dw_emit, a1]; rfl
  · intro h
    exact (t1 (h.cons2 _ _ rfl)).cons _
  · have := congrArg World.scripts a1
    simp at this
    simp only [World.emit_scripts]; rw [this]

end TieGrpFD
end Fc
