/-
  FcLemmas/KernelTie.lean — helper lemmas for FcProps/KernelTie.lean (the translated kernel
  source refines the hand-written kernel of Fc/Kernel.lean).
-/
import Fc.RustPrims
import Fc.Kernel

namespace Fc
open Rs

theorem countRange_eq_filter (f : Nat → Bool) (lo k : Nat) :
    countRange f lo k = ((List.range' lo k).filter (fun i => f i)).length := by
  induction k generalizing lo with
  | zero => simp [countRange]
  | succ k ih =>
    simp only [countRange, List.range'_succ, List.filter_cons]
    rw [ih]
    split <;> simp <;> omega

theorem countRange_zero_eq (f : Nat → Bool) (n : Nat) :
    countRange f 0 n = ((List.range n).filter (fun i => f i)).length := by
  rw [countRange_eq_filter, List.range_eq_range']

theorem countRange_congr (f g : Nat → Bool) (lo k : Nat)
    (h : ∀ i, lo ≤ i → i < lo + k → f i = g i) : countRange f lo k = countRange g lo k := by
  induction k generalizing lo with
  | zero => rfl
  | succ k ih =>
    simp only [countRange]
    rw [h lo (Nat.le_refl _) (by omega), ih (lo + 1) (fun i h1 h2 => h i (by omega) (by omega))]

theorem countRange_split (f : Nat → Bool) (lo a b : Nat) :
    countRange f lo (a + b) = countRange f lo a + countRange f (lo + a) b := by
  induction a generalizing lo with
  | zero => simp [countRange]
  | succ a ih =>
    have : a + 1 + b = (a + b) + 1 := by omega
    rw [this]
    simp only [countRange]
    rw [ih (lo + 1)]
    have h2 : lo + 1 + a = lo + (a + 1) := by omega
    rw [h2]; omega

theorem countRange_le (f : Nat → Bool) (lo k : Nat) : countRange f lo k ≤ k := by
  induction k generalizing lo with
  | zero => simp [countRange]
  | succ k ih => simp only [countRange]; have := ih (lo + 1); split <;> omega

theorem countRange_all (f : Nat → Bool) (lo k : Nat) (h : ∀ i, lo ≤ i → i < lo + k → f i = true) :
    countRange f lo k = k := by
  induction k generalizing lo with
  | zero => rfl
  | succ k ih =>
    simp only [countRange]
    rw [h lo (Nat.le_refl _) (by omega), ih (lo + 1) (fun i h1 h2 => h i (by omega) (by omega))]
    simp; omega

theorem countRange_none (f : Nat → Bool) (lo k : Nat) (h : ∀ i, lo ≤ i → i < lo + k → f i = false) :
    countRange f lo k = 0 := by
  induction k generalizing lo with
  | zero => rfl
  | succ k ih =>
    simp only [countRange]
    rw [h lo (Nat.le_refl _) (by omega), ih (lo + 1) (fun i h1 h2 => h i (by omega) (by omega))]
    simp

/-- updating one position inside the range changes the count by the change of that position -/
theorem countRange_upd (f : Nat → Bool) (lo k i : Nat) (v : Bool) (h1 : lo ≤ i) (h2 : i < lo + k) :
    countRange (fun j => if j = i then v else f j) lo k + (if f i then 1 else 0)
      = countRange f lo k + (if v then 1 else 0) := by
  induction k generalizing lo with
  | zero => omega
  | succ k ih =>
    simp only [countRange]
    by_cases hi : lo = i
    · subst hi
      have hc : countRange (fun j => if j = lo then v else f j) (lo + 1) k = countRange f (lo + 1) k :=
        countRange_congr _ _ _ _ (fun j hj _ => by simp; intro h; omega)
      rw [hc]; simp; omega
    · have := ih (lo + 1) (by omega) (by omega)
      simp only [hi, if_false]
      omega

theorem countRange_pos (f : Nat → Bool) (lo k i : Nat) (h1 : lo ≤ i) (h2 : i < lo + k) (hf : f i = true) :
    0 < countRange f lo k := by
  have := countRange_upd f lo k i false h1 h2
  simp [hf] at this
  omega

end Fc
