/-
  FcLemmas/C20NestStep.lean — C20 through both levels of a nest.

  (A) at an operation boundary (`c20At_of`): the flat monitors of all concurrently evaluating
      instances, and — through the link `LinkC.l2` of the C01 nest invariant `NInv` (a nested child
      answers Pending only if the inner instance's poll returned Pending) — "a waiting nested child
      has started all its leaves";
  (B) across one top-level poll (`woken_leaf_polled`): a waiting leaf of a waiting nested child
      whose waker was invoked before the poll is polled in that poll if the nest and the nested
      child answer Pending again.  The wake-up is followed through both levels:
        leaf owes  ⇒ (flat C01 of the inner instance) the inner task waker was woken
                   ⇒ (`LinkC.l3`) the nested child owes on the outer trace
                   ⇒ (flat C20(b) of the outer instance) the outer instance polls the nested child
                   ⇒ (`Nest.poll`) the inner instance's speculative poll is committed
                   ⇒ (flat C20(b) of the inner instance) that poll polls the leaf.
-/
import FcLemmas.C20Nest
set_option linter.unusedSimpArgs false
set_option linter.unusedVariables false

namespace Fc
open Mon

/-! ### pure trace facts -/

theorem atPollBegin_seg (l t : List Ev) (wid : Nat) (hl : ∀ e ∈ l, segEv e = true) :
    atPollBegin (l ++ .pollBegin wid :: t) = t := by
  rw [skip_seg atPollBegin segEv (fun e t h => by cases e <;> simp_all [segEv, atPollBegin]) l hl]
  rfl

theorem polledSince_dropSeg (l t : List Ev) (c : Nat) (hl : ∀ e ∈ l, Nest.dropEv e = true) :
    polledSince (l ++ t) c = polledSince t c :=
  skip_seg (fun t => polledSince t c) Nest.dropEv
    (fun e t h => by cases e <;> simp_all [Nest.dropEv, polledSince]) l hl t

/-- part (b) of the flat monitor, read right after a poll that answered Pending -/
theorem c20_woken (n : Nat) (t : List Ev) (h : holds_C20 true n (.pollEnd .pending :: t) = true)
    (c : Nat) (hc : c < n) (hp : lastRes (atPollBegin t) c = some .pend)
    (ho : owes (atPollBegin t) c = true) : polledSince t c = true := by
  simp only [holds_C20, Bool.and_eq_true] at h
  have h2 := h.2
  unfold c20At at h2
  simp only [List.all_eq_true, List.mem_range] at h2
  have := h2 c hc
  simp only [owned, hc, decide_true, if_true, Bool.not_true, Bool.false_or, Bool.and_eq_true,
    hp, ho, beq_self_eq_true, Bool.and_self] at this
  exact this.2

/-- what one `Eng.poll` that ends Pending gives, for a waiting child that owed before it -/
theorem poll_woken {P : Policy Fix} (L : Lawful P) (e : Eng Fix) (wid n : Nat)
    (hm : holds_C20 true n (Eng.poll P e wid).w.trace = true)
    (hlo : lastOut (Eng.poll P e wid).w.trace = some .pending)
    (c : Nat) (hc : c < n) (hp : lastRes e.w.trace c = some .pend) (ho : owes e.w.trace c = true) :
    polledSince (Eng.poll P e wid).w.trace c = true := by
  obtain ⟨l, hl, pl⟩ := Eng.poll_seg L e wid
  obtain ⟨o, t', ht⟩ := Eng.poll_head P e wid
  have ho' : o = .pending := by
    rw [ht] at hlo; simpa [lastOut] using hlo
  subst ho'
  have hab : atPollBegin t' = e.w.trace := by
    have : atPollBegin (Eng.poll P e wid).w.trace = e.w.trace := by
      rw [hl]; exact atPollBegin_seg l _ wid pl
    rw [ht] at this
    simpa [atPollBegin] using this
  rw [ht] at hm ⊢
  have := c20_woken n t' hm c hc (by rw [hab]; exact hp) (by rw [hab]; exact ho)
  simpa [polledSince] using this

namespace Nest

/-! ### (A) the boundary statement -/

theorem c20At_of {nc : NCase} {s : St} (hp : Proj (QO20 nc) (fun c => QI20 (nc.inner c)) s)
    (hn : NInv nc s) : c20At nc s = true := by
  unfold c20At
  simp only [Bool.and_eq_true, List.all_eq_true, List.mem_range]
  constructor
  · cases hf : nc.outer.isConc with
    | false => rfl
    | true =>
      have f := hp.o hf
      have hm : holds_C20 true nc.n s.out.w.trace = true := by
        have := f.b.m20; rw [f.n] at this; exact this
      simp only [Bool.not_true, Bool.false_or, Bool.and_eq_true, hm, true_and]
      by_cases hlo : lastOut s.out.w.trace = some .pending
      · simp only [hlo, beq_self_eq_true, Bool.not_true, Bool.false_or, List.all_eq_true,
          List.mem_range]
        intro c hc
        exact everPolled_of_c20 nc.n _ hm hlo c hc
      · have : (lastOut s.out.w.trace == some Outcome.pending) = false := by simpa using hlo
        simp [this]
  · intro c hc
    have hi := hp.i c
    cases hin : nc.inner c with
    | none => rfl
    | some fk =>
      obtain ⟨fam, k⟩ := fk
      rw [hin] at hi
      simp only
      cases hf : fam.isConc with
      | false => rfl
      | true =>
        have f := hi hf
        have hm : holds_C20 true k (s.inn c).w.trace = true := by
          have := f.b.m20; rw [f.n] at this; exact this
        simp only [Bool.not_true, Bool.false_or, Bool.and_eq_true, hm, true_and]
        by_cases hl : lastRes s.out.w.trace c = some .pend
        · simp only [hl, beq_self_eq_true, Bool.not_true, Bool.false_or, List.all_eq_true,
            List.mem_range]
          intro g hg
          have hs : (nc.inner c).isSome = true := by simp [hin]
          exact everPolled_of_c20 k _ hm ((hn.lk c hc hs).l2 hl) g hg
        · have : (lastRes s.out.w.trace c == some Res.pend) = false := by simpa using hl
          simp [this]

/-! ### (B) a woken leaf is polled by the next top-level poll -/

/-- the statement about one top-level poll `w` issued in state `s` -/
def wokenLeafAt (nc : NCase) (s : St) (w : Nat) : Bool :=
  let s' := poll nc s w
  let to := s.out.w.trace
  let to' := s'.out.w.trace
  -- the nest is a live concurrently evaluating instance and answers Pending to this poll
  !(nc.outer.isConc && alive to && lastOut to' == some .pending) ||
  (List.range nc.n).all (fun c =>
    match nc.inner c with
    | none => true
    | some (fam, k) =>
      -- a concurrently evaluating nested child that was waiting and answers Pending again
      !(fam.isConc && lastRes to c == some .pend && !gone to c && lastRes to' c == some .pend) ||
      (List.range k).all (fun g =>
        -- a waiting leaf whose waker had been invoked when the poll began …
        !(lastRes (s.inn c).w.trace g == some .pend && owes (s.inn c).w.trace g) ||
        -- … was polled by the inner instance during this poll
        (polledSince to' c && polledSince (s'.inn c).w.trace g)))

theorem woken_leaf_polled {nc : NCase} {s : St}
    (hp : Proj (QO20 nc) (fun c => QI20 (nc.inner c)) s) (hn : NInv nc s)
    (hnd : ∀ st, (nc.outer.policy.order st).Nodup) (w : Nat)
    (hfo : nc.outer.isConc = true) (ha : alive s.out.w.trace = true)
    (hlo' : lastOut (poll nc s w).out.w.trace = some .pending)
    (c : Nat) (hc : c < nc.n) (fam : Fam) (k : Nat) (hin : nc.inner c = some (fam, k))
    (hfi : fam.isConc = true)
    (hl : lastRes s.out.w.trace c = some .pend) (hg : gone s.out.w.trace c = false)
    (hl' : lastRes (poll nc s w).out.w.trace c = some .pend)
    (g : Nat) (hgk : g < k)
    (hlg : lastRes (s.inn c).w.trace g = some .pend) (hog : owes (s.inn c).w.trace g = true) :
    polledSince (poll nc s w).out.w.trace c = true ∧
    polledSince ((poll nc s w).inn c).w.trace g = true := by
  have hs : (nc.inner c).isSome = true := by simp [hin]
  have lk := hn.lk c hc hs
  have hpol : innerPolicy nc c = fam.policy := innerPolicy_some nc c fam k hin
  -- the inner instance is alive and waiting; the wake-up of the leaf reached its task waker
  have hai : alive (s.inn c).w.trace = true := by
    cases hh : alive (s.inn c).w.trace with
    | true => rfl
    | false => have := lk.l4 ha hh; rw [hg] at this; exact Bool.noConfusion this
  have hwi := (hn.fi c hs).quiet_pt g hai (lk.l2 hl) hlg hog
  -- … which is an invocation of the waker the nested child holds
  have hoc : owes s.out.w.trace c = true := lk.l3 hwi
  -- the outer instance polls the nested child
  have hp' := proj_poll (closed_o20 nc) (ScriptFree.imp _ (C20.f20_scriptFree _ _)) (closed_i20 nc) hp w
  have hn' := ninv_poll hn hnd w
  have fo' := hp'.o hfo
  have hpc : polledSince (out1 nc s w).w.trace c = true := by
    have hm : holds_C20 true nc.n (out1 nc s w).w.trace = true := by
      have := fo'.b.m20; rw [fo'.n] at this; exact this
    exact poll_woken hn.fo.law (out0 nc s) w nc.n hm hlo' c hc hl hoc
  refine ⟨hpc, ?_⟩
  -- so the speculative inner poll is committed
  have fi : C20.F20 fam.policy k (s.inn c) := by
    have := hp.i c; rw [hin] at this; exact this hfi
  have fsp : C20.F20 fam.policy k (specE nc s c) := by
    unfold specE; rw [hpol]; exact (C20.f20_closed _ _).poll _ _ fi
  have hmi : holds_C20 true k (specE nc s c).w.trace = true := by
    have := fsp.b.m20; rw [fsp.n] at this; exact this
  have hinn : (poll nc s w).inn c =
      if (!s.gone c && droppedNow (out1 nc s w).w.trace c) = true
      then Eng.drop (innerPolicy nc c) (specE nc s c) else specE nc s c := by
    rw [poll_inn]
    simp only [nested_contains nc c hc hs, Bool.true_and, polledNow_eq, hpc, if_true]
  -- the inner poll answered Pending
  have lk' := hn'.lk c hc hs
  have hlo_i : lastOut ((poll nc s w).inn c).w.trace = some .pending := lk'.l2 hl'
  rw [hinn] at hlo_i ⊢
  split at hlo_i
  · rename_i hrel
    simp only [hrel, if_true]
    obtain ⟨ld, hld, pld, _⟩ := drop_seg fsp.conc.law (specE nc s c)
    rw [hpol] at hlo_i ⊢
    rw [hld] at hlo_i ⊢
    rw [lastOut_dropSeg ld _ pld] at hlo_i
    rw [polledSince_dropSeg ld _ g pld]
    unfold specE at hlo_i hmi ⊢
    rw [hpol] at hlo_i hmi ⊢
    exact poll_woken fsp.conc.law (s.inn c) _ k hmi hlo_i g hgk hlg hog
  · rename_i hrel
    simp only [hrel, if_false]
    unfold specE at hlo_i hmi ⊢
    rw [hpol] at hlo_i hmi ⊢
    exact poll_woken fsp.conc.law (s.inn c) _ k hmi hlo_i g hgk hlg hog

theorem wokenLeafAt_of {nc : NCase} {s : St}
    (hp : Proj (QO20 nc) (fun c => QI20 (nc.inner c)) s) (hn : NInv nc s)
    (hnd : ∀ st, (nc.outer.policy.order st).Nodup) (w : Nat) : wokenLeafAt nc s w = true := by
  unfold wokenLeafAt
  simp only
  cases hA : (nc.outer.isConc && alive s.out.w.trace &&
      lastOut (poll nc s w).out.w.trace == some .pending) with
  | false => simp
  | true =>
    simp only [Bool.and_eq_true, beq_iff_eq] at hA
    simp only [Bool.not_true, Bool.false_or, List.all_eq_true, List.mem_range]
    intro c hc
    cases hin : nc.inner c with
    | none => rfl
    | some fk =>
      obtain ⟨fam, k⟩ := fk
      simp only
      cases hB : (fam.isConc && lastRes s.out.w.trace c == some .pend && !gone s.out.w.trace c &&
          lastRes (poll nc s w).out.w.trace c == some .pend) with
      | false => simp
      | true =>
        simp only [Bool.and_eq_true, beq_iff_eq, Bool.not_eq_true'] at hB
        simp only [Bool.not_true, Bool.false_or, List.all_eq_true, List.mem_range]
        intro g hg
        cases hC : (lastRes (s.inn c).w.trace g == some .pend && owes (s.inn c).w.trace g) with
        | false => simp
        | true =>
          simp only [Bool.and_eq_true, beq_iff_eq] at hC
          have := woken_leaf_polled hp hn hnd w hA.1.1 hA.1.2 hA.2 c hc fam k hin hB.1.1.1
            hB.1.1.2 hB.1.2 hB.2 g hg hC.1 hC.2
          simp [this.1, this.2]

/-! ### the executable statement over a history -/

/-- if the next operation of the history is a poll, the statement (B) about that poll -/
def nextPollOk (nc : NCase) (k : Nat) (s : St) : Bool :=
  match nc.ops[k]? with
  | some (.poll w) => wokenLeafAt nc s w
  | _ => true

/-- `c20At` at every operation boundary of the history, and `wokenLeafAt` for every poll of it -/
def holdsC20NestFull (nc : NCase) : Bool :=
  (List.range (nc.ops.length + 1)).all (fun k =>
    let s := (nc.ops.take k).foldl (step nc) (init nc)
    c20At nc s && nextPollOk nc k s)

end Nest
end Fc
