/-
  FcLemmas/LiveNRun.lean — the wake-only executor on a nest of future combinators: wake-ups between
  polls (`lbn_fire`), the prodded child (`waiting_some`, `lbn_prod`), and the induction on the round
  budget (`resolves_aux`), as in FcLemmas/Live2.lean but on `Nest.St` with the measure `mu`.
-/
import FcLemmas.LiveNPoll
set_option linter.unusedSimpArgs false
set_option linter.unusedVariables false

namespace Fc
namespace LiveN
open Mon Live Nest

variable {nc : NCase} {F : FNest nc} {s : St}

/-! ### `Nest.fire`, spelled out -/

theorem fire_lt (nc : NCase) (s : St) (id age : Nat) (h : id < 100) :
    fire nc s id age = { s with out := s.out.fire id age } := by
  unfold fire; rw [if_pos h]

/-- the state after a leaf's wake-up: the inner instance's forwarded wake-ups `fs` reach the outer
    instance -/
def leafSt (s : St) (fs : List (Nat × Nat)) (id age : Nat) : St :=
  { s with out := { s.out with w := s.out.w.fires fs },
           inn := fun c' => if c' = id / 100 - 1 then (s.inn (id / 100 - 1)).fire (id % 100) age
                            else s.inn c' }

@[simp] theorem leafSt_out_w (s : St) (fs : List (Nat × Nat)) (id age : Nat) :
    (leafSt s fs id age).out.w = s.out.w.fires fs := rfl
@[simp] theorem leafSt_gone (s : St) (fs : List (Nat × Nat)) (id age : Nat) :
    (leafSt s fs id age).gone = s.gone := rfl
theorem leafSt_out (s : St) (fs : List (Nat × Nat)) (id age : Nat) :
    (leafSt s fs id age).out = { s.out with w := s.out.w.fires fs } := rfl
theorem leafSt_inn (s : St) (fs : List (Nat × Nat)) (id age c' : Nat) :
    (leafSt s fs id age).inn c' =
      if c' = id / 100 - 1 then (s.inn (id / 100 - 1)).fire (id % 100) age else s.inn c' := rfl
theorem leafSt_inn_same (s : St) (fs : List (Nat × Nat)) (id age : Nat) :
    (leafSt s fs id age).inn (id / 100 - 1) = (s.inn (id / 100 - 1)).fire (id % 100) age := by
  simp [leafSt_inn]

theorem fire_ge (nc : NCase) (s : St) (id age : Nat) (h : ¬ id < 100) :
    ∃ fs, fire nc s id age = leafSt s fs id age := by
  unfold fire; rw [if_neg h]
  simp only
  exact ⟨_, by rw [foldl_fire]; rfl⟩

theorem resolvedVal_fire (w : World) (c a j : Nat) :
    resolvedVal (w.fire c a).trace j = resolvedVal w.trace j := by
  simp [resolvedVal, C16.lastRes_fire]

theorem resolvedVal_wfires (w : World) (l : List (Nat × Nat)) (j : Nat) :
    resolvedVal (w.fires l).trace j = resolvedVal w.trace j := by
  simp [resolvedVal, C16.lastRes_fires]

theorem lastOut_wfires (w : World) (l : List (Nat × Nat)) :
    lastOut (w.fires l).trace = lastOut w.trace := by
  obtain ⟨l', hl, hp⟩ := World.fires_seg w l
  rw [hl]; exact skip_seg lastOut isFireEv lastOut_fireEv l' hp _

/-- `Live2.LB` survives any list of wake-ups -/
theorem lb_wfires {P : Policy Fix} {n : Nat} {I : Fix → List Ev → Prop}
    {J : Fix → List Ev → List Nat → Prop} {Fin : Bool → List Nat → Prop} {m : Mode} {fv : Nat → Nat}
    (FL : Live2.FutLike P n I J Fin) : ∀ (l : List (Nat × Nat)) (e : Eng Fix),
    Live2.LB P I m fv n e → Live2.LB P I m fv n { e with w := e.w.fires l } := by
  intro l
  induction l with
  | nil => intro e h; exact h
  | cons p l ih =>
    intro e h
    have := ih (e.fire p.1 p.2) (Live2.lb_fire FL e p.1 p.2 h)
    exact this

theorem setScripts_wfires (e : Eng Fix) (f : Nat → List Step) (l : List (Nat × Nat)) :
    setScripts { e with w := e.w.fires l } f
      = { setScripts e f with w := (setScripts e f).w.fires l } := by
  show (⟨(e.w.fires l).ss f, e.s⟩ : Eng Fix) = ⟨(e.w.ss f).fires l, e.s⟩
  rw [World.ss_fires]

/-! ### a wake-up between polls -/

theorem lbn_fire (h : LBN nc F s) (id age : Nat) : LBN nc F (fire nc s id age) := by
  have hn := ninv_fire h.ninv id age
  obtain ⟨f, hfp, hLB⟩ := h.vo
  by_cases hid : id < 100
  · rw [fire_lt nc s id age hid] at hn ⊢
    refine ⟨hn, ⟨f, ?_, ?_⟩, ?_⟩
    · intro c hin; simp only [Eng.fire_w, World.fire_scripts]; exact hfp c hin
    · rw [← setScripts_fire]; exact Live2.lb_fire F.flo _ id age hLB
    · intro c fam k hc hin hu
      simp only [Eng.fire_w, resolvedVal_fire] at hu
      exact h.inn c fam k hc hin hu
  · obtain ⟨fs, hfs⟩ := fire_ge nc s id age hid
    rw [hfs] at hn ⊢
    refine ⟨hn, ⟨f, ?_, ?_⟩, ?_⟩
    · intro c hin; simp only [leafSt_out_w, World.fires_scripts]; exact hfp c hin
    · rw [leafSt_out, setScripts_wfires]; exact lb_wfires F.flo fs _ hLB
    · intro c fam k hc hin hu
      simp only [leafSt_out_w, resolvedVal_wfires] at hu
      obtain ⟨hl, hg⟩ := h.inn c fam k hc hin hu
      refine ⟨?_, hg⟩
      rw [leafSt_inn]
      split
      · rename_i hcc; subst hcc
        exact Live2.lb_fire (F.fli _ fam k hin) _ _ _ hl
      · exact hl

theorem mu_fire (nc : NCase) (s : St) (id age : Nat) : mu nc (fire nc s id age) = mu nc s := by
  have hm : ∀ c, mIn nc (fire nc s id age) c = mIn nc s c := by
    intro c
    by_cases hid : id < 100
    · rw [fire_lt nc s id age hid]
      unfold mIn
      simp only [Eng.fire_w, World.fire_scripts, resolvedVal_fire]
    · obtain ⟨fs, hfs⟩ := fire_ge nc s id age hid
      rw [hfs]
      unfold mIn
      simp only [leafSt_out_w, World.fires_scripts, resolvedVal_wfires]
      cases nc.inner c with
      | none => rfl
      | some fk =>
        simp only
        split
        · rw [leafSt_inn]
          split
          · rename_i hcc; subst hcc; simp [Exec.stepsLeft]
          · rfl
        · rfl
  unfold mu
  congr 1
  funext c; exact hm c

/-! ### the child the environment prods -/

/-- `id` names a waiting scripted child -/
def Waiting (nc : NCase) (s : St) (id : Nat) : Prop :=
  (id < nc.n ∧ id < 100 ∧ nc.inner id = none ∧ lastRes s.out.w.trace id = some .pend ∧
      s.out.w.scripts id ≠ []) ∨
  (∃ c fam k g, c < nc.n ∧ nc.inner c = some (fam, k) ∧ g < k ∧ ¬ id < 100 ∧ id / 100 - 1 = c ∧
      id % 100 = g ∧ lastRes s.out.w.trace c = some .pend ∧
      lastRes (s.inn c).w.trace g = some .pend ∧ (s.inn c).w.scripts g ≠ [])

theorem leafId_decode (c g : Nat) (hg : g < 100) :
    ¬ leafId c g < 100 ∧ leafId c g / 100 - 1 = c ∧ leafId c g % 100 = g := by
  unfold leafId
  refine ⟨by omega, ?_, by omega⟩
  have : (100 * (c + 1) + g) / 100 = c + 1 := by omega
  omega

theorem wf_n (h : ExecN.wellFormed nc = true) : nc.n ≤ 100 := by
  simp only [ExecN.wellFormed, Bool.and_eq_true, decide_eq_true_eq] at h
  exact h.1

theorem wf_k (h : ExecN.wellFormed nc = true) {c : Nat} {fam : Fam} {k : Nat} (hc : c < nc.n)
    (hin : nc.inner c = some (fam, k)) : k ≤ 100 := by
  simp only [ExecN.wellFormed, Bool.and_eq_true, List.all_eq_true, List.mem_range] at h
  have := h.2 c hc
  simpa [hin] using this

/-- every id the executor can pick names a waiting child -/
theorem waiting_of_mem (hwf : ExecN.wellFormed nc = true) {id : Nat}
    (h : id ∈ (List.range nc.n).flatMap (ExecN.waitingIn nc s)) : Waiting nc s id := by
  obtain ⟨c, hc, hid⟩ := List.mem_flatMap.mp h
  have hc := List.mem_range.mp hc
  unfold ExecN.waitingIn at hid
  cases hin : nc.inner c with
  | none =>
    simp only [hin] at hid
    by_cases hw : ExecN.waitingPlain nc s c = true
    · simp only [hw, if_true, List.mem_singleton] at hid
      subst hid
      simp only [ExecN.waitingPlain, Bool.and_eq_true, beq_iff_eq, Bool.not_eq_true',
        List.isEmpty_eq_false_iff] at hw
      exact Or.inl ⟨hc, by have := wf_n hwf; omega, hin, hw.1.2, hw.2⟩
    · simp [hw] at hid
  | some fk =>
    obtain ⟨fam, k⟩ := fk
    simp only [hin, List.mem_map, List.mem_filter, List.mem_range] at hid
    obtain ⟨g, ⟨hg, hw⟩, rfl⟩ := hid
    simp only [ExecN.waitingLeaf, Bool.and_eq_true, beq_iff_eq, Bool.not_eq_true',
      List.isEmpty_eq_false_iff] at hw
    have hk := wf_k hwf hc hin
    obtain ⟨d1, d2, d3⟩ := leafId_decode c g (by omega)
    exact Or.inr ⟨c, fam, k, g, hc, hin, hg, d1, d2, d3, hw.1.1.2, hw.1.2, hw.2⟩

/-- after a `Pending` top-level poll some scripted child is waiting -/
theorem waiting_some (h : LBN nc F s) (hwf : ExecN.wellFormed nc = true)
    (hlo : lastOut s.out.w.trace = some .pending) :
    ∃ id, ExecN.firstWaiting nc s = some id ∧ Waiting nc s id := by
  obtain ⟨f, hfp, hLB⟩ := h.vo
  obtain ⟨hep, c, hc, hr⟩ := hLB.pf hlo
  have hf : Fut F.fvo (s.out.w.ss f) c := hLB.wi.fut c hc
  obtain ⟨hfs, hl, _⟩ := Live.fut_unresolved hf hr
  have hlr : lastRes s.out.w.trace c = some .pend := by
    rcases hl with hl | hl
    · exact absurd hl (hLB.wi.ep c (hep c hc))
    · exact hl
  -- the list the executor scans is not empty
  have hne : (List.range nc.n).flatMap (ExecN.waitingIn nc s) ≠ [] := by
    cases hin : nc.inner c with
    | none =>
      have hsc : s.out.w.scripts c ≠ [] := by
        rw [← hfp c hin]; exact fs_ne_nil _ hfs
      have hw : ExecN.waitingPlain nc s c = true := by
        simp [ExecN.waitingPlain, hin, hlr, hsc]
      intro hnil
      have : c ∈ (List.range nc.n).flatMap (ExecN.waitingIn nc s) :=
        List.mem_flatMap.mpr ⟨c, List.mem_range.mpr hc, by simp [ExecN.waitingIn, hin, hw]⟩
      rw [hnil] at this; cases this
    | some fk =>
      obtain ⟨fam, k⟩ := fk
      have hs : (nc.inner c).isSome = true := by simp [hin]
      have hub : resolvedVal s.out.w.trace c = none := hr
      obtain ⟨hli, hg0⟩ := h.inn c fam k hc hin hub
      have hloi := (h.ninv.lk c hc hs).l2 hlr
      obtain ⟨g, _, hg, hlrg, hneg⟩ := Live2.firstWaiting_some (s.inn c) hli hloi
      have hw : ExecN.waitingLeaf nc s c g = true := by
        simp [ExecN.waitingLeaf, hg0, hlr, hlrg, hneg]
      intro hnil
      have : leafId c g ∈ (List.range nc.n).flatMap (ExecN.waitingIn nc s) :=
        List.mem_flatMap.mpr ⟨c, List.mem_range.mpr hc, by
          simp only [ExecN.waitingIn, hin, List.mem_map, List.mem_filter, List.mem_range]
          exact ⟨g, ⟨hg, hw⟩, rfl⟩⟩
      rw [hnil] at this; cases this
  unfold ExecN.firstWaiting
  cases hl : (List.range nc.n).flatMap (ExecN.waitingIn nc s) with
  | nil => exact absurd hl hne
  | cons id rest =>
    exact ⟨id, rfl, waiting_of_mem hwf (by rw [hl]; exact List.mem_cons_self ..)⟩

/-- a waiting child has a scripted step left that counts -/
theorem mu_pos_of_waiting {id : Nat} (hw : Waiting nc s id) : 1 ≤ mu nc s := by
  rcases hw with ⟨hc, _, hin, _, hne⟩ | ⟨c, fam, k, g, hc, hin, hg, _, _, _, hlr, _, hne⟩
  · have h3 := le_total (mIn nc s) nc.n id hc
    rw [mIn_plain hin] at h3
    have h4 := length_pos_of_ne_nil' _ hne
    unfold mu; omega
  · have h3 := le_total (mIn nc s) nc.n c hc
    rw [mIn_nested hin (by simp [resolvedVal, hlr])] at h3
    have h5 := le_total (fun g => ((s.inn c).w.scripts g).length) k g hg
    have h4 := length_pos_of_ne_nil' _ hne
    rw [stepsLeft_eq] at h3
    unfold mu; omega

/-- prodding a waiting child: the invariant survives, the task has been woken, and the prodded
    child's wake-up is owed -/
theorem lbn_prod (h : LBN nc F s) (hlo : lastOut s.out.w.trace = some .pending) {id : Nat}
    (hw : Waiting nc s id) :
    LBN nc F (fire nc s id 0) ∧ lastOut (fire nc s id 0).out.w.trace = some .pending ∧
      wokeSince (fire nc s id 0).out.w.trace = true ∧ Owed nc (fire nc s id 0) := by
  have h' := lbn_fire h id 0
  refine ⟨h', ?_⟩
  rcases hw with ⟨hc, hid, hin, hlr, _⟩ | ⟨c, fam, k, g, hc, hin, hg, hid, hdc, hdg, hlr, hlrg, hne⟩
  · -- a plain outer child
    obtain ⟨f, hfp, hLB⟩ := h.vo
    obtain ⟨h1, h2, h3⟩ := Live2.lb_fire_woke F.flo (setScripts s.out f) id hLB hlo hc hlr
    rw [setScripts_fire] at h1 h2 h3
    rw [fire_lt nc s id 0 hid]
    refine ⟨?_, h3, Or.inl ⟨id, hc, hin, h2, h1⟩⟩
    simp only [Eng.fire_w]; rw [C01.lastOut_fire]; exact hlo
  · -- a leaf
    subst hdc; subst hdg
    have hs : (nc.inner (id / 100 - 1)).isSome = true := by simp [hin]
    have hub : resolvedVal s.out.w.trace (id / 100 - 1) = none := by simp [resolvedVal, hlr]
    obtain ⟨hli, _⟩ := h.inn _ fam k hc hin hub
    have hloi := (h.ninv.lk _ hc hs).l2 hlr
    obtain ⟨i1, i2, _⟩ := Live2.lb_fire_woke (F.fli _ fam k hin) (s.inn (id / 100 - 1)) (id % 100)
      hli hloi hg hlrg
    obtain ⟨fs, hfs⟩ := fire_ge nc s id 0 hid
    rw [hfs] at h' ⊢
    have hlo' : lastOut (leafSt s fs id 0).out.w.trace = some .pending := by
      rw [leafSt_out_w, lastOut_wfires]; exact hlo
    have hlr' : lastRes (leafSt s fs id 0).out.w.trace (id / 100 - 1) = some .pend := by
      rw [leafSt_out_w, C16.lastRes_fires]; exact hlr
    have j1 : owes ((leafSt s fs id 0).inn (id / 100 - 1)).w.trace (id % 100) = true := by
      rw [leafSt_inn_same]; exact i1
    have j2 : lastRes ((leafSt s fs id 0).inn (id / 100 - 1)).w.trace (id % 100) = some .pend := by
      rw [leafSt_inn_same]; exact i2
    have howed : Owed nc (leafSt s fs id 0) := by
      refine Or.inr ⟨id / 100 - 1, fam, k, id % 100, hc, hin, hg, hlr', j2, j1, ?_⟩
      rw [leafSt_inn_same]
      simp only [Eng.fire_w, World.fire_scripts]; exact hne
    refine ⟨hlo', ?_, howed⟩
    -- the wake-up travels through both levels
    have hoc := outer_owes_of_leaf h' hc hin hlr' j2 j1
    obtain ⟨f', _, hLB'⟩ := h'.vo
    exact h'.ninv.fo.quiet_pt _ (alive_of_sp hLB'.sp) hlo' hlr' hoc

/-! ### executor rounds -/

theorem lbn_lo (h : LBN nc F s) :
    lastOut s.out.w.trace = none ∨ lastOut s.out.w.trace = some .pending := by
  obtain ⟨f, _, hLB⟩ := h.vo
  exact hLB.lo

theorem round_poll (h : LBN nc F s) (hsp : Exec.shouldPoll s.out.w.trace = true) :
    ExecN.round nc s = some (poll nc s (Exec.pollCount s.out.w.trace + 1)) := by
  unfold ExecN.round; rw [finalOut_lo (lbn_lo h), hsp]; simp

theorem round_fire (h : LBN nc F s) (hsp : Exec.shouldPoll s.out.w.trace = false) (id : Nat)
    (hfw : ExecN.firstWaiting nc s = some id) : ExecN.round nc s = some (fire nc s id 0) := by
  unfold ExecN.round; rw [finalOut_lo (lbn_lo h), hsp, hfw]; simp

/-- the three phases of a run that has not finished (cf. `Live.Cond`) -/
def CondN (nc : NCase) (s : St) (N : Nat) : Prop :=
  (Exec.shouldPoll s.out.w.trace = true ∧ 3 * mu nc s + 1 ≤ N) ∨
  (Exec.shouldPoll s.out.w.trace = false ∧ 3 * mu nc s ≤ N) ∨
  (Exec.shouldPoll s.out.w.trace = true ∧ Owed nc s ∧ 1 ≤ mu nc s ∧ 3 * mu nc s ≤ N + 1)

/-- the run has produced `Ready` -/
def DoneN (nc : NCase) (F : FNest nc) (k : Nat) (s : St) : Prop :=
  ∃ ok vals, lastOut (ExecN.runFor nc k s).out.w.trace = some (.ready ok vals) ∧ F.Fino ok vals

theorem poll_round {N : Nat}
    (ih : ∀ s, LBN nc F s → CondN nc s N → ∃ k, k ≤ N ∧ DoneN nc F k s)
    (h : LBN nc F s) (hsp : Exec.shouldPoll s.out.w.trace = true)
    (hE : (Owed nc s ∧ 3 * mu nc s ≤ N + 2) ∨ 3 * mu nc s ≤ N) :
    ∃ k, k ≤ N + 1 ∧ DoneN nc F k s := by
  have hr := round_poll h hsp
  rcases lbn_poll h (Exec.pollCount s.out.w.trace + 1) with ⟨ok, vals, hv, hF⟩ | ⟨h', hlo', hle, hD, hEE⟩
  · exact ⟨1, by omega, ok, vals, by simp only [ExecN.runFor, hr]; exact hv, hF⟩
  · have hsp' := shouldPoll_pending hlo'
    have hcond : CondN nc (poll nc s (Exec.pollCount s.out.w.trace + 1)) N := by
      cases hw : wokeSince (poll nc s (Exec.pollCount s.out.w.trace + 1)).out.w.trace with
      | true =>
        left
        refine ⟨by rw [hsp', hw], ?_⟩
        rcases hE with ⟨ho, hb⟩ | hb
        · have := hEE ho; omega
        · rcases hD with hD | hD
          · omega
          · rw [hw] at hD; exact Bool.noConfusion hD
      | false =>
        right; left
        refine ⟨by rw [hsp', hw], ?_⟩
        rcases hE with ⟨ho, hb⟩ | hb
        · have := hEE ho; omega
        · omega
    obtain ⟨k, hk, ok, vals, hv, hF⟩ := ih _ h' hcond
    exact ⟨k + 1, by omega, ok, vals, by simp only [ExecN.runFor, hr]; exact hv, hF⟩

/-- the induction on the number of rounds allowed -/
theorem resolves_aux (hwf : ExecN.wellFormed nc = true) : ∀ (N : Nat) (s : St), LBN nc F s →
    CondN nc s N → ∃ k, k ≤ N ∧ DoneN nc F k s := by
  intro N
  induction N with
  | zero =>
    intro s h hc
    rcases hc with ⟨_, h1⟩ | ⟨hsp, h1⟩ | ⟨_, _, h1, h2⟩
    · omega
    · obtain ⟨hlo, _⟩ := shouldPoll_false_pending (lbn_lo h) hsp
      obtain ⟨id, _, hw⟩ := waiting_some h hwf hlo
      have := mu_pos_of_waiting hw
      omega
    · omega
  | succ N ih =>
    intro s h hc
    rcases hc with ⟨hsp, h1⟩ | ⟨hsp, h1⟩ | ⟨hsp, hwit, h1, h2⟩
    · exact poll_round ih h hsp (Or.inr (by omega))
    · obtain ⟨hlo, _⟩ := shouldPoll_false_pending (lbn_lo h) hsp
      obtain ⟨id, hfw, hw⟩ := waiting_some h hwf hlo
      have hr := round_fire h hsp id hfw
      obtain ⟨h', hlo', hwk, howed⟩ := lbn_prod h hlo hw
      have hpos := mu_pos_of_waiting hw
      have hcond : CondN nc (fire nc s id 0) N := by
        right; right
        refine ⟨by rw [shouldPoll_pending hlo', hwk], howed, ?_, ?_⟩
        · rw [mu_fire]; exact hpos
        · rw [mu_fire]; omega
      obtain ⟨k, hk, ok, vals, hv, hF⟩ := ih _ h' hcond
      exact ⟨k + 1, by omega, ok, vals, by simp only [ExecN.runFor, hr]; exact hv, hF⟩
    · exact poll_round ih h hsp (Or.inl ⟨hwit, by omega⟩)

/-- every run from a state satisfying the invariant resolves within `3 * mu + 1` rounds -/
theorem resolves_of_lbn (hwf : ExecN.wellFormed nc = true) (h : LBN nc F s)
    (hsp : Exec.shouldPoll s.out.w.trace = true) :
    ∃ k, k ≤ 3 * mu nc s + 1 ∧ DoneN nc F k s :=
  resolves_aux hwf _ s h (Or.inl ⟨hsp, Nat.le_refl _⟩)

end LiveN
end Fc
