/-
  FcLemmas/KTieZipTDrop.lean — tuple zip (`(A, B, …).zip()`), ported from FcLemmas/KTieZipADrop.lean: the translated
  `PinnedDrop::drop` of `Zip` (FcGen/KSrcTup4.lean; the per-child `if state[F].is_ready() { output.F.assume_init_drop() }`
  folded into a loop by tools/tuple_norm.py) releases exactly the buffered items of the unfinished row, in slot order
  (`Rs.forBreak` over the slots; the body never breaks); the inputs are plain fields (dropped by the drop glue
  afterwards): together this is `Eng.drop zip`.
-/
import FcProps.KTieZipTup
import FcLemmas.World

set_option linter.unusedSimpArgs false
set_option linter.unusedVariables false

namespace Fc
open Rs Src

namespace TieZipT
open ZipT

local macro "unroles" : tactic =>
  `(tactic| try simp only [Zip.roleKids, Zip.roleItems, Zip.roleWakers, Zip.roleStates,
      Zip.roleDone] at *)

abbrev zt_DBody := Zip × World → Nat → Option ((Zip × World) × Bool)

/-- what slot `i` releases -/
def zt_rel (g : Zip) (i : Nat) : List Ev :=
  if TiePS.abs (g.roleStates.get i) = .ready then [.valDropped ((g.roleItems.get i).getD 0)] else []

/-- one iteration of the destructor's loop: a `Ready` slot gives up its item, nothing else changes, no `break` -/
def zt_DropSpec (F : zt_DBody) : Prop :=
  ∀ (g : Zip) (env : World) (i : Nat), i < g.roleStates.len → i < g.roleItems.cap →
    (TiePS.abs (g.roleStates.get i) = .ready → ∃ v, g.roleItems.get i = some v) →
    ∃ g' env', F (g, env) i = some ((g', env'), false) ∧ g'.roleStates = g.roleStates ∧
      g'.roleItems.cap = g.roleItems.cap ∧ (∀ j, j ≠ i → g'.roleItems.get j = g.roleItems.get j) ∧
      env'.trace = (zt_rel g i).reverse ++ env.trace

theorem zt_flatMap_congr {α : Type} (f h : Nat → List α) (l : List Nat) (hc : ∀ j ∈ l, f j = h j) :
    l.flatMap f = l.flatMap h := by
  induction l with
  | nil => rfl
  | cons x l ih =>
    simp only [List.flatMap_cons, hc x (List.mem_cons_self ..),
      ih (fun j hj => hc j (List.mem_cons_of_mem _ hj))]

theorem zt_drop_loop (F : zt_DBody) (hF : zt_DropSpec F) (l : List Nat) :
    ∀ (g : Zip) (env : World), l.Nodup →
      (∀ j ∈ l, j < g.roleStates.len ∧ j < g.roleItems.cap ∧
        (TiePS.abs (g.roleStates.get j) = .ready → ∃ v, g.roleItems.get j = some v)) →
      ∃ g' env', Rs.forBreak l (g, env) F = some (g', env') ∧
        env'.trace = (l.flatMap (zt_rel g)).reverse ++ env.trace := by
  induction l with
  | nil => intro g env _ _; exact ⟨g, env, rfl, rfl⟩
  | cons x l ih =>
    intro g env hnd hl
    obtain ⟨hx1, hx2, hx3⟩ := hl x (List.mem_cons_self ..)
    obtain ⟨g1, env1, h1, hs1, hc1, ho1, ht1⟩ := hF g env x hx1 hx2 hx3
    have hxl : x ∉ l := (List.nodup_cons.mp hnd).1
    have hne : ∀ j ∈ l, j ≠ x := fun j hj hjx => hxl (hjx ▸ hj)
    obtain ⟨g2, env2, h2, ht2⟩ := ih g1 env1 (List.nodup_cons.mp hnd).2 (by
      intro j hj
      obtain ⟨a, b, c⟩ := hl j (List.mem_cons_of_mem _ hj)
      rw [hs1, hc1, ho1 j (hne j hj)]
      exact ⟨a, b, c⟩)
    refine ⟨g2, env2, ?_, ?_⟩
    · simp only [Rs.forBreak, h1, h2]
    · have hcongr : l.flatMap (zt_rel g1) = l.flatMap (zt_rel g) := by
        apply zt_flatMap_congr
        intro j hj
        simp only [zt_rel, hs1, ho1 j (hne j hj)]
      rw [ht2, ht1, hcongr]
      simp [List.flatMap_cons]

/-- the loop followed by the code after it -/
theorem zt_drop_bind (F : zt_DBody) (hF : zt_DropSpec F) (l : List Nat) (g : Zip) (env : World) (hnd : l.Nodup)
    (hl : ∀ j ∈ l, j < g.roleStates.len ∧ j < g.roleItems.cap ∧
        (TiePS.abs (g.roleStates.get j) = .ready → ∃ v, g.roleItems.get j = some v))
    (K : Zip × World → Option (Zip × World × Unit)) (Ψ : Zip → World → Prop)
    (hK : ∀ g' env', env'.trace = (l.flatMap (zt_rel g)).reverse ++ env.trace →
      ∃ a b, K (g', env') = some (a, b, ()) ∧ Ψ a b) :
    ∃ a b, (Rs.forBreak l (g, env) F).bind K = some (a, b, ()) ∧ Ψ a b := by
  obtain ⟨g', env', h1, h2⟩ := zt_drop_loop F hF l g env hnd hl
  rw [h1, Option.bind_some]
  exact hK g' env' h2

/-- the released items, as the model lists them -/
theorem zt_flatMap_rel (g : Zip) (l : List Nat) :
    l.flatMap (zt_rel g) =
      (l.filter (fun i => TiePS.abs (g.roleStates.get i) = .ready)).map
        (fun i => Ev.valDropped ((g.roleItems.get i).getD 0)) := by
  induction l with
  | nil => rfl
  | cons x l ih =>
    by_cases hx : TiePS.abs (g.roleStates.get x) = .ready <;>
      simp [List.flatMap_cons, List.filter_cons, zt_rel, hx, ih]

theorem zt_drop_tie_main : drop_tie_statement := by
  intro N g b hW
  obtain ⟨hkn, hrd, hsl, hic, hpos, hrs⟩ := hW
  subst hkn
  suffices h : ∃ g' env', Zip.drop g.roleKids.len g ((absZ g b).w.emit .dropBegin) = some (g', env', ()) ∧
      env'.trace = ((List.range g.roleKids.len).flatMap (zt_rel g)).reverse ++
        ((absZ g b).w.emit .dropBegin).trace by
    obtain ⟨g', env', h1, h2⟩ := h
    refine ⟨g', env', h1, ?_⟩
    rw [h2, zt_flatMap_rel]
    simp [Eng.drop, zip, Fix.dropAll, absZ, World.emits, World.emit]
  unfold Zip.drop
  unroles
  simp only [hsl, Option.bind_eq_bind, Option.pure_def]
  refine zt_drop_bind _ ?hF _ g _ List.nodup_range ?hl _ _ ?hK
  case hl =>
    intro j hj
    have hj' := List.mem_range.mp hj
    refine ⟨by unroles; omega, by unroles; omega, ?_⟩
    intro hr
    rcases hrs j hj' with ⟨h1, _⟩ | ⟨_, h2⟩
    · unroles; rw [h1] at hr; simp [TiePS.abs] at hr
    · exact h2
  case hK =>
    intro g' env' ht
    exact ⟨_, _, rfl, ht⟩
  case hF =>
    clear hrd hsl hic hpos hrs
    clear g
    intro g env i h1 h2 h3
    dsimp only
    have hidx : Rs.PVec.idx g.roleStates i = some (g.roleStates.get i) := by
      simp [Rs.PVec.idx, h1]
    have hisr := (TiePS.tie (g.roleStates.get i)).2.2.1
    by_cases hr : TiePS.abs (g.roleStates.get i) = .ready
    · obtain ⟨v, hv⟩ := h3 hr
      have hdr : Rs.OutVec.drop g.roleItems i
          = some (⟨g.roleItems.cap, fun j => if j = i then none else g.roleItems.get j⟩, v) := by
        simp [Rs.OutVec.drop, h2, hv]
      unroles
      simp only [hidx, hisr, hr, hdr, decide_true, Option.bind_some, ↓reduceIte]
      refine ⟨_, _, rfl, rfl, rfl, ?_, ?_⟩
      · intro j hj; unroles; simp [hj]
      · simp [zt_rel, hr, hv, World.emit]
    · unroles
      simp only [hidx, hisr, hr, decide_false, Option.bind_some, Bool.false_eq_true, ↓reduceIte]
      refine ⟨_, _, rfl, rfl, rfl, fun _ _ => rfl, ?_⟩
      simp [zt_rel, hr]

end TieZipT
end Fc
