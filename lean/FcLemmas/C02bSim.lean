/-
  FcLemmas/C02bSim.lean — the `Sim` instances of the C02 invariant (FcLemmas/C02b.lean) for race,
  merge, chain and wait_until (future / stream), and the initial state.

  Children answer according to their kind (`Sim.kindRes`): a stream child that "resolved" or a
  future child that "yielded" would hand the combinator a value its code has no place for.
-/
import FcLemmas.C02b
set_option linter.unusedSimpArgs false
set_option linter.unusedVariables false

namespace Fc
namespace C02b
open Mon Fix

theorem dead_of_pre {s : Fix} (h : s.misuseIfDead = none) : s.dead = false := by
  cases hdd : s.dead <;> simp_all [Fix.misuseIfDead]

theorem sim_race (n : Nat) (m : Mode) :
    Sim race m (Sim.kindRes .race) (Inv false n) (J false n) where
  fireEv := fun s t e he h => h.inert e (fire_inert e he)
  pre := by
    intro s t w o hpre h
    simp only [race, Fix.misuseIfDead] at hpre
    split at hpre
    · cases hpre; exact h.pre w _ rfl
    · cases hpre
  start := by
    intro s t w hpre h
    exact ⟨by simp [race, Fix.bump, h.hn], by simpa [buf] using (h.start (dead_of_pre hpre) w).1,
      by simp⟩
  earlyPend := by
    intro s t l _ hor _
    simp [race] at hor
  skip := fun s t i rest _ hJ => ⟨hJ.1, hJ.2.1, by simp⟩
  goOn := by
    intro s t i rest wk l r hJ hel hr hK hl hex
    refine go_ok lawful_race hJ wk l r hl ?_ ?_ (by simp)
    · cases r <;> simp [race, Fix.keep, droppedChildren]
    · cases r <;> simp only [race, Fix.keep] at hex ⊢ <;> (try split at hex) <;>
        (try simp only [Option.some.injEq, reduceCtorEq] at hex) <;> (try subst hex) <;>
        simp_all [droppedVals, buf, rvals, ovals, Sim.kindRes, Res.fits, Fam.childIsStream]
  goExit := by
    intro s t i rest wk l r o hJ hel hr hK hl hex
    refine exit_ok lawful_race hJ wk l r o hl ?_ ?_ (by simp)
    · cases r <;> simp [race, Fix.keep, droppedChildren]
    · cases r <;> simp only [race, Fix.keep] at hex ⊢ <;> (try split at hex) <;>
        (try simp only [Option.some.injEq, reduceCtorEq] at hex) <;> (try subst hex) <;>
        simp_all [droppedVals, buf, rvals, ovals, Sim.kindRes, Res.fits, Fam.childIsStream]
  panic := by
    intro s t i rest wk l hJ hel hl
    exact panic_ok lawful_race hJ wk l hl (by simp [race, droppedChildren])
      (by simp [race, droppedVals, buf]) (by simp)
  finish := by
    intro s t hJ
    exact fin_ok hJ (by simp [buf]) _ rfl (by simp) _ rfl
  drop := fun s t h => h.drop_range _ rfl rfl

theorem sim_chain (n : Nat) (m : Mode) :
    Sim chain m (Sim.kindRes .chain) (Inv false n) (J false n) where
  fireEv := fun s t e he h => h.inert e (fire_inert e he)
  pre := by
    intro s t w o hpre h
    simp only [chain, Fix.misuseIfDead] at hpre
    split at hpre
    · cases hpre; exact h.pre w _ rfl
    · cases hpre
  start := by
    intro s t w hpre h
    exact ⟨by simp [chain, h.hn], by simpa [buf] using (h.start (dead_of_pre hpre) w).1,
      by simp⟩
  earlyPend := by
    intro s t l _ hor _
    simp [chain] at hor
  skip := fun s t i rest _ hJ => ⟨hJ.1, hJ.2.1, by simp⟩
  goOn := by
    intro s t i rest wk l r hJ hel hr hK hl hex
    refine go_ok lawful_chain hJ wk l r hl ?_ ?_ (by simp)
    · cases r <;> simp [chain, Fix.keep, droppedChildren]
    · cases r <;> simp only [chain, Fix.keep] at hex ⊢ <;> (try split at hex) <;>
        (try simp only [Option.some.injEq, reduceCtorEq] at hex) <;> (try subst hex) <;>
        simp_all [droppedVals, buf, rvals, ovals, Sim.kindRes, Res.fits, Fam.childIsStream]
  goExit := by
    intro s t i rest wk l r o hJ hel hr hK hl hex
    refine exit_ok lawful_chain hJ wk l r o hl ?_ ?_ (by simp)
    · cases r <;> simp [chain, Fix.keep, droppedChildren]
    · cases r <;> simp only [chain, Fix.keep] at hex ⊢ <;> (try split at hex) <;>
        (try simp only [Option.some.injEq, reduceCtorEq] at hex) <;> (try subst hex) <;>
        simp_all [droppedVals, buf, rvals, ovals, Sim.kindRes, Res.fits, Fam.childIsStream]
  panic := by
    intro s t i rest wk l hJ hel hl
    exact panic_ok lawful_chain hJ wk l hl (by simp [chain, droppedChildren])
      (by simp [chain, droppedVals, buf]) (by simp)
  finish := by
    intro s t hJ
    exact fin_ok hJ (by simp [buf]) (chain.finish s).s rfl (by simp) .none rfl
  drop := fun s t h => h.drop_range _ rfl rfl

theorem sim_waitF (m : Mode) :
    Sim waitUntilF m (Sim.kindRes .waitF) (Inv false 2) (J false 2) where
  fireEv := fun s t e he h => h.inert e (fire_inert e he)
  pre := by
    intro s t w o hpre h
    simp only [waitUntilF, Fix.misuseIfDead] at hpre
    split at hpre
    · cases hpre; exact h.pre w _ rfl
    · cases hpre
  start := by
    intro s t w hpre h
    exact ⟨by simp [waitUntilF, h.hn], by simpa [buf] using (h.start (dead_of_pre hpre) w).1,
      by simp⟩
  earlyPend := by
    intro s t l _ hor _
    simp [waitUntilF] at hor
  skip := fun s t i rest _ hJ => ⟨hJ.1, hJ.2.1, by simp⟩
  goOn := by
    intro s t i rest wk l r hJ hel hr hK hl hex
    refine go_ok lawful_waitUntilF hJ wk l r hl ?_ ?_ (by simp)
    · cases r <;> simp [waitUntilF, Fix.keep, droppedChildren] <;> split <;> simp [droppedChildren]
    · cases r <;> simp only [waitUntilF, Fix.keep] at hex ⊢ <;> (try split at hex) <;>
        (try simp only [Option.some.injEq, reduceCtorEq] at hex) <;> (try subst hex) <;>
        simp_all [droppedVals, buf, rvals, ovals, Sim.kindRes, Res.fits, Fam.childIsStream]
  goExit := by
    intro s t i rest wk l r o hJ hel hr hK hl hex
    refine exit_ok lawful_waitUntilF hJ wk l r o hl ?_ ?_ (by simp)
    · cases r <;> simp [waitUntilF, Fix.keep, droppedChildren] <;> split <;> simp [droppedChildren]
    · cases r <;> simp only [waitUntilF, Fix.keep] at hex ⊢ <;> (try split at hex) <;>
        (try simp only [Option.some.injEq, reduceCtorEq] at hex) <;> (try subst hex) <;>
        simp_all [droppedVals, buf, rvals, ovals, Sim.kindRes, Res.fits, Fam.childIsStream]
  panic := by
    intro s t i rest wk l hJ hel hl
    exact panic_ok lawful_waitUntilF hJ wk l hl (by simp [waitUntilF, droppedChildren])
      (by simp [waitUntilF, droppedVals, buf]) (by simp)
  finish := by
    intro s t hJ
    exact fin_ok hJ (by simp [buf]) _ rfl (by simp) _ rfl
  drop := fun s t h => h.drop_two _ rfl rfl

theorem sim_merge (n : Nat) (m : Mode) :
    Sim merge m (Sim.kindRes .merge) (Inv false n) (J false n) where
  fireEv := fun s t e he h => h.inert e (fire_inert e he)
  pre := by
    intro s t w o hpre h
    simp only [merge, Fix.misuseIfDead] at hpre
    split at hpre
    · cases hpre; exact h.pre w _ rfl
    · split at hpre
      · cases hpre; exact h.pre w _ rfl
      · cases hpre
  start := by
    intro s t w hpre h
    have hd : s.dead = false := by
      cases hdd : s.dead
      · rfl
      · simp only [merge, Fix.misuseIfDead, hdd, if_true] at hpre
        split at hpre <;> cases hpre
    exact ⟨by simp [merge, Fix.bump, h.hn], by simpa [buf] using (h.start hd w).1, by simp⟩
  earlyPend := by
    intro s t l _ _ hJ
    exact fin_ok hJ (by simp [buf]) s rfl (by simp) _ rfl
  skip := fun s t i rest _ hJ => ⟨hJ.1, hJ.2.1, by simp⟩
  goOn := by
    intro s t i rest wk l r hJ hel hr hK hl hex
    refine go_ok lawful_merge hJ wk l r hl ?_ ?_ (by simp)
    · cases r <;> simp [merge, Fix.keep, droppedChildren] <;> split <;> simp [droppedChildren]
    · cases r <;> simp only [merge, Fix.keep] at hex ⊢ <;> (try split at hex) <;>
        (try simp only [Option.some.injEq, reduceCtorEq] at hex) <;> (try subst hex) <;>
        simp_all [droppedVals, buf, rvals, ovals, Sim.kindRes, Res.fits, Fam.childIsStream]
  goExit := by
    intro s t i rest wk l r o hJ hel hr hK hl hex
    refine exit_ok lawful_merge hJ wk l r o hl ?_ ?_ (by simp)
    · cases r <;> simp [merge, Fix.keep, droppedChildren] <;> split <;> simp [droppedChildren]
    · cases r <;> simp only [merge, Fix.keep] at hex ⊢ <;> (try split at hex) <;>
        (try simp only [Option.some.injEq, reduceCtorEq] at hex) <;> (try subst hex) <;>
        simp_all [droppedVals, buf, rvals, ovals, Sim.kindRes, Res.fits, Fam.childIsStream]
  panic := by
    intro s t i rest wk l hJ hel hl
    exact panic_ok lawful_merge hJ wk l hl (by simp [merge, droppedChildren]) (by simp [merge, droppedVals, buf]) (by simp)
  finish := by
    intro s t hJ
    exact fin_ok hJ (by simp [buf]) _ rfl (by simp) _ rfl
  drop := fun s t h => h.drop_range _ rfl rfl

/-- what the loop invariant of wait_until over a stream says about the slot being visited -/
theorem shape_cons {n s t i rest} (hJ : J true n s t (i :: rest)) :
    (i = 0 ∧ rest = [1] ∧ s.out 0 = none) ∨ (i = 1 ∧ rest = []) := by
  rcases hJ.2.2 rfl with ⟨h, ho⟩ | h | ⟨h, _⟩
  · simp only [List.cons.injEq] at h
    exact Or.inl ⟨h.1, h.2, ho⟩
  · simp only [List.cons.injEq] at h
    exact Or.inr ⟨h.1, h.2⟩
  · cases h

theorem sim_waitS :
    Sim waitUntilS .direct (Sim.kindRes .waitS) (Inv true 2) (J true 2) where
  fireEv := fun s t e he h => h.inert e (fire_inert e he)
  pre := by
    intro s t w o hpre h
    simp only [waitUntilS, Fix.misuseIfDead] at hpre
    split at hpre
    · cases hpre; exact h.pre w _ rfl
    · cases hpre
  start := by
    intro s t w hpre h
    obtain ⟨hl, ho⟩ := h.start (dead_of_pre hpre) w
    have ho := ho rfl
    refine ⟨by simp [waitUntilS, h.hn], by simpa [buf, waitUntilS, ho] using hl, fun _ => ?_⟩
    simp only [waitUntilS, h.hn]
    by_cases hc : s.cnt = 0
    · left; simp [hc, ho]
    · right; left; simp [hc]
  earlyPend := by
    intro s t l hm
    cases hm
  skip := by
    intro s t i rest hm hJ
    exact absurd (hm rfl) (by simp [waitUntilS])
  goOn := by
    intro s t i rest wk l r hJ hel hr hK hl hex
    rcases shape_cons hJ with ⟨rfl, rfl, ho⟩ | ⟨rfl, rfl⟩
    · refine go_ok lawful_waitUntilS hJ wk l r hl ?_ ?_ (fun _ => Or.inr (Or.inl rfl))
      · cases r <;> simp [waitUntilS, Fix.bufEvs, ho, droppedChildren]
      · cases r <;> simp only [waitUntilS] at hex hK ⊢ <;>
          (try simp only [Option.some.injEq, reduceCtorEq] at hex) <;>
          simp_all [droppedVals, buf, rvals, ovals, Sim.kindRes, Res.fits, Fam.childIsStream,
            Fix.bufEvs, Fix.unbuf, Fix.kill]
    · exfalso
      cases r <;> simp_all [waitUntilS, Sim.kindRes, Res.fits, Fam.childIsStream]
  goExit := by
    intro s t i rest wk l r o hJ hel hr hK hl hex
    refine exit_ok lawful_waitUntilS hJ wk l r o hl ?_ ?_ ?_
    · cases r <;> simp [waitUntilS, Fix.bufEvs, droppedChildren] <;> split <;> simp [droppedChildren]
    · rcases shape_cons hJ with ⟨rfl, rfl, ho⟩ | ⟨rfl, rfl⟩
      · cases r <;> simp only [waitUntilS] at hex hK ⊢ <;>
          (try simp only [Option.some.injEq, reduceCtorEq] at hex) <;> (try subst hex) <;>
          simp_all [droppedVals, buf, rvals, ovals, Sim.kindRes, Res.fits, Fam.childIsStream,
            Fix.bufEvs, Fix.unbuf, Fix.kill]
      · cases hb : s.out 0 <;> cases r <;> simp only [waitUntilS] at hex hK ⊢ <;>
          (try simp only [Option.some.injEq, reduceCtorEq] at hex) <;> (try subst hex) <;>
          simp_all [droppedVals, buf, rvals, ovals, Sim.kindRes, Res.fits, Fam.childIsStream,
            Fix.bufEvs, Fix.unbuf, Fix.kill]
    · intro _
      rcases shape_cons hJ with ⟨rfl, rfl, ho⟩ | ⟨rfl, rfl⟩
      · cases r <;> simp_all [waitUntilS, Fix.unbuf, Fix.kill, Sim.kindRes, Res.fits, Fam.childIsStream]
      · cases r <;> simp_all [waitUntilS, Fix.unbuf, Fix.kill, Sim.kindRes, Res.fits, Fam.childIsStream]
  panic := by
    intro s t i rest wk l hJ hel hl
    refine panic_ok lawful_waitUntilS hJ wk l hl ?_ ?_ (by simp [waitUntilS, Fix.unbuf, Fix.kill])
    · simp only [waitUntilS, Fix.bufEvs]; split <;> simp [droppedChildren]
    · cases hb : s.out 0 <;> simp [waitUntilS, Fix.bufEvs, buf, hb, droppedVals]
  finish := by
    intro s t hJ
    have ho : s.out 0 = none := by
      rcases hJ.2.2 rfl with ⟨h, _⟩ | h | ⟨_, ho⟩
      · cases h
      · cases h
      · exact ho
    exact fin_ok hJ (by simp [buf, ho]) s rfl (fun _ => ho) .pending rfl
  drop := fun s t h => h.drop_two _ rfl rfl

/-- the initial state -/
theorem inv_init (ws : Bool) (n cnt : Nat) : Inv ws n (Fix.init n cnt) [] :=
  Inv.ofLive rfl ⟨rfl, rfl, fun v => by simp [returnedVals, droppedVals, producedVals]⟩ (fun _ => rfl)

theorem isDrop_eq (o : Op) : isDrop o = (match o with | .drop => true | _ => false) := by
  cases o <;> rfl

end C02b
end Fc
