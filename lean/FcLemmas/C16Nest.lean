/-
  FcLemmas/C16Nest.lean — selective polling (C16) for every instance of a nest.

  The flat C16 invariant `C16.EInv` (FcLemmas/C16.lean) does not mention the scripts and is
  preserved by `Eng.poll / fire / drop` for every lawful policy, so it is `Closed`
  (FcLemmas/C16NestProj.lean) and transfers to the outer instance and to every inner instance of a
  nest by the projection lemma `Nest.proj_foldl`.

  Also: the executable form of the nest property (`Nest.c16At`, `Nest.holdsC16Nest`).
-/
import FcLemmas.C16NestProj
import FcLemmas.C16
import FcLemmas.Lawful2
set_option linter.unusedSimpArgs false
set_option linter.unusedVariables false

namespace Fc
open Mon

/-- the families that keep a readiness set with one sub-waker per child (join, try_join, merge,
    zip — the fixed-children families of `Case.inC16`) -/
def Fam.tracksReady (f : Fam) : Bool := !f.passThrough && !f.isGroup

namespace Nest

/-- C16 of a nest at an operation boundary: the flat monitor on the own trace of every
    readiness-tracking instance (the outer one, and the inner one of every nested child) -/
def c16At (nc : NCase) (s : St) : Bool :=
  (!nc.outer.tracksReady || holds_C16 s.out.w.trace) &&
  (List.range nc.n).all (fun c =>
    match nc.inner c with
    | none => true
    | some (fam, _) => !fam.tracksReady || holds_C16 (s.inn c).w.trace)

/-- `c16At` at every operation boundary of the history -/
def holdsC16Nest (nc : NCase) : Bool :=
  (List.range (nc.ops.length + 1)).all (fun k =>
    c16At nc ((nc.ops.take k).foldl (step nc) (init nc)))

end Nest

namespace C16

theorem einv_scripts {P : Policy Fix} (e : Eng Fix) (f : Nat → List Step) (h : EInv P e) :
    EInv P { e with w := { e.w with scripts := f } } :=
  ⟨⟨h.k.mon, h.k.bit⟩, h.std, h.cap, h.r1⟩

theorem closed (P : Policy Fix) (L : Lawful P) : Closed P (EInv P) :=
  ⟨fun e w h => einv_poll L e w h, fun e c a h => einv_fire e c a h, fun e h => einv_drop L e h⟩

end C16

namespace Nest

/-- what is claimed of the outer instance -/
def QO16 (nc : NCase) (e : Eng Fix) : Prop :=
  nc.outer.tracksReady = true → C16.EInv nc.outer.policy e

/-- what is claimed of the inner instance in a slot with nesting entry `inn` -/
def QI16 : Option (Fam × Nat) → Eng Fix → Prop
  | none, _ => True
  | some (fam, _), e => fam.tracksReady = true → C16.EInv fam.policy e

theorem tracks_law (f : Fam) (h : f.tracksReady = true) : Lawful f.policy := by
  refine lawful_policy f ?_
  simp only [Fam.tracksReady, Bool.and_eq_true, Bool.not_eq_true'] at h
  exact h.2

theorem tracks_mode (f : Fam) (m : Mode) (h : f.tracksReady = true) : f.modeOf m = m := by
  simp only [Fam.tracksReady, Bool.and_eq_true, Bool.not_eq_true'] at h
  simp [Fam.modeOf, h.1]

theorem closed_o16 (nc : NCase) : Closed nc.outer.policy (QO16 nc) :=
  Closed.imp _ (fun h => C16.closed _ (tracks_law _ h))

theorem closed_i16 (nc : NCase) (c : Nat) : Closed (innerPolicy nc c) (QI16 (nc.inner c)) := by
  unfold innerPolicy
  cases nc.inner c with
  | none => exact Closed.triv _
  | some fk =>
    obtain ⟨fam, k⟩ := fk
    exact Closed.imp _ (fun h => C16.closed _ (tracks_law _ h))

theorem proj16_init (nc : NCase) (hm : nc.mode = .std) :
    Proj (QO16 nc) (fun c => QI16 (nc.inner c)) (init nc) := by
  refine ⟨?_, ?_⟩
  · intro ht
    exact C16.einv_init nc.outer nc.n _ nc.mode (by rw [tracks_mode _ _ ht]; exact hm)
  · intro c
    simp only [init, innerInit]
    cases nc.inner c with
    | none => trivial
    | some fk =>
      obtain ⟨fam, k⟩ := fk
      intro ht
      exact C16.einv_init fam k _ nc.mode (by rw [tracks_mode _ _ ht]; exact hm)

/-- the C16 invariant of every readiness-tracking instance, in every reachable state -/
theorem proj16_prefix (nc : NCase) (hm : nc.mode = .std) (k : Nat) :
    Proj (QO16 nc) (fun c => QI16 (nc.inner c))
      ((nc.ops.take k).foldl (step nc) (init nc)) :=
  proj_foldl (closed_o16 nc) (ScriptFree.imp _ (fun e f h => C16.einv_scripts e f h)) (closed_i16 nc)
    _ _ (proj16_init nc hm)

theorem c16At_of_proj {nc : NCase} {s : St}
    (h : Proj (QO16 nc) (fun c => QI16 (nc.inner c)) s) : c16At nc s = true := by
  unfold c16At
  simp only [Bool.and_eq_true, List.all_eq_true, List.mem_range]
  constructor
  · cases ht : nc.outer.tracksReady with
    | false => rfl
    | true => simpa using (h.o ht).k.mon
  · intro c _
    have hi := h.i c
    cases hin : nc.inner c with
    | none => rfl
    | some fk =>
      obtain ⟨fam, k⟩ := fk
      rw [hin] at hi
      simp only
      cases ht : fam.tracksReady with
      | false => rfl
      | true => simpa using (hi ht).k.mon

end Nest
end Fc
