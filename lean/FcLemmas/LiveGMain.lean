/-
  FcLemmas/LiveGMain.lean — liveness of FutureGroup / StreamGroup under the wake-only executor:
  the run invariant transported along the script restriction of `FcLemmas/LiveGRestr.lean`, and the
  result for every building history.
-/
import FcLemmas.LiveGRestr
set_option linter.unusedSimpArgs false
set_option linter.unusedVariables false

namespace Fc
namespace LiveG
open Mon Live Live3 G Grp C01

variable {stream keyed : Bool} {m : Mode} {n : Nat} {ids : List Nat}

/-- the run invariant: `LG` for the state with the scripts of foreign ids emptied, and only ids of
    `ids` were ever inserted -/
def LR (stream keyed : Bool) (m : Mode) (n : Nat) (ids : List Nat) (e : Eng Grp) : Prop :=
  LG stream keyed m n (rE ids e) ∧ ∀ c, keyOf e.w.trace c ≠ none → c ∈ ids

theorem lr_members (e : Eng Grp) (h : LR stream keyed m n ids e) :
    ∀ k c, e.s.member k = some c → c ∈ ids := by
  intro k c hk
  have hcb := lg_cb _ h.1
  have := hcb.link.f1 k c hk
  exact h.2 c (by rw [show keyOf e.w.trace c = some k from this]; simp)

theorem lr_memIn (e : Eng Grp) (h : LR stream keyed m n ids e) : MemIn ids e.s := by
  intro j hj
  have hcb := lg_cb _ h.1
  obtain ⟨c, hc⟩ := member_of_elig hcb.slab j hj
  exact ⟨c, lr_members e h j c hc, hc⟩

theorem find_congr {α : Type} (p q : α → Bool) : ∀ (l : List α), (∀ x ∈ l, p x = q x) →
    l.find? p = l.find? q := by
  intro l
  induction l with
  | nil => intro _; rfl
  | cons x xs ih =>
    intro h
    simp only [List.find?_cons, h x (List.mem_cons_self ..),
      ih (fun y hy => h y (List.mem_cons_of_mem _ hy))]

theorem firstWaiting_rE (e : Eng Grp) (H : ∀ k c, e.s.member k = some c → c ∈ ids) :
    ExecG.firstWaiting (rE ids e) = ExecG.firstWaiting e := by
  unfold ExecG.firstWaiting
  apply find_congr
  intro c hc
  simp only [rE_s, List.mem_filterMap] at hc
  obtain ⟨k, _, hk⟩ := hc
  simp only [rE_w, rW_trace, rW_scripts_mem e.w c (H k c hk)]

theorem stepsLeft_rE (e : Eng Grp) (H : ∀ k c, e.s.member k = some c → c ∈ ids) :
    ExecG.stepsLeft (rE ids e) = ExecG.stepsLeft e := by
  unfold ExecG.stepsLeft
  congr 1
  apply List.map_congr_left
  intro c hc
  simp only [rE_s, List.mem_filterMap] at hc
  obtain ⟨k, _, hk⟩ := hc
  simp only [rE_w, rW_scripts_mem e.w c (H k c hk)]

/-- the instance of the abstract argument for arbitrary scripts of the foreign ids -/
theorem prog_lr : ProgG (LR stream keyed m n ids) (fun e => mu n (rE ids e)) (fun e => Owed (rE ids e)) where
  lo := fun e h => h.1.lo
  poll := by
    intro e wid h
    have hp := lg_poll (rE ids e) wid h.1
    rw [rE_poll e wid (lr_memIn e h)] at hp
    rcases hp with hp | ⟨h1, h2, h3⟩
    · exact Or.inl hp
    · exact Or.inr ⟨⟨h1, fun c hc => h.2 c (by rwa [keyOf_poll] at hc)⟩, h2, h3⟩
  fire := by
    intro e h hlo hw
    obtain ⟨c, hfw, h1, h2, h3, h4, h5⟩ := (prog_lg (stream := stream) (keyed := keyed) (m := m)
      (n := n)).fire (rE ids e) h.1 hlo hw
    rw [rE_fire] at h1 h2 h4 h5
    rw [firstWaiting_rE e (lr_members e h)] at hfw
    exact ⟨c, hfw, ⟨h1, fun j hj => h.2 j (by simpa [keyOf_fire] using hj)⟩, h2, h3, h4, h5⟩

theorem le_sum_of_mem : ∀ (l : List Nat) (c : Nat), c ∈ l → c ≤ l.sum := by
  intro l
  induction l with
  | nil => intro c hc; cases hc
  | cons x xs ih =>
    intro c hc
    simp only [List.sum_cons]
    rcases List.mem_cons.mp hc with rfl | hc
    · omega
    · have := ih c hc; omega

theorem wb_nil (stream : Bool) : wbScript stream [] = false := by
  cases stream <;> rfl

/-- the group built by `pre` ends within `3 * stepsLeft + 1` rounds -/
theorem group_ends (stream keyed : Bool) (m : Mode) (scripts : Nat → List Step) (pre : List Op)
    (hpre : ∀ op ∈ pre, op.isInsertLike = true)
    (hfresh : (pre.flatMap insertedIds).Nodup)
    (hs : ∀ c ∈ pre.flatMap insertedIds, wbScript stream (scripts c) = true) :
    ∃ k, k ≤ 3 * ExecG.stepsLeft (pre.foldl GEng.step (GEng.init stream keyed m scripts)) + 1 ∧
      lastOut (ExecG.runFor k (pre.foldl GEng.step (GEng.init stream keyed m scripts))).w.trace
        = some .none := by
  let ids := pre.flatMap insertedIds
  let n := ids.sum + 1
  let sc' := restrS ids scripts
  have hsc' : ∀ c, c ∈ ids → sc' c = scripts c := fun c hc => by simp [sc', restrS, hc]
  have hk' : ∀ c st, st ∈ sc' c → st.res.fits stream = true := by
    intro c st hst
    by_cases hc : c ∈ ids
    · rw [hsc' c hc] at hst
      exact wb_fits _ (hs c hc) st hst
    · simp [sc', restrS, hc] at hst
  have hb0 : B0 stream keyed m n sc' (pre.foldl GEng.step (GEng.init stream keyed m sc')) :=
    b0_run pre _ (b0_init stream keyed m n sc' hk') hpre hfresh (fun c hc =>
      ⟨by have := le_sum_of_mem ids c hc; omega, by rw [hsc' c hc]; exact hs c hc, rfl⟩)
  have heq : rE ids (pre.foldl GEng.step (GEng.init stream keyed m scripts))
      = pre.foldl GEng.step (GEng.init stream keyed m sc') := by
    rw [← rE_run pre _ hpre, rE_init]
  rw [← heq] at hb0
  have hlg := lg_of_b0 _ hb0
  have hids : ∀ c, keyOf (pre.foldl GEng.step (GEng.init stream keyed m scripts)).w.trace c ≠ none →
      c ∈ ids := by
    intro c hc
    have := (hb0.bnd c hc).2
    by_cases hci : c ∈ ids
    · exact hci
    · have hnil : sc' c = [] := by simp [sc', restrS, hci]
      rw [hnil, wb_nil] at this; exact Bool.noConfusion this
  have hlr : LR stream keyed m n ids (pre.foldl GEng.step (GEng.init stream keyed m scripts)) :=
    ⟨hlg, hids⟩
  have hlo : lastOut (pre.foldl GEng.step (GEng.init stream keyed m scripts)).w.trace = none :=
    (noev_obs _ hb0.noev).1
  have hsp : Exec.shouldPoll (pre.foldl GEng.step (GEng.init stream keyed m scripts)).w.trace = true := by
    unfold Exec.shouldPoll; rw [hlo]
  obtain ⟨k, hk, hv⟩ := ends_of_prog prog_lr _ hlr hsp
  refine ⟨k, ?_, hv⟩
  have hM : mu n (rE ids (pre.foldl GEng.step (GEng.init stream keyed m scripts)))
      = ExecG.stepsLeft (pre.foldl GEng.step (GEng.init stream keyed m scripts)) := by
    rw [← hb0.sl, stepsLeft_rE _ (lr_members _ hlr)]
  simp only [hM] at hk
  exact hk

end LiveG
end Fc
