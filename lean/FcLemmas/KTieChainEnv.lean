/-
  Kernel tie, `Vec<S>::chain()` — environment and model side:
    * `Rs.pollStream` with chain's dummy wake function and the caller's own waker = `World.pollChild c c` in direct mode
      (on top of `TieDirect.pollChild_tie`);
    * `Eng.visit chain` / `Eng.poll chain` / `Eng.close chain` unfolded for the direct strategy.
-/
import FcLemmas.KTieFamEnv
import FcLemmas.KTieSteps
import FcProps.KTieCore
import Fc.Families

set_option linter.unusedSimpArgs false
set_option linter.unusedVariables false

namespace Fc
open Rs

namespace TieChainEnv
open TieDirect

/-! ### `Stream::poll_next` on a scripted stream, caller's waker handed down -/

theorem ch_pollStream_pend (env : World) (c p : Nat) (hm : env.mode = .direct) (hp : env.parent = some p)
    (hr : env.resOf c = .pend) :
    Rs.pollStream dummy () env c (.par p) = some ((), env.pollChild c c, .pending) := by
  simp [Rs.pollStream, pollChild_tie env c p hm hp, hr]

theorem ch_pollStream_item (env : World) (c p v : Nat) (hm : env.mode = .direct) (hp : env.parent = some p)
    (hr : env.resOf c = .item v) :
    Rs.pollStream dummy () env c (.par p) = some ((), env.pollChild c c, .ready (some v)) := by
  simp [Rs.pollStream, pollChild_tie env c p hm hp, hr]

theorem ch_pollStream_fin (env : World) (c p : Nat) (hm : env.mode = .direct) (hp : env.parent = some p)
    (hr : env.resOf c = .fin) :
    Rs.pollStream dummy () env c (.par p) = some ((), env.pollChild c c, .ready none) := by
  simp [Rs.pollStream, pollChild_tie env c p hm hp, hr]

theorem ch_streamSteps_pollChild (w : World) (h : StreamStepsF w) (c s : Nat) : StreamStepsF (w.pollChild c s) :=
  StreamStepsF.tail h c (pollChild_scripts w c s)

/-! ### the model's `visit` for chain, direct strategy -/

theorem ch_visit_pend (e : Eng Fix) (i : Nat) (hm : e.w.mode = .direct) (hr : e.w.resOf i = .pend) :
    Eng.visit chain e i = ({ e with w := e.w.pollChild i i }, some .pending) := by
  simp [Eng.visit, chain, Eng.gateGo, Eng.gateW, World.isSet, World.clearReady, hm, hr, Eng.applyH,
    emits_nil, World.kop]

theorem ch_visit_item (e : Eng Fix) (i v : Nat) (hm : e.w.mode = .direct) (hr : e.w.resOf i = .item v) :
    Eng.visit chain e i = ({ e with w := e.w.pollChild i i }, some (.some 0 [v])) := by
  simp [Eng.visit, chain, Eng.gateGo, Eng.gateW, World.isSet, World.clearReady, hm, hr, Eng.applyH,
    emits_nil, World.kop]

theorem ch_visit_fin (e : Eng Fix) (i : Nat) (hm : e.w.mode = .direct) (hr : e.w.resOf i = .fin) :
    Eng.visit chain e i = ({ w := e.w.pollChild i i, s := { e.s with cnt := e.s.cnt + 1 } }, none) := by
  simp [Eng.visit, chain, Eng.gateGo, Eng.gateW, World.isSet, World.clearReady, hm, hr, Eng.applyH,
    emits_nil, World.kop]

/-- `Eng.poll chain` on a live combinator: scan the inputs from the current one on, close -/
theorem ch_poll_live (e : Eng Fix) (w : Nat) (hd : e.s.dead = false) :
    Eng.poll chain e w =
      Eng.close chain (Eng.scan chain (List.range' e.s.cnt (e.s.n - e.s.cnt))
        { w := (e.w.emit (.pollBegin w)).setWaker w, s := e.s }) := by
  simp [Eng.poll, Eng.body, chain, Fix.misuseIfDead, hd]

theorem ch_close_some (r : Eng Fix) (o : Outcome) :
    Eng.close chain (r, some o) = r.emit (.pollEnd o) := rfl

/-- every input is exhausted: the chain is done and answers `None` -/
theorem ch_close_none (r : Eng Fix) :
    Eng.close chain (r, none) = { w := r.w.emit (.pollEnd .none), s := r.s.kill } := by
  simp [Eng.close, chain, Eng.applyH, emits_nil, World.kop, Eng.emit]

end TieChainEnv

end Fc
