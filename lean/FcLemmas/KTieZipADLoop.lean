/-
  FcLemmas/KTieZipADLoop.lean — array zip (`[S; N]::zip()`), no_std / alloc-only flavour (FcGen/KSrcArr4D.lean), ported
  from FcLemmas/KTieZipALoop.lean (no flag table, hence no `Wf` of the readiness set): the relation between a
  translated `Zip` + environment and a model state that the loop of `poll_next` maintains (`zad_Rel`), what one iteration
  of the loop body has to do (`zad_StepSpec`: it is one `Eng.visit zip`), and the loop (`Rs.forCtl` over the slots =
  `Eng.scan zip`).  The model-side lemmas (`TieZipV.zp_*` of FcLemmas/KTieZipModel.lean) do not mention a container
  and are imported, not copied.
-/
import FcProps.KTieZipDir
import FcLemmas.KTieZipADEnv
import FcLemmas.KTieZipModel

set_option linter.unusedSimpArgs false
set_option linter.unusedVariables false

namespace Fc
open Rs Src

namespace TieZipAD
open ZipAD

/-- the translated combinator `g` with the environment `env` is read as the model state `e`
    (`k`, `o`: the two fields of the model state a zip does not use; `b0`: the fields of the environment nobody touches) -/
structure zad_Rel (n k o : Nat) (b0 : World) (e : Eng Fix) (g : Zip) (env : World) : Prop where
  ew : e.w = TieDir.absA g.roleWakers.readiness env
  en : e.s.n = n
  kids : g.roleKids.len = n
  st : e.s.st = fun i => TiePS.abs (g.roleStates.get i)
  out : e.s.out = g.roleItems.get
  cnt : e.s.cnt = k
  off : e.s.off = o
  dead : e.s.dead = g.roleDone
  sl : g.roleStates.len = n
  ic : g.roleItems.cap = n
  par : g.roleWakers.readiness.roleParent ≠ none
  hin : HandedIn n env
  fr : zad_Frame env b0
  sok : StreamStepsF env
  rs : ∀ i, i < n → ((g.roleStates.get i = PS.PollState.pending ∧ g.roleItems.get i = none) ∨
        (g.roleStates.get i = PS.PollState.ready ∧ ∃ v, g.roleItems.get i = some v))

abbrev zad_Body := Zip × World → Nat → Option ((Zip × World) × Rs.Ctl (Rs.Poll (Option (List Nat))))

/-- one iteration of the loop body is one `Eng.visit zip` -/
def zad_StepSpec (n k o : Nat) (b0 : World) (F : zad_Body) : Prop :=
  ∀ (e : Eng Fix) (g : Zip) (env : World) (i : Nat), zad_Rel n k o b0 e g env → i < n →
    ∃ g' env' c, F (g, env) i = some ((g', env'), c) ∧ zad_Rel n k o b0 (Eng.visit zip e i).1 g' env' ∧
      ((c = .next ∧ (Eng.visit zip e i).2 = none) ∨
       (∃ v, c = .ret v ∧ (Eng.visit zip e i).2 = some (outcomeOfZip v)))

/-- the loop over a list of slots is `Eng.scan zip` -/
theorem zad_loop_tie (n k o : Nat) (b0 : World) (F : zad_Body) (hF : zad_StepSpec n k o b0 F) (l : List Nat) :
    ∀ (e : Eng Fix) (g : Zip) (env : World), zad_Rel n k o b0 e g env → (∀ i ∈ l, i < n) →
    ∃ g' env' r, Rs.forCtl l (g, env) F = some ((g', env'), r) ∧ zad_Rel n k o b0 (Eng.scan zip l e).1 g' env' ∧
      ((r = none ∧ (Eng.scan zip l e).2 = none) ∨
       (∃ v, r = some v ∧ (Eng.scan zip l e).2 = some (outcomeOfZip v))) := by
  induction l with
  | nil =>
    intro e g env hR _
    exact ⟨g, env, none, rfl, hR, Or.inl ⟨rfl, rfl⟩⟩
  | cons i l ih =>
    intro e g env hR hl
    obtain ⟨g1, env1, c, h1, hR1, hcase⟩ := hF e g env i hR (hl i (List.mem_cons_self ..))
    rcases hcase with ⟨rfl, hv⟩ | ⟨v, rfl, hv⟩
    · obtain ⟨g2, env2, r, h2, hR2, hcase2⟩ := ih (Eng.visit zip e i).1 g1 env1 hR1
        (fun j hj => hl j (List.mem_cons_of_mem _ hj))
      refine ⟨g2, env2, r, ?_, ?_, ?_⟩
      · simp only [Rs.forCtl, h1, h2]
      · simp only [Eng.scan, hv]; exact hR2
      · simp only [Eng.scan, hv]; exact hcase2
    · refine ⟨g1, env1, some v, ?_, ?_, Or.inr ⟨v, rfl, ?_⟩⟩
      · simp only [Rs.forCtl, h1]
      · simp only [Eng.scan, hv]; exact hR1
      · simp only [Eng.scan, hv]

/-- the loop followed by the code after it (`K`): it is enough to run `K` on what `Eng.scan zip` describes -/
theorem zad_loop_bind (n k o : Nat) (b0 : World) (F : zad_Body) (hF : zad_StepSpec n k o b0 F) (l : List Nat) (e : Eng Fix) (g : Zip) (env : World)
    (hR : zad_Rel n k o b0 e g env) (hl : ∀ i ∈ l, i < n)
    (K : (Zip × World) × Option (Rs.Poll (Option (List Nat))) → Option (Zip × World × Rs.Poll (Option (List Nat))))
    (Ψ : Zip → World → Rs.Poll (Option (List Nat)) → Prop)
    (hK : ∀ g' env' r, zad_Rel n k o b0 (Eng.scan zip l e).1 g' env' →
      ((r = none ∧ (Eng.scan zip l e).2 = none) ∨
       (∃ v, r = some v ∧ (Eng.scan zip l e).2 = some (outcomeOfZip v))) →
      ∃ a b c, K ((g', env'), r) = some (a, b, c) ∧ Ψ a b c) :
    ∃ a b c, (Rs.forCtl l (g, env) F).bind K = some (a, b, c) ∧ Ψ a b c := by
  obtain ⟨g', env', r, h1, hR', hcase⟩ := zad_loop_tie n k o b0 F hF l e g env hR hl
  rw [h1, Option.bind_some]
  exact hK g' env' r hR' hcase

end TieZipAD
end Fc
