/-
  FcLemmas/KTieRaceOkTModel.lean — `(A, B, …).race_ok()` (tuple): the model side (`Eng.visit (raceOk true false)` in the cases
  the translated loop body distinguishes, `Eng.poll` / `Eng.close` unfolded for the direct strategy and the ROTATING order),
  the loop invariant `Inv` and the exit relation `Fin` of the translated `for` loop.  The list facts about counting the
  `Ready` slots and `rk_abs_ready` are container-independent and imported from FcLemmas/KTieRaceOkAModel.lean
  (`TieRaceOkA.rk_count_set`, `rk_filter_full`, `rk_abs_ready`).
-/
import FcProps.KTieRaceOkTup
import FcLemmas.KTieFamEnv
import FcLemmas.KTieFamLoop
import FcLemmas.KTieListFacts
import FcLemmas.KTieRaceOkAModel

set_option linter.unusedSimpArgs false
set_option linter.unusedVariables false

namespace Fc
open Rs Src

namespace TieRaceOkT
open RaceOkT TieDirect TieLoop

abbrev P : Policy Fix := raceOk true false

/-! ### the model's `visit` for race_ok (tuple), direct strategy -/

theorem rt_visit_skip (e : Eng Fix) (i : Nat) (h : e.s.st i = .ready) :
    Eng.visit P e i = (e, none) := by
  simp [Eng.visit, raceOk, Eng.gateGo, Eng.gateW, h]

theorem rt_visit_pend (e : Eng Fix) (i : Nat) (hm : e.w.mode = .direct) (h : e.s.st i ≠ .ready)
    (hr : e.w.resOf i = .pend) :
    Eng.visit P e i = ({ e with w := e.w.pollChild i i }, none) := by
  simp [Eng.visit, raceOk, Eng.gateGo, Eng.gateW, World.isSet, World.clearReady, hm, hr, h, Eng.applyH, Fix.keep,
    emits_nil, World.kop]

theorem rt_visit_ok (e : Eng Fix) (i v : Nat) (hm : e.w.mode = .direct) (h : e.s.st i ≠ .ready)
    (hr : e.w.resOf i = .ready true v) :
    Eng.visit P e i = ({ w := e.w.pollChild i i, s := { e.s with dead := true } }, some (.ready true [v])) := by
  simp [Eng.visit, raceOk, Eng.gateGo, Eng.gateW, World.isSet, World.clearReady, hm, hr, h, Eng.applyH,
    emits_nil, World.kop]

theorem rt_visit_err (e : Eng Fix) (i v : Nat) (hm : e.w.mode = .direct) (h : e.s.st i ≠ .ready)
    (hr : e.w.resOf i = .ready false v) :
    Eng.visit P e i =
      ({ w := e.w.pollChild i i,
         s := { e.s with st := upd e.s.st i .ready, out := upd e.s.out i (some v), cnt := e.s.cnt + 1 } }, none) := by
  simp [Eng.visit, raceOk, Eng.gateGo, Eng.gateW, World.isSet, World.clearReady, hm, hr, h, Eng.applyH,
    emits_nil, World.kop]

/-- `Eng.poll` on a live race_ok: bump the offset, scan the slots in the rotated order, close -/
theorem rt_poll_live (e : Eng Fix) (w : Nat) (hd : e.s.dead = false) :
    Eng.poll P e w =
      Eng.close P (Eng.scan P e.s.rot { w := (e.w.emit (.pollBegin w)).setWaker w, s := e.s.bump }) := by
  simp [Eng.poll, Eng.body, raceOk, Fix.misuseIfDead, hd]

theorem rt_close_some (r : Eng Fix) (o : Outcome) :
    Eng.close P (r, some o) = r.emit (.pollEnd o) := rfl

theorem rt_close_pending (r : Eng Fix) (h : r.s.cnt ≠ r.s.n) :
    Eng.close P (r, none) = r.emit (.pollEnd .pending) := by
  simp [Eng.close, raceOk, Eng.applyH, emits_nil, World.kop, Eng.emit, h]

theorem rt_close_done (r : Eng Fix) (h : r.s.cnt = r.s.n) :
    Eng.close P (r, none) =
      ({ w := r.w, s := { r.s with dead := true, st := fun _ => .none } } : Eng Fix).emit
        (.pollEnd (.ready false r.s.outs)) := by
  simp [Eng.close, raceOk, Eng.applyH, emits_nil, World.kop, Eng.emit, h]

/-! ### the loop invariant: the carried `(self, env)` is the model state -/

abbrev Ret := Rs.Poll (Rs.ResultE Nat (List Nat))

/-- between iterations: same world; the model's tables are the abstraction of the crate's; the bookkeeping is intact;
    the offset is the one `Indexer::iter` left, `done` is still false -/
def Inv (N off cx : Nat) (s : RaceOk × World) (e : Eng Fix) : Prop :=
  e.w = s.2 ∧ e.s.n = N ∧ e.s.st = (fun i => TiePS.abs (s.1.roleStates.get i)) ∧ e.s.out = s.1.roleItems.get ∧
  e.s.cnt = s.1.roleCount ∧ e.s.dead = false ∧ e.s.off = off ∧ WfK N s.1 ∧
  s.1.roleIndexer.roleOffset = off ∧ s.1.roleDone = false ∧
  s.2.mode = .direct ∧ s.2.parent = some cx ∧ FutSteps s.2

/-- after the iteration that returned `Ok`: the tables are untouched and still have `N` entries, the counter is the model's
    plus one (`completed` also counts the winner, so `WfK.pc` no longer holds), the model is `dead`, `done` is set -/
def Fin (N off : Nat) (v : Ret) (s : RaceOk × World) (e : Eng Fix) : Prop :=
  (∃ ok, v = .ready (.ok ok)) ∧
  e.w = s.2 ∧ e.s.n = N ∧ e.s.st = (fun i => TiePS.abs (s.1.roleStates.get i)) ∧ e.s.out = s.1.roleItems.get ∧
  e.s.cnt + 1 = s.1.roleCount ∧ e.s.dead = true ∧ e.s.off = off ∧
  s.1.roleKids.len = N ∧ s.1.roleStates.len = N ∧ s.1.roleItems.cap = N ∧ s.1.roleIndexer.roleMax = N ∧
  s.1.roleIndexer.roleOffset = off ∧ s.1.roleDone = true ∧ FutSteps s.2

end TieRaceOkT
end Fc
