/-
  FcLemmas/C15Obs.lean — how the observations of Fc/CoMon.lean (`calls`, `futOf`, `resultOf`,
  `stageDone`, `takenItems`, `srcEnded`) see one more event, and the list facts used for the
  permutation clause of C15.
-/
import Fc.CoMon

set_option linter.unusedSimpArgs false
set_option linter.unusedVariables false

namespace Fc
namespace CoC15
open Co

/-- `ev` is not a call of closure `st` for item `j` -/
def NoCallAt (ev : CoEv) (st j : Nat) : Prop :=
  ∀ s' j' idx k, ev = .call s' j' idx k → ¬ (s' = st ∧ j' = j)

/-- `ev` is not a closure call for item `j` -/
def NoCall (ev : CoEv) (j : Nat) : Prop :=
  ∀ s' j' idx k, ev = .call s' j' idx k → j' ≠ j

theorem NoCall.at {ev : CoEv} {j : Nat} (h : NoCall ev j) (st : Nat) : NoCallAt ev st j :=
  fun s' j' idx k e hh => h s' j' idx k e hh.2

theorem noCall_of_notCall {ev : CoEv} (h : ∀ s' j' idx k, ev ≠ .call s' j' idx k) (j : Nat) :
    NoCall ev j := fun s' j' idx k e => absurd e (h s' j' idx k)

theorem calls_cons {ev : CoEv} {t : List CoEv} {st j : Nat} (h : NoCallAt ev st j) :
    calls (ev :: t) st j = calls t st j := by
  cases ev with
  | call s' j' idx k =>
    have := h s' j' idx k rfl
    simp [calls, this]
  | _ => simp [calls]

theorem futOf_cons {ev : CoEv} {t : List CoEv} {st j : Nat} (h : NoCallAt ev st j) :
    futOf (ev :: t) st j = futOf t st j := by
  cases ev with
  | call s' j' idx k =>
    have := h s' j' idx k rfl
    simp [futOf, this]
  | _ => simp [futOf]

theorem resultOf_mono (ev : CoEv) (t : List CoEv) (k : Nat)
    (h : (resultOf t k).isSome = true) : (resultOf (ev :: t) k).isSome = true := by
  cases ev with
  | work k' r =>
    cases r with
    | ready ok v =>
      simp only [resultOf]
      split <;> simp_all
    | _ => simpa [resultOf] using h
  | _ => simpa [resultOf] using h

theorem stageDone_cons {ev : CoEv} {t : List CoEv} {st j : Nat} (h : NoCallAt ev st j)
    (hd : stageDone t st j = true) : stageDone (ev :: t) st j = true := by
  unfold stageDone at hd ⊢
  rw [calls_cons h, futOf_cons h]
  cases hf : futOf t st j with
  | none => simp [hf] at hd
  | some k =>
    simp only [hf, Bool.and_eq_true] at hd ⊢
    exact ⟨hd.1, resultOf_mono ev t k hd.2⟩

theorem takenItems_cons {ev : CoEv} {t : List CoEv} (h : ∀ v, ev ≠ .src (.item v)) :
    takenItems (ev :: t) = takenItems t := by
  cases ev with
  | src r =>
    cases r with
    | item v => exact absurd rfl (h v)
    | _ => simp [takenItems]
  | _ => simp [takenItems]

theorem srcEnded_cons (ev : CoEv) {t : List CoEv} (h : srcEnded t = true) :
    srcEnded (ev :: t) = true := by
  cases ev with
  | src r => cases r <;> simp [srcEnded, h]
  | _ => simpa [srcEnded] using h

/-! ### lists -/

theorem inj_of_pairwise {l : List Member} (h : l.Pairwise (fun a b => a.j ≠ b.j)) {a b : Member}
    (ha : a ∈ l) (hb : b ∈ l) (e : a.j = b.j) : a = b := by
  induction l with
  | nil => cases ha
  | cons x l ih =>
    rw [List.pairwise_cons] at h
    rcases List.mem_cons.1 ha with ha' | ha' <;> rcases List.mem_cons.1 hb with hb' | hb'
    · rw [ha', hb']
    · subst ha'; exact absurd e (h.1 b hb')
    · subst hb'; exact absurd e.symm (h.1 a ha')
    · exact ih h.2 ha' hb'

/-- a duplicate-free list of positions covering exactly `0 .. n-1`, decorated by `g`, is a
    permutation of the decorated range -/
theorem perm_range_of_cover {g : Nat → List Nat} (O : List (Nat × List Nat)) (n : Nat)
    (hnd : O.Pairwise (fun a b => a.1 ≠ b.1))
    (hsh : ∀ p ∈ O, p.2 = g p.1 ∧ p.1 < n)
    (hcov : ∀ j, j < n → ∃ p ∈ O, p.1 = j) :
    O.Perm ((List.range n).map (fun j => (j, g j))) := by
  have e : O = (O.map Prod.fst).map (fun j => (j, g j)) := by
    rw [List.map_map]
    conv => lhs; rw [← List.map_id O]
    apply List.map_congr_left
    intro p hp
    have := (hsh p hp).1
    cases p with
    | mk a b => simp at this ⊢; exact this
  rw [e]
  apply List.Perm.map
  have nd : (O.map Prod.fst).Nodup := by
    rw [List.nodup_iff_pairwise_ne, List.pairwise_map]
    exact hnd
  rw [List.perm_ext_iff_of_nodup nd List.nodup_range]
  intro a
  rw [List.mem_range, List.mem_map]
  constructor
  · rintro ⟨p, hp, rfl⟩
    exact (hsh p hp).2
  · intro ha
    obtain ⟨p, hp, e⟩ := hcov a ha
    exact ⟨p, hp, e⟩

end CoC15
end Fc
