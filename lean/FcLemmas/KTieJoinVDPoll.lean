/-
  FcLemmas/KTieJoinVDPoll.lean — Vec join, no_std / alloc-only flavour: the translated `Join::poll`
  (FcGen/KSrcFam2D.lean) refines `Eng.poll joinSlice` in `direct` mode.
  Same structure as the std proof (FcLemmas/KTieJoinPoll.lean), without the flag table: `any_ready` and `clear_ready`
  answer `true`, so the early return is never taken and every child whose state is `Pending` is polled, with the stored
  parent waker (`WakerVecD::get`).  The model side of the code around the loop and of one iteration is that of the std
  proof (`TieJoinV.poll_loopJ`, `close_pendJ`, `close_doneJ`, `visit_*J`); the proofs use the role abbreviations only.
-/
import FcLemmas.KTieJoinVDDefs
import FcLemmas.KTieJoinPoll

set_option linter.unusedSimpArgs false
set_option linter.unusedVariables false

namespace Fc
open Rs Src

namespace TieJoinVD
open JoinVD

local macro "unroles" : tactic =>
  `(tactic| try simp only [Join.roleKids, Join.roleCount, Join.roleWakers, Join.roleStates,
      Join.roleDone, Join.roleItems] at *)

/-- `WakerVecD::get` hands out the stored parent waker -/
theorem get_parD (wv : WakerVecD) (i p : Nat) (hp : wv.readiness.roleParent = some p) :
    WakerVecD.get wv i = some (Wk.par p) := by
  have h := (TieDir.vec_tie wv.readiness (World.init .direct 0 (fun _ => [])) 0 0 0).2.2.2.2.2.2.2.2.2.1
  have hpar : (TieDir.absV wv.readiness (World.init .direct 0 (fun _ => []))).parent = wv.readiness.roleParent := rfl
  rw [hpar, hp] at h
  simp only [WakerVecD.get, h, Option.bind_eq_bind, Option.bind_some, Option.map_some]

/-- the model side of the completion: the scan ended in a state that `g'` reads with no child pending -/
theorem post_doneJ {n : Nat} {S : Eng Fix × Option Outcome} {g' : Join} {env' : World} (b : Eng Fix)
    (hR : RelJ n b.s.off b.w S.1 g' env') (hx : S.2 = none) (hz : g'.roleCount = 0) :
    ∃ X : Eng Fix,
      Eng.close joinSlice S = X.emit (.pollEnd (.ready true
        ((List.range g'.roleItems.cap).map (fun i => (g'.roleItems.get i).getD 0)))) ∧
      X.w = TieDir.absV g'.roleWakers.readiness env' ∧
      ∀ g'' : Join, g''.roleWakers = g'.roleWakers → g''.roleKids = g'.roleKids → g''.roleCount = g'.roleCount →
        g''.roleDone = true → (∀ i, g''.roleItems.get i = none) →
        (∀ i, i < n → g''.roleStates.get i = PS.PollState.none_) → TieJoinV.doneAgree (absJ g'' b) X := by
  obtain ⟨hw, hen, hk, hst, hout, hcnt, hoff, hdead', hdone, hsl', hic', hpc', hrs', hpar, hhin, hsok, hfr⟩ := hR
  refine ⟨{ w := S.1.w, s := { S.1.s with dead := true, st := fun _ => .none } }, ?_, hw, ?_⟩
  · rw [TieJoinV.close_doneJ S hx (by rw [hcnt]; exact hz)]
    simp only [Fix.outs, hen, hout, hic']
  · intro g'' h1 h2 h3 h4 h5 h6
    refine ⟨?_, ?_, h4, rfl, h5⟩
    · obtain ⟨f1, f2, f3⟩ := hfr
      simp only [fcore, absJ, hw, hen, hcnt, hoff, h1, h2, h3, hk, TieDir.absV, f1, f2, f3]
    · intro i hi
      simp only [absJ]
      rw [h6 i (by rw [← hen]; exact hi)]
      rfl

/-- what is shown of a call that returned `a = (g', env', ret)` -/
def PostJ (g : Join) (b : Eng Fix) (w : Nat) (a : Join × World × Rs.Poll (List Nat)) : Prop :=
  ∃ X : Eng Fix, Eng.poll joinSlice (absJ g b) w = X.emit (.pollEnd (outcomeOfJoin a.2.2)) ∧
    X.w = TieDir.absV a.1.roleWakers.readiness a.2.1 ∧
    (a.2.2 = .pending → RelJ g.roleKids.len b.s.off b.w X a.1 a.2.1) ∧
    (a.2.2 ≠ .pending → TieJoinV.doneAgree (absJ a.1 b) X ∧ a.1.roleKids.len = g.roleKids.len ∧
      HandedInD g.roleKids.len a.2.1 ∧ FutStepsF a.2.1)

/-- one iteration of the translated loop body is one `Eng.visit joinSlice` -/
theorem poll_coreJ (g : Join) (b : Eng Fix) (w : Nat) (hW : WfJ g) (hS : FutStepsF b.w)
    (hH : HandedInD g.roleKids.len b.w) (hd : g.roleDone = false) :
    ∃ a, Join.poll g w ((absJ g b).w.emit (.pollBegin w)) = some a ∧ PostJ g b w a := by
  obtain ⟨hsl, hic, hpc, hrs⟩ := hW
  obtain ⟨r1, hs1, hs3⟩ := (TieDir.vec_tie g.roleWakers.readiness
    ((absJ g b).w.emit (.pollBegin w)) 0 w 0).2.2.2.2.2.2.2.2.1
  have hparent : r1.roleParent ≠ none := by
    have := congrArg World.parent hs3
    have h2 : (TieDir.absV r1 ((absJ g b).w.emit (.pollBegin w))).parent = r1.roleParent := rfl
    rw [h2] at this
    rw [this]; simp [World.setWaker]
  have hany := (TieDir.vec_tie r1 ((absJ g b).w.emit (.pollBegin w)) 0 w 0).2.2.2.2.2.2.2.1
  have hanyT : (TieDir.absV r1 ((absJ g b).w.emit (.pollBegin w))).anyReady = true := rfl
  rw [hanyT] at hany
  have hdead : (absJ g b).s.dead = false := hd
  have hw1 : TieDir.absV r1 ((absJ g b).w.emit (.pollBegin w)) = ((absJ g b).w.emit (.pollBegin w)).setWaker w := by
    rw [hs3]; rfl
  have hl : ∀ i ∈ List.range g.roleKids.len, i < g.roleKids.len := fun i hi => List.mem_range.mp hi
  unfold Join.poll
  unroles
  simp only [hd, hs1, hany, Bool.not_false, Bool.not_true, Bool.false_eq_true, ↓reduceIte, Option.bind_eq_bind,
    Option.bind_some, Option.pure_def]
  generalize hB : Option.bind (Rs.forBreak _ _ _) _ = B
  -- the scan and what follows it
  have hBspec : ∃ a, B = some a ∧ PostJ g b w a := by
    have hgo : (absJ g b).s.cnt = 0 ∨ (((absJ g b).w.emit (.pollBegin w)).setWaker w).anyReady = true :=
      Or.inr (by rw [← hw1]; exact hanyT)
    have hpoll : Eng.poll joinSlice (absJ g b) w
        = Eng.close joinSlice (Eng.scan joinSlice (List.range g.roleKids.len)
            { w := ((absJ g b).w.emit (.pollBegin w)).setWaker w, s := (absJ g b).s }) :=
      TieJoinV.poll_loopJ (absJ g b) w hdead hgo
    subst hB
    refine loop_bindJ g.roleKids.len b.s.off b.w _ ?hF _
      { w := ((absJ g b).w.emit (.pollBegin w)).setWaker w, s := (absJ g b).s } _ _ ?hR hl _ _ ?hK
    case hR =>
      exact ⟨hw1.symm, rfl, rfl, rfl, rfl, rfl, rfl, hd, rfl, hsl, hic, hpc, hrs, hparent,
        fun c i hm => hH c i hm, hS, ⟨rfl, rfl, rfl⟩⟩
    case hF =>
      clear hs1 hs3 hsl hic hpc hrs hH hS hd hpoll hl hparent hany hanyT hdead hw1 hgo
      generalize g.roleKids.len = n at *
      generalize b.s.off = o at *
      generalize b.w = b0 at *
      clear g
      intro e g env i hR hi
      dsimp only
      have hR0 := hR
      obtain ⟨hw, hen, hk, hst, hout, hcnt, hoff, hdead, hdone, hsl, hic, hpc, hrs, hpar, hhin, hsok, hfr⟩ := hR
      have hc1 := (TieDir.vec_tie g.roleWakers.readiness env i 0 0).2.1
      have hc3 := (TieDir.vec_tie g.roleWakers.readiness env i 0 0).2.2.1
      have hsetT : (TieDir.absV g.roleWakers.readiness env).isSet i = true := rfl
      rw [hsetT] at hc1
      obtain ⟨p, hp⟩ := Option.ne_none_iff_exists'.mp hpar
      have hget := get_parD g.roleWakers i p hp
      have hidx : Rs.PVec.idx g.roleStates i = some (g.roleStates.get i) := by
        simp [Rs.PVec.idx, hsl, hi]
      have hisp := (TiePS.tie (g.roleStates.get i)).2.1
      have hkid : Rs.Kids.get g.roleKids i = some i := by simp [Rs.Kids.get, hk, hi]
      obtain ⟨env3, hp1, hp4, hp6, hp7, hp8⟩ := pollChild_tieD g.roleWakers.readiness env i p hp
      have hsok3 : FutStepsF env3 := FutStepsF.tailJ hsok i hp6
      have hhin3 : HandedInD n env3 := handedIn_consD hhin i p hp7
      have hfr3 : SameRd env3 b0 := hp8.transD hfr
      by_cases hsp : TiePS.abs (g.roleStates.get i) = .pending
      · have hsp' : e.s.st i = .pending := by rw [hst]; exact hsp
        have hgp : g.roleStates.get i = PS.PollState.pending := (TiePS.abs_pendingJ _).mp hsp
        have hset' : e.w.isSet i = true := by rw [hw]; rfl
        have hres' : e.w.resOf i = env.resOf i := by rw [hw]; rfl
        unroles
        simp only [hkid, hidx, hisp, hsp, hc1, decide_true, Option.bind_some, Bool.false_eq_true, ↓reduceIte,
          hget, Rs.expect, Rs.pollFut, hp1]
        rcases hsok.resOfJ i with hres | ⟨ok, v, hres⟩
        · -- Pending
          have hv := TieJoinV.visit_pendJ e i hsp' hset' (by rw [hres', hres])
          simp only [hres, Option.bind_some]
          refine ⟨_, _, rfl, ?_, ?_⟩
          · rw [hv]
            refine ⟨?_, hen, hk, hst, hout, hcnt, hoff, hdead, hdone, hsl, hic, hpc, hrs, hpar, hhin3, hsok3, hfr3⟩
            unroles
            show (e.w.clearReady i).pollChild i i = _
            rw [hw, ← hc3]
            exact hp4.symm
          · rw [hv]
        · -- Ready: the output is stored, the state set, the counter decremented, the child released
          have hv := TieJoinV.visit_readyJ e i ok v hsp' hset' (by rw [hres', hres])
          obtain ⟨q, hq1, hq2⟩ := (TiePS.tie (g.roleStates.get i)).2.2.2.2.2
          have hqr : q = PS.PollState.ready := (TiePS.abs_readyJ _).mp hq2
          have hwrite : Rs.OutVec.write g.roleItems i v
              = some ⟨g.roleItems.cap, fun j => if j = i then some v else g.roleItems.get j⟩ := by
            simp [Rs.OutVec.write, hic, hi]
          have hset2 : Rs.PVec.set g.roleStates i q
              = some ⟨g.roleStates.len, fun j => if j = i then q else g.roleStates.get j⟩ := by
            simp [Rs.PVec.set, hsl, hi]
          have hflip := filter_flip_lengthJ (fun j => decide (g.roleStates.get j = PS.PollState.pending))
            (fun j => decide ((if j = i then q else g.roleStates.get j) = PS.PollState.pending)) i
            (List.range n) List.nodup_range (List.mem_range.mpr hi) (by simp [hgp]) (by simp [hqr])
            (fun j hj => by simp [hj])
          have hge : 1 ≤ g.roleCount := by unroles; omega
          have hsub : Rs.usub g.roleCount 1 = some (g.roleCount - 1) := by simp [Rs.usub, hge]
          unroles
          simp only [hres, Option.bind_some, hwrite, hidx, hq1, hset2, hsub]
          refine ⟨_, _, rfl, ?_, ?_⟩
          · rw [hv]
            refine ⟨?_, hen, hk, ?_, ?_, ?_, hoff, hdead, hdone, hsl, hic, ?_, ?_, hpar, ?_, ?_, hfr3⟩
            · unroles
              show ((e.w.clearReady i).pollChild i i).emit (.childDropped i) = _
              rw [hw, ← hc3, ← hp4]
              rfl
            · unroles
              funext j
              by_cases hj : j = i <;> simp [upd, hj, hq2, hst]
            · unroles
              funext j
              by_cases hj : j = i <;> simp [upd, hj, hout]
            · unroles
              simp only [hcnt]
            · unroles
              omega
            · intro j hj
              unroles
              by_cases hji : j = i
              · subst hji
                right
                simp [hqr]
              · simp only [hji, if_false]
                exact hrs j hj
            · exact fun c j hm => hhin3 c j hm
            · exact fun c st hm => hsok3 c st hm
          · rw [hv]
      · -- the slot's child has completed already
        have hv := TieJoinV.visit_skipJ e i (by rw [hst]; exact hsp)
        unroles
        simp only [hkid, hidx, hisp, hsp, decide_false, Option.bind_some, Bool.false_eq_true, ↓reduceIte]
        refine ⟨_, _, rfl, ?_, ?_⟩
        · rw [hv]; exact hR0
        · rw [hv]
    case hK =>
      intro g' env' hR' hx
      dsimp only
      have hR0 := hR'
      obtain ⟨hw, hen, hk, hst, hout, hcnt, hoff, hdead', hdone, hsl', hic', hpc', hrs', hpar, hhin, hsok, hfr⟩ := hR'
      by_cases hz : g'.roleCount = 0
      · -- every child has completed: the outputs are moved out
        have hnp : ∀ i, i < g'.roleKids.len → g'.roleStates.get i = PS.PollState.ready ∧
            ∃ v, g'.roleItems.get i = some v := by
          intro i hi
          rw [hk] at hi
          have := filter_len_zeroJ _ _ (by rw [← hpc']; exact hz) i (List.mem_range.mpr hi)
          rcases hrs' i hi with h | h
          · simp [h] at this
          · exact h
        have hass := assertAll_readyJ g'.roleStates (fun i hi => (hnp i (by rw [hk, ← hsl']; exact hi)).1)
        have hmap := mapAll_noneJ g'.roleStates
        have htake := take_allJ g'.roleItems (fun i hi => (hnp i (by rw [hk, ← hic']; exact hi)).2)
        obtain ⟨X, hX1, hX2, hX3⟩ := post_doneJ b hR0 hx hz
        have hnone : ∀ i, i < g.roleKids.len →
            (if i < g'.roleStates.len then PS.PollState.none_ else g'.roleStates.get i) = PS.PollState.none_ := by
          intro i hi
          rw [if_pos (by rw [hsl']; exact hi)]
        unroles
        simp only [hz, beq_self_eq_true, ↓reduceIte, hass, hmap, htake, Option.bind_some]
        refine ⟨_, rfl, X, ?_, hX2, ?_, ?_⟩
        · rw [hpoll, hX1]
          rfl
        · intro h; cases h
        · intro _
          exact ⟨hX3 _ rfl rfl hz.symm rfl (fun _ => rfl) hnone, hk, hhin, hsok⟩
      · -- some child is still pending
        have hcl := TieJoinV.close_pendJ _ hx (by rw [hcnt]; exact hz)
        unroles
        simp only [hz, beq_iff_eq, ↓reduceIte]
        refine ⟨_, rfl, _, ?_, hw, fun _ => hR0, fun h => absurd rfl h⟩
        rw [hpoll, hcl]
        rfl
  obtain ⟨a, ha1, ha2⟩ := hBspec
  refine ⟨a, ?_, ha2⟩
  rw [← ha1]
  split <;> rfl

/-- the refinement, together with the facts about the environment that the next poll (or the drop) needs again -/
theorem poll_tie_strongJ (g : Join) (b : Eng Fix) (w : Nat) (hW : WfJ g) (hS : FutStepsF b.w)
    (hH : HandedInD g.roleKids.len b.w) (hd : g.roleDone = false) :
    ∃ g' env' ret,
      Join.poll g w ((absJ g b).w.emit (.pollBegin w)) = some (g', env', ret) ∧
      (ret = .pending → WfJ g') ∧
      (ret = .pending → jcore (absJ g' b) = jcore (Eng.poll joinSlice (absJ g b) w)) ∧
      (ret ≠ .pending → TieJoinV.doneAgree (absJ g' b) (Eng.poll joinSlice (absJ g b) w)) ∧
      (env'.scripts = (Eng.poll joinSlice (absJ g b) w).w.scripts ∧
       env'.handed = (Eng.poll joinSlice (absJ g b) w).w.handed ∧
       (Eng.poll joinSlice (absJ g b) w).w.trace = .pollEnd (outcomeOfJoin ret) :: env'.trace) ∧
      g'.roleKids.len = g.roleKids.len ∧ HandedInD g.roleKids.len env' ∧ FutStepsF env' ∧
      (g'.roleDone = false ↔ ret = .pending) := by
  obtain ⟨⟨g', env', ret⟩, h1, X, hp, hXw, hpend, hdone⟩ := poll_coreJ g b w hW hS hH hd
  dsimp only at hp hXw hpend hdone
  refine ⟨g', env', ret, h1, ?_, ?_, ?_, ?_, ?_⟩
  · intro hr
    have hR := hpend hr
    have hk : g'.roleKids.len = g.roleKids.len := hR.kids
    exact ⟨by rw [hk]; exact hR.sl, by rw [hk]; exact hR.ic, by rw [hk]; exact hR.pc, by rw [hk]; exact hR.rs⟩
  · intro hr
    obtain ⟨hw, hen, hk, hst, hout, hcnt, hoff, hdead', hdn, hsl', hic', hpc', hrs', hpar, hhin, hsok, hfr⟩ :=
      hpend hr
    obtain ⟨f1, f2, f3⟩ := hfr
    rw [hp]
    simp only [jcore, fcore, absJ, Eng.emit, World.emit, hw, hen, hk, hst, hout, hcnt, hoff, hdead', hdn,
      TieDir.absV, f1, f2, f3]
  · intro hr
    rw [hp]
    exact (hdone hr).1
  · rw [hp]
    simp only [Eng.emit, World.emit, hXw]
    exact ⟨rfl, rfl, rfl⟩
  · cases ret with
    | pending =>
      have hR := hpend rfl
      exact ⟨hR.kids, hR.hin, hR.sok, fun _ => rfl, fun _ => hR.done⟩
    | ready vs =>
      obtain ⟨hda, hk, hhin, hsok⟩ := hdone (by simp)
      refine ⟨hk, hhin, hsok, fun h => ?_, fun h => by cases h⟩
      have : g'.roleDone = true := hda.2.2.1
      rw [this] at h
      cases h

theorem poll_tie_mainJ : poll_tie_statement := by
  intro g b w hW hS hH hd
  obtain ⟨g', env', ret, h1, h2, h3, h4, ⟨h5, h6, h7⟩, _⟩ := poll_tie_strongJ g b w hW hS hH hd
  exact ⟨g', env', ret, h1, h2, h3, h4, h5, h6, h7⟩

end TieJoinVD
end Fc
