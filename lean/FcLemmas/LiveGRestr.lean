/-
  FcLemmas/LiveGRestr.lean — a group never looks at the scripts of ids that are not its members.

  The safety invariants of the groups ask every script of the World to be of the group's kind
  (`G.KOk`), the liveness theorem only constrains the scripts of the inserted ids.  `rE ids e`
  replaces the scripts of all other ids by the empty script; polls, wake-ups and the building
  operations commute with it as long as the members are among `ids`.
-/
import FcLemmas.LiveGInit
set_option linter.unusedSimpArgs false
set_option linter.unusedVariables false

namespace Fc
namespace LiveG
open Mon Live Live3 G Grp C01

/-- scripts of the ids outside `ids` emptied -/
def restrS (ids : List Nat) (sc : Nat → List Step) : Nat → List Step :=
  fun c => if c ∈ ids then sc c else []

def rW (ids : List Nat) (w : World) : World := { w with scripts := restrS ids w.scripts }

def rE (ids : List Nat) (e : Eng Grp) : Eng Grp := { e with w := rW ids e.w }

variable {ids : List Nat}

@[simp] theorem rE_s (e : Eng Grp) : (rE ids e).s = e.s := rfl
@[simp] theorem rE_w (e : Eng Grp) : (rE ids e).w = rW ids e.w := rfl
@[simp] theorem rW_trace (w : World) : (rW ids w).trace = w.trace := rfl
@[simp] theorem rW_mode (w : World) : (rW ids w).mode = w.mode := rfl
@[simp] theorem rW_bits (w : World) : (rW ids w).bits = w.bits := rfl
@[simp] theorem rW_handed (w : World) : (rW ids w).handed = w.handed := rfl
@[simp] theorem rW_parent (w : World) : (rW ids w).parent = w.parent := rfl
theorem rW_isSet (w : World) (j : Nat) : (rW ids w).isSet j = w.isSet j := rfl
theorem rW_anyReady (w : World) : (rW ids w).anyReady = w.anyReady := rfl
theorem rW_wakerFor (w : World) (j : Nat) : (rW ids w).wakerFor j = w.wakerFor j := rfl

theorem rW_scripts_mem (w : World) (c : Nat) (hc : c ∈ ids) : (rW ids w).scripts c = w.scripts c := by
  simp [rW, restrS, hc]

theorem rW_stepOf (w : World) (c : Nat) (hc : c ∈ ids) : (rW ids w).stepOf c = w.stepOf c := by
  unfold World.stepOf; rw [rW_scripts_mem w c hc]

theorem rW_resOf (w : World) (c : Nat) (hc : c ∈ ids) : (rW ids w).resOf c = w.resOf c := by
  unfold World.resOf; rw [rW_stepOf w c hc]

theorem rW_emit (w : World) (ev : Ev) : rW ids (w.emit ev) = (rW ids w).emit ev := rfl
theorem rW_emits (w : World) (l : List Ev) : rW ids (w.emits l) = (rW ids w).emits l := rfl
theorem rW_setWaker (w : World) (p : Nat) : rW ids (w.setWaker p) = (rW ids w).setWaker p := rfl

theorem rW_clearReady (w : World) (i : Nat) : rW ids (w.clearReady i) = (rW ids w).clearReady i := by
  cases w with
  | mk mode cap bits count parent scripts handed trace =>
    cases mode with
    | direct => rfl
    | std =>
      simp only [World.clearReady, rW]
      by_cases hb : bits i = true
      · simp only [hb, if_true]
      · simp only [hb]; rfl

theorem rW_setReady (w : World) (i : Nat) : rW ids (w.setReady i) = (rW ids w).setReady i := by
  cases w with
  | mk mode cap bits count parent scripts handed trace =>
    cases mode with
    | direct => rfl
    | std =>
      simp only [World.setReady, rW]
      by_cases hb : bits i = true
      · simp only [hb, if_true]
      · simp only [hb]; rfl

theorem rW_setAllReady (w : World) : rW ids w.setAllReady = (rW ids w).setAllReady := by
  unfold World.setAllReady
  simp only [rW_mode]
  cases w.mode <;> rfl

theorem rW_kop (w : World) (k : KOp) : rW ids (w.kop k) = (rW ids w).kop k := by
  cases k with
  | nop => rfl
  | arm i => exact rW_setReady w i
  | armAll => exact rW_setAllReady w

theorem rW_resize (w : World) (len : Nat) : rW ids (w.resize len) = (rW ids w).resize len := by
  cases w with
  | mk mode cap bits count parent scripts handed trace =>
    simp only [World.resize, rW]
    by_cases hc : cap < len
    · simp only [hc, if_true]
      cases mode <;> rfl
    · simp only [hc]; rfl

theorem rW_fireWk (w : World) (wk : Wk) : rW ids (w.fireWk wk) = (rW ids w).fireWk wk := by
  cases wk with
  | par p => rfl
  | sub i =>
    cases w with
    | mk mode cap bits count parent scripts handed trace =>
      cases mode with
      | direct => rfl
      | std =>
        simp only [World.fireWk, rW]
        by_cases hb : bits i = true
        · simp only [hb, if_true]
        · simp only [hb]
          cases parent with
          | some p => simp only [World.setReady, hb, World.emit]; rfl
          | none => simp only [World.setReady, hb, World.emit]; rfl

theorem rW_fire (w : World) (c a : Nat) : rW ids (w.fire c a) = (rW ids w).fire c a := by
  unfold World.fire
  simp only [rW_handed]
  cases (w.handed c)[a]? with
  | none => rfl
  | some wk => simp only; rw [rW_fireWk]; rfl

theorem rW_fires (l : List (Nat × Nat)) : ∀ (w : World), rW ids (w.fires l) = (rW ids w).fires l := by
  induction l with
  | nil => intro w; rfl
  | cons p l ih => intro w; rw [World.fires_cons, World.fires_cons, ih, rW_fire]

/-- the World with its scripts replaced -/
def setS (w : World) (f : Nat → List Step) : World := { w with scripts := f }

/-- `fires` does not look at the scripts -/
theorem fires_scripts_irrel (l : List (Nat × Nat)) : ∀ (w : World) (f : Nat → List Step),
    (setS w f).fires l = setS (w.fires l) f := by
  have hWk : ∀ (w : World) (f : Nat → List Step) (wk : Wk),
      (setS w f).fireWk wk = setS (w.fireWk wk) f := by
    intro w f wk
    cases wk with
    | par p => rfl
    | sub i =>
      cases w with
      | mk mode cap bits count parent scripts handed trace =>
        cases mode with
        | direct => rfl
        | std =>
          simp only [World.fireWk, setS]
          by_cases hb : bits i = true
          · simp only [hb, if_true]
          · simp only [hb]
            cases parent with
            | some p => simp only [World.setReady, hb, World.emit]; rfl
            | none => simp only [World.setReady, hb, World.emit]; rfl
  have hF : ∀ (w : World) (f : Nat → List Step) (c a : Nat),
      (setS w f).fire c a = setS (w.fire c a) f := by
    intro w f c a
    unfold World.fire
    have hh : (setS w f).handed = w.handed := rfl
    rw [hh]
    cases (w.handed c)[a]? with
    | none => rfl
    | some wk =>
      simp only
      exact hWk (w.emit (.fired c a (some wk))) f wk
  induction l with
  | nil => intro w f; rfl
  | cons p l ih => intro w f; rw [World.fires_cons, World.fires_cons, hF, ih]

theorem rW_pollChild (w : World) (c k : Nat) (hc : c ∈ ids) :
    rW ids (w.pollChild c k) = (rW ids w).pollChild c k := by
  have hsc : upd (rW ids w).scripts c ((rW ids w).scripts c).tail
      = restrS ids (upd w.scripts c (w.scripts c).tail) := by
    funext j
    by_cases hj : j = c
    · subst hj; simp [restrS, hc, rW]
    · simp [restrS, rW, upd_other _ _ _ _ hj]
  have hR : (rW ids w).pollChild c k
      = ((setS { w with scripts := upd w.scripts c (w.scripts c).tail,
                        handed := upd w.handed c (w.wakerFor k :: w.handed c),
                        trace := .childBegin c k (w.wakerFor k) :: w.trace }
            (restrS ids (upd w.scripts c (w.scripts c).tail))).fires
          ((rW ids w).stepOf c).fires).emit (.childEnd c ((rW ids w).resOf c)) := by
    unfold World.pollChild
    rw [hsc]
    rfl
  rw [hR, rW_resOf w c hc, rW_stepOf w c hc, fires_scripts_irrel]
  unfold World.pollChild
  simp only [rW, setS, World.emit, World.fires_scripts]

/-! ### the poll skeleton -/

/-- every eligible slot holds a member among `ids` -/
def MemIn (ids : List Nat) (s : Grp) : Prop :=
  ∀ j, s.st j = .pending → ∃ c, c ∈ ids ∧ s.member j = some c

theorem rE_gateW (e : Eng Grp) (k : Nat) :
    Eng.gateW group (rE ids e) k = rW ids (Eng.gateW group e k) := by
  unfold Eng.gateW
  by_cases h : (group.clearFirst || group.eligible e.s k) = true
  · rw [if_pos (show (group.clearFirst || group.eligible (rE ids e).s k) = true from h), if_pos h]
    exact (rW_clearReady _ _).symm
  · rw [if_neg (show ¬ (group.clearFirst || group.eligible (rE ids e).s k) = true from h), if_neg h]
    rfl

theorem rE_gateGo (e : Eng Grp) (k : Nat) : Eng.gateGo group (rE ids e) k = Eng.gateGo group e k := rfl

theorem memIn_rem {s : Grp} (k : Nat) (h : MemIn ids s) : MemIn ids (remSt s k) := by
  intro j hj
  have hjk : j ≠ k := by
    intro hh; subst hh
    simp [remSt] at hj
  have : (remSt s k).st j = s.st j := by simp [remSt, upd_other _ _ _ _ hjk]
  rw [this] at hj
  obtain ⟨c, hc, hm⟩ := h j hj
  exact ⟨c, hc, by rw [remSt_member, upd_other _ _ _ _ hjk]; exact hm⟩

theorem memIn_fin {s : Grp} (k : Nat) (h : MemIn ids s) : MemIn ids (finSt s k) := by
  intro j hj
  have hjk : j ≠ k := by
    intro hh; subst hh
    simp [finSt] at hj
  have : (finSt s k).st j = s.st j := by simp [finSt, upd_other _ _ _ _ hjk]
  rw [this] at hj
  obtain ⟨c, hc, hm⟩ := h j hj
  exact ⟨c, hc, by rw [finSt_member, upd_other _ _ _ _ hjk]; exact hm⟩

theorem memIn_handle {s : Grp} (k : Nat) (r : Res) (h : MemIn ids s) :
    MemIn ids (group.handle s k r).s := by
  cases r with
  | pend => exact h
  | ready ok v => rw [handle_ready]; exact memIn_rem k h
  | item v => rw [handle_item]; exact h
  | fin => rw [handle_fin]; exact memIn_fin k h
  | panic => exact h

/-- one loop iteration -/
theorem rE_visit (e : Eng Grp) (k : Nat) (H : MemIn ids e.s) :
    Eng.visit group (rE ids e) k = (rE ids (Eng.visit group e k).1, (Eng.visit group e k).2) ∧
    MemIn ids (Eng.visit group e k).1.s := by
  unfold Eng.visit
  have hla : group.loopAny = false := rfl
  simp only [hla, Bool.false_and, Bool.false_eq_true, if_false]
  rw [rE_gateGo]
  by_cases hg : Eng.gateGo group e k = true
  · simp only [hg, Bool.not_true, Bool.false_eq_true, if_false]
    obtain ⟨c, hc, hmk⟩ := H k (elig_of_go hg)
    have hchild : group.child e.s k = c := by rw [group_child, hmk]; rfl
    simp only [rE_s, hchild, rE_w, rW_resOf e.w c hc, rE_gateW, ← rW_pollChild _ c k hc]
    by_cases hp : e.w.resOf c = .panic
    · simp only [hp, if_true]
      exact ⟨rfl, H⟩
    · simp only [hp, if_false]
      refine ⟨?_, memIn_handle k _ H⟩
      simp only [Eng.applyH, ← rW_emits, ← rW_kop]
      rfl
  · simp only [hg, Bool.not_false, if_true]
    refine ⟨?_, H⟩
    rw [rE_gateW]
    rfl

/-- the loop -/
theorem rE_scan : ∀ (l : List Nat) (e : Eng Grp), MemIn ids e.s →
    Eng.scan group l (rE ids e) = (rE ids (Eng.scan group l e).1, (Eng.scan group l e).2) := by
  intro l
  induction l with
  | nil => intro e _; rfl
  | cons i rest ih =>
    intro e H
    obtain ⟨hv, hH⟩ := rE_visit e i H
    unfold Eng.scan
    rw [hv]
    simp only
    cases hvis : (Eng.visit group e i).2 with
    | some o => rfl
    | none => simp only; exact ih _ hH

/-- everything after `set_waker` -/
theorem rE_body (e : Eng Grp) (H : MemIn ids e.s) :
    Eng.body group (rE ids e) = rE ids (Eng.body group e) := by
  unfold Eng.body
  by_cases hc : (group.preAny (group.start e.s) && !e.w.anyReady) = true
  · rw [if_pos (show (group.preAny (group.start (rE ids e).s) && !(rE ids e).w.anyReady) = true from hc),
      if_pos hc]
    rfl
  · rw [if_neg (show ¬ (group.preAny (group.start (rE ids e).s) && !(rE ids e).w.anyReady) = true from hc),
      if_neg hc]
    have hst : MemIn ids (group.start e.s) := H
    have hsc := rE_scan (ids := ids) (group.order e.s) { e with s := group.start e.s } hst
    have heq : ({ rE ids e with s := group.start (rE ids e).s } : Eng Grp)
        = rE ids { e with s := group.start e.s } := rfl
    have hord : group.order (rE ids e).s = group.order e.s := rfl
    rw [heq, hord, hsc]
    unfold Eng.close
    simp only
    cases (Eng.scan group (group.order e.s) { e with s := group.start e.s }).2 with
    | some o => rfl
    | none =>
      simp only [Eng.applyH, Eng.emit, rE_s, rE_w, ← rW_emits, ← rW_kop, ← rW_emit]
      rfl

/-- one top-level poll -/
theorem rE_poll (e : Eng Grp) (wid : Nat) (H : MemIn ids e.s) :
    Eng.poll group (rE ids e) wid = rE ids (Eng.poll group e wid) := by
  unfold Eng.poll
  have hpre' : group.pre (rE ids e).s = group.pre e.s := rfl
  rw [hpre']
  cases hpre : group.pre e.s with
  | some o => rfl
  | none =>
    simp only
    have heq : ({ rE ids e with w := ((rE ids e).w.emit (.pollBegin wid)).setWaker wid } : Eng Grp)
        = rE ids { e with w := (e.w.emit (.pollBegin wid)).setWaker wid } := rfl
    rw [heq]
    exact rE_body _ H

/-- a wake-up between polls -/
theorem rE_fire (e : Eng Grp) (c a : Nat) : (rE ids e).fire c a = rE ids (e.fire c a) := by
  simp only [Eng.fire, rE, rW_fire]

/-! ### the building operations -/

theorem rE_reserve (e : Eng Grp) (a : Nat) : GEng.reserve (rE ids e) a = rE ids (GEng.reserve e a) := by
  unfold GEng.reserve
  by_cases h : e.s.len + a < e.s.capacity
  · rw [if_pos (show (rE ids e).s.len + a < (rE ids e).s.capacity from h), if_pos h]
  · rw [if_neg (show ¬ (rE ids e).s.len + a < (rE ids e).s.capacity from h), if_neg h]
    simp only [rE, rW_resize]

theorem rE_grow (e : Eng Grp) : GEng.grow (rE ids e) = rE ids (GEng.grow e) := by
  unfold GEng.grow
  by_cases h : e.s.capacity ≤ e.s.len
  · rw [if_pos (show (rE ids e).s.capacity ≤ (rE ids e).s.len from h), if_pos h]
    exact rE_reserve e _
  · rw [if_neg (show ¬ (rE ids e).s.capacity ≤ (rE ids e).s.len from h), if_neg h]

theorem rE_insertAt (e : Eng Grp) (c : Nat) (b : Bool) :
    GEng.insertAt (rE ids e) c b = rE ids (GEng.insertAt e c b) := by
  simp only [GEng.insertAt, rE, rW_emit, rW_setReady]

theorem rE_extend_fold : ∀ (cs : List Nat) (e : Eng Grp),
    cs.foldl (fun e c => GEng.insertAt (GEng.grow e) c false) (rE ids e)
      = rE ids (cs.foldl (fun e c => GEng.insertAt (GEng.grow e) c false) e) := by
  intro cs
  induction cs with
  | nil => intro e; rfl
  | cons c cs ih => intro e; simp only [List.foldl_cons]; rw [rE_grow, rE_insertAt, ih]

theorem rE_step (e : Eng Grp) (op : Op) (hop : op.isInsertLike = true) :
    GEng.step (rE ids e) op = rE ids (GEng.step e op) := by
  cases op with
  | insert c =>
    simp only [GEng.step]
    by_cases hd : e.s.dead = true
    · rw [if_pos (show (rE ids e).s.dead = true from hd), if_pos hd]
    · rw [if_neg (show ¬ (rE ids e).s.dead = true from hd), if_neg hd]
      simp only [GEng.insert]; rw [rE_grow, rE_insertAt]
  | reserve k =>
    simp only [GEng.step]
    by_cases hd : e.s.dead = true
    · rw [if_pos (show (rE ids e).s.dead = true from hd), if_pos hd]
    · rw [if_neg (show ¬ (rE ids e).s.dead = true from hd), if_neg hd]
      exact rE_reserve e k
  | extend cs =>
    simp only [GEng.step]
    by_cases hd : e.s.dead = true
    · rw [if_pos (show (rE ids e).s.dead = true from hd), if_pos hd]
    · rw [if_neg (show ¬ (rE ids e).s.dead = true from hd), if_neg hd]
      simp only [GEng.extend]; rw [rE_reserve, rE_extend_fold]
  | _ => simp [Op.isInsertLike] at hop

theorem rE_run : ∀ (ops : List Op) (e : Eng Grp), (∀ op ∈ ops, op.isInsertLike = true) →
    ops.foldl GEng.step (rE ids e) = rE ids (ops.foldl GEng.step e) := by
  intro ops
  induction ops with
  | nil => intro e _; rfl
  | cons op ops ih =>
    intro e hop
    simp only [List.foldl_cons]
    rw [rE_step e op (hop op (List.mem_cons_self ..)),
      ih _ (fun op' hop' => hop op' (List.mem_cons_of_mem _ hop'))]

theorem rE_init (stream keyed : Bool) (m : Mode) (sc : Nat → List Step) :
    rE ids (GEng.init stream keyed m sc) = GEng.init stream keyed m (restrS ids sc) := rfl

end LiveG
end Fc
