/-
  Kernel tie, `wait_until` (future and stream) — the model side, direct strategy:
    * `Eng.visit waitUntilF` / `Eng.visit waitUntilS` unfolded for each answer of the polled child;
    * `Eng.poll` on a live combinator with two children = `close ∘ scan` over `[0, 1]` resp. `[1]`;
    * frame facts about scripted children (`FutStepsF`, `TieWaitS.StepsW`) across a child poll.
  Nothing here mentions the generated code.
-/
import FcLemmas.KTieFamEnv
import FcLemmas.KTieSteps
import FcProps.KTieCore
import Fc.Families

set_option linter.unusedSimpArgs false
set_option linter.unusedVariables false

namespace Fc
open Rs

namespace TieWaitEnv
open TieDirect

theorem emits_one (w : World) (e : Ev) : w.emits [e] = w.emit e := by
  simp [World.emits, World.emit]

/-! ### `wait_until` on futures -/

/-- the polled child (deadline or inner future) is pending: so is `WaitUntil` -/
theorem wf_visit_pend (e : Eng Fix) (i : Nat) (hm : e.w.mode = .direct) (hr : e.w.resOf i = .pend) :
    Eng.visit waitUntilF e i = ({ e with w := e.w.pollChild i i }, some .pending) := by
  simp [Eng.visit, waitUntilF, Eng.gateGo, Eng.gateW, World.isSet, World.clearReady, hm, hr, Eng.applyH,
    emits_nil, World.kop]

/-- the deadline resolved: its output dies at once, the state moves on, the loop goes round again -/
theorem wf_visit_deadline (e : Eng Fix) (ok : Bool) (v : Nat) (hm : e.w.mode = .direct)
    (hr : e.w.resOf 0 = .ready ok v) :
    Eng.visit waitUntilF e 0 =
      ({ w := (e.w.pollChild 0 0).emit (.valDropped v), s := { e.s with cnt := 1 } }, none) := by
  simp [Eng.visit, waitUntilF, Eng.gateGo, Eng.gateW, World.isSet, World.clearReady, hm, hr, Eng.applyH,
    emits_one, World.kop]

/-- the inner future resolved: `WaitUntil` is complete -/
theorem wf_visit_inner (e : Eng Fix) (ok : Bool) (v : Nat) (hm : e.w.mode = .direct)
    (hr : e.w.resOf 1 = .ready ok v) :
    Eng.visit waitUntilF e 1 = ({ w := e.w.pollChild 1 1, s := e.s.kill }, some (.ready true [v])) := by
  simp [Eng.visit, waitUntilF, Eng.gateGo, Eng.gateW, World.isSet, World.clearReady, hm, hr, Eng.applyH,
    emits_nil, World.kop]

theorem wf_poll_live (e : Eng Fix) (w : Nat) (hd : e.s.dead = false) (hn : e.s.n = 2) :
    Eng.poll waitUntilF e w =
      Eng.close waitUntilF (Eng.scan waitUntilF (if e.s.cnt = 0 then [0, 1] else [1])
        { w := (e.w.emit (.pollBegin w)).setWaker w, s := e.s }) := by
  by_cases hc : e.s.cnt = 0 <;> simp [Eng.poll, Eng.body, waitUntilF, Fix.misuseIfDead, hd, hn, hc]

theorem wf_close_some (r : Eng Fix) (o : Outcome) :
    Eng.close waitUntilF (r, some o) = r.emit (.pollEnd o) := rfl

theorem futStepsF_pollChild (w : World) (h : FutStepsF w) (c s : Nat) : FutStepsF (w.pollChild c s) :=
  futSteps_pollChild w h c s

theorem futStepsF_emit (w : World) (h : FutStepsF w) (e : Ev) : FutStepsF (w.emit e) := h

/-! ### `wait_until` on streams -/

/-- the polled child (deadline, or inner stream) is pending: so is the stream; what the buffer held is released -/
theorem ws_visit_pend (e : Eng Fix) (i : Nat) (hm : e.w.mode = .direct) (hr : e.w.resOf i = .pend) :
    Eng.visit waitUntilS e i =
      ({ w := (e.w.pollChild i i).emits e.s.bufEvs, s := e.s.unbuf }, some .pending) := by
  simp [Eng.visit, waitUntilS, Eng.gateGo, Eng.gateW, World.isSet, World.clearReady, hm, hr, Eng.applyH, World.kop]

theorem ws_visit_item (e : Eng Fix) (i v : Nat) (hm : e.w.mode = .direct) (hr : e.w.resOf i = .item v) :
    Eng.visit waitUntilS e i =
      ({ w := (e.w.pollChild i i).emits e.s.bufEvs, s := e.s.unbuf }, some (.some 0 [v])) := by
  simp [Eng.visit, waitUntilS, Eng.gateGo, Eng.gateW, World.isSet, World.clearReady, hm, hr, Eng.applyH, World.kop]

theorem ws_visit_fin (e : Eng Fix) (i : Nat) (hm : e.w.mode = .direct) (hr : e.w.resOf i = .fin) :
    Eng.visit waitUntilS e i =
      ({ w := (e.w.pollChild i i).emits e.s.bufEvs, s := e.s.unbuf.kill }, some .none) := by
  simp [Eng.visit, waitUntilS, Eng.gateGo, Eng.gateW, World.isSet, World.clearReady, hm, hr, Eng.applyH, World.kop]

/-- the deadline resolved: its output is kept (the scrutinee's temporary), the inner stream is polled next -/
theorem ws_visit_deadline (e : Eng Fix) (ok : Bool) (v : Nat) (hm : e.w.mode = .direct)
    (hr : e.w.resOf 0 = .ready ok v) :
    Eng.visit waitUntilS e 0 =
      ({ w := e.w.pollChild 0 0, s := { e.s with cnt := 1, out := upd e.s.out 0 (some v) } }, none) := by
  simp [Eng.visit, waitUntilS, Eng.gateGo, Eng.gateW, World.isSet, World.clearReady, hm, hr, Eng.applyH,
    emits_nil, World.kop]

theorem ws_poll_live (e : Eng Fix) (w : Nat) (hd : e.s.dead = false) (hn : e.s.n = 2) :
    Eng.poll waitUntilS e w =
      Eng.close waitUntilS (Eng.scan waitUntilS (if e.s.cnt = 0 then [0, 1] else [1])
        { w := (e.w.emit (.pollBegin w)).setWaker w, s := e.s }) := by
  by_cases hc : e.s.cnt = 0 <;> simp [Eng.poll, Eng.body, waitUntilS, Fix.misuseIfDead, hd, hn, hc]

theorem ws_close_some (r : Eng Fix) (o : Outcome) :
    Eng.close waitUntilS (r, some o) = r.emit (.pollEnd o) := rfl

theorem bufEvs_none (s : Fix) (h : s.out 0 = none) : s.bufEvs = [] := by
  simp [Fix.bufEvs, h]

theorem bufEvs_some (s : Fix) (v : Nat) (h : s.out 0 = some v) : s.bufEvs = [.valDropped v] := by
  simp [Fix.bufEvs, h]

theorem resOf_pollChild_other (w : World) (c s c' : Nat) (h : c' ≠ c) : (w.pollChild c s).resOf c' = w.resOf c' := by
  simp [World.resOf, World.stepOf, pollChild_scripts, upd_other _ _ _ _ h]

end TieWaitEnv

end Fc
