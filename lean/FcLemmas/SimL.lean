/-
  FcLemmas/SimL.lean — `Sim` for policies without the per-iteration `any_ready` check
  (`loopAny = false`: both groups).

  `Sim.earlyPend` asks for the boundary invariant after an early `Pending` from *any* loop state
  `J s t l`.  For a StreamGroup that is too much: in the middle of a scan the `key_removal_queue`
  is not flushed yet, and a poll that returned there would leave the group broken (a later
  `insert` could reuse a queued key).  The real code only returns early *before* the loop; `SimL`
  asks for exactly that (`early`), and the lifting theorems are those of `FcLemmas/Sim.lean`.
-/
import FcLemmas.Sim

namespace Fc

structure SimL {σ : Type} (P : Policy σ) (m : Mode) (K : Nat → Res → Prop) (I : σ → List Ev → Prop)
    (J : σ → List Ev → List Nat → Prop) : Prop where
  noLoopAny : P.loopAny = false
  fireEv : ∀ s t e, isFireEv e = true → I s t → I s (e :: t)
  pre : ∀ s t w o, P.pre s = some o → I s t → I s (.pollEnd o :: .pollBegin w :: t)
  start : ∀ s t w, P.pre s = none → I s t → J (P.start s) (.pollBegin w :: t) (P.order s)
  /-- `!any_ready → Pending` in front of the loop (std mode only) -/
  early : ∀ s t w, m = .std → P.pre s = none → I s t →
    I (P.start s) (.pollEnd .pending :: .pollBegin w :: t)
  skip : ∀ s t i rest, (m = .direct → P.eligible s i = false) → J s t (i :: rest) → J s t rest
  goOn : ∀ s t i rest wk l r, J s t (i :: rest) → P.eligible s i = true → r ≠ .panic →
    K (P.child s i) r → (∀ e ∈ l, isFireEv e = true) → (P.handle s i r).exit = none →
    J (P.handle s i r).s (pollSeg (P.child s i) i wk l r (P.handle s i r).evs t) rest
  goExit : ∀ s t i rest wk l r o, J s t (i :: rest) → P.eligible s i = true → r ≠ .panic →
    K (P.child s i) r → (∀ e ∈ l, isFireEv e = true) → (P.handle s i r).exit = some o →
    I (P.handle s i r).s (.pollEnd o :: pollSeg (P.child s i) i wk l r (P.handle s i r).evs t)
  panic : ∀ s t i rest wk l, J s t (i :: rest) → P.eligible s i = true →
    (∀ e ∈ l, isFireEv e = true) →
    I (P.onPanic s) (.pollEnd .panicked :: pollSeg (P.child s i) i wk l .panic (P.panicEvs s) t)
  finish : ∀ s t, J s t [] →
    I (P.finish s).s (.pollEnd ((P.finish s).exit.getD .pending) :: ((P.finish s).evs.reverse ++ t))
  drop : ∀ s t, I s t → I (P.afterDrop s) (.dropEnd :: ((P.dropEvs s).reverse ++ .dropBegin :: t))

namespace SimL
variable {σ : Type} {P : Policy σ} {m : Mode} {K : Nat → Res → Prop} {I : σ → List Ev → Prop}
  {J : σ → List Ev → List Nat → Prop}

theorem fireSeg (S : SimL P m K I J) (s : σ) (l t : List Ev) (hl : ∀ e ∈ l, isFireEv e = true)
    (h : I s t) : I s (l ++ t) := by
  induction l with
  | nil => exact h
  | cons e l ih =>
    rw [List.cons_append]
    exact S.fireEv _ _ _ (hl e (List.mem_cons_self ..))
      (ih (fun e' he' => hl e' (List.mem_cons_of_mem _ he')))

/-- one loop iteration -/
theorem visitT (S : SimL P m K I J) (e : Eng σ) (i : Nat) (rest : List Nat) (hm : e.w.mode = m)
    (hk : ScriptsOk K e.w) (h : J e.s e.w.trace (i :: rest)) :
    ((Eng.visit P e i).1.w.mode = m) ∧ ScriptsOk K (Eng.visit P e i).1.w ∧
    ((Eng.visit P e i).2 = none → J (Eng.visit P e i).1.s (Eng.visit P e i).1.w.trace rest) ∧
    (∀ o, (Eng.visit P e i).2 = some o →
      I (Eng.visit P e i).1.s (.pollEnd o :: (Eng.visit P e i).1.w.trace)) := by
  have hkg : ScriptsOk K (Eng.gateW P e i) := hk.of_scripts (Sim.gateW_scripts' e i)
  refine Eng.visit_ind P e i
    (fun r => (r.1.w.mode = m) ∧ ScriptsOk K r.1.w ∧ (r.2 = none → J r.1.s r.1.w.trace rest) ∧
      (∀ o, r.2 = some o → I r.1.s (.pollEnd o :: r.1.w.trace))) ?_ ?_ ?_ ?_
  · intro hl _
    rw [S.noLoopAny] at hl
    cases hl
  · intro _ hg
    refine ⟨by simp [Sim.gateW_mode', hm], hkg, fun _ => ?_, fun o ho => by simp at ho⟩
    simp only [Sim.gateW_trace]
    refine S.skip _ _ _ _ ?_ h
    intro hd
    unfold Eng.gateGo at hg
    rw [World.isSet_direct _ _ (by rw [hm, hd])] at hg
    simpa using hg
  · intro _ hg hp
    have hel : P.eligible e.s i = true := by
      unfold Eng.gateGo at hg
      simp only [Bool.and_eq_true] at hg
      exact hg.1
    refine ⟨by simp [Sim.gateW_mode', hm],
      (hkg.pollChild (P.child e.s i) i).of_scripts (by simp [emits_scripts]), fun hn => by simp at hn, fun o ho => ?_⟩
    simp only [Option.some.injEq] at ho
    subst ho
    obtain ⟨l, hl, hf⟩ := World.pollChild_seg (Eng.gateW P e i) (P.child e.s i) i
    simp only [World.emits_trace, hl, Sim.gateW_trace, Sim.gateW_resOf', hp]
    exact S.panic _ _ _ rest _ l h hel hf
  · intro _ hg hp
    have hel : P.eligible e.s i = true := by
      unfold Eng.gateGo at hg
      simp only [Bool.and_eq_true] at hg
      exact hg.1
    obtain ⟨l, hl, hf⟩ := World.pollChild_seg (Eng.gateW P e i) (P.child e.s i) i
    have hkr : K (P.child e.s i) (e.w.resOf (P.child e.s i)) := hk.resOf _
    refine ⟨by simp [Sim.gateW_mode', hm],
      (hkg.pollChild (P.child e.s i) i).of_scripts (by simp [kop_scripts, emits_scripts]), fun hn => ?_, fun o ho => ?_⟩
    · simp only [Eng.applyH_s, Eng.applyH_w, World.kop_trace, World.emits_trace, hl, Sim.gateW_trace,
        Sim.gateW_resOf']
      exact S.goOn _ _ _ rest _ l _ h hel hp hkr hf hn
    · simp only [Eng.applyH_s, Eng.applyH_w, World.kop_trace, World.emits_trace, hl, Sim.gateW_trace,
        Sim.gateW_resOf']
      exact S.goExit _ _ _ rest _ l _ o h hel hp hkr hf ho

/-- the loop -/
theorem scanT (S : SimL P m K I J) (l : List Nat) (e : Eng σ) (hm : e.w.mode = m)
    (hk : ScriptsOk K e.w) (h : J e.s e.w.trace l) :
    ((Eng.scan P l e).1.w.mode = m) ∧ ScriptsOk K (Eng.scan P l e).1.w ∧
    ((Eng.scan P l e).2 = none → J (Eng.scan P l e).1.s (Eng.scan P l e).1.w.trace []) ∧
    (∀ o, (Eng.scan P l e).2 = some o →
      I (Eng.scan P l e).1.s (.pollEnd o :: (Eng.scan P l e).1.w.trace)) := by
  induction l generalizing e with
  | nil => exact ⟨hm, hk, fun _ => h, fun o ho => by simp [Eng.scan] at ho⟩
  | cons i rest ih =>
    have hv := visitT S e i rest hm hk h
    unfold Eng.scan
    cases hvis : (Eng.visit P e i).2 with
    | some o =>
      simp only
      exact ⟨hv.1, hv.2.1, fun hn => by simp at hn, fun o' ho' => by
        simp only [Option.some.injEq] at ho'; subst ho'; exact hv.2.2.2 o hvis⟩
    | none =>
      simp only
      exact ih _ hv.1 hv.2.1 (hv.2.2.1 hvis)

theorem pollT (S : SimL P m K I J) (e : Eng σ) (w : Nat) (hm : e.w.mode = m)
    (hk : ScriptsOk K e.w) (h : I e.s e.w.trace) :
    (Eng.poll P e w).w.mode = m ∧ ScriptsOk K (Eng.poll P e w).w ∧
      I (Eng.poll P e w).s (Eng.poll P e w).w.trace := by
  unfold Eng.poll
  split
  · rename_i o ho
    exact ⟨hm, hk.of_scripts rfl, S.pre _ _ w o ho h⟩
  · rename_i hpre
    unfold Eng.body
    simp only
    split
    · rename_i hc
      simp only [Bool.and_eq_true, Bool.not_eq_true'] at hc
      refine ⟨hm, hk.of_scripts rfl, ?_⟩
      have hstd : m = .std := by
        cases hmm : e.w.mode with
        | std => rw [← hm, hmm]
        | direct => simp [World.anyReady, World.setWaker, World.emit, hmm] at hc
      exact S.early _ _ w hstd hpre h
    · have hs := scanT S (P.order e.s)
        { w := (e.w.emit (.pollBegin w)).setWaker w, s := P.start e.s } hm (hk.of_scripts rfl)
        (S.start _ _ w hpre h)
      unfold Eng.close
      split
      · rename_i o ho
        exact ⟨hs.1, hs.2.1.of_scripts rfl, hs.2.2.2 o ho⟩
      · rename_i ho
        refine ⟨by simpa using hs.1, hs.2.1.of_scripts (by simp [kop_scripts, emits_scripts]), ?_⟩
        simp only [Eng.emit_s, Eng.emit_w, Eng.applyH_s, Eng.applyH_w, World.emit_trace,
          World.kop_trace, World.emits_trace]
        exact S.finish _ _ (hs.2.2.1 ho)

theorem fireT (S : SimL P m K I J) (e : Eng σ) (c a : Nat) (hm : e.w.mode = m)
    (hk : ScriptsOk K e.w) (h : I e.s e.w.trace) :
    (e.fire c a).w.mode = m ∧ ScriptsOk K (e.fire c a).w ∧
      I (e.fire c a).s (e.fire c a).w.trace := by
  obtain ⟨l, hl, hf⟩ := World.fire_seg e.w c a
  refine ⟨by simpa using hm, hk.of_scripts (by simp), ?_⟩
  simp only [Eng.fire_s, Eng.fire_w, hl]
  exact fireSeg S _ _ _ hf h

theorem dropT (S : SimL P m K I J) (e : Eng σ) (hm : e.w.mode = m) (hk : ScriptsOk K e.w)
    (h : I e.s e.w.trace) :
    (Eng.drop P e).w.mode = m ∧ ScriptsOk K (Eng.drop P e).w ∧
      I (Eng.drop P e).s (Eng.drop P e).w.trace := by
  refine ⟨hm, hk.of_scripts rfl, ?_⟩
  simp only [Eng.drop, World.emit_trace, World.emits_trace]
  exact S.drop _ _ h

end SimL
end Fc
