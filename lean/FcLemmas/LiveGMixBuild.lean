/-
  FcLemmas/LiveGMixBuild.lean — `insert` / `extend` / `reserve` / `remove` on a group in ANY state
  between two operations (members pending, wake-ups outstanding, mid-drain): the "may be polled"
  invariant `LGW` is kept, and the progress measure `LiveG.mu` grows by exactly the scripted steps
  of the new members (`remove` leaves it alone).

  This is `LiveGAny.bw_insert` … `bw_run` (FcLemmas/LiveGAnyBuild.lean) without the equation
  `stepsLeft = mu` of `BW` — an equation that need not hold in the middle of a drain — and with the
  measure tracked instead.  `lgw_setS'` generalises `LiveGAny.lgw_setS`: the invariant depends on the
  scripts of the MEMBERS only (and on all scripts being of the group's kind).
-/
import FcLemmas.LiveGAnyRefill
import Fc.ExecGMix
set_option linter.unusedSimpArgs false
set_option linter.unusedVariables false

namespace Fc
namespace LiveGMix
open Mon Live Live3 G Grp C01 LiveG LiveGAny

variable {stream keyed : Bool} {m : Mode} {n : Nat}

/-! ### the scripts of ids that are not members do not matter -/

theorem lgw_setS' (e : Eng Grp) (f : Nat → List Step) (h : LGW stream keyed m n e)
    (hmem : ∀ k c, e.s.member k = some c → f c = e.w.scripts c)
    (hf : ∀ c st, st ∈ f c → st.res.fits stream = true) : LGW stream keyed m n (setSE e f) := by
  obtain ⟨U, hU, hUk⟩ := h.g11
  have hs : e.s.stream = stream := (hU.live h.dead).1.hs
  have hf' : ∀ c st, st ∈ f c → st.res.fits e.s.stream = true := by rw [hs]; exact hf
  refine ⟨h.mode, fun hm => sb_setS e f (h.std hm) hf', fun hm => db_setS e f (h.dir hm) hf',
    ⟨U, hU, hUk⟩, h.dead, h.al, h.bnd, ⟨?_, h.wg.hw, h.wg.lw, h.wg.ep⟩, h.ib, h.nk⟩
  intro k c hk
  have := h.wg.mem k c hk
  rw [show (setSE e f).w.scripts c = f c from rfl, hmem k c hk]
  exact this

/-- the sum of the scripted steps of a list of ids -/
def lenSum (sc : Nat → List Step) (l : List Nat) : Nat := (l.map (fun c => (sc c).length)).sum

theorem lenSum_nil (sc : Nat → List Step) : lenSum sc [] = 0 := rfl

theorem lenSum_cons (sc : Nat → List Step) (c : Nat) (l : List Nat) :
    lenSum sc (c :: l) = (sc c).length + lenSum sc l := by
  simp [lenSum]

theorem lenSum_append (sc : Nat → List Step) (l l' : List Nat) :
    lenSum sc (l ++ l') = lenSum sc l + lenSum sc l' := by
  simp [lenSum]

theorem lenSum_congr (sc sc' : Nat → List Step) (l : List Nat) (h : ∀ c ∈ l, sc c = sc' c) :
    lenSum sc l = lenSum sc' l := by
  unfold lenSum
  congr 1
  apply List.map_congr_left
  intro c hc
  rw [h c hc]

/-! ### `reserve` -/

theorem lgw_reserve (e : Eng Grp) (a : Nat) (h : LGW stream keyed m n e) :
    LGW stream keyed m n (GEng.reserve e a) ∧ mu n (GEng.reserve e a) = mu n e := by
  obtain ⟨hh, hmem, hkeys, _, hset⟩ := reserve_facts e a
  have ht := GEng.reserve_trace e a
  obtain ⟨U, hU, hUk⟩ := h.g11
  refine ⟨⟨by rw [GEng.reserve_mode]; exact h.mode, fun hm => sb_reserve e a (h.std hm),
    fun hm => db_reserve e a (h.dir hm), ⟨U, G11.reserve_inv e a hU, by rw [ht]; exact hUk⟩,
    by rw [reserve_dead]; exact h.dead, by rw [ht]; exact h.al, by rw [ht]; exact h.bnd, ?_, ?_,
    by rw [ht]; exact h.nk⟩, ?_⟩
  · rw [hmem]
    exact wg_congr (GEng.reserve_scripts e a) hh ht h.wg
  · intro k c hk hn
    rw [hmem] at hk
    rw [ht] at hn
    exact hset k (h.ib k c hk hn)
  · unfold mu
    rw [ht, GEng.reserve_scripts]

/-! ### `insert` -/

theorem lgw_insert (e : Eng Grp) (c : Nat) (b : Bool) (h : LGW stream keyed m n e)
    (hcn : c < n) (hwb : wbScript stream (e.w.scripts c) = true) (hf : keyOf e.w.trace c = none) :
    LGW stream keyed m n (GEng.insertAt (GEng.grow e) c b) ∧
    mu n (GEng.insertAt (GEng.grow e) c b) = mu n e + (e.w.scripts c).length := by
  obtain ⟨hh, hmem, hkeys, hnext, hset⟩ := grow_facts e
  have hcb := lgw_cb e h
  obtain ⟨U, hU, hUk⟩ := h.g11
  have hcU : c ∉ U := fun hc => hUk c hc hf
  obtain ⟨hU', hd'⟩ := G11.insertAt_inv e c b hU h.dead hcU
  have ht : (GEng.insertAt (GEng.grow e) c b).w.trace = .inserted c e.s.next :: e.w.trace := by
    rw [GEng.insertAt_trace, grow_trace, hnext]
  have hkeyOf : ∀ j, keyOf (GEng.insertAt (GEng.grow e) c b).w.trace j
      = if c = j then some e.s.next else keyOf e.w.trace j := by
    intro j; rw [ht]; rfl
  have hscr : (GEng.insertAt (GEng.grow e) c b).w.scripts = e.w.scripts := by
    rw [GEng.insertAt_scripts, GEng.grow_scripts]
  have hm' : (GEng.insertAt (GEng.grow e) c b).s.member = upd e.s.member e.s.next (some c) := by
    rw [insertAt_s, insSt_member, hmem, hnext]
  have hhand : (GEng.insertAt (GEng.grow e) c b).w.handed = e.w.handed := by
    rw [insertAt_w]
    simp only [World.emit_handed, World.setReady_handed, hh]
  -- the fresh id was never polled and never released
  have hlr0 : lastRes e.w.trace c = none := by
    cases hl : lastRes e.w.trace c with
    | none => rfl
    | some r => exact absurd hf (hcb.link.fr c (by rw [hl]; simp))
  have hg0 : gone e.w.trace c = false := by
    cases hg : gone e.w.trace c with
    | false => rfl
    | true => exact absurd hf (h.nk c hg)
  have hLR : ∀ j, lastRes (GEng.insertAt (GEng.grow e) c b).w.trace j = lastRes e.w.trace j := by
    intro j; rw [ht]; rfl
  have hG : ∀ j, gone (GEng.insertAt (GEng.grow e) c b).w.trace j = gone e.w.trace j := by
    intro j; rw [ht]; rfl
  have hwg0 : WG stream e.s.member (GEng.insertAt (GEng.grow e) c b).w := by
    have h1 : WG stream e.s.member (e.w.emit (.inserted c e.s.next)) := wg_emit _ rfl h.wg
    exact wg_congr (w := e.w.emit (.inserted c e.s.next)) hscr hhand ht h1
  refine ⟨⟨by rw [GEng.insertAt_mode, GEng.grow_mode]; exact h.mode,
    fun hm => sb_steps.ins e c b (h.std hm) h.dead hf,
    fun hm => db_steps.ins e c b (h.dir hm) h.dead hf, ⟨c :: U, hU', ?_⟩, hd', ?_, ?_, ?_, ?_, ?_⟩, ?_⟩
  · intro j hj
    rw [hkeyOf]
    by_cases hcj : c = j
    · simp [hcj]
    · simp only [hcj, if_false]
      rcases List.mem_cons.mp hj with hj | hj
      · exact absurd hj.symm hcj
      · exact hUk j hj
  · rw [ht]; simpa [alive] using h.al
  · intro j hj
    rw [hkeyOf] at hj
    by_cases hcj : c = j
    · subst hcj; exact hcn
    · simp only [hcj, if_false] at hj; exact h.bnd j hj
  · -- the members
    rw [hm']
    refine ⟨?_, hwg0.hw, hwg0.lw, hwg0.ep⟩
    intro k j hk
    by_cases hkn : k = e.s.next
    · subst hkn
      rw [upd_same] at hk
      cases hk
      rw [hscr, hLR, hG, hlr0]
      exact ⟨hwb, Or.inl rfl, hg0⟩
    · rw [upd_other _ _ _ _ hkn] at hk
      exact hwg0.mem k j hk
  · intro k j hk hn
    rw [hm'] at hk
    rw [hLR] at hn
    rw [insertAt_w, World.isSet_emit, hnext]
    by_cases hkn : k = e.s.next
    · subst hkn; exact isSet_arm_self _ _
    · rw [upd_other _ _ _ _ hkn] at hk
      exact World.isSet_setReady_mono _ _ _ (hset k (h.ib k j hk hn))
  · intro j hj
    rw [hG] at hj
    rw [hkeyOf]
    by_cases hcj : c = j
    · simp [hcj]
    · simp only [hcj, if_false]; exact h.nk j hj
  · -- the measure
    unfold mu
    refine total_bump _ _ n c _ hcn ?_ ?_
    · rw [hkeyOf, hscr, hf]; simp
    · intro j hj
      have hcj : ¬ c = j := fun hh => hj hh.symm
      rw [hkeyOf, hscr]; simp [hcj]

/-! ### whole lists of operations -/

theorem lgw_extend_fold : ∀ (cs : List Nat) (e : Eng Grp), LGW stream keyed m n e → cs.Nodup →
    (∀ c ∈ cs, c < n ∧ wbScript stream (e.w.scripts c) = true ∧ keyOf e.w.trace c = none) →
    LGW stream keyed m n (cs.foldl (fun e c => GEng.insertAt (GEng.grow e) c false) e) ∧
    mu n (cs.foldl (fun e c => GEng.insertAt (GEng.grow e) c false) e)
      = mu n e + lenSum e.w.scripts cs ∧
    (∀ x, x ∉ cs → keyOf (cs.foldl (fun e c => GEng.insertAt (GEng.grow e) c false) e).w.trace x
        = keyOf e.w.trace x) ∧
    (∀ k x, (cs.foldl (fun e c => GEng.insertAt (GEng.grow e) c false) e).s.member k = some x →
        e.s.member k = some x ∨ x ∈ cs) := by
  intro cs
  induction cs with
  | nil =>
    intro e h _ _
    exact ⟨h, by simp [lenSum_nil], fun _ _ => rfl, fun _ _ hk => Or.inl hk⟩
  | cons c cs ih =>
    intro e h hnd hf
    simp only [List.foldl_cons]
    have hnd' := List.nodup_cons.mp hnd
    obtain ⟨h1, h2, h3⟩ := hf c (List.mem_cons_self ..)
    obtain ⟨hb, hmu⟩ := lgw_insert e c false h h1 h2 h3
    have hscr : (GEng.insertAt (GEng.grow e) c false).w.scripts = e.w.scripts := by
      rw [GEng.insertAt_scripts, GEng.grow_scripts]
    have := ih _ hb hnd'.2 (fun x hx => by
      have hxc : x ≠ c := by intro hh; subst hh; exact hnd'.1 hx
      obtain ⟨g1, g2, g3⟩ := hf x (List.mem_cons_of_mem _ hx)
      exact ⟨g1, by rw [hscr]; exact g2, by rw [keyOf_insertAt _ _ _ _ hxc]; exact g3⟩)
    refine ⟨this.1, ?_, fun x hx => ?_, fun k x hk => ?_⟩
    · rw [this.2.1, hmu, hscr, lenSum_cons]; omega
    · simp only [List.mem_cons, not_or] at hx
      rw [this.2.2.1 x hx.2, keyOf_insertAt _ _ _ _ hx.1]
    · rcases this.2.2.2 k x hk with hk' | hk'
      · rcases insertAt_member_frame e c false k x hk' with h4 | h4
        · exact Or.inl h4
        · exact Or.inr (by rw [h4]; exact List.mem_cons_self ..)
      · exact Or.inr (List.mem_cons_of_mem _ hk')

theorem lgw_step (e : Eng Grp) (op : Op) (h : LGW stream keyed m n e)
    (hop : op.isInsertLike = true) (hnd : (insertedIds op).Nodup)
    (hf : ∀ c ∈ insertedIds op,
      c < n ∧ wbScript stream (e.w.scripts c) = true ∧ keyOf e.w.trace c = none) :
    LGW stream keyed m n (GEng.step e op) ∧
    mu n (GEng.step e op) = mu n e + lenSum e.w.scripts (insertedIds op) ∧
    (∀ x, x ∉ insertedIds op → keyOf (GEng.step e op).w.trace x = keyOf e.w.trace x) ∧
    (∀ k x, (GEng.step e op).s.member k = some x → e.s.member k = some x ∨ x ∈ insertedIds op) := by
  cases op with
  | insert c =>
    simp only [GEng.step, h.dead, Bool.false_eq_true, if_false, GEng.insert]
    obtain ⟨h1, h2, h3⟩ := hf c (by simp [insertedIds])
    obtain ⟨hb, hmu⟩ := lgw_insert e c true h h1 h2 h3
    refine ⟨hb, by rw [hmu]; simp [insertedIds, lenSum],
      fun x hx => keyOf_insertAt e c true x (by simpa [insertedIds] using hx), fun k x hk => ?_⟩
    rcases insertAt_member_frame e c true k x hk with h4 | h4
    · exact Or.inl h4
    · exact Or.inr (by simp [insertedIds, h4])
  | reserve k =>
    simp only [GEng.step, h.dead, Bool.false_eq_true, if_false]
    obtain ⟨hb, hmu⟩ := lgw_reserve e k h
    exact ⟨hb, by rw [hmu]; simp [insertedIds, lenSum], fun x _ => by rw [GEng.reserve_trace],
      fun k' x hk => Or.inl (by rw [(reserve_facts e k).2.1] at hk; exact hk)⟩
  | extend cs =>
    simp only [GEng.step, h.dead, Bool.false_eq_true, if_false, GEng.extend]
    obtain ⟨hb, hmu⟩ := lgw_reserve e cs.length h
    have := lgw_extend_fold cs (GEng.reserve e cs.length) hb
      (by simpa [insertedIds] using hnd)
      (fun c hc => by
        rw [GEng.reserve_trace, GEng.reserve_scripts]; exact hf c (by simpa [insertedIds] using hc))
    refine ⟨this.1, ?_, fun x hx => ?_, fun k x hk => ?_⟩
    · rw [this.2.1, hmu, GEng.reserve_scripts]; simp [insertedIds]
    · rw [this.2.2.1 x (by simpa [insertedIds] using hx), GEng.reserve_trace]
    · rcases this.2.2.2 k x hk with h4 | h4
      · exact Or.inl (by rw [(reserve_facts e cs.length).2.1] at h4; exact h4)
      · exact Or.inr (by simpa [insertedIds] using h4)
  | _ => simp [Op.isInsertLike] at hop

/-- a list of `insert` / `extend` / `reserve` operations in any state: `LGW` is kept, the measure
    grows by the scripted steps of the new ids, exactly these ids are newly inserted -/
theorem lgw_run : ∀ (ops : List Op) (e : Eng Grp), LGW stream keyed m n e →
    (∀ op ∈ ops, op.isInsertLike = true) → (ops.flatMap insertedIds).Nodup →
    (∀ c ∈ ops.flatMap insertedIds, c < n ∧ wbScript stream (e.w.scripts c) = true ∧
      keyOf e.w.trace c = none) →
    LGW stream keyed m n (ops.foldl GEng.step e) ∧
    mu n (ops.foldl GEng.step e) = mu n e + lenSum e.w.scripts (ops.flatMap insertedIds) ∧
    (∀ x, x ∉ ops.flatMap insertedIds → keyOf (ops.foldl GEng.step e).w.trace x = keyOf e.w.trace x) ∧
    (∀ k x, (ops.foldl GEng.step e).s.member k = some x →
      e.s.member k = some x ∨ x ∈ ops.flatMap insertedIds) := by
  intro ops
  induction ops with
  | nil =>
    intro e h _ _ _
    exact ⟨h, by simp [lenSum_nil], fun _ _ => rfl, fun _ _ hk => Or.inl hk⟩
  | cons op ops ih =>
    intro e h hop hnd hf
    simp only [List.foldl_cons]
    simp only [List.flatMap_cons] at hnd hf ⊢
    rw [List.nodup_append] at hnd
    obtain ⟨hn1, hn2, hdis⟩ := hnd
    have hop1 := hop op (List.mem_cons_self ..)
    have hs := lgw_step e op h hop1 hn1 (fun c hc => hf c (List.mem_append_left _ hc))
    have hscr := step_scripts e op hop1
    have := ih _ hs.1 (fun op' hop' => hop op' (List.mem_cons_of_mem _ hop')) hn2 (fun c hc => by
      obtain ⟨g1, g2, g3⟩ := hf c (List.mem_append_right _ hc)
      refine ⟨g1, by rw [hscr]; exact g2, ?_⟩
      rw [hs.2.2.1 c (fun hh => hdis c hh c hc rfl)]
      exact g3)
    refine ⟨this.1, ?_, fun x hx => ?_, fun k x hk => ?_⟩
    · rw [this.2.1, hs.2.1, hscr, lenSum_append]; omega
    · simp only [List.mem_append, not_or] at hx
      rw [this.2.2.1 x hx.2, hs.2.2.1 x hx.1]
    · rcases this.2.2.2 k x hk with h4 | h4
      · rcases hs.2.2.2 k x h4 with h5 | h5
        · exact Or.inl h5
        · exact Or.inr (List.mem_append_left _ h5)
      · exact Or.inr (List.mem_append_right _ h4)

/-! ### `remove` -/

/-- `remove` in any state between two operations: the member (if the key is still present) leaves
    the group and is dropped; its scripted steps stay in the measure (they are never consumed);
    no member is added, no script is touched -/
theorem lgw_remove (e : Eng Grp) (j : Nat) (h : LGW stream keyed m n e) :
    LGW stream keyed m n (GEng.remove e j) ∧ mu n (GEng.remove e j) = mu n e ∧
    (GEng.remove e j).w.scripts = e.w.scripts ∧
    (∀ x, keyOf (GEng.remove e j).w.trace x = keyOf e.w.trace x) ∧
    (∀ k x, (GEng.remove e j).s.member k = some x → e.s.member k = some x) := by
  have hcb := lgw_cb e h
  obtain ⟨U, hU, hUk⟩ := h.g11
  have hU' := G11.remove_inv e j hU h.dead
  have hkey : ∀ x, keyOf (GEng.remove e j).w.trace x = keyOf e.w.trace x := keyOf_remove e j
  have hstd : m = .std → SB n (GEng.remove e j) := fun hm => sb_remove e j (h.std hm) h.dead
  have hdir : m = .direct → DB n (GEng.remove e j) := fun hm => db_remove e j (h.dir hm) h.dead
  rcases remove_cases e j hcb.slab (hcb.qe h.dead) with h1 | ⟨k, h1⟩ | ⟨k, c, hm, h1⟩
  · rw [h1]; exact ⟨h, rfl, rfl, fun _ => rfl, fun _ _ hk => hk⟩
  · -- the key is no longer present
    have hwg : WG stream e.s.member (e.w.emit (.removed k false)) := wg_emit _ rfl h.wg
    refine ⟨⟨?_, hstd, hdir, ⟨U, hU', fun c hc => by rw [hkey]; exact hUk c hc⟩, ?_, ?_,
      fun c hc => h.bnd c (by rwa [hkey] at hc), ?_, ?_, ?_⟩, ?_, ?_, hkey, ?_⟩
    · rw [h1]; exact h.mode
    · rw [h1]; exact h.dead
    · rw [h1]; simpa [alive] using h.al
    · rw [h1]; exact hwg
    · rw [h1]
      intro k' c' hk hn
      exact h.ib k' c' hk (by simpa [lastRes] using hn)
    · rw [h1]
      intro c' hc'
      have : gone e.w.trace c' = true := by simpa [gone] using hc'
      simpa [keyOf] using h.nk c' this
    · rw [h1]; rfl
    · rw [h1]; rfl
    · rw [h1]; exact fun _ _ hk => hk
  · -- the member `c` under key `k` leaves
    have hmem' : ∀ k' x, (remSt e.s k).member k' = some x → k' ≠ k ∧ e.s.member k' = some x := by
      intro k' x hk
      rw [remSt_member] at hk
      by_cases hkk : k' = k
      · subst hkk; rw [upd_same] at hk; cases hk
      · rw [upd_other _ _ _ _ hkk] at hk; exact ⟨hkk, hk⟩
    have hLR : ∀ x, lastRes (.removed k true :: .childDropped c :: e.w.trace) x = lastRes e.w.trace x :=
      fun x => by simp [lastRes]
    have hLW : ∀ x, lastWk (.removed k true :: .childDropped c :: e.w.trace) x = lastWk e.w.trace x :=
      fun x => by simp [lastWk]
    have hEP : ∀ x, everPolled (.removed k true :: .childDropped c :: e.w.trace) x
        = everPolled e.w.trace x := fun x => by simp [everPolled]
    have hG : ∀ x, gone (.removed k true :: .childDropped c :: e.w.trace) x
        = (decide (c = x) || gone e.w.trace x) := fun x => by simp [gone]
    refine ⟨⟨?_, hstd, hdir, ⟨U, hU', fun c hc => by rw [hkey]; exact hUk c hc⟩, ?_, ?_,
      fun c hc => h.bnd c (by rwa [hkey] at hc), ?_, ?_, ?_⟩, ?_, ?_, hkey, ?_⟩
    · rw [h1]; exact h.mode
    · rw [h1]; exact h.dead
    · rw [h1]; simpa [alive] using h.al
    · rw [h1]
      refine ⟨?_, ?_, ?_, ?_⟩
      · intro k' x hk
        obtain ⟨hkk, hk0⟩ := hmem' k' x hk
        obtain ⟨g1, g2, g3⟩ := h.wg.mem k' x hk0
        have hcx : ¬ c = x := by
          intro hh; subst hh
          exact hkk (hcb.link.inj hk0 hm)
        simp only [World.emit_trace, World.emit_scripts, hLR, hG, hcx, decide_false, Bool.false_or]
        exact ⟨g1, g2, g3⟩
      · intro x
        simp only [World.emit_trace, World.emit_handed, hLW]
        exact h.wg.hw x
      · intro x
        simp only [World.emit_trace, hLR, hLW]
        exact h.wg.lw x
      · intro x
        simp only [World.emit_trace, hLR, hEP]
        exact h.wg.ep x
    · rw [h1]
      intro k' x hk hn
      obtain ⟨_, hk0⟩ := hmem' k' x hk
      simp only [World.emit_trace, hLR] at hn
      exact h.ib k' x hk0 hn
    · rw [h1]
      intro x hx
      simp only [World.emit_trace, hG, Bool.or_eq_true, decide_eq_true_eq] at hx
      have hk2 : keyOf (.removed k true :: .childDropped c :: e.w.trace) x = keyOf e.w.trace x := by
        simp [keyOf]
      simp only [World.emit_trace, hk2]
      rcases hx with hx | hx
      · subst hx
        rw [hcb.link.f1 k c hm]; simp
      · exact h.nk x hx
    · rw [h1]
      unfold mu
      apply total_congr
      intro x _
      simp [keyOf]
    · rw [h1]; rfl
    · rw [h1]
      exact fun k' x hk => (hmem' k' x hk).2

theorem rE_remove (ids : List Nat) (e : Eng Grp) (j : Nat) :
    GEng.remove (rE ids e) j = rE ids (GEng.remove e j) := by
  unfold GEng.remove
  simp only [rE_s]
  cases e.s.ret[j]? with
  | none => rfl
  | some k =>
    simp only
    by_cases hk : e.s.keys.contains k = true
    · simp only [hk, if_true]; rfl
    · simp only [hk]; rfl

/-! ### any list of membership operations -/

theorem rE_stepM (ids : List Nat) (e : Eng Grp) (op : Op) (hop : op.isMembership = true) :
    GEng.step (rE ids e) op = rE ids (GEng.step e op) := by
  cases op with
  | remove j =>
    simp only [GEng.step]
    by_cases hd : e.s.dead = true
    · rw [if_pos (show (rE ids e).s.dead = true from hd), if_pos hd]
    · rw [if_neg (show ¬ (rE ids e).s.dead = true from hd), if_neg hd]
      exact rE_remove ids e j
  | insert c => exact rE_step e _ rfl
  | reserve k => exact rE_step e _ rfl
  | extend cs => exact rE_step e _ rfl
  | _ => simp [Op.isMembership] at hop

theorem rE_runM (ids : List Nat) : ∀ (ops : List Op) (e : Eng Grp),
    (∀ op ∈ ops, op.isMembership = true) →
    ops.foldl GEng.step (rE ids e) = rE ids (ops.foldl GEng.step e) := by
  intro ops
  induction ops with
  | nil => intro e _; rfl
  | cons op ops ih =>
    intro e hop
    simp only [List.foldl_cons]
    rw [rE_stepM ids e op (hop op (List.mem_cons_self ..)),
      ih _ (fun op' hop' => hop op' (List.mem_cons_of_mem _ hop'))]

theorem lgw_stepM (e : Eng Grp) (op : Op) (h : LGW stream keyed m n e)
    (hop : op.isMembership = true) (hnd : (insertedIds op).Nodup)
    (hf : ∀ c ∈ insertedIds op,
      c < n ∧ wbScript stream (e.w.scripts c) = true ∧ keyOf e.w.trace c = none) :
    LGW stream keyed m n (GEng.step e op) ∧
    mu n (GEng.step e op) = mu n e + lenSum e.w.scripts (insertedIds op) ∧
    (GEng.step e op).w.scripts = e.w.scripts ∧
    (∀ x, x ∉ insertedIds op → keyOf (GEng.step e op).w.trace x = keyOf e.w.trace x) ∧
    (∀ k x, (GEng.step e op).s.member k = some x → e.s.member k = some x ∨ x ∈ insertedIds op) := by
  cases op with
  | remove j =>
    simp only [GEng.step, h.dead, Bool.false_eq_true, if_false]
    obtain ⟨hb, hmu, hsc, hk, hmf⟩ := lgw_remove e j h
    exact ⟨hb, by rw [hmu]; simp [insertedIds, lenSum], hsc, fun x _ => hk x,
      fun k x hkx => Or.inl (hmf k x hkx)⟩
  | insert c =>
    obtain ⟨a, b, c', d⟩ := lgw_step e (.insert c) h rfl hnd hf
    exact ⟨a, b, step_scripts e _ rfl, c', d⟩
  | reserve k =>
    obtain ⟨a, b, c', d⟩ := lgw_step e (.reserve k) h rfl hnd hf
    exact ⟨a, b, step_scripts e _ rfl, c', d⟩
  | extend cs =>
    obtain ⟨a, b, c', d⟩ := lgw_step e (.extend cs) h rfl hnd hf
    exact ⟨a, b, step_scripts e _ rfl, c', d⟩
  | _ => simp [Op.isMembership] at hop

/-- a list of `insert` / `extend` / `reserve` / `remove` operations in any state -/
theorem lgw_runM : ∀ (ops : List Op) (e : Eng Grp), LGW stream keyed m n e →
    (∀ op ∈ ops, op.isMembership = true) → (ops.flatMap insertedIds).Nodup →
    (∀ c ∈ ops.flatMap insertedIds, c < n ∧ wbScript stream (e.w.scripts c) = true ∧
      keyOf e.w.trace c = none) →
    LGW stream keyed m n (ops.foldl GEng.step e) ∧
    mu n (ops.foldl GEng.step e) = mu n e + lenSum e.w.scripts (ops.flatMap insertedIds) ∧
    (ops.foldl GEng.step e).w.scripts = e.w.scripts ∧
    (∀ x, x ∉ ops.flatMap insertedIds → keyOf (ops.foldl GEng.step e).w.trace x = keyOf e.w.trace x) ∧
    (∀ k x, (ops.foldl GEng.step e).s.member k = some x →
      e.s.member k = some x ∨ x ∈ ops.flatMap insertedIds) := by
  intro ops
  induction ops with
  | nil =>
    intro e h _ _ _
    exact ⟨h, by simp [lenSum_nil], rfl, fun _ _ => rfl, fun _ _ hk => Or.inl hk⟩
  | cons op ops ih =>
    intro e h hop hnd hf
    simp only [List.foldl_cons]
    simp only [List.flatMap_cons] at hnd hf ⊢
    rw [List.nodup_append] at hnd
    obtain ⟨hn1, hn2, hdis⟩ := hnd
    have hop1 := hop op (List.mem_cons_self ..)
    have hs := lgw_stepM e op h hop1 hn1 (fun c hc => hf c (List.mem_append_left _ hc))
    have hscr := hs.2.2.1
    have := ih _ hs.1 (fun op' hop' => hop op' (List.mem_cons_of_mem _ hop')) hn2 (fun c hc => by
      obtain ⟨g1, g2, g3⟩ := hf c (List.mem_append_right _ hc)
      refine ⟨g1, by rw [hscr]; exact g2, ?_⟩
      rw [hs.2.2.2.1 c (fun hh => hdis c hh c hc rfl)]
      exact g3)
    refine ⟨this.1, ?_, by rw [this.2.2.1, hscr], fun x hx => ?_, fun k x hk => ?_⟩
    · rw [this.2.1, hs.2.1, hscr, lenSum_append]; omega
    · simp only [List.mem_append, not_or] at hx
      rw [this.2.2.2.1 x hx.2, hs.2.2.2.1 x hx.1]
    · rcases this.2.2.2.2 k x hk with h4 | h4
      · rcases hs.2.2.2.2 k x h4 with h5 | h5
        · exact Or.inl h5
        · exact Or.inr (List.mem_append_left _ h5)
      · exact Or.inr (List.mem_append_right _ h4)

/-- membership operations do not touch the scripts (no invariant needed) -/
theorem stepM_scripts (e : Eng Grp) (op : Op) (hop : op.isMembership = true) :
    (GEng.step e op).w.scripts = e.w.scripts := by
  cases op with
  | remove j =>
    simp only [GEng.step]
    split
    · rfl
    · unfold GEng.remove
      cases e.s.ret[j]? with
      | none => rfl
      | some k =>
        simp only
        split <;> rfl
  | insert c => exact step_scripts e _ rfl
  | reserve k => exact step_scripts e _ rfl
  | extend cs => exact step_scripts e _ rfl
  | _ => simp [Op.isMembership] at hop

theorem lgw_runM_scripts : ∀ (ops : List Op) (e : Eng Grp), (∀ op ∈ ops, op.isMembership = true) →
    (ops.foldl GEng.step e).w.scripts = e.w.scripts := by
  intro ops
  induction ops with
  | nil => intro e _; rfl
  | cons op ops ih =>
    intro e hop
    simp only [List.foldl_cons]
    rw [ih _ (fun op' hop' => hop op' (List.mem_cons_of_mem _ hop')),
      stepM_scripts e op (hop op (List.mem_cons_self ..))]

end LiveGMix
end Fc
