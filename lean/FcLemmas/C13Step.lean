/-
  FcLemmas/C13Step.lean — preservation of `Inv` by the loud actions: a closure call, a work
  future resolving (next stage / completion), a work future being dropped.
-/
import FcLemmas.C13Inv

set_option linter.unusedSimpArgs false
set_option linter.unusedVariables false

namespace Fc
namespace CoC13
open Co

/-! ### closure `m.stage` is called for member `m`, returning work future `k` -/

theorem Inv.call {c : Cfg} {s : St} {t : List CoEv} (h : Inv c s t) (m : Member)
    (hm : m ∈ s.members) (hcur : m.cur = none) (k : Nat) (hk : k ∉ s.live) (idx : List Nat) :
    Inv c { s with members := setMember s.members m { m with cur := some k }, live := k :: s.live }
      (.call m.stage m.j idx k :: t) := by
  have hother : ∀ x ∈ s.members, x ≠ m → x.j ≠ m.j :=
    fun x hx hne he => hne (h.uniq x hx m hm he)
  exact {
    taken := by simpa [takenItems] using h.taken
    topNd := h.topNd
    drain := by
      intro hf
      have := h.drain hf
      simpa [drained, takenItems, srcEnded] using this
    memLt := by
      intro x hx
      rcases mem_setMember.mp hx with ⟨hx, _⟩ | ⟨rfl, _⟩
      · exact h.memLt x hx
      · exact h.memLt m hm
    sendI := by
      intro j hj
      obtain ⟨h1, h2, h3⟩ := h.sendI j hj
      refine ⟨h1, ?_, ?_⟩
      · intro x hx
        rcases mem_setMember.mp hx with ⟨hx, _⟩ | ⟨rfl, _⟩
        · exact h2 x hx
        · exact h2 m hm
      · intro st
        have : ¬ (m.stage = st ∧ m.j = j) := fun hh => h2 m hm hh.2
        simp [calls, this, h3 st]
    fresh := by
      intro j hj st
      have hlt := h.memLt m hm
      simp only at hj
      have : ¬ (m.stage = st ∧ m.j = j) := fun hh => by omega
      simp [calls, this, h.fresh j hj st]
    uniq := by
      intro m1 hm1 m2 hm2 he
      rcases mem_setMember.mp hm1 with ⟨hm1, hn1⟩ | ⟨rfl, _⟩ <;>
        rcases mem_setMember.mp hm2 with ⟨hm2, hn2⟩ | ⟨rfl, _⟩
      · exact h.uniq m1 hm1 m2 hm2 he
      · exact absurd he (hother m1 hm1 hn1)
      · exact absurd he.symm (hother m2 hm2 hn2)
      · rfl
    memE := by
      intro x hx
      rcases mem_setMember.mp hx with ⟨hx, hn⟩ | ⟨rfl, _⟩
      · have hj := hother x hx hn
        obtain ⟨e1, e2, e3, e4⟩ := h.memE x hx
        have hne : ∀ st, ¬ (m.stage = st ∧ m.j = x.j) := fun st hh => hj hh.2.symm
        refine ⟨?_, ?_, ?_, ?_⟩
        · intro st hst
          rw [stageDone_call_ne _ _ _ _ _ _ _ (hne st)]
          exact e1 st hst
        · intro st hst
          simp [calls, hne st, e2 st hst]
        · intro hc
          simp [calls, hne x.stage, e3 hc]
        · intro k' hk'
          simp [calls, futOf, hne x.stage, e4 k' hk']
      · obtain ⟨e1, e2, e3, e4⟩ := h.memE m hm
        refine ⟨?_, ?_, ?_, ?_⟩
        · intro st hst
          simp only at hst ⊢
          rw [stageDone_call_ne _ _ _ _ _ _ _ (by omega)]
          exact e1 st hst
        · intro st hst
          simp only at hst ⊢
          have : ¬ (m.stage = st) := by omega
          simp [calls, this, e2 st hst]
        · intro hc; simp at hc
        · intro k' hk'
          simp only [Option.some.injEq] at hk'
          subst hk'
          simp [calls, futOf, e3 hcur]
    tri := by
      intro hr hd j hj
      simp only at hr hd hj ⊢
      by_cases hjm : j = m.j
      · exact Or.inl ⟨{ m with cur := some k }, mem_setMember.mpr (Or.inr ⟨rfl, hm⟩), hjm.symm⟩
      · rcases h.tri hr hd j hj with ⟨x, hx, hxj⟩ | h1 | h1
        · have : x ≠ m := by
            intro he; subst he; exact hjm hxj.symm
          exact Or.inl ⟨x, mem_setMember.mpr (Or.inl ⟨hx, this⟩), hxj⟩
        · exact Or.inr (Or.inl h1)
        · refine Or.inr (Or.inr ?_)
          intro st hst
          rw [stageDone_call_ne _ _ _ _ _ _ _ (fun hh => hjm hh.2.symm)]
          exact h1 st hst
    liveB := by
      intro k' hk' hd
      simp only [created, List.mem_cons, droppedW] at hk' hd ⊢
      rcases hk' with rfl | hk'
      · exact Or.inl rfl
      · exact Or.inr (h.liveB k' hk' hd)
    liveA := by
      intro hc k' hk' hr
      simp only [List.mem_cons, resultOf] at hk' hr ⊢
      rcases hk' with rfl | hk'
      · exact ⟨{ m with cur := some k' }, mem_setMember.mpr (Or.inr ⟨rfl, hm⟩), rfl⟩
      · obtain ⟨x, hx, hxc⟩ := h.liveA hc k' hk' hr
        have : x ≠ m := by
          intro he; subst he; rw [hcur] at hxc; cases hxc
        exact ⟨x, mem_setMember.mpr (Or.inl ⟨hx, this⟩), hxc⟩
    ndC := by
      simp only [created, droppedW, List.filter_cons]
      split
      · rename_i hd
        refine List.nodup_cons.mpr ⟨?_, h.ndC⟩
        intro hin
        simp only [List.mem_filter] at hin
        exact hk (h.liveB k hin.1 (by simpa using hin.2))
      · exact h.ndC
    cnt := by
      intro hc
      simp only [length_setMember]
      exact h.cnt hc }

/-! ### work future `k` of member `m` resolves, a further stage follows -/

theorem resultOf_ready_none {t : List CoEv} {k k' : Nat} {ok : Bool} {v : Nat}
    (h : resultOf (.work k (.ready ok v) :: t) k' = none) : k ≠ k' ∧ resultOf t k' = none := by
  simp only [resultOf] at h
  split at h
  · cases h
  · rename_i hne; exact ⟨hne, h⟩

theorem MemOk.work_mono {t : List CoEv} {x : Member} (h : MemOk t x) (k : Nat) (r : Res) :
    MemOk (.work k r :: t) x := by
  obtain ⟨e1, e2, e3, e4⟩ := h
  refine ⟨?_, ?_, ?_, ?_⟩
  · intro st hst; exact stageDone_work_mono t k r st x.j (e1 st hst)
  · intro st hst; simpa [calls] using e2 st hst
  · intro hc; simpa [calls] using e3 hc
  · intro k' hk'; simpa [calls, futOf] using e4 k' hk'

theorem Inv.advance {c : Cfg} {s : St} {t : List CoEv} (h : Inv c s t) (m : Member)
    (hm : m ∈ s.members) (k : Nat) (hcur : m.cur = some k) (ok : Bool) (v : Nat) :
    Inv c { s with members := setMember s.members m { m with stage := m.stage + 1, cur := none } }
      (.work k (.ready ok v) :: t) := by
  have hother : ∀ x ∈ s.members, x ≠ m → x.j ≠ m.j :=
    fun x hx hne he => hne (h.uniq x hx m hm he)
  exact {
    taken := by simpa [takenItems] using h.taken
    topNd := h.topNd
    drain := by
      intro hf
      have := h.drain hf
      simpa [drained, takenItems, srcEnded] using this
    memLt := by
      intro x hx
      rcases mem_setMember.mp hx with ⟨hx, _⟩ | ⟨rfl, _⟩
      · exact h.memLt x hx
      · exact h.memLt m hm
    sendI := by
      intro j hj
      obtain ⟨h1, h2, h3⟩ := h.sendI j hj
      refine ⟨h1, ?_, ?_⟩
      · intro x hx
        rcases mem_setMember.mp hx with ⟨hx, _⟩ | ⟨rfl, _⟩
        · exact h2 x hx
        · exact h2 m hm
      · intro st
        simpa [calls] using h3 st
    fresh := by
      intro j hj st
      simpa [calls] using h.fresh j hj st
    uniq := by
      intro m1 hm1 m2 hm2 he
      rcases mem_setMember.mp hm1 with ⟨hm1, hn1⟩ | ⟨rfl, _⟩ <;>
        rcases mem_setMember.mp hm2 with ⟨hm2, hn2⟩ | ⟨rfl, _⟩
      · exact h.uniq m1 hm1 m2 hm2 he
      · exact absurd he (hother m1 hm1 hn1)
      · exact absurd he.symm (hother m2 hm2 hn2)
      · rfl
    memE := by
      intro x hx
      rcases mem_setMember.mp hx with ⟨hx, hn⟩ | ⟨rfl, _⟩
      · exact (h.memE x hx).work_mono k _
      · obtain ⟨e1, e2, e3, e4⟩ := h.memE m hm
        obtain ⟨e5, e6⟩ := e4 k hcur
        refine ⟨?_, ?_, ?_, ?_⟩
        · intro st hst
          simp only at hst ⊢
          by_cases hlt : st < m.stage
          · exact stageDone_work_mono t k _ st m.j (e1 st hlt)
          · have : st = m.stage := by omega
            subst this
            exact stageDone_work_now t k ok v _ m.j e5 e6
        · intro st hst
          simp only at hst ⊢
          simpa [calls] using e2 st (by omega)
        · intro _
          simpa [calls] using e2 (m.stage + 1) (by omega)
        · intro k' hk'; simp at hk'
    tri := by
      intro hr hd j hj
      simp only at hr hd hj ⊢
      rcases h.tri hr hd j hj with ⟨x, hx, hxj⟩ | h1 | h1
      · by_cases hxm : x = m
        · subst hxm
          exact Or.inl ⟨{ x with stage := x.stage + 1, cur := none },
            mem_setMember.mpr (Or.inr ⟨rfl, hm⟩), hxj⟩
        · exact Or.inl ⟨x, mem_setMember.mpr (Or.inl ⟨hx, hxm⟩), hxj⟩
      · exact Or.inr (Or.inl h1)
      · exact Or.inr (Or.inr (fun st hst => stageDone_work_mono t k _ st j (h1 st hst)))
    liveB := by simpa only [created, droppedW] using h.liveB
    liveA := by
      intro hc k' hk' hr
      obtain ⟨hne, hr'⟩ := resultOf_ready_none hr
      obtain ⟨x, hx, hxc⟩ := h.liveA hc k' hk' hr'
      have : x ≠ m := by
        intro he; subst he; rw [hcur] at hxc; cases hxc; exact hne rfl
      exact ⟨x, mem_setMember.mpr (Or.inl ⟨hx, this⟩), hxc⟩
    ndC := by simpa only [created, droppedW] using h.ndC
    cnt := by
      intro hc
      simp only [length_setMember]
      exact h.cnt hc }

/-! ### work future `k` of member `m` resolves, it was the last stage: `m` leaves the bag -/

theorem Inv.complete1 {c : Cfg} {s : St} {t : List CoEv} (h : Inv c s t) (m : Member)
    (hm : m ∈ s.members) (k : Nat) (hcur : m.cur = some k) (hlast : ¬ (m.stage + 1 < c.stages))
    (ok : Bool) (v : Nat) (cnt' : Nat) (hcnt : c.hasTermClosure = true → cnt' = s.count - 1) :
    Inv c { s with members := s.members.filter (· != m), count := cnt' }
      (.work k (.ready ok v) :: t) := by
  have hsub : ∀ x, x ∈ s.members.filter (· != m) → x ∈ s.members ∧ x ≠ m := by
    intro x hx
    simpa using hx
  exact {
    taken := by simpa [takenItems] using h.taken
    topNd := h.topNd
    drain := by
      intro hf
      have := h.drain hf
      simpa [drained, takenItems, srcEnded] using this
    memLt := fun x hx => h.memLt x (hsub x hx).1
    sendI := by
      intro j hj
      obtain ⟨h1, h2, h3⟩ := h.sendI j hj
      refine ⟨h1, fun x hx => h2 x (hsub x hx).1, ?_⟩
      intro st
      simpa [calls] using h3 st
    fresh := by
      intro j hj st
      simpa [calls] using h.fresh j hj st
    uniq := fun m1 hm1 m2 hm2 he => h.uniq m1 (hsub m1 hm1).1 m2 (hsub m2 hm2).1 he
    memE := fun x hx => (h.memE x (hsub x hx).1).work_mono k _
    tri := by
      intro hr hd j hj
      simp only at hr hd hj ⊢
      rcases h.tri hr hd j hj with ⟨x, hx, hxj⟩ | h1 | h1
      · by_cases hxm : x = m
        · subst hxm
          refine Or.inr (Or.inr ?_)
          obtain ⟨e1, e2, e3, e4⟩ := h.memE x hm
          obtain ⟨e5, e6⟩ := e4 k hcur
          intro st hst
          subst hxj
          by_cases hlt : st < x.stage
          · exact stageDone_work_mono t k _ st x.j (e1 st hlt)
          · have : st = x.stage := by omega
            subst this
            exact stageDone_work_now t k ok v _ x.j e5 e6
        · exact Or.inl ⟨x, by simp [hx, hxm], hxj⟩
      · exact Or.inr (Or.inl h1)
      · exact Or.inr (Or.inr (fun st hst => stageDone_work_mono t k _ st j (h1 st hst)))
    liveB := by simpa only [created, droppedW] using h.liveB
    liveA := by
      intro hc k' hk' hr
      obtain ⟨hne, hr'⟩ := resultOf_ready_none hr
      obtain ⟨x, hx, hxc⟩ := h.liveA hc k' hk' hr'
      have : x ≠ m := by
        intro he; subst he; rw [hcur] at hxc; cases hxc; exact hne rfl
      exact ⟨x, by simp [hx, this], hxc⟩
    ndC := by simpa only [created, droppedW] using h.ndC
    cnt := by
      intro hc
      obtain ⟨h1, h2⟩ := h.cnt hc
      have := length_filter_ne_lt hm
      simp only [hcnt hc]
      refine ⟨by omega, ?_⟩
      intro l hl
      have := h2 l hl
      omega }

/-! ### work future `k` is dropped (after it resolved, or by cancellation) -/

theorem Inv.workDrop {c : Cfg} {s : St} {t : List CoEv} (h : Inv c s t) (k : Nat)
    (hg : ¬ (s.members.any (fun m => m.cur = some k) = true ∧ running s.ctrl = true ∧
              s.dropped = false)) :
    Inv c { s with live := s.live.filter (· != k),
                   members := s.members.filter (fun m => m.cur != some k) }
      (.workDrop k :: t) := by
  have hsub : ∀ x, x ∈ s.members.filter (fun m => m.cur != some k) → x ∈ s.members := by
    intro x hx
    exact (List.mem_filter.mp hx).1
  exact {
    taken := by simpa [takenItems] using h.taken
    topNd := h.topNd
    drain := by
      intro hf
      have := h.drain hf
      simpa [drained, takenItems, srcEnded] using this
    memLt := fun x hx => h.memLt x (hsub x hx)
    sendI := by
      intro j hj
      obtain ⟨h1, h2, h3⟩ := h.sendI j hj
      refine ⟨h1, fun x hx => h2 x (hsub x hx), ?_⟩
      intro st
      simpa [calls] using h3 st
    fresh := by
      intro j hj st
      simpa [calls] using h.fresh j hj st
    uniq := fun m1 hm1 m2 hm2 he => h.uniq m1 (hsub m1 hm1) m2 (hsub m2 hm2) he
    memE := by
      intro x hx
      have := h.memE x (hsub x hx)
      unfold MemOk at *
      simpa only [stageDone_workDrop, calls, futOf] using this
    tri := by
      intro hr hd j hj
      simp only at hr hd hj ⊢
      have hno : ∀ x ∈ s.members, x.cur ≠ some k := by
        intro x hx hxc
        apply hg
        refine ⟨?_, hr, hd⟩
        simp only [List.any_eq_true, decide_eq_true_eq]
        exact ⟨x, hx, hxc⟩
      rcases h.tri hr hd j hj with ⟨x, hx, hxj⟩ | h1 | h1
      · exact Or.inl ⟨x, by simp [hx, hno x hx], hxj⟩
      · exact Or.inr (Or.inl h1)
      · exact Or.inr (Or.inr (by simpa only [stageDone_workDrop] using h1))
    liveB := by
      intro k' hk' hd
      simp only [created, droppedW, Bool.or_eq_false_iff, decide_eq_false_iff_not] at hk' hd
      simp only [List.mem_filter, bne_iff_ne, ne_eq]
      exact ⟨h.liveB k' hk' hd.2, fun he => hd.1 he.symm⟩
    liveA := by
      intro hc k' hk' hr
      simp only [List.mem_filter, bne_iff_ne, ne_eq] at hk'
      simp only [resultOf] at hr
      obtain ⟨x, hx, hxc⟩ := h.liveA hc k' hk'.1 hr
      refine ⟨x, ?_, hxc⟩
      simp only [List.mem_filter, bne_iff_ne, ne_eq, hx, true_and, hxc, Option.some.injEq]
      exact hk'.2
    ndC := by
      have hs : (List.filter (fun k' => !droppedW (.workDrop k :: t) k') (created (.workDrop k :: t))).Sublist
          (List.filter (fun k' => !droppedW t k') (created t)) := by
        have : List.filter (fun k' => !droppedW (.workDrop k :: t) k') (created (.workDrop k :: t))
            = List.filter (fun k' => k != k') (List.filter (fun k' => !droppedW t k') (created t)) := by
          rw [List.filter_filter]
          simp only [created]
          apply List.filter_congr
          intro x _
          simp only [droppedW]
          by_cases hx : k = x <;> simp [hx]
        rw [this]
        exact List.filter_sublist
      exact List.Nodup.sublist hs h.ndC
    cnt := by
      intro hc
      obtain ⟨h1, h2⟩ := h.cnt hc
      have := List.length_filter_le (fun m : Member => m.cur != some k) s.members
      exact ⟨by simp only; omega, h2⟩ }

end CoC13
end Fc
