/-
  FcLemmas/C06.lean — race: as long as the race is live no child has resolved; the poll in which
  the first child resolves returns that child's value at once and kills the race; children are
  only released inside the drop segment.
-/
import FcLemmas.Seg
set_option linter.unusedSimpArgs false
set_option linter.unusedVariables false

namespace Fc
namespace C06
open Mon Fix

/-! ### how the C06 observations see the segments the engine appends -/

theorem holds_fires (l t : List Ev) (hl : ∀ e ∈ l, isFireEv e = true) :
    holds_C06 (l ++ t) = holds_C06 t :=
  skip_seg holds_C06 isFireEv (fun e t h => by cases e <;> simp_all [isFireEv, holds_C06]) l hl t

/-- nothing resolved at all, so nothing resolved since the latest `pollBegin` -/
theorem readies_sincePoll_nil (t : List Ev) (h : readies t = []) : readies (sincePoll t) = [] := by
  induction t with
  | nil => rfl
  | cons e t ih =>
    cases e with
    | pollBegin w => rfl
    | childEnd c r =>
      cases r with
      | ready ok v => simp [readies] at h
      | _ => simpa [sincePoll, readies] using ih (by simpa [readies] using h)
    | _ => simpa [sincePoll, readies] using ih (by simpa [readies] using h)

/-- one child poll without ownership events: the values seen -/
theorem readies_pollSeg (c slot : Nat) (wk : Wk) (l : List Ev) (r : Res) (t : List Ev)
    (hl : ∀ e ∈ l, isFireEv e = true) :
    readies (pollSeg c slot wk l r [] t) =
      match r with
      | .ready _ v => v :: readies t
      | _ => readies t := by
  have h : readies (l ++ .childBegin c slot wk :: t) = readies t := by
    rw [readies_fires _ _ hl]; simp [readies]
  unfold pollSeg
  cases r <;> simp [readies, h]

/-- one child poll without ownership events: the values seen since the latest `pollBegin` -/
theorem readies_sincePoll_pollSeg (c slot : Nat) (wk : Wk) (l : List Ev) (r : Res) (t : List Ev)
    (hl : ∀ e ∈ l, isFireEv e = true) :
    readies (sincePoll (pollSeg c slot wk l r [] t)) =
      match r with
      | .ready _ v => v :: readies (sincePoll t)
      | _ => readies (sincePoll t) := by
  have h : readies (sincePoll (l ++ .childBegin c slot wk :: t)) = readies (sincePoll t) := by
    rw [sincePoll_fires _ _ hl, readies_fires _ _ hl]; simp [sincePoll, readies]
  unfold pollSeg
  cases r <;> simp [sincePoll, readies, h]

/-- one child poll without ownership events: the monitor checks that nothing had resolved -/
theorem holds_pollSeg (c slot : Nat) (wk : Wk) (l : List Ev) (r : Res) (t : List Ev)
    (hl : ∀ e ∈ l, isFireEv e = true) :
    holds_C06 (pollSeg c slot wk l r [] t) = (holds_C06 t && readies t == []) := by
  unfold pollSeg
  simp only [List.reverse_nil, List.nil_append, holds_C06]
  rw [holds_fires _ _ hl]
  simp [holds_C06]

theorem alive_pollSeg (c slot : Nat) (wk : Wk) (l : List Ev) (r : Res) (t : List Ev)
    (hl : ∀ e ∈ l, isFireEv e = true) :
    alive (pollSeg c slot wk l r [] t) = alive t := by
  unfold pollSeg
  simp only [List.reverse_nil, List.nil_append, alive]
  rw [alive_fires _ _ hl]
  simp [alive]

/-- the drop segment: every `childDropped` comes after `dropBegin` -/
theorem drop_seg (l t : List Ev) (hl : ∀ e ∈ l, ∃ c, e = Ev.childDropped c) :
    holds_C06 (l ++ .dropBegin :: t) = holds_C06 t ∧ alive (l ++ .dropBegin :: t) = false := by
  induction l with
  | nil => simp [holds_C06, alive]
  | cons e l ih =>
    obtain ⟨c, rfl⟩ := hl e (List.mem_cons_self ..)
    have := ih (fun e' he' => hl e' (List.mem_cons_of_mem _ he'))
    simp [holds_C06, alive, this.1, this.2]

/-! ### the invariant -/

structure Inv (s : Fix) (t : List Ev) : Prop where
  mon : holds_C06 t = true
  /-- a live race has seen no child resolve, and has not been dropped -/
  live : s.dead = false → readies t = [] ∧ alive t = true
  /-- a dead race returned its result, unwound, or was dropped -/
  dead : s.dead = true → spent false t = true

def J (s : Fix) (t : List Ev) (_ : List Nat) : Prop := Inv s t ∧ s.dead = false

theorem inv_fireEv {s t} (e : Ev) (he : isFireEv e = true) (h : Inv s t) : Inv s (e :: t) := by
  have hl : ∀ e' ∈ [e], isFireEv e' = true := by simpa using he
  have e1 := holds_fires [e] t hl
  have e2 := readies_fires [e] t hl
  have e3 := spent_fires false [e] t hl
  have e4 := alive_fires [e] t hl
  simp only [List.singleton_append] at e1 e2 e3 e4
  exact ⟨by rw [e1]; exact h.mon, fun hd => by rw [e2, e4]; exact h.live hd,
    fun hd => by rw [e3]; exact h.dead hd⟩

theorem inv_pb {s t} (w : Nat) (h : Inv s t) : Inv s (.pollBegin w :: t) := by
  refine ⟨by simpa [holds_C06] using h.mon, fun hd => ?_, fun hd => ?_⟩
  · simpa [readies, alive] using h.live hd
  · have := h.dead hd
    simpa [spent, finalSeen, alive, panickedSeen] using this

theorem inv_misuse {s t} (w : Nat) (h : Inv s t) (hd : s.dead = true) :
    Inv s (.pollEnd .misuse :: .pollBegin w :: t) := by
  have hsp := (inv_pb w h).dead hd
  refine ⟨?_, fun hd' => absurd hd' (by simp [hd]), fun _ => ?_⟩
  · simp only [holds_C06, c06At, Bool.and_eq_true]
    exact ⟨by simpa [holds_C06] using h.mon, hsp⟩
  · simpa [spent, finalSeen, alive, panickedSeen] using hsp

/-- a child that did not resolve: the race goes on -/
theorem keep_ok {s t} (h : Inv s t) (hd : s.dead = false) (c slot : Nat) (wk : Wk) (l : List Ev)
    (r : Res) (hl : ∀ e ∈ l, isFireEv e = true) (hr : ∀ ok v, r ≠ .ready ok v) :
    Inv s (pollSeg c slot wk l r [] t) := by
  obtain ⟨hre, hal⟩ := h.live hd
  refine ⟨?_, fun _ => ⟨?_, ?_⟩, fun hd' => absurd hd' (by simp [hd])⟩
  · rw [holds_pollSeg c slot wk l r t hl]; simp [h.mon, hre]
  · rw [readies_pollSeg c slot wk l r t hl]
    cases r with
    | ready ok v => exact absurd rfl (hr ok v)
    | _ => exact hre
  · rw [alive_pollSeg c slot wk l r t hl]; exact hal

/-- the first child to resolve: the race returns its value in this very poll -/
theorem win_ok {s t} (h : Inv s t) (hd : s.dead = false) (c slot : Nat) (wk : Wk) (l : List Ev)
    (ok : Bool) (v : Nat) (hl : ∀ e ∈ l, isFireEv e = true) (s' : Fix) (hdead : s'.dead = true) :
    Inv s' (.pollEnd (.ready true [v]) :: pollSeg c slot wk l (.ready ok v) [] t) := by
  obtain ⟨hre, _⟩ := h.live hd
  refine ⟨?_, fun hd' => absurd hd' (by simp [hdead]), fun _ => by simp [spent, finalSeen]⟩
  simp only [holds_C06, c06At]
  rw [holds_pollSeg c slot wk l _ t hl, readies_pollSeg c slot wk l _ t hl,
    readies_sincePoll_pollSeg c slot wk l _ t hl, hre, readies_sincePoll_nil t hre]
  simp [h.mon]

theorem inv_panic {s t} (h : Inv s t) (hd : s.dead = false) (c slot : Nat) (wk : Wk) (l : List Ev)
    (hl : ∀ e ∈ l, isFireEv e = true) (s' : Fix) (hdead : s'.dead = true) :
    Inv s' (.pollEnd .panicked :: pollSeg c slot wk l .panic [] t) := by
  obtain ⟨hre, _⟩ := h.live hd
  refine ⟨?_, fun hd' => absurd hd' (by simp [hdead]), fun _ => by simp [spent, panickedSeen]⟩
  simp only [holds_C06, c06At, Bool.and_true]
  rw [holds_pollSeg c slot wk l _ t hl]; simp [h.mon, hre]

/-- the scan is over and nobody resolved: `Pending` -/
theorem pend_ok {s t} (h : Inv s t) (hd : s.dead = false) : Inv s (.pollEnd .pending :: t) := by
  obtain ⟨hre, hal⟩ := h.live hd
  refine ⟨?_, fun _ => ?_, fun hd' => absurd hd' (by simp [hd])⟩
  · simp [holds_C06, c06At, h.mon, hre]
  · simpa [readies, alive] using And.intro hre hal

theorem inv_drop {s t} (h : Inv s t) (evs : List Ev) (he : ∀ e ∈ evs, ∃ c, e = Ev.childDropped c)
    (s' : Fix) (hdead : s'.dead = true) :
    Inv s' (.dropEnd :: (evs.reverse ++ .dropBegin :: t)) := by
  obtain ⟨h1, h2⟩ := drop_seg evs.reverse t (fun e h => he e (List.mem_reverse.mp h))
  refine ⟨?_, fun hd' => absurd hd' (by simp [hdead]), fun _ => ?_⟩
  · simp only [holds_C06]; rw [h1]; exact h.mon
  · have : alive (.dropEnd :: (evs.reverse ++ .dropBegin :: t)) = false := by
      simp only [alive]; exact h2
    simp [spent, this]

/-! ### the Sim instance -/

theorem sim_race (m : Mode) : Sim race m Sim.anyRes Inv J where
  fireEv := fun s t e he h => inv_fireEv e he h
  pre := by
    intro s t w o hpre h
    simp only [race, Fix.misuseIfDead] at hpre
    split at hpre
    · cases hpre; exact inv_misuse w h ‹_›
    · cases hpre
  start := by
    intro s t w hpre h
    have hd : s.dead = false := by
      simp only [race, Fix.misuseIfDead] at hpre
      cases hdd : s.dead <;> simp_all
    have hb := inv_pb w h
    exact ⟨⟨hb.mon, fun _ => hb.live hd, fun hd' => by simp [race, Fix.bump, hd] at hd'⟩,
      by simpa [race, Fix.bump] using hd⟩
  earlyPend := by
    intro s t l _ hor _
    rcases hor with h1 | h1 <;> simp [race] at h1
  skip := fun s t i rest _ hJ => hJ
  goOn := by
    intro s t i rest wk l r hJ hel hr _ hl hex
    obtain ⟨h, hd⟩ := hJ
    cases r with
    | ready ok v => simp [race] at hex
    | pend => exact ⟨keep_ok h hd i i wk l _ hl (by simp), hd⟩
    | item v => exact ⟨keep_ok h hd i i wk l _ hl (by simp), hd⟩
    | fin => exact ⟨keep_ok h hd i i wk l _ hl (by simp), hd⟩
    | panic => exact absurd rfl hr
  goExit := by
    intro s t i rest wk l r o hJ hel hr _ hl hex
    obtain ⟨h, hd⟩ := hJ
    cases r with
    | ready ok v =>
      simp only [race, Option.some.injEq] at hex
      subst hex
      exact win_ok h hd i i wk l ok v hl _ rfl
    | pend => simp [race, Fix.keep] at hex
    | item v => simp [race, Fix.keep] at hex
    | fin => simp [race, Fix.keep] at hex
    | panic => exact absurd rfl hr
  panic := by
    intro s t i rest wk l hJ hel hl
    exact inv_panic hJ.1 hJ.2 i i wk l hl _ rfl
  finish := by
    intro s t hJ
    exact pend_ok hJ.1 hJ.2
  drop := by
    intro s t h
    refine inv_drop h _ ?_ _ rfl
    intro e he
    simp only [race, List.mem_map] at he
    obtain ⟨c, _, rfl⟩ := he
    exact ⟨c, rfl⟩

/-- the initial state -/
theorem inv_init (n : Nat) : Inv (Fix.init n 0) [] :=
  ⟨rfl, fun _ => ⟨rfl, rfl⟩, fun hd => by cases hd⟩

end C06
end Fc
