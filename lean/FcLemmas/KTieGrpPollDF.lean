/-
  FcLemmas/KTieGrpPollDF.lean — alloc-only (no `std`) flavour: `FutureGroup::poll_next_inner` (translated,
  FcGen/KSrcGrpD.lean) refines `Eng.poll group` read through `TieGrpFD.absF` (mode `direct`).

  Port of FcLemmas/KTieGrpPollF.lean.  No flag table, no `HandedOk`.  New: (1) the frame fact `SameRd b.w env` (the
  translated environment leaves `cap` / `bits` / `count` alone; `core` compares them), (2) the model's world is the
  environment with another trace (`retr env tr`, `TrEq tr env.trace`: equal up to the slot annotation of `childBegin`).
-/
import FcLemmas.KTieGrpPollDFEnv
import FcLemmas.KTieGrpPollF
set_option linter.unusedSimpArgs false
set_option linter.unusedVariables false
namespace Fc
open Rs Src
namespace TieGrpFD
open GrpFD TieMergeVD

local macro "unroles" : tactic =>
  `(tactic| try simp only [FutureGroup.roleSlab, FutureGroup.roleWakers, FutureGroup.roleStates,
      FutureGroup.roleKeys, FutureGroup.roleCapacity, DirVec.ReadinessVec.roleParent] at *)

/-- the carried variables of the loop read as the model state; `s0`: what the crate does not store, `B`: the world whose
    flag fields the abstraction shows -/
def RelF (s0 : Grp) (B : World) (l : List Nat) (x : FutureGroup × World × Rs.Poll (Option (Nat × Nat)))
    (e : Eng Grp) : Prop :=
  x.2.2 = .pending ∧ WfG x.1 ∧ GoodKeys x.1 ∧ (∀ k ∈ l, k ∈ x.1.roleKeys.elems) ∧
  (∃ q, x.1.roleWakers.readiness.roleParent = some q) ∧ FutSteps x.2.1 ∧ SameRd B x.2.1 ∧
  ∃ tr, TrEq tr x.2.1.trace ∧ e = absF x.1 ⟨retr x.2.1 tr, s0⟩

/-- after the iteration that found a finished member `k` (its key is still in the key set) -/
def FinF (s0 : Grp) (B : World) (x : FutureGroup × World × Rs.Poll (Option (Nat × Nat))) (e : Eng Grp)
    (o : Outcome) : Prop :=
  ∃ k v, x.2.2 = .ready (some (k, v)) ∧ o = .some (s0.outKey k) [v] ∧ WfG x.1 ∧
    FutSteps x.2.1 ∧ SameRd B x.2.1 ∧
    (x.1.roleKeys.elems.filter (· ≠ k)).Nodup ∧
    (∀ k' ∈ x.1.roleKeys.elems.filter (· ≠ k),
        k' < x.1.roleCapacity ∧ k' < x.1.roleSlab.entries ∧ ∃ c, x.1.roleSlab.member k' = some c) ∧
    x.1.roleSlab.len = (x.1.roleKeys.elems.filter (· ≠ k)).length ∧
    ∃ tr, TrEq tr x.2.1.trace ∧
      e = { w := TieDir.absV x.1.roleWakers.readiness (retr x.2.1 tr),
            s := { (absF x.1 ⟨retr x.2.1 tr, s0⟩).s with keys := x.1.roleKeys.elems.filter (· ≠ k) } }

theorem get_tie (g : FutureGroup) (k q : Nat) (h : g.roleWakers.readiness.roleParent = some q) :
    WakerVecD.get g.roleWakers k = some (.par q) := by
  unroles
  simp [WakerVecD.get, DirVec.ReadinessVec.parent_waker_fn, h]

theorem poll_tie_main (g : FutureGroup) (b : Eng Grp) (w : Nat)
    (hw : WfG g) (hk : GoodKeys g) (hf : FutSteps b.w)
    (hst : b.s.stream = false) (hd : b.s.dead = false) (hq : b.s.queue = []) :
    ∃ g' env' ret,
      FutureGroup.poll_next_inner g w ((absF g b).w.emit (.pollBegin w)) = some (g', env', ret) ∧
      WfG g' ∧ GoodKeys g' ∧
      core (absF g' b) = core (Eng.poll group (absF g b) w) ∧
      env'.scripts = (Eng.poll group (absF g b) w).w.scripts ∧
      env'.handed = (Eng.poll group (absF g b) w).w.handed ∧
      TrEq (Eng.poll group (absF g b) w).w.trace (.pollEnd (outcomeOf b.s.keyed ret) :: env'.trace) ∧
      FutSteps env' ∧ SameRd b.w env' ∧
      ((Eng.poll group (absF g b) w).s.stream = false ∧ (Eng.poll group (absF g b) w).s.dead = false ∧
        (Eng.poll group (absF g b) w).s.queue = [] ∧ (Eng.poll group (absF g b) w).s.keyed = b.s.keyed) ∧
      absF g' ⟨env', (Eng.poll group (absF g b) w).s⟩ =
        { (Eng.poll group (absF g b) w) with w := retr (Eng.poll group (absF g b) w).w env'.trace } := by
  have hd' : (absF g b).s.dead = false := hd
  by_cases hne : g.roleSlab.len = 0
  · have hl : (absF g b).s.len = 0 := hne
    rw [poll_model_empty _ _ hd' hl]
    refine ⟨g, (absF g b).w.emit (.pollBegin w), .ready none, ?_, hw, hk, rfl, rfl, rfl, TrEq.refl _, hf,
      ⟨rfl, rfl, rfl⟩, ⟨hst, hd, hq, rfl⟩, rfl⟩
    unfold FutureGroup.poll_next_inner
    simp only [FutureGroup.roleSlab] at hne
    simp [Slab.isEmpty, hne]
  · have hl : (absF g b).s.len ≠ 0 := hne
    obtain ⟨hsl, hsh⟩ := hw
    obtain ⟨r1, hs1, hs3⟩ := (TieDir.vec_tie g.roleWakers.readiness ((absF g b).w.emit (.pollBegin w)) 0 w 0).2.2.2.2.2.2.2.2.1
    have hW : ((absF g b).w.emit (.pollBegin w)).setWaker w
        = TieDir.absV r1 ((absF g b).w.emit (.pollBegin w)) := by rw [hs3]; rfl
    have hp1 : r1.roleParent = some w := by
      have := congrArg World.parent hW
      exact this.symm
    have hany : DirVec.ReadinessVec.any_ready r1 = some true := rfl
    have ha : (((absF g b).w.emit (.pollBegin w)).setWaker w).anyReady = true := rfl
    simp only [FutureGroup.roleSlab, FutureGroup.roleWakers] at hne hs1
    rw [poll_model_loop _ _ hd' hl ha, hW]
    generalize hM : Eng.scan group _ _ = M
    unfold FutureGroup.poll_next_inner
    simp [Slab.isEmpty, hne, hs1, hany]
    generalize hfb : Rs.forBreak _ _ _ = fb
    obtain ⟨s0, hs0⟩ : ∃ s0 : Grp, s0 = { b.s with doneCnt := 0, total := g.roleSlab.len } := ⟨_, rfl⟩
    have H : ∃ s', fb = some s' ∧
        ((M.2 = none ∧ RelF s0 b.w [] s' M.1) ∨ (∃ o, M.2 = some o ∧ FinF s0 b.w s' M.1 o)) := by
      rw [← hM]
      refine forBreak_scan group (RelF s0 b.w) (FinF s0 b.w) _ ?_ _ _ _ _ ?_ hfb
      rotate_left
      · refine ⟨rfl, ⟨hsl, hsh⟩, ⟨hk.nodup, hk.occ, hk.emp, hk.cnt⟩, fun k hk => hk, ⟨w, hp1⟩, hf,
          ⟨rfl, rfl, rfl⟩, _, TrEq.refl _, ?_⟩
        subst hs0; rfl
      clear hfb hM hany ha hW hs3 hs1 hsh hsl hl hne hd' hq hd hst hf hk hp1
      rintro k rest ⟨g2, env2, ret2⟩ e ⟨hret, hw2, hk2, hin, ⟨q, hq2⟩, hf2, hsr2, tr, htr, he⟩
      simp only at hret hw2 hk2 hin hq2 hf2 hsr2 htr he
      subst hret he
      obtain ⟨hsl2, hsh2⟩ := hw2
      obtain ⟨hkc, hke, c, hkm⟩ := hk2.occ k (hin k (by simp))
      have hkl : k < g2.roleStates.len := by rw [hsl2]; exact hkc
      have hps := (TiePS.tie (g2.roleStates.get k)).2.1
      have hin' : ∀ k' ∈ rest, k' ∈ g2.roleKeys.elems := fun k' h => hin k' (List.mem_cons_of_mem _ h)
      by_cases hpend : TiePS.abs (g2.roleStates.get k) = .pending
      · have hset : (absF g2 ⟨retr env2 tr, s0⟩).w.isSet k = true := rfl
        obtain ⟨env'', tr'', hpc, habs'', htr'', hsc'', hsr''⟩ :=
          pollChild_tieS g2.roleWakers.readiness q env2 tr c k
        have hpc' : Rs.pollChild (fun _ r => some (r, [], ())) g2.roleWakers.readiness env2 c (.par q)
            = some (g2.roleWakers.readiness, env'', env2.resOf c) := hpc
        have hget := get_tie g2 k q hq2
        have hf'' : FutSteps env'' := by
          intro c' st hm; rw [hsc''] at hm; exact hf2 c' st (mem_upd_tail hm)
        have hmem : ((absF g2 ⟨retr env2 tr, s0⟩).s.member k).getD 0 = c := by
          show (g2.roleSlab.member k).getD 0 = c
          rw [hkm]; rfl
        have hW2 : ((absF g2 ⟨retr env2 tr, s0⟩).w.clearReady k).pollChild c k
            = TieDir.absV g2.roleWakers.readiness (retr env'' tr'') := by
          rw [absV_eq, hq2, habs'']; 
          show (TieDir.absV g2.roleWakers.readiness (retr env2 tr)).pollChild c k = _
          rw [absV_eq, hq2]
        rcases TieGrpF.FutSteps_res env2 hf2 c with hres | ⟨ok, v, hres⟩
        · rw [visit_go _ k hpend hset (by rw [hmem]; show env2.resOf c ≠ _; rw [hres]; simp)]
          rw [hmem]
          have hres' : (absF g2 ⟨retr env2 tr, s0⟩).w.resOf c = .pend := hres
          rw [hres', hW2]
          simp only [FutureGroup.roleStates, FutureGroup.roleWakers, FutureGroup.roleSlab] at hkl hps hpend hpc' hget hke hkm
          simp [PVec.idx, hkl, hps, hpend, DirVec.ReadinessVec.clear_ready, hget, expect, Slab.get, hke, hkm, pollFut, hpc', hres]
          refine ⟨by simp [group], rfl, ⟨hsl2, hsh2⟩, ⟨hk2.nodup, hk2.occ, hk2.emp, hk2.cnt⟩, hin', ⟨q, hq2⟩,
            hf'', hsr2.trans hsr'', tr'', htr'' htr, ?_⟩
          simp [Eng.applyH, group, World.kop]
          rfl
        · rw [visit_go _ k hpend hset (by rw [hmem]; show env2.resOf c ≠ _; rw [hres]; simp)]
          rw [hmem]
          have hres' : (absF g2 ⟨retr env2 tr, s0⟩).w.resOf c = .ready ok v := hres
          rw [hres', hW2]
          simp only [FutureGroup.roleStates, FutureGroup.roleWakers, FutureGroup.roleSlab] at hkl hps hpend hpc' hget hke hkm
          simp [PVec.idx, PVec.set, Slab.remove, hkl, hps, hpend, DirVec.ReadinessVec.clear_ready, hget, expect, Slab.get, hke, hkm, pollFut, hpc', hres]
          have hkin : k ∈ g2.roleKeys.elems := hin k (by simp)
          have hlen := length_filter_ne _ k hk2.nodup hkin
          refine ⟨_, rfl, k, v, rfl, rfl, ⟨hsl2, ?_⟩, hf'', hsr2.trans hsr'', hk2.nodup.filter _, ?_, ?_,
            .childDropped c :: tr'', (htr'' htr).cons _, ?_⟩
          · intro j hj
            show (if j = k then PS.PollState.none_ else g2.roleStates.get j) = _
            split
            · rfl
            · exact hsh2 j hj
          · intro k' hk'
            obtain ⟨h1, h2⟩ := List.mem_filter.mp hk'
            have hne : k' ≠ k := by simpa using h2
            obtain ⟨a1, a2, c', a3⟩ := hk2.occ k' h1
            refine ⟨a1, a2, c', ?_⟩
            show (if k' = k then none else g2.roleSlab.member k') = _
            rw [if_neg hne]; exact a3
          · have := hk2.cnt
            show g2.roleSlab.len - 1 = (List.filter (· ≠ k) g2.roleKeys.elems).length
            omega
          · simp [Eng.applyH, group, World.kop, Grp.slabRemove, World.emits, World.emit, absF, TieDir.absV, retr, hkm]
            refine ⟨?_, ?_, ?_⟩ <;> (funext j; by_cases hj : j = k <;> simp [upd, hj, TiePS.abs])
      · rw [visit_skip _ k hpend]
        simp only [FutureGroup.roleStates] at hkl hps hpend
        simp [PVec.idx, hkl, hps, hpend]
        exact ⟨rfl, ⟨hsl2, hsh2⟩, hk2, hin', ⟨q, hq2⟩, hf2, hsr2, tr, htr, rfl⟩
    obtain ⟨⟨g3, env3, ret3⟩, rfl, hS⟩ := H
    clear hfb hM
    obtain ⟨M1, M2⟩ := M
    have hkeyed : s0.keyed = b.s.keyed := by rw [hs0]
    have hstream : s0.stream = false := by rw [hs0]; exact hst
    have hqueue : s0.queue = [] := by rw [hs0]; exact hq
    have hdead : s0.dead = false := by rw [hs0]; exact hd
    rcases hS with ⟨hM2, hret, hw3, hk3, -, -, hf3, hsr3, tr, htr, hM1⟩ |
      ⟨o, hM2, k, v, hret, ho, hw3, hf3, hsr3, hnd, hocc, hcnt, tr, htr, hM1⟩
    · simp only at hM2 hret hw3 hk3 hM1 hf3 hsr3 htr
      subst hM2 hret hM1
      obtain ⟨c1, c2, c3⟩ := hsr3
      refine ⟨g3, env3, .pending, by simp, hw3, hk3, ?_, ?_, ?_, ?_, hf3, ⟨c1, c2, c3⟩, ?_, ?_⟩
      · simp [Eng.close, group, Eng.applyH, Eng.emit, World.kop, Grp.flushQueue, core, absF, hqueue, hq, hstream,
          TieDir.absV, retr, c1, c2, c3]
        exact (List.filter_eq_self.mpr (fun _ _ => rfl)).symm
      · simp [Eng.close, group, Eng.applyH, Eng.emit, World.kop, Grp.flushQueue, core, absF, hqueue, hq, hstream]
        rfl
      · simp [Eng.close, group, Eng.applyH, Eng.emit, World.kop, Grp.flushQueue, core, absF, hqueue, hq, hstream]
        rfl
      · simp [Eng.close, group, Eng.applyH, Eng.emit, World.kop, Grp.flushQueue, core, absF, hqueue, hq, hstream, outcomeOf]
        exact htr.cons _
      · simp [Eng.close, group, Eng.applyH, Eng.emit, World.kop, Grp.flushQueue, absF, hqueue, hq, hstream, hdead, hkeyed]
      · simp [Eng.close, group, Eng.applyH, Eng.emit, World.kop, Grp.flushQueue, absF, hqueue, hq, hstream, hdead, hkeyed,
          TieDir.absV, retr, World.emit]
        exact (List.filter_eq_self.mpr (fun _ _ => rfl)).symm
    · simp only at hM2 hret ho hw3 hnd hocc hcnt hM1 hf3 hsr3 htr
      subst hM2 hret hM1 ho
      obtain ⟨c1, c2, c3⟩ := hsr3
      refine ⟨_, env3, .ready (some (k, v)), by simp; rfl, ?_, ?_, ?_, ?_, ?_, ?_, hf3, ⟨c1, c2, c3⟩, ?_, ?_⟩
      · obtain ⟨a3, a4⟩ := hw3
        exact ⟨a3, a4⟩
      · refine ⟨hnd, hocc, ?_, hcnt⟩
        show g3.roleSlab.len = 0 ↔ List.filter (· ≠ k) g3.roleKeys.elems = []
        rw [hcnt]; exact List.length_eq_zero_iff
      · simp [Eng.close, group, Eng.applyH, Eng.emit, World.kop, Grp.flushQueue, core, absF, hqueue, hq, hstream,
          TieDir.absV, retr, BTree.remove, c1, c2, c3]
      · simp [Eng.close, Eng.emit]
        rfl
      · simp [Eng.close, Eng.emit]
        rfl
      · simp [Eng.close, Eng.emit, outcomeOf, Grp.outKey, hkeyed]
        exact htr.cons _
      · simp [Eng.close, group, Eng.applyH, Eng.emit, World.kop, Grp.flushQueue, absF, hqueue, hq, hstream, hdead, hkeyed]
      · simp [Eng.close, group, Eng.applyH, Eng.emit, World.kop, Grp.flushQueue, absF, hqueue, hq, hstream, hdead, hkeyed,
          TieDir.absV, retr, World.emit, BTree.remove]
end TieGrpFD
end Fc
