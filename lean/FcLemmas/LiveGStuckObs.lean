/-
  FcLemmas/LiveGStuckObs.lean — liveness of the groups when some members NEVER complete
  (Fc/ExecGStuck.lean): the World-aware parts of the run invariant, weakened as in
  FcLemmas/LiveStuck*.lean, with their preservation by one member poll.

  * `WGS` is `LiveG.WG` with a two-way member clause — a member follows a well-behaved script (and
    the script it was inserted with, `sc0`, is well-behaved) or a `Pending`-only script (and `sc0` is
    not well-behaved) — and two clauses about delivery: a released id has no step left and was
    well-behaved (`lf`: a slot is vacated only when its member resolved / ended), and what an id has
    answered so far plus what its script still holds is what `sc0` holds (`dl`);
  * `PBS` is `LiveG.PB` with: a member polled in this poll has consumed a step IF IT HAD ONE, and the
    task waker was only invoked after some member CONSUMED a step (an exhausted member answers
    `Pending` and fires nothing).
-/
import FcLemmas.LiveGAnyRefill
import FcLemmas.LiveStuckStr
import Fc.ExecGStuck
set_option linter.unusedSimpArgs false
set_option linter.unusedVariables false

namespace Fc

/-- a member script that is well-behaved or never completes -/
def okScript (stream : Bool) (l : List Step) : Bool := wbScript stream l || Exec.pendScript l

namespace LiveGStuck
open Mon Live Live3 LiveG

/-! ### scripts -/

theorem pend_cons (s : Step) (rest : List Step) (h : Exec.pendScript (s :: rest) = true) :
    s.res = .pend ∧ Exec.pendScript rest = true := by
  simpa [Exec.pendScript] using h

theorem pend_resOf (w : World) (c : Nat) (h : Exec.pendScript (w.scripts c) = true) :
    w.resOf c = .pend ∧ Exec.pendScript (w.scripts c).tail = true := by
  unfold World.resOf World.stepOf
  cases hs : w.scripts c with
  | nil => exact ⟨rfl, rfl⟩
  | cons s rest =>
    rw [hs] at h
    exact pend_cons s rest h

theorem pend_fits {stream : Bool} : ∀ (l : List Step), Exec.pendScript l = true →
    ∀ st ∈ l, st.res.fits stream = true := by
  intro l h st hst
  have : st.res = .pend := by
    simp only [Exec.pendScript, List.all_eq_true, beq_iff_eq] at h
    exact h st hst
  rw [this]; rfl

theorem ok_fits {stream : Bool} (l : List Step) (h : okScript stream l = true) :
    ∀ st ∈ l, st.res.fits stream = true := by
  simp only [okScript, Bool.or_eq_true] at h
  rcases h with h | h
  · exact wb_fits l h
  · exact pend_fits l h

/-- a well-behaved script is not a `Pending`-only script -/
theorem wb_not_pend {stream : Bool} : ∀ (l : List Step), wbScript stream l = true →
    Exec.pendScript l = false := by
  intro l
  induction l with
  | nil => intro h; exact absurd rfl (wb_ne_nil _ h)
  | cons s rest ih =>
    intro h
    rcases wb_cons s rest h with ⟨_, h2⟩ | ⟨_, _, h3⟩
    · have : s.res ≠ .pend := by
        rcases h2 with ⟨_, hr⟩ | ⟨_, ok, v, hr⟩ <;> rw [hr] <;> simp
      simp [Exec.pendScript, this]
    · have := ih h3
      simp only [Exec.pendScript, List.all_cons, Bool.and_eq_false_iff]
      exact Or.inr this

/-! ### what an id has delivered -/

/-- the values id `c` has answered so far (outputs / items), newest first -/
def valsOf (c : Nat) : List Ev → List Nat
  | [] => []
  | .childEnd c' r :: t => if c' = c then Exec.resVals r ++ valsOf c t else valsOf c t
  | _ :: t => valsOf c t

theorem valsOf_fires (c : Nat) (l t : List Ev) (hl : ∀ e ∈ l, isFireEv e = true) :
    valsOf c (l ++ t) = valsOf c t :=
  skip_seg (valsOf c) isFireEv (fun e t h => by cases e <;> simp_all [isFireEv, valsOf]) l hl t

theorem valsOf_pollChild (w : World) (c s j : Nat) :
    valsOf j (w.pollChild c s).trace
      = (if c = j then Exec.resVals (w.resOf c) else []) ++ valsOf j w.trace := by
  obtain ⟨l, hl, hp⟩ := World.pollChild_seg w c s
  rw [hl]
  have h : valsOf j (l ++ .childBegin c s (w.wakerFor s) :: w.trace) = valsOf j w.trace := by
    rw [valsOf_fires _ _ _ hp]; simp [valsOf]
  by_cases hcj : c = j
  · subst hcj
    simp [valsOf, h]
  · simp [valsOf, h, hcj]

theorem scriptVals_step (w : World) (i : Nat) :
    Exec.scriptVals (w.scripts i)
      = Exec.resVals (w.resOf i) ++ Exec.scriptVals (w.scripts i).tail := by
  unfold World.resOf World.stepOf
  cases hs : w.scripts i with
  | nil => simp [Exec.scriptVals, Exec.resVals]
  | cons s rest => simp [Exec.scriptVals]

/-- the values of one id form a subsequence of all produced values -/
theorem valsOf_sublist (c : Nat) : ∀ t : List Ev, (valsOf c t).Sublist (producedVals t) := by
  intro t
  induction t with
  | nil => exact List.Sublist.slnil
  | cons e t ih =>
    cases e with
    | childEnd c' r =>
      cases r with
      | item v =>
        simp only [valsOf, producedVals, Exec.resVals]
        split
        · exact ih.cons_cons v
        · exact ih.cons v
      | ready ok v =>
        simp only [valsOf, producedVals, Exec.resVals]
        split
        · exact ih.cons_cons v
        · exact ih.cons v
      | _ => simpa [valsOf, producedVals, Exec.resVals] using ih
    | _ => simpa [valsOf, producedVals] using ih

/-- an exhausted child answers `Pending` and fires nothing -/
theorem pollChild_trace_nil (w : World) (c k : Nat) (h : w.scripts c = []) :
    (w.pollChild c k).trace = .childEnd c .pend :: .childBegin c k (w.wakerFor k) :: w.trace := by
  unfold World.pollChild World.resOf World.stepOf
  rw [h]
  rfl

/-! ### the members -/

structure WGS (stream : Bool) (sc0 : Nat → List Step) (mem : Nat → Option Nat) (w : World) :
    Prop where
  mem : ∀ k c, mem k = some c →
    ((wbScript stream (w.scripts c) = true ∧ wbScript stream (sc0 c) = true) ∨
     (Exec.pendScript (w.scripts c) = true ∧ wbScript stream (sc0 c) = false)) ∧
    Act (lastRes w.trace c) ∧ gone w.trace c = false
  hw  : ∀ c, (w.handed c).head? = lastWk w.trace c
  lw  : ∀ c, lastRes w.trace c ≠ none → lastWk w.trace c ≠ none
  ep  : ∀ c, everPolled w.trace c = true → lastRes w.trace c ≠ none
  /-- a slot is vacated only when its member resolved / ended -/
  lf  : ∀ c, gone w.trace c = true → w.scripts c = [] ∧ wbScript stream (sc0 c) = true
  /-- delivered so far ++ still scripted = scripted at the start -/
  dl  : ∀ c, (valsOf c w.trace).reverse ++ Exec.scriptVals (w.scripts c) = Exec.scriptVals (sc0 c)

variable {stream : Bool} {sc0 : Nat → List Step}

theorem wgs_congr {mem : Nat → Option Nat} {w w' : World}
    (hs : w'.scripts = w.scripts) (hh : w'.handed = w.handed) (ht : w'.trace = w.trace)
    (h : WGS stream sc0 mem w) : WGS stream sc0 mem w' :=
  ⟨by rw [hs, ht]; exact h.mem, by rw [hh, ht]; exact h.hw, by rw [ht]; exact h.lw,
    by rw [ht]; exact h.ep, by rw [hs, ht]; exact h.lf, by rw [hs, ht]; exact h.dl⟩

theorem wgs_sub {mem mem' : Nat → Option Nat} {w : World}
    (hm : ∀ k c, mem' k = some c → mem k = some c) (h : WGS stream sc0 mem w) :
    WGS stream sc0 mem' w :=
  ⟨fun k c hk => h.mem k c (hm k c hk), h.hw, h.lw, h.ep, h.lf, h.dl⟩

theorem wgs_emit {mem : Nat → Option Nat} {w : World} (e : Ev)
    (hn : wgNeutral e = true) (h : WGS stream sc0 mem w) : WGS stream sc0 mem (w.emit e) := by
  have h1 : ∀ c, lastRes (e :: w.trace) c = lastRes w.trace c := by
    intro c; cases e <;> simp_all [wgNeutral, lastRes]
  have h2 : ∀ c, lastWk (e :: w.trace) c = lastWk w.trace c := by
    intro c; cases e <;> simp_all [wgNeutral, lastWk]
  have h3 : ∀ c, gone (e :: w.trace) c = gone w.trace c := by
    intro c; cases e <;> simp_all [wgNeutral, gone]
  have h4 : ∀ c, everPolled (e :: w.trace) c = everPolled w.trace c := by
    intro c; cases e <;> simp_all [wgNeutral, everPolled]
  have h5 : ∀ c, valsOf c (e :: w.trace) = valsOf c w.trace := by
    intro c; cases e <;> simp_all [wgNeutral, valsOf]
  refine ⟨?_, ?_, ?_, ?_, ?_, ?_⟩
  · intro k c hk; simp only [World.emit_trace, World.emit_scripts, h1, h3]; exact h.mem k c hk
  · intro c; simp only [World.emit_trace, World.emit_handed, h2]; exact h.hw c
  · intro c; simp only [World.emit_trace, h1, h2]; exact h.lw c
  · intro c; simp only [World.emit_trace, h1, h4]; exact h.ep c
  · intro c; simp only [World.emit_trace, World.emit_scripts, h3]; exact h.lf c
  · intro c; simp only [World.emit_trace, World.emit_scripts, h5]; exact h.dl c

/-- polling the member `c` of slot `k` -/
theorem wgs_pollChild {mem : Nat → Option Nat} (w : World) (c k : Nat)
    (hm : mem k = some c) (inj : ∀ k', mem k' = some c → k' = k) (h : WGS stream sc0 mem w) :
    w.resOf c ≠ .panic ∧
    ((w.resOf c = .pend ∨ ∃ v, w.resOf c = .item v) → WGS stream sc0 mem (w.pollChild c k)) ∧
    WGS stream sc0 (upd mem k none) (w.pollChild c k) ∧
    ((w.resOf c = .fin ∨ ∃ ok v, w.resOf c = .ready ok v) →
      (w.scripts c).tail = [] ∧ wbScript stream (sc0 c) = true) := by
  obtain ⟨hcls, hact, hgone⟩ := h.mem k c hm
  -- what the member answers next
  have hres : (wbScript stream (w.scripts c) = true ∧ wbScript stream (sc0 c) = true ∧
        (((w.scripts c).tail = [] ∧ (w.resOf c = .fin ∨ ∃ ok v, w.resOf c = .ready ok v)) ∨
         ((w.scripts c).tail ≠ [] ∧ (w.resOf c = .pend ∨ ∃ v, w.resOf c = .item v) ∧
            wbScript stream (w.scripts c).tail = true))) ∨
      (wbScript stream (sc0 c) = false ∧ w.resOf c = .pend ∧
        Exec.pendScript (w.scripts c).tail = true) := by
    rcases hcls with ⟨h1, h2⟩ | ⟨h1, h2⟩
    · exact Or.inl ⟨h1, h2, wb_resOf w c h1⟩
    · exact Or.inr ⟨h2, pend_resOf w c h1⟩
  have hnp : w.resOf c ≠ .panic := by
    rcases hres with ⟨_, _, ⟨_, hr | ⟨ok, v, hr⟩⟩ | ⟨_, hr | ⟨v, hr⟩, _⟩⟩ | ⟨_, hr, _⟩ <;>
      rw [hr] <;> simp
  have hS : ∀ j, (w.pollChild c k).scripts j = if j = c then (w.scripts c).tail else w.scripts j := by
    intro j
    rw [pollChild_scripts]
    by_cases hj : j = c
    · subst hj; simp
    · simp [upd_other _ _ _ _ hj, hj]
  have hLR : ∀ j, lastRes (w.pollChild c k).trace j
      = if c = j then some (w.resOf c) else lastRes w.trace j := fun j => C16.lastRes_pollChild w c k j
  have hLW : ∀ j, lastWk (w.pollChild c k).trace j
      = if c = j then some (w.wakerFor k) else lastWk w.trace j := fun j => lastWk_pollChild w c k j
  have hEP : ∀ j, everPolled (w.pollChild c k).trace j = (decide (c = j) || everPolled w.trace j) :=
    fun j => everPolled_pollChild w c k j
  have hG : ∀ j, gone (w.pollChild c k).trace j = gone w.trace j := fun j => gone_pollChild w c k j
  have hHW : ∀ j, ((w.pollChild c k).handed j).head? = lastWk (w.pollChild c k).trace j := by
    intro j
    rw [hLW, pollChild_handed]
    by_cases hj : c = j
    · subst hj; simp
    · have hjc : j ≠ c := fun hh => hj hh.symm
      simp only [hj, if_false, upd_other _ _ _ _ hjc]
      exact h.hw j
  have hLWn : ∀ j, lastRes (w.pollChild c k).trace j ≠ none → lastWk (w.pollChild c k).trace j ≠ none := by
    intro j hj
    rw [hLR] at hj
    rw [hLW]
    by_cases hcj : c = j
    · simp [hcj]
    · simp only [hcj, if_false] at hj ⊢
      exact h.lw j hj
  have hEPn : ∀ j, everPolled (w.pollChild c k).trace j = true → lastRes (w.pollChild c k).trace j ≠ none := by
    intro j hj
    rw [hEP] at hj
    rw [hLR]
    by_cases hcj : c = j
    · simp [hcj]
    · simp only [hcj, decide_false, Bool.false_or, if_false] at hj ⊢
      exact h.ep j hj
  have hLF : ∀ j, gone (w.pollChild c k).trace j = true →
      (w.pollChild c k).scripts j = [] ∧ wbScript stream (sc0 j) = true := by
    intro j hj
    rw [hG] at hj
    have hjc : j ≠ c := by intro hh; subst hh; rw [hgone] at hj; exact Bool.noConfusion hj
    rw [hS]; simp only [hjc, if_false]
    exact h.lf j hj
  have hDL : ∀ j, (valsOf j (w.pollChild c k).trace).reverse ++ Exec.scriptVals ((w.pollChild c k).scripts j)
      = Exec.scriptVals (sc0 j) := by
    intro j
    rw [valsOf_pollChild, hS]
    by_cases hcj : c = j
    · subst hcj
      simp only [if_true, List.reverse_append]
      rw [← h.dl c, scriptVals_step w c]
      have : (Exec.resVals (w.resOf c)).reverse = Exec.resVals (w.resOf c) := by
        cases w.resOf c <;> simp [Exec.resVals]
      rw [this]; simp
    · have hjc : j ≠ c := fun hh => hcj hh.symm
      simp only [hcj, hjc, if_false, List.nil_append]
      exact h.dl j
  have hother : ∀ k' c', c' ≠ c → mem k' = some c' →
      ((wbScript stream ((w.pollChild c k).scripts c') = true ∧ wbScript stream (sc0 c') = true) ∨
       (Exec.pendScript ((w.pollChild c k).scripts c') = true ∧ wbScript stream (sc0 c') = false)) ∧
      Act (lastRes (w.pollChild c k).trace c') ∧ gone (w.pollChild c k).trace c' = false := by
    intro k' c' hcc hk'
    have hcc' : ¬ c = c' := fun hh => hcc hh.symm
    rw [hS, hLR, hG]
    simp only [hcc, hcc', if_false]
    exact h.mem k' c' hk'
  refine ⟨hnp, ?_, ?_, ?_⟩
  · intro hr
    refine ⟨?_, hHW, hLWn, hEPn, hLF, hDL⟩
    intro k' c' hk'
    by_cases hcc : c' = c
    · subst hcc
      rw [hS, hLR, hG]
      simp only [if_true]
      have hact' : Act (some (w.resOf c')) := by
        rcases hr with hr | ⟨v, hr⟩
        · exact Or.inr (Or.inl (by rw [hr]))
        · exact Or.inr (Or.inr ⟨v, by rw [hr]⟩)
      rcases hres with ⟨_, h2, ⟨_, hf | ⟨ok, v, hf⟩⟩ | ⟨_, _, hwt⟩⟩ | ⟨h2, _, hpt⟩
      · rcases hr with hr | ⟨v, hr⟩ <;> rw [hf] at hr <;> cases hr
      · rcases hr with hr | ⟨v', hr⟩ <;> rw [hf] at hr <;> cases hr
      · exact ⟨Or.inl ⟨hwt, h2⟩, hact', hgone⟩
      · exact ⟨Or.inr ⟨hpt, h2⟩, hact', hgone⟩
    · exact hother k' c' hcc hk'
  · refine ⟨?_, hHW, hLWn, hEPn, hLF, hDL⟩
    intro k' c' hk'
    have hkk : k' ≠ k := by intro hh; subst hh; simp at hk'
    rw [upd_other _ _ _ _ hkk] at hk'
    have hcc : c' ≠ c := by intro hh; subst hh; exact hkk (inj k' hk')
    exact hother k' c' hcc hk'
  · intro hr
    rcases hres with ⟨_, h2, ⟨ht, _⟩ | ⟨_, hq, _⟩⟩ | ⟨_, hq, _⟩
    · exact ⟨ht, h2⟩
    · rcases hr with hr | ⟨ok, v, hr⟩ <;> rcases hq with hq | ⟨v', hq⟩ <;> rw [hr] at hq <;> cases hq
    · rcases hr with hr | ⟨ok, v, hr⟩ <;> rw [hr] at hq <;> cases hq

/-- the released member is dropped -/
theorem wgs_dropped {mem : Nat → Option Nat} (w : World) (c : Nat)
    (hnm : ∀ k, mem k ≠ some c) (hsc : w.scripts c = []) (hwb : wbScript stream (sc0 c) = true)
    (h : WGS stream sc0 mem w) :
    WGS stream sc0 mem (w.emits [.childDropped c]) := by
  refine ⟨?_, ?_, ?_, ?_, ?_, ?_⟩
  · intro k c' hk
    have hcc : ¬ c = c' := by intro hh; subst hh; exact hnm k hk
    have := h.mem k c' hk
    simpa [World.emits, lastRes, gone, hcc] using this
  · intro j; simpa [World.emits, lastWk] using h.hw j
  · intro j; simpa [World.emits, lastRes, lastWk] using h.lw j
  · intro j; simpa [World.emits, lastRes, everPolled] using h.ep j
  · intro j hj
    simp only [World.emits, List.reverse_cons, List.reverse_nil, List.nil_append,
      List.singleton_append, gone, Bool.or_eq_true, decide_eq_true_eq] at hj
    show w.scripts j = [] ∧ wbScript stream (sc0 j) = true
    rcases hj with hj | hj
    · subst hj; exact ⟨hsc, hwb⟩
    · exact h.lf j hj
  · intro j; simpa [World.emits, valsOf] using h.dl j

/-- a wake-up between polls -/
theorem wgs_fire {mem : Nat → Option Nat} (w : World) (c a : Nat)
    (h : WGS stream sc0 mem w) : WGS stream sc0 mem (w.fire c a) := by
  obtain ⟨l, hl, hp⟩ := World.fire_seg w c a
  have hLR : ∀ j, lastRes (w.fire c a).trace j = lastRes w.trace j := C16.lastRes_fire w c a
  have hLW : ∀ j, lastWk (w.fire c a).trace j = lastWk w.trace j := by
    intro j; rw [hl]
    exact skip_seg (fun t => lastWk t j) isFireEv (fun e t h => lastWk_fireEv j e t h) l hp _
  have hg : ∀ j, gone (w.fire c a).trace j = gone w.trace j := by
    intro j; rw [hl]; exact gone_fires l _ j hp
  refine ⟨?_, ?_, ?_, ?_, ?_, ?_⟩
  · intro k j hk
    rw [hLR, World.fire_scripts, hg]; exact h.mem k j hk
  · intro j; rw [hLW, World.fire_handed]; exact h.hw j
  · intro j; rw [hLR, hLW]; exact h.lw j
  · intro j; rw [hLR, everPolled_fire]; exact h.ep j
  · intro j; rw [hg, World.fire_scripts]; exact h.lf j
  · intro j; rw [hl, valsOf_fires j l _ hp, World.fire_scripts]; exact h.dl j

/-! ### progress bookkeeping of the poll in progress -/

structure PBS (len0 : Nat → Nat) (t0 : List Ev) (w : World) : Prop where
  le : ∀ c, (w.scripts c).length ≤ len0 c
  /-- a member polled in this poll has consumed a step, if it had one -/
  ps : ∀ c, polledSince w.trace c = true →
    keyOf w.trace c ≠ none ∧ (len0 c ≠ 0 → (w.scripts c).length < len0 c)
  /-- the task waker is only invoked after a step was consumed -/
  wk : wokeSince w.trace = true → ∃ c, polledSince w.trace c = true ∧ (w.scripts c).length < len0 c
  ab : atPollBegin w.trace = t0
  gp : ∀ c, gone w.trace c = true → gone t0 c = true ∨ polledSince w.trace c = true
  al : alive w.trace = true
  ip : inPoll w.trace = true

theorem pbs_congr {len0 : Nat → Nat} {t0 : List Ev} {w w' : World}
    (hs : w'.scripts = w.scripts) (ht : w'.trace = w.trace) (h : PBS len0 t0 w) : PBS len0 t0 w' :=
  ⟨by rw [hs]; exact h.le, by rw [hs, ht]; exact h.ps, by rw [hs, ht]; exact h.wk,
    by rw [ht]; exact h.ab, by rw [ht]; exact h.gp, by rw [ht]; exact h.al, by rw [ht]; exact h.ip⟩

theorem pbs_pollChild {len0 : Nat → Nat} {t0 : List Ev} (w : World) (c k : Nat)
    (hkey : keyOf w.trace c ≠ none) (h : PBS len0 t0 w) :
    PBS len0 t0 (w.pollChild c k) := by
  have hS : ∀ j, (w.pollChild c k).scripts j = if j = c then (w.scripts c).tail else w.scripts j := by
    intro j
    rw [pollChild_scripts]
    by_cases hj : j = c
    · subst hj; simp
    · simp [upd_other _ _ _ _ hj, hj]
  have hlen : (w.scripts c).tail.length ≤ (w.scripts c).length := by
    cases hs : w.scripts c with
    | nil => simp
    | cons s rest => simp
  have hlen' : w.scripts c ≠ [] → (w.scripts c).tail.length < (w.scripts c).length := by
    intro hne
    cases hs : w.scripts c with
    | nil => exact absurd hs hne
    | cons s rest => simp
  have hSle : ∀ j, ((w.pollChild c k).scripts j).length ≤ (w.scripts j).length := by
    intro j
    rw [hS]
    by_cases hj : j = c
    · subst hj; simp only [if_true]; exact hlen
    · simp only [hj, if_false]; exact Nat.le_refl _
  have hPS : ∀ j, polledSince (w.pollChild c k).trace j = (decide (c = j) || polledSince w.trace j) :=
    fun j => polledSince_pollChild w c k j
  refine ⟨?_, ?_, ?_, ?_, ?_, ?_, ?_⟩
  · intro j
    have := hSle j; have := h.le j; omega
  · intro j hj
    rw [hPS] at hj
    rw [G.keyOf_pollChild]
    by_cases hjc : j = c
    · subst hjc
      refine ⟨hkey, fun h0 => ?_⟩
      rw [hS]; simp only [if_true]
      have hle := h.le j
      by_cases hne : w.scripts j = []
      · rw [hne]; simp; omega
      · have := hlen' hne; omega
    · have hcj : ¬ c = j := fun hh => hjc hh.symm
      simp only [hcj, decide_false, Bool.false_or] at hj
      rw [hS]; simp only [hjc, if_false]
      exact h.ps j hj
  · intro hw
    by_cases hne : w.scripts c = []
    · -- nothing was fired
      rw [pollChild_trace_nil w c k hne] at hw
      simp only [wokeSince] at hw
      obtain ⟨c', hc', hl'⟩ := h.wk hw
      refine ⟨c', by rw [hPS, hc']; simp, ?_⟩
      have := hSle c'; omega
    · refine ⟨c, wokeSince_pollChild_polled w c k, ?_⟩
      rw [hS]; simp only [if_true]
      have := hlen' hne; have := h.le c; omega
  · rw [atPollBegin_pollChild]; exact h.ab
  · intro j hj
    rw [gone_pollChild] at hj
    rcases h.gp j hj with hg | hg
    · exact Or.inl hg
    · right; rw [hPS, hg]; simp
  · rw [alive_pollChild]; exact h.al
  · rw [inPoll_pollChild]; exact h.ip

theorem pbs_dropped {len0 : Nat → Nat} {t0 : List Ev} (w : World) (c : Nat)
    (hp : polledSince w.trace c = true) (h : PBS len0 t0 w) :
    PBS len0 t0 (w.emits [.childDropped c]) := by
  refine ⟨h.le, ?_, ?_, ?_, ?_, ?_, ?_⟩
  · intro j hj; simpa [World.emits, polledSince, keyOf] using h.ps j (by simpa [World.emits, polledSince] using hj)
  · intro hw
    obtain ⟨j, hj, hl⟩ := h.wk (by simpa [World.emits, wokeSince] using hw)
    exact ⟨j, by simpa [World.emits, polledSince] using hj, hl⟩
  · simpa [World.emits, atPollBegin] using h.ab
  · intro j hj
    simp only [World.emits, List.reverse_cons, List.reverse_nil, List.nil_append, List.singleton_append,
      gone, Bool.or_eq_true, decide_eq_true_eq, polledSince] at hj ⊢
    rcases hj with hj | hj
    · subst hj; exact Or.inr hp
    · exact h.gp j hj
  · simpa [World.emits, alive] using h.al
  · simpa [World.emits, inPoll] using h.ip

theorem pbs_begin (w : World) (wid : Nat) (hal : alive w.trace = true) :
    PBS (fun c => (w.scripts c).length) w.trace ((w.emit (.pollBegin wid)).setWaker wid) := by
  refine ⟨fun c => Nat.le_refl _, ?_, ?_, rfl, ?_, ?_, rfl⟩
  · intro c hc; simp [polledSince] at hc
  · intro hc; simp [wokeSince] at hc
  · intro c hc; left; simpa [gone] using hc
  · simpa [alive] using hal

end LiveGStuck
end Fc
