/-
  FcLemmas/C13.lean — every step of the acceptor preserves `Inv` and establishes the clause of
  `holds_C13` belonging to the event; hence every accepted trace satisfies `holds_C13`.
-/
import FcLemmas.C13Step

set_option linter.unusedSimpArgs false
set_option linter.unusedVariables false

namespace Fc
namespace CoC13
open Co

theorem Inv.resume {c : Cfg} {s : St} {t : List CoEv} (h : Inv c s t) : Inv c (resume c s) t := by
  unfold Co.resume
  split
  · rename_i j hs
    split
    · rename_i hu
      exact h.push_sending j hs hu
    · exact h
  · exact h

theorem limit_hasTerm {c : Cfg} {l : Nat} (h : c.limit = some l) : c.hasTermClosure = true := by
  unfold Cfg.limit at h
  split at h
  · assumption
  · cases h

/-! ### one step -/

theorem step_inv {c : Cfg} {s : St} {t : List CoEv} (h : Inv c s t) (e : CoEv) (s' : St)
    (hs : step c s e = some s') : Inv c s' (e :: t) := by
  cases e with
  | topBegin =>
    simp only [step] at hs
    split at hs
    · rename_i hg
      cases hs
      refine (h.quiet .topBegin rfl).frame _ rfl rfl rfl (Or.inl rfl) ?_ ?_ ?_ ?_ ?_
      · intro _; simp at hg; exact hg.1.2
      · exact id
      · exact (h.quiet .topBegin rfl).drain
      · exact fun j => id
      · exact fun hr => ⟨hr, fun j => id⟩
    · cases hs
  | src r =>
    simp only [step] at hs
    split at hs
    · rename_i hg
      simp only [Bool.and_eq_true, decide_eq_true_eq, Bool.not_eq_true'] at hg
      obtain ⟨⟨hin, hl⟩, hfin⟩ := hg
      cases r with
      | pend => cases hs; exact h.quiet _ rfl
      | fin =>
        cases hs
        refine (h.quiet (.src .fin) rfl).frame _ rfl rfl rfl (Or.inl rfl) ?_ ?_ ?_ ?_ ?_
        · exact h.topNd
        · exact id
        · intro _; simp [drained, srcEnded]
        · intro j hj; cases hj
        · intro _
          refine ⟨by simp [hl, running], ?_⟩
          intro j hj; rw [hl] at hj; cases hj
      | item v =>
        simp only [Option.some.injEq] at hs
        subst hs
        unfold takeItem
        simp only
        split
        · rename_i hu
          exact (h.take_send hl v).push_sending s.taken rfl hu
        · exact h.take_send hl v
      | ready ok v => cases hs
      | panic => cases hs
    · cases hs
  | call stage j idx k =>
    simp only [step] at hs
    split at hs
    · rename_i hg
      simp only [Bool.and_eq_true, decide_eq_true_eq, Bool.not_eq_true', List.contains_eq_mem,
        decide_eq_false_iff_not] at hg
      obtain ⟨⟨⟨hin, hrun⟩, hk⟩, hidx⟩ := hg
      split at hs
      · rename_i m hfind
        have hm : m ∈ s.members := List.mem_of_find?_eq_some hfind
        have hmj : m.j = j := by simpa using List.find?_some hfind
        split at hs
        · rename_i hg2
          simp only [Bool.and_eq_true, decide_eq_true_eq] at hg2
          obtain ⟨⟨hst, hcur⟩, _⟩ := hg2
          cases hs
          subst hst hmj
          exact h.call m hm hcur k hk idx
        · cases hs
      · cases hs
    · cases hs
  | work k r =>
    simp only [step] at hs
    split at hs
    · rename_i hg
      split at hs
      · rename_i m hfind
        have hm : m ∈ s.members := List.mem_of_find?_eq_some hfind
        have hcur : m.cur = some k := by simpa using List.find?_some hfind
        cases r with
        | pend => cases hs; exact h.quiet _ rfl
        | ready ok v =>
          simp only at hs
          split at hs
          · cases hs
          · split at hs
            · cases hs
              exact h.advance m hm k hcur ok v
            · rename_i hlast
              simp only [Option.some.injEq] at hs
              subst hs
              unfold complete
              cases hterm : c.term with
              | forEach =>
                simp only
                exact (h.complete1 m hm k hcur hlast ok v (s.count - 1) (fun _ => rfl)).resume
              | tryForEach =>
                simp only
                split
                · exact (h.complete1 m hm k hcur hlast ok v (s.count - 1) (fun _ => rfl)).resume
                · have h1 := h.complete1 m hm k hcur hlast ok v (s.count - 1) (fun _ => rfl)
                  refine h1.frame _ rfl rfl rfl (Or.inl rfl) h1.topNd id ?_ ?_ ?_
                  · intro hf; cases hf
                  · intro j hj; cases hj
                  · intro hr; simp [running] at hr
              | collectVec =>
                simp only
                have h1 := h.complete1 m hm k hcur hlast ok v s.count
                  (fun hc => by simp [Cfg.hasTermClosure, hterm] at hc)
                exact h1.frame _ rfl rfl rfl (Or.inl rfl) h1.topNd id h1.drain (fun j => id)
                  (fun hr => ⟨hr, fun j => id⟩)
              | collectRes =>
                simp only
                have h1 := h.complete1 m hm k hcur hlast ok v s.count
                  (fun hc => by simp [Cfg.hasTermClosure, hterm] at hc)
                split
                · exact h1.frame _ rfl rfl rfl (Or.inl rfl) h1.topNd id h1.drain (fun j => id)
                    (fun hr => ⟨hr, fun j => id⟩)
                · refine h1.frame _ rfl rfl rfl (Or.inl rfl) h1.topNd id ?_ ?_ ?_
                  · intro hf; cases hf
                  · intro j hj; cases hj
                  · intro hr; simp [running] at hr
        | item v => cases hs
        | fin => cases hs
        | panic => cases hs
      · cases hs
    · cases hs
  | workDrop k =>
    simp only [step] at hs
    split at hs
    · split at hs
      · cases hs
      · rename_i hg
        cases hs
        apply h.workDrop k
        intro hh
        apply hg
        simp [hh.1, hh.2.1, hh.2.2]
    · cases hs
  | valDrop v => simp only [step] at hs; cases hs; exact h.quiet _ rfl
  | srcDrop => simp only [step] at hs; cases hs; exact h.quiet _ rfl
  | dropBegin =>
    simp only [step] at hs
    split at hs
    · rename_i hg
      cases hs
      simp only [Bool.and_eq_true, Bool.not_eq_true'] at hg
      refine (h.quiet .dropBegin rfl).frame _ rfl rfl rfl (Or.inl rfl) ?_ ?_ ?_ ?_ ?_
      · intro hi; simp only at hi; rw [hg.1] at hi; cases hi
      · intro hd; cases hd
      · exact (h.quiet .dropBegin rfl).drain
      · exact fun j => id
      · exact fun hr => ⟨hr, fun j => id⟩
    · cases hs
  | dropEnd =>
    simp only [step] at hs
    split at hs
    · cases hs; exact h.quiet _ rfl
    · cases hs
  | topEnd o =>
    simp only [step] at hs
    split at hs
    · rename_i hin
      have hq := h.quiet (.topEnd o) rfl
      have hdone : ∀ s1 : St, s1.taken = s.taken → s1.live = s.live → s1.count = s.count →
          s1.members = s.members → s1.inTop = false → s1.ctrl = .done → Inv c s1 (.topEnd o :: t) := by
        intro s1 e1 e2 e3 e4 e5 e6
        refine hq.frame s1 e1 e2 e3 (Or.inl e4) ?_ ?_ ?_ ?_ ?_
        · intro hi; rw [e5] at hi; cases hi
        · intro _; exact h.topNd hin
        · intro hf; rw [e6] at hf; cases hf
        · intro j hj; rw [e6] at hj; cases hj
        · intro hr; rw [e6] at hr; simp [running] at hr
      cases o with
      | pending =>
        simp only at hs
        split at hs
        · cases hs
        · split at hs
          · cases hs
          · cases hs
            refine hq.frame _ rfl rfl rfl (Or.inl rfl) ?_ ?_ hq.drain (fun j => id)
              (fun hr => ⟨hr, fun j => id⟩)
            · intro hi; cases hi
            · intro _; exact h.topNd hin
      | unit =>
        simp only at hs
        split at hs
        · cases hs; exact hdone _ rfl rfl rfl rfl rfl rfl
        · cases hs
      | ok =>
        simp only at hs
        split at hs
        · cases hs; exact hdone _ rfl rfl rfl rfl rfl rfl
        · cases hs
      | err e =>
        simp only at hs
        split at hs
        · cases hs; exact hdone _ rfl rfl rfl rfl rfl rfl
        · cases hs
      | resOk items =>
        simp only at hs
        split at hs
        · cases hs; exact hdone _ rfl rfl rfl rfl rfl rfl
        · cases hs
      | resErr e =>
        simp only at hs
        split at hs
        · cases hs; exact hdone _ rfl rfl rfl rfl rfl rfl
        · cases hs
      | vec items =>
        simp only [Option.ite_none_right_eq_some, Option.some.injEq] at hs
        obtain ⟨hg, hs⟩ := hs
        subst hs
        simp only [Bool.and_eq_true, decide_eq_true_eq] at hg
        have hc : c.hasTermClosure = false := by simp [Cfg.hasTermClosure, hg.1.1]
        refine hq.frame _ rfl rfl rfl (Or.inr ⟨rfl, rfl, hc⟩) ?_ ?_ ?_ ?_ ?_
        · intro hi; cases hi
        · intro _; exact h.topNd hin
        · intro hf; cases hf
        · intro j hj; cases hj
        · intro hr; simp [running] at hr
    · cases hs

/-! ### the limit clause: terminal-closure futures in flight are carried by distinct members -/

theorem liveTerm_le {c : Cfg} {s : St} {t : List CoEv} (h : Inv c s t)
    (hc : c.hasTermClosure = true) : liveTerm c t ≤ s.members.length := by
  unfold liveTerm
  apply length_le_of_inj (fun m => m.cur)
  · refine List.Nodup.sublist ?_ h.ndC
    have e := List.filter_filter
      (p := fun k => (match createdBy t k with | some (s, _) => s == c.maps | none => false) &&
        (resultOf t k).isNone)
      (q := fun k => !droppedW t k) (l := created t)
    exact e ▸ List.filter_sublist
  · intro k hk
    simp only [List.mem_filter, Bool.and_eq_true, Option.isNone_iff_eq_none,
      Bool.not_eq_true'] at hk
    exact h.liveA hc k (h.liveB k hk.1 hk.2.2) hk.2.1.2

theorem step_holds {c : Cfg} {s : St} {t : List CoEv} (h : Inv c s t) (e : CoEv) (s' : St)
    (hs : step c s e = some s') (hh : holds_C13 c t = true) : holds_C13 c (e :: t) = true := by
  have h' := step_inv h e s' hs
  cases e with
  | call stage j idx k =>
    simp only [holds_C13, Bool.and_eq_true, hh, true_and, beq_iff_eq]
    constructor
    · simp only [step] at hs
      split at hs
      · split at hs
        · rename_i m hfind
          have hm : m ∈ s.members := List.mem_of_find?_eq_some hfind
          have hmj : m.j = j := by simpa using List.find?_some hfind
          split at hs
          · rename_i hg2
            simp only [Bool.and_eq_true, decide_eq_true_eq] at hg2
            obtain ⟨⟨hst, hcur⟩, _⟩ := hg2
            subst hst hmj
            exact (h.memE m hm).2.2.1 hcur
          · cases hs
        · cases hs
      · cases hs
    · cases hl : c.limit with
      | none => rfl
      | some l =>
        simp only [decide_eq_true_eq]
        have hc := limit_hasTerm hl
        have h1 := liveTerm_le h' hc
        obtain ⟨h2, h3⟩ := h'.cnt hc
        have := h3 l hl
        omega
  | topEnd o =>
    cases o with
    | unit =>
      simp only [holds_C13, Bool.and_eq_true, hh, true_and]
      simp only [step] at hs
      split at hs
      · rename_i hin
        split at hs
        · rename_i hg
          simp only [Bool.and_eq_true, decide_eq_true_eq, List.isEmpty_iff] at hg
          obtain ⟨⟨_, hfl⟩, hemp⟩ := hg
          refine ⟨?_, h.drain hfl⟩
          simp only [allProcessed, List.all_eq_true, List.mem_range]
          intro j hj st hst
          rw [← h.taken] at hj
          rcases h.tri (by simp [hfl, running]) (h.topNd hin) j hj with ⟨m, hm, _⟩ | h1 | h1
          · rw [hemp] at hm; cases hm
          · rw [hfl] at h1; cases h1
          · exact h1 st hst
        · cases hs
      · cases hs
    | _ => simpa [holds_C13] using hh
  | dropEnd =>
    simp only [holds_C13, Bool.and_eq_true, hh, true_and]
    simp only [step] at hs
    split at hs
    · rename_i hg
      simp only [Bool.and_eq_true, List.isEmpty_iff] at hg
      simp only [allDropped, List.all_eq_true]
      intro k hk
      cases hd : droppedW t k with
      | true => rfl
      | false =>
        have := h.liveB k hk hd
        rw [hg.2] at this
        cases this
    · cases hs
  | _ => simpa [holds_C13] using hh

/-! ### all accepted traces -/

theorem run_inv (c : Cfg) : ∀ (t : List CoEv) (s : St), run c t = some s →
    Inv c s t ∧ holds_C13 c t = true
  | [], s, hr => by
    simp only [run, Option.some.injEq] at hr
    subst hr
    exact ⟨Inv.init c, rfl⟩
  | e :: t, s', hr => by
    simp only [run] at hr
    cases hrt : run c t with
    | none => rw [hrt] at hr; cases hr
    | some s =>
      rw [hrt] at hr
      simp only at hr
      obtain ⟨hi, hh⟩ := run_inv c t s hrt
      exact ⟨step_inv hi e s' hr, step_holds hi e s' hr hh⟩

theorem accepts_holds (c : Cfg) (t : List CoEv) (h : accepts c t = true) :
    holds_C13 c t = true := by
  unfold accepts at h
  cases hr : run c t with
  | none => rw [hr] at h; cases h
  | some s => exact (run_inv c t s hr).2

end CoC13
end Fc
