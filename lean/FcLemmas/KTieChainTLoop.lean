/-
  Kernel tie, `(A, B, …).chain()` (tuple container; port of FcLemmas/KTieChainALoop.lean) — the translated `loop`
  (`Rs.loopFuel`) refines `Eng.close chain ∘ Eng.scan chain` over `List.range' index (N - index)`.

  The tuple struct has no `len` field: the number of inputs is the const generic `N` of the normalised source, which
  therefore DOES occur in the loop body (end test `N == index`, the `assert!(index < N)` before the child access) —
  unlike the array, where `N` is a parameter of `poll_next` only.  So `BodySpec` takes `N`.

  `BodySpec N cx body` is what the proof needs to know about the loop body (stated through the role abbreviations only);
  the main theorem takes the body from the generated definition by unification and discharges `BodySpec` by unfolding.
  `ch_loop` is an induction on the number of inputs still to be visited; the fuel `N + index + 1` of the translation
  is more than the `N - index + 1` iterations the loop can make.

  The environment/model side (FcLemmas/KTieChainEnv.lean) does not mention the container and is imported, not copied.
  All names live in the namespace `TieChainT` (the Vec/array lemmas of the same names are in `TieChainV`/`TieChainA`).
-/
import FcLemmas.KTieChainEnv
import FcProps.KTieChainTup

set_option linter.unusedSimpArgs false
set_option linter.unusedVariables false

namespace Fc
open Rs Src

namespace TieChainT
open ChainT TieDirect TieChainEnv

local macro "unroles" : tactic =>
  `(tactic| try simp only [Chain.roleKids, Chain.roleCount, Chain.roleDone] at *)

/-- `Rs.Kids` is its length -/
theorem kids_ext : ∀ (a b : Rs.Kids), a.len = b.len → a = b
  | ⟨_⟩, ⟨_⟩, h => congrArg _ h

/-- the carried loop state and what one iteration answers -/
abbrev LoopSt := Chain × World
abbrev LoopRet := Rs.Poll (Option Nat)

/-- one iteration of the translated loop, by cases on where the chain stands and what the current input answers -/
structure BodySpec (N cx : Nat) (body : LoopSt → Option (LoopSt × Rs.Ctl LoopRet)) : Prop where
  /-- all inputs exhausted: `done` is set, `Ready(None)` -/
  fin : ∀ (g : Chain) (env : World), g.roleCount = N →
    ∃ g', body (g, env) = some ((g', env), .ret (.ready none)) ∧ g'.roleDone = true ∧ g'.roleCount = g.roleCount ∧
      g'.roleKids = g.roleKids
  /-- the current input is pending: so is the chain -/
  pend : ∀ (g : Chain) (env env' : World), g.roleCount < N → g.roleCount < g.roleKids.len →
    Rs.pollStream dummy () env g.roleCount (.par cx) = some ((), env', .pending) →
    body (g, env) = some ((g, env'), .ret .pending)
  /-- the current input yields: so does the chain -/
  item : ∀ (g : Chain) (env env' : World) (v : Nat), g.roleCount < N → g.roleCount < g.roleKids.len →
    Rs.pollStream dummy () env g.roleCount (.par cx) = some ((), env', .ready (some v)) →
    body (g, env) = some ((g, env'), .ret (.ready (some v)))
  /-- the current input ended: move on to the next one, go round again -/
  next : ∀ (g : Chain) (env env' : World), g.roleCount < N → g.roleCount < g.roleKids.len →
    Rs.pollStream dummy () env g.roleCount (.par cx) = some ((), env', .ready none) →
    ∃ g', body (g, env) = some ((g', env'), .next) ∧ g'.roleCount = g.roleCount + 1 ∧ g'.roleDone = g.roleDone ∧
      g'.roleKids = g.roleKids

/-- what the loop establishes against the closed model run `E` -/
def Post (n : Nat) (E : Eng Fix) (a : LoopSt × Option LoopRet) : Prop :=
  ∃ v, a.2 = some v ∧
    a.1.1.roleKids.len = n ∧ a.1.1.roleCount ≤ n ∧
    E.s.n = n ∧ E.s.cnt = a.1.1.roleCount ∧ E.s.dead = a.1.1.roleDone ∧
    a.1.2.scripts = E.w.scripts ∧ a.1.2.handed = E.w.handed ∧
    E.w.trace = .pollEnd (outcomeOfStream v) :: a.1.2.trace ∧
    StreamStepsF a.1.2

theorem ch_loop (cx n : Nat) (body : LoopSt → Option (LoopSt × Rs.Ctl LoopRet)) (hb : BodySpec n cx body) :
    ∀ (k : Nat) (g : Chain) (env : World) (e : Eng Fix) (fuel : Nat),
      k < fuel → g.roleCount + k = n → g.roleKids.len = n → g.roleDone = false →
      e.w = env → e.s.n = n → e.s.cnt = g.roleCount → e.s.dead = false →
      env.mode = .direct → env.parent = some cx → StreamStepsF env →
      ∃ a, Rs.loopFuel fuel (g, env) body = some a ∧
        Post n (Eng.close chain (Eng.scan chain (List.range' g.roleCount k) e)) a := by
  intro k
  induction k with
  | zero =>
    intro g env e fuel hf hk hkl hdn hw hn hc hdd hm hp hs
    obtain ⟨f, rfl⟩ : ∃ f, fuel = f + 1 := ⟨fuel - 1, by omega⟩
    obtain ⟨g', hbody, hd', hi', hk'⟩ := hb.fin g env (by omega)
    refine ⟨((g', env), some (.ready none)), ?_, ?_⟩
    · simp only [Rs.loopFuel, hbody]
    · obtain ⟨ew, es⟩ := e
      simp only at hw hn hc hdd
      subst hw
      simp only [List.range'_zero, Eng.scan, ch_close_none]
      exact ⟨_, rfl, by rw [hk', hkl], (by show g'.roleCount ≤ n; omega), hn, by rw [hi']; exact hc,
        by rw [hd']; rfl, rfl, rfl, rfl, hs⟩
  | succ k ih =>
    intro g env e fuel hf hk hkl hdn hw hn hc hdd hm hp hs
    obtain ⟨f, rfl⟩ : ∃ f, fuel = f + 1 := ⟨fuel - 1, by omega⟩
    have hne : g.roleCount < n := by omega
    have hlt : g.roleCount < g.roleKids.len := by omega
    obtain ⟨ew, es⟩ := e
    simp only at hw hn hc hdd
    subst hw
    have hme : ({ w := ew, s := es } : Eng Fix).w.mode = .direct := hm
    simp only [List.range'_succ, Eng.scan]
    rcases hs.resOf g.roleCount with hr | hr | ⟨v, hr⟩
    · -- pending
      have hbody := hb.pend g ew _ hne hlt (ch_pollStream_pend ew _ cx hm hp hr)
      refine ⟨((g, ew.pollChild g.roleCount g.roleCount), some .pending), ?_, ?_⟩
      · simp only [Rs.loopFuel, hbody]
      · rw [ch_visit_pend _ _ hme hr]
        simp only [ch_close_some]
        exact ⟨_, rfl, hkl, (by show g.roleCount ≤ n; omega), hn, hc, by rw [hdn]; exact hdd, rfl, rfl, rfl,
          ch_streamSteps_pollChild _ hs _ _⟩
    · -- the current input ended
      obtain ⟨g', hbody, hi', hd', hk'⟩ := hb.next g ew _ hne hlt (ch_pollStream_fin ew _ cx hm hp hr)
      rw [ch_visit_fin _ _ hme hr]
      simp only
      obtain ⟨a, ha, hpost⟩ := ih g' (ew.pollChild g.roleCount g.roleCount)
        { w := ew.pollChild g.roleCount g.roleCount, s := { es with cnt := es.cnt + 1 } } f
        (by omega) (by omega) (by rw [hk', hkl]) (by rw [hd', hdn]) rfl hn
        (by rw [hi']; simp only; omega) hdd
        (by rw [pollChild_mode]; exact hm) (by rw [pollChild_parent]; exact hp)
        (ch_streamSteps_pollChild _ hs _ _)
      refine ⟨a, ?_, ?_⟩
      · simp only [Rs.loopFuel, hbody]; exact ha
      · rw [hi'] at hpost; exact hpost
    · -- an item
      have hbody := hb.item g ew _ v hne hlt (ch_pollStream_item ew _ cx v hm hp hr)
      refine ⟨((g, ew.pollChild g.roleCount g.roleCount), some (.ready (some v))), ?_, ?_⟩
      · simp only [Rs.loopFuel, hbody]
      · rw [ch_visit_item _ _ v hme hr]
        simp only [ch_close_some]
        exact ⟨_, rfl, hkl, (by show g.roleCount ≤ n; omega), hn, hc, by rw [hdn]; exact hdd, rfl, rfl, rfl,
          ch_streamSteps_pollChild _ hs _ _⟩

end TieChainT

end Fc
