/-
  FcLemmas/KTieRaceOkTDrop.lean — `(A, B, …).race_ok()` (tuple): the translated `PinnedDrop::drop` of `RaceOk` releases exactly
  the stored errors, in slot order (`Rs.forBreak` over the slots; the body never breaks; a released slot is set to `None`);
  the children are plain fields (dropped by the drop glue afterwards): together this is `Eng.drop (raceOk true false)`.
  The port of FcLemmas/KTieRaceOkADrop.lean to the tuple's translated structure (the lemmas mention the structure through
  its `role…` abbreviations); `TieRaceOkA.rk_flatMap_congr` (a list fact) is imported.
-/
import FcLemmas.KTieRaceOkTModel
import FcLemmas.KTieRaceOkADrop

set_option linter.unusedSimpArgs false
set_option linter.unusedVariables false

namespace Fc
open Rs Src

namespace TieRaceOkT
open RaceOkT
open TieRaceOkA (rk_flatMap_congr)

local macro "unroles" : tactic =>
  `(tactic| try simp only [RaceOk.roleKids, RaceOk.roleItems, RaceOk.roleStates, RaceOk.roleCount, RaceOk.roleDone,
      RaceOk.roleIndexer] at *)

abbrev DBody := RaceOk × World → Nat → Option ((RaceOk × World) × Bool)

/-- what slot `i` releases -/
def rt_rel (g : RaceOk) (i : Nat) : List Ev :=
  if TiePS.abs (g.roleStates.get i) = .ready then [.valDropped ((g.roleItems.get i).getD 0)] else []

/-- one iteration of the destructor's loop: a `Ready` slot gives up its error and becomes `None`, the other slots are
    left alone, no `break` -/
def DropSpec (F : DBody) : Prop :=
  ∀ (g : RaceOk) (env : World) (i : Nat), i < g.roleStates.len → i < g.roleItems.cap →
    (TiePS.abs (g.roleStates.get i) = .ready → ∃ v, g.roleItems.get i = some v) →
    ∃ g' env', F (g, env) i = some ((g', env'), false) ∧
      g'.roleStates.len = g.roleStates.len ∧ (∀ j, j ≠ i → g'.roleStates.get j = g.roleStates.get j) ∧
      TiePS.abs (g'.roleStates.get i) ≠ .ready ∧
      g'.roleItems.cap = g.roleItems.cap ∧ (∀ j, j ≠ i → g'.roleItems.get j = g.roleItems.get j) ∧
      g'.roleKids = g.roleKids ∧
      env'.trace = (rt_rel g i).reverse ++ env.trace

theorem rt_drop_loop (F : DBody) (hF : DropSpec F) (l : List Nat) :
    ∀ (g : RaceOk) (env : World), l.Nodup →
      (∀ j ∈ l, j < g.roleStates.len ∧ j < g.roleItems.cap ∧
        (TiePS.abs (g.roleStates.get j) = .ready → ∃ v, g.roleItems.get j = some v)) →
      ∃ g' env', Rs.forBreak l (g, env) F = some (g', env') ∧
        g'.roleKids = g.roleKids ∧ g'.roleStates.len = g.roleStates.len ∧ g'.roleItems.cap = g.roleItems.cap ∧
        (∀ j ∈ l, TiePS.abs (g'.roleStates.get j) ≠ .ready) ∧
        (∀ j, j ∉ l → g'.roleStates.get j = g.roleStates.get j) ∧
        env'.trace = (l.flatMap (rt_rel g)).reverse ++ env.trace := by
  induction l with
  | nil => intro g env _ _; exact ⟨g, env, rfl, rfl, rfl, rfl, by simp, fun _ _ => rfl, rfl⟩
  | cons x l ih =>
    intro g env hnd hl
    obtain ⟨hx1, hx2, hx3⟩ := hl x (List.mem_cons_self ..)
    obtain ⟨g1, env1, h1, hs1, hso1, hnr1, hc1, ho1, hk1, ht1⟩ := hF g env x hx1 hx2 hx3
    have hxl : x ∉ l := (List.nodup_cons.mp hnd).1
    have hne : ∀ j ∈ l, j ≠ x := fun j hj hjx => hxl (hjx ▸ hj)
    obtain ⟨g2, env2, h2, hk2, hs2, hc2, hnr2, hso2, ht2⟩ := ih g1 env1 (List.nodup_cons.mp hnd).2 (by
      intro j hj
      obtain ⟨a, b, c⟩ := hl j (List.mem_cons_of_mem _ hj)
      rw [hs1, hc1, ho1 j (hne j hj), hso1 j (hne j hj)]
      exact ⟨a, b, c⟩)
    refine ⟨g2, env2, ?_, hk2.trans hk1, hs2.trans hs1, hc2.trans hc1, ?_, ?_, ?_⟩
    · simp only [Rs.forBreak, h1, h2]
    · intro j hj
      rcases List.mem_cons.mp hj with rfl | hj'
      · rw [hso2 j hxl]; exact hnr1
      · exact hnr2 j hj'
    · intro j hj
      have hjx : j ≠ x := fun h => hj (h ▸ List.mem_cons_self ..)
      have hjl : j ∉ l := fun h => hj (List.mem_cons_of_mem _ h)
      rw [hso2 j hjl, hso1 j hjx]
    · have hcongr : l.flatMap (rt_rel g1) = l.flatMap (rt_rel g) := by
        apply rk_flatMap_congr
        intro j hj
        simp only [rt_rel, hso1 j (hne j hj), ho1 j (hne j hj)]
      rw [ht2, ht1, hcongr]
      simp [List.flatMap_cons]

/-- the loop followed by the code after it -/
theorem rt_drop_bind (F : DBody) (hF : DropSpec F) (l : List Nat) (g : RaceOk) (env : World) (hnd : l.Nodup)
    (hl : ∀ j ∈ l, j < g.roleStates.len ∧ j < g.roleItems.cap ∧
        (TiePS.abs (g.roleStates.get j) = .ready → ∃ v, g.roleItems.get j = some v))
    (K : RaceOk × World → Option (RaceOk × World × Unit)) (Ψ : RaceOk → World → Prop)
    (hK : ∀ g' env', g'.roleKids = g.roleKids → g'.roleStates.len = g.roleStates.len →
      g'.roleItems.cap = g.roleItems.cap → (∀ j ∈ l, TiePS.abs (g'.roleStates.get j) ≠ .ready) →
      env'.trace = (l.flatMap (rt_rel g)).reverse ++ env.trace →
      ∃ a b, K (g', env') = some (a, b, ()) ∧ Ψ a b) :
    ∃ a b, (Rs.forBreak l (g, env) F).bind K = some (a, b, ()) ∧ Ψ a b := by
  obtain ⟨g', env', h1, h2, h3, h4, h5, _, h7⟩ := rt_drop_loop F hF l g env hnd hl
  rw [h1, Option.bind_some]
  exact hK g' env' h2 h3 h4 h5 h7

/-- the released errors, as the model lists them -/
theorem rt_flatMap_rel (g : RaceOk) (l : List Nat) :
    l.flatMap (rt_rel g) =
      (l.filter (fun i => TiePS.abs (g.roleStates.get i) = .ready)).map
        (fun i => Ev.valDropped ((g.roleItems.get i).getD 0)) := by
  induction l with
  | nil => rfl
  | cons x l ih =>
    by_cases hx : TiePS.abs (g.roleStates.get x) = .ready <;>
      simp [List.flatMap_cons, List.filter_cons, rt_rel, hx, ih]

/-- the destructor on any `RaceOk` whose `Ready` slots hold a value: no panic, the stored errors are released in slot order,
    no slot is `Ready` afterwards; with the children (drop glue) this is the model's `drop` -/
theorem rt_drop_core (N : Nat) (g : RaceOk) (b : Eng Fix)
    (hkn : g.roleKids.len = N) (hsl : g.roleStates.len = N) (hic : g.roleItems.cap = N)
    (hrs : ∀ i, i < N → TiePS.abs (g.roleStates.get i) = .ready → ∃ v, g.roleItems.get i = some v) :
    ∃ g' env',
      RaceOk.drop N g ((absK g b).w.emit .dropBegin) = some (g', env', ()) ∧
      (Eng.drop P (absK g b)).w.trace =
        .dropEnd :: (((List.range N).map (fun i => Ev.childDropped i)).reverse ++ env'.trace) ∧
      g'.roleKids.len = N ∧ g'.roleStates.len = N ∧ g'.roleItems.cap = N ∧
      (∀ i, i < N → TiePS.abs (g'.roleStates.get i) ≠ .ready) := by
  suffices h : ∃ g' env', RaceOk.drop N g ((absK g b).w.emit .dropBegin) = some (g', env', ()) ∧
      (env'.trace = ((List.range N).flatMap (rt_rel g)).reverse ++ ((absK g b).w.emit .dropBegin).trace ∧
      g'.roleKids.len = N ∧ g'.roleStates.len = N ∧ g'.roleItems.cap = N ∧
      (∀ i, i < N → TiePS.abs (g'.roleStates.get i) ≠ .ready)) by
    obtain ⟨g', env', h1, h2, h3⟩ := h
    refine ⟨g', env', h1, ?_, h3⟩
    rw [h2, rt_flatMap_rel]
    simp [Eng.drop, raceOk, Fix.dropAll, absK, World.emits, World.emit, hkn]
  unfold RaceOk.drop
  unroles
  simp only [hsl, Option.bind_eq_bind, Option.pure_def]
  refine rt_drop_bind _ ?hF _ g _ List.nodup_range ?hl _ _ ?hK
  case hl =>
    intro j hj
    have hj' := List.mem_range.mp hj
    exact ⟨by unroles; omega, by unroles; omega, hrs j hj'⟩
  case hK =>
    intro g' env' hk hs hc hnr ht
    refine ⟨_, _, rfl, ht, (congrArg Rs.Kids.len hk).trans hkn, hs.trans hsl, hc.trans hic, ?_⟩
    intro i hi
    exact hnr i (List.mem_range.mpr hi)
  case hF =>
    clear hkn hsl hic hrs
    clear g
    intro g env i h1 h2 h3
    dsimp only
    have hidx : Rs.PVec.idx g.roleStates i = some (g.roleStates.get i) := by
      simp [Rs.PVec.idx, h1]
    have hisr := (TiePS.tie (g.roleStates.get i)).2.2.1
    by_cases hr : TiePS.abs (g.roleStates.get i) = .ready
    · obtain ⟨v, hv⟩ := h3 hr
      have hdr : Rs.OutVec.drop g.roleItems i
          = some (⟨g.roleItems.cap, fun j => if j = i then none else g.roleItems.get j⟩, v) := by
        simp [Rs.OutVec.drop, h2, hv]
      obtain ⟨q, hq1, hq2⟩ := (TiePS.tie (g.roleStates.get i)).2.2.2.1
      have hset2 : Rs.PVec.set g.roleStates i q
          = some ⟨g.roleStates.len, fun j => if j = i then q else g.roleStates.get j⟩ := by
        simp [Rs.PVec.set, h1]
      unroles
      simp only [hidx, hisr, hr, hdr, hq1, hset2, decide_true, Option.bind_some, ↓reduceIte]
      refine ⟨_, _, rfl, rfl, ?_, ?_, rfl, ?_, rfl, ?_⟩
      · intro j hj; unroles; simp [hj]
      · unroles; simp [hq2]
      · intro j hj; unroles; simp [hj]
      · simp [rt_rel, hr, hv, World.emit]
    · unroles
      simp only [hidx, hisr, hr, decide_false, Option.bind_some, Bool.false_eq_true, ↓reduceIte]
      refine ⟨_, _, rfl, rfl, fun _ _ => rfl, hr, rfl, fun _ _ => rfl, rfl, ?_⟩
      simp [rt_rel, hr]

end TieRaceOkT
end Fc
