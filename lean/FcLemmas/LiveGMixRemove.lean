/-
  FcLemmas/LiveGMixRemove.lean — delivery for runs of Fc/ExecGMix.lean whose plan may `remove`:
  every inserted id has delivered everything its script holds, or it was removed by the consumer.

  The invariant of FcLemmas/LiveGMixDeliver.lean (`LiveGStuck.WGS.lf`: a released id has no scripted
  step left) is false after a `remove`.  It is replaced by a fact about the WORLD alone (scripts and
  trace; no slab, no readiness bits, no wakers), `DQ`:

    * `dl` — what an id has answered so far ++ what its script still holds = what it held at the
      start (every `childEnd c r` is logged by `World.pollChild c _`, which consumes one step);
    * `wb` — the script of an id that started well-behaved is still well-behaved, or exhausted;
    * `lf` — an id (that started well-behaved) whose `childDropped` is in the trace has no step left,
      OR the trace, newest first, contains `removed _ true :: childDropped c :: _` (`RemPat`).

  `DQ` is kept by every event that is neither a `childEnd` nor a `childDropped` (`dq_seg`), by a
  member poll followed by the release the group policy performs when the answer was `Ready` / `None`
  (`dq_visit`: a well-behaved script answers `Ready` / `None` only with its last step), and by the
  two events of a successful `remove` (`dq_removed`) — whatever the state of the group is.  So it
  holds along every run of `runMix` from `GEng.init` (`dq_runMix`), for arbitrary plans of membership
  operations.

  The facts about the group — an inserted id that was not released is a member (`CB.link.f4`),
  `yielded = producedVals` (`G11.InvE.yp`) — are those of `LiveGAny.LRW`, carried along the run as in
  FcLemmas/LiveGMixMain.lean (`rm_runMix`), together with "every id inserted so far has a key".
-/
import FcLemmas.LiveGMixDeliver
set_option linter.unusedSimpArgs false
set_option linter.unusedVariables false

namespace Fc
namespace LiveGMix
open Mon Live Live3 G Grp C01 LiveG LiveGAny LiveGStuck

/-! ### "removed by the consumer", read off the trace -/

/-- the trace (newest first) contains `removed key true` directly on top of `childDropped c` -/
def RemPat (t : List Ev) (c : Nat) : Prop :=
  ∃ key t', [Ev.removed key true, Ev.childDropped c] ++ t' <:+ t

theorem remPat_append (l t : List Ev) (c : Nat) (h : RemPat t c) : RemPat (l ++ t) c := by
  obtain ⟨key, t', hs⟩ := h
  exact ⟨key, t', hs.trans (List.suffix_append l t)⟩

theorem remPat_cons (x : Ev) (t : List Ev) (c : Nat) (h : RemPat t c) : RemPat (x :: t) c :=
  remPat_append [x] t c h

/-! ### the World-only delivery invariant -/

/-- events that neither report an answer nor release a member -/
def isQuietEv : Ev → Bool
  | .childEnd _ _ | .childDropped _ => false
  | _ => true

theorem fireEv_quiet (x : Ev) (h : isFireEv x = true) : isQuietEv x = true := by
  cases x <;> simp_all [isFireEv, isQuietEv]

structure DQ (stream : Bool) (sc0 scr : Nat → List Step) (t : List Ev) : Prop where
  dl : ∀ c, (valsOf c t).reverse ++ Exec.scriptVals (scr c) = Exec.scriptVals (sc0 c)
  wb : ∀ c, wbScript stream (sc0 c) = true → wbScript stream (scr c) = true ∨ scr c = []
  lf : ∀ c, wbScript stream (sc0 c) = true → gone t c = true → scr c = [] ∨ RemPat t c

variable {stream : Bool} {sc0 : Nat → List Step}

theorem dq_seg {scr : Nat → List Step} (l t : List Ev) (hl : ∀ x ∈ l, isQuietEv x = true)
    (h : DQ stream sc0 scr t) : DQ stream sc0 scr (l ++ t) := by
  have hv : ∀ c, valsOf c (l ++ t) = valsOf c t := fun c =>
    skip_seg (valsOf c) isQuietEv (fun e t h => by cases e <;> simp_all [isQuietEv, valsOf]) l hl t
  have hg : ∀ c, gone (l ++ t) c = gone t c := fun c =>
    skip_seg (fun t => gone t c) isQuietEv (fun e t h => by cases e <;> simp_all [isQuietEv, gone])
      l hl t
  refine ⟨fun c => by rw [hv]; exact h.dl c, h.wb, fun c hc hgc => ?_⟩
  rw [hg] at hgc
  rcases h.lf c hc hgc with h1 | h1
  · exact Or.inl h1
  · exact Or.inr (remPat_append l t c h1)

theorem dq_cons {scr : Nat → List Step} (x : Ev) (t : List Ev) (hx : isQuietEv x = true)
    (h : DQ stream sc0 scr t) : DQ stream sc0 scr (x :: t) :=
  dq_seg [x] t (fun y hy => by simp at hy; subst hy; exact hx) h

/-- a member is released with no step left -/
theorem dq_dropped {scr : Nat → List Step} (c : Nat) (t : List Ev)
    (hc : wbScript stream (sc0 c) = true → scr c = []) (h : DQ stream sc0 scr t) :
    DQ stream sc0 scr (.childDropped c :: t) := by
  refine ⟨fun j => by simpa [valsOf] using h.dl j, h.wb, fun j hj hg => ?_⟩
  simp only [gone, Bool.or_eq_true, decide_eq_true_eq] at hg
  rcases hg with hg | hg
  · subst hg; exact Or.inl (hc hj)
  · rcases h.lf j hj hg with h1 | h1
    · exact Or.inl h1
    · exact Or.inr (remPat_cons _ t j h1)

/-- the two events of a successful `remove` -/
theorem dq_removed {scr : Nat → List Step} (k c : Nat) (t : List Ev) (h : DQ stream sc0 scr t) :
    DQ stream sc0 scr (.removed k true :: .childDropped c :: t) := by
  refine ⟨fun j => by simpa [valsOf] using h.dl j, h.wb, fun j hj hg => ?_⟩
  simp only [gone, Bool.or_eq_true, decide_eq_true_eq] at hg
  rcases hg with hg | hg
  · subst hg; exact Or.inr ⟨k, t, List.suffix_refl _⟩
  · rcases h.lf j hj hg with h1 | h1
    · exact Or.inl h1
    · exact Or.inr (remPat_append [.removed k true, .childDropped c] t j h1)

/-- one member poll: `DQ` is kept, and an id that started well-behaved and answers `Ready` / `None`
    has no step left -/
theorem dq_pollChild (w : World) (c k : Nat) (h : DQ stream sc0 w.scripts w.trace) :
    DQ stream sc0 (w.pollChild c k).scripts (w.pollChild c k).trace ∧
    ((w.resOf c = .fin ∨ ∃ ok v, w.resOf c = .ready ok v) → wbScript stream (sc0 c) = true →
      (w.pollChild c k).scripts c = []) := by
  have hS : ∀ j, (w.pollChild c k).scripts j = if j = c then (w.scripts c).tail else w.scripts j := by
    intro j
    rw [pollChild_scripts]
    by_cases hj : j = c
    · subst hj; simp
    · simp [upd_other _ _ _ _ hj, hj]
  have hG : ∀ j, gone (w.pollChild c k).trace j = gone w.trace j := fun j => gone_pollChild w c k j
  obtain ⟨l, hl, hp⟩ := World.pollChild_seg w c k
  have hext : (w.pollChild c k).trace
      = (.childEnd c (w.resOf c) :: l ++ [.childBegin c k (w.wakerFor k)]) ++ w.trace := by
    rw [hl]; simp
  refine ⟨⟨?_, ?_, ?_⟩, ?_⟩
  · intro j
    rw [valsOf_pollChild, hS]
    by_cases hcj : c = j
    · subst hcj
      simp only [if_true, List.reverse_append]
      rw [← h.dl c, scriptVals_step w c]
      have : (Exec.resVals (w.resOf c)).reverse = Exec.resVals (w.resOf c) := by
        cases w.resOf c <;> simp [Exec.resVals]
      rw [this]; simp
    · have hjc : j ≠ c := fun hh => hcj hh.symm
      simp only [hcj, hjc, if_false, List.nil_append]
      exact h.dl j
  · intro j hj
    rw [hS]
    by_cases hjc : j = c
    · subst hjc
      simp only [if_true]
      rcases h.wb j hj with h1 | h1
      · rcases wb_resOf w j h1 with ⟨ht, _⟩ | ⟨_, _, ht⟩
        · exact Or.inr ht
        · exact Or.inl ht
      · rw [h1]; exact Or.inr rfl
    · simp only [hjc, if_false]; exact h.wb j hj
  · intro j hj hg
    rw [hG] at hg
    rcases h.lf j hj hg with h1 | h1
    · left
      rw [hS]
      by_cases hjc : j = c
      · subst hjc; simp only [if_true]; rw [h1]; rfl
      · simp only [hjc, if_false]; exact h1
    · right
      rw [hext]; exact remPat_append _ _ j h1
  · intro hr hc
    rw [hS]; simp only [if_true]
    rcases h.wb c hc with h1 | h1
    · rcases wb_resOf w c h1 with ⟨ht, _⟩ | ⟨_, hq, _⟩
      · exact ht
      · rcases hr with hr | ⟨ok, v, hr⟩ <;> rcases hq with hq | ⟨v', hq⟩ <;> rw [hr] at hq <;> cases hq
    · rw [h1]; rfl

/-! ### the engine: one poll of the group, a wake-up -/

/-- `DQ` for the World of an engine state -/
abbrev EQ (stream : Bool) (sc0 : Nat → List Step) (e : Eng Grp) : Prop :=
  DQ stream sc0 e.w.scripts e.w.trace

theorem eq_ext (e e' : Eng Grp) (l : List Ev) (hs : e'.w.scripts = e.w.scripts)
    (ht : e'.w.trace = l ++ e.w.trace) (hl : ∀ x ∈ l, isQuietEv x = true)
    (h : EQ stream sc0 e) : EQ stream sc0 e' := by
  unfold EQ
  rw [hs, ht]
  exact dq_seg l _ hl h

theorem resOf_congr (w w' : World) (c : Nat) (h : w'.scripts = w.scripts) : w'.resOf c = w.resOf c := by
  unfold World.resOf World.stepOf
  rw [h]

/-- a member poll followed by what the group policy does with the answer -/
theorem dq_handle (W : World) (s : Grp) (i : Nat) (r : Res) (hr : W.resOf (group.child s i) = r)
    (h : DQ stream sc0 W.scripts W.trace) :
    DQ stream sc0
      (((W.pollChild (group.child s i) i).emits (group.handle s i r).evs).kop
        (group.handle s i r).kop).scripts
      (((W.pollChild (group.child s i) i).emits (group.handle s i r).evs).kop
        (group.handle s i r).kop).trace := by
  obtain ⟨hpc, hfin⟩ := dq_pollChild W (group.child s i) i h
  cases r with
  | pend => simpa [group, World.emits, World.kop] using hpc
  | panic => simpa [group, World.emits, World.kop] using hpc
  | item v => simpa [group, World.emits, World.kop] using hpc
  | fin =>
    have hz := hfin (Or.inl hr)
    have := dq_dropped (group.child s i) _ hz hpc
    simpa [group, World.emits, World.kop] using this
  | ready ok v =>
    have hz := hfin (Or.inr ⟨ok, v, hr⟩)
    have := dq_dropped (group.child s i) _ hz hpc
    simpa [group, World.emits, World.kop] using this

theorem eq_visit (e : Eng Grp) (i : Nat) (h : EQ stream sc0 e) :
    EQ stream sc0 (Eng.visit group e i).1 := by
  have hgs : (Eng.gateW group e i).scripts = e.w.scripts := by
    unfold Eng.gateW; split <;> simp
  have hgt : (Eng.gateW group e i).trace = e.w.trace := by
    unfold Eng.gateW; split <;> simp
  have hg : DQ stream sc0 (Eng.gateW group e i).scripts (Eng.gateW group e i).trace := by
    rw [hgs, hgt]; exact h
  have hro : ∀ c, (Eng.gateW group e i).resOf c = e.w.resOf c := fun c => resOf_congr _ _ c hgs
  unfold Eng.visit
  split
  · exact h
  · split
    · exact hg
    · split
      · exact (dq_pollChild (Eng.gateW group e i) (group.child e.s i) i hg).1
      · exact dq_handle (Eng.gateW group e i) e.s i _ (hro _) hg

theorem eq_scan : ∀ (l : List Nat) (e : Eng Grp), EQ stream sc0 e →
    EQ stream sc0 (Eng.scan group l e).1 := by
  intro l
  induction l with
  | nil => intro e h; exact h
  | cons i rest ih =>
    intro e h
    unfold Eng.scan
    cases hv : (Eng.visit group e i).2 with
    | some o => simp only; exact eq_visit e i h
    | none => simp only; exact ih _ (eq_visit e i h)

theorem eq_close (r : Eng Grp × Option Outcome) (h : EQ stream sc0 r.1) :
    EQ stream sc0 (Eng.close group r) := by
  unfold Eng.close
  cases hr : r.2 with
  | some o =>
    simp only
    exact dq_cons _ _ rfl h
  | none =>
    simp only
    show DQ stream sc0 _ (_ :: _)
    refine dq_cons _ _ rfl ?_
    simpa [Eng.applyH, group, World.emits, World.kop] using h

theorem eq_poll (e : Eng Grp) (wid : Nat) (h : EQ stream sc0 e) :
    EQ stream sc0 (Eng.poll group e wid) := by
  unfold Eng.poll
  split
  · exact dq_cons _ _ rfl (dq_cons _ _ rfl h)
  · have h1 : EQ stream sc0 { e with w := (e.w.emit (.pollBegin wid)).setWaker wid } :=
      dq_cons _ _ rfl h
    unfold Eng.body
    split
    · exact dq_cons _ _ rfl h1
    · exact eq_close _ (eq_scan _ _ h1)

theorem eq_fire (e : Eng Grp) (c a : Nat) (h : EQ stream sc0 e) : EQ stream sc0 (e.fire c a) := by
  obtain ⟨l, hl, hp⟩ := World.fire_seg e.w c a
  exact eq_ext e _ l (by simp) (by simpa using hl) (fun x hx => fireEv_quiet x (hp x hx)) h

theorem eq_fires : ∀ (l : List (Nat × Nat)) (e : Eng Grp), EQ stream sc0 e →
    EQ stream sc0 (ExecGAny.fires e l) := by
  intro l
  induction l with
  | nil => intro e h; exact h
  | cons p l ih => intro e h; exact ih _ (eq_fire e p.1 p.2 h)

/-! ### the membership operations: what they append to the trace -/

/-- `t'` is `t` with the events of membership operations on top: `inserted`, `removed _ false`, or
    the pair `childDropped c`, `removed _ true` of a successful `remove` -/
inductive MExt (t : List Ev) : List Ev → Prop
  | refl : MExt t t
  | ins (c k : Nat) (t' : List Ev) : MExt t t' → MExt t (.inserted c k :: t')
  | remF (k : Nat) (t' : List Ev) : MExt t t' → MExt t (.removed k false :: t')
  | remT (k c : Nat) (t' : List Ev) : MExt t t' → MExt t (.removed k true :: .childDropped c :: t')

theorem MExt.trans {t t' t'' : List Ev} (h1 : MExt t t') (h2 : MExt t' t'') : MExt t t'' := by
  induction h2 with
  | refl => exact h1
  | ins c k u _ ih => exact .ins c k u ih
  | remF k u _ ih => exact .remF k u ih
  | remT k c u _ ih => exact .remT k c u ih

theorem dq_mext {scr : Nat → List Step} {t t' : List Ev} (hm : MExt t t')
    (h : DQ stream sc0 scr t) : DQ stream sc0 scr t' := by
  induction hm with
  | refl => exact h
  | ins c k u _ ih => exact dq_cons _ _ rfl ih
  | remF k u _ ih => exact dq_cons _ _ rfl ih
  | remT k c u _ ih => exact dq_removed k c u ih

theorem keyOf_mext {t t' : List Ev} (hm : MExt t t') (x : Nat) (h : keyOf t x ≠ none) :
    keyOf t' x ≠ none := by
  induction hm with
  | refl => exact h
  | ins c k u _ ih =>
    simp only [keyOf]
    split
    · simp
    · exact ih
  | remF k u _ ih => simpa [keyOf] using ih
  | remT k c u _ ih => simpa [keyOf] using ih

theorem mext_extend_fold : ∀ (cs : List Nat) (e : Eng Grp),
    MExt e.w.trace (cs.foldl (fun e c => GEng.insertAt (GEng.grow e) c false) e).w.trace ∧
    ∀ x ∈ cs, keyOf (cs.foldl (fun e c => GEng.insertAt (GEng.grow e) c false) e).w.trace x ≠ none := by
  intro cs
  induction cs with
  | nil => intro e; exact ⟨.refl, fun x hx => by cases hx⟩
  | cons c cs ih =>
    intro e
    simp only [List.foldl_cons]
    have ht : (GEng.insertAt (GEng.grow e) c false).w.trace
        = .inserted c (GEng.grow e).s.next :: e.w.trace := by
      rw [GEng.insertAt_trace, GEng.grow_trace]
    have h1 : MExt e.w.trace (GEng.insertAt (GEng.grow e) c false).w.trace := by
      rw [ht]; exact .ins _ _ _ .refl
    obtain ⟨h2, h3⟩ := ih (GEng.insertAt (GEng.grow e) c false)
    refine ⟨h1.trans h2, fun x hx => ?_⟩
    rcases List.mem_cons.mp hx with hx | hx
    · subst hx
      exact keyOf_mext h2 x (by rw [ht]; simp [keyOf])
    · exact h3 x hx

/-- a membership operation: the trace grows by membership events; if the group is not dead, the
    inserted ids have a key afterwards -/
theorem mext_stepM (e : Eng Grp) (op : Op) (hop : op.isMembership = true) :
    MExt e.w.trace (GEng.step e op).w.trace ∧
    (e.s.dead = false → ∀ x ∈ insertedIds op, keyOf (GEng.step e op).w.trace x ≠ none) := by
  cases op with
  | insert c =>
    simp only [GEng.step]
    split
    · rename_i hd
      exact ⟨.refl, fun hd' => by rw [hd] at hd'; cases hd'⟩
    · have ht : (GEng.insert e c).w.trace = .inserted c (GEng.grow e).s.next :: e.w.trace := by
        unfold GEng.insert
        rw [GEng.insertAt_trace, GEng.grow_trace]
      refine ⟨by rw [ht]; exact .ins _ _ _ .refl, fun _ x hx => ?_⟩
      have : x = c := by simpa [insertedIds] using hx
      subst this
      rw [ht]; simp [keyOf]
  | extend cs =>
    simp only [GEng.step]
    split
    · rename_i hd
      exact ⟨.refl, fun hd' => by rw [hd] at hd'; cases hd'⟩
    · unfold GEng.extend
      obtain ⟨h1, h2⟩ := mext_extend_fold cs (GEng.reserve e cs.length)
      rw [GEng.reserve_trace] at h1
      exact ⟨h1, fun _ x hx => h2 x (by simpa [insertedIds] using hx)⟩
  | reserve k =>
    simp only [GEng.step]
    split
    · exact ⟨.refl, fun _ x hx => by simp [insertedIds] at hx⟩
    · rw [GEng.reserve_trace]
      exact ⟨.refl, fun _ x hx => by simp [insertedIds] at hx⟩
  | remove j =>
    refine ⟨?_, fun _ x hx => by simp [insertedIds] at hx⟩
    simp only [GEng.step]
    split
    · exact .refl
    · unfold GEng.remove
      cases e.s.ret[j]? with
      | none => exact .refl
      | some k =>
        simp only
        split
        · exact .remT _ _ _ .refl
        · exact .remF _ _ .refl
  | _ => simp [Op.isMembership] at hop

theorem mext_runM : ∀ (ops : List Op) (e : Eng Grp), (∀ op ∈ ops, op.isMembership = true) →
    MExt e.w.trace (ops.foldl GEng.step e).w.trace := by
  intro ops
  induction ops with
  | nil => intro e _; exact .refl
  | cons op ops ih =>
    intro e hop
    simp only [List.foldl_cons]
    exact (mext_stepM e op (hop op (List.mem_cons_self ..))).1.trans
      (ih _ (fun op' hop' => hop op' (List.mem_cons_of_mem _ hop')))

theorem eq_runM (ops : List Op) (e : Eng Grp) (hops : ∀ op ∈ ops, op.isMembership = true)
    (h : EQ stream sc0 e) : EQ stream sc0 (ops.foldl GEng.step e) := by
  unfold EQ
  rw [lgw_runM_scripts ops e hops]
  exact dq_mext (mext_runM ops e hops) h

/-! ### `DQ` along the run -/

variable {pick : Nat → Eng Grp → Nat} {pre post : Nat → Eng Grp → List (Nat × Nat)}

theorem eq_round (r : Nat) (e e' : Eng Grp) (h : EQ stream sc0 e)
    (hr : ExecGAny.roundB pick pre post r e = some e') : EQ stream sc0 e' := by
  unfold ExecGAny.roundB at hr
  split at hr
  · cases hr
  · split at hr
    · cases hr; exact eq_poll e _ h
    · cases hch : ExecGAny.choose pick r e with
      | none => rw [hch] at hr; cases hr
      | some c =>
        rw [hch] at hr
        cases hr
        exact eq_fires _ _ (eq_fire _ c 0 (eq_fires _ e h))

theorem eq_perform (e : Eng Grp) (ops : List Op) (hops : ∀ op ∈ ops, op.isMembership = true)
    (h : EQ stream sc0 e) : EQ stream sc0 (ExecGMix.perform e ops) :=
  eq_poll _ _ (eq_runM ops e hops h)

theorem eq_runMix : ∀ (k r : Nat) (pl : ExecGMix.Plan) (e : Eng Grp),
    (∀ op ∈ ExecGMix.Plan.ops pl, op.isMembership = true) → EQ stream sc0 e →
    EQ stream sc0 (ExecGMix.runMix pick pre post k r pl e).1 := by
  intro k
  induction k with
  | zero => intro r pl e _ h; exact h
  | succ k ih =>
    intro r pl e hpl h
    cases pl with
    | nil =>
      simp only [ExecGMix.runMix]
      cases hr : ExecGAny.roundB pick pre post r e with
      | none => exact h
      | some e' => exact ih (r + 1) [] e' hpl (eq_round r e e' h hr)
    | cons en pl' =>
      obtain ⟨d, ops⟩ := en
      rw [planOps_cons] at hpl
      have hperf : EQ stream sc0 (ExecGMix.runMix pick pre post k (r + 1) pl'
          (ExecGMix.perform e ops)).1 :=
        ih (r + 1) pl' _ (fun op hop => hpl op (List.mem_append_right _ hop))
          (eq_perform e ops (fun op hop => hpl op (List.mem_append_left _ hop)) h)
      cases d with
      | zero => simp only [ExecGMix.runMix]; exact hperf
      | succ d =>
        simp only [ExecGMix.runMix]
        cases hr : ExecGAny.roundB pick pre post r e with
        | none => exact hperf
        | some e' =>
          exact ih (r + 1) ((d, ops) :: pl') e' (by rw [planOps_cons]; exact hpl)
            (eq_round r e e' h hr)

theorem eq_init (stream keyed : Bool) (m : Mode) (scripts : Nat → List Step) :
    EQ stream scripts (GEng.init stream keyed m scripts) :=
  ⟨fun c => by simp [GEng.init, World.init, valsOf], fun c hc => Or.inl hc,
    fun c _ hg => by simp [GEng.init, World.init, gone] at hg⟩

/-! ### every id inserted so far has a key -/

theorem dead_extend_fold : ∀ (cs : List Nat) (e : Eng Grp),
    (cs.foldl (fun e c => GEng.insertAt (GEng.grow e) c false) e).s.dead = e.s.dead := by
  intro cs
  induction cs with
  | nil => intro e; rfl
  | cons c cs ih =>
    intro e
    simp only [List.foldl_cons]
    rw [ih, G.insertAt_dead, G.grow_dead]

theorem dead_stepM (e : Eng Grp) (op : Op) (hop : op.isMembership = true) :
    (GEng.step e op).s.dead = e.s.dead := by
  cases op with
  | insert c =>
    simp only [GEng.step]
    split
    · rfl
    · unfold GEng.insert; rw [G.insertAt_dead, G.grow_dead]
  | extend cs =>
    simp only [GEng.step]
    split
    · rfl
    · unfold GEng.extend; rw [dead_extend_fold, G.reserve_dead]
  | reserve k =>
    simp only [GEng.step]
    split
    · rfl
    · exact G.reserve_dead e k
  | remove j =>
    simp only [GEng.step]
    split
    · rfl
    · unfold GEng.remove
      cases e.s.ret[j]? with
      | none => rfl
      | some k =>
        simp only
        split <;> rfl
  | _ => simp [Op.isMembership] at hop

theorem keys_runM : ∀ (ops : List Op) (e : Eng Grp), (∀ op ∈ ops, op.isMembership = true) →
    e.s.dead = false →
    ∀ x ∈ ops.flatMap insertedIds, keyOf (ops.foldl GEng.step e).w.trace x ≠ none := by
  intro ops
  induction ops with
  | nil => intro e _ _ x hx; cases hx
  | cons op ops ih =>
    intro e hop hd x hx
    simp only [List.foldl_cons]
    have hop1 := hop op (List.mem_cons_self ..)
    have hops : ∀ op' ∈ ops, op'.isMembership = true :=
      fun op' hop' => hop op' (List.mem_cons_of_mem _ hop')
    simp only [List.flatMap_cons, List.mem_append] at hx
    rcases hx with hx | hx
    · exact keyOf_mext (mext_runM ops _ hops) x ((mext_stepM e op hop1).2 hd x hx)
    · exact ih _ hops (by rw [dead_stepM e op hop1]; exact hd) x hx

theorem keyOf_firesE : ∀ (l : List (Nat × Nat)) (e : Eng Grp) (x : Nat),
    keyOf (ExecGAny.fires e l).w.trace x = keyOf e.w.trace x := by
  intro l
  induction l with
  | nil => intro e x; rfl
  | cons p l ih =>
    intro e x
    simp only [ExecGAny.fires]
    rw [ih, Eng.fire_w, keyOf_fire]

theorem keyOf_round (r : Nat) (e e' : Eng Grp)
    (hr : ExecGAny.roundB pick pre post r e = some e') (x : Nat) :
    keyOf e'.w.trace x = keyOf e.w.trace x := by
  unfold ExecGAny.roundB at hr
  split at hr
  · cases hr
  · split at hr
    · cases hr; exact keyOf_poll e _ x
    · cases hch : ExecGAny.choose pick r e with
      | none => rw [hch] at hr; cases hr
      | some c =>
        rw [hch] at hr
        cases hr
        rw [keyOf_firesE, Eng.fire_w, keyOf_fire, keyOf_firesE]

/-! ### the group invariants along the run -/

/-- the states of a run (`LiveGAny.RunInv` for `LRW` / `LRA`, some restriction `ids`), and every id
    inserted so far (`ins`) has a key -/
structure RM (stream keyed : Bool) (m : Mode) (n : Nat) (ins : List Nat) (sc : Nat → List Step)
    (e : Eng Grp) : Prop where
  ri : ∃ ids, RunInv (LRW stream keyed m n ids ins sc) (LRA stream keyed m n ids ins sc)
    (fun e => ∀ k, e.s.member k = none) e
  key : ∀ c ∈ ins, keyOf e.w.trace c ≠ none

variable {keyed : Bool} {m : Mode} {n : Nat} {ins : List Nat} {sc : Nat → List Step}

theorem rm_lrw (e : Eng Grp) (h : RM stream keyed m n ins sc e) :
    ∃ ids, LRW stream keyed m n ids ins sc e := by
  obtain ⟨ids, h1 | ⟨h1, _⟩⟩ := h.ri
  · exact ⟨ids, h1.r⟩
  · exact ⟨ids, h1⟩

theorem rm_round (r : Nat) (e e' : Eng Grp) (h : RM stream keyed m n ins sc e)
    (hr : ExecGAny.roundB pick pre post r e = some e') : RM stream keyed m n ins sc e' := by
  obtain ⟨ids, hri⟩ := h.ri
  exact ⟨⟨ids, round_inv prog_lra r e e' hri hr⟩,
    fun c hc => by rw [keyOf_round r e e' hr]; exact h.key c hc⟩

theorem rm_perform (e : Eng Grp) (h : RM stream keyed m n ins sc e) (ops : List Op)
    (hops : ∀ op ∈ ops, op.isMembership = true)
    (hnd : (ops.flatMap insertedIds).Nodup)
    (hnew : ∀ c ∈ ops.flatMap insertedIds, c ∉ ins ∧ c < n ∧ wbScript stream (sc c) = true) :
    RM stream keyed m n (ins ++ ops.flatMap insertedIds) sc (ExecGMix.perform e ops) := by
  obtain ⟨ids, hl⟩ := rm_lrw e h
  obtain ⟨hl', _⟩ := lrw_ops e hl ops hops hnd hnew
  have hdead : e.s.dead = false := hl.w.dead
  refine ⟨⟨ids ++ ops.flatMap insertedIds, ?_⟩, ?_⟩
  · unfold ExecGMix.perform ExecGAny.restart
    rcases (prog_lra (stream := stream) (keyed := keyed) (m := m) (n := n)
        (ids := ids ++ ops.flatMap insertedIds) (ins := ins ++ ops.flatMap insertedIds)
        (sc := sc)).poll _ (Exec.pollCount (ops.foldl GEng.step e).w.trace + 1) hl'
      with ⟨h1, h2, h3⟩ | ⟨h1, _⟩
    · exact Or.inr ⟨h2, h3, h1⟩
    · exact Or.inl h1
  · intro c hc
    unfold ExecGMix.perform ExecGAny.restart
    rw [keyOf_poll]
    rcases List.mem_append.mp hc with hc | hc
    · exact keyOf_mext (mext_runM ops e hops) c (h.key c hc)
    · exact keys_runM ops e hops hdead c hc

/-- the plan is fresh with respect to the ids inserted so far -/
def FreshPlanM (stream : Bool) (n : Nat) (ins : List Nat) (sc : Nat → List Step)
    (pl : ExecGMix.Plan) : Prop :=
  (∀ op ∈ ExecGMix.Plan.ops pl, op.isMembership = true) ∧ (planIds pl).Nodup ∧
  ∀ c ∈ planIds pl, c ∉ ins ∧ c < n ∧ wbScript stream (sc c) = true

theorem freshPlanM_delay {d d' : Nat} {ops : List Op} {pl : ExecGMix.Plan}
    (h : FreshPlanM stream n ins sc ((d, ops) :: pl)) :
    FreshPlanM stream n ins sc ((d', ops) :: pl) := by
  unfold FreshPlanM at h ⊢
  simpa only [planOps_cons, planIds_cons] using h

theorem freshPlanM_tail {d : Nat} {ops : List Op} {pl : ExecGMix.Plan}
    (h : FreshPlanM stream n ins sc ((d, ops) :: pl)) :
    ((∀ op ∈ ops, op.isMembership = true) ∧ (ops.flatMap insertedIds).Nodup ∧
      ∀ c ∈ ops.flatMap insertedIds, c ∉ ins ∧ c < n ∧ wbScript stream (sc c) = true) ∧
    FreshPlanM stream n (ins ++ ops.flatMap insertedIds) sc pl := by
  obtain ⟨h1, h2, h3⟩ := h
  rw [planOps_cons] at h1
  rw [planIds_cons] at h2 h3
  rw [List.nodup_append] at h2
  obtain ⟨hn1, hn2, hdis⟩ := h2
  refine ⟨⟨fun op hop => h1 op (List.mem_append_left _ hop), hn1,
    fun c hc => h3 c (List.mem_append_left _ hc)⟩,
    fun op hop => h1 op (List.mem_append_right _ hop), hn2, fun c hc => ?_⟩
  obtain ⟨g1, g2⟩ := h3 c (List.mem_append_right _ hc)
  refine ⟨fun hh => ?_, g2⟩
  rcases List.mem_append.mp hh with hh | hh
  · exact g1 hh
  · exact hdis c hh c hc rfl

theorem rm_runMix : ∀ (k r : Nat) (pl : ExecGMix.Plan) (ins : List Nat) (e : Eng Grp),
    RM stream keyed m n ins sc e → FreshPlanM stream n ins sc pl →
    ∃ ins', RM stream keyed m n ins' sc (ExecGMix.runMix pick pre post k r pl e).1 ∧
      ∀ c, c ∈ ins' ++ planIds (ExecGMix.runMix pick pre post k r pl e).2 ↔ c ∈ ins ++ planIds pl := by
  intro k
  induction k with
  | zero => intro r pl ins e h _; exact ⟨ins, h, fun _ => Iff.rfl⟩
  | succ k ih =>
    intro r pl ins e h hf
    have hperf : ∀ (d : Nat) (ops : List Op) (pl' : ExecGMix.Plan), pl = (d, ops) :: pl' →
        ∃ ins', RM stream keyed m n ins' sc
            (ExecGMix.runMix pick pre post k (r + 1) pl' (ExecGMix.perform e ops)).1 ∧
          ∀ c, c ∈ ins' ++ planIds
              (ExecGMix.runMix pick pre post k (r + 1) pl' (ExecGMix.perform e ops)).2
            ↔ c ∈ ins ++ planIds pl := by
      intro d ops pl' hpl
      subst hpl
      obtain ⟨⟨g1, g2, g3⟩, hf'⟩ := freshPlanM_tail hf
      obtain ⟨ins', hl, hiff⟩ := ih (r + 1) pl' _ _ (rm_perform e h ops g1 g2 g3) hf'
      refine ⟨ins', hl, fun c => ?_⟩
      rw [hiff c, planIds_cons]
      simp only [List.mem_append, or_assoc]
    cases pl with
    | nil =>
      simp only [ExecGMix.runMix]
      cases hr : ExecGAny.roundB pick pre post r e with
      | none => exact ⟨ins, h, fun _ => Iff.rfl⟩
      | some e' => exact ih (r + 1) [] ins e' (rm_round r e e' h hr) hf
    | cons en pl' =>
      obtain ⟨d, ops⟩ := en
      cases d with
      | zero =>
        simp only [ExecGMix.runMix]
        exact hperf 0 ops pl' rfl
      | succ d =>
        simp only [ExecGMix.runMix]
        cases hr : ExecGAny.roundB pick pre post r e with
        | none => exact hperf (d + 1) ops pl' rfl
        | some e' =>
          obtain ⟨ins', hl, hiff⟩ := ih (r + 1) ((d, ops) :: pl') ins e' (rm_round r e e' h hr)
            (freshPlanM_delay hf)
          refine ⟨ins', hl, fun c => ?_⟩
          rw [hiff c, planIds_cons, planIds_cons]

/-! ### the theorem -/

/-- plans of `insert` / `extend` / `reserve` / `remove`: at the end of the run of `group_mix_ends`
    every inserted id has delivered everything its script holds, or was removed by the consumer -/
theorem group_mix_delivers_remove (stream keyed : Bool) (m : Mode) (scripts : Nat → List Step)
    (pre : List Op) (pl : ExecGMix.Plan)
    (hpre : ∀ op ∈ pre, op.isInsertLike = true)
    (hpl : ∀ op ∈ ExecGMix.Plan.ops pl, op.isMembership = true)
    (hfresh : ((pre ++ ExecGMix.Plan.ops pl).flatMap insertedIds).Nodup)
    (hs : ∀ c ∈ (pre ++ ExecGMix.Plan.ops pl).flatMap insertedIds,
      wbScript stream (scripts c) = true)
    (pick : Nat → Eng Grp → Nat) (bef aft : Nat → Eng Grp → List (Nat × Nat)) (r : Nat) :
    ∃ k, k ≤ 3 * (ExecG.stepsLeft (pre.foldl GEng.step (GEng.init stream keyed m scripts))
          + lenSum scripts (planIds pl)) + 1 + 2 * pl.length ∧
      (ExecGMix.runMix pick bef aft k r pl
        (pre.foldl GEng.step (GEng.init stream keyed m scripts))).2 = [] ∧
      lastOut (ExecGMix.runMix pick bef aft k r pl
        (pre.foldl GEng.step (GEng.init stream keyed m scripts))).1.w.trace = some .none ∧
      (∀ j, (ExecGMix.runMix pick bef aft k r pl
        (pre.foldl GEng.step (GEng.init stream keyed m scripts))).1.s.member j = none) ∧
      ∀ c ∈ (pre ++ ExecGMix.Plan.ops pl).flatMap insertedIds,
        gone (ExecGMix.runMix pick bef aft k r pl
          (pre.foldl GEng.step (GEng.init stream keyed m scripts))).1.w.trace c = true ∧
        ((Exec.scriptVals (scripts c)).reverse.Sublist
          (yielded (ExecGMix.runMix pick bef aft k r pl
            (pre.foldl GEng.step (GEng.init stream keyed m scripts))).1.w.trace) ∨
         RemPat (ExecGMix.runMix pick bef aft k r pl
            (pre.foldl GEng.step (GEng.init stream keyed m scripts))).1.w.trace c) := by
  have hpreM : ∀ op ∈ pre, op.isMembership = true := by
    intro op hop
    have := hpre op hop
    cases op <;> simp_all [Op.isInsertLike, Op.isMembership]
  obtain ⟨k, hk, h1, h2, h3⟩ := group_mix_ends stream keyed m scripts pre pl hpre hpl hfresh hs
    pick bef aft r
  refine ⟨k, hk, h1, h2, h3, ?_⟩
  -- the World invariant
  have hq : EQ stream scripts (ExecGMix.runMix pick bef aft k r pl
      (pre.foldl GEng.step (GEng.init stream keyed m scripts))).1 :=
    eq_runMix k r pl _ hpl (eq_runM pre _ hpreM (eq_init stream keyed m scripts))
  -- the group invariants
  rw [List.flatMap_append] at hfresh hs ⊢
  rw [List.nodup_append] at hfresh
  obtain ⟨hnd₁, hnd₂, hdis⟩ := hfresh
  have hle : ∀ c ∈ pre.flatMap insertedIds ++ planIds pl,
      c < (pre.flatMap insertedIds ++ planIds pl).sum + 1 := by
    intro c hc
    have := le_sum_of_mem _ c hc
    omega
  obtain ⟨hlra, _, _⟩ := start_lra stream keyed m scripts pre
    ((pre.flatMap insertedIds ++ planIds pl).sum + 1) hpre hnd₁
    (fun c hc => hs c (List.mem_append_left _ hc)) (fun c hc => hle c (List.mem_append_left _ hc))
  have hstart : RM stream keyed m ((pre.flatMap insertedIds ++ planIds pl).sum + 1)
      (pre.flatMap insertedIds) scripts (pre.foldl GEng.step (GEng.init stream keyed m scripts)) :=
    ⟨⟨_, Or.inl hlra⟩, keys_runM pre _ hpreM rfl⟩
  obtain ⟨ins', hrm, hiff⟩ := rm_runMix (pick := pick) (pre := bef) (post := aft) k r pl _ _ hstart
    ⟨hpl, hnd₂, fun c hc => ⟨fun hh => hdis c hh c hc rfl,
      hle c (List.mem_append_right _ hc), hs c (List.mem_append_right _ hc)⟩⟩
  rw [h1] at hiff
  obtain ⟨ids', hl⟩ := rm_lrw _ hrm
  intro c hc
  have hci : c ∈ ins' := by
    have := (hiff c).mpr hc
    simpa [planIds, ExecGMix.Plan.ops] using this
  have hkey := hrm.key c hci
  obtain ⟨k', hk'⟩ : ∃ k', keyOf (ExecGMix.runMix pick bef aft k r pl
      (pre.foldl GEng.step (GEng.init stream keyed m scripts))).1.w.trace c = some k' := by
    cases hh : keyOf (ExecGMix.runMix pick bef aft k r pl
      (pre.foldl GEng.step (GEng.init stream keyed m scripts))).1.w.trace c with
    | none => exact absurd hh hkey
    | some k' => exact ⟨k', rfl⟩
  have hg : gone (ExecGMix.runMix pick bef aft k r pl
      (pre.foldl GEng.step (GEng.init stream keyed m scripts))).1.w.trace c = true := by
    cases hg : gone (ExecGMix.runMix pick bef aft k r pl
      (pre.foldl GEng.step (GEng.init stream keyed m scripts))).1.w.trace c with
    | true => rfl
    | false =>
      have := (lgw_cb _ hl.w).link.f4 c k' hk' hg
      rw [show (rE ids' (ExecGMix.runMix pick bef aft k r pl
        (pre.foldl GEng.step (GEng.init stream keyed m scripts))).1).s.member k'
          = (ExecGMix.runMix pick bef aft k r pl
        (pre.foldl GEng.step (GEng.init stream keyed m scripts))).1.s.member k' from rfl, h3 k'] at this
      cases this
  refine ⟨hg, ?_⟩
  rcases hq.lf c (hs c hc) hg with hsc | hrp
  · left
    have hdl := hq.dl c
    rw [hsc] at hdl
    simp only [Exec.scriptVals, List.flatMap_nil, List.append_nil] at hdl
    obtain ⟨U, hU, _⟩ := hl.w.g11
    have hyp : yielded (ExecGMix.runMix pick bef aft k r pl
        (pre.foldl GEng.step (GEng.init stream keyed m scripts))).1.w.trace
        = producedVals (ExecGMix.runMix pick bef aft k r pl
        (pre.foldl GEng.step (GEng.init stream keyed m scripts))).1.w.trace := hU.yp
    rw [hyp]
    have : (Exec.scriptVals (scripts c)).reverse = valsOf c (ExecGMix.runMix pick bef aft k r pl
        (pre.foldl GEng.step (GEng.init stream keyed m scripts))).1.w.trace := by
      rw [show Exec.scriptVals (scripts c) = (valsOf c (ExecGMix.runMix pick bef aft k r pl
        (pre.foldl GEng.step (GEng.init stream keyed m scripts))).1.w.trace).reverse from hdl.symm]
      simp
    rw [this]
    exact valsOf_sublist c _
  · exact Or.inr hrp

end LiveGMix
end Fc
