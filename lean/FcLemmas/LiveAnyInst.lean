/-
  FcLemmas/LiveAnyInst.lean — the instances of `LiveAny.ProgG` (FcLemmas/LiveAny.lean), built from the
  existing run invariants and their one-round lemmas:

    join                      `Live.LB`   (FcLemmas/LiveRun.lean)   goal `Ready true [values]`
    race, try_join, race_ok   `Live2.LB`  (FcLemmas/Live2.lean)     goal `Ready ok vals ∧ Fin ok vals`
    merge, zip                `Live3.LBS` (FcLemmas/Live3Run.lean)  goal `None`
    chain                     `Live3.LBC` (FcLemmas/Live3Chain.lean) goal `None`

  No new fact about a policy is needed: `lb_fire` / `lbs_fire` / `lbc_fire` already hold for every
  waker `(c, a)`, and `lb_fire_woke` / `fire_woke` for ANY waiting child — the existing proofs used
  `Exec.firstWaiting` only to name a waiting child.  The results are stated for the busy executor
  (`ExecAny.runForB`: any schedule, any extra wake-ups before and after the prod, any starting round
  number); FcProps/C01liveAny.lean specialises them.
-/
import FcLemmas.LiveAny
import FcLemmas.Live2Inst
import FcLemmas.Live3Inst
import FcLemmas.Live3Chain
set_option linter.unusedSimpArgs false
set_option linter.unusedVariables false

namespace Fc
namespace LiveAny
open Mon Live

/-! ### join -/

def GoalJoin (n : Nat) (fv : Nat → Nat) (o : Option Outcome) : Prop :=
  o = some (.ready true ((List.range n).map fv))

theorem progG_join {P : Policy Fix} {slice : Bool} {m : Mode} {fv : Nat → Nat} {n : Nat}
    (JL : JoinLike P slice) : ProgG P n (Live.LB P slice m fv n) (GoalJoin n fv) where
  lo := fun e h => by
    rcases h.lo with h1 | h1
    · exact Or.inl h1
    · exact Or.inr (Or.inl h1)
  poll := fun e wid h => by
    rcases Live.lb_poll JL e wid h with hv | ⟨h', hlo', hle, hD, hEE⟩
    · exact Or.inl hv
    · exact Or.inr ⟨h', hle, Or.inr ⟨hlo', hD, hEE⟩⟩
  fire := fun e c a h => Live.lb_fire JL e c a h
  waiting := fun e h hlo => by
    obtain ⟨c, _, hc, hlr, hne⟩ := Live.firstWaiting_some e h hlo
    exact ⟨c, hc, hlr, hne⟩
  woke := fun e c h hlo hc hlr => by
    obtain ⟨h1, _, h3⟩ := Live.lb_fire_woke JL e c h hlo hc hlr
    exact ⟨h1, h3⟩

/-! ### race, try_join, race_ok -/

def GoalFut (Fin : Bool → List Nat → Prop) (o : Option Outcome) : Prop :=
  ∃ ok vals, o = some (.ready ok vals) ∧ Fin ok vals

theorem progG_fut {P : Policy Fix} {n : Nat} {I : Fix → List Ev → Prop}
    {J : Fix → List Ev → List Nat → Prop} {Fin : Bool → List Nat → Prop} {m : Mode} {fv : Nat → Nat}
    (FL : Live2.FutLike P n I J Fin) : ProgG P n (Live2.LB P I m fv n) (GoalFut Fin) where
  lo := fun e h => by
    rcases h.lo with h1 | h1
    · exact Or.inl h1
    · exact Or.inr (Or.inl h1)
  poll := fun e wid h => by
    rcases Live2.lb_poll FL e wid h with hv | ⟨h', hlo', hle, hD, hEE⟩
    · exact Or.inl hv
    · exact Or.inr ⟨h', hle, Or.inr ⟨hlo', hD, hEE⟩⟩
  fire := fun e c a h => Live2.lb_fire FL e c a h
  waiting := fun e h hlo => by
    obtain ⟨c, _, hc, hlr, hne⟩ := Live2.firstWaiting_some e h hlo
    exact ⟨c, hc, hlr, hne⟩
  woke := fun e c h hlo hc hlr => by
    obtain ⟨h1, _, h3⟩ := Live2.lb_fire_woke FL e c h hlo hc hlr
    exact ⟨h1, h3⟩

/-! ### merge, zip, chain -/

def GoalNone (o : Option Outcome) : Prop := o = some .none

theorem progG_stream {P : Policy Fix} {n : Nat} {I : Nat → Fix → List Ev → Prop}
    {J : Nat → Fix → List Ev → List Nat → Prop} {m : Mode} (SL : Live3.StreamLike P I J) :
    ProgG P n (Live3.LBS P I m n) GoalNone :=
  progG_of_prog (Live3.prog_lbs SL) (fun e c a h => Live3.lbs_fire SL e c a h)

theorem progG_chain {n : Nat} : ProgG chain n (Live3.LBC n) GoalNone :=
  progG_of_prog Live3.prog_lbc (fun e c a h => Live3.lbc_fire e c a h)

/-! ### the results, for the busy executor -/

section
variable (pick : Nat → Eng Fix → Nat) (pre post : Nat → Eng Fix → List (Nat × Nat)) (r : Nat)

theorem joinSlice_resolvesB (m : Mode) (n : Nat) (scripts : Nat → List Step)
    (hs : ∀ c, c < n → Exec.futureScript (scripts c) = true) :
    ∃ k, k ≤ 3 * Exec.stepsLeft n (FEng.init .joinSlice m n scripts) + 1 ∧
      lastOut (ExecAny.runForB joinSlice n pick pre post k r (FEng.init .joinSlice m n scripts)).w.trace
        = some (.ready true ((List.range n).map (fun c => finalVal (scripts c)))) :=
  endsB_of_prog (progG_join joinLike_slice) pick pre post r _ (lb_init_slice m n scripts hs) rfl

theorem joinTuple_resolvesB (m : Mode) (n : Nat) (scripts : Nat → List Step)
    (hs : ∀ c, c < n → Exec.futureScript (scripts c) = true) :
    ∃ k, k ≤ 3 * Exec.stepsLeft n (FEng.init .joinTuple m n scripts) + 1 ∧
      lastOut (ExecAny.runForB joinTuple n pick pre post k r (FEng.init .joinTuple m n scripts)).w.trace
        = some (.ready true ((List.range n).map (fun c => finalVal (scripts c)))) :=
  endsB_of_prog (progG_join joinLike_tuple) pick pre post r _ (lb_init_tuple m n scripts hs) rfl

theorem race_resolvesB (m : Mode) (n : Nat) (hn : 0 < n) (scripts : Nat → List Step)
    (hs : ∀ c, c < n → Exec.futureScript (scripts c) = true) :
    ∃ k, k ≤ 3 * Exec.stepsLeft n (FEng.init .race m n scripts) + 1 ∧
      ∃ v, lastOut (ExecAny.runForB race n pick pre post k r (FEng.init .race m n scripts)).w.trace
        = some (.ready true [v]) := by
  obtain ⟨k, hk, ok, vals, hv, hok, v, hvals⟩ :=
    endsB_of_prog (progG_fut (Live2.futLike_race n hn)) pick pre post r _
      (Live2.lb_init_race m n scripts hs) rfl
  subst hok; subst hvals
  exact ⟨k, hk, v, hv⟩

theorem tryJoinSlice_resolvesB (m : Mode) (n : Nat) (scripts : Nat → List Step)
    (hs : ∀ c, c < n → Exec.futureScript (scripts c) = true) :
    ∃ k, k ≤ 3 * Exec.stepsLeft n (FEng.init .tryJoinSlice m n scripts) + 1 ∧
      ∃ ok vals, lastOut (ExecAny.runForB tryJoinSlice n pick pre post k r
          (FEng.init .tryJoinSlice m n scripts)).w.trace = some (.ready ok vals) := by
  obtain ⟨k, hk, ok, vals, hv, _⟩ :=
    endsB_of_prog (progG_fut (Live2.futLike_tryJoinSlice n)) pick pre post r _
      (Live2.lb_init_tryJoinSlice m n scripts hs) rfl
  exact ⟨k, hk, ok, vals, hv⟩

theorem tryJoinTuple_resolvesB (m : Mode) (n : Nat) (scripts : Nat → List Step)
    (hs : ∀ c, c < n → Exec.futureScript (scripts c) = true) :
    ∃ k, k ≤ 3 * Exec.stepsLeft n (FEng.init .tryJoinTuple m n scripts) + 1 ∧
      ∃ ok vals, lastOut (ExecAny.runForB tryJoinTuple n pick pre post k r
          (FEng.init .tryJoinTuple m n scripts)).w.trace = some (.ready ok vals) := by
  obtain ⟨k, hk, ok, vals, hv, _⟩ :=
    endsB_of_prog (progG_fut (Live2.futLike_tryJoinTuple n)) pick pre post r _
      (Live2.lb_init_tryJoinTuple m n scripts hs) rfl
  exact ⟨k, hk, ok, vals, hv⟩

theorem raceOk_resolvesB (fam : Fam) (hf : fam = .raceOkArr ∨ fam = .raceOkVec ∨ fam = .raceOkTup)
    (m : Mode) (n : Nat) (scripts : Nat → List Step)
    (hs : ∀ c, c < n → Exec.futureScript (scripts c) = true) :
    ∃ k, k ≤ 3 * Exec.stepsLeft n (FEng.init fam m n scripts) + 1 ∧
      ∃ ok vals, lastOut (ExecAny.runForB fam.policy n pick pre post k r
          (FEng.init fam m n scripts)).w.trace = some (.ready ok vals) := by
  rcases hf with rfl | rfl | rfl
  · obtain ⟨k, hk, ok, vals, hv, _⟩ :=
      endsB_of_prog (progG_fut (Live2.futLike_raceOk false false conc_raceOkArr n)) pick pre post r _
        (Live2.lb_init_raceOkArr m n scripts hs) rfl
    exact ⟨k, hk, ok, vals, hv⟩
  · obtain ⟨k, hk, ok, vals, hv, _⟩ :=
      endsB_of_prog (progG_fut (Live2.futLike_raceOk false true conc_raceOkVec n)) pick pre post r _
        (Live2.lb_init_raceOkVec m n scripts hs) rfl
    exact ⟨k, hk, ok, vals, hv⟩
  · obtain ⟨k, hk, ok, vals, hv, _⟩ :=
      endsB_of_prog (progG_fut (Live2.futLike_raceOk true false conc_raceOkTup n)) pick pre post r _
        (Live2.lb_init_raceOkTup m n scripts hs) rfl
    exact ⟨k, hk, ok, vals, hv⟩

theorem merge_endsB (m : Mode) (n : Nat) (scripts : Nat → List Step)
    (hs : ∀ c, c < n → streamScript (scripts c) = true) :
    ∃ k, k ≤ 3 * Exec.stepsLeft n (FEng.init .merge m n scripts) + 1 ∧
      lastOut (ExecAny.runForB merge n pick pre post k r (FEng.init .merge m n scripts)).w.trace
        = some .none := by
  by_cases hn : n = 0
  · subst hn
    refine ⟨1, by omega, ?_⟩
    simp [ExecAny.runForB, ExecAny.roundB, Exec.finalOut, Exec.shouldPoll, FEng.init, World.init,
      lastOut, Eng.poll, merge, Fix.init, Eng.emit, World.emit]
  · exact endsB_of_prog (progG_stream Live3.streamLike_merge) pick pre post r _
      (Live3.lbs_init_merge m n (by omega) scripts hs) rfl

theorem zip_endsB (m : Mode) (n : Nat) (hn : 0 < n) (scripts : Nat → List Step)
    (hs : ∀ c, c < n → streamScript (scripts c) = true) :
    ∃ k, k ≤ 3 * Exec.stepsLeft n (FEng.init .zip m n scripts) + 1 ∧
      lastOut (ExecAny.runForB zip n pick pre post k r (FEng.init .zip m n scripts)).w.trace
        = some .none :=
  endsB_of_prog (progG_stream Live3.streamLike_zip) pick pre post r _
    (Live3.lbs_init_zip m n hn scripts hs) rfl

theorem chain_endsB (m : Mode) (n : Nat) (scripts : Nat → List Step)
    (hs : ∀ c, c < n → streamScript (scripts c) = true) :
    ∃ k, k ≤ 3 * Exec.stepsLeft n (FEng.init .chain m n scripts) + 1 ∧
      lastOut (ExecAny.runForB chain n pick pre post k r (FEng.init .chain m n scripts)).w.trace
        = some .none :=
  endsB_of_prog progG_chain pick pre post r _ (Live3.lbc_init m n scripts hs) rfl

end

end LiveAny
end Fc
