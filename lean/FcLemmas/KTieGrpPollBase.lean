/-
  FcLemmas/KTieGrpPollBase.lean — what the translated `poll_next_inner` of both groups shares:

    * `Rs.fireWk` / `Rs.fire` / `Rs.fires` / `Rs.pollChild` with the crate's translated `InlineWakerVec::wake` on a
      well-formed readiness set that stores a parent waker refine `World.fireWk` / `fire` / `fires` / `pollChild`
      on the reading `TieVec.abs r env` (steps (a), (b) of the plan),
    * `forBreak_scan`: a `Rs.forBreak` loop whose iterations simulate `Eng.visit P` simulates `Eng.scan P` (step (d)),
    * list facts about the key set (`filter (· ≠ k)`, the removal queue).
-/
import FcProps.KTieGrp
import FcLemmas.World

set_option linter.unusedSimpArgs false
set_option linter.unusedVariables false

namespace Fc
open Rs Src

/-- every sub-waker handed to a member belongs to a slot below `N` (the capacity only grows, a sub-waker is only
    made for a slot below the capacity) -/
def HandedOk (N : Nat) (env : World) : Prop := ∀ c i, Wk.sub i ∈ env.handed c → i < N

namespace TieVec
open StdVec

theorem abs_emit (r : ReadinessVec) (b : World) (e : Ev) : (abs r b).emit e = abs r (b.emit e) := rfl
theorem abs_emits (r : ReadinessVec) (b : World) (l : List Ev) : (abs r b).emits l = abs r (b.emits l) := rfl
@[simp] theorem abs_scripts (r : ReadinessVec) (b : World) : (abs r b).scripts = b.scripts := rfl
@[simp] theorem abs_handed (r : ReadinessVec) (b : World) : (abs r b).handed = b.handed := rfl
@[simp] theorem abs_trace (r : ReadinessVec) (b : World) : (abs r b).trace = b.trace := rfl
@[simp] theorem abs_mode (r : ReadinessVec) (b : World) : (abs r b).mode = .std := rfl
@[simp] theorem abs_parent (r : ReadinessVec) (b : World) : (abs r b).parent = r.roleParent := rfl

/-- two readings with the same readiness part -/
theorem abs_inj_parent {r' : ReadinessVec} {b' w : World} (h : abs r' b' = w) :
    r'.roleParent = w.parent := by
  have := congrArg World.parent h
  simpa using this

theorem fireWk_tie (N : Nat) (r : ReadinessVec) (env : World) (wk : Wk) (h : Wf N r)
    (hp : r.roleParent ≠ none) (hi : ∀ i, wk = .sub i → i < N) :
    ∃ r' env', Rs.fireWk (fun i r => InlineWakerVec.wake ⟨i⟩ r) r env wk = some (r', env') ∧ Wf N r' ∧
      abs r' env' = (abs r env).fireWk wk := by
  cases wk with
  | par p => exact ⟨r, env.emit (.woke p), rfl, h, rfl⟩
  | sub i =>
    obtain ⟨r', ws, hw, hwf, heq⟩ := (wake_tie N r env i h (hi i rfl)).2 (Or.inl hp)
    refine ⟨r', env.emits (ws.map .woke), ?_, hwf, ?_⟩
    · simp only [Rs.fireWk, hw]
    · rw [← heq]; rfl

theorem fire_tie (N : Nat) (r : ReadinessVec) (env : World) (c age : Nat) (h : Wf N r)
    (hp : r.roleParent ≠ none) (hh : HandedOk N env) :
    ∃ r' env', Rs.fire (fun i r => InlineWakerVec.wake ⟨i⟩ r) r env c age = some (r', env') ∧ Wf N r' ∧
      abs r' env' = (abs r env).fire c age := by
  unfold Rs.fire World.fire
  simp only [abs_handed]
  cases hg : (env.handed c)[age]? with
  | none => exact ⟨r, _, rfl, h, rfl⟩
  | some wk =>
    have hmem : wk ∈ env.handed c := List.mem_of_getElem? hg
    obtain ⟨r', env', h1, h2, h3⟩ := fireWk_tie N r (env.emit (.fired c age (some wk))) wk h hp
      (fun i hi => hh c i (hi ▸ hmem))
    exact ⟨r', env', h1, h2, h3⟩

theorem fires_tie (N : Nat) (l : List (Nat × Nat)) : ∀ (r : ReadinessVec) (env : World), Wf N r →
    r.roleParent ≠ none → HandedOk N env →
    ∃ r' env', Rs.fires (fun i r => InlineWakerVec.wake ⟨i⟩ r) r env l = some (r', env') ∧ Wf N r' ∧
      abs r' env' = (abs r env).fires l := by
  induction l with
  | nil => intro r env h _ _; exact ⟨r, env, rfl, h, rfl⟩
  | cons p l ih =>
    intro r env h hp hh
    obtain ⟨r1, env1, h1, h2, h3⟩ := fire_tie N r env p.1 p.2 h hp hh
    have hp1 : r1.roleParent ≠ none := by
      rw [abs_inj_parent h3]; simpa using hp
    have hh1 : HandedOk N env1 := by
      have : env1.handed = env.handed := by
        have := congrArg World.handed h3
        simpa using this
      intro c i; rw [this]; exact hh c i
    obtain ⟨r2, env2, h4, h5, h6⟩ := ih r1 env1 h2 hp1 hh1
    refine ⟨r2, env2, ?_, h5, ?_⟩
    · simp only [Rs.fires, h1, h4]
    · rw [h6, h3]; rfl

/-- step (b): one poll of a scripted member through the sub-waker of `slot` -/
theorem pollChild_tie (N : Nat) (r : ReadinessVec) (env : World) (c slot : Nat) (h : Wf N r)
    (hp : r.roleParent ≠ none) (hh : HandedOk N env) (hs : slot < N) :
    ∃ r' env', Rs.pollChild (fun i r => InlineWakerVec.wake ⟨i⟩ r) r env c (.sub slot) = some (r', env', env.resOf c) ∧
      Wf N r' ∧ r'.roleParent ≠ none ∧ HandedOk N env' ∧
      env'.scripts = upd env.scripts c (env.scripts c).tail ∧
      abs r' env' = (abs r env).pollChild c slot := by
  have hh1 : HandedOk N { env with scripts := upd env.scripts c (env.scripts c).tail,
                                   handed := upd env.handed c (Wk.sub slot :: env.handed c),
                                   trace := .childBegin c (slotOf (.sub slot) c) (.sub slot) :: env.trace } := by
    intro c' i hm
    simp only [upd] at hm
    split at hm
    · rcases List.mem_cons.mp hm with h1 | h1
      · cases h1; exact hs
      · exact hh c i h1
    · exact hh c' i hm
  obtain ⟨r', env', h1, h2, h3⟩ := fires_tie N (env.stepOf c).fires r _ h hp hh1
  have h3' : abs r' (env'.emit (.childEnd c (env.resOf c))) = (abs r env).pollChild c slot := by
    rw [← abs_emit, h3]; rfl
  refine ⟨r', env'.emit (.childEnd c (env.resOf c)), ?_, h2, ?_, ?_, ?_, h3'⟩
  · simp only [Rs.pollChild, h1]
  · rw [abs_inj_parent h3']; simpa using hp
  · have : (env'.emit (.childEnd c (env.resOf c))).handed = upd env.handed c (Wk.sub slot :: env.handed c) := by
      have := congrArg World.handed h3'
      simpa [World.pollChild, World.wakerFor] using this
    intro c' i hm
    rw [this] at hm
    exact hh1 c' i hm
  · have := congrArg World.scripts h3'
    simpa [World.pollChild] using this

end TieVec

/-! ## the loop -/

/-- step (d): a `forBreak` loop whose iterations simulate `Eng.visit P` simulates `Eng.scan P`.
    `Rel rest s e`: the carried variables `s` read as the model state `e`, `rest` still to be visited;
    `Fin s e o`: the same after an iteration that left the loop with outcome `o`. -/
theorem forBreak_scan {σ τ : Type} (P : Policy τ) (Rel : List Nat → σ → Eng τ → Prop)
    (Fin : σ → Eng τ → Outcome → Prop) (body : σ → Nat → Option (σ × Bool))
    (step : ∀ k rest s e, Rel (k :: rest) s e →
      ∃ s' brk, body s k = some (s', brk) ∧
        (brk = false → (Eng.visit P e k).2 = none ∧ Rel rest s' (Eng.visit P e k).1) ∧
        (brk = true → ∃ o, (Eng.visit P e k).2 = some o ∧ Fin s' (Eng.visit P e k).1 o)) :
    ∀ (l : List Nat) (s : σ) (e : Eng τ) (res : Option σ), Rel l s e → Rs.forBreak l s body = res →
      ∃ s', res = some s' ∧
        (((Eng.scan P l e).2 = none ∧ Rel [] s' (Eng.scan P l e).1) ∨
         (∃ o, (Eng.scan P l e).2 = some o ∧ Fin s' (Eng.scan P l e).1 o)) := by
  intro l
  induction l with
  | nil =>
    intro s e res hR hres
    exact ⟨s, hres.symm, Or.inl ⟨rfl, hR⟩⟩
  | cons k rest ih =>
    intro s e res hR hres
    obtain ⟨s', brk, hb, hf, ht⟩ := step k rest s e hR
    cases brk with
    | false =>
      obtain ⟨hv, hR'⟩ := hf rfl
      have hres' : Rs.forBreak rest s' body = res := by
        rw [← hres]; simp only [Rs.forBreak, hb]
      obtain ⟨s'', h1, h2⟩ := ih s' _ res hR' hres'
      refine ⟨s'', h1, ?_⟩
      simpa only [Eng.scan, hv] using h2
    | true =>
      obtain ⟨o, hv, hF⟩ := ht rfl
      refine ⟨s', ?_, Or.inr ⟨o, ?_, ?_⟩⟩
      · rw [← hres]; simp only [Rs.forBreak, hb]
      · simp only [Eng.scan, hv]
      · simpa only [Eng.scan, hv] using hF

/-! ## the key set -/

theorem length_filter_ne (l : List Nat) (k : Nat) (hn : l.Nodup) (hk : k ∈ l) :
    (l.filter (· ≠ k)).length + 1 = l.length := by
  induction l with
  | nil => cases hk
  | cons x xs ih =>
    rw [List.nodup_cons] at hn
    by_cases hx : x = k
    · subst hx
      have : List.filter (fun y => decide (y ≠ x)) xs = xs := by
        apply List.filter_eq_self.mpr
        intro a ha
        have : a ≠ x := fun h => hn.1 (h ▸ ha)
        simp [this]
      rw [List.filter_cons]
      simp [this]
      intro a ha h
      exact hn.1 (h ▸ ha)
    · have hk' : k ∈ xs := by
        rcases List.mem_cons.mp hk with h | h
        · exact absurd h.symm hx
        · exact h
      have := ih hn.2 hk'
      rw [List.filter_cons]
      simp [hx]
      simpa using this

theorem filter_true_eq (l : List Nat) : l.filter (fun k => !([] : List Nat).contains k) = l := by
  apply List.filter_eq_self.mpr; intro a _; simp

/-! ## the model side of one iteration (`Eng.visit group`) -/

theorem visit_skip (e : Eng Grp) (k : Nat) (h : e.s.st k ≠ .pending) : Eng.visit group e k = (e, none) := by
  simp [Eng.visit, Eng.gateGo, Eng.gateW, group, h]

theorem visit_clear (e : Eng Grp) (k : Nat) (h : e.s.st k = .pending) (hb : e.w.isSet k = false) :
    Eng.visit group e k = ({ e with w := e.w.clearReady k }, none) := by
  simp [Eng.visit, Eng.gateGo, Eng.gateW, group, h, hb]

theorem visit_go (e : Eng Grp) (k : Nat) (h : e.s.st k = .pending) (hb : e.w.isSet k = true)
    (hr : e.w.resOf ((e.s.member k).getD 0) ≠ .panic) :
    Eng.visit group e k =
      (Eng.applyH { e with w := (e.w.clearReady k).pollChild ((e.s.member k).getD 0) k }
          (group.handle e.s k (e.w.resOf ((e.s.member k).getD 0))),
        (group.handle e.s k (e.w.resOf ((e.s.member k).getD 0))).exit) := by
  simp [Eng.visit, Eng.gateGo, Eng.gateW, group, h, hb]
  intro hp
  exact absurd hp (by simpa [group] using hr)

/-! ## the scripted members -/

theorem resOf_mem (w : World) (c : Nat) : w.resOf c = .pend ∨ ∃ st, st ∈ w.scripts c ∧ w.resOf c = st.res := by
  unfold World.resOf World.stepOf
  cases h : w.scripts c with
  | nil => exact Or.inl rfl
  | cons s t => exact Or.inr ⟨s, by simp, rfl⟩

theorem mem_upd_tail {scripts : Nat → List Step} {c c' : Nat} {st : Step}
    (h : st ∈ upd scripts c (scripts c).tail c') : st ∈ scripts c' := by
  unfold upd at h
  split at h
  · next hc => subst hc; exact List.mem_of_mem_tail h
  · exact h

/-! ## the model side of the code around the loop (step (e)) -/

theorem poll_model_empty (e : Eng Grp) (w : Nat) (hd : e.s.dead = false) (hl : e.s.len = 0) :
    Eng.poll group e w = (e.emit (.pollBegin w)).emit (.pollEnd .none) := by
  simp [Eng.poll, group, hd, hl]

theorem poll_model_idle (e : Eng Grp) (w : Nat) (hd : e.s.dead = false) (hl : e.s.len ≠ 0)
    (ha : ((e.w.emit (.pollBegin w)).setWaker w).anyReady = false) :
    Eng.poll group e w =
      { w := ((e.w.emit (.pollBegin w)).setWaker w).emit (.pollEnd .pending),
        s := { e.s with doneCnt := 0, total := e.s.len } } := by
  simp [Eng.poll, Eng.body, Eng.emit, group, hd, hl, ha]

theorem poll_model_loop (e : Eng Grp) (w : Nat) (hd : e.s.dead = false) (hl : e.s.len ≠ 0)
    (ha : ((e.w.emit (.pollBegin w)).setWaker w).anyReady = true) :
    Eng.poll group e w =
      Eng.close group (Eng.scan group e.s.keys
        { w := (e.w.emit (.pollBegin w)).setWaker w, s := { e.s with doneCnt := 0, total := e.s.len } }) := by
  simp [Eng.poll, Eng.body, Eng.emit, group, hd, hl, ha]

/-- a `forBreak` loop that never stops early and never panics keeps an invariant indexed by the remaining elements -/
theorem forBreak_inv {σ : Type} (Inv : List Nat → σ → Prop) (body : σ → Nat → Option (σ × Bool))
    (step : ∀ k rest s, Inv (k :: rest) s → ∃ s', body s k = some (s', false) ∧ Inv rest s') :
    ∀ (l : List Nat) (s : σ) (res : Option σ), Inv l s → Rs.forBreak l s body = res →
      ∃ s', res = some s' ∧ Inv [] s' := by
  intro l
  induction l with
  | nil => intro s res hI hres; exact ⟨s, hres.symm, hI⟩
  | cons k rest ih =>
    intro s res hI hres
    obtain ⟨s', hb, hI'⟩ := step k rest s hI
    exact ih s' res hI' (by rw [← hres]; simp only [Rs.forBreak, hb])

theorem filter_filter_ne (K pre : List Nat) (k : Nat) :
    (K.filter (fun y => !pre.contains y)).filter (· ≠ k) = K.filter (fun y => !(pre ++ [k]).contains y) := by
  rw [List.filter_filter]
  apply List.filter_congr
  intro x _
  by_cases hx : x = k <;> simp [hx]

theorem length_filter_snoc (K q : List Nat) (k : Nat) (hn : K.Nodup) (hk : k ∈ K) (hq : k ∉ q) :
    (K.filter (fun y => !(q ++ [k]).contains y)).length + 1 = (K.filter (fun y => !q.contains y)).length := by
  rw [← filter_filter_ne]
  apply length_filter_ne _ _ (hn.filter _)
  exact List.mem_filter.mpr ⟨hk, by simpa using hq⟩

end Fc
