/-
  FcLemmas/LiveGAnyMain.lean — liveness of FutureGroup / StreamGroup for every environment schedule:
  the state at the hand-over satisfies the run invariant (`start_lra`), hence every run of
  `ExecGAny.runForB` from it ends within `3 * stepsLeft + 1` rounds (`group_ends_busy`).
-/
import FcLemmas.LiveGAnyRestr
set_option linter.unusedSimpArgs false
set_option linter.unusedVariables false

namespace Fc
namespace LiveGAny
open Mon Live Live3 G Grp C01 LiveG

/-! ### the building operations do not touch the scripts -/

theorem extend_fold_scripts : ∀ (cs : List Nat) (e : Eng Grp),
    (cs.foldl (fun e c => GEng.insertAt (GEng.grow e) c false) e).w.scripts = e.w.scripts := by
  intro cs
  induction cs with
  | nil => intro e; rfl
  | cons c cs ih =>
    intro e
    simp only [List.foldl_cons]
    rw [ih, GEng.insertAt_scripts, GEng.grow_scripts]

theorem step_scripts (e : Eng Grp) (op : Op) (hop : op.isInsertLike = true) :
    (GEng.step e op).w.scripts = e.w.scripts := by
  cases op with
  | insert c =>
    simp only [GEng.step]
    split
    · rfl
    · simp only [GEng.insert]; rw [GEng.insertAt_scripts, GEng.grow_scripts]
  | reserve k =>
    simp only [GEng.step]
    split
    · rfl
    · exact GEng.reserve_scripts e k
  | extend cs =>
    simp only [GEng.step]
    split
    · rfl
    · simp only [GEng.extend]; rw [extend_fold_scripts, GEng.reserve_scripts]
  | _ => simp [Op.isInsertLike] at hop

theorem run_scripts : ∀ (ops : List Op) (e : Eng Grp), (∀ op ∈ ops, op.isInsertLike = true) →
    (ops.foldl GEng.step e).w.scripts = e.w.scripts := by
  intro ops
  induction ops with
  | nil => intro e _; rfl
  | cons op ops ih =>
    intro e hop
    simp only [List.foldl_cons]
    rw [ih _ (fun op' hop' => hop op' (List.mem_cons_of_mem _ hop')),
      step_scripts e op (hop op (List.mem_cons_self ..))]

/-! ### the hand-over -/

variable {stream keyed : Bool} {m : Mode} {n : Nat} {sc : Nat → List Step}

/-- the building phase ends in a state that satisfies the run invariant -/
theorem lga_of_b0 (e : Eng Grp) (h : B0 stream keyed m n sc e) : LGA stream keyed m n e := by
  have hlg := lg_of_b0 e h
  obtain ⟨_, _, _, hobs⟩ := noev_obs e.w.trace h.noev
  refine ⟨⟨hlg.mode, hlg.std, hlg.dir, h.g11, hlg.dead, hlg.al, hlg.bnd, hlg.wg, hlg.ib, ?_⟩,
    hlg.pa, hlg.ne, hlg.lo⟩
  intro c hc
  rw [(hobs c).2.2.1] at hc; exact Bool.noConfusion hc

/-- the state built by `pre` from the empty group: run invariant, about to be polled, and the
    measure is the number of scripted steps of the members -/
theorem start_lra (stream keyed : Bool) (m : Mode) (scripts : Nat → List Step) (pre : List Op) (n : Nat)
    (hpre : ∀ op ∈ pre, op.isInsertLike = true)
    (hfresh : (pre.flatMap insertedIds).Nodup)
    (hs : ∀ c ∈ pre.flatMap insertedIds, wbScript stream (scripts c) = true)
    (hn : ∀ c ∈ pre.flatMap insertedIds, c < n) :
    LRA stream keyed m n (pre.flatMap insertedIds) (pre.flatMap insertedIds) scripts
      (pre.foldl GEng.step (GEng.init stream keyed m scripts)) ∧
    lastOut (pre.foldl GEng.step (GEng.init stream keyed m scripts)).w.trace = none ∧
    mu n (rE (pre.flatMap insertedIds) (pre.foldl GEng.step (GEng.init stream keyed m scripts)))
      = ExecG.stepsLeft (pre.foldl GEng.step (GEng.init stream keyed m scripts)) := by
  let ids := pre.flatMap insertedIds
  let sc' := restrS ids scripts
  have hsc' : ∀ c, c ∈ ids → sc' c = scripts c := fun c hc => by simp [sc', restrS, hc]
  have hk' : ∀ c st, st ∈ sc' c → st.res.fits stream = true := by
    intro c st hst
    by_cases hc : c ∈ ids
    · rw [hsc' c hc] at hst
      exact wb_fits _ (hs c hc) st hst
    · simp [sc', restrS, hc] at hst
  have hb0 : B0 stream keyed m n sc' (pre.foldl GEng.step (GEng.init stream keyed m sc')) :=
    b0_run pre _ (b0_init stream keyed m n sc' hk') hpre hfresh (fun c hc =>
      ⟨hn c hc, by rw [hsc' c hc]; exact hs c hc, rfl⟩)
  have heq : rE ids (pre.foldl GEng.step (GEng.init stream keyed m scripts))
      = pre.foldl GEng.step (GEng.init stream keyed m sc') := by
    rw [← rE_run pre _ hpre, rE_init]
  rw [← heq] at hb0
  have hlga := lga_of_b0 _ hb0
  have hids : ∀ c, keyOf (pre.foldl GEng.step (GEng.init stream keyed m scripts)).w.trace c ≠ none →
      c ∈ ids := by
    intro c hc
    have := (hb0.bnd c hc).2
    by_cases hci : c ∈ ids
    · exact hci
    · have hnil : sc' c = [] := by simp [sc', restrS, hci]
      rw [hnil, wb_nil] at this; exact Bool.noConfusion this
  have hmem : ∀ k c, (pre.foldl GEng.step (GEng.init stream keyed m scripts)).s.member k = some c →
      c ∈ ids := by
    intro k c hk
    have := (lgw_cb _ hlga.w).link.f1 k c hk
    exact hids c (by
      rw [show keyOf (pre.foldl GEng.step (GEng.init stream keyed m scripts)).w.trace c = some k
        from this]; simp)
  have hlrw : LRW stream keyed m n ids ids scripts
      (pre.foldl GEng.step (GEng.init stream keyed m scripts)) :=
    ⟨hlga.w, hmem, hids, fun _ hc => hc, fun c _ => by rw [run_scripts pre _ hpre]; rfl⟩
  refine ⟨⟨hlrw, hlga⟩, (noev_obs _ hb0.noev).1, ?_⟩
  rw [← hb0.sl, stepsLeft_rE _ hmem]

/-- the group built by `pre`, every schedule, every busy environment: the run ends within
    `3 * stepsLeft + 1` rounds -/
theorem group_ends_busy (stream keyed : Bool) (m : Mode) (scripts : Nat → List Step) (pre : List Op)
    (hpre : ∀ op ∈ pre, op.isInsertLike = true)
    (hfresh : (pre.flatMap insertedIds).Nodup)
    (hs : ∀ c ∈ pre.flatMap insertedIds, wbScript stream (scripts c) = true)
    (pick : Nat → Eng Grp → Nat) (pre' post' : Nat → Eng Grp → List (Nat × Nat)) (r : Nat) :
    ∃ k, k ≤ 3 * ExecG.stepsLeft (pre.foldl GEng.step (GEng.init stream keyed m scripts)) + 1 ∧
      lastOut (ExecGAny.runForB pick pre' post' k r
        (pre.foldl GEng.step (GEng.init stream keyed m scripts))).w.trace = some .none := by
  obtain ⟨hlra, hlo, hM⟩ := start_lra stream keyed m scripts pre ((pre.flatMap insertedIds).sum + 1)
    hpre hfresh hs (fun c hc => by have := le_sum_of_mem _ c hc; omega)
  have hsp : Exec.shouldPoll (pre.foldl GEng.step (GEng.init stream keyed m scripts)).w.trace = true := by
    unfold Exec.shouldPoll; rw [hlo]
  obtain ⟨k, hk, hv⟩ := endsB_of_prog prog_lra pick pre' post' r _ hlra hsp
  refine ⟨k, ?_, hv⟩
  simp only [hM] at hk
  exact hk

end LiveGAny
end Fc
