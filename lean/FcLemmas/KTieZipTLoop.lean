/-
  FcLemmas/KTieZipTLoop.lean — tuple zip (`(A, B, …).zip()`): the relation between a translated `Zip` (FcGen/KSrcTup4.lean)
  + environment and a model state that the loop of `poll_next` maintains (`zt_Rel`), what one iteration of the loop body
  has to do (`zt_StepSpec`: it is one `Eng.visit zip`), and the loop (`Rs.forCtl` over the slots = `Eng.scan zip`, by the
  shared loop rule `TieLoop.forCtl_scan` of FcLemmas/KTieLoopCore.lean).  The model-side lemmas (`TieZipV.zp_*` of
  FcLemmas/KTieZipModel.lean) and the environment lemmas of the array readiness set (`TieZipA.za_*` of
  FcLemmas/KTieZipAEnv.lean — the readiness set of a tuple is `ReadinessArray<N>`; that file does not depend on the
  generated source of the array zip) do not mention a container and are imported, not copied.
-/
import FcProps.KTieZipTup
import FcLemmas.KTieZipAEnv
import FcLemmas.KTieZipModel
import FcLemmas.KTieLoopCore

set_option linter.unusedSimpArgs false
set_option linter.unusedVariables false

namespace Fc
open Rs Src

namespace TieZipT
open ZipT

/-- the translated combinator `g` with the environment `env` is read as the model state `e`
    (`k`, `o`: the two fields of the model state a zip does not use) -/
structure zt_Rel (n k o : Nat) (e : Eng Fix) (g : Zip) (env : World) : Prop where
  ew : e.w = TieArr.abs g.roleWakers.readiness env
  en : e.s.n = n
  kids : g.roleKids.len = n
  st : e.s.st = fun i => TiePS.abs (g.roleStates.get i)
  out : e.s.out = g.roleItems.get
  cnt : e.s.cnt = k
  off : e.s.off = o
  dead : e.s.dead = g.roleDone
  rd : TieArr.Wf n g.roleWakers.readiness
  sl : g.roleStates.len = n
  ic : g.roleItems.cap = n
  par : g.roleWakers.readiness.roleParent ≠ none
  hin : HandedIn n env
  sok : StreamStepsF env
  rs : ∀ i, i < n → ((g.roleStates.get i = PS.PollState.pending ∧ g.roleItems.get i = none) ∨
        (g.roleStates.get i = PS.PollState.ready ∧ ∃ v, g.roleItems.get i = some v))

abbrev zt_Body := Zip × World → Nat → Option ((Zip × World) × Rs.Ctl (Rs.Poll (Option (List Nat))))

/-- one iteration of the loop body is one `Eng.visit zip` -/
def zt_StepSpec (n k o : Nat) (F : zt_Body) : Prop :=
  ∀ (e : Eng Fix) (g : Zip) (env : World) (i : Nat), zt_Rel n k o e g env → i < n →
    ∃ g' env' c, F (g, env) i = some ((g', env'), c) ∧ zt_Rel n k o (Eng.visit zip e i).1 g' env' ∧
      ((c = .next ∧ (Eng.visit zip e i).2 = none) ∨
       (∃ v, c = .ret v ∧ (Eng.visit zip e i).2 = some (outcomeOfZip v)))

/-- the loop over a list of slots is `Eng.scan zip` -/
theorem zt_loop_tie (n k o : Nat) (F : zt_Body) (hF : zt_StepSpec n k o F) (l : List Nat)
    (e : Eng Fix) (g : Zip) (env : World) (hR : zt_Rel n k o e g env) (hl : ∀ i ∈ l, i < n) :
    ∃ g' env' r, Rs.forCtl l (g, env) F = some ((g', env'), r) ∧ zt_Rel n k o (Eng.scan zip l e).1 g' env' ∧
      ((r = none ∧ (Eng.scan zip l e).2 = none) ∨
       (∃ v, r = some v ∧ (Eng.scan zip l e).2 = some (outcomeOfZip v))) := by
  have hstep : TieLoop.StepOk zip outcomeOfZip (fun (s : Zip × World) e => zt_Rel n k o e s.1 s.2)
      (fun _ (s : Zip × World) e => zt_Rel n k o e s.1 s.2) (fun i => i < n) F := by
    intro s e i hi hinv
    obtain ⟨g1, env1, c, h1, hR1, hcase⟩ := hF e s.1 s.2 i hinv hi
    refine ⟨(g1, env1), c, h1, ?_⟩
    rcases hcase with ⟨hc, hv⟩ | ⟨v, hc, hv⟩
    · exact Or.inl ⟨hc, hv, hR1⟩
    · exact Or.inr ⟨v, hc, hv, hR1⟩
  obtain ⟨⟨⟨g', env'⟩, r⟩, h1, hpost⟩ :=
    TieLoop.forCtl_scan zip outcomeOfZip _ _ _ F hstep l hl (g, env) e hR
  refine ⟨g', env', r, h1, ?_⟩
  rcases hpost with ⟨hr, hv, hinv⟩ | ⟨v, hr, hv, hfin⟩
  · exact ⟨hinv, Or.inl ⟨hr, hv⟩⟩
  · exact ⟨hfin, Or.inr ⟨v, hr, hv⟩⟩

/-- the loop followed by the code after it (`K`): it is enough to run `K` on what `Eng.scan zip` describes -/
theorem zt_loop_bind (n k o : Nat) (F : zt_Body) (hF : zt_StepSpec n k o F) (l : List Nat) (e : Eng Fix) (g : Zip) (env : World)
    (hR : zt_Rel n k o e g env) (hl : ∀ i ∈ l, i < n)
    (K : (Zip × World) × Option (Rs.Poll (Option (List Nat))) → Option (Zip × World × Rs.Poll (Option (List Nat))))
    (Ψ : Zip → World → Rs.Poll (Option (List Nat)) → Prop)
    (hK : ∀ g' env' r, zt_Rel n k o (Eng.scan zip l e).1 g' env' →
      ((r = none ∧ (Eng.scan zip l e).2 = none) ∨
       (∃ v, r = some v ∧ (Eng.scan zip l e).2 = some (outcomeOfZip v))) →
      ∃ a b c, K ((g', env'), r) = some (a, b, c) ∧ Ψ a b c) :
    ∃ a b c, (Rs.forCtl l (g, env) F).bind K = some (a, b, c) ∧ Ψ a b c := by
  obtain ⟨g', env', r, h1, hR', hcase⟩ := zt_loop_tie n k o F hF l e g env hR hl
  rw [h1, Option.bind_some]
  exact hK g' env' r hR' hcase

end TieZipT
end Fc
