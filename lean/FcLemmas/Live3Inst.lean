/-
  FcLemmas/Live3Inst.lean — merge and zip satisfy `StreamLike` (with the C08 / C09 invariants as the
  functional part), the initial state satisfies the run invariant, and the two liveness results.
-/
import FcLemmas.Live3Run
set_option linter.unusedSimpArgs false
set_option linter.unusedVariables false

namespace Fc
namespace Live3
open Mon Live Fix

/-! ### merge -/

theorem ended_false_ne {t : List Ev} {c : Nat} (h : ended t c = false) : lastRes t c ≠ some .fin := by
  intro hf; simp [ended, hf] at h

theorem merge_live_un {n : Nat} {s : Fix} {t : List Ev} (h : C08.Inv n s t) (hd : s.dead = false)
    (c : Nat) (hc : c < n) (hel : merge.eligible s c = true) : lastRes t c ≠ some .fin := by
  have hp : s.st c ≠ .none := by simpa [merge] using hel
  apply ended_false_ne
  cases he : ended t c with
  | false => rfl
  | true => exact absurd ((h.live hd c hc).mpr he) hp

theorem dead_of_spent08 {n : Nat} {s : Fix} {t : List Ev} (h : C08.Inv n s t)
    (hsp : spent false t = false) : s.dead = false := by
  cases hd : s.dead with
  | false => rfl
  | true => have := h.dead hd; rw [hsp] at this; exact Bool.noConfusion this

theorem streamLike_merge : StreamLike merge C08.Inv C08.J where
  conc := conc_merge
  hevs := by
    intro s i r
    cases r <;> simp [merge, Fix.keep]
    split <;> rfl
  hfin := by intro s; rfl
  fin_s := by intro s; rfl
  fin_pend := by intro s; rfl
  pre_out := by
    intro s o h
    simp only [merge, Fix.misuseIfDead] at h
    split at h
    · left; simpa using h.symm
    · split at h
      · right; simpa using h.symm
      · cases h
  preAny_f := by intro s; rfl
  sim := fun n m => C08.sim_merge n m
  jn := fun n s t l h => h.1.hn
  jlt := fun n s t i rest h => h.2.2.2.2 i (List.mem_cons_self ..)
  jun := fun n s t l h c hc hel => merge_live_un h.1 h.2.1 c hc hel
  el_other := by
    intro s i r c hci hel
    left
    cases r <;> simp_all [merge, Fix.keep]
    split at hel <;> simp_all [upd_other _ _ _ _ hci]
  el_item := by
    intro s i v _
    simp [merge]
  el_fin := by
    intro s i hex
    by_cases hc : s.cnt + 1 = s.n
    · simp [merge, hc] at hex
    · simp [merge, hc]
  waiting := by
    intro n s t hn h hsp
    have hd := dead_of_spent08 h hsp
    have hlt := h.lt hd hn
    rw [h.cnt hd] at hlt
    obtain ⟨i, hi, hp⟩ := cntP_lt _ _ hlt
    exact ⟨i, hi, by simpa [merge] using hp⟩
  iun := fun n s t h hsp c hc hel => merge_live_un h (dead_of_spent08 h hsp) c hc hel
  no_ready := by
    intro n s t ok vals h
    have := h.mon
    simp [holds_C08, c08At] at this
  misuse_spent := by
    intro n s t h
    have := h.mon
    simp only [holds_C08, c08At, Bool.and_eq_true] at this
    exact this.1.2

/-! ### zip -/

theorem anyFin_of_lastRes (t : List Ev) (c : Nat) (h : lastRes t c = some .fin) : anyFin t = true := by
  induction t with
  | nil => simp [lastRes] at h
  | cons e t ih =>
    cases e with
    | childEnd c' r =>
      cases r with
      | fin => rfl
      | pend =>
        simp only [lastRes] at h
        split at h
        · cases h
        · simpa [anyFin] using ih h
      | ready ok v =>
        simp only [lastRes] at h
        split at h
        · cases h
        · simpa [anyFin] using ih h
      | item v =>
        simp only [lastRes] at h
        split at h
        · cases h
        · simpa [anyFin] using ih h
      | panic =>
        simp only [lastRes] at h
        split at h
        · cases h
        · simpa [anyFin] using ih h
    | _ => simpa [anyFin] using ih (by simpa [lastRes] using h)

theorem dead_of_spent09 {n : Nat} {s : Fix} {t : List Ev} (h : C09.Inv n s t)
    (hsp : spent false t = false) : s.dead = false := by
  cases hd : s.dead with
  | false => rfl
  | true => have := h.dead hd; rw [hsp] at this; exact Bool.noConfusion this

theorem zip_live_un {n : Nat} {s : Fix} {t : List Ev} (h : C09.Inv n s t) (hd : s.dead = false)
    (c : Nat) : lastRes t c ≠ some .fin := by
  intro hf
  have := anyFin_of_lastRes t c hf
  rw [h.nofin hd] at this; exact Bool.noConfusion this

theorem streamLike_zip : StreamLike zip C09.Inv C09.J where
  conc := conc_zip
  hevs := by
    intro s i r
    cases r <;> simp [zip, Fix.keep]
    split <;> rfl
  hfin := by intro s; rfl
  fin_s := by intro s; rfl
  fin_pend := by intro s; rfl
  pre_out := by
    intro s o h
    simp only [zip, Fix.misuseIfDead] at h
    split at h
    · right; simpa using h.symm
    · cases h
  preAny_f := by intro s; rfl
  sim := fun n m => C09.sim_zip n m
  jn := fun n s t l h => h.1.hn
  jlt := fun n s t i rest h => h.2.2 i (List.mem_cons_self ..)
  jun := fun n s t l h c _ _ => zip_live_un h.1 h.2.1 c
  el_other := by
    intro s i r c hci hel
    cases r with
    | item v =>
      by_cases hall : ({ s with st := upd s.st i .ready } : Fix).allReady = true
      · right; simp [zip, hall]
      · left
        simp only [zip, hall] at hel ⊢
        simpa [upd_other _ _ _ _ hci] using hel
    | pend => left; simpa [zip, Fix.keep] using hel
    | ready ok v => left; simpa [zip, Fix.keep] using hel
    | fin => left; simpa [zip, Fix.kill] using hel
    | panic => left; simpa [zip, Fix.keep] using hel
  el_item := by
    intro s i v hel
    by_cases hall : ({ s with st := upd s.st i .ready } : Fix).allReady = true
    · simp [zip, hall]
    · simp [zip, hall] at hel
  el_fin := by
    intro s i hex
    simp [zip] at hex
  waiting := by
    intro n s t hn h hsp
    obtain ⟨i, hi, hp⟩ := h.miss (dead_of_spent09 h hsp)
    exact ⟨i, hi, by simp [zip, hp]⟩
  iun := fun n s t h hsp c _ _ => zip_live_un h (dead_of_spent09 h hsp) c
  no_ready := by
    intro n s t ok vals h
    have := h.mon
    simp [holds_C09, c09At] at this
  misuse_spent := by
    intro n s t h
    have := h.mon
    simp only [holds_C09, c09At, Bool.and_eq_true] at this
    exact this.2

/-! ### the initial state -/

theorem bib_init (f : Fam) (m : Mode) (n : Nat) (scripts : Nat → List Step) :
    BIB f.policy n (FEng.init f m n scripts) := by
  refine ⟨rfl, ?_, ?_⟩
  · intro c hc _ _
    simp only [FEng.init, World.init, World.isSet]
    split <;> simp [hc]
  · intro hlo; simp [FEng.init, World.init, lastOut] at hlo

theorem lbs_init_merge (m : Mode) (n : Nat) (hn : 0 < n) (scripts : Nat → List Step)
    (hs : ∀ c, c < n → streamScript (scripts c) = true) :
    LBS merge C08.Inv m n (FEng.init .merge m n scripts) := by
  refine ⟨hn, rfl, fun hm => C01.binv_init .merge n scripts m (by rw [← hm]; rfl),
    fun hm => C01D.binv_init .merge n scripts m (by rw [← hm]; rfl),
    C20.b20_init .merge conc_merge n scripts m, ?_, rfl, winvs_init _ n scripts hs, rfl,
    bib_init .merge m n scripts, Or.inl rfl⟩
  simpa [FEng.init, Fam.initCnt, World.init] using C08.inv_init n

theorem lbs_init_zip (m : Mode) (n : Nat) (hn : 0 < n) (scripts : Nat → List Step)
    (hs : ∀ c, c < n → streamScript (scripts c) = true) :
    LBS zip C09.Inv m n (FEng.init .zip m n scripts) := by
  refine ⟨hn, rfl, fun hm => C01.binv_init .zip n scripts m (by rw [← hm]; rfl),
    fun hm => C01D.binv_init .zip n scripts m (by rw [← hm]; rfl),
    C20.b20_init .zip conc_zip n scripts m, ?_, rfl, winvs_init _ n scripts hs, rfl,
    bib_init .zip m n scripts, Or.inl rfl⟩
  simpa [FEng.init, Fam.initCnt, World.init] using C09.inv_init n hn

/-! ### the results -/

theorem merge_ends (m : Mode) (n : Nat) (scripts : Nat → List Step)
    (hs : ∀ c, c < n → streamScript (scripts c) = true) :
    ∃ k, k ≤ 3 * Exec.stepsLeft n (FEng.init .merge m n scripts) + 1 ∧
      lastOut (Exec.runFor Fc.merge n k (FEng.init .merge m n scripts)).w.trace = some .none := by
  by_cases hn : n = 0
  · subst hn
    refine ⟨1, by omega, ?_⟩
    simp [Exec.runFor, Exec.round, Exec.finalOut, Exec.shouldPoll, FEng.init, World.init, lastOut,
      Eng.poll, merge, Fix.init, Eng.emit, World.emit]
  · exact ends_of_prog (prog_lbs streamLike_merge) _
      (lbs_init_merge m n (by omega) scripts hs) rfl

theorem zip_ends (m : Mode) (n : Nat) (hn : 0 < n) (scripts : Nat → List Step)
    (hs : ∀ c, c < n → streamScript (scripts c) = true) :
    ∃ k, k ≤ 3 * Exec.stepsLeft n (FEng.init .zip m n scripts) + 1 ∧
      lastOut (Exec.runFor Fc.zip n k (FEng.init .zip m n scripts)).w.trace = some .none :=
  ends_of_prog (prog_lbs streamLike_zip) _ (lbs_init_zip m n hn scripts hs) rfl

end Live3
end Fc
