/-
  FcLemmas/KTieRaceOkVModel.lean — `Vec<Fut>::race_ok()`: the model side (`Eng.visit (raceOk false true)` in the cases the
  translated loop body distinguishes, `Eng.poll` / `Eng.close` unfolded for the direct strategy), the loop rule with an
  invariant that knows the position (`forCtl_scan_idx`: the translated loop carries the local `all_done`, which says
  something about the slots ALREADY visited), the translated `MaybeDone` functions on a slot given by its `view`, and
  list facts.
-/
import FcProps.KTieRaceOkVec
import FcLemmas.KTieFamEnv
import FcLemmas.KTieLoopCore
import FcLemmas.KTieListFacts

set_option linter.unusedSimpArgs false
set_option linter.unusedVariables false

namespace Fc
open Rs Src

namespace TieRaceOkV
open RaceOkV TieDirect TieLoop

abbrev P : Policy Fix := raceOk false true

/-! ### the model's `visit` for race_ok (Vec), direct strategy -/

theorem rv_visit_skip (e : Eng Fix) (i : Nat) (h : e.s.st i = .ready) :
    Eng.visit P e i = (e, none) := by
  simp [Eng.visit, raceOk, Eng.gateGo, Eng.gateW, h]

theorem rv_visit_pend (e : Eng Fix) (i : Nat) (hm : e.w.mode = .direct) (h : e.s.st i ≠ .ready)
    (hr : e.w.resOf i = .pend) :
    Eng.visit P e i = ({ e with w := e.w.pollChild i i }, none) := by
  simp [Eng.visit, raceOk, Eng.gateGo, Eng.gateW, World.isSet, World.clearReady, hm, hr, h, Eng.applyH, Fix.keep,
    emits_nil, World.kop]

theorem rv_visit_ok (e : Eng Fix) (i v : Nat) (hm : e.w.mode = .direct) (h : e.s.st i ≠ .ready)
    (hr : e.w.resOf i = .ready true v) :
    Eng.visit P e i =
      ({ w := (e.w.pollChild i i).emit (.childDropped i), s := { e.s with dead := true, st := upd e.s.st i .none } },
       some (.ready true [v])) := by
  simp [Eng.visit, raceOk, Eng.gateGo, Eng.gateW, World.isSet, World.clearReady, hm, hr, h, Eng.applyH,
    World.emits, World.emit, World.kop]

theorem rv_visit_err (e : Eng Fix) (i v : Nat) (hm : e.w.mode = .direct) (h : e.s.st i ≠ .ready)
    (hr : e.w.resOf i = .ready false v) :
    Eng.visit P e i =
      ({ w := (e.w.pollChild i i).emit (.childDropped i),
         s := { e.s with st := upd e.s.st i .ready, out := upd e.s.out i (some v), cnt := e.s.cnt + 1 } }, none) := by
  simp [Eng.visit, raceOk, Eng.gateGo, Eng.gateW, World.isSet, World.clearReady, hm, hr, h, Eng.applyH,
    World.emits, World.emit, World.kop]

/-- `Eng.poll` on a live race_ok: scan the slots in order, close -/
theorem rv_poll_live (e : Eng Fix) (w : Nat) (hd : e.s.dead = false) :
    Eng.poll P e w =
      Eng.close P (Eng.scan P (List.range e.s.n) { e with w := (e.w.emit (.pollBegin w)).setWaker w }) := by
  simp [Eng.poll, Eng.body, raceOk, Fix.misuseIfDead, hd]

theorem rv_close_some (r : Eng Fix) (o : Outcome) :
    Eng.close P (r, some o) = r.emit (.pollEnd o) := rfl

theorem rv_close_pending (r : Eng Fix) (h : r.s.cnt ≠ r.s.n) :
    Eng.close P (r, none) = r.emit (.pollEnd .pending) := by
  simp [Eng.close, raceOk, Eng.applyH, emits_nil, World.kop, Eng.emit, h]

theorem rv_close_done (r : Eng Fix) (h : r.s.cnt = r.s.n) :
    Eng.close P (r, none) =
      ({ w := r.w, s := { r.s with dead := true, st := fun _ => .none } } : Eng Fix).emit
        (.pollEnd (.ready false r.s.outs)) := by
  simp [Eng.close, raceOk, Eng.applyH, emits_nil, World.kop, Eng.emit, h]

/-! ### the loop rule with a position-indexed invariant -/

theorem forCtl_scan_idx {σ β : Type} (P : Policy Fix) (out : β → Outcome) (Inv : Nat → σ → Eng Fix → Prop)
    (Fin : β → σ → Eng Fix → Prop) (f : σ → Nat → Option (σ × Ctl β)) (n : Nat)
    (hstep : ∀ s e i, i < n → Inv i s e → ∃ s' c, f s i = some (s', c) ∧
      ((c = .next ∧ (Eng.visit P e i).2 = none ∧ Inv (i + 1) s' (Eng.visit P e i).1) ∨
       (∃ v, c = .ret v ∧ (Eng.visit P e i).2 = some (out v) ∧ Fin v s' (Eng.visit P e i).1))) :
    ∀ (m k : Nat), k + m = n → ∀ (s : σ) (e : Eng Fix), Inv k s e →
      ∃ a, Rs.forCtl (List.range' k m) s f = some a ∧ LoopPost P out (Inv n) Fin (List.range' k m) e a := by
  intro m
  induction m with
  | zero =>
    intro k hk s e h
    have : k = n := by omega
    subst this
    exact ⟨(s, none), rfl, Or.inl ⟨rfl, rfl, h⟩⟩
  | succ m ih =>
    intro k hk s e h
    obtain ⟨s', c, hf, hc⟩ := hstep s e k (by omega) h
    rcases hc with ⟨hc, hv, hinv⟩ | ⟨v, hc, hv, hfin⟩
    · subst hc
      obtain ⟨a, ha, hpost⟩ := ih (k + 1) (by omega) s' _ hinv
      refine ⟨a, ?_, ?_⟩
      · simp only [List.range'_succ, Rs.forCtl, hf]; exact ha
      · unfold LoopPost at hpost ⊢
        simp only [List.range'_succ, Eng.scan, hv]
        exact hpost
    · subst hc
      refine ⟨(s', some v), ?_, Or.inr ⟨v, rfl, ?_, ?_⟩⟩
      · simp only [List.range'_succ, Rs.forCtl, hf]
      · simp only [List.range'_succ, Eng.scan, hv]
      · simp only [List.range'_succ, Eng.scan, hv]; exact hfin

/-! ### list facts -/

theorem rv_mapM_some {α : Type} (f : Nat → Option α) (g : Nat → α) : ∀ l : List Nat, (∀ i ∈ l, f i = some (g i)) →
    l.mapM f = some (l.map g) := by
  intro l
  induction l with
  | nil => intro _; rfl
  | cons x l ih =>
    intro h
    have hx := h x (List.mem_cons_self ..)
    have := ih (fun i hi => h i (List.mem_cons_of_mem _ hi))
    simp [List.mapM_cons, hx, this]

/-- all `n` slots counted: every slot passes the test -/
theorem rv_filter_full (p : Nat → Bool) (n : Nat) (h : ((List.range n).filter p).length = n) :
    ∀ i, i < n → p i = true := by
  intro i hi
  have h2 : ((List.range n).filter p).length = (List.range n).length := by rw [h, List.length_range]
  have := List.length_filter_eq_length_iff.mp h2
  exact this i (List.mem_range.mpr hi)

theorem rv_filter_all (p : Nat → Bool) (n : Nat) (h : ∀ i, i < n → p i = true) :
    ((List.range n).filter p).length = n := by
  have : (List.range n).filter p = List.range n :=
    List.filter_eq_self.mpr (fun i hi => h i (List.mem_range.mp hi))
  rw [this, List.length_range]

theorem rv_foldl_noop {σ : Type} (f : Nat → σ → σ) : ∀ (l : List Nat) (s : σ), (∀ i ∈ l, ∀ s, f i s = s) →
    l.foldl (fun s i => f i s) s = s := by
  intro l
  induction l with
  | nil => intro s _; rfl
  | cons x l ih =>
    intro s h
    simp only [List.foldl_cons, h x (List.mem_cons_self ..)]
    exact ih s (fun i hi => h i (List.mem_cons_of_mem _ hi))

/-! ### the translated `MaybeDone` functions on a slot given by what it holds -/

/-- a slot that holds a running child: the child is polled with the caller's waker; `Pending` leaves the slot as it is -/
theorem md_poll_pend (m : MaybeDone) (c cx : Nat) (env : World) (hv : m.view = some (.inl c))
    (hm : env.mode = .direct) (hp : env.parent = some cx) (hr : env.resOf c = .pend) :
    MaybeDone.poll m cx env = some (m, env.pollChild c c, .pending) := by
  cases m <;> simp [MaybeDone.view] at hv
  subst hv
  simp [MaybeDone.poll, Rs.pollResFut, pollChild_tie env _ cx hm hp, hr]

/-- … `Ready(out)`: the child is dropped in place (`Pin::set`), the slot holds its output -/
theorem md_poll_ready (m : MaybeDone) (c cx : Nat) (env : World) (ok : Bool) (v : Nat) (hv : m.view = some (.inl c))
    (hm : env.mode = .direct) (hp : env.parent = some cx) (hr : env.resOf c = .ready ok v) :
    ∃ m', MaybeDone.poll m cx env = some (m', (env.pollChild c c).emit (.childDropped c), .ready ()) ∧
      m'.view = some (.inr (if ok then .ok v else .err v)) := by
  cases m <;> simp [MaybeDone.view] at hv
  subst hv
  cases ok <;>
    simp [MaybeDone.poll, Rs.pollResFut, pollChild_tie env _ cx hm hp, hr, MaybeDone.dropGlue, MaybeDone.view]

/-- a slot that holds an output is not polled again -/
theorem md_poll_done (m : MaybeDone) (r : Rs.Result Nat) (cx : Nat) (env : World) (hv : m.view = some (.inr r)) :
    MaybeDone.poll m cx env = some (m, env, .ready ()) := by
  cases m <;> simp [MaybeDone.view] at hv
  simp [MaybeDone.poll]

theorem md_take_ok_ok (m : MaybeDone) (v : Nat) (hv : m.view = some (.inr (.ok v))) :
    ∃ m', MaybeDone.take_ok m = some (m', some v) ∧ m'.view = none := by
  cases m <;> simp [MaybeDone.view] at hv
  subst hv
  simp [MaybeDone.take_ok, MaybeDone.view]

theorem md_take_ok_err (m : MaybeDone) (e : Nat) (hv : m.view = some (.inr (.err e))) :
    MaybeDone.take_ok m = some (m, none) := by
  cases m <;> simp [MaybeDone.view] at hv
  subst hv
  simp [MaybeDone.take_ok]

theorem md_take_err_err (m : MaybeDone) (e : Nat) (hv : m.view = some (.inr (.err e))) :
    MaybeDone.take_err m = some (MaybeDone.ofView none, some e) := by
  cases m <;> simp [MaybeDone.view] at hv
  subst hv
  simp [MaybeDone.take_err, MaybeDone.ofView]

theorem md_view_ofView (x : Option (Nat ⊕ Rs.Result Nat)) : (MaybeDone.ofView x).view = x := by
  rcases x with _ | (c | r) <;> rfl

theorem md_drop_child (m : MaybeDone) (c : Nat) (env : World) (hv : m.view = some (.inl c)) :
    MaybeDone.dropGlue m env = env.emit (.childDropped c) := by
  cases m <;> simp [MaybeDone.view] at hv
  subst hv
  rfl

theorem md_drop_err (m : MaybeDone) (e : Nat) (env : World) (hv : m.view = some (.inr (.err e))) :
    MaybeDone.dropGlue m env = env.emit (.valDropped e) := by
  cases m <;> simp [MaybeDone.view] at hv
  subst hv
  rfl

theorem md_drop_none (m : MaybeDone) (env : World) (hv : m.view = none) :
    MaybeDone.dropGlue m env = env := by
  cases m <;> simp [MaybeDone.view] at hv
  rfl

/-! ### reading the struct -/

theorem fix_ext {a b : Fix} (h1 : a.n = b.n) (h2 : a.st = b.st) (h3 : a.out = b.out) (h4 : a.cnt = b.cnt)
    (h5 : a.off = b.off) (h6 : a.dead = b.dead) : a = b := by
  cases a; cases b; simp_all

/-- the reading depends on the length and on what the slots hold only -/
theorem absS_congr (g g' : RaceOk) (s0 : Fix) (hl : g'.roleElems.len = g.roleElems.len)
    (hv : ∀ j, (g'.roleElems.get j).view = (g.roleElems.get j).view) : absS g' s0 = absS g s0 := by
  unfold absS
  simp only [hl, hv]

theorem wfK_congr {N : Nat} (g g' : RaceOk) (h : WfK N g) (hl : g'.roleElems.len = g.roleElems.len)
    (hv : ∀ j, (g'.roleElems.get j).view = (g.roleElems.get j).view) : WfK N g' := by
  refine ⟨hl.trans h.kn, fun i hi => ?_⟩
  rw [hv i]
  exact h.rs i hi

end TieRaceOkV
end Fc
