/-
  FcLemmas/C01Dir.lean — no lost wake-ups, direct mode (the parent waker is handed straight to
  the children: alloc-only / no_std builds; race and race_ok in every build).
-/
import FcLemmas.C01StdEng

namespace Fc
namespace C01D
open Mon C01

/-- holds at every moment in direct mode -/
structure KD (w : World) : Prop where
  dir  : w.mode = .direct
  hand : ∀ c wk, wk ∈ w.handed c → ∃ p, wk = .par p
  lp   : ∀ c, lastRes w.trace c ≠ none → c < w.cap
  nowp : c01NoPanic w.trace = true

/-- holds from `set_waker` on, for as long as the task waker is current.
    `ip` = child whose poll is in progress, `V` = slots already scanned. -/
structure JD (w : World) (ip : Option Nat) (V : Nat → Prop) : Prop where
  pw : ∃ p, w.parent = some p ∧ cur w.trace = some p
  wk : ∀ c, polledSince w.trace c = true → lastWk w.trace c = (cur w.trace).map Wk.par
  o  : ∀ c, polledSince w.trace c = true → owes w.trace c = true → wokeSince w.trace = true
  d  : ∀ c, V c → (lastRes w.trace c = some .pend ∨ ip = some c) → polledSince w.trace c = true

theorem jd_mono {w : World} {ip : Option Nat} {V V' : Nat → Prop} (hv : ∀ c, V' c → V c)
    (h : JD w ip V) : JD w ip V' :=
  ⟨h.pw, h.wk, h.o, fun c hc => h.d c (hv c hc)⟩

theorem kd_emit {w : World} (e : Ev)
    (hn : (match e with | .childEnd _ _ | .wakePanic | .pollEnd .panicked => false | _ => true) = true)
    (h : KD w) : KD (w.emit e) := by
  refine ⟨h.dir, h.hand, ?_, ?_⟩
  · intro c hc
    have : lastRes (e :: w.trace) c = lastRes w.trace c := by cases e <;> simp_all [lastRes]
    exact h.lp c (by simpa [this] using hc)
  · have := h.nowp
    cases e <;> simp_all [c01NoPanic]
    rename_i o
    cases o <;> simp_all [c01NoPanic]

theorem kd_emits_own {w : World} (l : List Ev) (hl : ∀ e ∈ l, isOwnEv e = true) (h : KD w) :
    KD (w.emits l) := by
  induction l generalizing w with
  | nil => simpa using h
  | cons e l ih =>
    rw [World.emits_cons]
    refine ih (fun e' he' => hl e' (List.mem_cons_of_mem _ he')) (kd_emit e ?_ h)
    have := hl e (List.mem_cons_self ..)
    cases e <;> simp_all [isOwnEv]

theorem kop_direct (w : World) (k : KOp) (hm : w.mode = .direct) : w.kop k = w := by
  cases k <;> simp [World.kop, World.setReady, World.setAllReady, hm]

theorem clearReady_direct (w : World) (i : Nat) (hm : w.mode = .direct) : w.clearReady i = w := by
  simp [World.clearReady, hm]

theorem fireWk_par (w : World) (p : Nat) : w.fireWk (.par p) = w.emit (.woke p) := rfl

/-- events `JD` does not look at -/
def jdNeutral : Ev → Bool
  | .pollBegin _ | .woke _ | .childEnd _ _ | .childBegin _ _ _ | .fired _ _ _ => false
  | _ => true

theorem jd_emit {w : World} {ip : Option Nat} {V : Nat → Prop} (e : Ev) (hn : jdNeutral e = true)
    (h : JD w ip V) : JD (w.emit e) ip V := by
  have h1 : cur (e :: w.trace) = cur w.trace := by cases e <;> simp_all [jdNeutral, cur]
  have h2 : wokeSince (e :: w.trace) = wokeSince w.trace := by
    cases e <;> simp_all [jdNeutral, wokeSince]
  have h3 : ∀ c, lastRes (e :: w.trace) c = lastRes w.trace c := by
    intro c; cases e <;> simp_all [jdNeutral, lastRes]
  have h4 : ∀ c, polledSince (e :: w.trace) c = polledSince w.trace c := by
    intro c; cases e <;> simp_all [jdNeutral, polledSince]
  have h5 : ∀ c, lastWk (e :: w.trace) c = lastWk w.trace c := by
    intro c; cases e <;> simp_all [jdNeutral, lastWk]
  have h6 : ∀ c, owes (e :: w.trace) c = owes w.trace c := by
    intro c; cases e <;> simp_all [jdNeutral, owes]
  refine ⟨by simpa [h1] using h.pw, ?_, ?_, ?_⟩
  · intro c hp; simp only [World.emit_trace, h4, h5, h1] at hp ⊢; exact h.wk c hp
  · intro c hp ho; simp only [World.emit_trace, h4, h6, h2] at hp ho ⊢; exact h.o c hp ho
  · intro c hv hl; simp only [World.emit_trace, h3, h4] at hl ⊢; exact h.d c hv hl

theorem jd_emits_own {w : World} {ip : Option Nat} {V : Nat → Prop} (l : List Ev)
    (hl : ∀ e ∈ l, isOwnEv e = true) (h : JD w ip V) : JD (w.emits l) ip V := by
  induction l generalizing w with
  | nil => simpa using h
  | cons e l ih =>
    rw [World.emits_cons]
    refine ih (fun e' he' => hl e' (List.mem_cons_of_mem _ he')) (jd_emit e ?_ h)
    have := hl e (List.mem_cons_self ..)
    cases e <;> simp_all [isOwnEv, jdNeutral]

theorem kd_fire {w : World} (c a : Nat) (h : KD w) : KD (w.fire c a) := by
  unfold World.fire
  split
  · exact kd_emit _ rfl h
  · rename_i wk hwk
    obtain ⟨p, rfl⟩ := h.hand c wk (List.mem_of_getElem? hwk)
    rw [fireWk_par]
    exact kd_emit _ rfl (kd_emit _ rfl h)

theorem kd_fires {w : World} (l : List (Nat × Nat)) (h : KD w) : KD (w.fires l) := by
  induction l generalizing w with
  | nil => exact h
  | cons p l ih => rw [World.fires_cons]; exact ih (kd_fire p.1 p.2 h)

theorem jd_fire {w : World} {ip : Option Nat} {V : Nat → Prop} (c a : Nat) (hk : KD w)
    (h : JD w ip V) : JD (w.fire c a) ip V := by
  obtain ⟨p, hp, hc⟩ := h.pw
  unfold World.fire
  split
  · refine ⟨⟨p, by simpa using hp, by simpa [cur] using hc⟩, ?_, ?_, ?_⟩
    · intro c' hps; simpa [lastWk, cur, polledSince] using h.wk c' (by simpa [polledSince] using hps)
    · intro c' hps ho
      simpa [wokeSince] using h.o c' (by simpa [polledSince] using hps) (by simpa [owes] using ho)
    · intro c' hv hl
      simpa [polledSince] using h.d c' hv (by simpa [lastRes] using hl)
  · rename_i wk hwk
    obtain ⟨q, rfl⟩ := hk.hand c wk (List.mem_of_getElem? hwk)
    rw [fireWk_par]
    refine ⟨⟨p, by simpa using hp, by simpa [cur] using hc⟩, ?_, ?_, ?_⟩
    · intro c' hps
      simpa [lastWk, cur, polledSince] using h.wk c' (by simpa [polledSince] using hps)
    · intro c' hps ho
      simp only [World.emit_trace, polledSince, owes, Bool.or_eq_true, beq_iff_eq, wokeSince,
        cur] at hps ho ⊢
      rcases ho with ho | ho
      · exact Or.inl (h.o c' hps ho)
      · right
        have := h.wk c' hps
        rw [ho, hc] at this
        simp only [Option.map_some, Option.some.injEq, Wk.par.injEq] at this
        rw [hc, this]
    · intro c' hv hl
      simpa [polledSince] using h.d c' hv (by simpa [lastRes] using hl)

theorem jd_fires {w : World} {ip : Option Nat} {V : Nat → Prop} (l : List (Nat × Nat))
    (hk : KD w) (h : JD w ip V) : JD (w.fires l) ip V := by
  induction l generalizing w with
  | nil => exact h
  | cons p l ih => rw [World.fires_cons]; exact ih (kd_fire p.1 p.2 hk) (jd_fire p.1 p.2 hk h)

/-- state right after `childBegin i` -/
theorem kd_childBegin {w : World} (i : Nat) (h : KD w) :
    KD { w with scripts := upd w.scripts i (w.scripts i).tail,
                handed := upd w.handed i (w.wakerFor i :: w.handed i),
                trace := .childBegin i i (w.wakerFor i) :: w.trace } := by
  refine ⟨h.dir, ?_, ?_, by simpa [c01NoPanic] using h.nowp⟩
  · intro c wk hw
    simp only at hw
    by_cases hci : c = i
    · subst hci
      rw [upd_same] at hw
      simp only [List.mem_cons] at hw
      rcases hw with rfl | hw
      · exact ⟨w.parent.getD 0, by simp [World.wakerFor, h.dir]⟩
      · exact h.hand c wk hw
    · rw [upd_other _ _ _ _ hci] at hw; exact h.hand c wk hw
  · intro c hc; exact h.lp c (by simpa [lastRes] using hc)

theorem kd_pollChild {w : World} (i : Nat) (hi : i < w.cap) (h : KD w) : KD (w.pollChild i i) := by
  unfold World.pollChild
  have h2 := kd_fires (w.stepOf i).fires (kd_childBegin i h)
  refine ⟨by simpa using h2.dir, by simpa using h2.hand, ?_, by simpa [c01NoPanic] using h2.nowp⟩
  intro c hc
  simp only [World.emit_trace, lastRes, World.emit_cap, World.fires_cap] at hc ⊢
  by_cases hic : i = c
  · subst hic; exact hi
  · simp only [hic, if_false] at hc
    have := h2.lp c hc
    simpa using this

theorem jd_pollChild {w : World} {V : Nat → Prop} (i : Nat) (hk : KD w) (h : JD w none V) :
    JD (w.pollChild i i) none (fun c => V c ∨ c = i) := by
  unfold World.pollChild
  obtain ⟨p, hp, hc⟩ := h.pw
  have hwk : w.wakerFor i = .par p := by simp [World.wakerFor, hk.dir, hp]
  have h1 : JD { w with scripts := upd w.scripts i (w.scripts i).tail,
                        handed := upd w.handed i (w.wakerFor i :: w.handed i),
                        trace := .childBegin i i (w.wakerFor i) :: w.trace } (some i)
               (fun c => V c ∨ c = i) := by
    refine ⟨⟨p, hp, by simpa [cur] using hc⟩, ?_, ?_, ?_⟩
    · intro c hps
      simp only [polledSince, Bool.or_eq_true, decide_eq_true_eq, lastWk, cur] at hps ⊢
      by_cases hic : i = c
      · subst hic; simp [hwk, hc]
      · simp only [hic, if_false]
        rcases hps with hps | hps
        · exact absurd hps hic
        · exact h.wk c hps
    · intro c hps ho
      simp only [polledSince, Bool.or_eq_true, decide_eq_true_eq, owes, wokeSince] at hps ho ⊢
      by_cases hic : i = c
      · subst hic; simp at ho
      · simp only [hic, if_false] at ho
        rcases hps with hps | hps
        · exact absurd hps hic
        · exact h.o c hps ho
    · intro c hv hl
      simp only [polledSince, Bool.or_eq_true, decide_eq_true_eq, lastRes] at hl ⊢
      by_cases hic : i = c
      · exact Or.inl hic
      · right
        rcases hv with hv | hv
        · rcases hl with hl | hl
          · exact h.d c hv (Or.inl hl)
          · simp only [Option.some.injEq] at hl; exact absurd hl hic
        · exact absurd hv.symm hic
  have h2 := jd_fires (w.stepOf i).fires (kd_childBegin i hk) h1
  refine ⟨by simpa [cur] using h2.pw, ?_, ?_, ?_⟩
  · intro c hps
    simpa [lastWk, cur, polledSince] using h2.wk c (by simpa [polledSince] using hps)
  · intro c hps ho
    simpa [wokeSince] using h2.o c (by simpa [polledSince] using hps) (by simpa [owes] using ho)
  · intro c hv hl
    simp only [World.emit_trace, lastRes, polledSince] at hl ⊢
    by_cases hic : i = c
    · subst hic; exact h2.d i (Or.inr rfl) (Or.inr rfl)
    · simp only [hic, if_false] at hl
      rcases hl with hl | hl
      · exact h2.d c hv (Or.inl hl)
      · simp at hl

end C01D
end Fc

namespace Fc
namespace C01D
open Mon C01

variable {P : Policy Fix} {n : Nat}

structure PInv (P : Policy Fix) (n : Nat) (e : Eng Fix) (V : Nat → Prop) : Prop where
  kd  : KD e.w
  jd  : JD e.w none V
  inp : inPoll e.w.trace = true
  mb  : c01Boundaries n e.w.trace = true
  cap : e.w.cap = e.s.n
  r1  : R1 P e

structure XInv (P : Policy Fix) (n : Nat) (o : Outcome) (e : Eng Fix) : Prop where
  kd  : KD e.w
  inp : inPoll e.w.trace = true
  mb  : c01Boundaries n e.w.trace = true
  cap : e.w.cap = e.s.n
  r1  : R1 P e
  pend : o = .pending → JD e.w none (fun _ => True)
  pan : o = .panicked → panicSince e.w.trace = true

theorem pinv_mono {e : Eng Fix} {V V' : Nat → Prop} (hv : ∀ c, V' c → V c) (h : PInv P n e V) :
    PInv P n e V' :=
  ⟨h.kd, jd_mono hv h.jd, h.inp, h.mb, h.cap, h.r1⟩

theorem gateW_direct (e : Eng Fix) (i : Nat) (hm : e.w.mode = .direct) : Eng.gateW P e i = e.w := by
  unfold Eng.gateW; split
  · exact clearReady_direct _ _ hm
  · rfl

theorem pinv_visit (C : Conc P) (e : Eng Fix) (i : Nat) (V : Nat → Prop) (hi : i < e.s.n)
    (h : PInv P n e V) (hl : P.pre e.s = none) :
    ((Eng.visit P e i).2 = none →
        PInv P n (Eng.visit P e i).1 (fun c => V c ∨ c = i) ∧ P.pre (Eng.visit P e i).1.s = none) ∧
    (∀ o, (Eng.visit P e i).2 = some o → XInv P n o (Eng.visit P e i).1) := by
  have L := C.law
  have hic : i < e.w.cap := by rw [h.cap]; exact hi
  have hgw := gateW_direct (P := P) e i h.kd.dir
  refine Eng.visit_ind P e i
    (fun r => (r.2 = none → PInv P n r.1 (fun c => V c ∨ c = i) ∧ P.pre r.1.s = none) ∧
      (∀ o, r.2 = some o → XInv P n o r.1)) ?_ ?_ ?_ ?_
  · intro _ hany
    simp [World.anyReady, h.kd.dir] at hany
  · intro _ hg
    refine ⟨fun _ => ⟨?_, hl⟩, fun o ho => by simp at ho⟩
    have hne : P.eligible e.s i = false := by
      unfold Eng.gateGo at hg
      simpa [World.isSet, h.kd.dir] using hg
    rw [hgw]
    refine ⟨h.kd, ⟨h.jd.pw, h.jd.wk, h.jd.o, ?_⟩, h.inp, h.mb, h.cap, h.r1⟩
    intro c hv hlr
    rcases hv with hv | hv
    · exact h.jd.d c hv hlr
    · subst hv
      rcases hlr with hlr | hlr
      · have := h.r1 hl c hlr
        rw [hne] at this; exact Bool.noConfusion this
      · simp at hlr
  · intro _ hg hp
    rw [L.child_id] at hp ⊢
    refine ⟨fun hn => by simp at hn, ?_⟩
    intro o ho
    simp only [Option.some.injEq] at ho
    subst ho
    rw [hgw]
    have hks := kd_pollChild i hic h.kd
    have him := pollChild_inp_mb n e.w i i h.inp h.mb
    have him2 := emits_own_inp_mb n _ _ (L.evs_panic e.s) him.2 him.1
    refine ⟨kd_emits_own _ (L.evs_panic e.s) hks, him2.2, him2.1, by simp [h.cap, L.n_panic],
      fun hpre => absurd hpre (L.panic_dead _), fun hh => by simp at hh, fun _ => ?_⟩
    simp only [World.emits_trace]
    refine panicSince_own _ _ (fun e' he' => L.evs_panic e.s e' (List.mem_reverse.mp he')) ?_
    exact panicSince_pollChild _ _ _ hp
  · intro _ hg hp
    rw [L.child_id] at hp ⊢
    have hel : P.eligible e.s i = true := by
      unfold Eng.gateGo at hg; simp only [Bool.and_eq_true] at hg; exact hg.1
    rw [hgw]
    have hks := kd_pollChild i hic h.kd
    have hjs := jd_pollChild (V := V) i h.kd h.jd
    have him := pollChild_inp_mb n e.w i i h.inp h.mb
    generalize hr : e.w.resOf i = r at hp ⊢
    have hevs := L.evs_handle e.s i r
    have him2 := emits_own_inp_mb n _ _ hevs him.2 him.1
    have hks2 := kd_emits_own _ hevs hks
    have hjs2 := jd_emits_own _ hevs hjs
    have hlr : ∀ j, lastRes ((e.w.pollChild i i).emits (P.handle e.s i r).evs).trace j
        = if i = j then some r else lastRes e.w.trace j := by
      intro j
      rw [C16.lastRes_emits_own _ _ hevs, C16.lastRes_pollChild, hr]
    have hkop : (((e.w.pollChild i i).emits (P.handle e.s i r).evs).kop (P.handle e.s i r).kop)
        = (e.w.pollChild i i).emits (P.handle e.s i r).evs := kop_direct _ _ hks2.dir
    have hR1 : R1 P (Eng.applyH { e with w := e.w.pollChild i i } (P.handle e.s i r)) := by
      intro hpre j hj
      simp only [Eng.applyH_w, World.kop_trace, Eng.applyH_s] at hj hpre ⊢
      rw [hlr] at hj
      by_cases hij : i = j
      · subst hij
        simp only [if_true, Option.some.injEq] at hj
        subst hj
        rw [L.pend_elig]; exact hel
      · simp only [hij, if_false] at hj
        exact L.mono _ _ _ _ (fun hh => hij hh.symm) hpre (h.r1 hl j hj)
    constructor
    · intro hex
      refine ⟨⟨by simpa [hkop] using hks2, by simpa [hkop] using hjs2, by simpa using him2.2,
        by simpa using him2.1, by simp [h.cap, L.n_handle], hR1⟩, ?_⟩
      simp only [Eng.applyH_s]
      by_cases hd : P.pre (P.handle e.s i r).s = none
      · exact hd
      · exact absurd hex (L.dead_exit _ _ _ hl hd)
    · intro o ho
      refine ⟨by simpa [hkop] using hks2, by simpa using him2.2, by simpa using him2.1,
        by simp [h.cap, L.n_handle], hR1, fun hh => ?_, fun hh => ?_⟩
      · subst hh; exact absurd ho (C.no_pend_exit _ _ _).1
      · subst hh; exact absurd ho (C.no_pend_exit _ _ _).2

theorem pinv_scan (C : Conc P) : ∀ (l : List Nat) (e : Eng Fix) (V : Nat → Prop),
    (∀ i ∈ l, i < e.s.n) → PInv P n e V → P.pre e.s = none →
    ((Eng.scan P l e).2 = none →
        PInv P n (Eng.scan P l e).1 (fun c => V c ∨ c ∈ l) ∧ P.pre (Eng.scan P l e).1.s = none) ∧
    (∀ o, (Eng.scan P l e).2 = some o → XInv P n o (Eng.scan P l e).1) := by
  intro l
  induction l with
  | nil =>
    intro e V _ h hl
    refine ⟨fun _ => ⟨pinv_mono (fun c hc => by simpa using hc) h, hl⟩, fun o ho => by simp [Eng.scan] at ho⟩
  | cons i rest ih =>
    intro e V hlt h hl
    have hv := pinv_visit C e i V (hlt i (List.mem_cons_self ..)) h hl
    unfold Eng.scan
    cases hvis : (Eng.visit P e i).2 with
    | some o =>
      simp only
      exact ⟨fun hn => by simp at hn, fun o' ho' => by
        simp only [Option.some.injEq] at ho'; subst ho'; exact hv.2 o hvis⟩
    | none =>
      simp only
      have h1 := hv.1 hvis
      have hn := visit_n C.law e i
      have := ih (Eng.visit P e i).1 (fun c => V c ∨ c = i)
        (fun j hj => by rw [hn]; exact hlt j (List.mem_cons_of_mem _ hj)) h1.1 h1.2
      refine ⟨fun hs => ?_, this.2⟩
      have h2 := this.1 hs
      refine ⟨pinv_mono ?_ h2.1, h2.2⟩
      intro c hc
      simp only [List.mem_cons] at hc
      rcases hc with hc | hc | hc
      · exact Or.inl (Or.inl hc)
      · exact Or.inl (Or.inr hc)
      · exact Or.inr hc

structure BInv (P : Policy Fix) (n : Nat) (e : Eng Fix) : Prop where
  kd  : KD e.w
  cap : e.w.cap = e.s.n
  r1  : R1 P e
  out : inPoll e.w.trace = false
  mb  : c01Boundaries n e.w.trace = true
  jd  : alive e.w.trace = true → lastOut e.w.trace = some .pending → JD e.w none (fun _ => True)

theorem kd_pollEnd {w : World} (o : Outcome) (h : KD w)
    (hp : o = .panicked → panicSince w.trace = true) : KD (w.emit (.pollEnd o)) := by
  by_cases ho : o = .panicked
  · subst ho
    refine ⟨h.dir, h.hand, ?_, ?_⟩
    · intro c hc; exact h.lp c (by simpa [lastRes] using hc)
    · simp [c01NoPanic, h.nowp, hp rfl]
  · refine kd_emit _ ?_ h
    cases o <;> simp_all

theorem binv_of_xinv (o : Outcome) (e : Eng Fix) (h : XInv P n o e) :
    BInv P n (e.emit (.pollEnd o)) := by
  refine ⟨kd_pollEnd o h.kd h.pan, by simpa using h.cap, ?_, by simp [inPoll], ?_, ?_⟩
  · intro hp j hj; exact h.r1 hp j (by simpa [lastRes] using hj)
  · simp only [Eng.emit_w, World.emit_trace]
    rw [mb_mid n _ _ h.inp]; exact h.mb
  · intro _ hlo
    simp only [Eng.emit_w, World.emit_trace, lastOut, Option.some.injEq] at hlo
    exact jd_emit _ rfl (h.pend hlo)

theorem binv_close (C : Conc P) (ord : List Nat) (r : Eng Fix × Option Outcome)
    (hx : ∀ o, r.2 = some o → XInv P n o r.1)
    (hc : r.2 = none → PInv P n r.1 (fun c => c ∈ ord) ∧ P.pre r.1.s = none)
    (hord : ∀ c, c < r.1.s.n → c ∈ ord) :
    BInv P n (Eng.close P r) := by
  have L := C.law
  unfold Eng.close
  split
  · rename_i o ho; exact binv_of_xinv o _ (hx o ho)
  · rename_i hn
    obtain ⟨hp, hlive⟩ := hc hn
    obtain ⟨o, ho⟩ : ∃ o, (P.finish r.1.s).exit = some o := by
      cases hf : (P.finish r.1.s).exit with
      | none => exact absurd hf (C.fin_ok _).2
      | some o => exact ⟨o, rfl⟩
    rw [ho]
    simp only [Option.getD_some]
    refine binv_of_xinv o _ ?_
    have hevs := L.evs_finish r.1.s
    have him := emits_own_inp_mb n _ _ hevs hp.inp hp.mb
    refine ⟨?_, by simpa [L.finish_kop, World.kop] using him.2,
      by simpa [L.finish_kop, World.kop] using him.1, by simp [hp.cap, L.n_finish], ?_, ?_, ?_⟩
    · simp only [Eng.applyH_w, L.finish_kop, World.kop]
      exact kd_emits_own _ hevs hp.kd
    · intro hpre j hj
      simp only [Eng.applyH_s] at hpre ⊢
      simp only [Eng.applyH_w, World.kop_trace] at hj
      rw [C16.lastRes_emits_own _ _ hevs] at hj
      rw [L.finish_elig _ _ hpre]
      exact hp.r1 hlive j hj
    · intro _
      simp only [Eng.applyH_w, L.finish_kop, World.kop]
      refine jd_emits_own _ hevs ⟨hp.jd.pw, hp.jd.wk, hp.jd.o, ?_⟩
      intro c _ hl
      refine hp.jd.d c (hord c ?_) hl
      rcases hl with hl | hl
      · have := hp.kd.lp c (by rw [hl]; simp)
        rw [← hp.cap]; exact this
      · simp at hl
    · intro hh
      subst hh
      exact absurd ho (C.fin_ok _).1

theorem binv_body (C : Conc P) (e : Eng Fix) (h : PInv P n e (fun _ => False))
    (hl : P.pre e.s = none) : BInv P n (Eng.body P e) := by
  have L := C.law
  have hstart : PInv P n { e with s := P.start e.s } (fun _ => False) := by
    refine ⟨h.kd, h.jd, h.inp, h.mb, by simp [h.cap, L.n_start], ?_⟩
    intro _ j hj
    simp only [L.start_elig]
    exact h.r1 hl j hj
  unfold Eng.body
  split
  · rename_i hc
    simp [World.anyReady, h.kd.dir] at hc
  · have hs := pinv_scan (n := n) C (P.order e.s) { e with s := P.start e.s } (fun _ => False)
      (fun i hi => by simp only [L.n_start]; exact L.order_lt _ _ hi) hstart (L.start_live _ hl)
    refine binv_close C (P.order e.s) _ hs.2 ?_ ?_
    · intro hn
      have := hs.1 hn
      exact ⟨pinv_mono (fun c hc => Or.inr hc) this.1, this.2⟩
    · intro c hc
      rw [scan_n L] at hc
      simp only [L.n_start] at hc
      exact C.order_all _ _ hl hc

theorem quiet_of_binv (e : Eng Fix) (h : BInv P n e) : quiet n e.w.trace = true := by
  unfold quiet
  cases ha : alive e.w.trace with
  | false => simp
  | true =>
    by_cases hlo : lastOut e.w.trace = some .pending
    · have hjs := h.jd ha hlo
      simp only [hlo, beq_self_eq_true, Bool.and_self, Bool.not_true, Bool.false_or,
        List.all_eq_true, List.mem_range]
      intro c _
      cases hw : wokeSince e.w.trace with
      | true => simp
      | false =>
        simp only [Bool.or_false, Bool.not_eq_true', Bool.and_eq_false_imp, Bool.and_eq_true,
          beq_iff_eq, Bool.not_eq_true', and_imp]
        intro hp _
        cases ho : owes e.w.trace c with
        | false => rfl
        | true =>
          have hps := hjs.d c trivial (Or.inl hp)
          have := hjs.o c hps ho
          rw [hw] at this
          exact Bool.noConfusion this
    · have : (lastOut e.w.trace == some Outcome.pending) = false := by simpa using hlo
      simp [this]

theorem binv_holds (e : Eng Fix) (h : BInv P n e) : holds_C01 n e.w.trace = true := by
  unfold holds_C01
  simp [h.mb, quiet_of_binv e h, h.kd.nowp]

theorem binv_fire (e : Eng Fix) (c a : Nat) (h : BInv P n e) : BInv P n (e.fire c a) := by
  have hm := mb_fire n e.w c a h.mb (quiet_of_binv e h) h.out
  refine ⟨kd_fire c a h.kd, by simpa using h.cap, ?_, hm.2, hm.1, ?_⟩
  · intro hp j hj
    simp only [Eng.fire_w, C16.lastRes_fire] at hj
    exact h.r1 hp j hj
  · intro ha hlo
    simp only [Eng.fire_w, alive_fire, lastOut_fire] at ha hlo
    exact jd_fire c a h.kd (h.jd ha hlo)

theorem binv_drop (L : Lawful P) (e : Eng Fix) (h : BInv P n e) : BInv P n (Eng.drop P e) := by
  unfold Eng.drop
  have hevs := L.evs_drop e.s
  have hq := quiet_of_binv e h
  have h1 : c01Boundaries n (Ev.dropBegin :: e.w.trace) = true := mb_startsOp n _ _ h.mb hq
  have h2 := mb_own_dead n (P.dropEvs e.s).reverse (Ev.dropBegin :: e.w.trace)
    (fun e' he' => hevs e' (List.mem_reverse.mp he')) rfl h1
  refine ⟨?_, by simp [h.cap, L.n_drop], fun hp => absurd hp (L.drop_dead _), ?_, ?_, ?_⟩
  · exact kd_emit _ rfl (kd_emits_own _ hevs (kd_emit _ rfl h.kd))
  · simp only [World.emit_trace, World.emits_trace, inPoll]
    rw [inPoll_own_seg _ _ (fun e' he' => hevs e' (List.mem_reverse.mp he'))]
    simpa [inPoll] using h.out
  · simp only [World.emit_trace, World.emits_trace]
    exact mb_notOp n _ _ h2.1 rfl
  · intro ha
    simp only [World.emit_trace, World.emits_trace, alive] at ha
    rw [h2.2] at ha; exact Bool.noConfusion ha

theorem binv_poll (C : Conc P) (e : Eng Fix) (wid : Nat) (h : BInv P n e) :
    BInv P n (Eng.poll P e wid) := by
  have hq := quiet_of_binv e h
  have hmb1 : c01Boundaries n (Ev.pollBegin wid :: e.w.trace) = true := mb_startsOp n _ _ h.mb hq
  unfold Eng.poll
  split
  · rename_i o ho
    have hne := C.pre_ok e.s
    rw [ho] at hne
    refine ⟨kd_pollEnd o (kd_emit _ rfl h.kd) (fun hh => absurd (by rw [hh]) hne.2),
      by simpa using h.cap, ?_, by simp [inPoll], ?_, ?_⟩
    · intro hp j hj; exact h.r1 hp j (by simpa [lastRes] using hj)
    · exact mb_notOp n _ _ hmb1 rfl
    · intro _ hlo
      simp only [Eng.emit_w, World.emit_trace, lastOut, Option.some.injEq] at hlo
      exact absurd (by rw [hlo]) hne.1
  · rename_i hp
    refine binv_body C _ ?_ hp
    refine ⟨⟨h.kd.dir, h.kd.hand, fun c hc => h.kd.lp c (by simpa [lastRes] using hc),
        by simpa [c01NoPanic] using h.kd.nowp⟩,
      ⟨⟨wid, by simp, by simp [cur]⟩, ?_, ?_, ?_⟩,
      by simp [inPoll], by simpa using hmb1, by simpa using h.cap, ?_⟩
    · intro c hps; simp [polledSince] at hps
    · intro c hps; simp [polledSince] at hps
    · intro c hv; exact absurd hv (by simp)
    · intro hp' j hj; exact h.r1 hp' j (by simpa [lastRes] using hj)

theorem binv_step (C : Conc P) (e : Eng Fix) (op : Op) (h : BInv P n e) :
    BInv P n (FEng.step P e op) := by
  cases op <;> simp only [FEng.step]
  · exact binv_poll C _ _ h
  · exact binv_fire _ _ _ h
  · exact binv_drop C.law _ h
  all_goals exact h

theorem binv_run (C : Conc P) (ops : List Op) (e : Eng Fix) (h : BInv P n e) :
    BInv P n (ops.foldl (FEng.step P) e) := by
  induction ops generalizing e with
  | nil => exact h
  | cons op ops ih => exact ih _ (binv_step C e op h)

theorem binv_init (f : Fam) (k : Nat) (scripts : Nat → List Step) (m : Mode)
    (hm : f.modeOf m = .direct) : BInv f.policy n (FEng.init f m k scripts) := by
  refine ⟨⟨hm, ?_, ?_, rfl⟩, rfl, ?_, rfl, rfl, ?_⟩
  · intro c wk hw; simp [FEng.init, World.init] at hw
  · intro c hc; simp [FEng.init, World.init, lastRes] at hc
  · intro _ j hj; simp [FEng.init, World.init, lastRes] at hj
  · intro _ hlo; simp [FEng.init, World.init, lastOut] at hlo

end C01D
end Fc
