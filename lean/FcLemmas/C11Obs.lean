/-
  FcLemmas/C11Obs.lean — groundwork for C11 / C12 (FutureGroup / StreamGroup):
  how the observations of Fc/MonGrp.lean see the trace segments the engine appends, and the
  key discipline of the slab (`Slab::insert_at` hands out a vacant key, `Slab::remove` pushes the
  key on the vacant chain).
-/
import FcLemmas.SimG
import FcLemmas.Seg
import FcLemmas.Fresh
import Fc.MonGrp
set_option linter.unusedSimpArgs false
set_option linter.unusedVariables false

namespace Fc
namespace G11
open Mon

/-! ### observations across one child poll -/

/-- an observation that ignores wake-ups, ownership events and `childBegin`, and maps `childEnd c r`
    through `F` -/
theorem obs_pollSeg {α : Type} (g : List Ev → α) (F : α → α) (c slot : Nat) (wk : Wk)
    (l : List Ev) (r : Res) (evs t : List Ev)
    (hf : ∀ e t, isFireEv e = true → g (e :: t) = g t)
    (ho : ∀ e t, isOwnEv e = true → g (e :: t) = g t)
    (hb : ∀ t, g (.childBegin c slot wk :: t) = g t)
    (he : ∀ t, g (.childEnd c r :: t) = F (g t))
    (hl : ∀ e ∈ l, isFireEv e = true) (hev : ∀ e ∈ evs, isOwnEv e = true) :
    g (pollSeg c slot wk l r evs t) = F (g t) := by
  unfold pollSeg
  rw [skip_seg g isOwnEv ho evs.reverse (fun e h => hev e (List.mem_reverse.mp h)), he,
    skip_seg g isFireEv hf l hl, hb]

theorem memberAt_pollSeg (c slot : Nat) (wk : Wk) (l : List Ev) (r : Res) (evs t : List Ev) (k : Nat)
    (hl : ∀ e ∈ l, isFireEv e = true) (hev : ∀ e ∈ evs, isOwnEv e = true) :
    memberAt (pollSeg c slot wk l r evs t) k =
      if (Res.finishes r && memberAt t k == some c) = true then none else memberAt t k :=
  obs_pollSeg (fun t => memberAt t k)
    (fun m => if (Res.finishes r && m == some c) = true then none else m) c slot wk l r evs t
    (fun e t h => by cases e <;> simp_all [isFireEv, memberAt])
    (fun e t h => by cases e <;> simp_all [isOwnEv, memberAt])
    (fun t => by simp [memberAt]) (fun t => by simp [memberAt]) hl hev

theorem lenOf_pollSeg (c slot : Nat) (wk : Wk) (l : List Ev) (r : Res) (evs t : List Ev)
    (hl : ∀ e ∈ l, isFireEv e = true) (hev : ∀ e ∈ evs, isOwnEv e = true) :
    lenOf (pollSeg c slot wk l r evs t) = if Res.finishes r = true then lenOf t - 1 else lenOf t :=
  obs_pollSeg lenOf (fun n => if Res.finishes r = true then n - 1 else n) c slot wk l r evs t
    (fun e t h => by cases e <;> simp_all [isFireEv, lenOf])
    (fun e t h => by cases e <;> simp_all [isOwnEv, lenOf])
    (fun t => by simp [lenOf]) (fun t => by simp [lenOf]) hl hev

theorem keyOf_pollSeg (c slot : Nat) (wk : Wk) (l : List Ev) (r : Res) (evs t : List Ev) (j : Nat)
    (hl : ∀ e ∈ l, isFireEv e = true) (hev : ∀ e ∈ evs, isOwnEv e = true) :
    keyOf (pollSeg c slot wk l r evs t) j = keyOf t j :=
  obs_pollSeg (fun t => keyOf t j) id c slot wk l r evs t
    (fun e t h => by cases e <;> simp_all [isFireEv, keyOf])
    (fun e t h => by cases e <;> simp_all [isOwnEv, keyOf])
    (fun t => by simp [keyOf]) (fun t => by simp [keyOf]) hl hev

theorem yielded_pollSeg (c slot : Nat) (wk : Wk) (l : List Ev) (r : Res) (evs t : List Ev)
    (hl : ∀ e ∈ l, isFireEv e = true) (hev : ∀ e ∈ evs, isOwnEv e = true) :
    yielded (pollSeg c slot wk l r evs t) = yielded t :=
  obs_pollSeg yielded id c slot wk l r evs t
    (fun e t h => by cases e <;> simp_all [isFireEv, yielded])
    (fun e t h => by cases e <;> simp_all [isOwnEv, yielded])
    (fun t => by simp [yielded]) (fun t => by simp [yielded]) hl hev

/-- the value a child answer delivers -/
def delivers : Res → Option Nat
  | .ready _ v => some v
  | .item v => some v
  | _ => none

theorem producedVals_pollSeg (c slot : Nat) (wk : Wk) (l : List Ev) (r : Res) (evs t : List Ev)
    (hl : ∀ e ∈ l, isFireEv e = true) (hev : ∀ e ∈ evs, isOwnEv e = true) :
    producedVals (pollSeg c slot wk l r evs t) =
      (match delivers r with | some v => v :: producedVals t | none => producedVals t) :=
  obs_pollSeg producedVals
    (fun p => match delivers r with | some v => v :: p | none => p) c slot wk l r evs t
    (fun e t h => by cases e <;> simp_all [isFireEv, producedVals])
    (fun e t h => by cases e <;> simp_all [isOwnEv, producedVals])
    (fun t => by simp [producedVals]) (fun t => by cases r <;> simp [producedVals, delivers]) hl hev

theorem delivered_pollSeg (c slot : Nat) (wk : Wk) (l : List Ev) (r : Res) (evs t : List Ev)
    (hl : ∀ e ∈ l, isFireEv e = true) (hev : ∀ e ∈ evs, isOwnEv e = true) :
    delivered (sincePoll (pollSeg c slot wk l r evs t)) =
      ((delivers r).isSome || delivered (sincePoll t)) :=
  obs_pollSeg (fun t => delivered (sincePoll t))
    (fun b => (delivers r).isSome || b) c slot wk l r evs t
    (fun e t h => by cases e <;> simp_all [isFireEv, sincePoll, delivered])
    (fun e t h => by cases e <;> simp_all [isOwnEv, sincePoll, delivered])
    (fun t => by simp [sincePoll, delivered])
    (fun t => by cases r <;> simp [sincePoll, delivered, delivers]) hl hev

theorem head_pollSeg (c slot : Nat) (wk : Wk) (l : List Ev) (r : Res) (evs t : List Ev)
    (hl : ∀ e ∈ l, isFireEv e = true) (hev : ∀ e ∈ evs, isOwnEv e = true) :
    (childResults (sincePoll (pollSeg c slot wk l r evs t))).head? = some (c, r) :=
  obs_pollSeg (fun t => (childResults (sincePoll t)).head?)
    (fun _ => some (c, r)) c slot wk l r evs t
    (fun e t h => by cases e <;> simp_all [isFireEv, sincePoll, childResults])
    (fun e t h => by cases e <;> simp_all [isOwnEv, sincePoll, childResults])
    (fun t => by simp [sincePoll, childResults])
    (fun t => by simp [sincePoll, childResults]) hl hev

theorem alive_pollSeg (c slot : Nat) (wk : Wk) (l : List Ev) (r : Res) (evs t : List Ev)
    (hl : ∀ e ∈ l, isFireEv e = true) (hev : ∀ e ∈ evs, isOwnEv e = true) :
    alive (pollSeg c slot wk l r evs t) = alive t :=
  obs_pollSeg alive id c slot wk l r evs t
    (fun e t h => alive_fireEv e t h) (fun e t h => alive_own e t h)
    (fun t => by simp [alive]) (fun t => by simp [alive]) hl hev

/-- the monitor across one child poll: the `childBegin` check is the only new obligation -/
theorem holds_pollSeg (stream keyed : Bool) (nch c slot : Nat) (wk : Wk) (l : List Ev) (r : Res)
    (evs t : List Ev) (hl : ∀ e ∈ l, isFireEv e = true) (hev : ∀ e ∈ evs, isOwnEv e = true) :
    holds_G stream keyed nch (pollSeg c slot wk l r evs t) =
      (holds_G stream keyed nch t && memberAt t slot == some c && !delivered (sincePoll t)) := by
  unfold pollSeg
  rw [skip_seg (holds_G stream keyed nch) isOwnEv
    (fun e t h => by cases e <;> simp_all [isOwnEv, holds_G]) evs.reverse
    (fun e h => hev e (List.mem_reverse.mp h))]
  have h1 : ∀ t', holds_G stream keyed nch (.childEnd c r :: t') = holds_G stream keyed nch t' := by
    intro t'; simp [holds_G]
  rw [h1, skip_seg (holds_G stream keyed nch) isFireEv
    (fun e t h => by cases e <;> simp_all [isFireEv, holds_G]) l hl]
  simp [holds_G]

/-! ### `gone` only grows -/

theorem gone_append (l t : List Ev) (c : Nat) : gone (l ++ t) c = (gone l c || gone t c) := by
  induction l with
  | nil => simp [gone]
  | cons e l ih => cases e <;> simp_all [gone, Bool.or_assoc]

theorem gone_pollSeg (c slot : Nat) (wk : Wk) (l : List Ev) (r : Res) (evs t : List Ev) (j : Nat)
    (hl : ∀ e ∈ l, isFireEv e = true) :
    gone (pollSeg c slot wk l r evs t) j = (gone evs.reverse j || gone t j) := by
  unfold pollSeg
  rw [gone_append]
  have h1 : gone (.childEnd c r :: (l ++ .childBegin c slot wk :: t)) j = gone t j := by
    simp only [gone]
    rw [gone_fires _ _ _ hl]
    simp [gone]
  rw [h1]

theorem finished_pollSeg (c slot : Nat) (wk : Wk) (l : List Ev) (r : Res) (evs t : List Ev) (j : Nat)
    (hl : ∀ e ∈ l, isFireEv e = true) (hev : ∀ e ∈ evs, isOwnEv e = true) :
    finished (pollSeg c slot wk l r evs t) j = if c = j then Res.finishes r else finished t j := by
  unfold finished
  rw [lastRes_pollSeg c slot wk l r evs t j hl hev]
  by_cases hcj : c = j
  · simp only [hcj, if_true]; cases r <;> rfl
  · simp only [hcj, if_false]

/-! ### `insertSorted` -/

theorem mem_insertSorted (k : Nat) (l : List Nat) (x : Nat) :
    x ∈ Grp.insertSorted k l ↔ (x = k ∨ x ∈ l) := by
  induction l with
  | nil => simp [Grp.insertSorted]
  | cons y ys ih =>
    unfold Grp.insertSorted
    split
    · simp
    · split
      · rename_i h1 h2
        subst h2
        simp only [List.mem_cons]
        constructor
        · intro h; exact Or.inr h
        · intro h; rcases h with h | h
          · exact Or.inl h
          · exact h
      · simp only [List.mem_cons, ih]
        constructor
        · rintro (h | h | h)
          · exact Or.inr (Or.inl h)
          · exact Or.inl h
          · exact Or.inr (Or.inr h)
        · rintro (h | h | h)
          · exact Or.inr (Or.inl h)
          · exact Or.inl h
          · exact Or.inr (Or.inr h)

/-! ### the slab -/

/-- the vacant chain: starting at `a`, following `vac`, visits exactly `ch` and ends at `b` -/
def Linked (vac : Nat → Nat) : Nat → List Nat → Nat → Prop
  | a, [], b => a = b
  | a, k :: ks, b => a = k ∧ Linked vac (vac k) ks b

theorem linked_congr (vac vac' : Nat → Nat) (ch : List Nat) (a b : Nat)
    (h : ∀ k ∈ ch, vac' k = vac k) (hl : Linked vac a ch b) : Linked vac' a ch b := by
  induction ch generalizing a with
  | nil => exact hl
  | cons k ks ih =>
    obtain ⟨h1, h2⟩ := hl
    refine ⟨h1, ?_⟩
    rw [h k (List.mem_cons_self ..)]
    exact ih _ (fun k' hk' => h k' (List.mem_cons_of_mem _ hk')) h2

/-- the part of the state `slab 0.4.12` manages: entries `≥ entries` do not exist, `len` counts the
    occupied ones, and the vacant chain from `next` runs through vacant keys up to `entries` -/
structure Slab (m : Nat → Option Nat) (vac : Nat → Nat) (entries next len : Nat) : Prop where
  hi : ∀ k, entries ≤ k → m k = none
  cnt : len = cntP (fun k => (m k).isSome) entries
  chain : ∃ ch : List Nat, ch.Nodup ∧ (∀ k ∈ ch, k < entries ∧ m k = none) ∧ Linked vac next ch entries

theorem Slab.next_vacant {m vac entries next len} (h : Slab m vac entries next len) :
    m next = none := by
  obtain ⟨ch, _, hv, hl⟩ := h.chain
  cases ch with
  | nil =>
    have : next = entries := hl
    exact h.hi _ (by omega)
  | cons k ks =>
    obtain ⟨h1, _⟩ := hl
    rw [h1]; exact (hv k (List.mem_cons_self ..)).2

theorem isSome_upd (m : Nat → Option Nat) (i : Nat) (v : Option Nat) (j : Nat) :
    (upd m i v j).isSome = if j = i then v.isSome else (m j).isSome := by
  unfold upd; split <;> rfl

/-- `insert_at(next)` when the vacant chain is empty: push -/
theorem Slab.push {m vac entries next len} (h : Slab m vac entries next len) (c : Nat)
    (hn : next = entries) :
    Slab (upd m next (some c)) vac (entries + 1) (next + 1) (len + 1) := by
  subst hn
  refine ⟨?_, ?_, ⟨[], List.nodup_nil, by simp, rfl⟩⟩
  · intro k hk
    rw [upd_other _ _ _ _ (by omega)]
    exact h.hi k (by omega)
  · simp only [cntP, upd_same, Option.isSome_some, if_true]
    rw [h.cnt]
    congr 1
    apply cntP_congr
    intro i hi
    rw [upd_other _ _ _ _ (by omega)]

/-- `insert_at(next)` reusing the head of the vacant chain -/
theorem Slab.reuse {m vac entries next len} (h : Slab m vac entries next len) (c : Nat)
    (hn : next ≠ entries) :
    Slab (upd m next (some c)) vac entries (vac next) (len + 1) := by
  obtain ⟨ch, hnd, hv, hl⟩ := h.chain
  cases ch with
  | nil => exact absurd hl hn
  | cons k ks =>
    obtain ⟨h1, h2⟩ := hl
    subst h1
    have hk := hv next (List.mem_cons_self ..)
    have hnd' := List.nodup_cons.mp hnd
    refine ⟨?_, ?_, ⟨ks, hnd'.2, ?_, h2⟩⟩
    · intro j hj
      rw [upd_other _ _ _ _ (by omega)]
      exact h.hi j hj
    · have := cntP_upd (fun j => (m j).isSome) entries next true hk.1
      simp only [hk.2, Option.isSome_none, Bool.false_eq_true, if_false, Nat.add_zero, if_true] at this
      rw [h.cnt, ← this]
      apply cntP_congr
      intro i _
      rw [isSome_upd]; rfl
    · intro j hj
      have hjn : j ≠ next := fun hh => hnd'.1 (hh ▸ hj)
      rw [upd_other _ _ _ _ hjn]
      exact hv j (List.mem_cons_of_mem _ hj)

/-- `remove(k)` of an occupied key: `k` becomes the head of the vacant chain -/
theorem Slab.remove {m vac entries next len} (h : Slab m vac entries next len) (k c : Nat)
    (hk : m k = some c) :
    Slab (upd m k none) (upd vac k next) entries k (len - 1) ∧ 1 ≤ len := by
  obtain ⟨ch, hnd, hv, hl⟩ := h.chain
  have hlt : k < entries := by
    apply Classical.byContradiction
    intro hge
    have := h.hi k (by omega)
    rw [hk] at this; cases this
  have hnot : k ∉ ch := by
    intro hm
    have := (hv k hm).2
    rw [hk] at this; cases this
  have hc := cntP_upd (fun j => (m j).isSome) entries k false hlt
  simp only [hk, Option.isSome_some, if_true, Bool.false_eq_true, if_false, Nat.add_zero] at hc
  have hcc : cntP (fun j => (upd m k none j).isSome) entries
      = cntP (fun j => if j = k then false else (m j).isSome) entries := by
    apply cntP_congr
    intro i _
    rw [isSome_upd]; rfl
  refine ⟨⟨?_, ?_, ⟨k :: ch, List.nodup_cons.mpr ⟨hnot, hnd⟩, ?_, ⟨rfl, ?_⟩⟩⟩, ?_⟩
  · intro j hj
    rw [upd_other _ _ _ _ (by omega)]
    exact h.hi j hj
  · rw [hcc, h.cnt]; omega
  · intro j hj
    rcases List.mem_cons.mp hj with rfl | hj
    · exact ⟨hlt, by simp⟩
    · have hjk : j ≠ k := fun hh => hnot (hh ▸ hj)
      rw [upd_other _ _ _ _ hjk]
      exact hv j hj
  · rw [upd_same]
    refine linked_congr vac _ ch next entries ?_ hl
    intro j hj
    have hjk : j ≠ k := fun hh => hnot (hh ▸ hj)
    rw [upd_other _ _ _ _ hjk]
  · rw [h.cnt]; omega

end G11
end Fc
