/-
  FcLemmas/KTieZipVDMain.lean — Vec zip, no_std flavour: the translated `Zip::poll_next` (FcGen/KSrcFam4D.lean) refines
  `Eng.poll zip` in `direct` mode.  Same structure as FcLemmas/KTieZipMain.lean; the readiness set has no flags, so the
  cases "nothing is ready" and "the flag of the slot is clear" do not occur: every slot that does not buffer an item is
  polled, with the caller's own waker.  The loop body is taken from the generated definition by unification
  (`refine loop_bind …`); the proofs use the role abbreviations only (`unroles`).
-/
import FcLemmas.KTieZipVDLoop
import FcLemmas.KTieSteps

set_option linter.unusedSimpArgs false
set_option linter.unusedVariables false

namespace Fc
open Rs Src

namespace TieZipVD
open ZipVD
open TieZipV (zp_visit_ready zp_visit_pend zp_visit_fin zp_visit_item_more zp_visit_item_all zp_poll_unfold
  zp_close_none zp_close_some zp_assumeInit zp_allOf)

local macro "unroles" : tactic =>
  `(tactic| try simp only [Zip.roleKids, Zip.roleItems, Zip.roleCount, Zip.roleWakers, Zip.roleStates,
      Zip.roleDone] at *)

/-- re-establishing `Rel` after a step that leaves the children and the table sizes alone -/
theorem Rel.update {n k o : Nat} {q : World} {e : Eng Fix} {g : Zip} {env : World} (hR : Rel n k o q e g env)
    (e' : Eng Fix) (g' : Zip) (env' : World)
    (hw : e'.w = TieDir.absV g'.roleWakers.readiness env')
    (hn : e'.s.n = e.s.n) (hk : g'.roleKids = g.roleKids)
    (hst : e'.s.st = fun i => TiePS.abs (g'.roleStates.get i))
    (hout : e'.s.out = g'.roleItems.get)
    (hcnt : e'.s.cnt = e.s.cnt) (hoff : e'.s.off = e.s.off)
    (hdead : e'.s.dead = g'.roleDone)
    (hsl : g'.roleStates.len = g.roleStates.len)
    (hic : g'.roleItems.cap = n)
    (hln : g'.roleCount = g.roleCount)
    (hpar : g'.roleWakers.readiness.roleParent ≠ none)
    (hfr : SameBits q env') (hin : HandedInD n env') (hsok : StreamStepsF env')
    (hrs : ∀ i, i < n → ((g'.roleStates.get i = PS.PollState.pending ∧ g'.roleItems.get i = none) ∨
        (g'.roleStates.get i = PS.PollState.ready ∧ ∃ v, g'.roleItems.get i = some v))) :
    Rel n k o q e' g' env' where
  ew := hw
  en := by rw [hn, hR.en]
  kids := by rw [hk, hR.kids]
  st := hst
  out := hout
  cnt := by rw [hcnt, hR.cnt]
  off := by rw [hoff, hR.off]
  dead := hdead
  sl := by rw [hsl, hR.sl]
  ic := hic
  ln := by rw [hln, hR.ln]
  par := hpar
  fr := hfr
  hin := hin
  sok := hsok
  rs := hrs

/-- what `Rel` at the end of the scan says about the model state after the closing `pollEnd` -/
theorem post_of_rel {n : Nat} {X : Eng Fix} {g' : Zip} {env' : World} {b : Eng Fix}
    (hR : Rel n b.s.cnt b.s.off b.w X g' env') (o : Outcome) :
    jcore (absZ g' b) = jcore (X.emit (.pollEnd o)) ∧ env'.scripts = (X.emit (.pollEnd o)).w.scripts ∧
      env'.handed = (X.emit (.pollEnd o)).w.handed ∧ (X.emit (.pollEnd o)).w.trace = .pollEnd o :: env'.trace := by
  obtain ⟨hw, hen, hk, hst, hout, hcnt, hoff, hdead, hsl, hic, hln, hpar, hfr, hhin, hsok, hrs⟩ := hR
  obtain ⟨f1, f2, f3⟩ := hfr
  refine ⟨?_, ?_, ?_, ?_⟩
  · simp only [jcore, fcore, absZ, Eng.emit, World.emit, hw, hen, hk, hst, hout, hcnt, hoff, hdead, TieDir.absV,
      f1, f2, f3]
  · simp only [Eng.emit, World.emit, hw]; rfl
  · simp only [Eng.emit, World.emit, hw]; rfl
  · simp only [Eng.emit, World.emit, hw]; rfl

theorem wfz_of_rel {n k o : Nat} {q : World} {X : Eng Fix} {g' : Zip} {env' : World} (hR : Rel n k o q X g' env') (hn : 0 < n) :
    WfZ g' := by
  obtain ⟨hw, hen, hk, hst, hout, hcnt, hoff, hdead, hsl, hic, hln, hpar, hfr, hhin, hsok, hrs⟩ := hR
  exact ⟨by rw [hk]; exact hsl, by rw [hk]; exact hic,
    by rw [hk]; exact hln, by rw [hk]; exact hn, by rw [hk]; exact hrs⟩

/-- the refinement, together with the facts about the environment that the next poll needs again -/
theorem poll_tie_core (g : Zip) (b : Eng Fix) (w : Nat) (hW : WfZ g) (hS : StreamStepsF b.w)
    (hH : HandedInD g.roleKids.len b.w) (hd : g.roleDone = false) :
    ∃ g' env' ret,
      Zip.poll_next g w ((absZ g b).w.emit (.pollBegin w)) = some (g', env', ret) ∧
      WfZ g' ∧
      (jcore (absZ g' b) = jcore (Eng.poll zip (absZ g b) w) ∧
       env'.scripts = (Eng.poll zip (absZ g b) w).w.scripts ∧
       env'.handed = (Eng.poll zip (absZ g b) w).w.handed ∧
       (Eng.poll zip (absZ g b) w).w.trace = .pollEnd (outcomeOfZip ret) :: env'.trace) ∧
      g'.roleKids.len = g.roleKids.len ∧ HandedInD g.roleKids.len env' ∧ StreamStepsF env' := by
  suffices h : ∃ g' env' ret, Zip.poll_next g w ((absZ g b).w.emit (.pollBegin w)) = some (g', env', ret) ∧
      ∃ X, Rel g.roleKids.len b.s.cnt b.s.off b.w X g' env' ∧
        Eng.poll zip (absZ g b) w = X.emit (.pollEnd (outcomeOfZip ret)) by
    obtain ⟨g', env', ret, h1, X, hR, hp⟩ := h
    refine ⟨g', env', ret, h1, wfz_of_rel hR hW.pos, ?_, hR.kids, hR.hin, hR.sok⟩
    rw [hp]; exact post_of_rel hR _
  have hpoll := zp_poll_unfold (absZ g b) w hd
  obtain ⟨hsl, hic, hln, hpos, hrs⟩ := hW
  obtain ⟨-, -, -, -, -, -, -, -, ⟨r1, hs1, hs3⟩, -, -⟩ := TieDir.vec_tie g.roleWakers.readiness
    ((absZ g b).w.emit (.pollBegin w)) 0 w 0
  have hparent : r1.roleParent ≠ none := by
    have := congrArg World.parent hs3
    simp at this
    rw [this]; simp
  have hl : ∀ i ∈ List.range g.roleKids.len, i < g.roleKids.len := fun i hi => List.mem_range.mp hi
  unfold Zip.poll_next
  unroles
  simp only [hd, hs1, hln, Bool.not_false, Option.bind_eq_bind, Option.bind_some, Option.pure_def, ↓reduceIte]
  refine loop_bind g.roleKids.len b.s.cnt b.s.off b.w _ ?hF _
    { w := ((absZ g b).w.emit (.pollBegin w)).setWaker w, s := (absZ g b).s } _ _ ?hR hl _ _ ?hK
  case hF =>
    clear hs1 hs3 hsl hic hln hpos hrs hH hS hd hpoll hl hparent
    generalize g.roleKids.len = n at *
    generalize b.s.cnt = k at *
    generalize b.s.off = o at *
    generalize b.w = q at *
    clear g
    intro e g env i hR hi
    dsimp only
    have hR0 := hR
    obtain ⟨hw, hen, hk, hst, hout, hcnt, hoff, hdead, hsl, hic, hln, hpar, hfr, hhin, hsok, hrs⟩ := hR
    obtain ⟨-, hc1, -, -, -, ha1, -, ha, -, hpw, -⟩ := TieDir.vec_tie g.roleWakers.readiness env i 0 0
    obtain ⟨p, hp⟩ := Option.ne_none_iff_exists'.mp hpar
    have hidx : Rs.PVec.idx g.roleStates i = some (g.roleStates.get i) := by
      simp [Rs.PVec.idx, hsl, hi]
    have hisr := (TiePS.tie (g.roleStates.get i)).2.2.1
    have hkid : Rs.Kids.get g.roleKids i = some i := by simp [Rs.Kids.get, hk, hi]
    obtain ⟨env3, hp1, hp4, hp5, hp6, hp7⟩ := pollChild_tieD n g.roleWakers.readiness env i p hp hhin
    have hsok3 := hsok.tail i hp6
    simp only [absV_anyReady, absV_isSet, absV_parent, hp] at ha hc1 hpw
    have hany' : e.w.anyReady = true := by rw [hw]; rfl
    have hset' : e.w.isSet i = true := by rw [hw]; rfl
    by_cases hsr : TiePS.abs (g.roleStates.get i) = .ready
    · -- the slot already buffers an item
      have hv := zp_visit_ready e i hany' (by rw [hst]; exact hsr)
      unroles
      simp only [ha, hidx, hisr, hsr, decide_true, Option.bind_some, Bool.not_false, Bool.not_true,
        Bool.false_eq_true, ↓reduceIte]
      refine ⟨_, _, _, rfl, ?_, Or.inl ⟨rfl, ?_⟩⟩
      · rw [hv]; exact hR0
      · rw [hv]
    · -- the child is polled, with the caller's own waker
      have hsr' : e.s.st i ≠ .ready := by rw [hst]; exact hsr
      have hres' : e.w.resOf i = env.resOf i := by rw [hw]; rfl
      have hcw : (e.w.clearReady i).pollChild i i = TieDir.absV g.roleWakers.readiness env3 := by
        rw [hp4, hw]; rfl
      unroles
      simp only [ha, hidx, hisr, hsr, hc1, decide_false, Option.bind_some, Bool.not_false, Bool.not_true,
        Bool.false_eq_true, ↓reduceIte, WakerVecD.get, hpw, Option.bind_eq_bind, Option.map_some, hkid, Rs.expect, Rs.pollStream, hp1]
      rcases hsok.resOf i with hres | hres | ⟨v, hres⟩
      · -- Pending
        have hv := zp_visit_pend e i hany' hsr' hset' (by rw [hres', hres])
        simp only [hres, Option.bind_some]
        refine ⟨_, _, _, rfl, ?_, Or.inl ⟨rfl, ?_⟩⟩
        · rw [hv]
          refine hR0.update _ _ _ ?_ rfl rfl hst hout rfl rfl hdead rfl hic rfl hpar (hfr.trans hp7) hp5 hsok3 hrs
          unroles
          exact hcw
        · rw [hv]
      · -- the stream ended
        have hv := zp_visit_fin e i hany' hsr' hset' (by rw [hres', hres])
        simp only [hres, Option.bind_some]
        refine ⟨_, _, _, rfl, ?_, Or.inr ⟨_, rfl, ?_⟩⟩
        · rw [hv]
          refine hR0.update _ _ _ ?_ rfl rfl hst hout rfl rfl rfl rfl hic rfl hpar (hfr.trans hp7) hp5 hsok3 hrs
          unroles
          exact hcw
        · rw [hv]; rfl
      · -- an item
        obtain ⟨q, hq1, hq2⟩ := (TiePS.tie (g.roleStates.get i)).2.2.2.2.2
        have hwr : Rs.OutVec.write g.roleItems i v
            = some ⟨g.roleItems.cap, fun j => if j = i then some v else g.roleItems.get j⟩ := by
          simp [Rs.OutVec.write, hic, hi]
        have hset2 : Rs.PVec.set g.roleStates i q
            = some ⟨g.roleStates.len, fun j => if j = i then q else g.roleStates.get j⟩ := by
          simp [Rs.PVec.set, hsl, hi]
        have hisrf : (fun s => PS.PollState.is_ready s) = fun s => some (decide (TiePS.abs s = .ready)) := by
          funext s; exact (TiePS.tie s).2.2.1
        have hall : Rs.PVec.allOf (⟨g.roleStates.len, fun j => if j = i then q else g.roleStates.get j⟩ :
              Rs.PVec PS.PollState) (fun s => PS.PollState.is_ready s)
            = some (({ e.s with st := upd e.s.st i .ready } : Fix).allReady) := by
          rw [hisrf, zp_allOf]
          simp only [Fix.allReady, hen, hsl, hst]
          congr 1
          apply List.all_congr rfl
          intro j
          by_cases hj : j = i <;> simp [upd, hj, hq2]
        unroles
        simp only [hres, Option.bind_some, hwr, hidx, hq1, hset2, hall]
        cases hB : ({ e.s with st := upd e.s.st i .ready } : Fix).allReady
        · -- the row is not complete yet
          have hv := zp_visit_item_more e i v hany' hsr' hset' (by rw [hres', hres]) hB
          simp only [Bool.false_eq_true, ↓reduceIte]
          refine ⟨_, _, _, rfl, ?_, Or.inl ⟨rfl, ?_⟩⟩
          · rw [hv]
            refine hR0.update _ _ _ ?_ rfl rfl ?_ ?_ rfl rfl hdead rfl hic rfl hpar (hfr.trans hp7) hp5 hsok3 ?_
            · unroles
              exact hcw
            · unroles
              funext j
              by_cases hj : j = i <;> simp [upd, hj, hq2, hst]
            · unroles
              funext j
              by_cases hj : j = i <;> simp [upd, hj, hout]
            · intro j hj
              unroles
              by_cases hji : j = i
              · subst hji
                right
                refine ⟨?_, v, by simp⟩
                cases q <;> simp [TiePS.abs] at hq2 ⊢
              · simp only [hji, ↓reduceIte]
                exact hrs j hj
          · rw [hv]
        · -- the row is complete: hand it out, re-arm every slot (nothing to re-arm in this flavour)
          have hv := zp_visit_item_all e i v hany' hsr' hset' (by rw [hres', hres]) hB
          have hfull : ∀ j, j < g.roleItems.cap →
              ∃ v', (if j = i then some v else g.roleItems.get j) = some v' := by
            intro j hj
            by_cases hji : j = i
            · exact ⟨v, by simp [hji]⟩
            · simp only [hji, ↓reduceIte]
              have hj' : j < n := by rw [← hic]; exact hj
              have hBj := (List.all_eq_true.mp hB) j (List.mem_range.mpr (by rw [hen]; exact hj'))
              simp [upd, hji, hst] at hBj
              rcases hrs j hj' with ⟨h1, _⟩ | ⟨_, h2⟩
              · rw [h1] at hBj; simp [TiePS.abs] at hBj
              · exact h2
          have hai := zp_assumeInit
            ⟨g.roleItems.cap, fun j => if j = i then some v else g.roleItems.get j⟩ hfull
          unroles
          simp only [ha1, hai, Option.bind_some, ↓reduceIte]
          refine ⟨_, _, _, rfl, ?_, Or.inr ⟨_, rfl, ?_⟩⟩
          · rw [hv]
            refine hR0.update _ _ _ ?_ rfl rfl rfl rfl rfl rfl hdead rfl hln rfl hpar (hfr.trans hp7) hp5 hsok3 ?_
            · unroles
              rw [hcw]; rfl
            · intro j hj
              exact Or.inl ⟨rfl, rfl⟩
          · rw [hv]
            simp only [outcomeOfZip, Fix.outs, hen, hic, hout]
            rfl
  case hR =>
    refine ⟨?_, rfl, rfl, rfl, rfl, rfl, rfl, hd, hsl, hic, rfl, hparent, ⟨rfl, rfl, rfl⟩, ?_, hS, hrs⟩
    · unroles
      rw [hs3]; rfl
    · intro c i hm; exact hH c i hm
  case hK =>
    intro g' env' r hR' hcase
    rcases hcase with ⟨rfl, hx⟩ | ⟨v, rfl, hx⟩
    · refine ⟨_, _, _, rfl, _, hR', ?_⟩
      rw [hpoll]
      exact zp_close_none _ hx
    · refine ⟨_, _, _, rfl, _, hR', ?_⟩
      rw [hpoll]
      exact zp_close_some _ _ hx

theorem poll_tie_main : poll_tie_statement := by
  intro g b w hW hS hH hd
  obtain ⟨g', env', ret, h1, h2, ⟨h3, h4, h5, h6⟩, _⟩ := poll_tie_core g b w hW hS hH hd
  exact ⟨g', env', ret, h1, fun _ => h2, h3, h4, h5, h6⟩

end TieZipVD
end Fc
