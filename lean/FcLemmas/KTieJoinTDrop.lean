/-
  FcLemmas/KTieJoinTDrop.lean — tuple join (`(A, B, …).join()`): the translated `PinnedDrop` destructor `Join::drop`
  (FcGen/KSrcTup1.lean) refines `Eng.drop joinTuple`.  The destructor of the tuple join tests the state of every slot in
  turn (the array / Vec one walks `ready_indexes()` / `pending_indexes()`): two `Rs.forBreak` loops over `0..N` that never
  stop early — a `Ready` slot releases its output (`OutputArray::drop`; the slot holds a value) and becomes `None`, then a
  `Pending` slot releases its child.  The loop bodies are taken from the generated definition by unification
  (`refine forBreak_bindJ …`, imported from the Vec proof); the proofs use the role abbreviations only (`unroles`).
-/
import FcLemmas.KTieJoinTDefs

set_option linter.unusedSimpArgs false
set_option linter.unusedVariables false

namespace Fc
open Rs Src

namespace TieJoinT
open JoinT

local macro "unroles" : tactic =>
  `(tactic| try simp only [Join.roleKids, Join.roleCount, Join.roleWakers, Join.roleStates, Join.roleItems] at *)

/-- the value event of slot `j` -/
def evValT (g : Join) (j : Nat) : Ev := .valDropped ((g.roleItems.get j).getD 0)

/-- is slot `j` `Ready` / `Pending` in `g`? -/
def isRdyT (g : Join) (j : Nat) : Bool := decide (g.roleStates.get j = PS.PollState.ready)
def isPndT (g : Join) (j : Nat) : Bool := decide (g.roleStates.get j = PS.PollState.pending)

/-- the model side: the trace of `Eng.drop joinTuple` in terms of the slots the two loops of the destructor act on -/
theorem drop_traceT (N : Nat) (g : Join) (b : Eng Fix) (hk : g.roleKids.len = N) :
    (Eng.drop joinTuple (absJ N g b)).w.trace
      = .dropEnd :: ((((List.range N).filter (isPndT g)).map Ev.childDropped).reverse ++
          ((((List.range N).filter (isRdyT g)).map (evValT g)).reverse ++ (.dropBegin :: b.w.trace))) := by
  have h1 : (List.range N).filter (fun i => decide (TiePS.abs (g.roleStates.get i) = PS.ready))
      = (List.range N).filter (isRdyT g) := by
    apply List.filter_congr
    intro i _
    simp only [TiePS.abs_readyJ, isRdyT]
  have h2 : (List.range N).filter (fun i => decide (TiePS.abs (g.roleStates.get i) = PS.pending))
      = (List.range N).filter (isPndT g) := by
    apply List.filter_congr
    intro i _
    simp only [TiePS.abs_pendingJ, isPndT]
  simp only [Eng.drop, joinTuple, Fix.dropStates, absJ, World.emits, World.emit, hk, h1, h2,
    List.reverse_append, List.append_assoc, Env.abs_trace]
  rfl

theorem drop_tie_mainT : drop_tie_statement := by
  intro N g b hW _
  obtain ⟨hpos, hkn, hrd, hsl, hic, hpc, hrs⟩ := hW
  have htr := drop_traceT N g b hkn
  unfold Join.drop
  simp only [Option.bind_eq_bind, Option.bind_some, Option.pure_def]
  suffices h : ∃ a : Join × World × Unit, _ = some a ∧
      (a.2.1.trace = (((List.range N).filter (isPndT g)).map Ev.childDropped).reverse ++
          ((((List.range N).filter (isRdyT g)).map (evValT g)).reverse ++ (.dropBegin :: b.w.trace)) ∧
        a.2.1.scripts = b.w.scripts ∧ a.2.1.handed = b.w.handed) by
    obtain ⟨⟨g', env', u⟩, h1, h2, h3, h4⟩ := h
    refine ⟨g', env', h1, ?_, h3, h4⟩
    rw [htr]
    exact congrArg _ h2.symm
  refine forBreak_bindJ
    (fun rest (s : Join × World) => rest.Nodup ∧ (∀ j ∈ rest, j < N) ∧ s.1.roleKids = g.roleKids ∧
      s.1.roleStates.len = N ∧ s.1.roleItems.cap = N ∧
      (∀ j, isPndT s.1 j = isPndT g j) ∧
      (∀ j ∈ rest, s.1.roleStates.get j = g.roleStates.get j ∧ s.1.roleItems.get j = g.roleItems.get j) ∧
      ((rest.filter (isRdyT g)).map (evValT g)).reverse ++ s.2.trace
        = (((List.range N).filter (isRdyT g)).map (evValT g)).reverse ++ (.dropBegin :: b.w.trace) ∧
      s.2.scripts = b.w.scripts ∧ s.2.handed = b.w.handed)
    _ ?step1 _ _ ?init1 _ _ ?k1
  case init1 =>
    exact ⟨List.nodup_range, fun j hj => List.mem_range.mp hj, rfl, hsl, hic, fun _ => rfl, fun _ _ => ⟨rfl, rfl⟩,
      rfl, rfl, rfl⟩
  case step1 =>
    intro k rest s ⟨hnd, hlt, hkd, hsl', hcap, hpn, hget, htrc, hsc, hha⟩
    obtain ⟨hk1, hk2⟩ := hget k (List.mem_cons_self ..)
    have hkN : k < N := hlt k (List.mem_cons_self ..)
    rw [List.nodup_cons] at hnd
    have hidx : Rs.PVec.idx s.1.roleStates k = some (g.roleStates.get k) := by
      simp [Rs.PVec.idx, hsl', hkN, hk1]
    have hisr := (TiePS.tie (g.roleStates.get k)).2.2.1
    by_cases hr : g.roleStates.get k = PS.PollState.ready
    · -- a `Ready` slot: its output is released, the slot becomes `None`
      obtain ⟨v, hv⟩ : ∃ v, g.roleItems.get k = some v := by
        rcases hrs k hkN with h | h
        · rw [hr] at h; cases h
        · exact h.2
      have hdrop : Rs.OutVec.drop s.1.roleItems k
          = some (⟨s.1.roleItems.cap, fun j => if j = k then none else s.1.roleItems.get j⟩, v) := by
        simp [Rs.OutVec.drop, hcap, hkN, hk2, hv]
      obtain ⟨q, hq1, hq2⟩ := (TiePS.tie (g.roleStates.get k)).2.2.2.1
      have hqn : q ≠ PS.PollState.pending := by
        intro h; rw [h] at hq2; cases hq2
      have hset2 : Rs.PVec.set s.1.roleStates k q
          = some ⟨s.1.roleStates.len, fun j => if j = k then q else s.1.roleStates.get j⟩ := by
        simp [Rs.PVec.set, hsl', hkN]
      have hfk : (k :: rest).filter (isRdyT g) = k :: rest.filter (isRdyT g) := by
        simp [List.filter_cons, isRdyT, hr]
      have hra : TiePS.abs (g.roleStates.get k) = .ready := (TiePS.abs_readyJ _).mpr hr
      unroles
      simp only [hidx, hisr, hra, decide_true, ↓reduceIte, hdrop, hq1, hset2, Option.bind_some]
      refine ⟨_, rfl, hnd.2, fun j hj => hlt j (List.mem_cons_of_mem _ hj), hkd, hsl', hcap, ?_, ?_, ?_, hsc, hha⟩
      · intro j
        by_cases hjk : j = k
        · subst hjk
          simp [isPndT, hqn, hr]
        · have := hpn j
          simp only [isPndT] at this ⊢
          unroles
          simp only [hjk, if_false]
          exact this
      · intro j hj
        have hjk : j ≠ k := fun h => hnd.1 (h ▸ hj)
        unroles
        simp only [hjk, if_false]
        exact hget j (List.mem_cons_of_mem _ hj)
      · rw [← htrc, hfk]
        simp only [List.map_cons, List.reverse_cons, List.append_assoc, World.emit, evValT]
        unroles
        simp [hv]
    · -- any other slot is left alone
      have hfk : (k :: rest).filter (isRdyT g) = rest.filter (isRdyT g) := by
        simp [List.filter_cons, isRdyT, hr]
      have hra : ¬ TiePS.abs (g.roleStates.get k) = .ready := fun h => hr ((TiePS.abs_readyJ _).mp h)
      unroles
      simp only [hidx, hisr, hra, decide_false, Bool.false_eq_true, ↓reduceIte, Option.bind_some]
      refine ⟨_, rfl, hnd.2, fun j hj => hlt j (List.mem_cons_of_mem _ hj), hkd, hsl', hcap, hpn,
        fun j hj => hget j (List.mem_cons_of_mem _ hj), ?_, hsc, hha⟩
      rw [← htrc, hfk]
  case k1 =>
    intro s1 ⟨_, _, hkd, hsl1, _, hpn, _, htrc, hsc, hha⟩
    rw [List.filter_nil, List.map_nil, List.reverse_nil, List.nil_append] at htrc
    refine forBreak_bindJ
      (fun rest (s : Join × World) => (∀ j ∈ rest, j < N) ∧ s.1.roleKids = g.roleKids ∧
        s.1.roleStates = s1.1.roleStates ∧
        ((rest.filter (isPndT g)).map Ev.childDropped).reverse ++ s.2.trace
          = (((List.range N).filter (isPndT g)).map Ev.childDropped).reverse ++ s1.2.trace ∧
        s.2.scripts = b.w.scripts ∧ s.2.handed = b.w.handed)
      _ ?step2 _ _ ?init2 _ _ ?k2
    case init2 =>
      exact ⟨fun j hj => List.mem_range.mp hj, hkd, rfl, rfl, hsc, hha⟩
    case step2 =>
      intro k rest s ⟨hlt, hkd', hst', htrc', hsc', hha'⟩
      have hkN : k < N := hlt k (List.mem_cons_self ..)
      have hidx : Rs.PVec.idx s.1.roleStates k = some (s1.1.roleStates.get k) := by
        simp [hst', Rs.PVec.idx, hsl1, hkN]
      have hisp := (TiePS.tie (s1.1.roleStates.get k)).2.1
      have hkid : Rs.Kids.get s.1.roleKids k = some k := by
        simp [Rs.Kids.get, hkd', hkn, hkN]
      have hpk := hpn k
      by_cases hp : g.roleStates.get k = PS.PollState.pending
      · have hp1 : s1.1.roleStates.get k = PS.PollState.pending := by
          simpa [isPndT, hp] using hpk
        have hpa : TiePS.abs (s1.1.roleStates.get k) = .pending := (TiePS.abs_pendingJ _).mpr hp1
        have hfk : (k :: rest).filter (isPndT g) = k :: rest.filter (isPndT g) := by
          simp [List.filter_cons, isPndT, hp]
        unroles
        simp only [hidx, hisp, hpa, decide_true, ↓reduceIte, hkid, Option.bind_some]
        refine ⟨_, rfl, fun j hj => hlt j (List.mem_cons_of_mem _ hj), hkd', hst', ?_, hsc', hha'⟩
        rw [← htrc', hfk]
        simp [List.map_cons, List.reverse_cons, List.append_assoc, World.emit]
      · have hp1 : ¬ s1.1.roleStates.get k = PS.PollState.pending := by
          simpa [isPndT, hp] using hpk
        have hpa : ¬ TiePS.abs (s1.1.roleStates.get k) = .pending := fun h => hp1 ((TiePS.abs_pendingJ _).mp h)
        have hfk : (k :: rest).filter (isPndT g) = rest.filter (isPndT g) := by
          simp [List.filter_cons, isPndT, hp]
        unroles
        simp only [hidx, hisp, hpa, decide_false, Bool.false_eq_true, ↓reduceIte, Option.bind_some]
        refine ⟨_, rfl, fun j hj => hlt j (List.mem_cons_of_mem _ hj), hkd', hst', ?_, hsc', hha'⟩
        rw [← htrc', hfk]
    case k2 =>
      intro s2 ⟨_, _, _, htrc2, hsc2, hha2⟩
      rw [List.filter_nil, List.map_nil, List.reverse_nil, List.nil_append] at htrc2
      refine ⟨_, rfl, ?_, hsc2, hha2⟩
      dsimp only
      rw [htrc2, htrc]

end TieJoinT
end Fc
