/-
  FcLemmas/C20Nest.lean — concurrent evaluation (C20) for every instance of a nest.

  The flat C20 invariant `C20.B20` is carried next to the flat C01 invariant (std or direct), as
  in the flat proof (FcLemmas/C20Modes.lean); the package `C20.F20` is `Closed` and does not look
  at the scripts, so it transfers to the outer instance and to every inner instance of a nest by
  the projection lemma `Nest.proj_foldl` (FcLemmas/C16NestProj.lean).

  Also: what the flat monitor gives at an operation boundary (`everPolled_of_c20`), and the
  executable forms of the nest property and of the two naive versions that are false.
-/
import FcLemmas.C16NestProj
import FcLemmas.C20Modes
import FcLemmas.Conc
set_option linter.unusedSimpArgs false
set_option linter.unusedVariables false

namespace Fc
open Mon

/-! ### pure trace facts -/

theorem everPolled_cons_mono (e : Ev) (t : List Ev) (c : Nat) (h : everPolled t c = true) :
    everPolled (e :: t) c = true := by
  cases e <;> simp_all [everPolled]

/-- the flat monitor, read at a moment when the instance's latest answer is Pending: every child
    `c < n` has been polled at least once -/
theorem everPolled_of_c20 (n : Nat) (t : List Ev) (h : holds_C20 true n t = true)
    (hlo : lastOut t = some .pending) (c : Nat) (hc : c < n) : everPolled t c = true := by
  induction t with
  | nil => simp [lastOut] at hlo
  | cons e t ih =>
    by_cases hpe : ∃ o, e = .pollEnd o
    · obtain ⟨o, rfl⟩ := hpe
      simp only [lastOut, Option.some.injEq] at hlo
      subst hlo
      simp only [holds_C20, Bool.and_eq_true] at h
      have h2 := h.2
      unfold c20At at h2
      simp only [List.all_eq_true, List.mem_range] at h2
      have := h2 c hc
      simp only [owned, hc, decide_true, if_true, Bool.not_true, Bool.false_or, Bool.and_eq_true] at this
      simpa [everPolled] using this.1
    · have h1 : holds_C20 true n t = true := by
        cases e <;> simp_all [holds_C20]
      have h2 : lastOut t = some .pending := by
        cases e <;> simp_all [lastOut]
      exact everPolled_cons_mono e t c (ih h1 h2)

/-! ### the closed package -/

namespace C20

variable {P : Policy Fix}

theorem poll_n (L : Lawful P) (e : Eng Fix) (w : Nat) : (Eng.poll P e w).s.n = e.s.n := by
  unfold Eng.poll
  split
  · rfl
  · unfold Eng.body
    split
    · exact L.n_start _
    · unfold Eng.close
      split
      · simp only [Eng.emit_s]; rw [C01.scan_n L]; exact L.n_start _
      · simp only [Eng.emit_s, Eng.applyH_s, L.n_finish]
        rw [C01.scan_n L]; exact L.n_start _

/-- flat C20 invariant + the flat C01 invariant it leans on + the number of children -/
structure F20 (P : Policy Fix) (k : Nat) (e : Eng Fix) : Prop where
  conc : Conc P
  b : B20 P e
  n : e.s.n = k
  c01 : (∀ n, C01.BInv P n e) ∨ (∀ n, C01D.BInv P n e)

theorem f20_closed (P : Policy Fix) (k : Nat) : Closed P (F20 P k) := by
  refine ⟨?_, ?_, ?_⟩
  · intro e w h
    have C := h.conc
    rcases h.c01 with h1 | h1
    · exact ⟨C, C20S.poll20 (n := 0) C e w (h1 0) h.b, by rw [poll_n C.law]; exact h.n,
        Or.inl (fun n => C01.binv_poll C e w (h1 n))⟩
    · exact ⟨C, C20D.poll20 (n := 0) C e w (h1 0) h.b, by rw [poll_n C.law]; exact h.n,
        Or.inr (fun n => C01D.binv_poll C e w (h1 n))⟩
  · intro e c a h
    refine ⟨h.conc, b20_fire e c a h.b, by simpa using h.n, ?_⟩
    rcases h.c01 with h1 | h1
    · exact Or.inl (fun n => C01.binv_fire e c a (h1 n))
    · exact Or.inr (fun n => C01D.binv_fire e c a (h1 n))
  · intro e h
    have L := h.conc.law
    refine ⟨h.conc, b20_drop L e h.b, by simp [Eng.drop, L.n_drop, h.n], ?_⟩
    rcases h.c01 with h1 | h1
    · exact Or.inl (fun n => C01.binv_drop L e (h1 n))
    · exact Or.inr (fun n => C01D.binv_drop L e (h1 n))

theorem f20_scriptFree (P : Policy Fix) (k : Nat) : ScriptFree (F20 P k) := by
  intro e f h
  refine ⟨h.conc, ⟨h.b.la, h.b.lp, h.b.m20⟩, h.n, ?_⟩
  rcases h.c01 with h1 | h1
  · refine Or.inl (fun n => ?_)
    have b := h1 n
    exact ⟨⟨b.ks.std, b.ks.cnt, b.ks.hi, b.ks.hand, b.ks.lwk, b.ks.par, b.ks.i2, b.ks.nowp⟩,
      b.cap, b.r1, b.out, b.mb, fun ha hl => ⟨(b.js ha hl).pw, (b.js ha hl).j⟩⟩
  · refine Or.inr (fun n => ?_)
    have b := h1 n
    exact ⟨⟨b.kd.dir, b.kd.hand, b.kd.lp, b.kd.nowp⟩, b.cap, b.r1, b.out, b.mb,
      fun ha hl => ⟨(b.jd ha hl).pw, (b.jd ha hl).wk, (b.jd ha hl).o, (b.jd ha hl).d⟩⟩

theorem f20_init (f : Fam) (hf : f.isConc = true) (m : Mode) (k : Nat) (scripts : Nat → List Step) :
    F20 f.policy k (FEng.init f m k scripts) := by
  have C := conc_policy f hf
  refine ⟨C, b20_init f C k scripts m, rfl, ?_⟩
  cases hm : f.modeOf m with
  | std => exact Or.inl (fun n => C01.binv_init f k scripts m hm)
  | direct => exact Or.inr (fun n => C01D.binv_init f k scripts m hm)

end C20

/-! ### the nest -/

namespace Nest

/-- what is claimed of the outer instance -/
def QO20 (nc : NCase) (e : Eng Fix) : Prop :=
  nc.outer.isConc = true → C20.F20 nc.outer.policy nc.n e

/-- what is claimed of the inner instance in a slot with nesting entry `inn` -/
def QI20 : Option (Fam × Nat) → Eng Fix → Prop
  | none, _ => True
  | some (fam, k), e => fam.isConc = true → C20.F20 fam.policy k e

theorem closed_o20 (nc : NCase) : Closed nc.outer.policy (QO20 nc) :=
  Closed.imp _ (fun _ => C20.f20_closed _ _)

theorem closed_i20 (nc : NCase) (c : Nat) : Closed (innerPolicy nc c) (QI20 (nc.inner c)) := by
  unfold innerPolicy
  cases nc.inner c with
  | none => exact Closed.triv _
  | some fk =>
    obtain ⟨fam, k⟩ := fk
    exact Closed.imp _ (fun _ => C20.f20_closed _ _)

theorem proj20_init (nc : NCase) : Proj (QO20 nc) (fun c => QI20 (nc.inner c)) (init nc) := by
  refine ⟨fun hf => C20.f20_init nc.outer hf nc.mode nc.n _, ?_⟩
  intro c
  simp only [init, innerInit]
  cases nc.inner c with
  | none => trivial
  | some fk =>
    obtain ⟨fam, k⟩ := fk
    intro hf
    exact C20.f20_init fam hf nc.mode k _

/-- the C20 invariant of every concurrently evaluating instance, in every reachable state -/
theorem proj20_prefix (nc : NCase) (k : Nat) :
    Proj (QO20 nc) (fun c => QI20 (nc.inner c)) ((nc.ops.take k).foldl (step nc) (init nc)) :=
  proj_foldl (closed_o20 nc) (ScriptFree.imp _ (C20.f20_scriptFree _ _)) (closed_i20 nc)
    _ _ (proj20_init nc)

/-! ### the executable statements -/

/-- C20 of a nest at an operation boundary:
    * the flat monitor on the own trace of every concurrently evaluating instance;
    * a concurrently evaluating inner instance whose nested child is WAITING (its latest answer to
      the outer instance was Pending) has polled every leaf at least once;
    * a concurrently evaluating outer instance whose latest answer was Pending has polled every
      child — plain or nested — at least once. -/
def c20At (nc : NCase) (s : St) : Bool :=
  let to := s.out.w.trace
  (!nc.outer.isConc ||
    (holds_C20 true nc.n to &&
     (!(lastOut to == some .pending) || (List.range nc.n).all (fun c => everPolled to c)))) &&
  (List.range nc.n).all (fun c =>
    match nc.inner c with
    | none => true
    | some (fam, k) =>
      let ti := (s.inn c).w.trace
      !fam.isConc ||
        (holds_C20 true k ti &&
         (!(lastRes to c == some .pend) || (List.range k).all (fun g => everPolled ti g))))

/-- `c20At` at every operation boundary of the history -/
def holdsC20Nest (nc : NCase) : Bool :=
  (List.range (nc.ops.length + 1)).all (fun k =>
    c20At nc ((nc.ops.take k).foldl (step nc) (init nc)))

/-- NAIVE version 1 (false): whenever the nest's latest answer is Pending, every leaf of every live
    (neither released nor finished) concurrently evaluating inner instance has been polled -/
def c20Naive (nc : NCase) (s : St) : Bool :=
  let to := s.out.w.trace
  !(alive to && lastOut to == some .pending) ||
  (List.range nc.n).all (fun c =>
    match nc.inner c with
    | none => true
    | some (fam, k) =>
      !fam.isConc || gone to c || finished to c ||
        (List.range k).all (fun g => everPolled (s.inn c).w.trace g))

/-- NAIVE version 2 (false): … every such inner instance that has been polled at least once -/
def c20NaivePolled (nc : NCase) (s : St) : Bool :=
  let to := s.out.w.trace
  !(alive to && lastOut to == some .pending) ||
  (List.range nc.n).all (fun c =>
    match nc.inner c with
    | none => true
    | some (fam, k) =>
      !fam.isConc || gone to c || finished to c || !everPolled to c ||
        (List.range k).all (fun g => everPolled (s.inn c).w.trace g))

end Nest
end Fc
