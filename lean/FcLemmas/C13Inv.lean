/-
  FcLemmas/C13Inv.lean — the invariant relating the acceptor state `run c t` to the observations
  of the trace `t`, and its preservation by every atomic action of `Co.step`.
-/
import FcLemmas.C13Obs

set_option linter.unusedSimpArgs false
set_option linter.unusedVariables false

namespace Fc
namespace CoC13
open Co

/-- what the trace says about an in-flight member: the stages before its own are done, its own
    stage was called iff it has a running future (and that future is the one the call returned),
    no later stage was called -/
def MemOk (t : List CoEv) (m : Member) : Prop :=
  (∀ st, st < m.stage → stageDone t st m.j = true) ∧
  (∀ st, m.stage < st → calls t st m.j = 0) ∧
  (m.cur = none → calls t m.stage m.j = 0) ∧
  (∀ k, m.cur = some k → calls t m.stage m.j = 1 ∧ futOf t m.stage m.j = some k)

structure Inv (c : Cfg) (s : St) (t : List CoEv) : Prop where
  taken : s.taken = takenItems t
  topNd : s.inTop = true → s.dropped = false
  drain : s.ctrl = .flushing → drained c t = true
  memLt : ∀ m ∈ s.members, m.j < s.taken
  sendI : ∀ j, s.ctrl = .sending j →
            j < s.taken ∧ (∀ m ∈ s.members, m.j ≠ j) ∧ ∀ st, calls t st j = 0
  fresh : ∀ j, s.taken ≤ j → ∀ st, calls t st j = 0
  uniq  : ∀ m1 ∈ s.members, ∀ m2 ∈ s.members, m1.j = m2.j → m1 = m2
  memE  : ∀ m ∈ s.members, MemOk t m
  tri   : running s.ctrl = true → s.dropped = false → ∀ j, j < s.taken →
            (∃ m ∈ s.members, m.j = j) ∨ s.ctrl = .sending j ∨
              ∀ st, st < c.stages → stageDone t st j = true
  liveB : ∀ k ∈ created t, droppedW t k = false → k ∈ s.live
  liveA : c.hasTermClosure = true → ∀ k ∈ s.live, resultOf t k = none →
            ∃ m ∈ s.members, m.cur = some k
  ndC   : ((created t).filter (fun k => !droppedW t k)).Nodup
  cnt   : c.hasTermClosure = true →
            s.members.length ≤ s.count ∧ ∀ l, c.limit = some l → s.count ≤ l

theorem Inv.init (c : Cfg) : Inv c (Co.init c) [] := by
  refine ⟨rfl, ?_, ?_, ?_, ?_, ?_, ?_, ?_, ?_, ?_, ?_, ?_, ?_⟩ <;>
    simp [Co.init, calls, created, drained, srcEnded, takenItems]
  · intro hz
    simp only [Cfg.takeZero, Cfg.breakAt, List.any_eq_true] at hz ⊢
    obtain ⟨n, hn, hn0⟩ := hz
    exact ⟨n, hn, by simpa using hn0⟩
  · intro j h; split at h <;> cases h

/-! ### a quiet event is appended, the state stays -/

theorem MemOk.quiet {t : List CoEv} {m : Member} (h : MemOk t m) (e : CoEv) (hq : quiet e = true) :
    MemOk (e :: t) m := by
  unfold MemOk at *
  simp only [stageDone_quiet e t hq, calls_quiet e t hq, futOf_quiet e t hq]
  exact h

theorem Inv.quiet {c : Cfg} {s : St} {t : List CoEv} (h : Inv c s t) (e : CoEv)
    (hq : quiet e = true) : Inv c s (e :: t) where
  taken := by rw [takenItems_quiet e t hq]; exact h.taken
  topNd := h.topNd
  drain := fun hf => drained_quiet c e t hq (h.drain hf)
  memLt := h.memLt
  sendI := by simpa only [calls_quiet e t hq] using h.sendI
  fresh := by simpa only [calls_quiet e t hq] using h.fresh
  uniq := h.uniq
  memE := fun m hm => (h.memE m hm).quiet e hq
  tri := by simpa only [stageDone_quiet e t hq] using h.tri
  liveB := by simpa only [created_quiet e t hq, droppedW_quiet e t hq] using h.liveB
  liveA := by simpa only [resultOf_quiet e t hq] using h.liveA
  ndC := by simpa only [created_quiet e t hq, droppedW_quiet e t hq] using h.ndC
  cnt := h.cnt

/-! ### the state changes in control / top / dropped only -/

theorem Inv.frame {c : Cfg} {s : St} {t : List CoEv} (h : Inv c s t) (s' : St)
    (htk : s'.taken = s.taken) (hlv : s'.live = s.live) (hct : s'.count = s.count)
    (hm : s'.members = s.members ∨
      (s'.members = [] ∧ running s'.ctrl = false ∧ c.hasTermClosure = false))
    (htop : s'.inTop = true → s'.dropped = false)
    (hdr : s'.dropped = false → s.dropped = false)
    (hfl : s'.ctrl = .flushing → drained c t = true)
    (hsd : ∀ j, s'.ctrl = .sending j → s.ctrl = .sending j)
    (hrun : running s'.ctrl = true →
      running s.ctrl = true ∧ ∀ j, s.ctrl = .sending j → s'.ctrl = .sending j) :
    Inv c s' t := by
  rcases hm with hm | ⟨hm, hr, hc⟩
  · exact {
      taken := by rw [htk]; exact h.taken
      topNd := htop
      drain := hfl
      memLt := by rw [hm, htk]; exact h.memLt
      sendI := by
        intro j hj
        rw [hm, htk]
        exact h.sendI j (hsd j hj)
      fresh := by rw [htk]; exact h.fresh
      uniq := by rw [hm]; exact h.uniq
      memE := by rw [hm]; exact h.memE
      tri := by
        intro hr hd j hj
        rw [hm]
        rcases h.tri (hrun hr).1 (hdr hd) j (htk ▸ hj) with h1 | h1 | h1
        · exact Or.inl h1
        · exact Or.inr (Or.inl ((hrun hr).2 j h1))
        · exact Or.inr (Or.inr h1)
      liveB := by rw [hlv]; exact h.liveB
      liveA := by rw [hlv, hm]; exact h.liveA
      ndC := h.ndC
      cnt := by rw [hm, hct]; exact h.cnt }
  · exact {
      taken := by rw [htk]; exact h.taken
      topNd := htop
      drain := hfl
      memLt := by simp [hm]
      sendI := by
        intro j hj
        rw [hj] at hr
        simp [running] at hr
      fresh := by rw [htk]; exact h.fresh
      uniq := by simp [hm]
      memE := by simp [hm]
      tri := by
        intro hr'
        rw [hr] at hr'
        cases hr'
      liveB := by rw [hlv]; exact h.liveB
      liveA := by
        intro hc'
        rw [hc] at hc'
        cases hc'
      ndC := h.ndC
      cnt := by
        intro hc'
        rw [hc] at hc'
        cases hc' }

/-! ### the source hands over an item: `taken + 1`, the item waits in `send` -/

theorem Inv.take_send {c : Cfg} {s : St} {t : List CoEv} (h : Inv c s t) (hl : s.ctrl = .loop)
    (v : Nat) :
    Inv c { s with taken := s.taken + 1, ctrl := .sending s.taken } (.src (.item v) :: t) where
  taken := by simp [takenItems, h.taken]
  topNd := h.topNd
  drain := by simp
  memLt := fun m hm => Nat.lt_succ_of_lt (h.memLt m hm)
  sendI := by
    intro j hj
    simp only [Ctrl.sending.injEq] at hj
    subst hj
    refine ⟨Nat.lt_succ_self _, ?_, ?_⟩
    · intro m hm
      exact Nat.ne_of_lt (h.memLt m hm)
    · intro st
      simp only [calls]
      exact h.fresh _ (Nat.le_refl _) st
  fresh := by
    intro j hj st
    simp only [calls]
    exact h.fresh j (Nat.le_of_succ_le hj) st
  uniq := h.uniq
  memE := by
    intro m hm
    have := h.memE m hm
    unfold MemOk at *
    simpa only [stageDone_srcItem, calls, futOf] using this
  tri := by
    intro _ hd j hj
    simp only at hd hj ⊢
    by_cases hjt : j = s.taken
    · exact Or.inr (Or.inl (by rw [hjt]))
    · have hj' : j < s.taken := by omega
      rcases h.tri (by simp [hl, running]) hd j hj' with h1 | h1 | h1
      · exact Or.inl h1
      · rw [hl] at h1; cases h1
      · exact Or.inr (Or.inr (by simpa only [stageDone_srcItem] using h1))
  liveB := by simpa only [created, droppedW] using h.liveB
  liveA := by simpa only [resultOf] using h.liveA
  ndC := by simpa only [created, droppedW] using h.ndC
  cnt := h.cnt

/-! ### the waiting item is pushed into the bag -/

theorem Inv.push_sending {c : Cfg} {s : St} {t : List CoEv} (h : Inv c s t) (j : Nat)
    (hs : s.ctrl = .sending j) (hu : underLimit c s.count = true) : Inv c (push c s j) t := by
  obtain ⟨hj, hne, hcalls⟩ := h.sendI j hs
  exact {
    taken := h.taken
    topNd := h.topNd
    drain := by
      simp only [push]
      intro hf
      split at hf
      · rename_i hb
        simp [drained, ← h.taken, hb]
      · cases hf
    memLt := by
      intro m hm
      simp only [push, List.mem_append, List.mem_singleton] at hm ⊢
      rcases hm with hm | rfl
      · exact h.memLt m hm
      · exact hj
    sendI := by
      intro j' hj'
      simp only [push] at hj'
      split at hj' <;> cases hj'
    fresh := h.fresh
    uniq := by
      intro m1 hm1 m2 hm2 he
      simp only [push, List.mem_append, List.mem_singleton] at hm1 hm2
      rcases hm1 with hm1 | rfl <;> rcases hm2 with hm2 | rfl
      · exact h.uniq m1 hm1 m2 hm2 he
      · exact absurd he (hne m1 hm1)
      · exact absurd he.symm (hne m2 hm2)
      · rfl
    memE := by
      intro m hm
      simp only [push, List.mem_append, List.mem_singleton] at hm
      rcases hm with hm | rfl
      · exact h.memE m hm
      · refine ⟨?_, ?_, ?_, ?_⟩
        · intro st hst; simp at hst
        · intro st _; exact hcalls st
        · intro _; exact hcalls 0
        · intro k hk; simp at hk
    tri := by
      intro _ hd j' hj'
      simp only [push] at hd hj' ⊢
      rcases h.tri (by simp [hs, running]) hd j' hj' with ⟨m, hm, hmj⟩ | h1 | h1
      · exact Or.inl ⟨m, by simp [hm], hmj⟩
      · rw [hs] at h1
        simp only [Ctrl.sending.injEq] at h1
        subst h1
        exact Or.inl ⟨⟨j, 0, none⟩, by simp, rfl⟩
      · exact Or.inr (Or.inr h1)
    liveB := h.liveB
    liveA := by
      intro hc k hk hr
      obtain ⟨m, hm, hmc⟩ := h.liveA hc k hk hr
      exact ⟨m, by simp [push, hm], hmc⟩
    ndC := h.ndC
    cnt := by
      intro hc
      obtain ⟨h1, h2⟩ := h.cnt hc
      simp only [push, hc, if_true, List.length_append, List.length_singleton]
      refine ⟨by omega, ?_⟩
      intro l hl
      simp only [underLimit, hl, decide_eq_true_eq] at hu
      omega }

end CoC13
end Fc
