/-
  FcLemmas/KTieTryJoinVDEnv.lean — no_std / alloc-only flavour of `Vec<Fut>::try_join()`: the environment side.  The
  translated code polls a child with the stored parent waker (`Wk.par p`) and the wake function `fun _ r => some (r, [], ())`
  (no sub-wakers exist) over the flag-less readiness set; read through `TieDir.absV` this is `World.pollChild` of the
  model in `direct` mode.  The readiness fields of the environment (`cap`, `bits`, `count`) are never touched (`Fr`).
-/
import FcProps.KTieTryJoinDir
import FcLemmas.World
import FcLemmas.KTieMergeEnv

set_option linter.unusedSimpArgs false
set_option linter.unusedVariables false

namespace Fc
open Rs Src

namespace TieTryJoinVD

/-- the wake function the no_std flavour passes to its children's polls -/
abbrev wakeD : Nat → DirVec.ReadinessVec → Option (DirVec.ReadinessVec × List Nat × Unit) :=
  fun _ r => some (r, [], ())

/-- the readiness fields of the environment are those of `b` (they are read through `TieDir.absV`, the flavour has no
    flags to change) -/
def Fr (a b : World) : Prop := a.cap = b.cap ∧ a.bits = b.bits ∧ a.count = b.count

theorem Fr.refl (a : World) : Fr a a := ⟨rfl, rfl, rfl⟩

theorem Fr.trans {a b c : World} (h1 : Fr a b) (h2 : Fr b c) : Fr a c :=
  ⟨h1.1.trans h2.1, h1.2.1.trans h2.2.1, h1.2.2.trans h2.2.2⟩

@[simp] theorem absV_scripts (r : DirVec.ReadinessVec) (b : World) : (TieDir.absV r b).scripts = b.scripts := rfl
@[simp] theorem absV_handed (r : DirVec.ReadinessVec) (b : World) : (TieDir.absV r b).handed = b.handed := rfl
@[simp] theorem absV_trace (r : DirVec.ReadinessVec) (b : World) : (TieDir.absV r b).trace = b.trace := rfl
@[simp] theorem absV_mode (r : DirVec.ReadinessVec) (b : World) : (TieDir.absV r b).mode = .direct := rfl
@[simp] theorem absV_parent (r : DirVec.ReadinessVec) (b : World) : (TieDir.absV r b).parent = r.roleParent := rfl
theorem absV_emit (r : DirVec.ReadinessVec) (b : World) (e : Ev) :
    TieDir.absV r (b.emit e) = (TieDir.absV r b).emit e := rfl
@[simp] theorem absV_stepOf (r : DirVec.ReadinessVec) (b : World) (c : Nat) :
    (TieDir.absV r b).stepOf c = b.stepOf c := rfl
@[simp] theorem absV_resOf (r : DirVec.ReadinessVec) (b : World) (c : Nat) :
    (TieDir.absV r b).resOf c = b.resOf c := rfl
@[simp] theorem absV_isSet (r : DirVec.ReadinessVec) (b : World) (i : Nat) : (TieDir.absV r b).isSet i = true := rfl
@[simp] theorem absV_clearReady (r : DirVec.ReadinessVec) (b : World) (i : Nat) :
    (TieDir.absV r b).clearReady i = TieDir.absV r b := rfl
@[simp] theorem absV_anyReady (r : DirVec.ReadinessVec) (b : World) : (TieDir.absV r b).anyReady = true := rfl

theorem fire_tieD (r : DirVec.ReadinessVec) (env : World) (c a : Nat) :
    ∃ env', Rs.fire wakeD r env c a = some (r, env') ∧
      TieDir.absV r env' = (TieDir.absV r env).fire c a ∧ Fr env' env ∧
      env'.scripts = env.scripts ∧ env'.handed = env.handed := by
  unfold Rs.fire World.fire
  rw [absV_handed]
  cases h : (env.handed c)[a]? with
  | none => exact ⟨_, rfl, rfl, Fr.refl _, rfl, rfl⟩
  | some wk =>
    cases wk with
    | par p => exact ⟨_, rfl, rfl, Fr.refl _, rfl, rfl⟩
    | sub i => exact ⟨_, rfl, rfl, Fr.refl _, rfl, rfl⟩

theorem fires_tieD (r : DirVec.ReadinessVec) (l : List (Nat × Nat)) : ∀ env : World,
    ∃ env', Rs.fires wakeD r env l = some (r, env') ∧
      TieDir.absV r env' = (TieDir.absV r env).fires l ∧ Fr env' env ∧
      env'.scripts = env.scripts ∧ env'.handed = env.handed := by
  induction l with
  | nil => intro env; exact ⟨env, rfl, rfl, Fr.refl _, rfl, rfl⟩
  | cons p l ih =>
    intro env
    obtain ⟨e1, h1, h2, h3, h4, h5⟩ := fire_tieD r env p.1 p.2
    obtain ⟨e2, k1, k2, k3, k4, k5⟩ := ih e1
    refine ⟨e2, ?_, ?_, k3.trans h3, k4.trans h4, k5.trans h5⟩
    · simp only [Rs.fires, h1, k1]
    · rw [k2, h2, World.fires_cons]

/-- one poll of child `c` with the stored parent waker -/
theorem pollChild_tieD (r : DirVec.ReadinessVec) (env : World) (c p : Nat) (hp : r.roleParent = some p) :
    ∃ env', Rs.pollChild wakeD r env c (.par p) = some (r, env', env.resOf c) ∧
      TieDir.absV r env' = (TieDir.absV r env).pollChild c c ∧ Fr env' env ∧
      env'.scripts = upd env.scripts c (env.scripts c).tail ∧
      env'.handed = upd env.handed c (Wk.par p :: env.handed c) := by
  have hw : (TieDir.absV r env).wakerFor c = .par p := by
    simp [World.wakerFor, hp]
  obtain ⟨e1, h1, h2, h3, h4, h5⟩ := fires_tieD r (env.stepOf c).fires
    { env with scripts := upd env.scripts c (env.scripts c).tail,
               handed := upd env.handed c (Wk.par p :: env.handed c),
               trace := Ev.childBegin c (slotOf (Wk.par p) c) (Wk.par p) :: env.trace }
  refine ⟨e1.emit (.childEnd c (env.resOf c)), ?_, ?_, ?_, ?_, ?_⟩
  · unfold Rs.pollChild
    rw [h1]
  · unfold World.pollChild
    rw [hw, absV_emit, h2]
    rfl
  · exact h3
  · exact h4
  · exact h5

/-- `Future::poll` of a scripted future whose output is a `Result`, in the three cases a future can answer -/
theorem pollResFut_tieD (r : DirVec.ReadinessVec) (env : World) (c p : Nat) (hp : r.roleParent = some p) :
    ∃ env', TieDir.absV r env' = (TieDir.absV r env).pollChild c c ∧ Fr env' env ∧
      env'.scripts = upd env.scripts c (env.scripts c).tail ∧
      env'.handed = upd env.handed c (Wk.par p :: env.handed c) ∧
      (env.resOf c = .pend → Rs.pollResFut wakeD r env c (.par p) = some (r, env', .pending)) ∧
      (∀ v, env.resOf c = .ready true v → Rs.pollResFut wakeD r env c (.par p) = some (r, env', .ready (.ok v))) ∧
      (∀ v, env.resOf c = .ready false v → Rs.pollResFut wakeD r env c (.par p) = some (r, env', .ready (.err v))) := by
  obtain ⟨e1, h1, h2, h3, h4, h5⟩ := pollChild_tieD r env c p hp
  refine ⟨e1, h2, h3, h4, h5, ?_, ?_, ?_⟩
  · intro h; simp [Rs.pollResFut, h1, h]
  · intro v h; simp [Rs.pollResFut, h1, h]
  · intro v h; simp [Rs.pollResFut, h1, h]

/-- the children are only ever handed the caller's own waker: no new sub-waker appears -/
theorem handedIn_par {n : Nat} {env env' : World} {c p : Nat} (h : HandedIn n env)
    (hh : env'.handed = upd env.handed c (Wk.par p :: env.handed c)) : HandedIn n env' := by
  intro c' j hm
  rw [hh] at hm
  by_cases hc : c' = c
  · subst hc
    simp at hm
    exact h c' j hm
  · simp [upd, hc] at hm
    exact h c' j hm

/-- `WakerVec::get` of the flavour: the stored parent waker -/
theorem get_tieD (wk : WakerVecD) (i p : Nat) (h : wk.readiness.roleParent = some p) :
    WakerVecD.get wk i = some (.par p) := by
  have := (TieDir.vec_tie wk.readiness (World.init .direct 0 (fun _ => [])) 0 0 0).2.2.2.2.2.2.2.2.2.1
  simp only [WakerVecD.get, this, absV_parent, h, Option.bind_eq_bind, Option.bind_some, Option.map_some]

end TieTryJoinVD
end Fc
