/-
  FcLemmas/LiveStuckStr.lean — the concurrently evaluating stream combinators under the wake-only
  executor when every input is EITHER a well-behaved stream (`streamScript`) OR never completes
  (`Exec.pendScript`: it never yields, never ends).

  This is FcLemmas/Live3Obs.lean + Live3Loop.lean + Live3Run.lean with the per-input clause weakened
  (`StrN`), the progress bookkeeping adjusted as in FcLemmas/LiveStuckFut.lean (a polled input has
  consumed a step only if it had one; the task waker is only invoked after a step was consumed;
  a poll that yields has consumed a step), and one new World-aware clause: the items an input has
  produced so far followed by the items of its remaining script are the items of its original script
  (`WInvSN.it`) — so "no step left" means "every scripted item has been produced", and C08
  (`yielded = items`) turns that into "has been yielded".

  The readiness-bit invariant `Live3.IB` / `Live3.BIB` and its loop lemma `Live3.ib_visit` are reused
  unchanged (they never looked at the scripts).  Two facts about the policy are needed in addition to
  `Live3.StreamLike` (`StuckLike`): a `Pending` answer never makes the poll return, and a slot that
  is switched off belongs to an input that has ended.  merge satisfies both; zip does NOT satisfy the
  second one (a slot is also switched off while its item for the current row is buffered) — which
  is exactly why the property excludes zip (FcProps/C20live.lean has the counterexample).
-/
import FcLemmas.LiveStuckFut
import FcLemmas.Live3Inst
set_option linter.unusedSimpArgs false
set_option linter.unusedVariables false

namespace Fc

/-- a stream input that is either well-behaved (`streamScript`) or never completes -/
def Exec.strOrNever (s : List Step) : Bool := streamScript s || Exec.pendScript s

namespace LiveStuck
open Mon Live Live3

/-! ### items: what an input produced, what its script holds -/

/-- the items input `c` produced so far, newest first -/
def itemsOf (c : Nat) : List Ev → List Nat
  | [] => []
  | .childEnd c' (.item v) :: t => if c' = c then v :: itemsOf c t else itemsOf c t
  | _ :: t => itemsOf c t

/-- the items a result contributes -/
def resItems : Res → List Nat
  | .item v => [v]
  | _ => []

theorem itemsOf_fires (c : Nat) (l t : List Ev) (hl : ∀ e ∈ l, isFireEv e = true) :
    itemsOf c (l ++ t) = itemsOf c t :=
  skip_seg (itemsOf c) isFireEv (fun e t h => by cases e <;> simp_all [isFireEv, itemsOf]) l hl t

theorem itemsOf_pollChild (w : World) (c s j : Nat) :
    itemsOf j (w.pollChild c s).trace
      = (if c = j then resItems (w.resOf c) else []) ++ itemsOf j w.trace := by
  obtain ⟨l, hl, hp⟩ := World.pollChild_seg w c s
  rw [hl]
  have h : itemsOf j (l ++ .childBegin c s (w.wakerFor s) :: w.trace) = itemsOf j w.trace := by
    rw [itemsOf_fires _ _ _ hp]; simp [itemsOf]
  by_cases hcj : c = j
  · subst hcj
    cases hr : w.resOf c <;> simp [itemsOf, resItems, h]
  · cases hr : w.resOf c <;> simp [itemsOf, resItems, h, hcj]

theorem scriptItems_step (w : World) (i : Nat) :
    Exec.scriptItems (w.scripts i) = resItems (w.resOf i) ++ Exec.scriptItems (w.scripts i).tail := by
  unfold World.resOf World.stepOf
  cases hs : w.scripts i with
  | nil => simp [Exec.scriptItems, resItems]
  | cons s rest =>
    simp only [List.tail_cons]
    cases hr : s.res <;> simp [Exec.scriptItems, resItems, hr]

/-- the items of one input form a subsequence of all items -/
theorem itemsOf_sublist (c : Nat) : ∀ t : List Ev, (itemsOf c t).Sublist (items t) := by
  intro t
  induction t with
  | nil => exact List.Sublist.slnil
  | cons e t ih =>
    cases e with
    | childEnd c' r =>
      cases r with
      | item v =>
        simp only [itemsOf, items]
        split
        · exact ih.cons₂ v
        · exact ih.cons v
      | _ => simpa [itemsOf, items] using ih
    | _ => simpa [itemsOf, items] using ih

theorem resOf_nil (w : World) (i : Nat) (h : w.scripts i = []) : w.resOf i = .pend := by
  simp [World.resOf, World.stepOf, h]

/-! ### the World-aware invariant -/

def StrN (K : Nat → Bool) (w : World) (c : Nat) : Prop :=
  (K c = true ∧ streamScript (w.scripts c) = true ∧ Act (lastRes w.trace c) ∧ gone w.trace c = false)
  ∨ (K c = true ∧ lastRes w.trace c = some .fin ∧ w.scripts c = [])
  ∨ (K c = false ∧ Exec.pendScript (w.scripts c) = true ∧
      (lastRes w.trace c = none ∨ lastRes w.trace c = some .pend) ∧ gone w.trace c = false)

structure WInvSN (K : Nat → Bool) (sc0 : Nat → List Step) (n : Nat) (w : World) : Prop where
  str : ∀ c, c < n → StrN K w c
  hw  : ∀ c, (w.handed c).head? = lastWk w.trace c
  lw  : ∀ c, lastRes w.trace c ≠ none → lastWk w.trace c ≠ none
  ep  : ∀ c, everPolled w.trace c = true → lastRes w.trace c ≠ none
  /-- produced so far ++ still scripted = scripted originally -/
  it  : ∀ c, (itemsOf c w.trace).reverse ++ Exec.scriptItems (w.scripts c) = Exec.scriptItems (sc0 c)

structure PInvSN (K : Nat → Bool) (sc0 : Nat → List Step) (n : Nat) (len0 : Nat → Nat)
    (t0 : List Ev) (w : World) : Prop where
  wi : WInvSN K sc0 n w
  le : ∀ c, (w.scripts c).length ≤ len0 c
  ps : ∀ c, polledSince w.trace c = true → c < n ∧ (len0 c ≠ 0 → (w.scripts c).length < len0 c)
  wk : wokeSince w.trace = true → ∃ c, c < n ∧ (w.scripts c).length < len0 c
  ab : atPollBegin w.trace = t0
  sp : spent false w.trace = false
  pn : panicSince w.trace = false

variable {K : Nat → Bool} {sc0 : Nat → List Step}

theorem strn_act {w : World} {c : Nat} (h : StrN K w c) (hun : lastRes w.trace c ≠ some .fin) :
    Act (lastRes w.trace c) := by
  rcases h with ⟨_, _, ha, _⟩ | ⟨_, hf, _⟩ | ⟨_, _, hl, _⟩
  · exact ha
  · exact absurd hf hun
  · rcases hl with hl | hl
    · exact Or.inl hl
    · exact Or.inr (Or.inl hl)

theorem strn_kind {w : World} {c : Nat} (h : StrN K w c) (hun : lastRes w.trace c ≠ some .fin) :
    w.resOf c = .pend ∨ (∃ v, w.resOf c = .item v) ∨ w.resOf c = .fin := by
  rcases h with ⟨_, hs, _, _⟩ | ⟨_, hf, _⟩ | ⟨_, hp, _, _⟩
  · rcases str_resOf w c hs with ⟨_, hr⟩ | ⟨_, hr | hr, _⟩
    · exact Or.inr (Or.inr hr)
    · exact Or.inl hr
    · exact Or.inr (Or.inl hr)
  · exact absurd hf hun
  · exact Or.inl (never_resOf w c hp).1

/-- one child poll -/
theorem pinvsn_pollChild {n : Nat} {len0 : Nat → Nat} {t0 : List Ev} (w : World) (i : Nat)
    (hi : i < n) (h : PInvSN K sc0 n len0 t0 w) (hun : lastRes w.trace i ≠ some .fin) :
    (w.resOf i = .pend ∨ (∃ v, w.resOf i = .item v) ∨ w.resOf i = .fin) ∧
      PInvSN K sc0 n len0 t0 (w.pollChild i i) := by
  have hkind := strn_kind (h.wi.str i hi) hun
  have hnp : w.resOf i ≠ .panic := by
    rcases hkind with hr | ⟨v, hr⟩ | hr <;> rw [hr] <;> simp
  have hlen : (w.scripts i).tail.length ≤ (w.scripts i).length := by simp
  have hlt : w.scripts i ≠ [] → (w.scripts i).tail.length < (w.scripts i).length := by
    intro hne
    cases hs : w.scripts i with
    | nil => exact absurd hs hne
    | cons s rest => simp
  -- observations of the new world
  have hS : ∀ c, (w.pollChild i i).scripts c
      = if c = i then (w.scripts i).tail else w.scripts c := by
    intro c
    rw [pollChild_scripts]
    by_cases hci : c = i
    · subst hci; simp
    · simp [upd_other _ _ _ _ hci, hci]
  have hLR : ∀ c, lastRes (w.pollChild i i).trace c
      = if i = c then some (w.resOf i) else lastRes w.trace c := by
    intro c; rw [C16.lastRes_pollChild]
  have hLW : ∀ c, lastWk (w.pollChild i i).trace c
      = if i = c then some (w.wakerFor i) else lastWk w.trace c := by
    intro c; rw [lastWk_pollChild]
  have hEP : ∀ c, everPolled (w.pollChild i i).trace c
      = (decide (i = c) || everPolled w.trace c) := by
    intro c; rw [everPolled_pollChild]
  have hPS : ∀ c, polledSince (w.pollChild i i).trace c
      = (decide (i = c) || polledSince w.trace c) := by
    intro c; rw [polledSince_pollChild]
  have hG : ∀ c, gone (w.pollChild i i).trace c = gone w.trace c := by
    intro c; rw [gone_pollChild]
  have hLenLe : ∀ c, ((w.pollChild i i).scripts c).length ≤ (w.scripts c).length := by
    intro c
    rw [hS]
    by_cases hci : c = i
    · subst hci; simpa using hlen
    · simp only [hci, if_false]; exact Nat.le_refl _
  refine ⟨hkind, ⟨⟨?_, ?_, ?_, ?_, ?_⟩, ?_, ?_, ?_, ?_, ?_, ?_⟩⟩
  · -- StrN
    intro c hc
    by_cases hci : c = i
    · subst hci
      rcases h.wi.str c hc with ⟨hk, hs, _, hg⟩ | ⟨_, hf, _⟩ | ⟨hk, hp, _, hg⟩
      · rcases str_resOf w c hs with ⟨htl, hr⟩ | ⟨_, hr, hf⟩
        · right; left
          exact ⟨hk, by rw [hLR, hr]; simp, by rw [hS]; simpa using htl⟩
        · left
          refine ⟨hk, by rw [hS]; simpa using hf, ?_, by rw [hG]; exact hg⟩
          rw [hLR]
          simp only [if_true]
          rcases hr with hr | ⟨v, hr⟩
          · exact Or.inr (Or.inl (by rw [hr]))
          · exact Or.inr (Or.inr ⟨v, by rw [hr]⟩)
      · exact absurd hf hun
      · obtain ⟨hr, hp'⟩ := never_resOf w c hp
        right; right
        exact ⟨hk, by rw [hS]; simpa using hp', Or.inr (by rw [hLR, hr]; simp),
          by rw [hG]; exact hg⟩
    · have hic : ¬ i = c := fun hh => hci hh.symm
      unfold StrN
      rw [hS, hLR, hG]
      simp only [hci, hic, if_false]
      exact h.wi.str c hc
  · -- handed / lastWk
    intro c
    rw [hLW, pollChild_handed]
    by_cases hic : i = c
    · subst hic; simp
    · have hci : c ≠ i := fun hh => hic hh.symm
      simp only [hic, if_false, upd_other _ _ _ _ hci]
      exact h.wi.hw c
  · intro c hc
    rw [hLR] at hc
    rw [hLW]
    by_cases hic : i = c
    · simp [hic]
    · simp only [hic, if_false] at hc ⊢
      exact h.wi.lw c hc
  · intro c hc
    rw [hEP] at hc
    rw [hLR]
    by_cases hic : i = c
    · simp [hic]
    · simp only [hic, decide_false, Bool.false_or, if_false] at hc ⊢
      exact h.wi.ep c hc
  · -- items
    intro c
    rw [itemsOf_pollChild, hS]
    by_cases hci : c = i
    · subst hci
      simp only [if_true]
      rw [← h.wi.it c, scriptItems_step w c]
      cases hr : w.resOf c <;> simp [resItems]
    · have hic : ¬ i = c := fun hh => hci hh.symm
      simp only [hci, hic, if_false, List.nil_append]
      exact h.wi.it c
  · -- no script grows
    intro c
    exact Nat.le_trans (hLenLe c) (h.le c)
  · -- a polled input that had a step has consumed one
    intro c hc
    rw [hPS] at hc
    by_cases hci : c = i
    · subst hci
      refine ⟨hi, fun h0 => ?_⟩
      rw [hS]; simp only [if_true]
      by_cases hne : w.scripts c = []
      · rw [hne]; simp; omega
      · have := hlt hne; have := h.le c; omega
    · have hic : ¬ i = c := fun hh => hci hh.symm
      simp only [hic, decide_false, Bool.false_or] at hc
      rw [hS]; simp only [hci, if_false]
      exact h.ps c hc
  · -- the task waker was only invoked after a step was consumed
    intro hwk
    by_cases hne : w.scripts i = []
    · have := wokeSince_pollChild_nil w i i [] hne (by simp)
      simp only [World.emits, List.reverse_nil, List.nil_append] at this
      rw [this] at hwk
      obtain ⟨c, hc, hl⟩ := h.wk hwk
      exact ⟨c, hc, Nat.lt_of_le_of_lt (hLenLe c) hl⟩
    · refine ⟨i, hi, ?_⟩
      rw [hS]; simp only [if_true]
      have := hlt hne; have := h.le i; omega
  · rw [atPollBegin_pollChild]; exact h.ab
  · have := spent_pollChild_emits w i i [] (by simp)
    simpa using this.trans h.sp
  · rw [panicSince_pollChild _ _ _ hnp]; exact h.pn

/-- `PInvSN` only looks at the scripts, the waker lists and the trace -/
theorem pinvsn_congr {n : Nat} {len0 : Nat → Nat} {t0 : List Ev} {w w' : World}
    (hs : w'.scripts = w.scripts) (hh : w'.handed = w.handed) (ht : w'.trace = w.trace)
    (h : PInvSN K sc0 n len0 t0 w) : PInvSN K sc0 n len0 t0 w' := by
  refine ⟨⟨?_, ?_, ?_, ?_, ?_⟩, ?_, ?_, ?_, ?_, ?_, ?_⟩
  · intro c hc; unfold StrN; rw [hs, ht]; exact h.wi.str c hc
  · intro c; rw [hh, ht]; exact h.wi.hw c
  · intro c; rw [ht]; exact h.wi.lw c
  · intro c; rw [ht]; exact h.wi.ep c
  · intro c; rw [hs, ht]; exact h.wi.it c
  · intro c; rw [hs]; exact h.le c
  · intro c; rw [hs, ht]; exact h.ps c
  · rw [hs, ht]; exact h.wk
  · rw [ht]; exact h.ab
  · rw [ht]; exact h.sp
  · rw [ht]; exact h.pn

/-- what is known right after a top-level poll -/
structure PEndSN (K : Nat → Bool) (sc0 : Nat → List Step) (n : Nat) (len0 : Nat → Nat)
    (t0 : List Ev) (w : World) : Prop where
  wi : WInvSN K sc0 n w
  le : ∀ c, (w.scripts c).length ≤ len0 c
  ps : ∀ c, polledSince w.trace c = true → c < n ∧ (len0 c ≠ 0 → (w.scripts c).length < len0 c)
  wk : wokeSince w.trace = true → ∃ c, c < n ∧ (w.scripts c).length < len0 c
  ab : atPollBegin w.trace = t0
  shape : ∃ o t, w.trace = .pollEnd o :: t ∧ spent false t = false ∧ panicSince t = false
  /-- a poll that yields has consumed a step -/
  sm : ∀ k vs, lastOut w.trace = some (.some k vs) → ∃ c, c < n ∧ (w.scripts c).length < len0 c

theorem pendsn_of_pinvsn {n : Nat} {len0 : Nat → Nat} {t0 : List Ev} {w : World}
    (h : PInvSN K sc0 n len0 t0 w) (o : Outcome)
    (hz : ∀ k vs, o = .some k vs → ∃ c, c < n ∧ (w.scripts c).length < len0 c) :
    PEndSN K sc0 n len0 t0 (w.emit (.pollEnd o)) := by
  refine ⟨⟨?_, ?_, ?_, ?_, ?_⟩, h.le, ?_, ?_, ?_, ⟨o, w.trace, rfl, h.sp, h.pn⟩, ?_⟩
  rotate_right
  · intro k vs hlo
    simp only [World.emit_trace, lastOut, Option.some.injEq] at hlo
    exact hz k vs hlo
  · intro c hc
    have := h.wi.str c hc
    unfold StrN at this ⊢
    simpa [lastRes, gone] using this
  · intro c; simpa [lastWk] using h.wi.hw c
  · intro c; simpa [lastRes, lastWk] using h.wi.lw c
  · intro c; simpa [lastRes, everPolled] using h.wi.ep c
  · intro c; simpa [itemsOf] using h.wi.it c
  · intro c; simpa [polledSince] using h.ps c
  · simpa [wokeSince, polledSince] using h.wk
  · simpa [atPollBegin] using h.ab

theorem pinvsn_begin {n : Nat} {w : World} (wid : Nat) (hw : WInvSN K sc0 n w)
    (hsp : spent false w.trace = false) :
    PInvSN K sc0 n (fun c => (w.scripts c).length) w.trace
      ((w.emit (.pollBegin wid)).setWaker wid) := by
  refine ⟨⟨?_, ?_, ?_, ?_, ?_⟩, fun c => Nat.le_refl _, ?_, ?_, rfl, ?_, rfl⟩
  · intro c hc
    have := hw.str c hc
    unfold StrN at this ⊢
    simpa [lastRes, gone] using this
  · intro c; simpa [lastWk] using hw.hw c
  · intro c; simpa [lastRes, lastWk] using hw.lw c
  · intro c; simpa [lastRes, everPolled] using hw.ep c
  · intro c; simpa [itemsOf] using hw.it c
  · intro c hc; simp [polledSince] at hc
  · intro hc; simp [wokeSince] at hc
  · simpa [spent, finalSeen, alive, panickedSeen] using hsp

/-- a wake-up between polls -/
theorem winvsn_fire {n : Nat} (w : World) (c a : Nat) (h : WInvSN K sc0 n w) :
    WInvSN K sc0 n (w.fire c a) := by
  obtain ⟨l, hl, hp⟩ := World.fire_seg w c a
  have hLR : ∀ j, lastRes (w.fire c a).trace j = lastRes w.trace j := C16.lastRes_fire w c a
  have hLW : ∀ j, lastWk (w.fire c a).trace j = lastWk w.trace j := by
    intro j; rw [hl]
    exact skip_seg (fun t => lastWk t j) isFireEv (fun e t h => lastWk_fireEv j e t h) l hp _
  refine ⟨?_, ?_, ?_, ?_, ?_⟩
  · intro j hj
    have := h.str j hj
    unfold StrN at this ⊢
    rw [hLR, World.fire_scripts]
    have hg : gone (w.fire c a).trace j = gone w.trace j := by rw [hl]; exact gone_fires l _ j hp
    rw [hg]; exact this
  · intro j; rw [hLW, World.fire_handed]; exact h.hw j
  · intro j; rw [hLR, hLW]; exact h.lw j
  · intro j; rw [hLR, everPolled_fire]; exact h.ep j
  · intro j; rw [hl, itemsOf_fires j l _ hp, World.fire_scripts]; exact h.it j

/-- prodding a waiting input: its wake-up is owed afterwards, hence (C01 `quiet`) the task has
    been woken -/
theorem fire_wokeN {n : Nat} (w : World) (c : Nat) (hwi : WInvSN K sc0 n w)
    (hq : quiet n (w.fire c 0).trace = true) (hsp : spent false w.trace = false)
    (hlo : lastOut w.trace = some .pending) (hc : c < n) (hlr : lastRes w.trace c = some .pend) :
    owes (w.fire c 0).trace c = true ∧ lastRes (w.fire c 0).trace c = some .pend ∧
      wokeSince (w.fire c 0).trace = true := by
  have hLR : lastRes (w.fire c 0).trace c = some .pend := by
    rw [C16.lastRes_fire]; exact hlr
  obtain ⟨wk, hwk⟩ : ∃ wk, lastWk w.trace c = some wk := by
    cases hh : lastWk w.trace c with
    | none => exact absurd hh (hwi.lw c (by rw [hlr]; simp))
    | some wk => exact ⟨wk, rfl⟩
  have hget : (w.handed c)[0]? = some wk := by
    rw [← List.head?_eq_getElem?, hwi.hw c, hwk]
  have howes : owes (w.fire c 0).trace c = true := by
    unfold World.fire
    rw [hget]
    simp only
    obtain ⟨l, hl, hp⟩ := World.fireWk_seg (w.emit (.fired c 0 (some wk))) wk
    rw [hl]
    refine owes_fires_mono c l _ hp ?_
    simp [owes, hwk]
  obtain ⟨l, hl, hp⟩ := World.fire_seg w c 0
  have hlo' : lastOut (w.fire c 0).trace = some .pending := by
    rw [C01.lastOut_fire]; exact hlo
  have halive : alive (w.fire c 0).trace = true := by
    rw [C01.alive_fire]
    simp only [spent, Bool.or_eq_false_iff, Bool.not_eq_false'] at hsp
    exact hsp.1.2
  have hgone : gone (w.fire c 0).trace c = false := by
    rw [hl, gone_fires l _ c hp]
    rcases hwi.str c hc with hf | ⟨_, hf, _⟩ | hf
    · exact hf.2.2.2
    · rw [hlr] at hf; cases hf
    · exact hf.2.2.2
  refine ⟨howes, hLR, ?_⟩
  simp only [quiet, halive, hlo', beq_self_eq_true, Bool.and_self, Bool.not_true, Bool.false_or,
    List.all_eq_true, List.mem_range] at hq
  have := hq c hc
  simpa [hLR, hgone, howes] using this

/-! ### through the poll skeleton -/

variable {P : Policy Fix}

/-- what the argument needs to know about the policy in addition to `Live3.StreamLike` -/
structure StuckLike (P : Policy Fix) (I : Nat → Fix → List Ev → Prop) : Prop where
  /-- a `Pending` answer never makes the poll return -/
  pe : ∀ s i, (P.handle s i .pend).exit = none
  /-- between polls of a live combinator, a slot that is switched off belongs to an input that
      has ended -/
  ne : ∀ n s t, I n s t → spent false t = false → ∀ c, c < n → P.eligible s c = false →
    lastRes t c = some .fin

theorem pinvsn_visit (L : Lawful P) (hevs : ∀ s i r, (P.handle s i r).evs = [])
    (hpe : ∀ s i, (P.handle s i .pend).exit = none)
    {n : Nat} {len0 : Nat → Nat} {t0 : List Ev} (e : Eng Fix) (i : Nat) (hi : i < n)
    (h : PInvSN K sc0 n len0 t0 e.w)
    (hun : P.eligible e.s i = true → lastRes e.w.trace i ≠ some .fin) :
    PInvSN K sc0 n len0 t0 (Eng.visit P e i).1.w ∧
    (∀ o, (Eng.visit P e i).2 = some o →
      o = .pending ∨ ∃ c, c < n ∧ ((Eng.visit P e i).1.w.scripts c).length < len0 c) := by
  have hg' : PInvSN K sc0 n len0 t0 (Eng.gateW P e i) :=
    pinvsn_congr (Sim.gateW_scripts' e i) (gateW_handed e i) (Sim.gateW_trace e i) h
  have hpoll : Eng.gateGo P e i = true →
      (e.w.resOf i = .pend ∨ (∃ v, e.w.resOf i = .item v) ∨ e.w.resOf i = .fin) ∧
      PInvSN K sc0 n len0 t0 ((Eng.gateW P e i).pollChild i i) := by
    intro hg
    have hel : P.eligible e.s i = true := by
      unfold Eng.gateGo at hg; simp only [Bool.and_eq_true] at hg; exact hg.1
    have := pinvsn_pollChild (Eng.gateW P e i) i hi hg' (by rw [Sim.gateW_trace]; exact hun hel)
    rw [Sim.gateW_resOf'] at this
    exact this
  refine Eng.visit_ind P e i (fun r => PInvSN K sc0 n len0 t0 r.1.w ∧
    (∀ o, r.2 = some o → o = .pending ∨ ∃ c, c < n ∧ (r.1.w.scripts c).length < len0 c)) ?_ ?_ ?_ ?_
  · intro hl ha
    exact ⟨h, fun o ho => Or.inl (by simpa using ho.symm)⟩
  · intro _ hg
    exact ⟨hg', fun o ho => by simp at ho⟩
  · intro _ hg hp
    rw [L.child_id] at hp
    rcases (hpoll hg).1 with h1 | ⟨v, h1⟩ | h1 <;> rw [h1] at hp <;> cases hp
  · intro _ hg hp
    rw [L.child_id] at hp ⊢
    obtain ⟨hkind, hpc⟩ := hpoll hg
    have htr : (Eng.applyH { e with w := (Eng.gateW P e i).pollChild i i }
        (P.handle e.s i (e.w.resOf i))).w.trace = ((Eng.gateW P e i).pollChild i i).trace := by
      simp [hevs]
    have hsc : (Eng.applyH { e with w := (Eng.gateW P e i).pollChild i i }
        (P.handle e.s i (e.w.resOf i))).w.scripts = ((Eng.gateW P e i).pollChild i i).scripts := by
      simp [kop_scripts, emits_scripts]
    refine ⟨pinvsn_congr hsc (by simp [kop_handed]) htr hpc, fun o ho => Or.inr ⟨i, hi, ?_⟩⟩
    -- the poll returns: the input did not answer `Pending`, so it had a step
    have hne : e.w.scripts i ≠ [] := by
      intro hnil
      have hr := resOf_nil e.w i hnil
      rw [hr, hpe] at ho
      cases ho
    rw [hsc, pollChild_scripts, Sim.gateW_scripts']
    simp only [upd_same]
    have h1 : (e.w.scripts i).tail.length < (e.w.scripts i).length := by
      cases hs : e.w.scripts i with
      | nil => exact absurd hs hne
      | cons s rest => simp
    have := h.le i
    omega

variable {I : Nat → Fix → List Ev → Prop} {J : Nat → Fix → List Ev → List Nat → Prop}

theorem pinvsn_scan (SL : StreamLike P I J) (hpe : ∀ s i, (P.handle s i .pend).exit = none)
    {m : Mode} {n : Nat} {len0 : Nat → Nat} {t0 : List Ev} :
    ∀ (l : List Nat) (e : Eng Fix) (V : Nat → Prop), e.w.mode = m → J n e.s e.w.trace l →
      PInvSN K sc0 n len0 t0 e.w → IB P n e V → (m = .std → C01.PInv P n e V) → P.pre e.s = none →
      PInvSN K sc0 n len0 t0 (Eng.scan P l e).1.w ∧
      ((Eng.scan P l e).2 = none → IB P n (Eng.scan P l e).1 (fun c => V c ∨ c ∈ l)) ∧
      ((Eng.scan P l e).2 = some .pending → PendAll P n (Eng.scan P l e).1) ∧
      (∀ o, (Eng.scan P l e).2 = some o → IB P n (Eng.scan P l e).1 (fun _ => False)) ∧
      (∀ o, (Eng.scan P l e).2 = some o →
        o = .pending ∨ ∃ c, c < n ∧ ((Eng.scan P l e).1.w.scripts c).length < len0 c) := by
  intro l
  induction l with
  | nil =>
    intro e V _ _ hp hib _ _
    exact ⟨hp, fun _ => ib_mono (fun c hc => by simpa using hc) hib, fun h => by simp [Eng.scan] at h,
      fun o ho => by simp [Eng.scan] at ho, fun o ho => by simp [Eng.scan] at ho⟩
  | cons i rest ih =>
    intro e V hm hJ hp hib hK hl
    have L := SL.conc.law
    have hi : i < n := SL.jlt n _ _ i rest hJ
    have hun := SL.jun n _ _ _ hJ
    have hact : ∀ c, c < n → P.eligible e.s c = true → Act (lastRes e.w.trace c) :=
      fun c hc hel => strn_act (hp.wi.str c hc) (hun c hc hel)
    have hv := pinvsn_visit L SL.hevs hpe e i hi hp (hun i hi)
    have hnr : NoneSet e := by
      cases m with
      | std =>
        intro ha
        exact C20S.hnr_std (hK rfl) ha
      | direct => exact noneSet_direct e hm
    have hkind : Eng.gateGo P e i = true →
        (e.w.resOf i = .pend ∨ (∃ v, e.w.resOf i = .item v) ∨ e.w.resOf i = .fin) := by
      intro hg
      have hel : P.eligible e.s i = true := by
        unfold Eng.gateGo at hg; simp only [Bool.and_eq_true] at hg; exact hg.1
      exact strn_kind (hp.wi.str i hi) (hun i hi hel)
    have hb := ib_visit SL e i V hi hib hact hkind hnr
    have hT := Sim.visitT (SL.sim n m) e i rest hm (Sim.scriptsOk_any _) hJ
    unfold Eng.scan
    cases hvis : (Eng.visit P e i).2 with
    | some o =>
      simp only
      refine ⟨hv.1, fun hn => by simp at hn, fun ho => ?_, fun o' _ => hb.2.2 o hvis, ?_⟩
      · simp only [Option.some.injEq] at ho
        subst ho
        exact hb.2.1 hvis
      · intro o' ho'
        simp only [Option.some.injEq] at ho'
        subst ho'
        exact hv.2 o hvis
    | none =>
      simp only
      have hK' : m = .std → C01.PInv P n (Eng.visit P e i).1 (fun c => V c ∨ c = i) ∧
          P.pre (Eng.visit P e i).1.s = none := by
        intro hs
        have hin : i < e.s.n := by rw [SL.jn n _ _ _ hJ]; exact hi
        exact (C01.pinv_visit SL.conc e i V hin (hK hs) hl).1 hvis
      have hl' : P.pre (Eng.visit P e i).1.s = none := by
        refine Eng.visit_ind P e i (fun r => r.2 = none → P.pre r.1.s = none) ?_ ?_ ?_ ?_ hvis
        · intro _ _ hn; simp at hn
        · intro _ _ _; exact hl
        · intro _ _ _ hn; simp at hn
        · intro _ _ _ hex
          simp only [Eng.applyH_s]
          by_cases hd : P.pre (P.handle e.s i (e.w.resOf (P.child e.s i))).s = none
          · exact hd
          · exact absurd hex (L.dead_exit _ _ _ hl hd)
      have := ih (Eng.visit P e i).1 (fun c => V c ∨ c = i) hT.1 (hT.2.2.1 hvis) hv.1
        (hb.1 hvis) (fun hs => (hK' hs).1) hl'
      refine ⟨this.1, fun hs => ib_mono ?_ (this.2.1 hs), this.2.2.1, this.2.2.2.1, this.2.2.2.2⟩
      intro c hc
      simp only [List.mem_cons] at hc
      rcases hc with hc | hc | hc
      · exact Or.inl (Or.inl hc)
      · exact Or.inl (Or.inr hc)
      · exact Or.inr hc

/-! ### one top-level poll -/

theorem pendsn_poll (SL : StreamLike P I J) (hpe : ∀ s i, (P.handle s i .pend).exit = none)
    {m : Mode} {n : Nat} (e : Eng Fix) (wid : Nat)
    (hm : e.w.mode = m) (hI : I n e.s e.w.trace) (hw : WInvSN K sc0 n e.w)
    (hsp : spent false e.w.trace = false) (hb : BIB P n e) (hstd : m = .std → C01.BInv P n e) :
    PEndSN K sc0 n (fun c => (e.w.scripts c).length) e.w.trace (Eng.poll P e wid).w ∧
      BIB P n (Eng.poll P e wid) := by
  have L := SL.conc.law
  have hbeg := pinvsn_begin wid hw hsp
  unfold Eng.poll
  split
  · rename_i o ho
    have hb' : PInvSN K sc0 n (fun c => (e.w.scripts c).length) e.w.trace
        (e.w.emit (.pollBegin wid)) :=
      pinvsn_congr (w := (e.w.emit (.pollBegin wid)).setWaker wid) rfl rfl rfl hbeg
    refine ⟨pendsn_of_pinvsn hb' o (fun k vs hk => by
      rcases SL.pre_out _ _ ho with h1 | h1 <;> rw [h1] at hk <;> cases hk), ?_⟩
    have hne := SL.conc.pre_ok e.s
    rw [ho] at hne
    refine bib_emit_pollEnd (e.emit (.pollBegin wid)) o ⟨by simpa using hb.cap, ?_, fun c _ hv => hv.elim⟩
      (fun hh => absurd (by rw [hh]) hne.1)
    intro c hc hel hnd
    exact hb.a c hc hel (by simpa [lastRes] using hnd)
  · rename_i hpre
    unfold Eng.body
    simp only
    split
    · rename_i hc
      rw [SL.preAny_f] at hc; simp at hc
    · have hJ := (SL.sim n m).start _ _ wid hpre hI
      have hib : IB P n { w := (e.w.emit (.pollBegin wid)).setWaker wid, s := P.start e.s }
          (fun _ => False) := by
        refine ⟨by simpa using hb.cap, ?_, fun c _ hv => hv.elim⟩
        intro c hc hel hnd
        simp only [L.start_elig] at hel
        have := hb.a c hc hel (by simpa [lastRes] using hnd)
        simpa [World.isSet_setWaker, World.isSet_emit] using this
      have hK : m = .std → C01.PInv P n
          { w := (e.w.emit (.pollBegin wid)).setWaker wid, s := P.start e.s } (fun _ => False) := by
        intro hs
        have h1 := hstd hs
        have hq := C01.quiet_of_binv e h1
        have hmb1 : c01Boundaries n (Ev.pollBegin wid :: e.w.trace) = true :=
          C01.mb_startsOp n _ _ h1.mb hq
        refine ⟨C01.ks_setWaker wid (C01.ks_emit _ rfl h1.ks), ⟨⟨wid, by simp, by simp [cur]⟩, ?_⟩,
          by simp [inPoll], by simpa using hmb1, by simp [h1.cap, L.n_start], ?_⟩
        · intro c hv; exact absurd hv (by simp)
        · intro _ j hj
          simp only [L.start_elig]
          exact h1.r1 hpre j (by simpa [lastRes] using hj)
      have hs := pinvsn_scan (K := K) (sc0 := sc0) SL hpe (P.order e.s)
        { w := (e.w.emit (.pollBegin wid)).setWaker wid, s := P.start e.s } (fun _ => False)
        hm hJ hbeg hib hK (L.start_live _ hpre)
      unfold Eng.close
      split
      · rename_i o ho
        refine ⟨pendsn_of_pinvsn hs.1 _ (fun k vs hk => ?_), bib_emit_pollEnd _ o (hs.2.2.2.1 o ho)
          (fun hh => hs.2.2.1 (by rw [ho, hh]))⟩
        rcases hs.2.2.2.2 o ho with h1 | h1
        · rw [h1] at hk; cases hk
        · exact h1
      · rename_i hn
        have hib' := hs.2.1 hn
        refine ⟨pendsn_of_pinvsn (pinvsn_congr ?_ ?_ ?_ hs.1) _ (fun k vs hk => by
          rw [SL.fin_pend] at hk; cases hk), ?_⟩
        · simp [kop_scripts, emits_scripts]
        · simp [kop_handed]
        · simp [SL.hfin]
        · -- the scan was complete: every eligible slot has been passed
          have hall : ∀ c, c < n → c ∈ P.order e.s := by
            intro c hc
            have hn' : e.s.n = n := by
              have := SL.jn n _ _ _ hJ
              simpa [L.n_start] using this
            exact SL.conc.order_all _ _ hpre (by rw [hn']; exact hc)
          have hib2 : IB P n ((Eng.scan P (P.order e.s)
              { w := (e.w.emit (.pollBegin wid)).setWaker wid, s := P.start e.s }).1.applyH
              (P.finish (Eng.scan P (P.order e.s)
                { w := (e.w.emit (.pollBegin wid)).setWaker wid, s := P.start e.s }).1.s))
              (fun c => c ∈ P.order e.s) := by
            refine ⟨by simpa using hib'.cap, ?_, ?_⟩
            · intro c hc hel hnd
              simp only [Eng.applyH_s, SL.fin_s] at hel
              simp only [Eng.applyH_w, World.kop_trace, World.emits_trace, SL.hfin, List.reverse_nil,
                List.nil_append] at hnd
              simp only [Eng.applyH_w, L.finish_kop, World.kop, World.isSet_emits]
              exact hib'.a c hc hel hnd
            · intro c hc hv hel
              simp only [Eng.applyH_s, SL.fin_s] at hel
              simp only [Eng.applyH_w, World.kop_trace, World.emits_trace, SL.hfin, List.reverse_nil,
                List.nil_append]
              exact hib'.v c hc (Or.inr hv) hel
          refine bib_emit_pollEnd _ _ (ib_mono (fun c hc => hc.elim) hib2) (fun _ => ?_)
          intro c hc hel
          exact hib2.v c hc (hall c hc) hel

/-! ### the run invariant -/

structure LBSN (P : Policy Fix) (I : Nat → Fix → List Ev → Prop) (m : Mode) (K : Nat → Bool)
    (sc0 : Nat → List Step) (n : Nat) (e : Eng Fix) : Prop where
  pos : 0 < n
  mode : e.w.mode = m
  std : m = .std → C01.BInv P n e
  dir : m = .direct → C01D.BInv P n e
  b20 : C20.B20 P e
  fi : I n e.s e.w.trace
  sn : e.s.n = n
  wi : WInvSN K sc0 n e.w
  sp : spent false e.w.trace = false
  bib : BIB P n e
  lo : lastOut e.w.trace = none ∨ lastOut e.w.trace = some .pending ∨
    ∃ k vs, lastOut e.w.trace = some (.some k vs)

/-- the run has ended with `None`; the functional invariant and the inputs' clauses are still
    available -/
def FinStr (I : Nat → Fix → List Ev → Prop) (K : Nat → Bool) (sc0 : Nat → List Step) (n : Nat)
    (e : Eng Fix) : Prop :=
  ∃ t, e.w.trace = .pollEnd .none :: t ∧ I n e.s e.w.trace ∧ WInvSN K sc0 n e.w

variable {m : Mode} {n : Nat}

theorem lbsn_quiet (e : Eng Fix) (h : LBSN P I m K sc0 n e) : quiet n e.w.trace = true := by
  cases m with
  | std => exact C01.quiet_of_binv e (h.std rfl)
  | direct => exact C01D.quiet_of_binv e (h.dir rfl)

theorem lbsn_fire (SL : StreamLike P I J) (e : Eng Fix) (c a : Nat) (h : LBSN P I m K sc0 n e) :
    LBSN P I m K sc0 n (e.fire c a) := by
  obtain ⟨l, hl, hp⟩ := World.fire_seg e.w c a
  have hlo : lastOut (e.fire c a).w.trace = lastOut e.w.trace := C01.lastOut_fire e.w c a
  refine ⟨h.pos, by simpa using h.mode, fun hm => C01.binv_fire e c a (h.std hm),
    fun hm => C01D.binv_fire e c a (h.dir hm), C20.b20_fire e c a h.b20,
    (Sim.fireT (SL.sim n m) e c a h.mode (Sim.scriptsOk_any _) h.fi).2.2, h.sn,
    winvsn_fire e.w c a h.wi, ?_, bib_fire e c a h.bib, by rw [hlo]; exact h.lo⟩
  simp only [Eng.fire_w, hl]
  rw [spent_fires false l _ hp]; exact h.sp

theorem lbsn_poll (SL : StreamLike P I J) (hpe : ∀ s i, (P.handle s i .pend).exit = none)
    (e : Eng Fix) (wid : Nat) (h : LBSN P I m K sc0 n e) :
    FinStr I K sc0 n (Eng.poll P e wid) ∨
    (LBSN P I m K sc0 n (Eng.poll P e wid) ∧
      Exec.stepsLeft n (Eng.poll P e wid) ≤ Exec.stepsLeft n e ∧
      ((lastOut (Eng.poll P e wid).w.trace ≠ some .pending ∧
          Exec.stepsLeft n (Eng.poll P e wid) < Exec.stepsLeft n e) ∨
       (lastOut (Eng.poll P e wid).w.trace = some .pending ∧
          (Exec.stepsLeft n (Eng.poll P e wid) < Exec.stepsLeft n e ∨
            wokeSince (Eng.poll P e wid).w.trace = false) ∧
          (∀ c, c < n → lastRes e.w.trace c = some .pend → e.w.scripts c ≠ [] →
            owes e.w.trace c = true →
            Exec.stepsLeft n (Eng.poll P e wid) < Exec.stepsLeft n e)))) := by
  obtain ⟨hP, hbib⟩ := pendsn_poll (K := K) (sc0 := sc0) SL hpe e wid h.mode h.fi h.wi h.sp h.bib h.std
  have hT := Sim.pollT (SL.sim n m) e wid h.mode (Sim.scriptsOk_any _) h.fi
  have hstd : m = .std → C01.BInv P n (Eng.poll P e wid) :=
    fun hm => C01.binv_poll SL.conc e wid (h.std hm)
  have hdir : m = .direct → C01D.BInv P n (Eng.poll P e wid) :=
    fun hm => C01D.binv_poll SL.conc e wid (h.dir hm)
  have hb20 : C20.B20 P (Eng.poll P e wid) := by
    cases m with
    | std => exact C20S.poll20 (n := n) SL.conc e wid (h.std rfl) h.b20
    | direct => exact C20D.poll20 (n := n) SL.conc e wid (h.dir rfl) h.b20
  have hnowp : c01NoPanic (Eng.poll P e wid).w.trace = true := by
    cases m with
    | std => exact (hstd rfl).ks.nowp
    | direct => exact (hdir rfl).kd.nowp
  have hsn : (Eng.poll P e wid).s.n = n := by
    cases m with
    | std => rw [← (hstd rfl).cap, hbib.cap]
    | direct => rw [← (hdir rfl).cap, hbib.cap]
  have hm20 := hb20.m20
  rw [hsn] at hm20
  have hfi := hT.2.2
  have hfi' := hfi
  have hab := hP.ab
  obtain ⟨o, t, ht, hspt, hpnt⟩ := hP.shape
  rw [ht] at hnowp hm20 hab hfi
  simp only [atPollBegin] at hab
  have hLe : ∀ c, c < n → ((Eng.poll P e wid).w.scripts c).length ≤ (e.w.scripts c).length :=
    fun c _ => hP.le c
  have hle : Exec.stepsLeft n (Eng.poll P e wid) ≤ Exec.stepsLeft n e := total_le _ _ n hLe
  have hspo : ∀ (o' : Outcome), o = o' → (∀ ok vals, o' ≠ .ready ok vals) → o' ≠ .none → o' ≠ .panicked →
      spent false (.pollEnd o' :: t) = false := by
    intro o' _ h1 h2 h3
    cases o' with
    | ready ok vals => exact absurd rfl (h1 ok vals)
    | none => exact absurd rfl h2
    | panicked => exact absurd rfl h3
    | pending => simpa [spent, finalSeen, alive, panickedSeen] using hspt
    | some k vs => simpa [spent, finalSeen, alive, panickedSeen] using hspt
    | misuse => simpa [spent, finalSeen, alive, panickedSeen] using hspt
  cases o with
  | pending =>
    right
    -- C20: an owed waiting input was polled in this poll
    have hc20 : ∀ c, c < n →
        (lastRes e.w.trace c = some .pend → owes e.w.trace c = true → polledSince t c = true) := by
      simp only [holds_C20, Bool.and_eq_true] at hm20
      have := hm20.2
      simp only [c20At, List.all_eq_true, List.mem_range] at this
      intro c hc
      have hcc := this c hc
      rw [hab] at hcc
      simp only [owned, hc, decide_true, if_true, Bool.not_true, Bool.false_or, Bool.and_eq_true,
        Bool.or_eq_true, Bool.not_eq_true', Bool.and_eq_false_imp, beq_iff_eq] at hcc
      intro h1 h2
      rcases hcc.2 with h3 | h3
      · have := h3 h1; rw [h2] at this; exact Bool.noConfusion this
      · exact h3
    have hps : ∀ c, polledSince (Eng.poll P e wid).w.trace c = polledSince t c := by
      intro c; rw [ht]; simp [polledSince]
    refine ⟨⟨h.pos, hT.1, hstd, hdir, hb20, hT.2.2, hsn, hP.wi, ?_, hbib,
      Or.inr (Or.inl (by rw [ht]; rfl))⟩, hle, Or.inr ⟨by rw [ht]; rfl, ?_, ?_⟩⟩
    · rw [ht]; exact hspo .pending rfl (by simp) (by simp) (by simp)
    · cases hw : wokeSince (Eng.poll P e wid).w.trace with
      | false => right; rfl
      | true =>
        left
        obtain ⟨c, hc, hl⟩ := hP.wk hw
        exact total_lt _ _ n hLe c hc hl
    · intro c hc h1 hne h2
      have h3 := hc20 c hc h1 h2
      rw [← hps] at h3
      have h0 : (e.w.scripts c).length ≠ 0 := by
        have := length_pos_of_ne_nil' _ hne; omega
      exact total_lt _ _ n hLe c hc ((hP.ps c h3).2 h0)
  | ready ok vals => exact (SL.no_ready n _ t ok vals hfi).elim
  | some k vals =>
    right
    refine ⟨⟨h.pos, hT.1, hstd, hdir, hb20, hT.2.2, hsn, hP.wi, ?_, hbib,
      Or.inr (Or.inr ⟨k, vals, by rw [ht]; rfl⟩)⟩, hle, Or.inl ⟨by rw [ht]; simp [lastOut], ?_⟩⟩
    · rw [ht]; exact hspo (.some k vals) rfl (by simp) (by simp) (by simp)
    · obtain ⟨c, hc, hl⟩ := hP.sm k vals (by rw [ht]; rfl)
      exact total_lt _ _ n hLe c hc hl
  | none => left; exact ⟨t, ht, hfi', hP.wi⟩
  | panicked =>
    simp only [c01NoPanic, Bool.and_eq_true] at hnowp
    rw [hpnt] at hnowp; exact absurd hnowp.2 (by simp)
  | misuse =>
    have := SL.misuse_spent n _ t hfi
    rw [hspt] at this; exact Bool.noConfusion this

/-- nobody is waiting: every step has been consumed -/
theorem lbsn_waiting (SK : StuckLike P I) (e : Eng Fix) (h : LBSN P I m K sc0 n e)
    (hlo : lastOut e.w.trace = some .pending) :
    (∃ c, c < n ∧ lastRes e.w.trace c = some .pend ∧ e.w.scripts c ≠ []) ∨
      Exec.stepsLeft n e = 0 := by
  by_cases hw : ∃ c, c < n ∧ lastRes e.w.trace c = some .pend ∧ e.w.scripts c ≠ []
  · exact Or.inl hw
  · right
    rw [stepsLeft_eq]
    apply total_zero_of
    intro c hc
    have : e.w.scripts c = [] := by
      cases hel : P.eligible e.s c with
      | true =>
        have hlr := h.bib.pa hlo c hc hel
        by_cases hne : e.w.scripts c = []
        · exact hne
        · exact absurd ⟨c, hc, hlr, hne⟩ hw
      | false =>
        have hf := SK.ne n _ _ h.fi h.sp c hc hel
        rcases h.wi.str c hc with ⟨_, _, ha, _⟩ | ⟨_, _, hs⟩ | ⟨_, _, hl, _⟩
        · exact absurd hf (act_ne_fin ha)
        · exact hs
        · rcases hl with hl | hl <;> rw [hl] at hf <;> cases hf
    rw [this]; rfl

theorem progS_str (SL : StreamLike P I J) (SK : StuckLike P I) :
    ProgS P n (LBSN P I m K sc0 n) (FinStr I K sc0 n) where
  lo := fun e h => h.lo
  poll := fun e wid h => lbsn_poll SL SK.pe e wid h
  fire := fun e c a h => lbsn_fire SL e c a h
  waiting := fun e h hlo => lbsn_waiting SK e h hlo
  woke := by
    intro e c h hlo hc hlr
    have h' := lbsn_fire SL e c 0 h
    have := fire_wokeN e.w c h.wi (lbsn_quiet _ h') h.sp hlo hc hlr
    exact ⟨this.1, this.2.2⟩

/-! ### delivery -/

/-- an input without a step left has produced every item of its script, in order -/
theorem produced_all {w : World} (h : WInvSN K sc0 n w) (c : Nat) (hs : w.scripts c = []) :
    (itemsOf c w.trace).reverse = Exec.scriptItems (sc0 c) := by
  have := h.it c
  rw [hs] at this
  simpa [Exec.scriptItems] using this

theorem winvsn_init (mode : Mode) (n : Nat) (scripts : Nat → List Step)
    (hs : ∀ c, c < n → Exec.strOrNever (scripts c) = true) :
    WInvSN (fun c => streamScript (scripts c)) scripts n (World.init mode n scripts) := by
  refine ⟨fun c hc => ?_, fun c => rfl, ?_, ?_, ?_⟩
  · cases hk : streamScript (scripts c) with
    | true => exact Or.inl ⟨hk, hk, Or.inl rfl, rfl⟩
    | false =>
      have := hs c hc
      simp only [Exec.strOrNever, hk, Bool.false_or] at this
      exact Or.inr (Or.inr ⟨hk, this, Or.inl rfl, rfl⟩)
  · intro c hc; exact absurd rfl hc
  · intro c hc; simp [World.init, everPolled] at hc
  · intro c; simp [World.init, itemsOf]

end LiveStuck
end Fc
