/-
  FcLemmas/KTieJoinVDDefs.lean — Vec join, no_std / alloc-only flavour (FcGen/KSrcFam2D.lean).
  (1) the environment side: the translated child poll with the wake function of this flavour (`fun _ r => some (r, [], ())`,
      there are no sub-wakers) and the stored parent waker as the child's waker computes `World.pollChild` of the model
      in `direct` mode, read through `TieDir.absV`; the readiness set is returned unchanged;
  (2) the relation between a translated `Join` + environment and a model state that the scan of `poll` maintains
      (`RelJ`), what one iteration has to do (`StepSpecJ`) and the loop rules (`Rs.forBreak` over the slots =
      `Eng.scan joinSlice`).
  The list facts, the generic loop rules and the model side of one iteration are those of the std proof
  (FcLemmas/KTieJoinDefs.lean).
-/
import FcProps.KTieJoinDir
import FcLemmas.KTieJoinDefs

set_option linter.unusedSimpArgs false
set_option linter.unusedVariables false

namespace Fc
open Rs Src

namespace TieJoinVD
open JoinVD

/-! ## the environment in direct mode -/

/-- the wake function the translated code of this flavour passes to its children's polls -/
abbrev dwake : Nat → DirVec.ReadinessVec → Option (DirVec.ReadinessVec × List Nat × Unit) :=
  fun _ r => some (r, [], ())

/-- every sub-waker that was handed to a child belongs to one of the `n` slots (none is handed out in this flavour) -/
def HandedInD (n : Nat) (w : World) : Prop := ∀ c i, Wk.sub i ∈ w.handed c → i < n

/-- the fields of the environment that translated code never touches (the readiness fields of a `World` are not used by
    the environment; in this flavour the model does not change them either) -/
def SameRd (a b : World) : Prop := a.cap = b.cap ∧ a.bits = b.bits ∧ a.count = b.count

theorem SameRd.rflD (a : World) : SameRd a a := ⟨rfl, rfl, rfl⟩

theorem SameRd.transD {a b c : World} (h1 : SameRd a b) (h2 : SameRd b c) : SameRd a c :=
  ⟨h1.1.trans h2.1, h1.2.1.trans h2.2.1, h1.2.2.trans h2.2.2⟩

theorem absV_emitD (r : DirVec.ReadinessVec) (b : World) (e : Ev) :
    TieDir.absV r (b.emit e) = (TieDir.absV r b).emit e := rfl

theorem absV_idemD (r : DirVec.ReadinessVec) (b : World) : TieDir.absV r (TieDir.absV r b) = TieDir.absV r b := rfl

theorem fireWk_tieD (r : DirVec.ReadinessVec) (env : World) (wk : Wk) :
    ∃ env', Rs.fireWk dwake r env wk = some (r, env') ∧ TieDir.absV r env' = (TieDir.absV r env).fireWk wk ∧
      env'.scripts = env.scripts ∧ env'.handed = env.handed ∧ SameRd env' env := by
  cases wk with
  | par p => exact ⟨_, rfl, rfl, rfl, rfl, rfl, rfl, rfl⟩
  | sub i => exact ⟨_, rfl, rfl, rfl, rfl, rfl, rfl, rfl⟩

theorem fire_tieD (r : DirVec.ReadinessVec) (env : World) (c a : Nat) :
    ∃ env', Rs.fire dwake r env c a = some (r, env') ∧ TieDir.absV r env' = (TieDir.absV r env).fire c a ∧
      env'.scripts = env.scripts ∧ env'.handed = env.handed ∧ SameRd env' env := by
  unfold Rs.fire World.fire
  have hh : (TieDir.absV r env).handed = env.handed := rfl
  rw [hh]
  cases hg : (env.handed c)[a]? with
  | none => exact ⟨_, rfl, rfl, rfl, rfl, rfl, rfl, rfl⟩
  | some wk =>
    obtain ⟨env', h1, h2, h3, h4, h5⟩ := fireWk_tieD r (env.emit (.fired c a (some wk))) wk
    exact ⟨env', h1, h2, h3, h4, h5⟩

theorem fires_tieD (r : DirVec.ReadinessVec) (l : List (Nat × Nat)) : ∀ (env : World),
    ∃ env', Rs.fires dwake r env l = some (r, env') ∧ TieDir.absV r env' = (TieDir.absV r env).fires l ∧
      env'.scripts = env.scripts ∧ env'.handed = env.handed ∧ SameRd env' env := by
  induction l with
  | nil => intro env; exact ⟨env, rfl, rfl, rfl, rfl, SameRd.rflD _⟩
  | cons p l ih =>
    intro env
    obtain ⟨env1, e1, a1, s1, d1, f1⟩ := fire_tieD r env p.1 p.2
    obtain ⟨env2, e2, a2, s2, d2, f2⟩ := ih env1
    refine ⟨env2, ?_, ?_, by rw [s2, s1], by rw [d2, d1], f2.transD f1⟩
    · simp only [Rs.fires, e1, e2]
    · rw [a2, a1]; rfl

/-- one poll of child `c` (slot `c`) with the stored parent waker -/
theorem pollChild_tieD (r : DirVec.ReadinessVec) (env : World) (c p : Nat) (hp : r.roleParent = some p) :
    ∃ env', Rs.pollChild (fun _ r => some (r, [], ())) r env c (.par p) = some (r, env', env.resOf c) ∧
      TieDir.absV r env' = (TieDir.absV r env).pollChild c c ∧
      env'.scripts = upd env.scripts c (env.scripts c).tail ∧
      env'.handed = upd env.handed c (Wk.par p :: env.handed c) ∧ SameRd env' env := by
  have hw : (TieDir.absV r env).wakerFor c = .par p := by
    show Wk.par (r.roleParent.getD 0) = .par p
    rw [hp]; rfl
  obtain ⟨env', e1, a1, s1, d1, f1⟩ := fires_tieD r (env.stepOf c).fires
    { env with scripts := upd env.scripts c (env.scripts c).tail,
               handed := upd env.handed c (Wk.par p :: env.handed c),
               trace := .childBegin c (Rs.slotOf (Wk.par p) c) (Wk.par p) :: env.trace }
  refine ⟨env'.emit (.childEnd c (env.resOf c)), ?_, ?_, s1, d1, f1⟩
  · simp only [Rs.pollChild, e1]
  · rw [absV_emitD, a1]
    unfold World.pollChild
    rw [hw]
    rfl

theorem handedIn_consD {n : Nat} {w w' : World} (h : HandedInD n w) (c p : Nat)
    (hs : w'.handed = upd w.handed c (Wk.par p :: w.handed c)) : HandedInD n w' := by
  intro c' j hm
  rw [hs] at hm
  by_cases hc : c' = c
  · subst hc
    simp at hm
    exact h _ _ hm
  · simp [upd, hc] at hm
    exact h _ _ hm

/-! ## the relation the scan maintains -/

/-- the translated combinator `g` with the environment `env` is read as the model state `e` (inside a poll: a parent
    waker is stored, the join has not completed) -/
structure RelJ (n o : Nat) (b0 : World) (e : Eng Fix) (g : Join) (env : World) : Prop where
  ew : e.w = TieDir.absV g.roleWakers.readiness env
  en : e.s.n = n
  kids : g.roleKids.len = n
  st : e.s.st = fun i => TiePS.abs (g.roleStates.get i)
  out : e.s.out = g.roleItems.get
  cnt : e.s.cnt = g.roleCount
  off : e.s.off = o
  dead : e.s.dead = false
  done : g.roleDone = false
  sl : g.roleStates.len = n
  ic : g.roleItems.cap = n
  pc : g.roleCount = ((List.range n).filter (fun i => g.roleStates.get i = PS.PollState.pending)).length
  rs : ∀ i, i < n → (g.roleStates.get i = PS.PollState.pending ∨
        (g.roleStates.get i = PS.PollState.ready ∧ ∃ v, g.roleItems.get i = some v))
  par : g.roleWakers.readiness.roleParent ≠ none
  hin : HandedInD n env
  sok : FutStepsF env
  fr : SameRd env b0

abbrev BodyJ := Join × World → Nat → Option ((Join × World) × Bool)

/-- one iteration of the loop body is one `Eng.visit joinSlice`; the loop is never left early -/
def StepSpecJ (n o : Nat) (b0 : World) (F : BodyJ) : Prop :=
  ∀ (e : Eng Fix) (g : Join) (env : World) (i : Nat), RelJ n o b0 e g env → i < n →
    ∃ g' env', F (g, env) i = some ((g', env'), false) ∧ RelJ n o b0 (Eng.visit joinSlice e i).1 g' env' ∧
      (Eng.visit joinSlice e i).2 = none

/-- the loop over a list of slots is `Eng.scan joinSlice` -/
theorem loop_tieJ (n o : Nat) (b0 : World) (F : BodyJ) (hF : StepSpecJ n o b0 F) (l : List Nat) :
    ∀ (e : Eng Fix) (g : Join) (env : World), RelJ n o b0 e g env → (∀ i ∈ l, i < n) →
    ∃ g' env', Rs.forBreak l (g, env) F = some (g', env') ∧ RelJ n o b0 (Eng.scan joinSlice l e).1 g' env' ∧
      (Eng.scan joinSlice l e).2 = none := by
  induction l with
  | nil =>
    intro e g env hR _
    exact ⟨g, env, rfl, hR, rfl⟩
  | cons i l ih =>
    intro e g env hR hl
    obtain ⟨g1, env1, h1, hR1, hv⟩ := hF e g env i hR (hl i (List.mem_cons_self ..))
    obtain ⟨g2, env2, h2, hR2, hv2⟩ := ih (Eng.visit joinSlice e i).1 g1 env1 hR1
      (fun j hj => hl j (List.mem_cons_of_mem _ hj))
    refine ⟨g2, env2, ?_, ?_, ?_⟩
    · simp only [Rs.forBreak, h1, h2]
    · simp only [Eng.scan, hv]; exact hR2
    · simp only [Eng.scan, hv]; exact hv2

/-- the loop followed by the code after it (`K`): it is enough to run `K` on what `Eng.scan joinSlice` describes -/
theorem loop_bindJ {τ : Type} (n o : Nat) (b0 : World) (F : BodyJ) (hF : StepSpecJ n o b0 F) (l : List Nat) (e : Eng Fix) (g : Join)
    (env : World) (hR : RelJ n o b0 e g env) (hl : ∀ i ∈ l, i < n)
    (K : Join × World → Option τ) (Ψ : τ → Prop)
    (hK : ∀ g' env', RelJ n o b0 (Eng.scan joinSlice l e).1 g' env' → (Eng.scan joinSlice l e).2 = none →
      ∃ a, K (g', env') = some a ∧ Ψ a) :
    ∃ a, (Rs.forBreak l (g, env) F).bind K = some a ∧ Ψ a := by
  obtain ⟨g', env', h1, hR', hv⟩ := loop_tieJ n o b0 F hF l e g env hR hl
  rw [h1, Option.bind_some]
  exact hK g' env' hR' hv

end TieJoinVD
end Fc
