/-
  FcLemmas/NestC02Inv.lean — the C02 boundary invariant of a nest: the flat C02 invariants of the
  outer and of every inner instance (through `VSI`), the number of drops each instance has
  performed (`d` for the outer instance = number of `drop` operations so far; `1` or `0` for an
  inner instance according to `gone c`), carried along `Nest.poll / fire / drop` next to the C03
  invariant `NC03` (whose link `alive ti = !gone c`, `gone c = gone to c || !alive to` it uses),
  and how `Nest.c02At` is read off.
-/
import FcLemmas.NestC02Virt
import FcLemmas.NestC03Inv
set_option linter.unusedSimpArgs false
set_option linter.unusedVariables false

namespace Fc
open Mon

namespace Nest

/-! ### small trace facts -/

theorem cntDE_eq_nd (t : List Ev) : cntDE t = C02b.nd t := by
  induction t with
  | nil => rfl
  | cons e t ih => cases e <;> simp [cntDE, C02b.nd, ih]

theorem cntDB_of_dead (t : List Ev) (h : alive t = false) : 1 ≤ C02.cntDB t := by
  induction t with
  | nil => simp [alive] at h
  | cons e t ih =>
    rw [C02.cntDB_cons]
    cases e <;> simp_all [alive, C02.isDB] <;> omega

theorem gone_of_count (t : List Ev) (c : Nat) (h : (droppedChildren t).count c = 1) :
    gone t c = true := by
  have hm : c ∈ droppedChildren t := List.count_pos_iff.mp (by omega)
  clear h
  induction t with
  | nil => simp [droppedChildren] at hm
  | cons e t ih =>
    cases e <;> simp_all [droppedChildren, gone]
    rcases hm with hm | hm
    · exact Or.inl hm.symm
    · exact Or.inr (ih hm)

theorem count_of_holds (n : Nat) (t : List Ev) (h : holds_C02 true n t = true)
    (hd : dropCompleted t = true) (c : Nat) (hc : c < n) : (droppedChildren t).count c = 1 := by
  unfold holds_C02 at h
  simp only [hd, Bool.not_true, Bool.false_or, Bool.and_eq_true, List.all_eq_true, List.mem_range,
    decide_eq_true_eq, Bool.true_or, if_true] at h
  exact h.1.1.1.2 c hc

theorem cntDB_drop {P : Policy Fix} (L : Lawful P) (e : Eng Fix) :
    C02.cntDB (Eng.drop P e).w.trace = C02.cntDB e.w.trace + 1 := by
  have := C02.step_cntDB P L e .drop
  simpa [FEng.step, C02.isDrop] using this

theorem nd_drop {P : Policy Fix} (L : Lawful P) (e : Eng Fix) :
    C02b.nd (Eng.drop P e).w.trace = C02b.nd e.w.trace + 1 := by
  simp only [Eng.drop, World.emit_trace, World.emits_trace]
  exact C02b.nd_drop _ _ (L.evs_drop _)

theorem cntDB_wfires (w : World) (fs : List (Nat × Nat)) :
    C02.cntDB (w.fires fs).trace = C02.cntDB w.trace := by
  obtain ⟨l, hl, hp⟩ := World.fires_seg w fs
  rw [hl, C02.cntDB_fire l _ hp]

theorem nd_wfires (w : World) (fs : List (Nat × Nat)) :
    C02b.nd (w.fires fs).trace = C02b.nd w.trace := by
  obtain ⟨l, hl, hp⟩ := World.fires_seg w fs
  rw [hl, C02b.nd_fires l _ hp]

theorem cntDB_wfire (w : World) (c a : Nat) :
    C02.cntDB (w.fire c a).trace = C02.cntDB w.trace := by
  obtain ⟨l, hl, hp⟩ := World.fire_seg w c a
  rw [hl, C02.cntDB_fire l _ hp]

theorem nd_wfire (w : World) (c a : Nat) : C02b.nd (w.fire c a).trace = C02b.nd w.trace := by
  obtain ⟨l, hl, hp⟩ := World.fire_seg w c a
  rw [hl, C02b.nd_fires l _ hp]

/-! ### reading the hypothesis `waitOk` -/

theorem isWait_of {f : Fam} (h : f = .waitF ∨ f = .waitS) : isWait f = true := by
  rcases h with rfl | rfl <;> rfl

theorem waitOk_outer {nc : NCase} (hw : waitOk nc = true)
    (h : nc.outer = .waitF ∨ nc.outer = .waitS) : nc.n = 2 := by
  unfold waitOk at hw
  simp only [Bool.and_eq_true, Bool.or_eq_true, Bool.not_eq_true', beq_iff_eq] at hw
  rcases hw.1 with h1 | h1
  · rw [isWait_of h] at h1; exact Bool.noConfusion h1
  · exact h1

theorem waitOk_inner {nc : NCase} (hw : waitOk nc = true) {c : Nat} (hc : c < nc.n) {fam : Fam}
    {k : Nat} (hin : nc.inner c = some (fam, k)) (h : fam = .waitF ∨ fam = .waitS) : k = 2 := by
  unfold waitOk at hw
  simp only [Bool.and_eq_true, List.all_eq_true, List.mem_range] at hw
  have := hw.2 c hc
  rw [hin] at this
  simp only [Bool.or_eq_true, Bool.not_eq_true', beq_iff_eq] at this
  rcases this with h1 | h1
  · rw [isWait_of h] at h1; exact Bool.noConfusion h1
  · exact h1

/-! ### the invariant -/

structure NC02 (nc : NCase) (s : St) (d : Nat) : Prop where
  fo : VSI nc.outer.policy (nc.outer.modeOf nc.mode) (Sim.kindRes nc.outer) (R2 nc.n) nc.n s.out
  fi : ∀ c fam k, c < nc.n → nc.inner c = some (fam, k) →
         VSI fam.policy (fam.modeOf nc.mode) (Sim.kindRes fam) (R2 k) k (s.inn c)
  od : C02.cntDB s.out.w.trace = d ∧ C02b.nd s.out.w.trace = d
  id : ∀ c, c < nc.n → (nc.inner c).isSome = true →
         C02.cntDB (s.inn c).w.trace = (if s.gone c then 1 else 0) ∧
         C02b.nd (s.inn c).w.trace = (if s.gone c then 1 else 0)

theorem nc02_init (nc : NCase) (hk : kindOk nc = true) (hw : waitOk nc = true) :
    NC02 nc (init nc) 0 := by
  refine ⟨?_, ?_, ⟨rfl, rfl⟩, ?_⟩
  · refine VSI.init2 nc.outer (kindOk_outer hk) nc.mode nc.n _ ?_ (waitOk_outer hw)
    intro ch hch st hm
    cases hin : nc.inner ch with
    | none =>
      simp only [hin, Option.isSome_none, Bool.false_eq_true, if_false] at hm
      exact kindOk_plain hk ch hch hin st hm
    | some fk => simp [hin] at hm
  · intro c fam k hc hin
    have : (init nc).inn c = FEng.init fam nc.mode k (fun g =>
        (nc.scripts (leafId c g)).map
          (fun st => { st with fires := st.fires.map (fun p => (p.1 % 100, p.2)) })) := by
      simp [init, innerInit, hin]
    rw [this]
    refine VSI.init2 fam (famOk_some hk hc hin).1 nc.mode k _ ?_ (waitOk_inner hw hc hin)
    intro g hg st hm
    simp only [List.mem_map] at hm
    obtain ⟨st0, hm0, rfl⟩ := hm
    exact kindOk_leaf hk hc hin g hg st0 hm0
  · intro c _ _
    have ht : ((init nc).inn c).w.trace = [] := innerInit_trace nc c
    rw [ht]
    exact ⟨rfl, rfl⟩

theorem nc02_fire {nc : NCase} {s : St} {d : Nat} (h : NC02 nc s d) (id age : Nat) :
    NC02 nc (fire nc s id age) d := by
  unfold fire
  split
  · refine ⟨h.fo.fire id age, h.fi, ?_, h.id⟩
    simp only [Eng.fire_w, cntDB_wfire, nd_wfire]
    exact h.od
  · simp only
    obtain ⟨l, hl, hp⟩ := World.fire_seg (s.inn (id / 100 - 1)).w (id % 100) age
    have hseg : (((s.inn (id / 100 - 1)).fire (id % 100) age).w.trace.take
        (((s.inn (id / 100 - 1)).fire (id % 100) age).w.trace.length
          - (s.inn (id / 100 - 1)).w.trace.length)) = l := by
      simp only [Eng.fire_w, hl]
      exact take_seg l _
    rw [hseg, foldl_fire]
    refine ⟨h.fo.wfires _, ?_, ?_, ?_⟩
    · intro c fam k hc hin
      simp only
      split
      · rename_i hcc; subst hcc; exact (h.fi _ fam k hc hin).fire _ _
      · exact h.fi c fam k hc hin
    · simp only [cntDB_wfires, nd_wfires]; exact h.od
    · intro c hc hs
      simp only
      split
      · rename_i hcc
        subst hcc
        simp only [Eng.fire_w, cntDB_wfire, nd_wfire]
        exact h.id _ hc hs
      · exact h.id c hc hs

theorem nc02_drop {nc : NCase} {s : St} {d : Nat} (h3 : NC03 nc s) (h : NC02 nc s d) :
    NC02 nc (drop nc s) (d + 1) := by
  unfold drop
  refine ⟨h.fo.drop h3.fo.law, ?_, ?_, ?_⟩
  · intro c fam k hc hin
    simp only
    rw [innerPolicy_some nc c fam k hin]
    split
    · exact (h.fi c fam k hc hin).drop (h3.fi c fam k hc hin).law
    · exact h.fi c fam k hc hin
  · rw [cntDB_drop h3.fo.law, nd_drop h3.fo.law, h.od.1, h.od.2]
    exact ⟨rfl, rfl⟩
  · intro c hc hs
    have hid := h.id c hc hs
    simp only [hs, Bool.true_and, Bool.or_true, if_true]
    cases hg : s.gone c with
    | true =>
      simp only [Bool.not_true, Bool.false_eq_true, if_false]
      simpa [hg] using hid
    | false =>
      simp only [Bool.not_false, if_true]
      cases hin : nc.inner c with
      | none => simp [hin] at hs
      | some fk =>
        obtain ⟨fam, k⟩ := fk
        rw [innerPolicy_some nc c fam k hin]
        have L := (h3.fi c fam k hc hin).law
        rw [cntDB_drop L, nd_drop L, hid.1, hid.2, hg]
        exact ⟨rfl, rfl⟩

theorem nc02_poll {nc : NCase} (hk : kindOk nc = true) {s : St} {d : Nat} (h3 : NC03 nc s)
    (h : NC02 nc s d) (w : Nat) : NC02 nc (poll nc s w) d := by
  have hnd : ∀ st, (nc.outer.policy.order st).Nodup :=
    order_nodup nc.outer (conc_or_seq nc.outer (kindOk_outer hk))
  have hf0 : VSI nc.outer.policy (nc.outer.modeOf nc.mode) (Sim.kindRes nc.outer) (R2 nc.n) nc.n
      (out0 nc s) := h.fo.scripts _ (out0_scriptsOk hk h3)
  have hf1 : VSI nc.outer.policy (nc.outer.modeOf nc.mode) (Sim.kindRes nc.outer) (R2 nc.n) nc.n
      (out1 nc s w) := hf0.poll h3.fo.law hnd w
  refine ⟨?_, ?_, ?_, ?_⟩
  · rw [poll_out]
    refine hf1.scripts _ ?_
    intro c hc st hm
    split at hm
    · simp at hm
    · exact hf1.scriptsOk c hc st hm
  · intro c fam k hc hin
    rw [poll_inn, innerPolicy_some nc c fam k hin]
    have L := (h3.fi c fam k hc hin).law
    have hndi : ∀ st, (fam.policy.order st).Nodup :=
      order_nodup fam (conc_or_seq fam (famOk_some hk hc hin).1)
    have hsp : VSI fam.policy (fam.modeOf nc.mode) (Sim.kindRes fam) (R2 k) k (specE nc s c) := by
      unfold specE; rw [innerPolicy_some nc c fam k hin]; exact (h.fi c fam k hc hin).poll L hndi _
    have hin1 : VSI fam.policy (fam.modeOf nc.mode) (Sim.kindRes fam) (R2 k) k
        (if (((List.range nc.n).filter (fun c => (nc.inner c).isSome)).contains c
            && polledNow (out1 nc s w).w.trace c) = true then specE nc s c else s.inn c) := by
      split
      · exact hsp
      · exact h.fi c fam k hc hin
    split
    · exact hin1.drop L
    · exact hin1
  · rw [poll_out_trace]
    have h1 : C02.cntDB (out1 nc s w).w.trace = C02.cntDB s.out.w.trace :=
      C02.poll_cntDB _ h3.fo.law (out0 nc s) w
    have h2 : C02b.nd (out1 nc s w).w.trace = C02b.nd s.out.w.trace :=
      C02b.nd_poll h3.fo.law (out0 nc s) w
    rw [h1, h2]; exact h.od
  · intro c hc hs
    cases hin : nc.inner c with
    | none => simp [hin] at hs
    | some fk =>
    obtain ⟨fam, k⟩ := fk
    have L : Lawful (innerPolicy nc c) := by
      rw [innerPolicy_some nc c fam k hin]; exact (h3.fi c fam k hc hin).law
    have hid := h.id c hc hs
    rw [poll_inn, poll_gone]
    simp only [nested_contains nc c hc hs, Bool.true_and]
    have hin1 :
        C02.cntDB (if polledNow (out1 nc s w).w.trace c = true then specE nc s c else s.inn c).w.trace
          = (if s.gone c then 1 else 0) ∧
        C02b.nd (if polledNow (out1 nc s w).w.trace c = true then specE nc s c else s.inn c).w.trace
          = (if s.gone c then 1 else 0) := by
      split
      · unfold specE
        rw [C02.poll_cntDB _ L, C02b.nd_poll L]; exact hid
      · exact hid
    split
    · rename_i hrel
      simp only [Bool.and_eq_true, Bool.not_eq_true'] at hrel
      rw [cntDB_drop L, nd_drop L, hin1.1, hin1.2, hrel.1, hrel.2]
      exact ⟨rfl, rfl⟩
    · rename_i hrel
      have : (!s.gone c && droppedNow (out1 nc s w).w.trace c) = false := by
        cases hx : (!s.gone c && droppedNow (out1 nc s w).w.trace c) with
        | false => rfl
        | true => exact absurd hx hrel
      rw [this, Bool.or_false]
      exact hin1

/-! ### every reachable state -/

/-- both invariants after a history, with the number of `drop` operations in it -/
theorem nc_foldl {nc : NCase} (hk : kindOk nc = true) (ops : List Op) (s : St) (d : Nat)
    (h3 : NC03 nc s) (h2 : NC02 nc s d) :
    NC03 nc (ops.foldl (step nc) s) ∧
      NC02 nc (ops.foldl (step nc) s) (d + (ops.filter isDropOp).length) := by
  induction ops generalizing s d with
  | nil => exact ⟨h3, h2⟩
  | cons op ops ih =>
    rw [List.foldl_cons]
    have h3' := nc03_step hk h3 op
    cases op with
    | poll w =>
      have := ih _ d h3' (nc02_poll hk h3 h2 w)
      simpa [List.filter_cons, isDropOp] using this
    | fire c a =>
      have := ih _ d h3' (nc02_fire h2 c a)
      simpa [List.filter_cons, isDropOp] using this
    | drop =>
      have := ih _ (d + 1) h3' (nc02_drop h3 h2)
      simp only [List.filter_cons, isDropOp, if_true, List.length_cons]
      rw [show d + ((List.filter isDropOp ops).length + 1) = d + 1 + (List.filter isDropOp ops).length
        by omega]
      exact this
    | _ =>
      have := ih _ d h3' h2
      simpa [List.filter_cons, isDropOp] using this

theorem filter_take_le {α : Type} (p : α → Bool) (l : List α) (k : Nat) :
    ((l.take k).filter p).length ≤ (l.filter p).length :=
  (List.Sublist.filter p (List.take_sublist k l)).length_le

/-- both invariants at every operation boundary of a history with at most one drop -/
theorem nc_prefix (nc : NCase) (hk : kindOk nc = true) (hw : waitOk nc = true)
    (hd : dropsOk nc = true) (k : Nat) :
    ∃ d, d ≤ 1 ∧ NC03 nc ((nc.ops.take k).foldl (step nc) (init nc)) ∧
      NC02 nc ((nc.ops.take k).foldl (step nc) (init nc)) d := by
  have h := nc_foldl hk (nc.ops.take k) _ 0 (nc03_init nc hk) (nc02_init nc hk hw)
  refine ⟨_, ?_, h.1, h.2⟩
  unfold dropsOk at hd
  have := filter_take_le isDropOp nc.ops k
  have hd' := of_decide_eq_true hd
  omega

/-! ### reading off the property -/

/-- the link: released ⇔ dropped by the outer instance ⇔ the inner instance performed its drop -/
theorem link_of_inv {nc : NCase} {s : St} {d : Nat} (h3 : NC03 nc s) (h2 : NC02 nc s d) (hd : d ≤ 1)
    (ho : holds_C02 true nc.n s.out.w.trace = true) (c : Nat) (hc : c < nc.n)
    (hs : (nc.inner c).isSome = true) :
    s.gone c = gone s.out.w.trace c ∧ dropCompleted (s.inn c).w.trace = s.gone c ∧
      cntDE (s.inn c).w.trace = (if s.gone c then 1 else 0) := by
  have lk := h3.lk c hc hs
  have hid := h2.id c hc hs
  refine ⟨?_, ?_, ?_⟩
  · rw [lk.gn]
    cases ha : alive s.out.w.trace with
    | true => simp
    | false =>
      have h1 := cntDB_of_dead _ ha
      have hnd : C02b.nd s.out.w.trace = 1 := by
        have := h2.od.1; have := h2.od.2; omega
      have hdc : dropCompleted s.out.w.trace = true := by
        rw [C02b.dropCompleted_nd, hnd]; rfl
      have := gone_of_count _ c (count_of_holds nc.n _ ho hdc c hc)
      simp [this]
  · rw [C02b.dropCompleted_nd, hid.2]
    cases s.gone c <;> rfl
  · rw [cntDE_eq_nd]; exact hid.2

theorem holds_outer {nc : NCase} {s : St} {d : Nat} (h2 : NC02 nc s d) (hd : d ≤ 1) :
    holds_C02 true nc.n s.out.w.trace = true := by
  obtain ⟨I, hR, hI⟩ := h2.fo.read
  exact hR _ _ hI (by rw [h2.od.1]; exact hd) (by rw [h2.od.2]; exact hd)

theorem holds_inner {nc : NCase} {s : St} {d : Nat} (h2 : NC02 nc s d) (c : Nat) (hc : c < nc.n)
    (fam : Fam) (k : Nat) (hin : nc.inner c = some (fam, k)) :
    holds_C02 true k (s.inn c).w.trace = true := by
  obtain ⟨I, hR, hI⟩ := (h2.fi c fam k hc hin).read
  have hid := h2.id c hc (by simp [hin])
  refine hR _ _ hI ?_ ?_
  · rw [hid.1]; split <;> omega
  · rw [hid.2]; split <;> omega

theorem c02At_of_inv {nc : NCase} {s : St} {d : Nat} (h3 : NC03 nc s) (h2 : NC02 nc s d)
    (hd : d ≤ 1) : c02At nc s = true := by
  unfold c02At
  have ho := holds_outer h2 hd
  simp only [Bool.and_eq_true, List.all_eq_true, List.mem_range]
  refine ⟨ho, fun c hc => ?_⟩
  cases hin : nc.inner c with
  | none => rfl
  | some fk =>
    obtain ⟨fam, k⟩ := fk
    simp only [Bool.and_eq_true]
    refine ⟨holds_inner h2 c hc fam k hin, ?_⟩
    obtain ⟨l1, l2, l3⟩ := link_of_inv h3 h2 hd ho c hc (by simp [hin])
    unfold linkC02
    simp only [Bool.and_eq_true, beq_iff_eq]
    exact ⟨⟨l1, l2⟩, l3⟩

end Nest
end Fc
