/-
  FcLemmas/LiveStuck.lean — the wake-only executor (every schedule, busy environment:
  `ExecAny.runForB`) when some children NEVER complete (Fc/ExecStuck.lean): the induction on the
  round budget, stated once for an abstract run invariant.

  `ProgS P n Inv Fin` is `LiveAny.ProgG` with three changes:
    * the goal `Fin` is a predicate on the STATE reached (not only on the latest outcome), so that
      it can carry the run invariant to the end of the run;
    * `waiting`: after a `Pending` poll EITHER some child is waiting (latest answer `Pending`, a
      scripted step left) OR every scripted step of every child has been consumed
      (`Exec.stepsLeft n e = 0`) — with never-completing children the combinator may stay `Pending`
      with nobody left to wake it;
    * the "an owed waiting child that is polled consumes a step" clause of `poll` asks for a step
      left (`e.w.scripts c ≠ []`): an exhausted never-completing child answers `Pending` without
      consuming anything (the environment never prods such a child: `Exec.firstWaiting` /
      `ExecAny.isWaiting` require a step left).
  `ends_aux`: within `3 * stepsLeft + 1` rounds the run reaches `Fin` or a QUIESCENT state
  (`Quiet`): the invariant holds, the latest outcome is `Pending`, the task has not been woken since,
  and no child has a step left — the run is stuck there for ever (`quiet_round`).
-/
import FcLemmas.LiveAny
import Fc.ExecStuck
set_option linter.unusedSimpArgs false
set_option linter.unusedVariables false

namespace Fc
namespace LiveStuck
open Mon Live Live3 LiveAny

/-- what the induction needs from a run invariant `Inv` (states that are not final) -/
structure ProgS (P : Policy Fix) (n : Nat) (Inv : Eng Fix → Prop) (Fin : Eng Fix → Prop) : Prop where
  lo : ∀ e, Inv e → lastOut e.w.trace = none ∨ lastOut e.w.trace = some .pending ∨
    ∃ k vs, lastOut e.w.trace = some (.some k vs)
  poll : ∀ e wid, Inv e →
    Fin (Eng.poll P e wid) ∨
    (Inv (Eng.poll P e wid) ∧ Exec.stepsLeft n (Eng.poll P e wid) ≤ Exec.stepsLeft n e ∧
      ((lastOut (Eng.poll P e wid).w.trace ≠ some .pending ∧
          Exec.stepsLeft n (Eng.poll P e wid) < Exec.stepsLeft n e) ∨
       (lastOut (Eng.poll P e wid).w.trace = some .pending ∧
          (Exec.stepsLeft n (Eng.poll P e wid) < Exec.stepsLeft n e ∨
            wokeSince (Eng.poll P e wid).w.trace = false) ∧
          (∀ c, c < n → lastRes e.w.trace c = some .pend → e.w.scripts c ≠ [] →
            owes e.w.trace c = true →
            Exec.stepsLeft n (Eng.poll P e wid) < Exec.stepsLeft n e))))
  fire : ∀ e c a, Inv e → Inv (e.fire c a)
  waiting : ∀ e, Inv e → lastOut e.w.trace = some .pending →
    (∃ c, c < n ∧ lastRes e.w.trace c = some .pend ∧ e.w.scripts c ≠ []) ∨ Exec.stepsLeft n e = 0
  woke : ∀ e c, Inv e → lastOut e.w.trace = some .pending → c < n →
    lastRes e.w.trace c = some .pend →
    owes (e.fire c 0).w.trace c = true ∧ wokeSince (e.fire c 0).w.trace = true

/-- a quiescent state: `Pending`, not woken, every scripted step consumed -/
def Quiet (n : Nat) (Inv : Eng Fix → Prop) (e : Eng Fix) : Prop :=
  Inv e ∧ lastOut e.w.trace = some .pending ∧ wokeSince e.w.trace = false ∧ Exec.stepsLeft n e = 0

/-- the three phases of a run that has not finished (`Live.Cond`, the prodded child of the third
    phase has a step left) -/
def CondS (n : Nat) (e : Eng Fix) (N : Nat) : Prop :=
  (Exec.shouldPoll e.w.trace = true ∧ 3 * Exec.stepsLeft n e + 1 ≤ N) ∨
  (Exec.shouldPoll e.w.trace = false ∧ 3 * Exec.stepsLeft n e ≤ N) ∨
  (Exec.shouldPoll e.w.trace = true ∧
    (∃ c, c < n ∧ lastRes e.w.trace c = some .pend ∧ e.w.scripts c ≠ [] ∧ owes e.w.trace c = true) ∧
    1 ≤ Exec.stepsLeft n e ∧ 3 * Exec.stepsLeft n e ≤ N + 1)

variable {P : Policy Fix} {n : Nat} {Inv : Eng Fix → Prop} {Fin : Eng Fix → Prop}
variable {pick : Nat → Eng Fix → Nat} {pre post : Nat → Eng Fix → List (Nat × Nat)}

/-! ### no step left: nobody is waiting, the run is stuck -/

theorem total_zero (f : Nat → Nat) (n : Nat) (h : total f n = 0) : ∀ c, c < n → f c = 0 := by
  intro c hc
  have := le_total f n c hc
  omega

theorem total_zero_of (f : Nat → Nat) (n : Nat) (h : ∀ c, c < n → f c = 0) : total f n = 0 := by
  induction n with
  | zero => rfl
  | succ k ih => rw [total_succ, ih (fun c hc => h c (by omega)), h k (by omega)]

theorem scripts_nil_of_stepsLeft {e : Eng Fix} (h : Exec.stepsLeft n e = 0) (c : Nat) (hc : c < n) :
    e.w.scripts c = [] := by
  rw [stepsLeft_eq] at h
  have := total_zero _ n h c hc
  exact List.eq_nil_of_length_eq_zero this

theorem firstWaiting_none_of_stepsLeft {e : Eng Fix} (h : Exec.stepsLeft n e = 0) :
    Exec.firstWaiting n e = none := by
  unfold Exec.firstWaiting
  rw [List.find?_eq_none]
  intro c hc
  have := scripts_nil_of_stepsLeft h c (List.mem_range.mp hc)
  simp [this]

theorem choose_none_of_stepsLeft {e : Eng Fix} (r : Nat) (h : Exec.stepsLeft n e = 0) :
    ExecAny.choose n pick r e = none := by
  unfold ExecAny.choose
  split
  · rename_i hp
    have := scripts_nil_of_stepsLeft h _ hp.1
    have hw := (isWaiting_iff e (pick r e)).mp hp.2
    exact absurd this hw.2
  · exact firstWaiting_none_of_stepsLeft h

/-- a quiescent state is a fixed point of the executor: nothing to poll for, nobody to prod -/
theorem quiet_round {e : Eng Fix} (r : Nat) (h : Quiet n Inv e) :
    ExecAny.roundB P n pick pre post r e = none := by
  obtain ⟨_, hlo, hw, hs⟩ := h
  unfold ExecAny.roundB
  have hsp : Exec.shouldPoll e.w.trace = false := by rw [shouldPoll_pending hlo]; exact hw
  rw [hlo, hsp, choose_none_of_stepsLeft r hs]
  simp [Exec.finalOut]

theorem quiet_run {e : Eng Fix} (h : Quiet n Inv e) : ∀ (k r : Nat),
    ExecAny.runForB P n pick pre post k r e = e := by
  intro k r
  cases k with
  | zero => rfl
  | succ k => simp only [ExecAny.runForB, quiet_round r h]

/-- … in the words of Fc/ExecStuck.lean: a run at rest stays where it is, under every schedule and
    whatever wakers the busy environment would fire -/
theorem atRest_roundB {e : Eng Fix} (h : Exec.atRest n e = true) (r : Nat) :
    ExecAny.roundB P n pick pre post r e = none := by
  simp only [Exec.atRest, Bool.and_eq_true, beq_iff_eq, Bool.not_eq_true'] at h
  obtain ⟨⟨hlo, hw⟩, hs⟩ := h
  unfold ExecAny.roundB
  have hsp : Exec.shouldPoll e.w.trace = false := by rw [shouldPoll_pending hlo]; exact hw
  rw [hlo, hsp, choose_none_of_stepsLeft r hs]
  simp [Exec.finalOut]

theorem atRest_runB {e : Eng Fix} (h : Exec.atRest n e = true) (k r : Nat) :
    ExecAny.runForB P n pick pre post k r e = e := by
  cases k with
  | zero => rfl
  | succ k => simp only [ExecAny.runForB, atRest_roundB h r]

theorem atRest_run {e : Eng Fix} (h : Exec.atRest n e = true) (k r : Nat) :
    ExecAny.runFor P n pick k r e = e := by
  rw [runFor_eq_runForB]; exact atRest_runB h k r

/-! ### the deterministic executor of Fc/Exec.lean: a stuck run stays stuck -/

theorem exec_runFor_stuck {e : Eng Fix} (h : Exec.round P n e = none) :
    ∀ k, Exec.runFor P n k e = e := by
  intro k
  cases k with
  | zero => rfl
  | succ k => simp only [Exec.runFor, h]

theorem exec_runFor_add : ∀ (a b : Nat) (e : Eng Fix),
    Exec.runFor P n (a + b) e = Exec.runFor P n b (Exec.runFor P n a e) := by
  intro a
  induction a with
  | zero => intro b e; simp [Exec.runFor]
  | succ a ih =>
    intro b e
    rw [show a + 1 + b = (a + b) + 1 by omega]
    simp only [Exec.runFor]
    cases hr : Exec.round P n e with
    | none => simp only; rw [exec_runFor_stuck hr]
    | some e' => simp only; exact ih b e'

/-! ### executor rounds -/

theorem round_poll (G : ProgS P n Inv Fin) (r : Nat) (e : Eng Fix) (h : Inv e)
    (hsp : Exec.shouldPoll e.w.trace = true) :
    ExecAny.roundB P n pick pre post r e = some (Eng.poll P e (Exec.pollCount e.w.trace + 1)) := by
  unfold ExecAny.roundB; rw [finalOut_lo3 (G.lo e h), hsp]; simp

theorem round_fire (G : ProgS P n Inv Fin) (r : Nat) (e : Eng Fix) (h : Inv e)
    (hsp : Exec.shouldPoll e.w.trace = false)
    (c : Nat) (hch : ExecAny.choose n pick r e = some c) :
    ExecAny.roundB P n pick pre post r e
      = some (ExecAny.fires ((ExecAny.fires e (pre r e)).fire c 0) (post r e)) := by
  unfold ExecAny.roundB; rw [finalOut_lo3 (G.lo e h), hsp, hch]; simp

/-- the schedule prods a waiting child whenever there is one -/
theorem choose_some (pick : Nat → Eng Fix → Nat) (r : Nat) (e : Eng Fix)
    (hw : ∃ c, c < n ∧ lastRes e.w.trace c = some .pend ∧ e.w.scripts c ≠ []) :
    ∃ c, ExecAny.choose n pick r e = some c ∧ c < n ∧ lastRes e.w.trace c = some .pend ∧
      e.w.scripts c ≠ [] := by
  obtain ⟨c, hc, hlr, hne⟩ := hw
  obtain ⟨c0, h0⟩ := choose_isSome pick r hc ((isWaiting_iff e c).mpr ⟨hlr, hne⟩)
  obtain ⟨h1, h2⟩ := choose_spec h0
  obtain ⟨h3, h4⟩ := (isWaiting_iff e c0).mp h2
  exact ⟨c0, h0, h1, h3, h4⟩

theorem poll_round (G : ProgS P n Inv Fin) {N : Nat}
    (ih : ∀ r e, Inv e → CondS n e N →
      ∃ k, k ≤ N ∧ (Fin (ExecAny.runForB P n pick pre post k r e) ∨
        Quiet n Inv (ExecAny.runForB P n pick pre post k r e)))
    (r : Nat) (e : Eng Fix) (h : Inv e) (hsp : Exec.shouldPoll e.w.trace = true)
    (hE : ((∃ c, c < n ∧ lastRes e.w.trace c = some .pend ∧ e.w.scripts c ≠ [] ∧
              owes e.w.trace c = true) ∧
            3 * Exec.stepsLeft n e ≤ N + 2) ∨ 3 * Exec.stepsLeft n e ≤ N) :
    ∃ k, k ≤ N + 1 ∧ (Fin (ExecAny.runForB P n pick pre post k r e) ∨
        Quiet n Inv (ExecAny.runForB P n pick pre post k r e)) := by
  have hr := round_poll (pick := pick) (pre := pre) (post := post) G r e h hsp
  rcases G.poll e (Exec.pollCount e.w.trace + 1) h with hv | ⟨h', hle, hcase⟩
  · exact ⟨1, by omega, Or.inl (by simp only [ExecAny.runForB, hr]; exact hv)⟩
  · have hcond : CondS n (Eng.poll P e (Exec.pollCount e.w.trace + 1)) N := by
      rcases hcase with ⟨hnp, hlt⟩ | ⟨hlo', hD, hEE⟩
      · left
        refine ⟨shouldPoll_not_pending (G.lo _ h') hnp, ?_⟩
        rcases hE with ⟨_, hb⟩ | hb <;> omega
      · have hsp' := shouldPoll_pending hlo'
        cases hw : wokeSince (Eng.poll P e (Exec.pollCount e.w.trace + 1)).w.trace with
        | true =>
          left
          refine ⟨by rw [hsp', hw], ?_⟩
          rcases hE with ⟨⟨c, hc, h1, hne, h2⟩, hb⟩ | hb
          · have := hEE c hc h1 hne h2; omega
          · rcases hD with hD | hD
            · omega
            · rw [hw] at hD; exact Bool.noConfusion hD
        | false =>
          right; left
          refine ⟨by rw [hsp', hw], ?_⟩
          rcases hE with ⟨⟨c, hc, h1, hne, h2⟩, hb⟩ | hb
          · have := hEE c hc h1 hne h2; omega
          · omega
    obtain ⟨k, hk, hv⟩ := ih (r + 1) _ h' hcond
    exact ⟨k + 1, by omega, by simp only [ExecAny.runForB, hr]; exact hv⟩

/-- the induction on the number of rounds allowed; `r` = current round number -/
theorem ends_aux (G : ProgS P n Inv Fin) : ∀ (N r : Nat) (e : Eng Fix), Inv e → CondS n e N →
    ∃ k, k ≤ N ∧ (Fin (ExecAny.runForB P n pick pre post k r e) ∨
        Quiet n Inv (ExecAny.runForB P n pick pre post k r e)) := by
  intro N
  induction N with
  | zero =>
    intro r e h hc
    rcases hc with ⟨_, h1⟩ | ⟨hsp, h1⟩ | ⟨_, _, h1, h2⟩
    · omega
    · obtain ⟨hlo, hw⟩ := shouldPoll_false_pending3 (G.lo e h) hsp
      exact ⟨0, Nat.le_refl _, Or.inr ⟨h, hlo, hw, by simp only [ExecAny.runForB]; omega⟩⟩
    · omega
  | succ N ih =>
    intro r e h hc
    rcases hc with ⟨hsp, h1⟩ | ⟨hsp, h1⟩ | ⟨hsp, hwit, h1, h2⟩
    · exact poll_round G ih r e h hsp (Or.inr (by omega))
    · obtain ⟨hlo, hwk⟩ := shouldPoll_false_pending3 (G.lo e h) hsp
      rcases G.waiting e h hlo with hwait | hzero
      · obtain ⟨c, hch, hc, hlr, hne⟩ := choose_some pick r e hwait
        have hr := round_fire (pre := pre) (post := post) G r e h hsp c hch
        -- the wake-ups before the prod
        have h1' : Inv (ExecAny.fires e (pre r e)) := fires_inv G.fire _ e h
        have hlo1 : lastOut (ExecAny.fires e (pre r e)).w.trace = some .pending := by
          rw [fires_lastOut]; exact hlo
        have hlr1 : lastRes (ExecAny.fires e (pre r e)).w.trace c = some .pend := by
          rw [fires_lastRes]; exact hlr
        -- the prod
        obtain ⟨ho, hw⟩ := G.woke _ c h1' hlo1 hc hlr1
        have h2' : Inv ((ExecAny.fires e (pre r e)).fire c 0) := G.fire _ c 0 h1'
        -- the wake-ups after the prod
        have h' := fires_inv G.fire (post r e) _ h2'
        have ho' := fires_owes_mono (post r e) _ c ho
        have hw' := fires_wokeSince_mono (post r e) _ hw
        have hlr' : lastRes (ExecAny.fires ((ExecAny.fires e (pre r e)).fire c 0) (post r e)).w.trace c
            = some .pend := by
          rw [fires_lastRes]; simp only [Eng.fire_w, C16.lastRes_fire]; exact hlr1
        have hlo' : lastOut (ExecAny.fires ((ExecAny.fires e (pre r e)).fire c 0) (post r e)).w.trace
            = some .pending := by
          rw [fires_lastOut,
            show lastOut ((ExecAny.fires e (pre r e)).fire c 0).w.trace
              = lastOut (ExecAny.fires e (pre r e)).w.trace from C01.lastOut_fire _ c 0]
          exact hlo1
        have hsc : (ExecAny.fires ((ExecAny.fires e (pre r e)).fire c 0) (post r e)).w.scripts c
            = e.w.scripts c := by
          rw [fires_scripts]; simp only [Eng.fire_w, World.fire_scripts]; rw [fires_scripts]
        have hsl : Exec.stepsLeft n (ExecAny.fires ((ExecAny.fires e (pre r e)).fire c 0) (post r e))
            = Exec.stepsLeft n e := by
          rw [fires_stepsLeft, stepsLeft_fire, fires_stepsLeft]
        have h3 := le_total (fun c => (e.w.scripts c).length) n c hc
        have h4 := length_pos_of_ne_nil' _ hne
        have hcond : CondS n (ExecAny.fires ((ExecAny.fires e (pre r e)).fire c 0) (post r e)) N := by
          right; right
          refine ⟨by rw [shouldPoll_pending hlo', hw'], ⟨c, hc, hlr', by rw [hsc]; exact hne, ho'⟩,
            ?_, ?_⟩
          · rw [hsl, stepsLeft_eq]; omega
          · rw [hsl]; omega
        obtain ⟨k, hk, hv⟩ := ih (r + 1) _ h' hcond
        exact ⟨k + 1, by omega, by simp only [ExecAny.runForB, hr]; exact hv⟩
      · exact ⟨0, Nat.zero_le _, Or.inr ⟨h, hlo, hwk, hzero⟩⟩
    · exact poll_round G ih r e h hsp (Or.inl ⟨hwit, by omega⟩)

/-- every run from a state satisfying the invariant — whatever the schedule and the extra wake-ups —
    reaches the goal or a quiescent state within `3 * stepsLeft + 1` rounds -/
theorem endsB_of_prog (G : ProgS P n Inv Fin) (pick : Nat → Eng Fix → Nat)
    (pre post : Nat → Eng Fix → List (Nat × Nat)) (r : Nat) (e : Eng Fix) (h : Inv e)
    (hsp : Exec.shouldPoll e.w.trace = true) :
    ∃ k, k ≤ 3 * Exec.stepsLeft n e + 1 ∧
      (Fin (ExecAny.runForB P n pick pre post k r e) ∨
        Quiet n Inv (ExecAny.runForB P n pick pre post k r e)) :=
  ends_aux G _ r e h (Or.inl ⟨hsp, Nat.le_refl _⟩)

end LiveStuck
end Fc
